(** [rn_b64] (Base/DecSpec.v) is correct rounding.

    Links the executable SpecFloat-based definition to Flocq's
      round radix2 (FLT_exp (-1074) 53) ZnearestE
    of the exact real number: the result is that rounded real when its magnitude
    is below 2^1024, and the infinity of the right sign otherwise.
    Tools: Flocq's BinarySingleNaN ([binary_round_correct], [Bdiv_correct_aux])
    after identifying SpecFloat's nearest-even functions with Flocq's at mode_NE. *)
From Coq Require Import ZArith Reals Lia Lra Bool.
From Flocq Require Import Core.Core IEEE754.BinarySingleNaN.
From Perf Require Import Base.Bytes Base.B64 Base.DecSpec.
Local Open Scope Z_scope.

Local Instance Hprec53 : FLX.Prec_gt_0 53 := eq_refl _.
Local Instance Hmax1024 : Prec_lt_emax 53 1024 := eq_refl _.

Definition fexp64 : Z -> Z := FLT_exp (-1074) 53.
Definition rnd64 (x : R) : R := round radix2 fexp64 ZnearestE x.

Lemma fexp64_eq : fexp64 = SpecFloat.fexp 53 1024.
Proof. reflexivity. Qed.

(** ** SpecFloat's nearest-even functions are Flocq's at mode_NE *)
Lemma rne_equiv s m l : round_nearest_even m l = choice_mode mode_NE s m l.
Proof.
  case l; [reflexivity|intro c]. case c; [|reflexivity..].
  now simpl; unfold Round.cond_incr; case Z.even.
Qed.

Lemma sf_round_aux_equiv sx mx ex lx :
  SpecFloat.binary_round_aux 53 1024 sx mx ex lx = BinarySingleNaN.binary_round_aux 53 1024 mode_NE sx mx ex lx.
Proof.
  unfold SpecFloat.binary_round_aux, BinarySingleNaN.binary_round_aux.
  set (mrse' := shr_fexp _ _ _ _ _). case mrse'; intros mrs' e'; simpl.
  now rewrite (rne_equiv sx).
Qed.

Lemma sf_round_equiv s m e :
  SpecFloat.binary_round 53 1024 s m e = BinarySingleNaN.binary_round 53 1024 mode_NE s m e.
Proof.
  unfold SpecFloat.binary_round, BinarySingleNaN.binary_round, shl_align_fexp.
  set (mez := shl_align _ _ _); case mez as [mz ez]. apply sf_round_aux_equiv.
Qed.

(** ** what "correctly rounded" means for a computed [spec_float] *)
Definition rounds_to (neg : bool) (x : R) (z : spec_float) : Prop :=
  valid_binary 53 1024 z = true /\
  if Rlt_bool (Rabs (rnd64 x)) (bpow radix2 1024) then
    SF2R radix2 z = rnd64 x /\ is_finite_SF z = true /\ sign_SF z = neg
  else z = S754_infinity neg.

(** m * 2^e, by [binary_round] *)
Lemma binary_round_rounds neg p e :
  rounds_to neg (F2R (Float radix2 (cond_Zopp neg (Zpos p)) e)) (SpecFloat.binary_round 53 1024 neg p e).
Proof.
  rewrite sf_round_equiv.
  pose proof (binary_round_correct 53 1024 _ _ mode_NE neg p e) as H.
  cbv zeta in H. exact H.
Qed.

(** n / d, by [SFdiv_core_binary] and [binary_round_aux] *)
Lemma rn_ratio_rounds neg n d :
  rounds_to neg (F2R (Float radix2 (cond_Zopp neg (Zpos n)) 0) / F2R (Float radix2 (Zpos d) 0))
            (rn_ratio neg n d).
Proof.
  unfold rn_ratio, prec, emax.
  pose proof (Bdiv_correct_aux 53 1024 _ _ mode_NE neg n 0 false d 0) as H.
  cbv zeta in H. rewrite xorb_false_r in H.
  change (cond_Zopp false (Zpos d)) with (Zpos d) in H.
  destruct (SFdiv_core_binary 53 1024 (Zpos n) 0 (Zpos d) 0) as [[q e'] l].
  rewrite sf_round_aux_equiv. exact H.
Qed.

(** magnitudes below 2^-1080 round to zero *)
Lemma rnd64_tiny x : (Rabs x < bpow radix2 (-1080))%R -> rnd64 x = 0%R.
Proof.
  intros Hx. destruct (Req_dec x 0) as [->|Hnz]; [apply round_0; typeclasses eauto|].
  unfold rnd64. destruct (mag radix2 x) as [ex Hex]. specialize (Hex Hnz).
  apply round_N_small with (ex := ex); [exact Hex|].
  assert (ex - 1 < -1080).
  { apply (lt_bpow radix2). apply Rle_lt_trans with (1 := proj1 Hex). exact Hx. }
  unfold fexp64, FLT_exp. lia.
Qed.

Lemma zero_rounds neg x : rnd64 x = 0%R -> rounds_to neg x (S754_zero neg).
Proof.
  intros H. unfold rounds_to. split; [reflexivity|]. rewrite H, Rabs_R0.
  rewrite Rlt_bool_true by apply bpow_gt_0. cbn. auto.
Qed.

(** magnitudes of at least 2^1024 are beyond the finite range *)
Lemma rnd64_huge x : (bpow radix2 1024 <= Rabs x)%R -> (bpow radix2 1024 <= Rabs (rnd64 x))%R.
Proof.
  intros Hx. unfold rnd64.
  assert (G : generic_format radix2 fexp64 (bpow radix2 1024)).
  { apply generic_format_bpow. unfold fexp64, FLT_exp. lia. }
  destruct (Rle_or_lt 0 x) as [Hp|Hn].
  - rewrite Rabs_pos_eq in Hx by assumption.
    rewrite Rabs_pos_eq.
    + apply round_ge_generic; [typeclasses eauto.. | exact G | exact Hx].
    + apply round_ge_generic; [typeclasses eauto.. | apply generic_format_0 | exact Hp].
  - rewrite Rabs_left in Hx by assumption.
    rewrite Rabs_left1.
    + apply Ropp_le_cancel. rewrite Ropp_involutive.
      apply round_le_generic; [typeclasses eauto.. | now apply generic_format_opp | lra].
    + apply round_le_generic; [typeclasses eauto.. | apply generic_format_0 | lra].
Qed.

Lemma inf_rounds neg x : (bpow radix2 1024 <= Rabs x)%R -> rounds_to neg x (S754_infinity neg).
Proof.
  intros H. unfold rounds_to. split; [reflexivity|].
  rewrite Rlt_bool_false by now apply rnd64_huge. reflexivity.
Qed.

(** ** the exact real number a lexed numeral denotes *)
Definition radix10 : radix := Build_radix 10 (eq_refl _).

Definition exact_value (neg : bool) (m : Z) (base2 : bool) (e : Z) : R :=
  ((if neg then -1 else 1) * IZR m * (if base2 then bpow radix2 e else bpow radix10 e))%R.

Lemma rounds_to_ext neg x y z : x = y -> rounds_to neg x z -> rounds_to neg y z.
Proof. now intros ->. Qed.

Lemma F2R_cond neg (p : positive) e :
  F2R (Float radix2 (cond_Zopp neg (Zpos p)) e) = ((if neg then -1 else 1) * IZR (Zpos p) * bpow radix2 e)%R.
Proof.
  unfold F2R. cbn [Fnum Fexp]. destruct neg; cbn [cond_Zopp].
  - rewrite opp_IZR. lra.
  - lra.
Qed.

Lemma pos_lt_pow_digits p : (IZR (Zpos p) < bpow radix2 (digits2 p))%R.
Proof.
  unfold digits2. change (Zpos (digits2_pos p)) with (Zdigits2 (Zpos p)).
  rewrite Zdigits2_Zdigits.
  pose proof (Zdigits_correct radix2 (Zpos p)) as [_ H].
  rewrite <- IZR_Zpower by (apply Zdigits_ge_0).
  apply IZR_lt. rewrite Z.abs_eq in H by lia. exact H.
Qed.

Lemma pow8_le_pow10 k : 0 <= k -> (bpow radix2 (3 * k) <= bpow radix10 k)%R.
Proof.
  intros Hk. rewrite <- !IZR_Zpower by lia. apply IZR_le.
  change (radix_val radix2) with 2. change (radix_val radix10) with 10.
  rewrite Z.pow_mul_r by lia. change (2 ^ 3) with 8. apply Z.pow_le_mono_l. lia.
Qed.

Lemma two1024_le_ten310 : (bpow radix2 1024 <= bpow radix10 310)%R.
Proof.
  rewrite <- !IZR_Zpower by lia. apply IZR_le.
  change (radix_val radix2) with 2. change (radix_val radix10) with 10.
  apply Z.leb_le. vm_compute. reflexivity.
Qed.

Lemma abs_exact neg m b2 e : 0 <= m ->
  Rabs (exact_value neg m b2 e) = (IZR m * (if b2 then bpow radix2 e else bpow radix10 e))%R.
Proof.
  intros Hm. unfold exact_value.
  assert (0 <= IZR m)%R by now apply IZR_le.
  assert (0 < (if b2 then bpow radix2 e else bpow radix10 e))%R by (destruct b2; apply bpow_gt_0).
  rewrite !Rabs_mult. rewrite (Rabs_pos_eq (IZR m)) by assumption.
  rewrite (Rabs_pos_eq (if b2 then _ else _)) by lra.
  destruct neg.
  - rewrite Rabs_left by lra. lra.
  - rewrite Rabs_pos_eq by lra. lra.
Qed.

(** ** the theorem *)
Theorem rn_b64_rounds neg m base2 e : 0 <= m ->
  rounds_to neg (exact_value neg m base2 e) (rn_b64 neg m base2 e).
Proof.
  intros Hm. destruct m as [|p|p]; [| |lia].
  - (* zero *)
    cbn [rn_b64]. apply zero_rounds. unfold exact_value. rewrite Rmult_0_r, Rmult_0_l.
    apply round_0. typeclasses eauto.
  - cbn [rn_b64]. destruct base2.
    + (* m * 2^e *)
      destruct (Z.ltb_spec (digits2 p + e) (-1080)) as [Hs|Hs].
      * apply zero_rounds, rnd64_tiny. rewrite abs_exact by lia.
        apply Rlt_le_trans with (bpow radix2 (digits2 p) * bpow radix2 e)%R.
        { apply Rmult_lt_compat_r; [apply bpow_gt_0|apply pos_lt_pow_digits]. }
        rewrite <- bpow_plus. apply bpow_le. lia.
      * eapply rounds_to_ext; [|apply binary_round_rounds].
        rewrite F2R_cond. reflexivity.
    + destruct (Z.leb_spec 0 e) as [He|He].
      * destruct (Z.leb_spec 310 e) as [Hbig|Hsmall].
        -- (* >= 10^310 *)
           apply inf_rounds. rewrite abs_exact by lia.
           apply Rle_trans with (1 := two1024_le_ten310).
           apply Rle_trans with (bpow radix10 e); [apply bpow_le; lia|].
           assert (1 <= IZR (Zpos p))%R by (apply IZR_le; lia).
           pose proof (bpow_gt_0 radix10 e). nra.
        -- (* an integer *)
           assert (Hpos : 0 < Zpos p * 10 ^ e) by (apply Z.mul_pos_pos; [lia|apply Z.pow_pos_nonneg; lia]).
           eapply rounds_to_ext; [|apply binary_round_rounds].
           rewrite F2R_cond. unfold exact_value.
           rewrite Z2Pos.id by assumption. rewrite mult_IZR.
           change 10 with (radix_val radix10) at 1. rewrite IZR_Zpower by assumption.
           change (bpow radix2 0) with 1%R. lra.
      * (* m / 10^k *)
        destruct (Z.ltb_spec (digits2 p + 1080) (3 * - e)) as [Hs|Hs].
        -- apply zero_rounds, rnd64_tiny. rewrite abs_exact by lia.
           replace e with (- (- e)) at 1 by lia. rewrite bpow_opp.
           pose proof (pow8_le_pow10 (- e) ltac:(lia)) as H8.
           pose proof (bpow_gt_0 radix2 (3 * - e)) as G2. pose proof (bpow_gt_0 radix10 (- e)) as G10.
           pose proof (pos_lt_pow_digits p) as Hp.
           assert (Hle : (bpow radix2 (digits2 p) <= bpow radix2 (-1080) * bpow radix2 (3 * - e))%R).
           { rewrite <- bpow_plus. apply bpow_le. lia. }
           apply Rmult_lt_reg_r with (bpow radix10 (- e)); [assumption|].
           rewrite Rmult_assoc, Rinv_l, Rmult_1_r by lra.
           pose proof (bpow_gt_0 radix2 (-1080)). nra.
        -- assert (Hpos : 0 < 10 ^ (- e)) by (apply Z.pow_pos_nonneg; lia).
           eapply rounds_to_ext; [|apply rn_ratio_rounds].
           rewrite F2R_cond. unfold exact_value, F2R. cbn [Fnum Fexp].
           rewrite Z2Pos.id by assumption.
           change 10 with (radix_val radix10) at 1. rewrite IZR_Zpower by lia.
           change (bpow radix2 0) with 1%R.
           assert (E : bpow radix10 e = (/ bpow radix10 (- e))%R) by (rewrite <- bpow_opp; f_equal; lia).
           rewrite E. pose proof (bpow_gt_0 radix10 (- e)). field. lra.
Qed.

(** ** consequences used by the reader's integer fast path *)
Lemma rounds_to_finite neg x z :
  rounds_to neg x z -> (Rabs (rnd64 x) < bpow radix2 1024)%R -> b64_is_inf z = false.
Proof.
  intros [_ H] Hlt. rewrite Rlt_bool_true in H by assumption.
  destruct H as [_ [Hf _]]. destruct z; cbn in *; congruence.
Qed.

Lemma b64_of_Z_finite v : 0 <= v < 2 ^ 64 -> b64_is_inf (b64_of_Z v) = false.
Proof.
  intros Hv. destruct v as [|p|p]; [reflexivity| |lia].
  unfold b64_of_Z. cbn [binary_normalize]. unfold prec, emax.
  eapply rounds_to_finite; [apply binary_round_rounds|].
  apply Rle_lt_trans with (bpow radix2 64); [|apply bpow_lt; lia].
  apply abs_round_le_generic; [typeclasses eauto.. | |].
  - apply generic_format_bpow. unfold fexp64, FLT_exp. lia.
  - rewrite F2R_cond. change (bpow radix2 0) with 1%R.
    rewrite Rmult_1_l, Rmult_1_r. rewrite Rabs_pos_eq by (apply IZR_le; lia).
    rewrite <- IZR_Zpower by lia. apply IZR_le. change (radix_val radix2) with 2. lia.
Qed.
