(** C01: reading back what the writer wrote.  The invariant: after every
    written record, the configuration a reader of the output holds is the
    file part of what the writer believes it emitted, and that belief is the
    configuration of the result just written. *)
From Perf Require Import Base.Bytes Base.B64 Base.Utf8 Base.Unicode Model.Name Model.Extract Model.Units
  Model.Reader Model.Files Model.Writer Proofs.Units Proofs.ReaderSlots Proofs.Reader Proofs.WriterMap Proofs.WriterLines.
Local Open Scope N_scope.

(** what must come back for a written result *)
Definition rt_equiv (o : record) (r : result) : Prop :=
  match o with
  | RRes r' =>
      r_name r' = r_name r /\ r_iters r' = r_iters r /\
      map written (r_vals r') = map written (r_vals r) /\
      NoDup (keys (r_cfg r')) /\
      forall k, vlook (r_cfg r') k = fp (vlook (r_cfg r) k)
  | _ => False
  end.

Lemma vlook_in_nodup R c : NoDup (keys R) -> In c R -> vlook R (c_key c) = Some (c_val c, c_file c).
Proof.
  induction R as [|x R IH]; intros Hn Hin; [contradiction|].
  cbn [keys map] in Hn. inversion Hn as [|? ? Hx Hn']; subst. rewrite vlook_cons.
  destruct Hin as [->|Hin]; [now rewrite beq_refl|].
  destruct (beq_spec (c_key x) (c_key c)) as [E|Hne]; [|auto].
  exfalso. apply Hx. rewrite E. unfold keys. now apply in_map.
Qed.

Section WriterProofs.
Variables is_space is_lower is_upper : N -> bool.
Variable atoi : bytes -> option Z.
Variable parse_float : bytes -> option b64.
Variable fmt_g : b64 -> bytes.
Hypothesis Hcolon : is_space 58 = false /\ is_upper 58 = false.

Notation spec_step := (spec_step is_space is_lower is_upper atoi parse_float).
Notation spec_lines := (spec_lines is_space is_lower is_upper atoi parse_float).
Notation bench_ok := (bench_ok is_space atoi parse_float fmt_g).
Notation key_ok := (key_ok is_space is_lower is_upper).
Notation render := (render fmt_g).

(** configurations the format can carry: distinct keys, every key one the
    reader recognises, file values non-empty and not starting with a blank *)
Definition cfg_wf (R : list cfg) : Prop :=
  NoDup (keys R) /\ Forall (fun c => key_ok (c_key c)) R /\
  Forall (fun c => c_file c = true -> val_ok (c_val c)) R.
Definition WFres (r : result) : Prop := cfg_wf (r_cfg r) /\ bench_ok r.

Definition op_ok (o : wline) : Prop :=
  match o with
  | WSet k v => key_ok k /\ val_ok v
  | WDel k => key_ok k
  | WBlank => True
  | _ => False
  end.

Lemma val_ok_nonempty v : val_ok v -> v <> [].
Proof. destruct v; [contradiction|discriminate]. Qed.

Lemma cfg_wf_file_vals R : cfg_wf R -> file_vals_ok R.
Proof.
  intros (_ & _ & H). unfold file_vals_ok. eapply Forall_impl; [|exact H]. cbn. intros c Hc Hf.
  apply val_ok_nonempty; auto.
Qed.

Definition keys_ok (l : list cfg) : Prop := Forall (fun c => key_ok (c_key c)) l.

Lemma walk_ok H R : keys_ok H -> cfg_wf R ->
  Forall op_ok (fst (walk H R)) /\ keys_ok (snd (walk H R)).
Proof.
  intros HH (HnR & HkR & HvR). induction H as [|h H IH]; [split; constructor|].
  inversion HH as [|? ? Hh HH']; subst. destruct (IH HH') as [IH1 IH2]. cbn [walk].
  destruct (walk H R) as [ls hv]. cbn [fst snd] in *.
  destruct (cfg_lookup R (c_key h)) as [c|] eqn:Ec.
  - apply cfg_lookup_some in Ec as [_ Hin].
    destruct (same_cfg h c); cbn [fst snd]; [split; [auto|constructor; auto]|].
    split; [|constructor; auto].
    assert (Hset : c_file c = true -> op_ok (WSet (c_key h) (c_val c))).
    { intros Ef. split; auto. rewrite Forall_forall in HvR. auto. }
    destruct (c_file c) eqn:Ef; [|destruct (c_file h)]; cbn [app]; auto; constructor; auto.
  - cbn [fst snd]. split; auto.
Qed.

Lemma new_keys_ok R : cfg_wf R -> forall Hw, keys_ok Hw ->
  Forall op_ok (fst (new_keys R Hw)) /\ keys_ok (snd (new_keys R Hw)).
Proof.
  intros (HnR & HkR & HvR). clear HnR. induction R as [|c R IH]; intros Hw HHw; cbn [new_keys].
  - split; [constructor|exact HHw].
  - inversion HkR as [|? ? Hck HkR']; subst. inversion HvR as [|? ? Hcv HvR']; subst.
    destruct (has_key Hw (c_key c)); [apply IH; auto|].
    destruct (new_keys R (Hw ++ [_])) as [ls hv] eqn:En.
    destruct (IH HkR' HvR' (Hw ++ [mkCfg (c_key c) (c_val c) (c_file c)])) as [I1 I2].
    { apply Forall_app. split; auto. }
    rewrite En in I1, I2. cbn [fst snd] in *. split; auto.
    destruct (c_file c) eqn:Ef; cbn [app]; auto. constructor; auto. split; auto.
Qed.

Lemma cfg_part_wf w R : keys_ok (w_have w) -> cfg_wf R ->
  Forall op_ok (fst (cfg_part w R)) /\ keys_ok (snd (cfg_part w R)).
Proof.
  intros HH HR. unfold cfg_part. destruct (needs_config (w_have w) R); [|split; [constructor|exact HH]].
  unfold write_file_config. destruct (walk_ok (w_have w) R HH HR) as [W1 W2].
  destruct (walk (w_have w) R) as [l1 hv1]. cbn [fst snd] in *.
  destruct (new_keys_ok R HR hv1 W2) as [N1 N2].
  assert (Hpre : Forall op_ok (if w_first w then [] else [WBlank])) by (destruct (w_first w); repeat constructor).
  destruct (length hv1 =? length R)%nat.
  - cbn [fst snd]. split; auto. repeat (apply Forall_app; split); auto. repeat constructor.
  - destruct (new_keys R hv1) as [l2 hv2]. cbn [fst snd] in *. split; auto.
    repeat (apply Forall_app; split); auto. repeat constructor.
Qed.

Lemma write_result_eq w r :
  write_result w r = (fst (cfg_part w (r_cfg r)) ++ [WBench r], mkWstate false (snd (cfg_part w (r_cfg r)))).
Proof.
  unfold write_result, cfg_part. destruct (needs_config (w_have w) (r_cfg r)); [|reflexivity].
  destruct (write_file_config w (r_cfg r)). reflexivity.
Qed.

(** ** the reader on the emitted lines *)
Variable fname : bytes.
Variable um : list umetap.

Lemma spec_step_op o m n : op_ok o -> spec_step fname n m um (render o) = ([], apply_op m o, um).
Proof.
  destruct o as [k v|k| | |]; cbn [op_ok]; try contradiction; unfold Reader.spec_step.
  - intros [Hk Hv]. rewrite (classify_set _ _ _ _ _ _ Hcolon) by assumption. reflexivity.
  - intros Hk. rewrite (classify_del _ _ _ _ _ _ Hcolon) by assumption. reflexivity.
  - intros _. rewrite classify_blank. reflexivity.
Qed.

Lemma spec_lines_ops ops : Forall op_ok ops -> forall m n rest,
  spec_lines fname n m um (map Line (map render ops) ++ rest) =
  spec_lines fname (n + Z.of_nat (length ops)) (apply_ops m ops) um rest.
Proof.
  induction 1 as [|o ops Ho _ IH]; intros m n rest.
  - cbn. now rewrite Z.add_0_r.
  - cbn [map app Reader.spec_lines length]. rewrite spec_step_op by exact Ho.
    rewrite IH. cbn [app apply_ops fold_left].
    replace (n + 1 + Z.of_nat (length ops))%Z with (n + Z.of_nat (S (length ops)))%Z by lia.
    destruct (spec_lines fname _ _ um rest) as [[rs e] um']. reflexivity.
Qed.

Lemma spec_lines_bench r m n rest : bench_ok r ->
  spec_lines fname n m um (Line (render (WBench r)) :: rest) =
  let '(rs, e, um') := spec_lines fname (n + 1) m um rest in
  (RRes (mkResult m (r_name r) (r_iters r) (map (rv is_space) (map written (r_vals r))) fname (n + 1)) :: rs, e, um').
Proof.
  intros Hb. cbn [Reader.spec_lines]. unfold Reader.spec_step.
  rewrite (classify_bench _ _ _ _ _ _ _ Hb).
  destruct (spec_lines fname (n + 1) m um rest) as [[rs e] um']. reflexivity.
Qed.

Lemma written_rv p : written (rv is_space p) = p.
Proof.
  destruct p as [x u]. unfold rv, read_value. cbn [fst snd].
  destruct (tidy is_space x u) as [tv tu] eqn:E.
  destruct (beq tu u) eqn:Eb; unfold written; cbn [v_ounit v_val v_unit v_oval is_nil]; [reflexivity|].
  destruct u as [|c u]; [|reflexivity].
  exfalso. unfold tidy in E. cbn in E. injection E as _ <-. discriminate.
Qed.

Theorem roundtrip_spec rs : forall w m n,
  Forall WFres rs -> NoDup (keys (w_have w)) -> keys_ok (w_have w) -> Inv m (w_have w) ->
  exists out,
    spec_lines fname n m um (map Line (map render (fst (write_all w (map RRes rs))))) = (out, None, um) /\
    Forall2 rt_equiv out rs.
Proof.
  induction rs as [|r rs IH]; intros w m n Hwf HnH HkH Hinv.
  - exists []. split; [reflexivity|constructor].
  - inversion Hwf as [|? ? [Hcfg Hbench] Hwf']; subst.
    cbn [map write_all write_rec]. rewrite write_result_eq.
    set (cp := cfg_part w (r_cfg r)).
    destruct (write_all (mkWstate false (snd cp)) (map RRes rs)) as [l2 w2] eqn:E2. cbn [fst].
    destruct (cfg_part_wf w (r_cfg r) HkH Hcfg) as [Hops Hkeys]. fold cp in Hops, Hkeys.
    destruct (cfg_part_ok w (r_cfg r) m HnH (proj1 Hcfg) (cfg_wf_file_vals _ Hcfg) Hinv) as (Hn' & Hlook & Hinv').
    fold cp in Hn', Hlook, Hinv'.
    rewrite !map_app, <- app_assoc. rewrite spec_lines_ops by exact Hops.
    cbn [map app]. rewrite spec_lines_bench by exact Hbench.
    destruct (IH (mkWstate false (snd cp)) (apply_ops m (fst cp)) (n + Z.of_nat (length (fst cp)) + 1)%Z
                 Hwf' Hn' Hkeys Hinv') as (out & Hout & Hf).
    rewrite E2 in Hout. cbn [fst] in Hout. rewrite Hout.
    eexists. split; [reflexivity|]. constructor; [|exact Hf].
    cbn [rt_equiv r_name r_iters r_vals r_cfg]. repeat split; auto.
    + rewrite map_map. rewrite <- (map_id (map written (r_vals r))) at 2. apply map_ext. apply written_rv.
    + apply Hinv'.
    + intros k. destruct Hinv' as [_ Hi]. rewrite Hi, Hlook. reflexivity.
Qed.

Lemma rec_equiv_rt o o2 r : rec_equiv o o2 -> rt_equiv o2 r -> rt_equiv o r.
Proof.
  destruct o as [a| |], o2 as [b| |]; cbn; try contradiction.
  intros ((Hn1 & Hn2 & Hl) & E1 & E2 & E3 & _ & _) (F1 & F2 & F3 & F4 & F5).
  repeat split; try congruence.
  - exact Hn1.
  - intros k. rewrite <- F5. unfold vlook. now rewrite Hl.
Qed.

End WriterProofs.

Section WriterTheorems.
Variables is_space is_lower is_upper : N -> bool.
Variable atoi : bytes -> option Z.
Variable parse_float : bytes -> option b64.
Variable fmt_g : b64 -> bytes.
Hypothesis Hcolon : is_space 58 = false /\ is_upper 58 = false.

Notation WFres := (WFres is_space is_lower is_upper atoi parse_float fmt_g).

(** the round trip, through the model of the real reader, from any earlier
    state of that reader *)
Theorem roundtrip_history (rs : list result) (st : rstate) (fname : bytes) :
  Forall WFres rs ->
  Forall line_clean (map (render fmt_g) (fst (write_all w_init (map RRes rs)))) ->
  exists out st',
    read_file is_space is_lower is_upper atoi parse_float st fname [] (emit fmt_g (map RRes rs)) = (out, None, st') /\
    Forall2 rt_equiv out rs.
Proof.
  intros Hwf Hclean.
  destruct (read_file is_space is_lower is_upper atoi parse_float st fname [] (emit fmt_g (map RRes rs)))
    as [[out e] st'] eqn:E.
  destruct (reader_refines_linespec _ _ _ _ _ _ _ _ _ _ _ _ E) as (rs2 & Hls & Hf).
  unfold Reader.linespec, emit, emit_lines in Hls. rewrite split_join_lines in Hls by exact Hclean.
  destruct (roundtrip_spec is_space is_lower is_upper atoi parse_float fmt_g Hcolon (file_name fname) (rs_units st)
              rs w_init (cm_labels []) 0%Z Hwf) as (out2 & Hout2 & Hf2).
  { constructor. } { constructor. } { split; [constructor|reflexivity]. }
  rewrite Hout2 in Hls. injection Hls as <- <- _.
  exists out, st'. split; [reflexivity|].
  clear - Hf Hf2. revert rs Hf2. induction Hf as [|o o2 l l2 Ho _ IH]; intros rs Hf2; inversion Hf2; subst; constructor.
  - eapply rec_equiv_rt; eauto.
  - apply IH. assumption.
Qed.

(** tool-internal configuration never comes back as file configuration *)
Theorem internal_never_reappears (rs : list result) (st : rstate) (fname : bytes) :
  Forall WFres rs ->
  Forall line_clean (map (render fmt_g) (fst (write_all w_init (map RRes rs)))) ->
  exists out st',
    read_file is_space is_lower is_upper atoi parse_float st fname [] (emit fmt_g (map RRes rs)) = (out, None, st') /\
    Forall2 (fun o r => match o with
                        | RRes r' => forall c, In c (r_cfg r) -> c_file c = false -> cfg_lookup (r_cfg r') (c_key c) = None
                        | _ => False end) out rs.
Proof.
  intros Hwf Hclean. destruct (roundtrip_history rs st fname Hwf Hclean) as (out & st' & E & Hf).
  exists out, st'. split; [exact E|].
  clear E Hclean. induction Hf as [|o r l l2 Ho _ IH]; [constructor|].
  inversion Hwf as [|? ? [(Hn & _) _] Hwf']; subst. constructor; [|apply IH; exact Hwf'].
  destruct o as [r'| |]; try contradiction. destruct Ho as (_ & _ & _ & _ & Hl).
  intros c Hc Hfile. specialize (Hl (c_key c)). rewrite (vlook_in_nodup _ _ Hn Hc), Hfile in Hl. cbn in Hl.
  unfold vlook in Hl. destruct (cfg_lookup (r_cfg r') (c_key c)); [discriminate|reflexivity].
Qed.

End WriterTheorems.
