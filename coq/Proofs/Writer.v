(** C01: reading back what the writer wrote.  The invariant: after every
    written record, the configuration a reader of the output holds is the
    file part of what the writer believes it emitted, and that belief is the
    configuration of the result just written. *)
From Perf Require Import Base.Bytes Base.B64 Base.Utf8 Base.Unicode Model.Name Model.Extract Model.Units
  Model.Reader Model.Files Model.Writer Proofs.Units Proofs.ReaderSlots Proofs.Reader Proofs.WriterMap
  Proofs.WriterLines Proofs.WriterClean.
Local Open Scope N_scope.

(** what must come back for a written record *)
Definition rt_equiv (o : record) (w : record) : Prop :=
  match o, w with
  | RRes r', RRes r =>
      r_name r' = r_name r /\ r_iters r' = r_iters r /\
      map written (r_vals r') = map written (r_vals r) /\
      NoDup (keys (r_cfg r')) /\
      forall k, vlook (r_cfg r') k = fp (vlook (r_cfg r) k)
  | RUnit e, RUnit u => up_meta e = up_meta u
  | _, _ => False
  end.

Lemma vlook_in_nodup R c : NoDup (keys R) -> In c R -> vlook R (c_key c) = Some (c_val c, c_file c).
Proof.
  induction R as [|x R IH]; intros Hn Hin; [contradiction|].
  cbn [keys map] in Hn. inversion Hn as [|? ? Hx Hn']; subst. rewrite vlook_cons.
  destruct Hin as [->|Hin]; [now rewrite beq_refl|].
  destruct (beq_spec (c_key x) (c_key c)) as [E|Hne]; [|auto].
  exfalso. apply Hx. rewrite E. unfold keys. now apply in_map.
Qed.

(** the unit-metadata table as the set of its keys *)
Definition ukey (m : umeta) : bytes * bytes := (u_unit m, u_key m).
Definition ukeys (um : list umetap) : list (bytes * bytes) := map (fun e => ukey (up_meta e)) um.

Lemma umap_find_fresh um tu k : ~ In (tu, k) (ukeys um) -> umap_find um tu k = None.
Proof.
  induction um as [|e um IH]; intros H; [reflexivity|]. cbn [umap_find find].
  destruct (beq_spec (u_unit (up_meta e)) tu) as [E1|]; cbn [andb].
  - destruct (beq_spec (u_key (up_meta e)) k) as [E2|].
    + exfalso. apply H. left. unfold ukey. now rewrite E1, E2.
    + apply IH. intros Hin. apply H. now right.
  - apply IH. intros Hin. apply H. now right.
Qed.

Section WriterProofs.
Variables is_space is_lower is_upper : N -> bool.
Variable atoi : bytes -> option Z.
Variable parse_float : bytes -> option b64.
Variable fmt_g : b64 -> bytes.
Hypothesis Hcolon : is_space 58 = false /\ is_upper 58 = false.
Hypothesis Hlf : is_space 10 = true.

Notation spec_step := (spec_step is_space is_lower is_upper atoi parse_float).
Notation spec_lines := (spec_lines is_space is_lower is_upper atoi parse_float).
Notation bench_ok := (bench_ok is_space atoi parse_float fmt_g).
Notation key_ok := (key_ok is_space is_lower is_upper).
Notation unit_ok := (unit_ok is_space).
Notation render := (render fmt_g).

Definition short (l : bytes) : Prop := N.of_nat (length l) < max_token.

(** a key the reader recognises, short enough for a line of its own *)
Definition kgood (k : bytes) : Prop := key_ok k /\ short (k ++ bs ":").
(** a value the format can carry after that key: non-empty, not starting with
    a blank, no LF, not ending in CR, the line under the scanner's limit *)
Definition vgood (k v : bytes) : Prop := val_ok v /\ val_clean v /\ short (k ++ bs ": " ++ v).

(** a configuration the format can carry: distinct keys; every FILE entry has a
    key the reader recognises and a value that fits on its line.  Internal
    entries (tool labels such as ".file") are not constrained: the writer
    never prints their values. *)
Definition cfg_wf (R : list cfg) : Prop :=
  NoDup (keys R) /\
  Forall (fun c => c_file c = true -> kgood (c_key c) /\ vgood (c_key c) (c_val c)) R.

(** from one result to the next: the writer prints "key:" for every key that
    disappears, so a key that cannot stand on a line of its own (necessarily an
    internal one) must still be there *)
Definition stays (P R : list cfg) : Prop :=
  Forall (fun h => kgood (c_key h) \/ (c_file h = false /\ has_key R (c_key h) = true)) P.

(** a result the format can carry; the size clause bounds its own benchmark line *)
Definition WFres (r : result) : Prop :=
  cfg_wf (r_cfg r) /\ bench_ok r /\ short (render (WBench r)).
Definition WFunit (u : umeta) : Prop := unit_ok u /\ short (render (WUnitL u)).

Definition op_ok (o : wline) : Prop :=
  match o with
  | WSet k v => kgood k /\ vgood k v
  | WDel k => kgood k
  | WBlank => True
  | _ => False
  end.

Lemma val_ok_nonempty v : val_ok v -> v <> [].
Proof. destruct v; [contradiction|discriminate]. Qed.

Lemma cfg_wf_file_vals R : cfg_wf R -> file_vals_ok R.
Proof.
  intros (_ & H). unfold file_vals_ok. eapply Forall_impl; [|exact H]. cbn. intros c Hc Hf.
  apply val_ok_nonempty. apply Hc; auto.
Qed.

Lemma stays_nil R : stays [] R.
Proof. constructor. Qed.

(** [stays] only looks at keys and flags *)
Lemma stays_look P H R : NoDup (keys H) -> (forall k, vlook H k = vlook P k) -> stays P R -> stays H R.
Proof.
  intros Hn Hl Hs. unfold stays in *. rewrite Forall_forall in *. intros h Hh.
  pose proof (vlook_in_nodup _ _ Hn Hh) as E. rewrite Hl in E. unfold vlook in E.
  destruct (cfg_lookup P (c_key h)) as [c|] eqn:Ec; [|discriminate]. cbn in E. injection E as _ Ef.
  apply cfg_lookup_some in Ec as [Ek Hin]. specialize (Hs c Hin). rewrite Ek, Ef in Hs. exact Hs.
Qed.

Lemma walk_ok H R : stays H R -> cfg_wf R -> Forall op_ok (fst (walk H R)).
Proof.
  intros HH (HnR & HvR). induction H as [|h H IH]; [constructor|].
  inversion HH as [|? ? Hh HH']; subst. specialize (IH HH'). cbn [walk].
  destruct (walk H R) as [ls hv]. cbn [fst snd] in *.
  destruct (cfg_lookup R (c_key h)) as [c|] eqn:Ec.
  - pose proof Ec as Ec'. apply cfg_lookup_some in Ec' as [Ek Hin].
    destruct (same_cfg h c); cbn [fst snd]; [auto|].
    rewrite Forall_forall in HvR. specialize (HvR c Hin). rewrite Ek in HvR.
    destruct (c_file c) eqn:Ef; [|destruct (c_file h) eqn:Eh]; cbn [app]; auto; constructor; auto.
    + cbn. auto.
    + cbn. destruct Hh as [Hk|[Hf _]]; [exact Hk|congruence].
  - cbn [fst snd]. constructor; auto. cbn.
    destruct Hh as [Hk|[_ Hf]]; [exact Hk|]. unfold has_key in Hf. rewrite Ec in Hf. discriminate.
Qed.

Lemma new_keys_ok R : cfg_wf R -> forall Hw, Forall op_ok (fst (new_keys R Hw)).
Proof.
  intros (_ & HvR). induction R as [|c R IH]; intros Hw; cbn [new_keys]; [constructor|].
  inversion HvR as [|? ? Hcv HvR']; subst.
  destruct (has_key Hw (c_key c)); [apply IH; auto|].
  specialize (IH HvR' (Hw ++ [mkCfg (c_key c) (c_val c) (c_file c)])).
  destruct (new_keys R (Hw ++ [_])) as [ls hv]. cbn [fst] in *.
  destruct (c_file c) eqn:Ef; cbn [app]; auto. constructor; auto. cbn. auto.
Qed.

Lemma cfg_part_wf w R : stays (w_have w) R -> cfg_wf R -> Forall op_ok (fst (cfg_part w R)).
Proof.
  intros HH HR. unfold cfg_part. destruct (needs_config (w_have w) R); [|constructor].
  unfold write_file_config. pose proof (walk_ok (w_have w) R HH HR) as W1.
  destruct (walk (w_have w) R) as [l1 hv1]. cbn [fst snd] in *.
  pose proof (new_keys_ok R HR hv1) as N1.
  assert (Hpre : Forall op_ok (if w_first w then [] else [WBlank])) by (destruct (w_first w); repeat constructor).
  destruct (length hv1 =? length R)%nat.
  - cbn [fst]. repeat (apply Forall_app; split); auto. repeat constructor.
  - destruct (new_keys R hv1) as [l2 hv2]. cbn [fst] in *.
    repeat (apply Forall_app; split); auto. repeat constructor.
Qed.

(** after the configuration part the belief has the result's keys, values and flags *)
Lemma cfg_part_look w R : NoDup (keys (w_have w)) -> NoDup (keys R) ->
  NoDup (keys (snd (cfg_part w R))) /\ forall k, vlook (snd (cfg_part w R)) k = vlook R k.
Proof.
  intros HnH HnR. unfold cfg_part. destruct (needs_config (w_have w) R) eqn:En.
  2:{ cbn [snd]. split; [exact HnH|]. now apply needs_config_false. }
  rewrite write_file_config_eq by auto. cbn [snd].
  split; [apply new_keys_nodup, walk_nodup; auto|].
  intros k. rewrite new_look, walk_look by auto.
  destruct (vlook (w_have w) k); [destruct (vlook R k); reflexivity|reflexivity].
Qed.

Lemma write_result_eq w r :
  write_result w r = (fst (cfg_part w (r_cfg r)) ++ [WBench r], mkWstate false (snd (cfg_part w (r_cfg r)))).
Proof.
  unfold write_result, cfg_part. destruct (needs_config (w_have w) (r_cfg r)); [|reflexivity].
  destruct (write_file_config w (r_cfg r)). reflexivity.
Qed.

(** ** every rendered line is clean: derived from the inputs *)
Lemma op_line_clean o : op_ok o -> line_clean (render o).
Proof.
  destruct o as [k v|k| | |]; cbn [op_ok]; try contradiction.
  - intros [[Hk _] (Hv & Hc & Hs)].
    destruct (set_line_clean is_space is_lower is_upper atoi parse_float fmt_g Hcolon Hlf k v Hk Hv Hc) as [H1 H2].
    split; [exact H1|]. split; [exact H2|exact Hs].
  - intros [Hk Hs]. destruct (del_line_clean is_space is_lower is_upper atoi parse_float fmt_g Hcolon Hlf k Hk) as [H1 H2].
    split; [exact H1|]. split; [exact H2|exact Hs].
  - intros _. destruct (blank_line_clean fmt_g) as [H1 H2]. split; [exact H1|]. split; [exact H2|reflexivity].
Qed.

Lemma bench_clean r : bench_ok r -> short (render (WBench r)) -> line_clean (render (WBench r)).
Proof.
  intros Hb Hs. destruct (bench_line_clean is_space is_upper atoi parse_float fmt_g Hcolon r Hb) as [H1 H2].
  split; [exact H1|]. split; [exact H2|exact Hs].
Qed.

Lemma unit_clean u : WFunit u -> line_clean (render (WUnitL u)).
Proof.
  intros [Hu Hs]. destruct (unit_line_clean is_space is_upper fmt_g Hcolon u Hu) as [H1 H2].
  split; [exact H1|]. split; [exact H2|exact Hs].
Qed.

(** ** the reader on the emitted lines *)
Variable fname : bytes.

Lemma spec_step_op o m um n : op_ok o -> spec_step fname n m um (render o) = ([], apply_op m o, um).
Proof.
  destruct o as [k v|k| | |]; cbn [op_ok]; try contradiction; unfold Reader.spec_step.
  - intros [[Hk _] (Hv & _)]. rewrite (classify_set _ _ _ _ _ _ Hcolon) by assumption. reflexivity.
  - intros [Hk _]. rewrite (classify_del _ _ _ _ _ _ Hcolon) by assumption. reflexivity.
  - intros _. rewrite classify_blank. reflexivity.
Qed.

Lemma spec_lines_ops ops : Forall op_ok ops -> forall m um n rest,
  spec_lines fname n m um (map Line (map render ops) ++ rest) =
  spec_lines fname (n + Z.of_nat (length ops)) (apply_ops m ops) um rest.
Proof.
  induction 1 as [|o ops Ho _ IH]; intros m um n rest.
  - cbn. now rewrite Z.add_0_r.
  - cbn [map app Reader.spec_lines length]. rewrite spec_step_op by exact Ho.
    rewrite IH. cbn [app apply_ops fold_left].
    replace (n + 1 + Z.of_nat (length ops))%Z with (n + Z.of_nat (S (length ops)))%Z by lia.
    destruct (spec_lines fname _ _ um rest) as [[rs e] um']. reflexivity.
Qed.

Lemma spec_lines_bench r m um n rest : bench_ok r ->
  spec_lines fname n m um (Line (render (WBench r)) :: rest) =
  let '(rs, e, um') := spec_lines fname (n + 1) m um rest in
  (RRes (mkResult m (r_name r) (r_iters r) (map (rv is_space) (map written (r_vals r))) fname (n + 1)) :: rs, e, um').
Proof.
  intros Hb. cbn [Reader.spec_lines]. unfold Reader.spec_step.
  rewrite (classify_bench _ _ _ _ _ _ _ Hb).
  destruct (spec_lines fname (n + 1) m um rest) as [[rs e] um']. reflexivity.
Qed.

Lemma parse_unit_field_kv k v : k <> [] -> ~ In x3d k -> parse_unit_field (k ++ x3d :: v) = UFKV k v.
Proof.
  intros Hne Hnot. unfold parse_unit_field. rewrite index_byte_app_notin by exact Hnot.
  destruct k as [|b k]; [congruence|]. cbn [length].
  change (S (length k)) with (length (b :: k)). rewrite firstn_app_exact.
  replace (skipn (S (length (b :: k))) ((b :: k) ++ x3d :: v)) with v; [reflexivity|].
  replace ((b :: k) ++ x3d :: v) with (((b :: k) ++ [x3d]) ++ v) by (rewrite <- app_assoc; reflexivity).
  replace (S (length (b :: k))) with (length ((b :: k) ++ [x3d])) by (rewrite app_length; cbn; lia).
  rewrite skipn_app, skipn_all, Nat.sub_diag. reflexivity.
Qed.

Lemma spec_lines_unit u m um n rest : unit_ok u -> ~ In (ukey u) (ukeys um) ->
  spec_lines fname n m um (Line (render (WUnitL u)) :: rest) =
  let e0 := mkUmetap u fname (n + 1) in
  let '(rs, e, um') := spec_lines fname (n + 1) m (um ++ [e0]) rest in (RUnit e0 :: rs, e, um').
Proof.
  intros Hu Hfresh. pose proof Hu as (Htu & _ & Hk1 & Hk2 & _).
  cbn [Reader.spec_lines]. unfold Reader.spec_step.
  rewrite (classify_unit _ _ _ _ _ _ _ Hu). unfold unit_fields_of, Reader.unit_line.
  cbn [Reader.unit_fields]. rewrite parse_unit_field_kv by assumption. rewrite <- Htu.
  rewrite umap_find_fresh by exact Hfresh.
  replace (mkUmeta (u_unit u) (u_key u) (u_orig u) (u_value u)) with u by (destruct u; reflexivity).
  cbn zeta. destruct (spec_lines fname (n + 1) m (um ++ [mkUmetap u fname (n + 1)]) rest) as [[rs e] um']. reflexivity.
Qed.

Lemma written_rv p : written (rv is_space p) = p.
Proof.
  destruct p as [x u]. unfold rv, read_value. cbn [fst snd].
  destruct (tidy is_space x u) as [tv tu] eqn:E.
  destruct (beq tu u) eqn:Eb; unfold written; cbn [v_ounit v_val v_unit v_oval is_nil]; [reflexivity|].
  destruct u as [|c u]; [|reflexivity].
  exfalso. unfold tidy in E. cbn in E. injection E as _ <-. discriminate.
Qed.

(** a well-formed stream: results and unit-metadata records.  [prev] is the
    configuration of the previous result ([] at the start): see [stays].
    Metadata keys (tidied unit, key) are new with respect to [seen] and
    pairwise distinct *)
Inductive WFhist : list cfg -> list (bytes * bytes) -> list record -> Prop :=
| WFh_nil prev seen : WFhist prev seen []
| WFh_res prev seen r recs : WFres r -> stays prev (r_cfg r) -> WFhist (r_cfg r) seen recs ->
    WFhist prev seen (RRes r :: recs)
| WFh_unit prev seen u recs : WFunit (up_meta u) -> ~ In (ukey (up_meta u)) seen ->
    WFhist prev (seen ++ [ukey (up_meta u)]) recs -> WFhist prev seen (RUnit u :: recs).

(** the lines written for a well-formed stream are clean *)
Lemma written_lines_clean recs : forall prev seen w, WFhist prev seen recs ->
  NoDup (keys (w_have w)) -> (forall k, vlook (w_have w) k = vlook prev k) ->
  Forall line_clean (map render (fst (write_all w recs))).
Proof.
  induction recs as [|rec recs IH]; intros prev seen w Hwf HnH Hlk; [constructor|].
  inversion Hwf as [|? ? r ? (Hcfg & Hbench & Hshort) Hst Hwf'|? ? u ? Hu Hfresh Hwf']; subst.
  - cbn [write_all write_rec]. rewrite write_result_eq.
    pose proof (cfg_part_wf w (r_cfg r) (stays_look _ _ _ HnH Hlk Hst) Hcfg) as Hops.
    destruct (cfg_part_look w (r_cfg r) HnH (proj1 Hcfg)) as [Hn' Hl'].
    specialize (IH (r_cfg r) seen (mkWstate false (snd (cfg_part w (r_cfg r)))) Hwf' Hn' Hl').
    destruct (write_all (mkWstate false (snd (cfg_part w (r_cfg r)))) recs) as [l2 w2]. cbn [fst] in *.
    rewrite !map_app. repeat (apply Forall_app; split); auto.
    + apply Forall_map. eapply Forall_impl; [|exact Hops]. apply op_line_clean.
    + constructor; [|constructor]. now apply bench_clean.
  - cbn [write_all write_rec]. specialize (IH _ _ w Hwf' HnH Hlk).
    destruct (write_all w recs) as [l2 w2]. cbn [fst app map] in *. constructor; auto. now apply unit_clean.
Qed.

Theorem roundtrip_spec recs : forall prev w m n um,
  WFhist prev (ukeys um) recs -> NoDup (keys (w_have w)) -> (forall k, vlook (w_have w) k = vlook prev k) ->
  Inv m (w_have w) ->
  exists out um',
    spec_lines fname n m um (map Line (map render (fst (write_all w recs)))) = (out, None, um') /\
    Forall2 rt_equiv out recs.
Proof.
  induction recs as [|rec recs IH]; intros prev w m n um Hwf HnH Hlk Hinv.
  - exists [], um. split; [reflexivity|constructor].
  - inversion Hwf as [|? ? r ? (Hcfg & Hbench & Hshort) Hst Hwf'|? ? u ? [Hu _] Hfresh Hwf']; subst.
    + cbn [write_all write_rec]. rewrite write_result_eq.
      set (cp := cfg_part w (r_cfg r)).
      destruct (write_all (mkWstate false (snd cp)) recs) as [l2 w2] eqn:E2. cbn [fst].
      pose proof (cfg_part_wf w (r_cfg r) (stays_look _ _ _ HnH Hlk Hst) Hcfg) as Hops. fold cp in Hops.
      destruct (cfg_part_ok w (r_cfg r) m HnH (proj1 Hcfg) (cfg_wf_file_vals _ Hcfg) Hinv) as (Hn' & Hlook & Hinv').
      fold cp in Hn', Hlook, Hinv'.
      rewrite !map_app, <- app_assoc. rewrite spec_lines_ops by exact Hops.
      cbn [map app]. rewrite spec_lines_bench by exact Hbench.
      destruct (IH (r_cfg r) (mkWstate false (snd cp)) (apply_ops m (fst cp)) (n + Z.of_nat (length (fst cp)) + 1)%Z um
                   Hwf' Hn' Hlook Hinv') as (out & um' & Hout & Hf).
      rewrite E2 in Hout. cbn [fst] in Hout. rewrite Hout.
      eexists _, um'. split; [reflexivity|]. constructor; [|exact Hf].
      cbn [rt_equiv r_name r_iters r_vals r_cfg]. repeat split; auto.
      * rewrite map_map. rewrite <- (map_id (map written (r_vals r))) at 2. apply map_ext. apply written_rv.
      * apply Hinv'.
      * intros k. destruct Hinv' as [_ Hi]. rewrite Hi, Hlook. reflexivity.
    + cbn [write_all write_rec].
      destruct (write_all w recs) as [l2 w2] eqn:E2. cbn [fst app map].
      rewrite spec_lines_unit by assumption. cbn zeta.
      assert (Hwf'' : WFhist prev (ukeys (um ++ [mkUmetap (up_meta u) fname (n + 1)])) recs).
      { unfold ukeys. rewrite map_app. exact Hwf'. }
      destruct (IH prev w m (n + 1)%Z _ Hwf'' HnH Hlk Hinv) as (out & um' & Hout & Hf).
      rewrite E2 in Hout. cbn [fst] in Hout. rewrite Hout.
      eexists _, um'. split; [reflexivity|]. constructor; [reflexivity|exact Hf].
Qed.

Lemma rec_equiv_rt o o2 r : rec_equiv o o2 -> rt_equiv o2 r -> rt_equiv o r.
Proof.
  destruct o as [a|a|], o2 as [b|b|], r as [c|c|]; cbn; try contradiction; try tauto.
  - intros ((Hn1 & Hn2 & Hl) & E1 & E2 & E3 & _ & _) (F1 & F2 & F3 & F4 & F5).
    repeat split; try congruence.
    + exact Hn1.
    + intros k. rewrite <- F5. unfold vlook. now rewrite Hl.
  - intros -> H. exact H.
Qed.

End WriterProofs.

Section WriterTheorems.
Variables is_space is_lower is_upper : N -> bool.
Variable atoi : bytes -> option Z.
Variable parse_float : bytes -> option b64.
Variable fmt_g : b64 -> bytes.
Hypothesis Hcolon : is_space 58 = false /\ is_upper 58 = false.
Hypothesis Hlf : is_space 10 = true.

Notation WFhist := (WFhist is_space is_lower is_upper atoi parse_float fmt_g).

(** the round trip, through the model of the real reader, from any earlier
    state of that reader: results and unit metadata, in order *)
Theorem roundtrip_history (recs : list record) (st : rstate) (fname : bytes) :
  WFhist [] (ukeys (rs_units st)) recs ->
  exists out st',
    read_file is_space is_lower is_upper atoi parse_float st fname [] (emit fmt_g recs) = (out, None, st') /\
    Forall2 rt_equiv out recs.
Proof.
  intros Hwf.
  destruct (read_file is_space is_lower is_upper atoi parse_float st fname [] (emit fmt_g recs))
    as [[out e] st'] eqn:E.
  destruct (reader_refines_linespec _ _ _ _ _ _ _ _ _ _ _ _ E) as (rs2 & Hls & Hf).
  unfold Reader.linespec, emit, emit_lines in Hls.
  rewrite split_join_lines in Hls
    by (eapply (written_lines_clean is_space is_lower is_upper atoi parse_float fmt_g Hcolon Hlf); [exact Hwf|constructor|reflexivity]).
  destruct (roundtrip_spec is_space is_lower is_upper atoi parse_float fmt_g Hcolon (file_name fname)
              recs [] w_init (cm_labels []) 0%Z (rs_units st) Hwf) as (out2 & um' & Hout2 & Hf2).
  { constructor. } { reflexivity. } { split; [constructor|reflexivity]. }
  rewrite Hout2 in Hls. injection Hls as <- <- _.
  exists out, st'. split; [reflexivity|].
  clear - Hf Hf2. revert recs Hf2. induction Hf as [|o o2 l l2 Ho _ IH]; intros recs Hf2; inversion Hf2; subst; constructor.
  - eapply rec_equiv_rt; eauto.
  - apply IH. assumption.
Qed.

(** tool-internal configuration never comes back as file configuration *)
Theorem internal_never_reappears (recs : list record) (st : rstate) (fname : bytes) :
  WFhist [] (ukeys (rs_units st)) recs ->
  exists out st',
    read_file is_space is_lower is_upper atoi parse_float st fname [] (emit fmt_g recs) = (out, None, st') /\
    Forall2 (fun o w => match o, w with
                        | RRes r', RRes r => forall c, In c (r_cfg r) -> c_file c = false ->
                                                       cfg_lookup (r_cfg r') (c_key c) = None
                        | RUnit _, RUnit _ => True
                        | _, _ => False end) out recs.
Proof.
  intros Hwf. destruct (roundtrip_history recs st fname Hwf) as (out & st' & E & Hf).
  exists out, st'. split; [exact E|].
  clear E. revert Hwf. generalize (ukeys (rs_units st)). generalize (@nil cfg).
  induction Hf as [|o w l l2 Ho _ IH]; intros prev seen Hwf; [constructor|].
  inversion Hwf as [|? ? r ? ((Hn & _) & _) _ Hwf'|? ? u ? _ _ Hwf']; subst.
  - constructor; [|eapply IH; eauto].
    destruct o as [r'| |]; try contradiction. destruct Ho as (_ & _ & _ & _ & Hl).
    intros c Hc Hfile. specialize (Hl (c_key c)). rewrite (vlook_in_nodup _ _ Hn Hc), Hfile in Hl. cbn in Hl.
    unfold vlook in Hl. destruct (cfg_lookup (r_cfg r') (c_key c)); [discriminate|reflexivity].
  - constructor; [|eapply IH; eauto]. destruct o; try contradiction. exact I.
Qed.

End WriterTheorems.
