(** "duplicates disambiguated", as a statement about the labels themselves (not
    about the way they are computed): under the label rule, inputs that name
    the same path without a label of their own carry pairwise different labels
    ([dups_distinct], Model/ReaderSpec.v).  Needs: the decimal rendering of the
    counter is injective. *)
From Perf Require Import Base.Bytes Model.Name Model.Extract Model.Reader Model.Files Model.ReaderSpec
  Proofs.ReaderSlots Proofs.FilesLabels.
Local Open Scope N_scope.

(** ** [dec] is injective: it can be read back *)
Definition undec (l : bytes) : N := fold_left (fun a b => a * 10 + (bN b - 48)) l 0.

Lemma undec_snoc l d : undec (l ++ [d]) = undec l * 10 + (bN d - 48).
Proof. unfold undec. now rewrite fold_left_app. Qed.

Lemma digit_byte n : bN (match Byte.of_N (48 + n mod 10) with Some b => b | None => x30 end) = 48 + n mod 10.
Proof.
  pose proof (N.mod_upper_bound n 10 ltac:(lia)) as Hm.
  destruct (Byte.of_N (48 + n mod 10)) as [b|] eqn:E.
  - unfold bN. now apply Byte.to_of_N.
  - apply Byte.of_N_None_iff in E. lia.
Qed.

Lemma dec_digits_spec f : forall n acc, n < 2 ^ N.of_nat f ->
  exists ds, dec_digits f n acc = ds ++ acc /\ undec ds = n.
Proof.
  induction f as [|f IH]; intros n acc Hn.
  - cbn in Hn. exists []. split; [reflexivity|]. cbn. lia.
  - cbn [dec_digits]. set (d := match Byte.of_N (48 + n mod 10) with Some b => b | None => x30 end).
    assert (Hd : bN d = 48 + n mod 10) by apply digit_byte.
    destruct (N.ltb_spec n 10) as [Hs|Hs].
    + exists [d]. split; [reflexivity|]. unfold undec. cbn [fold_left]. rewrite Hd.
      rewrite N.mod_small by exact Hs. lia.
    + destruct (IH (n / 10) (d :: acc)) as (ds & E & Hu).
      { rewrite Nat2N.inj_succ, N.pow_succ_r' in Hn.
        apply N.div_lt_upper_bound; [lia|]. lia. }
      exists (ds ++ [d]). split; [rewrite E, <- app_assoc; reflexivity|].
      rewrite undec_snoc, Hu, Hd. rewrite (N.add_comm 48), N.add_sub.
      rewrite N.mul_comm. symmetry. apply N.div_mod. lia.
Qed.

Lemma undec_dec n : undec (dec n) = n.
Proof.
  unfold dec. destruct (dec_digits_spec (S (N.to_nat (N.log2 n))) n []) as (ds & E & Hu).
  - rewrite Nat2N.inj_succ, N2Nat.id.
    destruct (N.eq_dec n 0) as [->|Hz]; [cbn; lia|].
    apply N.log2_spec. lia.
  - rewrite E, app_nil_r. exact Hu.
Qed.

Lemma dec_inj a b : dec a = dec b -> a = b.
Proof. intros H. rewrite <- (undec_dec a), <- (undec_dec b). now rewrite H. Qed.

(** ** the labels of the rule *)
Definition relabel (all before : list finput) (i : finput) : finput :=
  if fi_labeled i then i
  else if occurrences all (fi_path i) =? 1 then i
  else mkFinput (fi_path i) (fi_path i ++ [x23] ++ dec (occurrences before (fi_path i))) false.

Lemma spec_labels_from_cons all before i rest :
  spec_labels_from all before (i :: rest) = relabel all before i :: spec_labels_from all (before ++ [i]) rest.
Proof. reflexivity. Qed.

Lemma relabel_path all before i : fi_path (relabel all before i) = fi_path i.
Proof. unfold relabel. destruct (fi_labeled i); [reflexivity|]. destruct (_ =? 1); reflexivity. Qed.

Lemma relabel_labeled all before i : fi_labeled (relabel all before i) = fi_labeled i.
Proof.
  unfold relabel. destruct (fi_labeled i) eqn:E; [exact E|]. destruct (_ =? 1); [exact E|reflexivity].
Qed.

Lemma spec_labels_from_in all rest : forall before y, In y (spec_labels_from all before rest) ->
  exists b1 j b2, rest = b1 ++ j :: b2 /\ y = relabel all (before ++ b1) j.
Proof.
  induction rest as [|i rest IH]; intros before y; [intros []|].
  rewrite spec_labels_from_cons. intros [<-|H].
  - exists [], i, rest. now rewrite app_nil_r.
  - apply IH in H as (b1 & j & b2 & -> & ->). exists (i :: b1), j, b2. now rewrite <- app_assoc.
Qed.

Lemma occurrences_app a b p : occurrences (a ++ b) p = occurrences a p + occurrences b p.
Proof. unfold occurrences. rewrite filter_app, app_length. lia. Qed.

Lemma occurrences_self i l : fi_labeled i = false -> 1 <= occurrences (i :: l) (fi_path i).
Proof.
  intros H. unfold occurrences. cbn [filter]. rewrite H. cbn [negb andb].
  destruct (beq_spec (fi_path i) (fi_path i)); [cbn [length]; lia|congruence].
Qed.

(** two unlabelled occurrences [i] (after [before]) and [j] (further on) of one
    path inside [all]: their labels differ *)
Lemma relabel_distinct all before i b1 j b2 :
  all = before ++ i :: b1 ++ j :: b2 ->
  fi_labeled i = false -> fi_labeled j = false -> fi_path i = fi_path j ->
  fi_label (relabel all before i) <> fi_label (relabel all (before ++ i :: b1) j).
Proof.
  intros Hall Hi Hj Hp.
  assert (Hocc : 2 <= occurrences all (fi_path i)).
  { rewrite Hall, occurrences_app. change (i :: b1 ++ j :: b2) with ([i] ++ b1 ++ j :: b2).
    rewrite !occurrences_app. pose proof (occurrences_self i [] Hi).
    pose proof (occurrences_self j b2 Hj) as H2. rewrite <- Hp in H2. lia. }
  unfold relabel. rewrite Hi, Hj, <- Hp.
  destruct (N.eqb_spec (occurrences all (fi_path i)) 1) as [E|_]; [lia|].
  cbn [fi_label]. intros E. apply app_inv_head in E. injection E as E. apply dec_inj in E.
  rewrite occurrences_app in E. change (i :: b1) with ([i] ++ b1) in E. rewrite occurrences_app in E.
  pose proof (occurrences_self i [] Hi). lia.
Qed.

Lemma dups_distinct_from all rest : forall before, all = before ++ rest ->
  dups_distinct (spec_labels_from all before rest) = true.
Proof.
  induction rest as [|i rest IH]; intros before Hall; [reflexivity|].
  rewrite spec_labels_from_cons. cbn [dups_distinct]. apply andb_true_iff. split.
  - apply forallb_forall. intros y Hy.
    apply spec_labels_from_in in Hy as (b1 & j & b2 & -> & ->).
    rewrite !relabel_labeled, !relabel_path.
    destruct (fi_labeled i) eqn:Hi; [reflexivity|]. destruct (fi_labeled j) eqn:Hj; [reflexivity|].
    cbn [orb]. destruct (beq_spec (fi_path i) (fi_path j)) as [Hp|]; [|reflexivity]. cbn [negb orb].
    apply negb_true_iff. destruct (beq_spec (fi_label (relabel all before i)) (fi_label (relabel all ((before ++ [i]) ++ b1) j))) as [E|]; [|reflexivity].
    exfalso. rewrite <- app_assoc in E. cbn [app] in E. revert E. apply relabel_distinct with (b2 := b2); auto.
  - apply IH. rewrite Hall, <- app_assoc. reflexivity.
Qed.

Theorem labels_dups_distinct allow_labels paths : dups_distinct (spec_inputs allow_labels paths) = true.
Proof. unfold spec_inputs. now apply dups_distinct_from. Qed.

Theorem labels_dups_distinct_stdin allow_labels paths : dups_distinct (spec_inputs_stdin allow_labels paths) = true.
Proof. destruct paths; [reflexivity|]. apply labels_dups_distinct. Qed.
