(** End to end on the verified paths: on every text that ParseFloat decides by its
    exact path, the code's answer IS the specification's answer
    ([parse_float s = parse_float_spec s]): scanner theorem (Proofs/AtofValue.v) +
    exact path theorem (Proofs/AtofExact.v) + [rn_b64] correctness (Proofs/RnB64.v). *)
From Coq Require Import ZArith Reals Lia Lra Bool.
From Flocq Require Import Core.Core IEEE754.BinarySingleNaN.
From Perf Require Import Base.Bytes Base.B64 Base.DecSpec Model.Atoi Model.Atof
                         Proofs.Atoi Proofs.RnB64 Proofs.AtofExact Proofs.AtofSyntax Proofs.AtofValue.
Local Open Scope Z_scope.

Local Instance Hprec53e : FLX.Prec_gt_0 53 := eq_refl _.
Local Instance Hmax1024e : Prec_lt_emax 53 1024 := eq_refl _.

(** moving powers of the base between mantissa and exponent does not change the value *)
Lemma exact_value_scale10 neg m j E : 0 <= j ->
  exact_value neg (m * 10 ^ j) false E = exact_value neg m false (E + j).
Proof.
  intros Hj. unfold exact_value. rewrite mult_IZR, bpow_plus.
  change 10 with (radix_val radix10) at 1. rewrite IZR_Zpower by assumption. ring.
Qed.

Lemma exact_value_scale16 neg m j E : 0 <= j ->
  exact_value neg (m * 16 ^ j) true E = exact_value neg m true (E + 4 * j).
Proof.
  intros Hj. unfold exact_value. rewrite mult_IZR, bpow_plus.
  replace (16 ^ j) with (2 ^ (4 * j)) by (rewrite Z.pow_mul_r by lia; reflexivity).
  change 2 with (radix_val radix2) at 1. rewrite IZR_Zpower by lia. ring.
Qed.

Lemma rn_b64_ext neg m1 e1 m2 e2 b2 : 0 <= m1 -> 0 <= m2 ->
  exact_value neg m1 b2 e1 = exact_value neg m2 b2 e2 -> rn_b64 neg m1 b2 e1 = rn_b64 neg m2 b2 e2.
Proof.
  intros H1 H2 E. eapply rounds_to_unique; [apply rn_b64_rounds; assumption|].
  rewrite E. now apply rn_b64_rounds.
Qed.

(** the exact path's result is finite *)
Lemma atof64exact_bounds m e neg f : atof64exact m e neg = Some f -> Z.shiftr m 52 = 0 /\ -22 <= e <= 37.
Proof.
  unfold atof64exact. destruct (Z.eqb_spec (Z.shiftr m 52) 0) as [Hs|]; [|discriminate]. cbn [negb].
  intros H. split; [assumption|].
  destruct (Z.eqb_spec e 0); [lia|].
  destruct (Z.ltb_spec 0 e); destruct (Z.leb_spec e (15 + 22)); cbn [andb] in H; try lia.
  - destruct (Z.ltb_spec e 0); destruct (Z.leb_spec (-22) e); cbn [andb] in H; try lia; discriminate.
  - destruct (Z.ltb_spec e 0); destruct (Z.leb_spec (-22) e); cbn [andb] in H; try lia; discriminate.
Qed.

Lemma exact_path_finite m e neg f : 0 <= m -> atof64exact m e neg = Some f -> b64_is_inf f = false.
Proof.
  intros Hm H. destruct (atof64exact_bounds _ _ _ _ H) as [Hs He].
  pose proof (shiftr52_small m Hm Hs) as Hlt.
  rewrite (exact_path_correct m e neg f Hm H).
  eapply rounds_to_finite; [apply rn_b64_rounds; assumption|].
  apply Rle_lt_trans with (bpow radix2 200); [|apply bpow_lt; lia].
  apply abs_round_le_generic; [typeclasses eauto.. | |].
  - apply generic_format_bpow. unfold fexp64, FLT_exp. lia.
  - rewrite abs_exact by assumption.
    apply Rle_trans with (IZR (2 ^ 52) * bpow radix10 37)%R.
    + apply Rmult_le_compat; [apply IZR_le; lia|apply bpow_ge_0|apply IZR_le; lia|apply bpow_le; lia].
    + rewrite <- (IZR_Zpower radix10) by lia. rewrite <- mult_IZR.
      rewrite <- (IZR_Zpower radix2) by lia. apply IZR_le. vm_compute. discriminate.
Qed.

Lemma lex_number_num s x : lex_number s = Some x -> exists neg b2 M E, x = LNum neg b2 M E.
Proof.
  unfold lex_number. destruct (split_sign s) as [sg r]. destruct (hex_prefix r) as [body|].
  - unfold lex_hex. destruct (underscores_ok _ _ _); [|discriminate].
    destruct (break _ _) as [mp ep]. destruct (mantissa_digits _ _) as [[D F]|]; [|discriminate].
    destruct ep as [et|]; [|discriminate]. destruct (signed_digits et); [|discriminate].
    intros [= <-]. eauto.
  - unfold lex_decimal. destruct (underscores_ok _ _ _); [|discriminate].
    destruct (break _ _) as [mp ep]. destruct (mantissa_digits _ _) as [[D F]|]; [|discriminate].
    destruct ep as [et|]; [destruct (signed_digits et); [|discriminate]|]; intros [= <-]; eauto.
Qed.

(** * the exact path, end to end *)
Theorem exact_path_end_to_end s r f :
  no_clamp s -> underscoreOK s = true -> special s = None ->
  read_float s = Some r -> r_hex r = false -> r_trunc r = false ->
  atof64exact (r_mant r) (r_exp r) (r_neg r) = Some f ->
  parse_float s = (f, ErrNone) /\ parse_float_spec s = (f, ErrNone).
Proof.
  intros Hnc Hus Hsp Hrf Hhex Htr Hex.
  assert (Hcode : parse_float s = (f, ErrNone)).
  { unfold parse_float, parse_float_gen, atof64_gen. rewrite Hus, Hsp. cbn [negb]. cbv zeta.
    rewrite Hrf, Hhex, Htr, Hex. reflexivity. }
  split; [exact Hcode|].
  (* the text is in the grammar, as a number *)
  assert (Hlex : lex_float s <> None).
  { intros Hn. apply (syntax_iff_grammar true s) in Hn. fold (parse_float s) in Hn. rewrite Hcode in Hn. discriminate. }
  assert (Hls : lex_special s = None).
  { rewrite special_spec in Hsp. destruct (lex_special s); [discriminate|reflexivity]. }
  unfold parse_float_spec. destruct (lex_float s) as [x|] eqn:Elf; [|congruence].
  assert (Hnum : exists neg b2 M E, x = LNum neg b2 M E).
  { unfold lex_float in Elf. rewrite Hls in Elf. now apply lex_number_num in Elf. }
  destruct Hnum as (neg & b2 & M & E & ->).
  destruct (read_float_value s neg b2 M E Elf Hnc) as [r' (Hr' & Hneg & Hh & Hcut)].
  rewrite Hrf in Hr'. injection Hr' as <-. rewrite Hhex in Hh. subst b2.
  destruct Hcut as [Hm (j & tail & Hj & HM & Htail & Htf & _ & Hexp & Hzero)].
  specialize (Htf Htr). subst tail. rewrite Z.add_0_r in HM.
  cbn [radixB expk] in *. cbn [value_of_lexed].
  assert (Hf : f = rn_b64 neg M false E).
  { rewrite (exact_path_correct _ _ _ _ (proj1 Hm) Hex), Hneg.
    destruct (Z.eq_dec (r_mant r) 0) as [Hz|Hnz].
    - destruct (Hzero Hz) as [-> ->]. rewrite Hz. reflexivity.
    - rewrite (Hexp Hnz), HM, Z.mul_1_l. symmetry. apply rn_b64_ext.
      + apply Z.mul_nonneg_nonneg; [lia|apply Z.pow_nonneg; lia].
      + lia.
      + now apply exact_value_scale10. }
  rewrite <- Hf. unfold rn_overflow. now rewrite (exact_path_finite _ _ _ _ (proj1 Hm) Hex).
Qed.
