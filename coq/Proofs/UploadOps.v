(** The judge's operation count is the model's: [spec_ops] (Model/UploadSpec.v,
    computed from the request alone) equals the number of file-store operations
    the part loop of Model/Upload.v performs, for every fault oracle under which
    the loop does not fail.  Closes the gap "spec_ops = ops_used of the model
    for sound requests" (used by Corr/RunC20.v to decide whether an injected
    operation index is reached). *)
From Perf Require Import Base.Bytes Model.Words Model.Query Model.StoreFmt Model.Upload Model.UploadSpec
     Proofs.Upload.

Section Ops.

Variables result rec : Type.
Variable parse_file : labels -> bytes -> list result.
Variable coalesce : list result -> list rec.
Variable rejects : list rec -> bool.
Variable alloc : list bytes -> option bytes.

Notation index_file := (index_file result parse_file).
Notation part_loop := (part_loop result parse_file alloc).
Notation run_upload := (run_upload result rec parse_file coalesce rejects alloc).

Lemma index_file_ok_ops o w id i user tm name body nw cut w' rs :
  index_file o w id i user tm name body nw cut = (w', FOk _ rs) ->
  fw_ops w' = fw_ops w + file_ops id user tm i name nw.
Proof.
  unfold Upload.index_file, file_ops. intros H.
  destruct (o_fs o (fw_ops w)); [discriminate H|].
  destruct (any_fail _ _ (length _)); [discriminate H|].
  destruct (any_fail _ _ nw); [discriminate H|].
  destruct (o_midflush o i); [discriminate H|].
  destruct cut; [discriminate H|].
  destruct (parse_file _ body); [discriminate H|].
  destruct (o_fs o _); [discriminate H|].
  inversion H; subst; cbn [fw_ops]. lia.
Qed.

Lemma part_loop_ops_some o user tm : forall items i ids w p lo,
  part_loop o user tm items i ids w (Some p) = lo -> lo_failed _ lo = false ->
  exists p', lo_pend _ lo = Some p' /\ pd_id _ p' = pd_id _ p
    /\ fw_ops (lo_fsw _ lo) = fw_ops w + spec_ops (pd_id _ p) user tm items i.
Proof.
  induction items as [|it r IH]; intros i ids w p lo H Hok.
  - subst lo. exists p. cbn. repeat split; lia.
  - destruct it as [name body nw cut| |f]; cbn [Upload.part_loop spec_ops] in *.
    + destruct (index_file o w (pd_id _ p) i user tm name body nw cut) as [w' fo] eqn:Ef.
      destruct fo as [rs|]; [|subst lo; discriminate Hok].
      destruct (IH _ _ _ _ _ H Hok) as (p' & Hp & Hid & Hops).
      exists p'. cbn [pd_id] in *. repeat split; [exact Hp|exact Hid|].
      rewrite Hops, (index_file_ok_ops _ _ _ _ _ _ _ _ _ _ _ _ Ef). lia.
    + exact (IH _ _ _ _ _ H Hok).
    + subst lo. discriminate Hok.
Qed.

Lemma part_loop_ops_none o user tm : forall items i ids w lo p',
  part_loop o user tm items i ids w None = lo -> lo_failed _ lo = false ->
  lo_pend _ lo = Some p' ->
  fw_ops (lo_fsw _ lo) = fw_ops w + spec_ops (pd_id _ p') user tm items i.
Proof.
  induction items as [|it r IH]; intros i ids w lo p' H Hok Hp.
  - subst lo. discriminate Hp.
  - destruct it as [name body nw cut| |f]; cbn [Upload.part_loop spec_ops] in *.
    + destruct (o_new_upload o); [subst lo; discriminate Hok|].
      destruct (alloc ids) as [id|]; [|subst lo; discriminate Hok].
      destruct (index_file o w _ i user tm name body nw cut) as [w' fo] eqn:Ef.
      destruct fo as [rs|]; [|subst lo; discriminate Hok].
      destruct (part_loop_ops_some _ _ _ _ _ _ _ _ _ H Hok) as (q & Hq & Hid & Hops).
      rewrite Hp in Hq. inversion Hq; subst q. cbn [pd_id] in *. rewrite Hid.
      rewrite Hops, (index_file_ok_ops _ _ _ _ _ _ _ _ _ _ _ _ Ef). cbn [pd_id]. lia.
    + exact (IH _ _ _ _ _ H Hok Hp).
    + subst lo. discriminate Hok.
Qed.

(** a successful upload performed exactly [spec_ops] file-store operations *)
Theorem success_ops_used_is_spec_ops o st rq st' id fids :
  run_upload o st rq = (st', UOk id fids) ->
  ops_used result rec parse_file alloc o st rq
  = spec_ops id (rq_user rq) (rq_time rq) (rq_items rq) 0.
Proof.
  intros H. unfold Upload.run_upload in H. unfold ops_used.
  destruct (lo_failed _ _) eqn:Ef; cbn [orb] in H; [inversion H|].
  destruct (end_fails (rq_end rq)); [inversion H|].
  destruct (lo_pend _ _) as [p|] eqn:Ep; [|inversion H].
  destruct (o_flush o || rejects _ || o_commit o); inversion H; subst.
  rewrite (part_loop_ops_none _ _ _ _ _ _ _ _ _ eq_refl Ef Ep). reflexivity.
Qed.

(** more generally: whenever the part loop itself does not fail (whatever
    happens at the final flush / commit), the count is the specification's *)
Theorem loop_ok_ops_used_is_spec_ops o st rq p :
  let lo := part_loop o (rq_user rq) (rq_time rq) (rq_items rq) 0 (us_ids st) (mkFsw (us_fs st) 0) None in
  lo_failed _ lo = false -> lo_pend _ lo = Some p ->
  ops_used result rec parse_file alloc o st rq
  = spec_ops (pd_id _ p) (rq_user rq) (rq_time rq) (rq_items rq) 0.
Proof.
  intros lo Ef Ep. unfold ops_used. exact (part_loop_ops_none _ _ _ _ _ _ _ _ _ eq_refl Ef Ep).
Qed.

End Ops.
