(** Proofs about Model/Legacy.v (legacy benchstat library), part 1:
    outlier fence, first-appearance bookkeeping, the collection as a state
    machine over added records. *)
From Coq Require Import ZArith List Bool Lia Sorting.Permutation Sorting.Sorted.
From Perf Require Import Base.Bytes Base.Sx Base.B64 Model.StatsF Model.Legacy.
Import ListNotations.

(** * retained values = the fenced values, in input order *)
Lemma retain_from_acc lohi vals acc :
  fold_left (fun acc v => if in_fence lohi v then acc ++ [v] else acc) vals acc
  = acc ++ filter (in_fence lohi) vals.
Proof.
  revert acc; induction vals as [|v vals IH]; intros acc; cbn.
  - now rewrite app_nil_r.
  - rewrite IH. destruct (in_fence lohi v); [now rewrite <- app_assoc | reflexivity].
Qed.

Lemma retain_is_filter lohi vals : retain lohi vals = filter (in_fence lohi) vals.
Proof. unfold retain. now rewrite retain_from_acc. Qed.

Lemma compute_stats_spec unit vals :
  let m := compute_stats unit vals in
  let rv := filter (in_fence (fence vals)) vals in
  m_unit m = unit /\ m_values m = vals /\ m_rvalues m = rv /\
  (m_min m, m_max m) = bounds_f rv /\ m_mean m = mean_f rv.
Proof.
  unfold compute_stats. rewrite retain_is_filter.
  destruct (bounds_f (filter (in_fence (fence vals)) vals)) as [mn mx] eqn:E. cbn. repeat split.
Qed.

(** retained values form a subsequence of the input: order is preserved *)
Inductive subseq {A} : list A -> list A -> Prop :=
| sub_nil : subseq [] []
| sub_keep x a b : subseq a b -> subseq (x :: a) (x :: b)
| sub_drop x a b : subseq a b -> subseq a (x :: b).

Lemma filter_subseq {A} (f : A -> bool) l : subseq (filter f l) l.
Proof. induction l as [|x l IH]; cbn; [constructor|]. destruct (f x); now constructor. Qed.

(** * beq helpers *)
Lemma beq_sym a b : beq a b = beq b a.
Proof. destruct (beq_spec a b), (beq_spec b a); congruence. Qed.
Lemma beq_false a b : beq a b = false <-> a <> b.
Proof. destruct (beq_spec a b); split; congruence. Qed.

Lemma mem_b_In x l : mem_b x l = true <-> In x l.
Proof.
  unfold mem_b. rewrite existsb_exists. split.
  - intros [y [Hy E]]. apply beq_eq in E. now subst.
  - intros H. exists x. split; auto. apply beq_refl.
Qed.
Lemma mem_b_false x l : mem_b x l = false <-> ~ In x l.
Proof. rewrite <- mem_b_In. destruct (mem_b x l); split; congruence. Qed.

Lemma filter_filter {A} (p q : A -> bool) l :
  filter p (filter q l) = filter (fun x => q x && p x) l.
Proof.
  induction l as [|x l IH]; cbn; auto. destruct (q x); cbn; [destruct (p x)|]; now rewrite IH.
Qed.
Lemma filter_ext_in' {A} (p q : A -> bool) l :
  (forall x, In x l -> p x = q x) -> filter p l = filter q l.
Proof.
  induction l as [|x l IH]; cbn; intros H; auto.
  rewrite (H x) by auto. rewrite IH by auto. reflexivity.
Qed.

(** * first appearances *)
Lemma firsts_In x l : In x (firsts l) <-> In x l.
Proof.
  induction l as [|y l IH]; cbn; [tauto|].
  rewrite filter_In, IH. destruct (beq_spec x y) as [->|Hn]; cbn.
  - split; auto.
  - split.
    + intros [E|[H _]]; auto.
    + intros [E|H]; [now left | right; split; auto].
Qed.

Lemma firsts_NoDup l : NoDup (firsts l).
Proof.
  induction l as [|y l IH]; cbn; constructor.
  - rewrite filter_In. intros [_ H]. now rewrite beq_refl in H.
  - now apply NoDup_filter.
Qed.

(** the first occurrence of [x] decides its place: everything that appears
    before it in the result appears before it in the input *)
Lemma firsts_app_first l1 x l2 :
  ~ In x l1 ->
  firsts (l1 ++ x :: l2) = firsts l1 ++ x :: filter (fun y => negb (mem_b y (l1 ++ [x]))) (firsts l2).
Proof.
  revert x l2; induction l1 as [|a l1 IH]; intros x l2 Hn; cbn.
  - f_equal. apply filter_ext_in'. intros y _. unfold mem_b; cbn. now rewrite orb_false_r.
  - rewrite IH by (cbn in Hn; tauto). rewrite filter_app. cbn.
    destruct (beq_spec x a) as [->|Hxa]; [cbn in Hn; tauto|]. cbn.
    f_equal. f_equal. f_equal. rewrite filter_filter. apply filter_ext_in'. intros y _.
    unfold mem_b; cbn. rewrite negb_orb, andb_comm. reflexivity.
Qed.

(** addString over a list is [firsts] *)
Lemma firsts_snoc l x : firsts (l ++ [x]) = add_string (firsts l) x.
Proof.
  induction l as [|a l IH]; cbn.
  - reflexivity.
  - rewrite IH. unfold add_string. cbn [mem_b existsb].
    fold (mem_b x (filter (fun y => negb (beq y a)) (firsts l))).
    destruct (beq_spec x a) as [->|Hxa]; cbn.
    + destruct (mem_b a (firsts l)) eqn:E.
      * reflexivity.
      * rewrite filter_app. cbn. rewrite beq_refl. cbn. now rewrite app_nil_r.
    + assert (Hm : mem_b x (filter (fun y => negb (beq y a)) (firsts l)) = mem_b x (firsts l)).
      { destruct (mem_b x (firsts l)) eqn:E.
        - apply mem_b_In. apply filter_In. split; [now apply mem_b_In|].
          apply negb_true_iff, beq_false; auto.
        - apply mem_b_false. intros H. apply filter_In in H as [H _].
          apply mem_b_false in E. auto. }
      rewrite Hm. destruct (mem_b x (firsts l)); [reflexivity|].
      cbn. rewrite filter_app. cbn.
      replace (beq x a) with false by (symmetry; apply beq_false; auto). reflexivity.
Qed.

Lemma firsts_map_snoc {A} (f : A -> bytes) rs r :
  firsts (map f (rs ++ [r])) = add_string (firsts (map f rs)) (f r).
Proof. rewrite map_app. cbn [map]. apply firsts_snoc. Qed.

Lemma fold_add_string l : fold_left add_string l [] = firsts l.
Proof.
  induction l as [|x l IH] using rev_ind; cbn; auto.
  now rewrite fold_left_app, IH, firsts_snoc.
Qed.

Lemma add_string_present l x : In x l -> add_string l x = l.
Proof. intros H. unfold add_string. apply mem_b_In in H. now rewrite H. Qed.

(** * keys *)
Lemma key_eqb_eq a b : key_eqb a b = true <-> a = b.
Proof.
  unfold key_eqb. rewrite !andb_true_iff, !beq_eq. destruct a, b; cbn. split.
  - intros [[[-> ->] ->] ->]. reflexivity.
  - intros [= -> -> -> ->]. auto.
Qed.
Lemma key_eqb_refl a : key_eqb a a = true.
Proof. now apply key_eqb_eq. Qed.
Lemma key_eqb_false a b : key_eqb a b = false <-> a <> b.
Proof. rewrite <- key_eqb_eq. destruct (key_eqb a b); split; congruence. Qed.
Lemma key_eqb_sym a b : key_eqb a b = key_eqb b a.
Proof.
  destruct (key_eqb a b) eqn:E1, (key_eqb b a) eqn:E2; auto.
  - apply key_eqb_eq in E1. subst. now rewrite key_eqb_refl in E2.
  - apply key_eqb_eq in E2. subst. now rewrite key_eqb_refl in E1.
Qed.

(** * the metrics map *)
Lemma find_metrics_snoc k k' l :
  find_metrics k (l ++ [(k', [])]) =
  match find_metrics k l with Some v => Some v | None => if key_eqb k k' then Some [] else None end.
Proof.
  induction l as [|[k0 v0] l IH]; cbn; [reflexivity|].
  destruct (key_eqb k k0); auto.
Qed.

Lemma find_metrics_append k k' x l :
  find_metrics k (append_value k' x l) =
  if key_eqb k k' then option_map (fun v => v ++ [x]) (find_metrics k l) else find_metrics k l.
Proof.
  induction l as [|[k0 v0] l IH]; cbn.
  - now destruct (key_eqb k k').
  - destruct (key_eqb k' k0) eqn:E0; cbn.
    + apply key_eqb_eq in E0. subst k0.
      destruct (key_eqb k k') eqn:E; cbn; auto.
    + destruct (key_eqb k k0) eqn:E1; cbn.
      * apply key_eqb_eq in E1. subst k0. rewrite (key_eqb_sym k k'), E0. reflexivity.
      * exact IH.
Qed.

Lemma values_of_snoc rs k k' v :
  values_of (rs ++ [(k', v)]) k = values_of rs k ++ (if key_eqb k k' then [v] else []).
Proof.
  unfold values_of. rewrite filter_app, map_app. cbn. now destruct (key_eqb k k').
Qed.

Lemma values_of_nonempty rs k :
  values_of rs k <> [] -> exists v, In (k, v) rs.
Proof.
  unfold values_of. induction rs as [|[k0 v0] rs IH]; cbn; [congruence|].
  destruct (key_eqb k k0) eqn:E.
  - intros _. apply key_eqb_eq in E. subst. eauto.
  - intros H. destruct (IH H) as [v Hv]. eauto.
Qed.

Lemma assoc_set_b_lookup {A} g k (v : A) l :
  assoc_b g (assoc_set_b k v l) = if beq g k then Some v else assoc_b g l.
Proof.
  induction l as [|[k0 v0] l IH]; cbn.
  - reflexivity.
  - destruct (beq_spec k k0) as [->|Hn]; cbn.
    + destruct (beq g k0); reflexivity.
    + destruct (beq_spec g k0) as [->|Hg]; cbn.
      * replace (beq k0 k) with false by (symmetry; apply beq_false; congruence). reflexivity.
      * exact IH.
Qed.

(** * the collection after a sequence of recorded values *)
Definition opt_nonempty {A} (l : list A) : option (list A) :=
  match l with [] => None | _ => Some l end.

Record Inv (c : coll) (rs : list (key * b64)) : Prop := mkInv {
  inv_metrics : forall k, find_metrics k (c_metrics c) = opt_nonempty (values_of rs k);
  inv_groups : c_groups c = firsts (map (fun r => k_group (fst r)) rs);
  inv_units : c_units c = firsts (map (fun r => k_unit (fst r)) rs);
  inv_bench : forall g, benchmarks_of c g = benches_of_spec rs g
}.

Lemma Inv_empty cfgs : Inv (mkColl cfgs [] [] [] []) [].
Proof. constructor; cbn; auto. Qed.

Lemma benches_snoc rs k v g :
  benches_of_spec (rs ++ [(k, v)]) g =
  if beq (k_group k) g then add_string (benches_of_spec rs g) (k_bench k) else benches_of_spec rs g.
Proof.
  unfold benches_of_spec. rewrite filter_app. cbn [filter fst].
  destruct (beq (k_group k) g).
  - now rewrite firsts_map_snoc.
  - now rewrite app_nil_r.
Qed.

Lemma benchmarks_of_ext c1 c2 g :
  c_benchmarks c1 = c_benchmarks c2 -> benchmarks_of c1 g = benchmarks_of c2 g.
Proof. unfold benchmarks_of. now intros ->. Qed.

Lemma Inv_step c rs k v :
  Inv c rs -> In (k_config k) (c_configs c) ->
  Inv (add_value c (k, v)) (rs ++ [(k, v)]) /\ c_configs (add_value c (k, v)) = c_configs c.
Proof.
  intros [Hm Hg Hu Hb] Hc. unfold add_value, add_metrics. cbn [fst snd].
  destruct (find_metrics k (c_metrics c)) as [vs|] eqn:Ef.
  - (* known key *)
    assert (Hvs : values_of rs k <> []).
    { rewrite Hm in Ef. destruct (values_of rs k); cbn in Ef; congruence. }
    destruct (values_of_nonempty _ _ Hvs) as [v0 Hin].
    split; [|reflexivity]. constructor; cbn [c_metrics c_groups c_units].
    + intros k1. rewrite find_metrics_append, values_of_snoc, Hm.
      destruct (key_eqb k1 k) eqn:E.
      * apply key_eqb_eq in E. subst k1. destruct (values_of rs k); [congruence|]. reflexivity.
      * now rewrite app_nil_r.
    + rewrite firsts_map_snoc. cbn [fst]. rewrite add_string_present; auto.
      apply firsts_In. apply in_map_iff. exists (k, v0). auto.
    + rewrite firsts_map_snoc. cbn [fst]. rewrite add_string_present; auto.
      apply firsts_In. apply in_map_iff. exists (k, v0). auto.
    + intros g. rewrite (benchmarks_of_ext _ c) by reflexivity.
      rewrite benches_snoc, Hb. destruct (beq_spec (k_group k) g) as [E|E]; auto.
      rewrite add_string_present; auto. unfold benches_of_spec.
      apply firsts_In. apply in_map_iff. exists (k, v0). split; auto.
      apply filter_In. split; auto. cbn. now apply beq_eq.
  - (* new key *)
    assert (Hvs : values_of rs k = []).
    { rewrite Hm in Ef. destruct (values_of rs k); cbn in Ef; congruence. }
    split; [|cbn; now apply add_string_present].
    constructor; cbn [c_metrics c_groups c_units].
    + intros k1. rewrite find_metrics_append, find_metrics_snoc, values_of_snoc, Hm.
      destruct (key_eqb k1 k) eqn:E.
      * apply key_eqb_eq in E. subst k1. rewrite Hvs. reflexivity.
      * rewrite app_nil_r. now destruct (opt_nonempty (values_of rs k1)).
    + now rewrite firsts_map_snoc, Hg.
    + now rewrite firsts_map_snoc, Hu.
    + intros g. rewrite benches_snoc. unfold benchmarks_of at 1. cbn [c_benchmarks].
      rewrite assoc_set_b_lookup. rewrite (beq_sym g (k_group k)).
      destruct (beq (k_group k) g) eqn:E.
      * apply beq_eq in E. subst g. now rewrite Hb.
      * apply Hb.
Qed.

Lemma Inv_fold recs : forall c rs,
  Inv c rs -> (forall r, In r recs -> In (k_config (fst r)) (c_configs c)) ->
  Inv (fold_left add_value recs c) (rs ++ recs) /\ c_configs (fold_left add_value recs c) = c_configs c.
Proof.
  induction recs as [|[k v] recs IH]; intros c rs HI Hc; cbn.
  - now rewrite app_nil_r.
  - destruct (Inv_step c rs k v HI) as [HI' Hc'].
    { apply (Hc (k, v)). now left. }
    destruct (IH _ _ HI') as [H1 H2].
    { intros r Hr. rewrite Hc'. apply Hc. now right. }
    rewrite <- app_assoc in H1. cbn in H1. split; auto. congruence.
Qed.

Lemma result_records_config split cf r x :
  In x (result_records split cf r) -> k_config (fst x) = cf.
Proof.
  unfold result_records. destruct (r_fields r) as [|n [|f1 [|f2 [|f3 rest]]]]; cbn; try tauto.
  destruct (negb _); cbn; [tauto|]. destruct (r_iters r =? 0)%Z; cbn; [tauto|].
  rewrite in_map_iff. intros [[u y] [<- _]]. reflexivity.
Qed.

Lemma config_records_config split cf x :
  In x (config_records split cf) -> k_config (fst x) = fst cf.
Proof.
  unfold config_records. rewrite in_concat. intros [l [Hl Hx]].
  apply in_map_iff in Hl as [r [<- _]]. eapply result_records_config; eauto.
Qed.

Lemma build_from split cfs : forall c rs,
  Inv c rs ->
  Inv (fold_left (add_config split) cfs c) (rs ++ all_records split cfs)
  /\ c_configs (fold_left (add_config split) cfs c) = c_configs c ++ map fst cfs.
Proof.
  induction cfs as [|cf cfs IH]; intros c rs HI; cbn.
  - unfold all_records. cbn. now rewrite !app_nil_r.
  - set (c0 := mkColl (c_configs c ++ [fst cf]) (c_groups c) (c_units c) (c_benchmarks c) (c_metrics c)).
    change (add_config split c cf) with (fold_left add_value (config_records split cf) c0).
    assert (HI0 : Inv c0 rs) by (destruct HI; constructor; auto).
    destruct (Inv_fold (config_records split cf) c0 rs HI0) as [H1 H2].
    { intros r Hr. rewrite (config_records_config _ _ _ Hr). cbn. apply in_or_app. right. now left. }
    destruct (IH _ _ H1) as [H3 H4]. unfold all_records in *. cbn [map concat].
    rewrite app_assoc. split; auto. rewrite H4, H2. cbn. now rewrite <- app_assoc.
Qed.

(** the state of the collection is a function of the records read, in order *)
Theorem build_spec split cfs :
  let c := build split cfs in
  let recs := all_records split cfs in
  c_configs c = map fst cfs /\
  c_groups c = firsts (map (fun r => k_group (fst r)) recs) /\
  c_units c = firsts (map (fun r => k_unit (fst r)) recs) /\
  (forall g, benchmarks_of c g = benches_of_spec recs g) /\
  (forall k, find_metrics k (c_metrics c) = opt_nonempty (values_of recs k)).
Proof.
  destruct (build_from split cfs empty_coll [] (Inv_empty [])) as [[Hm Hg Hu Hb] Hc].
  cbn in *. repeat split; auto.
Qed.
