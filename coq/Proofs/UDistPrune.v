(** The pruning lemma: for every count vector, twoUmin <= 2U <= twoUmax (the
    greedy fillings are extremal because the coefficients a_k increase with k),
    hence the keys makeUmemo leaves out of its tables have the value the code
    substitutes for them, and the recurrence WITH pruning computes the
    specification's count: tied_recurrence_correct. *)
From Coq Require Import ZArith List Bool Lia Permutation.
From Perf Require Import Model.UStat Model.UDistSpec Model.UDistImpl Model.UTest.
From Perf Require Import Proofs.UStat Proofs.UDistSpec Proofs.UDistImpl Proofs.UDistSum.
Import ListNotations.
Local Open Scope Z_scope.

(** aligned runs: ((t, a), r) *)
Definition trip := ((Z * Z) * Z)%type.
Definition tt (p : trip) : Z := fst (fst p).
Definition ta (p : trip) : Z := snd (fst p).
Definition tr (p : trip) : Z := snd p.
Definition dot (l : list trip) : Z := sumf (fun p => tr p * ta p) l.
Definition sr (l : list trip) : Z := sumf tr l.
Definition caps (l : list trip) : list (Z * Z) := map fst l.
Definition sumcap (lv : list (Z * Z)) : Z := sumf fst lv.
Definition okb (l : list trip) : Prop := Forall (fun p => 0 <= tr p <= tt p /\ 0 <= ta p) l.

Inductive desc : list trip -> Prop :=
| desc_nil : desc []
| desc_cons p l : Forall (fun q => ta q <= ta p) l -> desc l -> desc (p :: l).
Inductive asc : list trip -> Prop :=
| asc_nil : asc []
| asc_cons p l : Forall (fun q => ta p <= ta q) l -> asc l -> asc (p :: l).

Lemma greedy_cons n t a lv : greedy n ((t, a) :: lv) = Z.min n t * a + greedy (n - Z.min n t) lv.
Proof. reflexivity. Qed.

Lemma greedy_up lv : forall a, 0 <= a -> Forall (fun q => snd q <= a /\ 0 <= fst q) lv ->
  forall m d, 0 <= m -> 0 <= d -> greedy (m + d) lv <= greedy m lv + d * a.
Proof.
  induction lv as [|[t' a'] lv IH]; intros a Ha Hl m d Hm Hd.
  - cbn [greedy]. nia.
  - inversion Hl as [|? ? [Ha' Ht'] Hl']; subst. cbn [fst snd] in *.
    rewrite !greedy_cons.
    set (x1 := Z.min (m + d) t'). set (x0 := Z.min m t').
    assert (He : 0 <= x1 - x0 <= d) by (unfold x1, x0; lia).
    replace (m + d - x1) with ((m - x0) + (d - (x1 - x0))) by lia.
    pose proof (IH a Ha Hl' (m - x0) (d - (x1 - x0)) ltac:(unfold x0; lia) ltac:(lia)) as H.
    assert ((x1 - x0) * a' <= (x1 - x0) * a) by nia. nia.
Qed.

Lemma greedy_low lv : forall a, Forall (fun q => a <= snd q /\ 0 <= fst q) lv ->
  forall m d, 0 <= m -> 0 <= d -> m + d <= sumcap lv -> greedy m lv + d * a <= greedy (m + d) lv.
Proof.
  induction lv as [|[t' a'] lv IH]; intros a Hl m d Hm Hd Hc.
  - unfold sumcap in Hc. cbn [sumf fold_right] in Hc. assert (d = 0) by lia. subst. cbn [greedy]. lia.
  - inversion Hl as [|? ? [Ha' Ht'] Hl']; subst. cbn [fst snd] in *.
    unfold sumcap in Hc. rewrite sumf_cons in Hc. cbn [fst] in Hc. fold (sumcap lv) in Hc.
    assert (Hs : 0 <= sumcap lv).
    { unfold sumcap. apply sumf_nonneg. intros q Hq. rewrite Forall_forall in Hl'. specialize (Hl' q Hq). cbn beta in Hl'. lia. }
    rewrite !greedy_cons.
    set (x1 := Z.min (m + d) t'). set (x0 := Z.min m t').
    assert (He : 0 <= x1 - x0 <= d) by (unfold x1, x0; lia).
    replace (m + d - x1) with ((m - x0) + (d - (x1 - x0))) by lia.
    pose proof (IH a Hl' (m - x0) (d - (x1 - x0)) ltac:(unfold x0; lia) ltac:(lia) ltac:(unfold x1, x0 in *; lia)) as H.
    assert ((x1 - x0) * a <= (x1 - x0) * a') by nia. nia.
Qed.

Lemma sr_nonneg l : okb l -> 0 <= sr l.
Proof. intros H. apply sumf_nonneg. intros p Hp. unfold okb in H. rewrite Forall_forall in H. specialize (H p Hp). cbn beta in H. lia. Qed.

Lemma sr_le_cap l : okb l -> sr l <= sumcap (caps l).
Proof.
  induction 1 as [|p l Hp Hl IH]; [cbn; lia|].
  unfold sr, sumcap, caps in *. cbn [map]. rewrite !sumf_cons. unfold tt, tr in *. lia.
Qed.

Lemma max_greedy l : desc l -> okb l -> dot l <= greedy (sr l) (caps l).
Proof.
  induction 1 as [|[[t a] r] l Hd Hdl IH]; intros Hok; [cbn; lia|].
  inversion Hok as [|? ? Hp Hok']; subst. unfold tt, ta, tr in Hp. cbn [fst snd] in Hp.
  unfold dot, sr, caps in *. cbn [map fst]. rewrite !sumf_cons. unfold tr at 1 3, ta at 1. cbn [fst snd].
  fold (sr l) (dot l) in *. rewrite greedy_cons.
  pose proof (sr_nonneg l Hok') as Hs. specialize (IH Hok').
  set (x := Z.min (r + sr l) t).
  assert (Hx : r <= x <= r + sr l) by (unfold x; lia).
  assert (Hcaps : Forall (fun q => snd q <= a /\ 0 <= fst q) (map fst l)).
  { rewrite Forall_map. rewrite Forall_forall in *. intros q Hq. specialize (Hd q Hq). specialize (Hok' q Hq).
    unfold ta, tt, tr in *. cbn [fst snd] in *. lia. }
  pose proof (greedy_up (map fst l) a ltac:(lia) Hcaps (r + sr l - x) (x - r) ltac:(lia) ltac:(lia)) as H.
  replace (r + sr l - x + (x - r)) with (sr l) in H by lia. fold (sr l) in IH. nia.
Qed.

Lemma min_greedy l : asc l -> okb l -> greedy (sr l) (caps l) <= dot l.
Proof.
  induction 1 as [|[[t a] r] l Hd Hdl IH]; intros Hok; [cbn; lia|].
  inversion Hok as [|? ? Hp Hok']; subst. unfold tt, ta, tr in Hp. cbn [fst snd] in Hp.
  pose proof (sr_le_cap l Hok') as Hcap.
  unfold dot, sr, caps in *. cbn [map fst]. rewrite !sumf_cons. unfold tr at 1 3, ta at 1. cbn [fst snd].
  fold (sr l) (dot l) in *. rewrite greedy_cons.
  pose proof (sr_nonneg l Hok') as Hs. specialize (IH Hok').
  set (x := Z.min (r + sr l) t).
  assert (Hx : r <= x <= r + sr l) by (unfold x; lia).
  assert (Hcaps : Forall (fun q => a <= snd q /\ 0 <= fst q) (map fst l)).
  { rewrite Forall_map. rewrite Forall_forall in *. intros q Hq. specialize (Hd q Hq). specialize (Hok' q Hq).
    unfold ta, tt, tr in *. cbn [fst snd] in *. lia. }
  pose proof (greedy_low (map fst l) a Hcaps (r + sr l - x) (x - r) ltac:(lia) ltac:(lia) ltac:(fold (sr l) in Hcap; lia)) as H.
  replace (r + sr l - x + (x - r)) with (sr l) in H by lia. fold (sr l) in IH. nia.
Qed.

(** ** the aligned list of a count vector *)
Definition trips (S : Z) (t r : list Z) : list trip := combine (combine t (acl S t)) r.

Lemma trips_cons S tk t rk r : trips S (tk :: t) (rk :: r) = ((tk, 2 * S + tk), rk) :: trips (S + tk) t r.
Proof. reflexivity. Qed.

Lemma twoU_dot t : forall r S Q, length r = length t ->
  twoU_vec (S - Q) (combine t r) = dot (trips S t r) - ((Q + zsum r) * (Q + zsum r) - Q * Q).
Proof.
  induction t as [|tk t IH]; intros [|rk r] S Q Hl; try discriminate.
  - unfold dot, trips. cbn [combine twoU_vec sumf fold_right zsum]. ring.
  - rewrite trips_cons. unfold dot. rewrite sumf_cons. fold (dot (trips (S + tk) t r)).
    unfold tr at 1, ta at 1. cbn [fst snd combine twoU_vec].
    change (zsum (rk :: r)) with (rk + zsum r).
    replace (S - Q + (tk - rk)) with ((S + tk) - (Q + rk)) by lia.
    rewrite (IH r (S + tk) (Q + rk)) by (cbn in Hl; lia). ring.
Qed.

Lemma trips_lb t : Forall (fun x => 0 <= x) t -> forall r S, Forall (fun q => 2 * S <= ta q) (trips S t r).
Proof.
  induction 1 as [|tk t Htk Ht IH]; intros [|rk r] S; try (unfold trips; cbn [acl combine]; constructor; fail).
  rewrite trips_cons. constructor.
  - unfold ta; cbn [fst snd]; lia.
  - eapply Forall_impl; [|apply (IH r (S + tk))]. cbn beta. intros q Hq. lia.
Qed.

Lemma trips_asc t : Forall (fun x => 0 <= x) t -> forall r S, asc (trips S t r).
Proof.
  induction 1 as [|tk t Htk Ht IH]; intros [|rk r] S; try (unfold trips; cbn [acl combine]; constructor; fail).
  rewrite trips_cons. constructor.
  - eapply Forall_impl; [|apply (trips_lb t Ht r (S + tk))].
    cbn beta. intros q Hq. unfold ta at 1; cbn [fst snd]. lia.
  - apply IH.
Qed.

Lemma trips_okb t : forall r S, 0 <= S -> Forall (fun x => 0 <= x) t -> length r = length t ->
  Forall (fun p => 0 <= snd p <= fst p) (combine t r) -> okb (trips S t r).
Proof.
  induction t as [|tk t IH]; intros [|rk r] S HS Ht Hl Hf; try discriminate; [constructor|].
  inversion Ht; subst. cbn [combine] in Hf. inversion Hf as [|? ? Hp Hf']; subst. cbn [fst snd] in Hp.
  rewrite trips_cons. constructor.
  - unfold tr, tt, ta; cbn [fst snd]. lia.
  - apply IH; [lia | assumption | cbn in Hl; lia | assumption].
Qed.

Lemma trips_sr t : forall r S, length r = length t -> sr (trips S t r) = zsum r.
Proof.
  induction t as [|tk t IH]; intros [|rk r] S Hl; try discriminate; [reflexivity|].
  rewrite trips_cons. unfold sr. rewrite sumf_cons. fold (sr (trips (S + tk) t r)).
  rewrite IH by (cbn in Hl; lia). reflexivity.
Qed.

Lemma trips_caps t : forall r S, length r = length t -> caps (trips S t r) = combine t (acl S t).
Proof.
  induction t as [|tk t IH]; intros [|rk r] S Hl; try discriminate; [reflexivity|].
  rewrite trips_cons. unfold caps in *. cbn [map fst acl combine]. f_equal. apply IH. cbn in Hl; lia.
Qed.

Lemma desc_snoc l p : desc l -> Forall (fun q => ta p <= ta q) l -> desc (l ++ [p]).
Proof.
  induction 1 as [|q l Hq Hl IH]; intros Hf; cbn [app].
  - constructor; constructor.
  - inversion Hf; subst. constructor; [|now apply IH].
    apply Forall_app; split; [exact Hq | constructor; [assumption | constructor]].
Qed.

Lemma asc_rev_desc l : asc l -> desc (rev l).
Proof.
  induction 1 as [|p l Hp Hl IH]; cbn [rev]; [constructor|].
  apply desc_snoc; [exact IH|]. apply Forall_rev. exact Hp.
Qed.

(** ** the pruning lemma *)
Theorem twoU_between t n r : Forall (fun x => 0 <= x) t -> In r (vecs t n) ->
  twoUmin n (levels t) <= twoU_of t r <= twoUmax n (levels t).
Proof.
  intros Ht Hr. destruct (vecs_in _ _ _ Hr) as (Hl & Hs & Hf).
  pose proof (twoU_dot t r 0 0 Hl) as HU. replace (0 - 0) with 0 in HU by lia. fold (twoU_of t r) in HU.
  rewrite Hs in HU.
  set (l := trips 0 t r) in *.
  assert (Hok : okb l) by (apply trips_okb; [lia | assumption | assumption | assumption]).
  assert (Hasc : asc l) by (apply trips_asc; assumption).
  assert (Hsr : sr l = n) by (unfold l; rewrite trips_sr; assumption).
  assert (Hcaps : caps l = combine t (a_list t)) by (unfold l; rewrite trips_caps, a_list_acl; [reflexivity | assumption]).
  unfold twoUmin, twoUmax, levels. rewrite rev_involutive. split.
  - pose proof (min_greedy l Hasc Hok) as H. rewrite Hsr, Hcaps in H. lia.
  - pose proof (max_greedy (rev l) (asc_rev_desc l Hasc)) as H.
    assert (Hok' : okb (rev l)) by (apply Forall_rev; exact Hok).
    specialize (H Hok').
    assert (H2 : dot l <= greedy (sr l) (rev (caps l))).
    { unfold dot, sr, caps in *. rewrite !sumf_rev, map_rev in H. exact H. }
    rewrite Hsr, Hcaps in H2. lia.
Qed.

(** outside the bounds the count is known without the table *)
Lemma count_le_above_max t n u : Forall (fun x => 0 <= x) t -> twoUmax n (levels t) < u ->
  count_le t n u = choose (zsum t) n.
Proof.
  intros Ht Hu. fold (total t n). rewrite <- count_all_total by assumption.
  unfold count_le, count_all, count_if. apply sumf_ext_in. intros r Hr.
  pose proof (twoU_between t n r Ht Hr). destruct (Z.leb_spec (twoU_of t r) u); [reflexivity | lia].
Qed.

Lemma count_le_below_min t n u : Forall (fun x => 0 <= x) t -> u < twoUmin n (levels t) ->
  count_le t n u = 0.
Proof.
  intros Ht Hu. unfold count_le, count_if.
  transitivity (sumf (fun _ : list Z => 0) (vecs t n)); [|apply sumf_zero].
  apply sumf_ext_in. intros r Hr.
  pose proof (twoU_between t n r Ht Hr). destruct (Z.leb_spec (twoU_of t r) u); [lia | reflexivity].
Qed.

(** ** tied_recurrence_correct: the recurrence as the code runs it (pruned keys,
    defaults for absent keys, repaired base case) is the specification's count *)
Lemma A_step_pruned base tk ak p1 p2 lv n u :
  A base true ((tk, ak) :: p1 :: p2 :: lv) n u
  = sumf (fun rk =>
            (let lv' := p1 :: p2 :: lv in
             let twoU' := u - rk * (ak - 2 * n + rk) in
             let n1' := n - rk in
             if (twoUmin n1' lv' <=? twoU') && (twoU' <=? twoUmax n1' lv') then A base true lv' n1' twoU'
             else if twoUmax n1' lv' <? twoU' then choose (zsum (map fst lv')) n1' else 0) * choose tk rk)
         (zrange (Z.max 0 (n - zsum (map fst (p1 :: p2 :: lv)))) (Z.min n tk)).
Proof. destruct p1; reflexivity. Qed.

Theorem tied_recurrence_correct t : Forall (fun x => 1 <= x) t -> (2 <= length t)%nat ->
  forall n u, umemo t n u = count_le t n u.
Proof.
  unfold umemo.
  induction t as [|x t IH] using rev_ind; intros Hpos Hlen n u; [cbn in Hlen; lia|].
  apply Forall_app in Hpos. destruct Hpos as [Ht Hx]. inversion Hx as [|? ? Hx1 _]; subst.
  assert (Ht0 : Forall (fun y => 0 <= y) t) by (eapply Forall_impl; [|exact Ht]; cbn; intros; lia).
  rewrite app_length in Hlen. cbn [length] in Hlen.
  rewrite levels_snoc.
  destruct t as [|t1 [|t2 t]].
  - cbn in Hlen. lia.
  - cbn [levels a_list a_coeffs combine rev app]. rewrite A_base2.
    inversion Ht as [|? ? Ht1 _]; subst.
    apply (base2_correct t1 x n u); lia.
  - set (t' := t1 :: t2 :: t) in *.
    pose proof (levels_length t') as HL. pose proof (levels_tsum t') as HS.
    assert (IH' : forall n u, A base2 true (levels t') n u = count_le t' n u).
    { apply IH; [exact Ht | unfold t'; cbn [length]; lia]. }
    pose proof (count_le_above_max t') as Habove. pose proof (count_le_below_min t') as Hbelow.
    destruct (levels t') as [|p1 [|p2 lv]] eqn:ELV;
      [unfold t' in HL; cbn [length] in HL; lia | unfold t' in HL; cbn [length] in HL; lia |].
    rewrite A_step_pruned, HS.
    rewrite count_le_snoc by (assumption || lia).
    rewrite (sumf_zrange_restrict _ 0 x (Z.max 0 (n - zsum t')) (Z.min n x)); [| lia | lia |].
    + apply sumf_ext. intros rk. cbv zeta. rewrite ?HS.
      destruct ((twoUmin (n - rk) (p1 :: p2 :: lv) <=? u - rk * (2 * zsum t' + x - 2 * n + rk))
                && (u - rk * (2 * zsum t' + x - 2 * n + rk) <=? twoUmax (n - rk) (p1 :: p2 :: lv))) eqn:Eb.
      * rewrite IH'. lia.
      * destruct (Z.ltb_spec (twoUmax (n - rk) (p1 :: p2 :: lv)) (u - rk * (2 * zsum t' + x - 2 * n + rk))) as [Hgt|Hle].
        -- rewrite (Habove (n - rk) _ Ht0 Hgt). lia.
        -- apply andb_false_iff in Eb. destruct Eb as [Eb|Eb]; [apply Z.leb_gt in Eb | apply Z.leb_gt in Eb; lia].
           rewrite (Hbelow (n - rk) _ Ht0 Eb). lia.
    + intros rK HrK Hout.
      destruct (Z_lt_dec n rK); [rewrite count_le_neg by lia; lia|].
      rewrite count_le_big by (assumption || lia). lia.
Qed.

(** ** the wrappers on a tied distribution: CDF and PMF are the exact fractions *)
Definition frac_eq (d : dres) (num den : Z) : Prop :=
  match dres_frac d with Some (a, b) => a * den = num * b /\ 0 < b | None => False end.

Lemma total_pos t n : Forall (fun x => 0 <= x) t -> 0 <= n <= zsum t -> 0 < total t n.
Proof.
  intros Ht Hn. unfold total. rewrite choose_binom by lia.
  pose proof (binom_fact (Z.to_nat (zsum t)) (Z.to_nat n) ltac:(lia)) as H.
  pose proof (zfact_pos (Z.to_nat (zsum t))). pose proof (zfact_pos (Z.to_nat n)).
  pose proof (zfact_pos (Z.to_nat (zsum t) - Z.to_nat n)). pose proof (binom_nonneg (Z.to_nat (zsum t)) (Z.to_nat n)). nia.
Qed.

Theorem cdf_tied_exact t n1 n2 q :
  Forall (fun x => 1 <= x) t -> (2 <= length t)%nat -> has_ties t = true ->
  zsum t = n1 + n2 -> 0 <= n1 -> 0 <= n2 ->
  frac_eq (cdf n1 n2 t q) (count_le t n1 (q / 2)) (total t n1).
Proof.
  intros Hpos Hlen Hties Hs H1 H2.
  assert (Ht0 : Forall (fun y => 0 <= y) t) by (eapply Forall_impl; [|exact Hpos]; cbn; intros; lia).
  pose proof (total_pos t n1 Ht0 ltac:(lia)) as Htot.
  unfold cdf, frac_eq.
  destruct (Z.ltb_spec q 0) as [Hq|Hq].
  - cbn [dres_frac]. rewrite count_le_below by (assumption || (apply Z.div_lt_upper_bound; lia)). lia.
  - destruct (Z.leb_spec (4 * (n1 * n2)) q) as [Hq2|Hq2].
    + cbn [dres_frac]. rewrite count_le_top; [lia | assumption |].
      replace (zsum t - n1) with n2 by lia. apply Z.div_le_lower_bound; lia.
    + rewrite Hties. destruct t as [|a [|b t]]; [cbn in Hlen; lia | cbn in Hlen; lia |].
      cbn [dres_frac]. rewrite tied_recurrence_correct by assumption. unfold total in Htot |- *. rewrite Hs in Htot |- *. split; [reflexivity | exact Htot].
Qed.

Theorem pmf_tied_exact t n1 n2 q :
  Forall (fun x => 1 <= x) t -> (2 <= length t)%nat -> has_ties t = true ->
  zsum t = n1 + n2 -> 0 <= n1 -> 0 <= n2 -> 0 <= q -> q < 4 * (n1 * n2) + 2 ->
  frac_eq (pmf n1 n2 t q) (count_eq t n1 (q / 2)) (total t n1).
Proof.
  intros Hpos Hlen Hties Hs H1 H2 Hq Hq2.
  assert (Ht0 : Forall (fun y => 0 <= y) t) by (eapply Forall_impl; [|exact Hpos]; cbn; intros; lia).
  pose proof (total_pos t n1 Ht0 ltac:(lia)) as Htot.
  unfold pmf, frac_eq.
  destruct (Z.ltb_spec q 0); [lia|]. destruct (Z.leb_spec (4 * (n1 * n2) + 2) q); [lia|]. cbn [orb].
  rewrite Hties. destruct t as [|a [|b t]]; [cbn in Hlen; lia | cbn in Hlen; lia |].
  cbn [dres_frac]. rewrite !tied_recurrence_correct by assumption.
  rewrite (count_le_step (a :: b :: t) n1 (q / 2)). unfold total in Htot |- *. rewrite Hs in Htot |- *. split; [ring | exact Htot].
Qed.
