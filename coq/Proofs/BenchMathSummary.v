(** AssumeNothing.Summary (Model/BenchMath.v [summary_nothing]), the float64
    model itself: the interval ends are sample values or infinite, they bracket
    the middle order statistics, and there is a warning exactly when an end is
    infinite. For the normal-approximation branch of QuantileCI (n > 30, an
    oracle in the model) the band is assumed to contain the median position,
    which the correspondence run checks on every recorded oracle value. *)
From Coq Require Import Sorting.Sorted.
From Perf Require Import Base.Bytes Base.B64 Base.B64Order Model.StatsF Model.MoreMathU Model.BenchMath
     Proofs.BenchMath.
Local Open Scope Z_scope.

(** the band only grows, for any number type *)
Lemma walk_grows {T} (tadd : T -> T -> T) (tlt tle : T -> T -> bool) (tzero : T)
      (pmf : Z -> option T) (conf : T) fuel :
  forall l r lp rp acc l' r' acc',
    walk tadd tlt tle tzero pmf conf fuel l r lp rp acc = Some (l', r', acc') -> l' <= l /\ r <= r'.
Proof.
  induction fuel as [|fuel IH]; intros l r lp rp acc l' r' acc'; cbn [walk].
  - intros [= <- <- <-]. lia.
  - destruct (_ && _).
    + destruct (tle rp lp).
      * destruct (pmf (l - 2)); [|discriminate]. intros H. apply IH in H. lia.
      * destruct (pmf (r + 1)); [|discriminate]. intros H. apply IH in H. lia.
    + intros [= <- <- <-]. lia.
Qed.

Section Summary.
  Variable choose_o : Z -> Z -> option b64.
  Variable approx_o : Z -> option qci.
  (** what the normal-approximation branch returns is a band around the median position *)
  Hypothesis approx_band : forall n ci, approx_o n = Some ci ->
    0 <= q_lo ci <= n / 2 /\ n / 2 + 1 <= q_hi ci <= n + 1.

  Lemma quantile_ci_band n conf ci :
    0 <= n -> quantile_ci choose_o approx_o n conf = Some ci ->
    0 <= q_lo ci <= n / 2 /\ n / 2 + 1 <= q_hi ci <= n + 1.
  Proof.
    intros Hn. unfold quantile_ci.
    assert (Hx : 0 <= n / 2 <= n) by (Z.div_mod_to_equations; lia).
    destruct (b64_ge conf b64_one).
    - intros [= <-]. cbn. lia.
    - destruct (n <=? quantile_ci_approx_threshold).
      + unfold walk_from_mode.
        destruct (pmf_half choose_o n (n / 2)); [|discriminate].
        destruct (pmf_half choose_o n (n / 2 - 1)); [|discriminate].
        destruct (pmf_half choose_o n (n / 2 + 1)); [|discriminate].
        destruct (walk _ _ _ _ _ _ _ _ _ _ _ _) as [((l, r), acc)|] eqn:W; [|discriminate].
        apply walk_grows in W. intros [= <-]. cbn. lia.
      + apply approx_band.
  Qed.

  Lemma nth_f_in xs k : 0 <= k < zlen xs -> In (nth_f xs k) xs.
  Proof. intros H. unfold nth_f. apply nth_In. unfold zlen in H. lia. Qed.

  (** every end of the interval is a value of the sample or infinite *)
  Lemma summary_nothing_ends s conf sm :
    s_values s <> [] ->
    summary_nothing choose_o approx_o s conf = Some sm ->
    (sm_lo sm = f_inf true \/ In (sm_lo sm) (s_values s))
    /\ (sm_hi sm = f_inf false \/ In (sm_hi sm) (s_values s)).
  Proof.
    intros Hne. unfold summary_nothing.
    destruct (quantile_ci _ _ _ _) as [ci|] eqn:Q; [|discriminate].
    assert (Hn : 0 < zlen (s_values s)) by (unfold zlen; destruct (s_values s); [congruence|cbn; lia]).
    apply quantile_ci_band in Q; [|lia].
    assert (Hx : zlen (s_values s) / 2 < zlen (s_values s)) by (Z.div_mod_to_equations; lia).
    unfold sample_ci.
    assert (E : (sm_lo sm = f_inf true \/ In (sm_lo sm) (s_values s))
                /\ (sm_hi sm = f_inf false \/ In (sm_hi sm) (s_values s)) <->
                forall lo hi, sm_lo sm = lo -> sm_hi sm = hi ->
                  (lo = f_inf true \/ In lo (s_values s)) /\ (hi = f_inf false \/ In hi (s_values s))).
    { split; [intros H lo hi <- <-; exact H|intros H; now apply H]. }
    set (lo := if q_lo ci <? 1 then f_inf true else nth_f (s_values s) (q_lo ci - 1)).
    set (hi := if zlen (s_values s) <=? q_hi ci - 1 then f_inf false else nth_f (s_values s) (q_hi ci - 1)).
    assert (Hlo : lo = f_inf true \/ In lo (s_values s)).
    { unfold lo. destruct (Z.ltb_spec (q_lo ci) 1); [now left|right]. apply nth_f_in. lia. }
    assert (Hhi : hi = f_inf false \/ In hi (s_values s)).
    { unfold hi. destruct (Z.leb_spec (zlen (s_values s)) (q_hi ci - 1)); [now left|right]. apply nth_f_in. lia. }
    destruct (b64_is_inf lo || b64_is_inf hi).
    - destruct (median_samples _ _ _) as [[ge m]|]; [|discriminate]. intros [= <-]. cbn. auto.
    - intros [= <-]. cbn. auto.
  Qed.

  (** a warning exactly when an end is infinite, and it names the sample count
      that medianSamples computes *)
  Lemma summary_nothing_warning_iff_infinite s conf sm :
    summary_nothing choose_o approx_o s conf = Some sm ->
    (sm_warn sm = [] <-> b64_is_inf (sm_lo sm) || b64_is_inf (sm_hi sm) = false)
    /\ (b64_is_inf (sm_lo sm) || b64_is_inf (sm_hi sm) = true ->
        exists ge m, sm_warn sm = [WNeedCI ge m] /\ median_samples choose_o approx_o conf = Some (ge, m)).
  Proof.
    unfold summary_nothing.
    destruct (quantile_ci _ _ _ _) as [ci|]; [|discriminate].
    destruct (sample_ci ci (s_values s)) as ((med, lo), hi).
    destruct (b64_is_inf lo || b64_is_inf hi) eqn:I.
    - destruct (median_samples _ _ _) as [[ge m]|] eqn:M; [|discriminate]. intros [= <-]. cbn. rewrite I.
      split; [split; discriminate|]. intros _. eauto.
    - intros [= <-]. cbn. rewrite I. split; [tauto|discriminate].
  Qed.

  (** order statistics of a sorted sample are monotone in the index *)
  Lemma sorted_nth_le (xs : list b64) : StronglySorted leP xs -> Forall nonnan xs ->
    forall i j, (i <= j)%nat -> (j < length xs)%nat -> b64_le (nth i xs f_nan) (nth j xs f_nan) = true.
  Proof.
    induction 1 as [|x xs Hs IH Hx]; intros Nn i j Hij Hj; [cbn in Hj; lia|].
    assert (Nx : nonnan x) by now inversion Nn.
    assert (Nxs : Forall nonnan xs) by now inversion Nn.
    destruct i as [|i], j as [|j]; cbn [nth length] in *; try lia.
    - now apply b64_le_refl.
    - rewrite Forall_forall in Hx. apply Hx. apply nth_In. lia.
    - apply IH; auto; lia.
  Qed.

  Lemma neg_inf_le v : nonnan v -> b64_le (f_inf true) v = true.
  Proof. unfold nonnan. destruct v as [s|s| |s m e]; try congruence; try destruct s; reflexivity. Qed.
  Lemma le_pos_inf v : nonnan v -> b64_le v (f_inf false) = true.
  Proof. unfold nonnan. destruct v as [s|s| |s m e]; try congruence; try destruct s; reflexivity. Qed.

  (** the ends bracket the middle of the sorted sample: lo <= x_(ceil(n/2)) and
      x_(floor(n/2)+1) <= hi (1-based order statistics; for odd n both are the
      median value) *)
  Lemma summary_nothing_brackets_middle vs t conf sm :
    vs <> [] -> Forall nonnan vs ->
    summary_nothing choose_o approx_o (new_sample vs t) conf = Some sm ->
    let xs := sort_f vs in
    let n := zlen xs in
    b64_le (sm_lo sm) (nth_f xs ((n - 1) / 2)) = true
    /\ b64_le (nth_f xs (n / 2)) (sm_hi sm) = true.
  Proof.
    intros Hne Nn. unfold summary_nothing, new_sample. cbn [s_values].
    pose proof (sort_f_sorted vs Nn) as Hs.
    pose proof (sort_f_Forall nonnan vs Nn) as Ns.
    assert (Hlen : 0 < zlen (sort_f vs)).
    { unfold zlen. rewrite <- (Permutation.Permutation_length (sort_f_perm vs)).
      destruct vs; [congruence|cbn; lia]. }
    set (xs := sort_f vs) in *. set (n := zlen xs) in *.
    destruct (quantile_ci _ _ _ _) as [ci|] eqn:Q; [|intros HH; discriminate HH].
    apply quantile_ci_band in Q; [|lia].
    assert (Hx : 0 <= (n - 1) / 2 <= n / 2 /\ n / 2 < n /\ n / 2 <= (n - 1) / 2 + 1)
      by (Z.div_mod_to_equations; lia).
    assert (Nnth : forall k, 0 <= k < n -> nonnan (nth_f xs k)).
    { intros k Hk. rewrite Forall_forall in Ns. apply Ns. now apply nth_f_in. }
    unfold sample_ci. fold n.
    set (lo := if q_lo ci <? 1 then f_inf true else nth_f xs (q_lo ci - 1)).
    set (hi := if n <=? q_hi ci - 1 then f_inf false else nth_f xs (q_hi ci - 1)).
    assert (Hlo : b64_le lo (nth_f xs ((n - 1) / 2)) = true).
    { unfold lo. destruct (Z.ltb_spec (q_lo ci) 1).
      - apply neg_inf_le, Nnth. lia.
      - unfold nth_f. apply sorted_nth_le; auto; unfold n, zlen in *; lia. }
    assert (Hhi : b64_le (nth_f xs (n / 2)) hi = true).
    { unfold hi. destruct (Z.leb_spec n (q_hi ci - 1)).
      - apply le_pos_inf, Nnth. lia.
      - unfold nth_f. apply sorted_nth_le; auto; unfold n, zlen in *; lia. }
    destruct (b64_is_inf lo || b64_is_inf hi).
    - destruct (median_samples _ _ _) as [[ge m]|]; [|intros HH; discriminate HH]. intros [= <-]. cbn. auto.
    - intros [= <-]. cbn. auto.
  Qed.
End Summary.
