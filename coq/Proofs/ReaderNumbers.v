(** The reader with C03's number parsers plugged in.

    Model/Reader.v (C02) takes bytesconv.Atoi and bytesconv.ParseFloat as Section
    variables; here they are instantiated with Model/Atoi.v and Model/Atof.v and
    the composed statements are proved:
      - a measurement or an iteration count that the parser rejects — syntax
        error or out of range — makes the line a syntax-error record positioned at
        that line, never a result ([range_is_error],
        [reader_number_errors_are_line_errors]);
      - in every reported result the iteration count is the exact integer written
        and every measurement is what [reader_atof] returned without error for its
        field; a unit that needs no rescaling reports that value unchanged; and on
        the verified paths (integer fast path, exact path) that value is the
        specification's correctly rounded [rn_b64] ([reader_numbers_correct]). *)
From Perf Require Import Base.Bytes Base.B64 Base.Utf8 Base.DecSpec Model.Units Model.Reader
                         Model.Atoi Model.Atof Proofs.Atoi Proofs.AtofFast Proofs.AtofSyntax
                         Proofs.AtofValue Proofs.AtofEndToEnd.
Local Open Scope Z_scope.

(** the reader's view of the two parsers: a value or an error *)
Definition atoi_opt (s : bytes) : option Z :=
  match Atoi.atoi s with IOk n => Some n | IErr _ _ => None end.
Definition pf_opt (s : bytes) : option b64 :=
  match Atof.parse_float s with (v, ErrNone) => Some v | _ => None end.

(** Model/Reader.v's own copy of the integer fast path is Model/Atof.v's *)
Lemma fast_int_eq x : forall v, fast_int x v = fast_loop x v.
Proof.
  induction x as [|c x IH]; intros v; [reflexivity|].
  cbn [fast_int fast_loop]. fold (is_dec_digit c).
  destruct (is_dec_digit c) eqn:Hd.
  - destruct (digit_val_dec c Hd) as [Hv Hb]. rewrite Z.mod_small by lia.
    destruct (Z.leb_spec 10 (bZ c - 48)); [lia|].
    change max_fast with fast_guard. rewrite Z.gtb_ltb.
    destruct (fast_guard <? v); [reflexivity|]. apply IH.
  - assert (Hn : ~ (48 <= bZ c <= 57)) by (intros X; apply is_dec_digit_iff in X; congruence).
    pose proof (bZ_range c) as Hr.
    destruct (Z.leb_spec 10 ((bZ c - 48) mod 256)) as [|Hlt]; [reflexivity|exfalso].
    destruct (Z_lt_le_dec (bZ c) 48).
    + replace ((bZ c - 48) mod 256) with (bZ c + 208) in Hlt by (apply Z.mod_unique with (q := -1); lia). lia.
    + rewrite Z.mod_small in Hlt by lia. lia.
Qed.

Lemma reader_atof_opt x :
  Reader.atof pf_opt x = match reader_atof x with (v, ErrNone) => Some v | _ => None end.
Proof. unfold Reader.atof, reader_atof, pf_opt. rewrite fast_int_eq. destruct (fast_loop x 0); reflexivity. Qed.

Section WithSpace.
Variables is_space is_lower is_upper : N -> bool.

Notation pbench := (parse_bench is_space atoi_opt pf_opt).
Notation pvals := (parse_vals is_space pf_opt).
Notation rstep := (step is_space is_lower is_upper atoi_opt pf_opt).
Notation rclassify := (classify is_space is_lower is_upper atoi_opt pf_opt).

(** ** rejected numbers *)

(** the fields of the measurements: value text, unit, value text, unit, ... *)
Inductive meas_fields : list bytes -> list value -> Prop :=
| MF_nil : meas_fields [] []
| MF_cons f u fs v vs :
    reader_atof f = (v, ErrNone) ->
    meas_fields fs vs ->
    meas_fields (f :: u :: fs) (read_value is_space v u :: vs).

Lemma pvals_ok_n n : forall fs acc vals, (length fs <= n)%nat -> pvals fs acc = inr vals ->
  exists vs, vals = acc ++ vs /\ meas_fields fs vs.
Proof.
  induction n as [|n IH]; intros fs acc vals Hl H; destruct fs as [|f [|u fs2]]; cbn [length] in Hl; try lia.
  - cbn in H. destruct (Name.is_nil acc); [discriminate|]. injection H as <-.
    exists []. split; [now rewrite app_nil_r|constructor].
  - cbn in H. destruct (Name.is_nil acc); [discriminate|]. injection H as <-.
    exists []. split; [now rewrite app_nil_r|constructor].
  - cbn in H. destruct (Reader.atof pf_opt f); discriminate.
  - cbn [parse_vals] in H. rewrite reader_atof_opt in H.
    destruct (reader_atof f) as [v e] eqn:Ef. destruct e; try discriminate.
    destruct (IH fs2 _ _ ltac:(lia) H) as [vs [-> Hm]].
    exists (read_value is_space v u :: vs). split; [now rewrite <- app_assoc|].
    now constructor.
Qed.

Lemma pvals_ok fs acc vals : pvals fs acc = inr vals -> exists vs, vals = acc ++ vs /\ meas_fields fs vs.
Proof. apply (pvals_ok_n (length fs)). lia. Qed.

(** a measurement whose text the parser does not accept without error *)
Lemma pvals_bad fs f rest : forall acc pairs,
  fs = pairs ++ f :: rest -> (exists vs, meas_fields pairs vs) ->
  snd (reader_atof f) <> ErrNone -> pvals fs acc = inl EBadMeas.
Proof.
  intros acc pairs -> [vs Hm]. revert acc. induction Hm as [|g u fs' v vs' Hg Hm IH]; intros acc Hbad.
  - cbn [app parse_vals]. rewrite reader_atof_opt. destruct (reader_atof f) as [v e]. cbn in Hbad.
    destruct e; try reflexivity. congruence.
  - cbn [app parse_vals]. rewrite reader_atof_opt, Hg. now apply IH.
Qed.

(** range_is_error: an out-of-range measurement is rejected like a malformed one *)
Theorem range_is_error f : snd (Atof.parse_float f) = ErrRange -> fast_loop f 0 = None ->
  Reader.atof pf_opt f = None.
Proof.
  intros H Hf. rewrite reader_atof_opt. unfold reader_atof. rewrite Hf.
  destruct (Atof.parse_float f) as [v e]. cbn in H. now subst e.
Qed.

(** a text beyond the float64 range never takes the fast path (which is exact) *)
Lemma range_not_fast f v : f <> [] -> fast_loop f 0 = Some v -> snd (parse_float_spec f) = ErrNone.
Proof. intros Hne H. now rewrite (fastint_correct f v Hne H). Qed.

(** reader_number_errors_are_line_errors *)
Theorem bench_error_is_positioned fname n st line rest k :
  rclassify line = LBench (pbench rest) -> pbench rest = BErr k ->
  rstep fname n st line = ([RErr fname n k], st).
Proof. intros Hc Hb. unfold step. now rewrite Hc, Hb. Qed.

Theorem reader_number_errors_are_line_errors fname n st line k :
  rclassify line = LBench (BErr k) -> rstep fname n st line = ([RErr fname n k], st).
Proof. unfold step. now intros ->. Qed.

(** where such errors come from: the iteration count and the measurements *)
Theorem bench_line_number_errors rest :
  let l := runes rest in
  let '(name, after) := split_field is_space l in
  (Name.is_nil after && (length name =? length rest)%nat = false) ->
  match fields is_space after with
  | [] => True
  | f :: fs =>
      (forall v k, Atoi.atoi f = IErr v k -> pbench rest = BErr EBadIters) /\
      (forall it pairs g tl, Atoi.atoi f = IOk it -> fs = pairs ++ g :: tl ->
         (exists vs, meas_fields pairs vs) -> snd (reader_atof g) <> ErrNone ->
         pbench rest = BErr EBadMeas)
  end.
Proof.
  cbv zeta. unfold parse_bench. destruct (split_field is_space (runes rest)) as [name after].
  intros Hskip. rewrite Hskip.
  destruct (fields is_space after) as [|f fs]; [exact I|]. split.
  - intros v k He. unfold atoi_opt. now rewrite He.
  - intros it pairs g tl He Hfs Hp Hbad. unfold atoi_opt. rewrite He.
    now rewrite (pvals_bad fs g tl [] pairs Hfs Hp Hbad).
Qed.

(** ** reported numbers *)
Theorem reader_numbers_reported rest name iters vals :
  pbench rest = BOk name iters vals ->
  exists f fs, fields is_space (snd (split_field is_space (runes rest))) = f :: fs /\
    (* the iteration count is the exact integer written, an int64 *)
    int_value f = Some iters /\ min_int64 <= iters <= max_int64 /\
    (* each measurement is what the parser returned, without error, for its field *)
    meas_fields fs vals.
Proof.
  unfold parse_bench. destruct (split_field is_space (runes rest)) as [nm after]. cbn [snd].
  destruct (Name.is_nil after && (length nm =? length rest)%nat); [discriminate|].
  destruct (fields is_space after) as [|f fs]; [discriminate|].
  unfold atoi_opt. destruct (Atoi.atoi f) as [it|] eqn:Ea; [|discriminate].
  destruct (pvals fs []) as [k|vs] eqn:Ev; [discriminate|]. intros [= <- <- <-].
  destruct (atoi_sound f it Ea) as [Hiv Hr].
  destruct (pvals_ok fs [] vs Ev) as [vs' [-> Hm]].
  exists f, fs. repeat split; try assumption; lia.
Qed.

(** a unit that needs no rescaling reports the parsed value itself *)
Lemma read_value_plain v u : snd (tidy is_space v u) = u -> v_val (read_value is_space v u) = v /\ v_unit (read_value is_space v u) = u.
Proof.
  unfold read_value. destruct (tidy is_space v u) as [tv tu]. cbn [snd]. intros ->.
  rewrite beq_refl. split; reflexivity.
Qed.

End WithSpace.

(** ** the value on the verified paths is the specification's [rn_b64] *)
Theorem reader_atof_verified f v :
  f <> [] -> reader_atof f = (v, ErrNone) ->
  (* integer fast path *)
  (fast_loop f 0 <> None \/
  (* ParseFloat's exact path *)
   (no_clamp f /\ underscoreOK f = true /\ special f = None /\
    exists r, read_float f = Some r /\ r_hex r = false /\ r_trunc r = false /\
              atof64exact (r_mant r) (r_exp r) (r_neg r) <> None)) ->
  parse_float_spec f = (v, ErrNone).
Proof.
  intros Hne Hr [Hfast|(Hnc & Hus & Hsp & r & Hrf & Hh & Ht & Hex)].
  - destruct (fast_loop f 0) as [n|] eqn:E; [|congruence].
    rewrite <- (reader_atof_fast f n Hne E). exact Hr.
  - destruct (atof64exact (r_mant r) (r_exp r) (r_neg r)) as [x|] eqn:Ex; [|congruence].
    destruct (exact_path_end_to_end f r x Hnc Hus Hsp Hrf Hh Ht Ex) as [Hc Hs].
    unfold reader_atof in Hr. destruct (fast_loop f 0) as [n|] eqn:E.
    + rewrite <- (reader_atof_fast f n Hne E). unfold reader_atof. now rewrite E.
    + rewrite Hc in Hr. now rewrite Hs, <- Hr.
Qed.

(** the composed statement *)
Theorem reader_numbers_correct is_space rest name iters vals :
  parse_bench is_space atoi_opt pf_opt rest = BOk name iters vals ->
  exists f fs, fields is_space (snd (split_field is_space (runes rest))) = f :: fs /\
    int_value f = Some iters /\ min_int64 <= iters <= max_int64 /\
    meas_fields is_space fs vals /\
    (forall g u v, reader_atof g = (v, ErrNone) -> snd (tidy is_space v u) = u ->
       v_val (read_value is_space v u) = v) /\
    (forall g v, g <> [] -> reader_atof g = (v, ErrNone) ->
       (fast_loop g 0 <> None \/
        (no_clamp g /\ underscoreOK g = true /\ special g = None /\
         exists r, read_float g = Some r /\ r_hex r = false /\ r_trunc r = false /\
                   atof64exact (r_mant r) (r_exp r) (r_neg r) <> None)) ->
       parse_float_spec g = (v, ErrNone)).
Proof.
  intros H. destruct (reader_numbers_reported is_space rest name iters vals H) as (f & fs & H1 & H2 & H3 & H4).
  exists f, fs. repeat split; try assumption; try lia.
  - intros g u v _ Hu. now apply read_value_plain.
  - intros g v. apply reader_atof_verified.
Qed.
