(** The values that the correspondence check Corr/RunC11.v judges the implementation
    against ([spec_le], [spec_ge], [spec_eq], [spec_p] in prop_ok_u; [hist_le], [hist_eq]
    in prop_ok_d) are the declarative exact tails of Model/UDistSpec.v, whichever branch
    (enumeration within the budget, fast evaluator beyond it) is taken: for ALL inputs. *)
From Coq Require Import ZArith List Bool Lia Permutation.
From Perf Require Import Base.B64 Model.UStat Model.UDistSpec Model.UDistImpl Model.UTest.
From Perf Require Import Proofs.UStat Proofs.UDistSpec Proofs.UDistImpl Proofs.UDistSum Proofs.UTestExact.
From Perf Require Import Model.UDistUntiedEval Proofs.UDistUntied Proofs.UDistUntiedEval Proofs.UDistSpecFull.
From Perf Require Corr.RunC11.
Import ListNotations.
Local Open Scope Z_scope.

Module R := Perf.Corr.RunC11.

(** ** the untied branch: [is_ones t] means t = ones (zsum t); outside 0 <= n1 <= N the
    table evaluator returns 0 because its denominator C(N, n1) is 0 *)
Lemma is_ones_repeat t : R.is_ones t = true -> t = repeat 1 (length t) /\ zsum t = Z.of_nat (length t).
Proof.
  unfold R.is_ones. induction t as [|x t IH]; intros H; [split; reflexivity|].
  cbn [forallb] in H. apply andb_prop in H. destruct H as [Hx Ht]. apply Z.eqb_eq in Hx. subst x.
  destruct (IH Ht) as [E1 E2]. split.
  - cbn [length repeat]. f_equal. exact E1.
  - change (zsum (1 :: t)) with (1 + zsum t). rewrite E2. cbn [length]. lia.
Qed.

Lemma is_ones_ones t : R.is_ones t = true -> t = ones (zsum t).
Proof.
  intros H. destruct (is_ones_repeat t H) as [E1 E2]. unfold ones. rewrite E2, Nat2Z.id. exact E1.
Qed.

Lemma untied_le_out n1 n2 w : choose (n1 + n2) n1 = 0 -> untied_le n1 n2 w = 0.
Proof.
  intros H. unfold untied_le. destruct (dres_frac _) as [[a b]|]; [|reflexivity].
  rewrite H, Z.mul_0_r. apply Zdiv_0_l.
Qed.

Lemma untied_le_ones t n1 u : nonneg t -> R.is_ones t = true ->
  untied_le n1 (zsum t - n1) u = count_le t n1 u.
Proof.
  intros Ht Ho. destruct (Z_lt_dec n1 0) as [Hneg|Hpos].
  - rewrite untied_le_out by (apply choose_out; lia). symmetry. now apply count_le_neg.
  - destruct (Z_lt_dec (zsum t) n1) as [Hbig|Hsmall].
    + rewrite untied_le_out by (apply choose_out; lia). symmetry. now apply count_le_big.
    + rewrite untied_le_correct by lia. replace (n1 + (zsum t - n1)) with (zsum t) by lia.
      now rewrite <- is_ones_ones.
Qed.

Lemma untied_ge_ones t n1 u : nonneg t -> R.is_ones t = true ->
  untied_ge n1 (zsum t - n1) u = count_ge t n1 u.
Proof.
  intros Ht Ho. unfold untied_ge. rewrite untied_le_ones by assumption.
  replace (n1 + (zsum t - n1)) with (zsum t) by lia. fold (total t n1).
  rewrite <- count_all_total by assumption. pose proof (count_ge_le t n1 u). lia.
Qed.

Section Judge.
Variables (t : list Z) (n1 : Z).
Hypothesis Ht : nonneg t.
Hypothesis Hwf : 0 <= n1 \/ t <> [].

Theorem spec_le_correct u : R.spec_le t n1 u = count_le t n1 u.
Proof.
  unfold R.spec_le. destruct (_ <=? _); [reflexivity|]. destruct (R.is_ones t) eqn:Ho.
  - now apply untied_le_ones.
  - now apply fast_count_le_correct.
Qed.

Theorem spec_ge_correct u : R.spec_ge t n1 u = count_ge t n1 u.
Proof.
  unfold R.spec_ge. destruct (_ <=? _); [reflexivity|]. destruct (R.is_ones t) eqn:Ho.
  - now apply untied_ge_ones.
  - now apply fast_count_ge_correct.
Qed.

Theorem spec_eq_correct u : R.spec_eq t n1 u = count_eq t n1 u.
Proof.
  unfold R.spec_eq. destruct (_ <=? _); [reflexivity|]. destruct (R.is_ones t) eqn:Ho.
  - rewrite !untied_le_ones by assumption. pose proof (count_le_step t n1 u). lia.
  - now apply fast_count_eq_correct.
Qed.
End Judge.

(** the numerator of the property's p-value for each alternative *)
Definition tail_num (a : alt) (t : list Z) (n1 u : Z) : Z :=
  match a with
  | Less => p_less_num t n1 u
  | Greater => p_greater_num t n1 u
  | Differs => p_two_num t n1 u
  end.

Theorem spec_p_correct t n1 u a : nonneg t -> (0 <= n1 \/ t <> []) ->
  fst (R.spec_p t n1 u a) = (tail_num a t n1 u, total t n1).
Proof.
  intros Ht Hwf. unfold R.spec_p, tail_num, p_less_num, p_greater_num, p_two_num.
  rewrite spec_le_correct, spec_ge_correct by assumption. destruct a; reflexivity.
Qed.

(** on samples: no hypothesis is left (the tie vector of a pooled sample is positive) *)
Lemma pool_T_wf x1 x2 : Forall (fun x => 1 <= x) (pool_T x1 x2) /\ zsum (pool_T x1 x2) = zlen x1 + zlen x2.
Proof. rewrite <- us_T_pool. apply us_T_wf. Qed.

Theorem judged_p_is_exact_tail x1 x2 a :
  let t := pool_T x1 x2 in let n1 := zlen x1 in let u := twoU_pairs x1 x2 in
  fst (R.spec_p t n1 u a) = (tail_num a t n1 u, total t n1).
Proof.
  intros t n1 u. apply spec_p_correct.
  - destruct (pool_T_wf x1 x2) as [H _]. eapply Forall_impl; [|exact H]. cbn. intros; lia.
  - left. unfold n1, zlen. lia.
Qed.

(** ** the per-case histogram of prop_ok_d *)
Theorem hist_le_correct L t n1 u : nonneg t -> 0 <= n1 -> (1 <= L)%nat -> 2 * (n1 * (zsum t - n1)) < Z.of_nat L ->
  R.hist_le (hist L t n1) u = count_le t n1 u.
Proof.
  intros Ht Hn HL1 HL. unfold R.hist_le. destruct (Z.ltb_spec u 0) as [Hu|Hu].
  - symmetry. now apply count_le_below.
  - pose proof (poly_ok_firstn L (Z.to_nat (u + 1)) _ _ (hist_is_mass L t n1 Ht Hn HL1)) as Hok.
    rewrite (poly_ok_zsum _ _ _ Hok).
    destruct (Nat.min_spec L (Z.to_nat (u + 1))) as [[Hlt ->]|[Hge ->]].
    + destruct L as [|m]; [lia|]. rewrite count_eq_telescope by assumption.
      rewrite !count_le_top by (assumption || lia). reflexivity.
    + replace (Z.to_nat (u + 1)) with (S (Z.to_nat u)) by lia.
      rewrite count_eq_telescope by assumption. f_equal. lia.
Qed.

Theorem hist_eq_correct L t n1 u : nonneg t -> 0 <= n1 -> (1 <= L)%nat -> 2 * (n1 * (zsum t - n1)) < Z.of_nat L ->
  R.hist_eq (hist L t n1) u = count_eq t n1 u.
Proof.
  intros Ht Hn HL1 HL. unfold R.hist_eq. destruct (Z.ltb_spec u 0) as [Hu|Hu].
  - symmetry. now apply count_eq_below.
  - destruct (hist_is_mass L t n1 Ht Hn HL1) as [Hlen Hcoef].
    destruct (Nat.lt_ge_cases (Z.to_nat u) L) as [H|H].
    + rewrite Hcoef by exact H. f_equal. lia.
    + rewrite nth_overflow by lia. symmetry. apply count_eq_above; [assumption | lia].
Qed.

(** with the degree bound prop_ok_d uses *)
Corollary dist_hist_correct t n1 n2 u : nonneg t -> 0 <= n1 -> 0 <= n2 -> zsum t = n1 + n2 ->
  let h := hist (Z.to_nat (2 * (n1 * n2) + 2)) t n1 in
  R.hist_le h u = count_le t n1 u /\ R.hist_eq h u = count_eq t n1 u.
Proof.
  intros Ht H1 H2 Hs h. assert (0 <= n1 * n2) by nia.
  replace (zsum t - n1) with n2 in * by lia.
  split; [apply hist_le_correct | apply hist_eq_correct]; try assumption; try lia;
    replace (zsum t - n1) with n2 by lia; lia.
Qed.

(** the closures [le], [eq] of prop_ok_d on every branch: enumeration within the budget,
    the Mann-Whitney table without ties, the generating-function histogram with ties *)
Theorem dist_closures_correct t n1 n2 u : nonneg t -> 0 <= n1 -> 0 <= n2 -> zsum t = n1 + n2 ->
  let small := R.vec_budget t <=? R.enum_budget in
  let untied := R.is_ones t in
  let h := if small then [] else if untied then untied_table n1 n2 else hist (Z.to_nat (2 * (n1 * n2) + 2)) t n1 in
  (if small then count_le t n1 u else if untied then tab_le h u else R.hist_le h u) = count_le t n1 u /\
  (if small then count_eq t n1 u else if untied then tab_eq h u else R.hist_eq h u) = count_eq t n1 u.
Proof.
  intros Ht H1 H2 Hs small untied h. subst h. destruct small; [split; reflexivity|].
  subst untied. destruct (R.is_ones t) eqn:Ho.
  - rewrite (is_ones_ones t Ho), Hs. split; [now apply tab_le_correct | now apply tab_eq_correct].
  - now apply dist_hist_correct.
Qed.

(** ** what an accepted exact-regime p-value has been compared with: whenever prop_ok_u
    accepts a numeric outcome in the exact regime, the reported p-value is [close] to the
    declarative exact tail over C(N, n1), whatever evaluator computed the fraction *)
Theorem prop_ok_u_judges_exact_tail (c : R.ucase) o1 o2 U P ae :
  let x1 := R.u_x1 c in let x2 := R.u_x2 c in
  let t := pool_T x1 x2 in let n1 := zlen x1 in let n2 := zlen x2 in let u := twoU_pairs x1 x2 in
  R.u_out c = R.ONum o1 o2 U P ae -> R.exact_regime t n1 n2 = true -> R.prop_ok_u c = true ->
  R.close P (tail_num (R.u_alt c) t n1 u) (total t n1) (snd (R.spec_p t n1 u (R.u_alt c))) = true.
Proof.
  intros x1 x2 t n1 n2 u Hout Hreg Hok. unfold R.prop_ok_u, R.judge_u in Hok.
  apply andb_prop in Hok. destruct Hok as [Hok _]. rewrite Hout in Hok.
  apply andb_prop in Hok. destruct Hok as [_ Hok].
  unfold R.p_ok in Hok. apply andb_prop in Hok. destruct Hok as [_ Hok].
  fold x1 x2 in Hok. fold n1 n2 in Hok. fold t u in Hok. rewrite Hreg in Hok.
  unfold R.exact_p_ok in Hok.
  pose proof (judged_p_is_exact_tail x1 x2 (R.u_alt c)) as Hj. cbv zeta in Hj. fold x1 x2 t n1 u in Hj.
  destruct (R.spec_p t n1 u (R.u_alt c)) as [[num den] slack]. cbn [fst snd andb] in *.
  rewrite orb_false_r in Hok. inversion Hj; subst. exact Hok.
Qed.

(** ** the relaxed judge of the known finding C11_twosided_asymmetric_ties *)
Lemma exact_p_ok_relax_weaker t n1 n2 u a P :
  R.exact_p_ok false t n1 n2 u a P = true -> R.exact_p_ok true t n1 n2 u a P = true.
Proof.
  unfold R.exact_p_ok. destruct (R.spec_p t n1 u a) as [[num den] slack]. cbn [andb].
  rewrite orb_false_r. intros ->. reflexivity.
Qed.

(** outside the finding's input class (one-sided alternative, or no ties, or a
    palindromic tie vector) the relaxed judge IS the strict one *)
Lemma exact_p_ok_relax_same t n1 n2 u a P :
  a <> Differs \/ has_ties t = false \/ R.palindrome t = true ->
  R.exact_p_ok true t n1 n2 u a P = R.exact_p_ok false t n1 n2 u a P.
Proof.
  intros H. unfold R.exact_p_ok. destruct (R.spec_p t n1 u a) as [[num den] slack]. cbn [andb].
  rewrite orb_false_r. destruct a; try (now rewrite orb_false_r).
  destruct H as [H|[H|H]]; [congruence | rewrite H | rewrite H, andb_false_r]; cbn [andb negb]; now rewrite orb_false_r.
Qed.

Lemma p_ok_relax_weaker orc x1 x2 a P : R.p_ok false orc x1 x2 a P = true -> R.p_ok true orc x1 x2 a P = true.
Proof.
  unfold R.p_ok. intros H. apply andb_prop in H. destruct H as [H1 H2]. rewrite H1. cbn [andb].
  destruct (R.exact_regime _ _ _); [now apply exact_p_ok_relax_weaker | exact H2].
Qed.

(** whatever the strict judge accepts the relaxed judge accepts *)
Theorem known_ok_u_weaker c : R.prop_ok_u c = true -> R.known_ok_u c = true.
Proof.
  unfold R.prop_ok_u, R.known_ok_u, R.judge_u. intros H. apply andb_prop in H. destruct H as [HO HL].
  apply andb_true_intro. split.
  - destruct (R.u_out c); try exact HO.
    apply andb_prop in HO. destruct HO as [HO1 HO2]. rewrite HO1. now apply p_ok_relax_weaker.
  - unfold R.legacy_ok in *. destruct (R.u_legacy c); try exact HL.
    apply andb_prop in HL. destruct HL as [HL1 HL2]. rewrite HL1. cbn [andb].
    apply orb_prop in HL2. destruct HL2 as [HL2|HL2]; [rewrite HL2; reflexivity|].
    rewrite (p_ok_relax_weaker _ _ _ _ _ HL2). apply orb_true_r.
Qed.

(** the relaxed judge differs from the strict one ONLY on the finding's input class:
    for a one-sided alternative without a legacy outcome, for samples without ties,
    for a palindromic tie vector and in the approximate regime they are equal *)
Theorem known_ok_u_same c :
  let t := pool_T (R.u_x1 c) (R.u_x2 c) in
  (R.u_alt c <> Differs /\ R.u_legacy c = R.LNone) \/ has_ties t = false \/ R.palindrome t = true
  \/ R.exact_regime t (zlen (R.u_x1 c)) (zlen (R.u_x2 c)) = false ->
  R.known_ok_u c = R.prop_ok_u c.
Proof.
  intros t H. unfold R.prop_ok_u, R.known_ok_u, R.judge_u.
  assert (HP : forall a P, (a = R.u_alt c \/ R.u_legacy c <> R.LNone) ->
            R.p_ok true (R.u_oracle c) (R.u_x1 c) (R.u_x2 c) a P = R.p_ok false (R.u_oracle c) (R.u_x1 c) (R.u_x2 c) a P).
  { intros a P Ha. unfold R.p_ok. f_equal. fold t.
    destruct (R.exact_regime t _ _) eqn:E; [|reflexivity].
    apply exact_p_ok_relax_same. destruct H as [[H1 H2]|[H|[H|H]]]; try (right; tauto); [|congruence].
    left. destruct Ha as [->|Ha]; [exact H1 | congruence]. }
  f_equal.
  - destruct (R.u_out c); try reflexivity. f_equal. apply HP. now left.
  - unfold R.legacy_ok. destruct (R.u_legacy c) eqn:EL; try reflexivity. f_equal. f_equal. apply HP. right. discriminate.
Qed.

Theorem judged_counts_correct t n1 u : nonneg t -> (0 <= n1 \/ t <> []) ->
  R.spec_le t n1 u = count_le t n1 u /\ R.spec_ge t n1 u = count_ge t n1 u /\ R.spec_eq t n1 u = count_eq t n1 u.
Proof.
  intros Ht Hwf. repeat split; [now apply spec_le_correct | now apply spec_ge_correct | now apply spec_eq_correct].
Qed.
