(** Proofs about Model/ScaleHist.v: tidyCache is a memo table - every entry is
    the slow path's result for its key - so no answer of benchunit depends on
    the calls made before. *)
From Perf Require Import Base.Bytes Base.B64 Model.Scale Model.ScaleHist.
From Perf Require Base.Unicode Model.Units.

Definition cache_inv (c : cache) : Prop :=
  forall u e, In (u, e) c -> e = Units.tidy_uncached isp u.

Lemma cache_inv_nil : cache_inv [].
Proof. intros u e H. destruct H. Qed.

Lemma cache_get_inv c u e :
  cache_inv c -> cache_get c u = Some e -> e = Units.tidy_uncached isp u.
Proof.
  intros Hinv Hget. unfold cache_get in Hget.
  destruct (find (fun e0 => beq (fst e0) u) c) as [[u' e']|] eqn:Hf; [|discriminate].
  injection Hget as <-.
  apply find_some in Hf. destruct Hf as [Hin Heq]. cbn [fst] in Heq.
  apply beq_eq in Heq. subst u'. exact (Hinv u e' Hin).
Qed.

Lemma tidy_unit_st_spec c u :
  cache_inv c ->
  snd (tidy_unit_st c u) = Units.tidy_unit isp u /\ cache_inv (fst (tidy_unit_st c u)).
Proof.
  intros Hinv. unfold tidy_unit_st, Units.tidy_unit.
  destruct (beq u (bs "ns/op")); [split; [reflexivity|exact Hinv]|].
  destruct (beq u (bs "MB/s")); [split; [reflexivity|exact Hinv]|].
  destruct (beq u (bs "B/op") || beq u (bs "allocs/op")); [split; [reflexivity|exact Hinv]|].
  destruct (negb (contains u Units.tok_ns || contains u Units.tok_MB)); [split; [reflexivity|exact Hinv]|].
  destruct (cache_get c u) as [e|] eqn:Hget.
  - split; [|exact Hinv]. cbn [snd]. exact (cache_get_inv c u e Hinv Hget).
  - split; [reflexivity|]. cbn [fst].
    intros u' e' [Heq|Hin].
    + injection Heq as <- <-. reflexivity.
    + exact (Hinv u' e' Hin).
Qed.

Lemma step_spec c k :
  cache_inv c -> snd (step c k) = alone k /\ cache_inv (fst (step c k)).
Proof.
  intros Hinv. destruct k as [u|v u|vals cls]; cbn [step alone].
  - split; [reflexivity|exact Hinv].
  - destruct (tidy_unit_st_spec c u Hinv) as [Hs Hi].
    destruct (tidy_unit_st c u) as [c' [nu f]]. cbn [fst snd] in Hs, Hi.
    unfold Units.tidy. rewrite <- Hs. split; [reflexivity|exact Hi].
  - split; [reflexivity|exact Hinv].
Qed.

Lemma run_alone_inv h : forall c, cache_inv c -> run c h = map alone h.
Proof.
  induction h as [|k h IH]; intros c Hinv; [reflexivity|].
  cbn [run map]. destruct (step_spec c k Hinv) as [Hs Hi].
  destruct (step c k) as [c' a]. cbn [fst snd] in Hs, Hi.
  rewrite Hs, (IH c' Hi). reflexivity.
Qed.

Lemma run_alone h : run [] h = map alone h.
Proof. exact (run_alone_inv h [] cache_inv_nil). Qed.

(** the answer of the last call of a history *)
Lemma run_app_last h k : forall c, cache_inv c -> run c (h ++ [k]) = map alone h ++ [alone k].
Proof. intros c Hinv. rewrite (run_alone_inv _ c Hinv), map_app. reflexivity. Qed.
