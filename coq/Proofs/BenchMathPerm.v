(** The specification's exact permutation p-value (Model/BenchMathSpec.v
    [perm_p]) is symmetric in the two samples: choosing the first sample among
    the pooled values or choosing the second are complementary, and
    U(second, first) = n1*n2 - U(first, second). It is also invariant under any
    comparison-preserving map of the pooled values. *)
From Coq Require Import Sorting.Permutation.
From Perf Require Import Base.Bytes Base.B64 Base.B64Order Model.StatsF Model.MoreMathU
     Model.BenchMathSpec Proofs.BenchMath Proofs.BenchMathMono.
Local Open Scope Z_scope.

(** ** sums *)
Lemma fold_add_acc l a : fold_left Z.add l a = a + fold_left Z.add l 0.
Proof.
  revert a. induction l as [|x l IH]; intros a; cbn; [lia|]. rewrite IH, (IH x). lia.
Qed.
Lemma zsum_cons x l : zsum (x :: l) = x + zsum l.
Proof. unfold zsum. cbn. rewrite fold_add_acc. lia. Qed.
Lemma zsum_nil : zsum [] = 0.
Proof. reflexivity. Qed.

Definition score (x y : b64) : Z := if b64_lt y x then 2 else if b64_eq x y then 1 else 0.
Definition row (x : b64) (r : list b64) : Z := zsum (map (score x) r).
Definition col (x : b64) (r : list b64) : Z := zsum (map (fun y => score y x) r).

Lemma two_u_cons_l x c r : two_u (x :: c) r = row x r + two_u c r.
Proof. unfold two_u. cbn [map]. now rewrite zsum_cons. Qed.
Lemma two_u_nil_l r : two_u [] r = 0.
Proof. reflexivity. Qed.

Lemma zsum_map_plus {A} (f g : A -> Z) l :
  zsum (map (fun a => f a + g a) l) = zsum (map f l) + zsum (map g l).
Proof. induction l as [|a l IH]; [reflexivity|]. cbn [map]. rewrite !zsum_cons, IH. lia. Qed.

Lemma two_u_cons_r x c r : two_u r (x :: c) = col x r + two_u r c.
Proof.
  unfold two_u, col.
  rewrite (map_ext _ (fun y => score y x + zsum (map (score y) c))).
  - apply zsum_map_plus.
  - intros y. cbn [map]. rewrite zsum_cons. reflexivity.
Qed.
Lemma two_u_nil_r r : two_u r [] = 0.
Proof.
  unfold two_u. cbn [map]. induction r as [|y r IH]; [reflexivity|].
  cbn [map]. rewrite zsum_cons, IH. reflexivity.
Qed.

(** for numbers exactly one of x < y, x == y, y < x holds *)
Lemma score_sum x y : nonnan x -> nonnan y -> score x y + score y x = 2.
Proof.
  intros Nx Ny. unfold score.
  destruct (cmp_key x y Nx Ny) as (L & E & G).
  destruct (cmp_key y x Ny Nx) as (L' & E' & G').
  unfold b64_lt, b64_eq, SFltb, SFeqb.
  destruct (cmp_some x y Nx Ny) as (c & Hc). destruct (cmp_some y x Ny Nx) as (c' & Hc').
  rewrite Hc, Hc' in *.
  destruct c, c'; try reflexivity; exfalso;
    repeat match goal with
           | H : Some ?a = Some ?a <-> _ |- _ => apply proj1 in H; specialize (H eq_refl)
           end;
    destruct (key x) as ((a, b), d), (key y) as ((a', b'), d'); unfold klt in *;
    repeat match goal with
           | H : (_, _, _) = (_, _, _) |- _ => injection H as ? ? ?
           end; lia.
Qed.

Lemma row_col x r : nonnan x -> Forall nonnan r -> row x r + col x r = 2 * zlen r.
Proof.
  intros Nx Nr. unfold row, col, zlen. induction Nr as [|y r Ny Nr IH]; [reflexivity|].
  cbn [map length]. rewrite !zsum_cons. pose proof (score_sum x y Nx Ny). lia.
Qed.

(** U(c, r) + U(r, c) = |c| * |r|  (in units of 1/2) *)
Lemma two_u_swap c r :
  Forall nonnan c -> Forall nonnan r -> two_u c r + two_u r c = 2 * zlen c * zlen r.
Proof.
  intros Nc Nr. induction Nc as [|x c Nx Nc IH].
  - rewrite two_u_nil_l, two_u_nil_r. reflexivity.
  - rewrite two_u_cons_l, two_u_cons_r. pose proof (row_col x r Nx Nr).
    unfold zlen in *. cbn [length]. lia.
Qed.

(** ** splits *)
Definition consc (x : b64) (cr : list b64 * list b64) := (x :: fst cr, snd cr).
Definition consr (x : b64) (cr : list b64 * list b64) := (fst cr, x :: snd cr).
Definition swap (cr : list b64 * list b64) := (snd cr, fst cr).

Lemma splits_cons k x l :
  splits (S k) (x :: l) =
  if Nat.ltb (length (x :: l)) (S k) then []
  else map (consc x) (splits k l) ++ map (consr x) (splits (S k) l).
Proof. reflexivity. Qed.

Lemma splits_0 (l : list b64) : splits 0 l = [([], l)].
Proof. destruct l; reflexivity. Qed.

Lemma splits_gt k (l : list b64) : (length l < k)%nat -> splits k l = [].
Proof.
  destruct k; [lia|]. destruct l as [|x l]; [reflexivity|]. intros H.
  rewrite splits_cons. apply Nat.ltb_lt in H. now rewrite H.
Qed.

Lemma splits_in k : forall (l c r : list b64),
  In (c, r) (splits k l) -> length c = k /\ (length c + length r = length l)%nat /\ incl c l /\ incl r l.
Proof.
  induction k as [|k IHk]; intros l c r H.
  - rewrite splits_0 in H. destruct H as [[= <- <-]|[]]. cbn.
    repeat split; auto using incl_refl. intros ? [].
  - revert c r H. induction l as [|x l IHl]; intros c r H; [destruct H|].
    rewrite splits_cons in H. destruct (Nat.ltb _ _); [destruct H|].
    apply in_app_or in H. destruct H as [H|H]; apply in_map_iff in H; destruct H as ((c', r') & E & H).
    + injection E as <- <-. apply IHk in H. destruct H as (H1 & H2 & H3 & H4). cbn [fst snd length].
      repeat split; try lia.
      * intros z [<-|Hz]; [now left|right; auto].
      * intros z Hz. right. auto.
    + injection E as <- <-. apply IHl in H. destruct H as (H1 & H2 & H3 & H4). cbn [fst snd length].
      repeat split; try lia.
      * intros z Hz. right. auto.
      * intros z [<-|Hz]; [now left|right; auto].
Qed.

Lemma swap_swap cr : swap (swap cr) = cr.
Proof. now destruct cr. Qed.
Lemma swap_consc x cr : swap (consc x cr) = consr x (swap cr).
Proof. reflexivity. Qed.
Lemma swap_consr x cr : swap (consr x cr) = consc x (swap cr).
Proof. reflexivity. Qed.

(** choosing k for the first sample = choosing the other |l| - k for the second *)
Lemma splits_compl (l : list b64) : forall k, (k <= length l)%nat ->
  Permutation (splits (length l - k) l) (map swap (splits k l)).
Proof.
  induction l as [|x l IH]; intros k Hk.
  - cbn in Hk. replace k with O by lia. cbn. constructor; constructor.
  - cbn [length] in *. destruct k as [|k].
    + (* everything goes to the first sample *)
      rewrite Nat.sub_0_r, splits_0. cbn [map swap fst snd].
      rewrite splits_cons. replace (Nat.ltb (length (x :: l)) (S (length l))) with false
        by (symmetry; apply Nat.ltb_ge; cbn; lia).
      rewrite (splits_gt (S (length l)) l) by lia. cbn [map]. rewrite app_nil_r.
      specialize (IH O ltac:(lia)). rewrite Nat.sub_0_r, splits_0 in IH. cbn [map swap fst snd] in IH.
      apply (Permutation_map (consc x)) in IH. exact IH.
    + rewrite (splits_cons k x l).
      replace (Nat.ltb (length (x :: l)) (S k)) with false by (symmetry; apply Nat.ltb_ge; cbn; lia).
      rewrite map_app, !map_map.
      rewrite (map_ext (fun cr => swap (consc x cr)) (fun cr => consr x (swap cr))) by reflexivity.
      rewrite (map_ext (fun cr => swap (consr x cr)) (fun cr => consc x (swap cr))) by reflexivity.
      destruct (Nat.eq_dec k (length l)) as [->|Hne].
      * (* nothing left for the first sample *)
        replace (S (length l) - S (length l))%nat with O by lia. rewrite splits_0.
        rewrite (splits_gt (S (length l)) l) by lia. cbn [map]. rewrite app_nil_r.
        specialize (IH (length l) ltac:(lia)). rewrite Nat.sub_diag, splits_0 in IH.
        apply (Permutation_map (consr x)) in IH. rewrite map_map in IH. exact IH.
      * replace (S (length l) - S k)%nat with (S (length l - S k)) by lia.
        rewrite splits_cons.
        replace (Nat.ltb (length (x :: l)) (S (length l - S k))) with false
          by (symmetry; apply Nat.ltb_ge; cbn; lia).
        replace (S (length l - S k)) with (length l - k)%nat by lia.
        pose proof (IH (S k) ltac:(lia)) as I1. pose proof (IH k ltac:(lia)) as I2.
        apply (Permutation_map (consc x)) in I1. apply (Permutation_map (consr x)) in I2.
        rewrite map_map in I1, I2.
        rewrite I1, I2. apply Permutation_app_comm.
Qed.

(** ** counting *)
Lemma count_if_cons {A} (f : A -> bool) x l : count_if f (x :: l) = (if f x then 1 else 0) + count_if f l.
Proof. unfold count_if, zlen. cbn [filter]. destruct (f x); cbn [length]; lia. Qed.

Lemma count_if_perm {A} (f : A -> bool) l l' : Permutation l l' -> count_if f l = count_if f l'.
Proof. induction 1; rewrite ?count_if_cons; try lia; reflexivity. Qed.

Lemma count_if_map {A B} (f : B -> bool) (g : A -> B) l : count_if f (map g l) = count_if (fun a => f (g a)) l.
Proof. induction l as [|x l IH]; [reflexivity|]. cbn [map]. now rewrite !count_if_cons, IH. Qed.

Lemma count_if_ext {A} (f g : A -> bool) l : (forall x, f x = g x) -> count_if f l = count_if g l.
Proof. intros H. induction l as [|x l IH]; [reflexivity|]. now rewrite !count_if_cons, IH, H. Qed.

(** the 2U values of the complementary choice *)
Lemma split_us_compl pool n1 n2 :
  Forall nonnan pool -> length pool = (n1 + n2)%nat ->
  Permutation (split_us n2 pool) (map (fun v => 2 * Z.of_nat n1 * Z.of_nat n2 - v) (split_us n1 pool)).
Proof.
  intros Nn Hlen. unfold split_us.
  pose proof (splits_compl pool n1 ltac:(lia)) as H.
  replace (length pool - n1)%nat with n2 in H by lia.
  rewrite (Permutation_map _ H), !map_map.
  erewrite map_ext_in; [reflexivity|].
  intros (c, r) Hin. cbn [swap fst snd].
  apply splits_in in Hin. destruct Hin as (H1 & H2 & H3 & H4).
  assert (Nc : Forall nonnan c) by (rewrite Forall_forall in *; auto).
  assert (Nr : Forall nonnan r) by (rewrite Forall_forall in *; auto).
  pose proof (two_u_swap c r Nc Nr) as S. unfold zlen in S.
  replace (length r) with n2 in S by lia. rewrite H1 in S. lia.
Qed.

(** ** symmetry of the specification's two-sided p-value *)
Lemma perm_p_symmetric x1 x2 :
  Forall ordinary (x1 ++ x2) -> perm_p x2 x1 = perm_p x1 x2.
Proof.
  intros Ho. unfold perm_p.
  assert (Hpool : sort_f (x2 ++ x1) = sort_f (x1 ++ x2)).
  { symmetry. apply sort_f_canonical; [apply Permutation_app_comm|exact Ho]. }
  rewrite Hpool.
  assert (Nn : Forall nonnan (x1 ++ x2)).
  { eapply Forall_impl; [|exact Ho]. intros a; apply ordinary_nonnan. }
  set (pool := sort_f (x1 ++ x2)).
  assert (Np : Forall nonnan pool) by (now apply sort_f_Forall).
  assert (Hlen : length pool = (length x1 + length x2)%nat).
  { unfold pool. rewrite <- (Permutation_length (sort_f_perm (x1 ++ x2))). apply app_length. }
  apply Forall_app in Nn. destruct Nn as [N1 N2].
  pose proof (two_u_swap x1 x2 N1 N2) as Hu. unfold zlen in Hu.
  pose proof (split_us_compl pool (length x1) (length x2) Np Hlen) as Hc.
  set (M := 2 * Z.of_nat (length x1) * Z.of_nat (length x2)) in *.
  replace (two_u x2 x1) with (M - two_u x1 x2) by lia.
  set (u := two_u x1 x2). set (us := split_us (length x1) pool) in *.
  rewrite (count_if_perm _ _ _ Hc), (count_if_perm (fun v => M - u <=? v) _ _ Hc).
  rewrite !count_if_map.
  unfold zlen. rewrite (Permutation_length Hc), map_length.
  rewrite (count_if_ext (fun a => M - a <=? M - u) (fun v => u <=? v))
    by (intros a; destruct (Z.leb_spec (M - a) (M - u)), (Z.leb_spec u a); auto; lia).
  rewrite (count_if_ext (fun a => M - u <=? M - a) (fun v => v <=? u))
    by (intros a; destruct (Z.leb_spec (M - u) (M - a)), (Z.leb_spec a u); auto; lia).
  unfold two_sided. now rewrite (Z.min_comm (count_if (fun v => u <=? v) us)).
Qed.

(** ** the specification sees the samples only through comparisons *)
Section SpecMono.
  Variable f : b64 -> b64.
  Variable pool : list b64.
  Hypothesis f_lt : forall x y, In x pool -> In y pool -> b64_lt (f x) (f y) = b64_lt x y.
  Hypothesis f_le : forall x y, In x pool -> In y pool -> b64_le (f x) (f y) = b64_le x y.
  Hypothesis f_eq : forall x y, In x pool -> In y pool -> b64_eq (f x) (f y) = b64_eq x y.

  Lemma two_u_map c r : incl c pool -> incl r pool -> two_u (map f c) (map f r) = two_u c r.
  Proof.
    intros Hc Hr. unfold two_u. rewrite map_map. f_equal. apply map_ext_in. intros x Hx.
    rewrite map_map. f_equal. apply map_ext_in. intros y Hy.
    rewrite f_lt, f_eq by auto. reflexivity.
  Qed.

  Lemma splits_map k : forall l,
    splits k (map f l) = map (fun cr => (map f (fst cr), map f (snd cr))) (splits k l).
  Proof.
    induction k as [|k IHk]; intros l.
    - now rewrite !splits_0.
    - induction l as [|x l IHl]; [reflexivity|].
      cbn [map]. rewrite !splits_cons. cbn [length]. rewrite map_length.
      destruct (Nat.ltb _ _); [reflexivity|].
      rewrite IHk, IHl, map_app, !map_map. reflexivity.
  Qed.

  Lemma split_us_map k l : incl l pool -> split_us k (map f l) = split_us k l.
  Proof.
    intros Hl. unfold split_us. rewrite splits_map, map_map. apply map_ext_in.
    intros (c, r) Hin. cbn [fst snd]. apply splits_in in Hin. destruct Hin as (_ & _ & Hc & Hr).
    apply two_u_map; eapply incl_tran; eauto.
  Qed.

  Lemma perm_p_map x1 x2 : incl x1 pool -> incl x2 pool -> perm_p (map f x1) (map f x2) = perm_p x1 x2.
  Proof.
    intros H1 H2. unfold perm_p. rewrite two_u_map by assumption.
    rewrite <- map_app, (sort_f_map f pool f_le) by (apply incl_app; assumption).
    rewrite split_us_map, map_length; [reflexivity|].
    intros z Hz. apply (incl_app H1 H2). eapply Permutation_in; [symmetry; apply sort_f_perm|exact Hz].
  Qed.
End SpecMono.

Lemma perm_p_monotone_invariant f x1 x2 :
  (forall x y, In x (x1 ++ x2) -> In y (x1 ++ x2) ->
     b64_lt (f x) (f y) = b64_lt x y /\ b64_le (f x) (f y) = b64_le x y /\ b64_eq (f x) (f y) = b64_eq x y) ->
  perm_p (map f x1) (map f x2) = perm_p x1 x2.
Proof.
  intros H. apply (perm_p_map f (x1 ++ x2)).
  - intros x y Hx Hy. now destruct (H x y Hx Hy).
  - intros x y Hx Hy. now destruct (H x y Hx Hy) as (_ & ? & _).
  - intros x y Hx Hy. now destruct (H x y Hx Hy) as (_ & _ & ?).
  - apply incl_appl, incl_refl.
  - apply incl_appr, incl_refl.
Qed.

(** ** the U-test's exact untied path computes the exact permutation p-value.
    Every pair of untied samples in ascending order with N = n1 + n2 values is
    the image, under an order-preserving map, of a way to split the ranks
    1..N; both the U-test and the specification are invariant under such maps
    (utest_monotone_invariant, perm_p_monotone_invariant), so the claim for all
    untied samples with N <= 10 reduces to the 2036 rank patterns, which are
    evaluated. *)
Definition rank_patterns (N : Z) : list (list b64 * list b64) :=
  flat_map (fun k => splits k (map fl (zrange 1 N))) (seq 1 (Z.to_nat N - 1)).

Definition utest_is_perm_p (x1 x2 : list b64) : bool :=
  match utest x1 x2 with
  | UExactP n d => rat_eq (n, d) (perm_p x1 x2) && (0 <? d)
  | _ => false
  end.

Lemma rank_patterns_check :
  forallb (fun N => forallb (fun cr => utest_is_perm_p (fst cr) (snd cr)) (rank_patterns N)) (zrange 2 10) = true.
Proof. vm_compute. reflexivity. Qed.

Lemma in_range_from' fuel lo k : In k (range_from fuel lo) <-> lo <= k < lo + Z.of_nat fuel.
Proof.
  revert lo. induction fuel as [|fuel IH]; intros lo; cbn [range_from In].
  - split; [intros []|lia].
  - rewrite IH. lia.
Qed.

Lemma p_is_exact_permutation_p_small_untied N c r f :
  2 <= N <= 10 -> In (c, r) (rank_patterns N) ->
  (forall x y, In x (c ++ r) -> In y (c ++ r) ->
     b64_lt (f x) (f y) = b64_lt x y /\ b64_le (f x) (f y) = b64_le x y /\ b64_eq (f x) (f y) = b64_eq x y) ->
  utest_is_perm_p (map f c) (map f r) = true.
Proof.
  intros HN Hin Hf. unfold utest_is_perm_p.
  rewrite (utest_monotone_invariant f c r Hf), (perm_p_monotone_invariant f c r Hf).
  pose proof rank_patterns_check as H. rewrite forallb_forall in H.
  assert (HinN : In N (zrange 2 10)) by (unfold zrange; apply in_range_from'; lia).
  specialize (H N HinN). rewrite forallb_forall in H. exact (H (c, r) Hin).
Qed.
