(** What parse.ParseProjection / ProjectionParser.Parse always reject
    (Model/ProjParse.v).

    The projection parser reads every token in key-or-operator mode (no
    regexps): [proj_tokens q] is that stream. [pstep] is a finite automaton
    with output over the tokens: it accepts exactly the shape
    key [ @ word | @ ( word+ ) ] separated by optional commas and builds the
    list of fields. [parse_projection_sound]: an accepted text has no lexical
    fault and the automaton maps its token stream to exactly the fields the
    parser returns. The rejection theorems are consequences, as are the exact
    description of the semantic layer ([new_projection_ok_iff]) and the bound
    on the offsets it reports. *)
From Perf Require Import Base.Bytes Base.Rune Model.Unquote Model.Tok Model.FilterAst Model.FilterParse
  Model.ProjParse Proofs.Unquote Proofs.Tok Proofs.FilterParse Proofs.ProjParse Proofs.TokStream
  Proofs.FilterReject.

Definition proj_tokens (is_space : N -> bool) (re_ok : bytes -> bool) (q : bytes) : lexres :=
  toks is_space re_ok (length q) unit (fun _ => false) (fun _ _ => tt) (S (length q)) tt q.

(** an error-free run of the tokenizer over the text [q], reading [ts] and leaving [r] *)
Definition proj_lexes (is_space : N -> bool) (re_ok : bytes -> bool) (q : bytes) (ts : list tok) (r : bytes) : Prop :=
  chain is_space re_ok (length q) unit (fun _ => false) (fun _ _ => Some tt) tt q ts tt r.

Definition is_at (t : tok) : bool := kind_eqb_op (t_kind t) c_at.
Definition is_comma (t : tok) : bool := kind_eqb_op (t_kind t) c_comma.

(** ** the automaton *)
Inductive pst :=
| PNext (done : list pfield)                              (* start, or after a complete field *)
| PComma (done : list pfield)                             (* after a separating comma *)
| PKey (done : list pfield) (k : bytes) (koff : nat)      (* after a key: "@" may follow *)
| PAt (done : list pfield) (k : bytes) (koff : nat)       (* after "@" *)
| PFix (done : list pfield) (k : bytes) (koff ooff : nat) (fixed : list bytes).   (* inside "(" ... *)

Definition pdone (s : pst) : list pfield :=
  match s with
  | PNext d | PComma d | PKey d _ _ | PAt d _ _ | PFix d _ _ _ _ => d
  end.

(** the fields so far, a key without "@" counting as a field in first-observation order *)
Definition pemit (s : pst) : list pfield :=
  match s with
  | PKey d k koff => d ++ [mkField k ord_first [] koff (koff + length k)]
  | _ => pdone s
  end.

Definition nilb {A} (l : list A) : bool := match l with [] => true | _ => false end.

Definition pstep (s : pst) (t : tok) : option pst :=
  let k := t_kind t in
  match s with
  | PNext _ | PKey _ _ _ =>
      if is_word k then Some (PKey (pemit s) (t_text t) (t_off t))
      else if kind_eqb_op k c_comma then
        if nilb (pemit s) then None else Some (PComma (pemit s))
      else if kind_eqb_op k c_at then
        match s with PKey d key koff => Some (PAt d key koff) | _ => None end
      else None
  | PComma d => if is_word k then Some (PKey d (t_text t) (t_off t)) else None
  | PAt d key koff =>
      if is_word k then Some (PNext (d ++ [mkField key (t_text t) [] koff (t_off t)]))
      else if kind_eqb_op k c_lpar then Some (PFix d key koff (t_off t) [])
      else None
  | PFix d key koff ooff fixed =>
      if is_word k then Some (PFix d key koff ooff (fixed ++ [t_text t]))
      else if kind_eqb_op k c_rpar then
        if nilb fixed then None else Some (PNext (d ++ [mkField key ord_fixed fixed koff ooff]))
      else None
  end.

Definition pfin (s : pst) : option (list pfield) :=
  match s with
  | PNext _ | PKey _ _ _ => Some (pemit s)
  | _ => None
  end.

Definition prun_from (s : pst) (ts : list tok) : option pst := run pst pstep s ts.
Definition proj_fields (ts : list tok) : option (list pfield) :=
  match prun_from (PNext []) ts with Some s => pfin s | None => None end.

(** states between fields *)
Definition between (s : pst) : bool :=
  match s with PNext _ | PKey _ _ _ => true | _ => false end.
Definition at_key (s : pst) : bool :=
  match s with PNext _ | PKey _ _ _ | PComma _ => true | _ => false end.

Lemma pstep_word_key s t : at_key s = true -> is_word (t_kind t) = true ->
  pstep s t = Some (PKey (pemit s) (t_text t) (t_off t)).
Proof. intros Hs Hw. destruct s; try discriminate Hs; cbn; now rewrite Hw. Qed.

Section Sound.
Variable is_space : N -> bool.
Variable re_ok : bytes -> bool.
Variable n0 : nat.

Notation next := (next is_space re_ok n0).
Notation sk q := (skip_spaces is_space q 0).
Notation pchain := (chain is_space re_ok n0 pst (fun _ => false) pstep).

Ltac back :=
  repeat match goal with
  | H : Tok.next _ _ _ _ _ ?e = (_, _, _, None) |- _ =>
      is_var e;
      let Hq := fresh "Hq" in let Hf := fresh "Hf" in
      destruct (next_none_inv _ _ _ _ _ _ _ _ _ H) as (-> & Hq & Hf)
  end.

Lemma seterr_none {A} (x : A) (r : bytes) e off (y : A) (r' : bytes) :
  Some (x, r, set_err e off) = Some (y, r', None) -> False.
Proof. intros [= _ _ H]. exact (set_err_some _ _ H). Qed.

Ltac serr := let H := fresh in intros H; exfalso; exact (seterr_none _ _ _ _ _ _ H).

Lemma word_ne k : is_word k = true -> k <> KEOF.
Proof. destruct k; cbn; congruence. Qed.
Lemma op_ne k c : kind_eqb_op k c = true -> k <> KEOF.
Proof. destruct k; cbn; congruence. Qed.

Lemma fixed_loop_sound f : forall q e fixed fx r,
  fixed_loop is_space re_ok n0 f q e fixed = Some (fx, r, None) ->
  e = None /\ forall d k koff ooff,
    exists ts, pchain (PFix d k koff ooff fixed) q ts (PNext (d ++ [mkField k ord_fixed fx koff ooff])) r.
Proof.
  induction f as [|f IH]; intros q e fixed fx r; cbn [fixed_loop]; [discriminate|].
  destruct (next false q e) as [[[t t5] q'] e1] eqn:Hn.
  destruct (is_word (t_kind t)) eqn:Ew.
  - intros H. apply IH in H. destruct H as (-> & H). back. split; [reflexivity|].
    intros d k koff ooff. destruct (H d k koff ooff) as (ts & Hc).
    exists (t :: ts). eapply ch_cons; [exact Hn|now apply word_ne| |exact Hc].
    cbn. now rewrite Ew.
  - destruct (kind_eqb_op (t_kind t) c_rpar) eqn:Er; [|serr].
    destruct fixed as [|w fixed]; [serr|].
    intros [= <- <- ->]. back. split; [reflexivity|]. intros d k koff ooff.
    exists [t]. eapply ch_cons; [exact Hn|exact (op_ne _ _ Er)| |apply chain_refl].
    cbn. now rewrite Ew, Er.
Qed.

Lemma parse_field_sound f q e fld r :
  parse_field is_space re_ok n0 f q e = Some (fld, r, None) ->
  e = None /\ forall s0, at_key s0 = true ->
    exists ts s', pchain s0 q ts s' r /\ between s' = true /\ pemit s' = pemit s0 ++ [fld].
Proof.
  unfold parse_field.
  destruct (next false q e) as [[[key t2] q'] e1] eqn:Hn1.
  destruct (is_word (t_kind key)) eqn:Ew; cbn [negb]; [|serr].
  destruct (next false t2 e1) as [[[sep t3] t2'] e2] eqn:Hn2.
  destruct (kind_eqb_op (t_kind sep) c_at) eqn:Eat; cbn [negb].
  2:{ intros [= <- <- ->]. back. split; [reflexivity|]. intros s0 Hs0.
      exists [key], (PKey (pemit s0) (t_text key) (t_off key)). split; [|split; reflexivity].
      eapply ch_cons; [exact Hn1|now apply word_ne|now apply pstep_word_key|].
      constructor. subst. now rewrite sk_idem. }
  destruct (next false t3 e2) as [[[order t4] t3'] e3] eqn:Hn3.
  assert (Hsep : forall d k koff, pstep (PKey d k koff) sep = Some (PAt d k koff)).
  { intros d k koff.
    assert (Hw : is_word (t_kind sep) = false)
      by (destruct (t_kind sep); cbn [kind_eqb_op is_word] in *; congruence).
    assert (Hc : kind_eqb_op (t_kind sep) c_comma = false).
    { destruct (t_kind sep) as [|c| | | | |]; cbn [kind_eqb_op] in *; try reflexivity.
      apply beqb_eq in Eat. subst c. reflexivity. }
    cbn [pstep]. rewrite Hw, Hc, Eat. reflexivity. }
  destruct (is_word (t_kind order)) eqn:Eo.
  { intros [= <- <- ->]. back. split; [reflexivity|]. intros s0 Hs0.
    exists [key; sep; order]. eexists. split; [|split].
    - eapply ch_cons; [exact Hn1|now apply word_ne|now apply pstep_word_key|].
      eapply ch_cons; [exact Hn2|exact (op_ne _ _ Eat)|apply Hsep|].
      eapply ch_cons; [exact Hn3|now apply word_ne| |apply chain_refl].
      cbn. rewrite Eo. reflexivity.
    - reflexivity.
    - reflexivity. }
  destruct (kind_eqb_op (t_kind order) c_lpar) eqn:El; [|serr].
  destruct (fixed_loop is_space re_ok n0 f t4 e3 []) as [[[fixed r0] e4]|] eqn:Hfx; [|discriminate].
  intros [= <- <- ->]. apply fixed_loop_sound in Hfx. destruct Hfx as (-> & Hfx). back.
  split; [reflexivity|]. intros s0 Hs0.
  destruct (Hfx (pemit s0) (t_text key) (t_off key) (t_off order)) as (ts & Hc).
  exists (key :: sep :: order :: ts). eexists. split; [|split].
  - eapply ch_cons; [exact Hn1|now apply word_ne|now apply pstep_word_key|].
    eapply ch_cons; [exact Hn2|exact (op_ne _ _ Eat)|apply Hsep|].
    eapply ch_cons; [exact Hn3|exact (op_ne _ _ El)| |exact Hc].
    cbn. rewrite Eo, El. reflexivity.
  - reflexivity.
  - reflexivity.
Qed.

Lemma proj_loop_sound f : forall q e fields l r,
  proj_loop is_space re_ok n0 f q e fields = Some (l, r, None) ->
  e = None /\ forall s0, between s0 = true -> pemit s0 = fields ->
    exists ts s', pchain s0 q ts s' r /\ between s' = true /\ pemit s' = l
      /\ exists t r' q', next false r None = (t, r', q', None) /\ t_kind t = KEOF.
Proof.
  induction f as [|f IH]; intros q e fields l r; cbn [proj_loop]; [discriminate|].
  destruct (next false q e) as [[[t toks2] q'] e1] eqn:Hn.
  assert (Hfield : t_kind t <> KEOF ->
    match parse_field is_space re_ok n0 f
            (if kind_eqb_op (t_kind t) c_comma && negb match fields with [] => true | _ :: _ => false end
             then toks2 else q') e1 with
    | Some (fld, q2, e2) => proj_loop is_space re_ok n0 f q2 e2 (fields ++ [fld])
    | None => None
    end = Some (l, r, None) ->
    e = None /\ forall s0, between s0 = true -> pemit s0 = fields ->
      exists ts s', pchain s0 q ts s' r /\ between s' = true /\ pemit s' = l
        /\ exists t r' q', next false r None = (t, r', q', None) /\ t_kind t = KEOF).
  { intros Hne.
    match goal with |- context [parse_field _ _ _ _ ?q1 _] => set (q1' := q1) end.
    destruct (parse_field is_space re_ok n0 f q1' e1) as [[[fld q2] e2]|] eqn:Hpf; [|discriminate].
    intros H. apply IH in H. destruct H as (-> & H).
    apply parse_field_sound in Hpf. destruct Hpf as (-> & Hpf). back.
    split; [reflexivity|]. intros s0 Hb Hem. subst q1'.
    destruct (kind_eqb_op (t_kind t) c_comma && negb match fields with [] => true | _ :: _ => false end) eqn:Ec.
    - apply andb_true_iff in Ec. destruct Ec as [Ec Hnn].
      assert (Hst : pstep s0 t = Some (PComma fields)).
      { assert (Hw : is_word (t_kind t) = false) by (destruct (t_kind t); cbn in Ec |- *; congruence).
        destruct s0; try discriminate Hb; cbn [pstep]; rewrite Hw, Ec, Hem;
          destruct fields; try discriminate Hnn; reflexivity. }
      destruct (Hpf (PComma fields) eq_refl) as (ts1 & s1 & Hc1 & Hb1 & He1).
      destruct (H s1 Hb1 He1) as (ts2 & s2 & Hc2 & Hb2 & He2 & Hend).
      exists (t :: ts1 ++ ts2), s2. split; [|split; [exact Hb2|split; [exact He2|exact Hend]]].
      eapply ch_cons; [exact Hn|exact Hne|exact Hst|]. eapply chain_app; eauto.
    - assert (Hk0 : at_key s0 = true) by (destruct s0; try discriminate Hb; reflexivity).
      destruct (Hpf s0 Hk0) as (ts1 & s1 & Hc1 & Hb1 & He1). rewrite Hem in He1.
      destruct (H s1 Hb1 He1) as (ts2 & s2 & Hc2 & Hb2 & He2 & Hend).
      exists (ts1 ++ ts2), s2. split; [|split; [exact Hb2|split; [exact He2|exact Hend]]].
      subst q'. apply (chain_sk_start _ _ _ _ _ _ _ _ (sk q)); [now rewrite sk_idem|].
      eapply chain_app; eauto. }
  destruct (t_kind t) eqn:Ek; try (apply Hfield; congruence).
  intros [= <- <- ->]. back. split; [reflexivity|]. intros s0 Hb Hem.
  exists [], s0. split; [|split; [exact Hb|split; [exact Hem|]]].
  - constructor. subst. now rewrite sk_idem.
  - exists t, toks2, q'. split; [|exact Ek].
    etransitivity; [|exact Hn]. apply next_sk. subst. now rewrite sk_idem.
Qed.

End Sound.

(** ** facts about the automaton (token lists only) *)
Ltac list_cases :=
  repeat match goal with
  | |- context [if nilb ?l then _ else _] => destruct (nilb l)
  end.

Definition pdepth (s : pst) : nat := match s with PFix _ _ _ _ _ => 1 | _ => 0 end.

Lemma pstep_depth s t s' ts : pstep s t = Some s' ->
  paren_depth (pdepth s) (t :: ts) = paren_depth (pdepth s') ts.
Proof.
  unfold pstep. cbn [paren_depth]. unfold is_word, kind_eqb_op.
  destruct s; destruct (t_kind t) as [|ch| | | | |]; try discriminate; cbn [pdepth pemit pdone];
    byte_cases; try discriminate; try congruence; list_cases;
    try discriminate; intros [= <-]; reflexivity.
Qed.

Lemma prun_depth ts : forall s s', prun_from s ts = Some s' ->
  paren_depth (pdepth s) ts = Some (pdepth s').
Proof.
  unfold prun_from. induction ts as [|t ts IH]; intros s s'; cbn [run].
  - now intros [= ->].
  - destruct (pstep s t) as [s1|] eqn:E; [|discriminate]. intros H.
    rewrite (pstep_depth _ _ _ ts E). now apply IH.
Qed.

Lemma pfin_between s l : pfin s = Some l -> between s = true /\ l = pemit s.
Proof. destruct s; cbn; try discriminate; intros [= <-]; auto. Qed.

Theorem proj_fields_balanced ts l : proj_fields ts = Some l -> balanced ts = true.
Proof.
  unfold proj_fields, balanced. destruct (prun_from (PNext []) ts) as [s|] eqn:E; [|discriminate].
  intros H. apply pfin_between in H. destruct H as [Hb _].
  apply prun_depth in E. cbn [pdepth] in E. rewrite E. destruct s; try discriminate Hb; reflexivity.
Qed.

Lemma prun_split s pre post s' :
  prun_from s (pre ++ post) = Some s' -> exists s1, prun_from s pre = Some s1 /\ prun_from s1 post = Some s'.
Proof.
  unfold prun_from. rewrite run_app. destruct (run pst pstep s pre) as [s1|]; [|discriminate]. eauto.
Qed.

Lemma pstep_lpar_inv s t s' : is_lpar t = true -> pstep s t = Some s' ->
  exists d k koff, s = PAt d k koff /\ s' = PFix d k koff (t_off t) [].
Proof.
  unfold is_lpar, pstep, is_word, kind_eqb_op.
  destruct s; destruct (t_kind t) as [|ch| | | | |]; try discriminate;
    intros Hc; byte_cases; try discriminate; try congruence; list_cases; try discriminate;
    intros [= <-]; eauto.
Qed.

Lemma pstep_at_inv s t s' : is_at t = true -> pstep s t = Some s' ->
  exists d k koff, s = PKey d k koff /\ s' = PAt d k koff.
Proof.
  unfold is_at, pstep, is_word, kind_eqb_op.
  destruct s; destruct (t_kind t) as [|ch| | | | |]; try discriminate;
    intros Hc; byte_cases; try discriminate; try congruence; list_cases; try discriminate;
    intros [= <-]; eauto.
Qed.

Lemma pstep_to_at s t d k koff : pstep s t = Some (PAt d k koff) -> is_at t = true.
Proof.
  unfold is_at, pstep, is_word, kind_eqb_op.
  destruct s; destruct (t_kind t) as [|ch| | | | |]; try discriminate;
    byte_cases; try discriminate; try congruence; list_cases; try discriminate; try reflexivity.
Qed.

(** "k@()" : an opening parenthesis directly followed by a closing one *)
Theorem proj_fields_empty_list pre lp rp post :
  is_lpar lp = true -> is_rpar rp = true -> proj_fields (pre ++ lp :: rp :: post) = None.
Proof.
  intros Hl Hr. unfold proj_fields.
  destruct (prun_from (PNext []) (pre ++ lp :: rp :: post)) as [s|] eqn:E; [|reflexivity]. exfalso.
  apply prun_split in E. destruct E as (s1 & _ & E). unfold prun_from in E. cbn [run] in E.
  destruct (pstep s1 lp) as [s2|] eqn:E2; [|discriminate].
  destruct (pstep_lpar_inv _ _ _ Hl E2) as (d & k & koff & -> & ->).
  unfold is_rpar in Hr. cbn [pstep] in E.
  destruct (t_kind rp); cbn [kind_eqb_op is_word] in *; try discriminate. rewrite Hr in E. discriminate.
Qed.

Lemma pstep_done s t s' : pstep s t = Some s' -> incl (pdone s) (pdone s').
Proof.
  unfold pstep. destruct s; cbn [pemit pdone];
    repeat match goal with |- context [if ?b then _ else _] => destruct b end; list_cases;
    try discriminate; intros [= <-]; cbn [pdone];
    try apply incl_refl; try (apply incl_appl; apply incl_refl).
Qed.

Lemma prun_done ts : forall s s', prun_from s ts = Some s' -> incl (pdone s) (pdone s').
Proof.
  unfold prun_from. induction ts as [|t ts IH]; intros s s'; cbn [run].
  - intros [= ->]. apply incl_refl.
  - destruct (pstep s t) as [s1|] eqn:E; [|discriminate]. intros H.
    eapply incl_tran; [exact (pstep_done _ _ _ E)|now apply IH].
Qed.

Lemma pfin_done s l : pfin s = Some l -> incl (pdone s) l.
Proof.
  destruct s; cbn; try discriminate; intros [= <-]; try apply incl_refl.
  apply incl_appl, incl_refl.
Qed.

(** "k@name": the word after an "@" is the order of some field, with its offset *)
Theorem proj_fields_order pre a w post l :
  proj_fields (pre ++ a :: w :: post) = Some l -> is_at a = true -> is_word (t_kind w) = true ->
  exists p, In p l /\ pf_order p = t_text w /\ pf_ooff p = t_off w /\ pf_fixed p = [].
Proof.
  unfold proj_fields. intros H Ha Hw.
  destruct (prun_from (PNext []) (pre ++ a :: w :: post)) as [s|] eqn:E; [|discriminate].
  apply prun_split in E. destruct E as (s1 & _ & E). unfold prun_from in E. cbn [run] in E.
  destruct (pstep s1 a) as [s2|] eqn:E2; [|discriminate].
  destruct (pstep_at_inv _ _ _ Ha E2) as (d & k & koff & -> & ->).
  cbn [pstep] in E. rewrite Hw in E.
  apply prun_done in E. apply pfin_done in H. cbn [pdone] in E.
  exists (mkField k (t_text w) [] koff (t_off w)). split; [|auto].
  apply H, E, in_or_app. right. now left.
Qed.

(** keys: the committed fields and the field being read *)
Definition pkeys_st (s : pst) : list bytes :=
  map pf_key (pdone s) ++
  match s with PKey _ k _ | PAt _ k _ | PFix _ k _ _ _ => [k] | _ => [] end.

Lemma pstep_keys s t s' : pstep s t = Some s' -> incl (pkeys_st s) (pkeys_st s').
Proof.
  unfold pstep. destruct s; cbn [pemit pdone];
    repeat match goal with |- context [if ?b then _ else _] => destruct b end; list_cases;
    try discriminate; intros [= <-]; unfold pkeys_st; cbn [pdone];
    rewrite ?map_app, ?app_nil_r; cbn [map pf_key];
    try apply incl_refl; try (apply incl_appl; apply incl_refl).
Qed.

Lemma prun_keys ts : forall s s', prun_from s ts = Some s' -> incl (pkeys_st s) (pkeys_st s').
Proof.
  unfold prun_from. induction ts as [|t ts IH]; intros s s'; cbn [run].
  - intros [= ->]. apply incl_refl.
  - destruct (pstep s t) as [s1|] eqn:E; [|discriminate]. intros H.
    eapply incl_tran; [exact (pstep_keys _ _ _ E)|now apply IH].
Qed.

Lemma pfin_keys s l : pfin s = Some l -> incl (pkeys_st s) (map pf_key l).
Proof.
  destruct s; cbn; try discriminate; intros [= <-]; unfold pkeys_st; cbn [pdone];
    rewrite ?map_app, ?app_nil_r; apply incl_refl.
Qed.

(** a word outside parentheses and not right after "@" is the key of a field *)
Definition key_position (pre : list tok) : Prop :=
  paren_depth 0 pre = Some 0 /\ forall pre' a, pre = pre' ++ [a] -> is_at a = false.

Theorem proj_fields_key pre k post l :
  proj_fields (pre ++ k :: post) = Some l -> is_word (t_kind k) = true -> key_position pre ->
  In (t_text k) (map pf_key l).
Proof.
  unfold proj_fields. intros H Hw [Hd Hat].
  destruct (prun_from (PNext []) (pre ++ k :: post)) as [s|] eqn:E; [|discriminate].
  apply prun_split in E. destruct E as (s1 & E1 & E).
  assert (Hk : at_key s1 = true).
  { pose proof (prun_depth _ _ _ E1) as Hd1. cbn [pdepth] in Hd1. rewrite Hd in Hd1.
    destruct s1 as [d|d|d k0 koff|d k0 koff|d k0 koff ooff fx]; try reflexivity; [|discriminate Hd1].
    exfalso. destruct pre as [|t0 pre0] using rev_ind; [discriminate E1|].
    apply prun_split in E1. destruct E1 as (s0 & _ & E1). unfold prun_from in E1. cbn [run] in E1.
    destruct (pstep s0 t0) as [s2|] eqn:E2; [|discriminate]. injection E1 as ->.
    apply pstep_to_at in E2. rewrite (Hat pre0 t0 eq_refl) in E2. discriminate. }
  unfold prun_from in E. cbn [run] in E. rewrite (pstep_word_key _ _ Hk Hw) in E.
  apply prun_keys in E. apply pfin_keys in H. apply H, E.
  unfold pkeys_st. apply in_or_app. right. now left.
Qed.

(** offsets: every key offset is inside the text; an order offset is inside
    the text unless the field has no "@" (then it is key offset + length of
    the unquoted key, which can exceed the text: see [ooff_beyond_text]) *)
Definition pf_ok (n : nat) (p : pfield) : Prop :=
  pf_koff p <= n /\ (pf_order p = ord_first \/ pf_ooff p <= n).

Definition pst_ok (n : nat) (s : pst) : Prop :=
  Forall (pf_ok n) (pdone s) /\
  match s with
  | PKey _ _ koff | PAt _ _ koff => koff <= n
  | PFix _ _ koff ooff _ => koff <= n /\ ooff <= n
  | _ => True
  end.

Lemma pemit_ok n s : pst_ok n s -> Forall (pf_ok n) (pemit s).
Proof.
  intros [Hd Hs]. destruct s; cbn [pemit pdone] in *; auto.
  apply Forall_app. split; [exact Hd|]. constructor; [|constructor]. split; cbn; auto.
Qed.

Lemma pstep_ok n s t s' : t_off t <= n -> pst_ok n s -> pstep s t = Some s' -> pst_ok n s'.
Proof.
  intros Ht Hs. pose proof (pemit_ok n s Hs) as He. destruct Hs as [Hd Hs].
  unfold pstep. destruct s; cbn [pemit pdone] in *;
    repeat match goal with |- context [if ?b then _ else _] => destruct b end; list_cases;
    try discriminate; intros [= <-]; (split; [cbn [pdone]|cbn; try tauto]); auto;
    try (apply Forall_app; split; [exact Hd|constructor; [|constructor]]; split; cbn; tauto).
Qed.

Lemma prun_ok n ts : Forall (fun t => t_off t <= n) ts ->
  forall s s', pst_ok n s -> prun_from s ts = Some s' -> pst_ok n s'.
Proof.
  unfold prun_from. induction 1 as [|t ts Ht _ IH]; intros s s' Hs; cbn [run].
  - now intros [= <-].
  - destruct (pstep s t) as [s1|] eqn:E; [|discriminate]. apply IH. eapply pstep_ok; eauto.
Qed.

Theorem proj_fields_offs n ts l :
  Forall (fun t => t_off t <= n) ts -> proj_fields ts = Some l -> Forall (pf_ok n) l.
Proof.
  unfold proj_fields. intros Ht H.
  destruct (prun_from (PNext []) ts) as [s|] eqn:E; [|discriminate].
  apply (prun_ok n ts Ht) in E; [|split; constructor].
  apply pfin_between in H. destruct H as [_ ->]. now apply pemit_ok.
Qed.

(** ** the semantic checks of makeProjection *)
Lemma known_order_iff o :
  known_order o = true <-> o = ord_fixed \/ o = ord_first \/ o = ord_alpha \/ o = ord_num.
Proof.
  unfold known_order. rewrite !orb_true_iff, !beq_eq. tauto.
Qed.

(** the order names a field may carry after "@": "fixed" is the order of a
    parenthesised list and, spelled out as a name, has no values *)
Definition plain_order (o : bytes) : Prop := o = ord_first \/ o = ord_alpha \/ o = ord_num.

(** a field the semantic layer accepts *)
Definition field_ok (p : pfield) : Prop :=
  known_order (pf_order p) = true /\
  (pf_order p = ord_fixed -> pf_fixed p <> []) /\
  (pf_key p = key_config -> pf_order p <> ord_fixed) /\
  pf_key p <> key_unit /\ pf_key p <> [].

Lemma check_field_none p : check_field p = None <-> field_ok p.
Proof.
  unfold check_field, field_ok. destruct (known_order (pf_order p)); cbn [negb].
  2:{ split; [discriminate|intros [H _]; discriminate]. }
  assert (Hfx : beq (pf_order p) ord_fixed && match pf_fixed p with [] => true | _ => false end = false
                <-> (pf_order p = ord_fixed -> pf_fixed p <> [])).
  { destruct (beq_spec (pf_order p) ord_fixed) as [Eo|Eo]; cbn [andb].
    - destruct (pf_fixed p); split; try discriminate; try reflexivity.
      intros H. now elim (H Eo).
    - split; [intros _ H; now elim Eo|reflexivity]. }
  destruct (beq (pf_order p) ord_fixed && match pf_fixed p with [] => true | _ => false end).
  { split; [discriminate|]. intros (_ & H & _). apply Hfx in H. discriminate. }
  assert (Hf : pf_order p = ord_fixed -> pf_fixed p <> []) by now apply Hfx.
  destruct (beq_spec (pf_key p) key_config) as [Ec|Ec].
  { rewrite Ec. destruct (beq_spec (pf_order p) ord_fixed) as [Eo|Eo].
    - split; [discriminate|]. intros (_ & _ & H & _). now elim (H eq_refl).
    - split; [|reflexivity]. intros _. repeat split; auto; discriminate. }
  destruct (beq_spec (pf_key p) (bs ".fullname")) as [Ef|Ef].
  { rewrite Ef. split; [|reflexivity]. intros _. repeat split; auto; discriminate. }
  destruct (beq_spec (pf_key p) key_unit) as [Eu|Eu].
  { split; [discriminate|]. intros (_ & _ & _ & H & _). now elim H. }
  destruct (pf_key p) eqn:Ek.
  - split; [discriminate|]. intros (_ & _ & _ & _ & H). now elim H.
  - split; [|reflexivity]. intros _. repeat split; auto; discriminate.
Qed.

Lemma check_fields_none l : check_fields l = None <-> Forall field_ok l.
Proof.
  induction l as [|p l IH]; cbn [check_fields]; [split; [constructor|reflexivity]|].
  destruct (check_field p) as [o|] eqn:E.
  - split; [discriminate|]. intros H. inversion H as [|? ? Hp _]. apply check_field_none in Hp. congruence.
  - rewrite IH. split; [intros H; constructor; [now apply check_field_none|exact H]|].
    intros H. now inversion H.
Qed.

Lemma check_field_off n p off : pf_ok n p -> check_field p = Some off -> off <= n.
Proof.
  intros [Hk Ho]. unfold check_field.
  destruct (known_order (pf_order p)) eqn:Eko; cbn [negb].
  2:{ intros [= <-]. destruct Ho as [Ho|Ho]; [|exact Ho]. rewrite Ho in Eko. discriminate. }
  destruct (beq_spec (pf_order p) ord_fixed) as [Efx|Efx]; cbn [andb].
  { destruct (pf_fixed p).
    - intros [= <-]. destruct Ho as [Ho|Ho]; [|exact Ho]. rewrite Ho in Efx. discriminate.
    - destruct (beq (pf_key p) key_config); [intros [= <-]; destruct Ho as [Ho|Ho]; [|exact Ho];
                                             rewrite Ho in Efx; discriminate|].
      destruct (beq (pf_key p) (bs ".fullname")); [discriminate|].
      destruct (beq (pf_key p) key_unit); [intros [= <-]; exact Hk|].
      destruct (pf_key p); [intros [= <-]; exact Hk|discriminate]. }
  destruct (beq (pf_key p) key_config).
  { destruct (beq_spec (pf_order p) ord_fixed) as [Eo|Eo]; [now elim Efx|discriminate]. }
  destruct (beq (pf_key p) (bs ".fullname")); [discriminate|].
  destruct (beq (pf_key p) key_unit); [intros [= <-]; exact Hk|].
  destruct (pf_key p); [intros [= <-]; exact Hk|discriminate].
Qed.

Lemma check_fields_off n l off : Forall (pf_ok n) l -> check_fields l = Some off -> off <= n.
Proof.
  induction 1 as [|p l Hp _ IH]; cbn [check_fields]; [discriminate|].
  destruct (check_field p) as [o|] eqn:E; [|exact IH].
  intros [= <-]. exact (check_field_off n p o Hp E).
Qed.

Lemma check_fields_unit l p : In p l -> pf_key p = key_unit -> check_fields l <> None.
Proof.
  intros Hin Hk H. apply check_fields_none in H. rewrite Forall_forall in H.
  destruct (H p Hin) as (_ & _ & _ & Hu & _). now elim Hu.
Qed.

(** the check as it was before the repair of golang/perf (commit 9f4ec2f): no
    test for a fixed order without values. Kept only to record what changed. *)
Definition check_field_before_fix (p : pfield) : option nat :=
  if negb (known_order (pf_order p)) then Some (pf_ooff p)
  else if beq (pf_key p) key_config then
    if beq (pf_order p) ord_fixed then Some (pf_ooff p) else None
  else if beq (pf_key p) (bs ".fullname") then None
  else if beq (pf_key p) key_unit then Some (pf_koff p)
  else match pf_key p with [] => Some (pf_koff p) | _ => None end.

(** ** the theorems about texts *)
Section Reject.
Variable is_space : N -> bool.
Variable re_ok : bytes -> bool.

Notation parse_projection := (parse_projection is_space re_ok).
Notation new_projection := (new_projection is_space re_ok).
Notation proj_tokens := (proj_tokens is_space re_ok).

Theorem parse_projection_sound q l :
  parse_projection q = Ok l ->
  exists ts, proj_tokens q = LexOk ts /\ proj_fields ts = Some l.
Proof.
  unfold ProjParse.parse_projection, parse_projection_fuel. set (n0 := length q).
  destruct (proj_loop is_space re_ok n0 (proj_fuel_for q) q None []) as [[[l0 q1] e1]|] eqn:He; [|discriminate].
  unfold tok_end.
  destruct (next is_space re_ok n0 false q1 e1) as [[[t r] q'] e'] eqn:Hn.
  intros H. destruct (t_kind t) eqn:Hk.
  2-7: exfalso; destruct (set_err e' (off_of n0 q')) eqn:E; [discriminate H|exact (set_err_some _ _ E)].
  destruct e'; [discriminate H|]. injection H as ->.
  destruct (next_none_inv _ _ _ _ _ _ _ _ _ Hn) as (-> & _ & _).
  apply proj_loop_sound in He. destruct He as (_ & He).
  destruct (He (PNext []) eq_refl eq_refl) as (ts & s' & Hc & Hb & Hem & Hend).
  exists ts. split.
  - unfold ProjReject.proj_tokens. fold n0.
    apply (chain_map is_space re_ok n0 (fun _ => false) pstep (fun _ : unit => false)
             (fun s t => Some tt) (fun _ => tt)) in Hc; [|reflexivity|reflexivity].
    eapply chain_toks_ok; [exact Hc|exact Hend|lia].
  - unfold proj_fields, prun_from. rewrite (chain_run _ _ _ _ _ _ _ _ _ _ _ Hc).
    destruct s'; try discriminate Hb; cbn [pfin]; now rewrite Hem.
Qed.

Lemma proj_not_ok_rejected q : (forall l, parse_projection q <> Ok l) -> rejected (parse_projection q) q.
Proof.
  intros H. destruct (parse_projection q) as [x|off|] eqn:E.
  - now elim (H x).
  - exists off. split; [reflexivity|]. exact (parse_projection_error_offset is_space re_ok q off E).
  - now elim (parse_projection_total is_space re_ok q).
Qed.

Theorem proj_rejects_lexical_fault q why off :
  proj_tokens q = LexErr why off -> rejected (parse_projection q) q.
Proof.
  intros H. apply proj_not_ok_rejected. intros l Hl.
  destruct (parse_projection_sound q l Hl) as (ts & Hts & _). congruence.
Qed.

Theorem proj_rejects_not_accepted q ts :
  proj_tokens q = LexOk ts -> proj_fields ts = None -> rejected (parse_projection q) q.
Proof.
  intros H Ha. apply proj_not_ok_rejected. intros l Hl.
  destruct (parse_projection_sound q l Hl) as (ts' & Hts & Hf). congruence.
Qed.

Theorem proj_rejects_unbalanced q ts :
  proj_tokens q = LexOk ts -> balanced ts = false -> rejected (parse_projection q) q.
Proof.
  intros H Hb. apply (proj_rejects_not_accepted q ts H).
  destruct (proj_fields ts) as [l|] eqn:E; [|reflexivity]. apply proj_fields_balanced in E. congruence.
Qed.

Theorem rejects_empty_fixed_list q pre lp rp post :
  proj_tokens q = LexOk (pre ++ lp :: rp :: post) -> is_lpar lp = true -> is_rpar rp = true ->
  rejected (parse_projection q) q.
Proof.
  intros H Hl Hr. apply (proj_rejects_not_accepted q _ H). now apply proj_fields_empty_list.
Qed.

Notation sk r := (skip_spaces is_space r 0).

Theorem proj_rejects_unterminated_quote q ts r s :
  proj_lexes is_space re_ok q ts r -> sk r = c_dquote :: s -> qscan s = None ->
  rejected (parse_projection q) q.
Proof.
  intros Hc Hs Hq.
  apply (proj_rejects_lexical_fault q ENoEndQuote (off_of (length q) (c_dquote :: s))).
  unfold ProjReject.proj_tokens. eapply chain_toks_err; [exact Hc| |lia].
  apply lex_fault_quote. eauto.
Qed.

Theorem proj_tokens_quote_fault q off :
  proj_tokens q = LexErr ENoEndQuote off <->
  exists ts r p s, proj_lexes is_space re_ok q ts r /\ sk r = c_dquote :: s /\ qscan s = None
                   /\ q = p ++ c_dquote :: s /\ off = length p.
Proof.
  split.
  - intros H. apply toks_err_chain in H. destruct H as (ts & [] & r & Hc & Hl).
    apply lex_fault_quote in Hl. destruct Hl as (s & Hs & Hq & ->).
    pose proof (chain_suffix _ _ _ _ _ _ _ _ _ _ _ Hc) as (p & Hp). rewrite Hs in Hp.
    exists ts, r, p, s. repeat split; auto. now apply off_of_suffix.
  - intros (ts & r & p & s & Hc & Hs & Hq & Hp & ->).
    unfold ProjReject.proj_tokens. eapply chain_toks_err; [exact Hc| |lia].
    apply lex_fault_quote. exists s. repeat split; auto. symmetry. now apply off_of_suffix.
Qed.

(** *** the semantic layer *)
Theorem new_projection_ok_iff q l :
  new_projection q = Ok l <-> parse_projection q = Ok l /\ Forall field_ok l.
Proof.
  unfold ProjParse.new_projection. destruct (parse_projection q) as [y|off|].
  - rewrite <- check_fields_none. destruct (check_fields y) as [o|] eqn:E.
    + split; [discriminate|]. intros [[= ->] H]. congruence.
    + split; [intros [= ->]; auto|intros [[= ->] _]; reflexivity].
  - split; [discriminate|intros [H _]; discriminate].
  - split; [discriminate|intros [H _]; discriminate].
Qed.

Lemma parse_projection_offs q l : parse_projection q = Ok l -> Forall (pf_ok (length q)) l.
Proof.
  intros H. destruct (parse_projection_sound q l H) as (ts & Hts & Hf).
  apply (proj_fields_offs (length q) ts l); [|exact Hf].
  exact (toks_offs _ _ _ _ _ _ _ _ _ _ Hts).
Qed.

Theorem new_projection_error_offset q off : new_projection q = Err off -> off <= length q.
Proof.
  unfold ProjParse.new_projection. destruct (parse_projection q) as [y|o|] eqn:E.
  - destruct (check_fields y) as [o|] eqn:Ec; [|discriminate]. intros [= <-].
    exact (check_fields_off _ _ _ (parse_projection_offs q y E) Ec).
  - intros [= <-]. exact (parse_projection_error_offset is_space re_ok q o E).
  - discriminate.
Qed.

Theorem new_projection_total q : new_projection q <> OutOfFuel.
Proof.
  unfold ProjParse.new_projection. pose proof (parse_projection_total is_space re_ok q) as T.
  destruct (parse_projection q) as [y|o|]; [destruct (check_fields y)| |]; congruence.
Qed.

Lemma rejected_new_projection q : rejected (parse_projection q) q -> rejected (new_projection q) q.
Proof. intros (off & E & Hle). exists off. unfold ProjParse.new_projection. now rewrite E. Qed.

(** some field the semantic layer refuses *)
Theorem rejects_bad_field q l p :
  parse_projection q = Ok l -> In p l -> ~ field_ok p -> rejected (new_projection q) q.
Proof.
  intros Hp Hin Hk. destruct (new_projection q) as [y|off|] eqn:E.
  - apply new_projection_ok_iff in E. destruct E as [E Hf]. rewrite Hp in E. injection E as <-.
    rewrite Forall_forall in Hf. now elim Hk; apply Hf.
  - exists off. split; [reflexivity|]. now apply new_projection_error_offset.
  - now elim (new_projection_total q).
Qed.

Lemma text_reject q :
  (forall l, parse_projection q = Ok l -> exists p, In p l /\ ~ field_ok p) ->
  rejected (new_projection q) q.
Proof.
  intros H. destruct (parse_projection q) as [l|off|] eqn:E.
  - destruct (H l eq_refl) as (p & Hin & Hk). exact (rejects_bad_field q l p E Hin Hk).
  - apply rejected_new_projection. rewrite E. exists off. split; [reflexivity|].
    exact (parse_projection_error_offset is_space re_ok q off E).
  - now elim (parse_projection_total is_space re_ok q).
Qed.

Lemma field_ok_named p : field_ok p -> pf_fixed p = [] -> plain_order (pf_order p).
Proof.
  intros (Hko & Hfx & _) Hnil. apply known_order_iff in Hko.
  destruct Hko as [Ho|Ho]; [now elim (Hfx Ho)|exact Ho].
Qed.

(** "k@name" with a name that is none of first, alpha, num (a word right after
    an "@"; in particular the name fixed, and every unknown name) *)
Theorem rejects_unknown_order q pre a w post :
  proj_tokens q = LexOk (pre ++ a :: w :: post) -> is_at a = true -> is_word (t_kind w) = true ->
  ~ plain_order (t_text w) -> rejected (new_projection q) q.
Proof.
  intros H Ha Hw Hk. apply (text_reject q). intros l Hl.
  destruct (parse_projection_sound q l Hl) as (ts & Hts & Hf). rewrite H in Hts. injection Hts as <-.
  destruct (proj_fields_order _ _ _ _ _ Hf Ha Hw) as (p & Hin & Ho & _ & Hnil).
  exists p. split; [exact Hin|]. intros Hok. apply Hk. rewrite <- Ho. now apply field_ok_named.
Qed.

(** no accepted projection has a fixed order without values, however it is written *)
Theorem no_empty_fixed_list q l p :
  new_projection q = Ok l -> In p l -> pf_order p = ord_fixed -> pf_fixed p <> [].
Proof.
  intros H Hin Ho. apply new_projection_ok_iff in H. destruct H as [_ Hf].
  rewrite Forall_forall in Hf. destruct (Hf p Hin) as (_ & Hfx & _). now apply Hfx.
Qed.

Theorem rejects_unknown_order_tree q l p :
  parse_projection q = Ok l -> In p l -> known_order (pf_order p) = false ->
  rejected (new_projection q) q.
Proof.
  intros Hp Hin Hk. apply (rejects_bad_field q l p Hp Hin). intros (Hko & _). congruence.
Qed.

(** ".unit" as a key *)
Theorem rejects_unit_tree q l p :
  parse_projection q = Ok l -> In p l -> pf_key p = key_unit -> rejected (new_projection q) q.
Proof.
  intros Hp Hin Hk. apply (rejects_bad_field q l p Hp Hin). intros (_ & _ & _ & Hu & _). now elim Hu.
Qed.

Theorem rejects_bad_key_proj_text q pre k post :
  proj_tokens q = LexOk (pre ++ k :: post) -> is_word (t_kind k) = true -> key_position pre ->
  t_text k = key_unit \/ t_text k = [] -> rejected (new_projection q) q.
Proof.
  intros H Hw Hpos Hk. apply (text_reject q). intros l Hl.
  destruct (parse_projection_sound q l Hl) as (ts & Hts & Hf). rewrite H in Hts. injection Hts as <-.
  pose proof (proj_fields_key _ _ _ _ Hf Hw Hpos) as Hin.
  apply in_map_iff in Hin. destruct Hin as (p & Hpk & Hin).
  exists p. split; [exact Hin|]. intros (_ & _ & _ & Hu & He). rewrite Hpk in Hu, He.
  destruct Hk as [Hk|Hk]; [now elim Hu|now elim He].
Qed.

Theorem rejects_unit_text q pre k post :
  proj_tokens q = LexOk (pre ++ k :: post) -> is_word (t_kind k) = true -> key_position pre ->
  t_text k = key_unit -> rejected (new_projection q) q.
Proof. intros H Hw Hpos Hk. eapply rejects_bad_key_proj_text; eauto. Qed.

End Reject.

(** ** "k"@"name" for all byte strings k and name: the syntax layer accepts
    every name; the semantic layer accepts exactly first, alpha, num, whatever
    the key is except .unit and the empty key *)
Section Named.
Variable is_space : N -> bool.
Variable re_ok : bytes -> bool.
Hypothesis dquote_not_space : is_space 34 = false.

Lemma next_at n0 allow rest e :
  next is_space re_ok n0 allow (c_at :: rest) e =
  (mkTok (KOp c_at) (off_of n0 (c_at :: rest)) [c_at], rest, c_at :: rest, e).
Proof. reflexivity. Qed.

Definition named_text (k o : bytes) : bytes := cquote k ++ c_at :: cquote o.

Theorem projection_named_order k o :
  parse_projection is_space re_ok (named_text k o)
  = Ok [mkField k o [] 0 (S (length (cquote k)))].
Proof.
  unfold parse_projection, parse_projection_fuel, proj_fuel_for, named_text.
  set (n0 := length (cquote k ++ c_at :: cquote o)).
  replace (n0 + 2) with (S (S n0)) by lia.
  cbn [proj_loop].
  rewrite (quoted_word_roundtrip is_space re_ok n0 dquote_not_space false k).
  cbn [t_kind kind_eqb_op andb]. unfold parse_field.
  rewrite (quoted_word_roundtrip is_space re_ok n0 dquote_not_space false k).
  cbn [t_kind is_word negb t_text t_off]. rewrite next_at. cbn [t_kind kind_eqb_op negb].
  replace (Byte.eqb c_at c_at) with true by reflexivity. cbn [negb].
  rewrite <- (app_nil_r (cquote o)) at 1.
  rewrite (quoted_word_roundtrip is_space re_ok n0 dquote_not_space false o).
  cbn [t_kind is_word t_text t_off]. rewrite next_nil. cbn [t_kind eof_at].
  unfold tok_end. rewrite next_nil. cbn [t_kind eof_at app].
  rewrite app_nil_r. unfold off_of. fold n0. rewrite Nat.sub_diag.
  replace (n0 - length (cquote o)) with (S (length (cquote k))); [reflexivity|].
  unfold n0. rewrite app_length. cbn [length]. lia.
Qed.

Theorem new_projection_named_order_iff k o :
  (exists l, new_projection is_space re_ok (named_text k o) = Ok l) <->
  plain_order o /\ k <> key_unit /\ k <> [].
Proof.
  split.
  - intros (l & H). apply new_projection_ok_iff in H. destruct H as [H Hf].
    rewrite projection_named_order in H. injection H as <-. inversion Hf as [|? ? Hp _].
    split; [exact (field_ok_named _ Hp eq_refl)|]. destruct Hp as (_ & _ & _ & Hu & He). auto.
  - intros (Ho & Hu & He). eexists. apply new_projection_ok_iff. split; [apply projection_named_order|].
    constructor; [|constructor]. unfold field_ok. cbn [pf_order pf_key pf_fixed].
    split; [apply known_order_iff; tauto|]. split; [|split; [|auto]].
    + intros ->. destruct Ho as [Ho|[Ho|Ho]]; discriminate Ho.
    + intros _ ->. destruct Ho as [Ho|[Ho|Ho]]; discriminate Ho.
Qed.

(** "k"@"fixed" -- the order name spelled out, hence without a value list --
    is refused for every key, at the offset of the name (as "k"@() is, for the
    same reason: nothing to match) *)
Theorem rejects_fixed_by_name k :
  new_projection is_space re_ok (named_text k ord_fixed) = Err (S (length (cquote k)))
  /\ S (length (cquote k)) <= length (named_text k ord_fixed).
Proof.
  split.
  - unfold new_projection. rewrite projection_named_order. reflexivity.
  - unfold named_text. rewrite app_length. cbn [length]. lia.
Qed.

End Named.
