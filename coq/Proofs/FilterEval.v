(** Proofs about Model/FilterEval.v: the mask/boolean evaluator answers, for
    every measurement, what ordinary boolean semantics says ([denote]); Apply
    keeps exactly the measurements that satisfy it, in order. *)
From Perf Require Import Base.Bytes Model.Name Model.Extract Model.FilterAst Model.FilterParse
  Model.ProjParse Model.FilterEval.
Local Open Scope nat_scope.

(** induction principle for the nested tree *)
Section FilterInd.
Variable P : filter -> Prop.
Hypothesis Hm : forall k m o, P (FMatch k m o).
Hypothesis Ha : forall l, Forall P l -> P (FAnd l).
Hypothesis Ho : forall l, Forall P l -> P (FOr l).
Hypothesis Hn : forall f, P f -> P (FNot f).
Fixpoint filter_ind' (f : filter) : P f :=
  let fix go (l : list filter) : Forall P l :=
    match l with
    | [] => Forall_nil P
    | x :: l' => Forall_cons x (filter_ind' x) (go l')
    end in
  match f with
  | FMatch k m o => Hm k m o
  | FAnd l => Ha l (go l)
  | FOr l => Ho l (go l)
  | FNot g => Hn g (filter_ind' g)
  end.
End FilterInd.

(** bit [i] of a mask *)
Definition mtest (m : mask) (i : nat) : bool :=
  N.testbit (nth (i / 32) m 0%N) (N.of_nat (i mod 32)).

Lemma two32_pow : two32 = (2 ^ 32)%N. Proof. reflexivity. Qed.

Lemma bit_const b c : (b < 32)%N ->
  N.testbit (N.shiftl 1 b mod two32) c = N.eqb b c.
Proof.
  intros Hb. rewrite two32_pow, N.shiftl_1_l.
  rewrite N.mod_small by (apply N.pow_lt_mono_r; lia).
  apply N.pow2_bits_eqb.
Qed.

Lemma div32_lt i n : i < n -> i / 32 < nwords n.
Proof.
  intros H. unfold nwords. apply Nat.div_lt_upper_bound; [lia|].
  pose proof (Nat.div_mod_eq (n + 31) 32) as E.
  pose proof (Nat.mod_upper_bound (n + 31) 32). lia.
Qed.

Lemma mod32_lt i : (N.of_nat (i mod 32) < 32)%N.
Proof. pose proof (Nat.mod_upper_bound i 32). lia. Qed.

(** ** mask operations bitwise *)
Lemma set_word_len m w b : length (set_word m w b) = length m.
Proof. revert w; induction m as [|x m IH]; intros [|w]; cbn; auto. Qed.

Lemma set_word_nth m w b k : w < length m ->
  nth k (set_word m w b) 0%N =
  if Nat.eqb k w then N.lor (nth k m 0%N) (N.shiftl 1 b mod two32) else nth k m 0%N.
Proof.
  revert w k; induction m as [|x m IH]; intros w k Hw; cbn in Hw; [lia|].
  destruct w as [|w]; destruct k as [|k]; cbn [set_word nth Nat.eqb]; auto.
  apply IH. lia.
Qed.

Lemma mtest_set m i j : i / 32 < length m ->
  mtest (mask_set m i) j = Nat.eqb i j || mtest m j.
Proof.
  intros Hi. unfold mtest, mask_set. rewrite set_word_nth by exact Hi.
  destruct (Nat.eqb_spec (j / 32) (i / 32)) as [Ew|Ew].
  - rewrite N.lor_spec, bit_const by apply mod32_lt.
    rewrite orb_comm. f_equal.
    destruct (Nat.eqb_spec i j) as [->|Hne].
    + apply N.eqb_refl.
    + apply N.eqb_neq. intros E. apply Hne.
      assert (i mod 32 = j mod 32) by lia.
      rewrite (Nat.div_mod_eq i 32), (Nat.div_mod_eq j 32). lia.
  - destruct (Nat.eqb_spec i j) as [->|_]; [congruence|reflexivity].
Qed.

Lemma map2_len f a b : length a = length b -> length (map2 f a b) = length a.
Proof. revert b; induction a as [|x a IH]; intros [|y b]; cbn; intros; auto; try lia. Qed.

Lemma map2_nth f a b k : length a = length b -> k < length a -> f 0%N 0%N = 0%N ->
  nth k (map2 f a b) 0%N = f (nth k a 0%N) (nth k b 0%N).
Proof.
  revert b k; induction a as [|x a IH]; intros [|y b] k; cbn; intros; try lia.
  destruct k; auto. apply IH; auto; lia.
Qed.

Lemma mtest_and a b i : length a = length b -> i / 32 < length a ->
  mtest (mask_and a b) i = mtest a i && mtest b i.
Proof. intros. unfold mtest, mask_and. rewrite map2_nth by auto. apply N.land_spec. Qed.

Lemma mtest_or a b i : length a = length b -> i / 32 < length a ->
  mtest (mask_or a b) i = mtest a i || mtest b i.
Proof. intros. unfold mtest, mask_or. rewrite map2_nth by auto. apply N.lor_spec. Qed.

Lemma not32_bit x c : (c < 32)%N -> N.testbit (not32 x) c = negb (N.testbit x c).
Proof.
  intros Hc. unfold not32. rewrite two32_pow, N.mod_pow2_bits_low by exact Hc.
  rewrite N.lxor_spec. replace ones32 with (N.ones 32) by reflexivity.
  rewrite N.ones_spec_low by exact Hc. apply xorb_true_r.
Qed.

Lemma mtest_not m i : i / 32 < length m -> mtest (mask_not m) i = negb (mtest m i).
Proof.
  intros Hi. unfold mtest, mask_not.
  rewrite (nth_indep _ 0%N (not32 0)) by (rewrite map_length; exact Hi).
  rewrite map_nth. apply not32_bit, mod32_lt.
Qed.

Section Eval.
Variable rematch : bytes -> bytes -> bool.
Variable r : fresult.
Notation n := (length (fr_units r)).
Notation W := (nwords n).

(** ** the .unit mask *)
Lemma unit_mask_spec m : forall us i acc,
  length acc = W -> i + length us <= n ->
  length (unit_mask rematch m us i acc) = W /\
  forall j, mtest (unit_mask rematch m us i acc) j =
            (match nth_error us (j - i) with
             | Some u => Nat.leb i j && unit_hit rematch m u
             | None => false
             end || mtest acc j).
Proof.
  induction us as [|[u ou] us IH]; intros i acc Hlen Hn; cbn [unit_mask].
  - split; auto. intros j. destruct (j - i); reflexivity.
  - cbn [length] in Hn.
    remember (matches rematch m u || negb (is_nil ou) && matches rematch m ou) as hit eqn:Ehit.
    assert (Hi : i / 32 < length acc) by (rewrite Hlen; apply div32_lt; lia).
    assert (Hu : unit_hit rematch m (u, ou) = hit) by (subst hit; reflexivity).
    destruct (IH (S i) (if hit then mask_set acc i else acc)) as [L T].
    { destruct hit; [unfold mask_set; rewrite set_word_len|]; auto. }
    { lia. }
    split; [exact L|]. intros j. rewrite T. clear T L IH.
    assert (Hacc : mtest (if hit then mask_set acc i else acc) j = (Nat.eqb i j && hit) || mtest acc j).
    { destruct hit; [rewrite mtest_set by exact Hi; now rewrite andb_true_r|now rewrite andb_false_r]. }
    etransitivity; [apply f_equal; exact Hacc|]. clear Hacc.
    destruct (Nat.eqb_spec i j) as [->|Hne].
    + rewrite Nat.sub_diag. replace (j - S j) with 0 by lia. cbn [nth_error].
      replace (Nat.leb (S j) j) with false by (symmetry; apply Nat.leb_gt; lia).
      rewrite Nat.leb_refl, Hu. cbn [andb orb].
      destruct us; reflexivity.
    + cbn [andb orb].
      destruct (Nat.leb_spec i j) as [Hle|Hgt].
      * replace (j - i) with (S (j - S i)) by lia. cbn [nth_error].
        replace (Nat.leb (S i) j) with true by (symmetry; apply Nat.leb_le; lia). reflexivity.
      * replace (j - S i) with 0 by lia. replace (j - i) with 0 by lia. cbn [nth_error].
        replace (Nat.leb (S i) j) with false by (symmetry; apply Nat.leb_gt; lia).
        cbn [andb]. destruct us; reflexivity.
Qed.

Lemma mtest_new_mask k j : mtest (new_mask k) j = false.
Proof.
  unfold mtest, new_mask.
  assert (E : forall a b, nth b (repeat 0%N a) 0%N = 0%N).
  { induction a as [|a IH]; intros [|b]; cbn; auto. }
  rewrite E. apply N.bits_0.
Qed.

(** an evaluation result agrees with a per-measurement predicate *)
Definition good (e : fres) (d : nat -> bool) : Prop :=
  match e with
  | (Some m, _) => length m = W /\ forall i, i < n -> mtest m i = d i
  | (None, x) => forall i, i < n -> d i = x
  end.
Definition good_acc (acc : option mask) (d : nat -> bool) : Prop :=
  match acc with
  | Some m => length m = W /\ forall i, i < n -> mtest m i = d i
  | None => forall i, i < n -> d i = true
  end.

Lemma and_fold_good : forall rs ds acc dacc,
  Forall2 good rs ds -> good_acc acc dacc ->
  good (and_fold rs acc) (fun i => dacc i && forallb (fun d => d i) ds).
Proof.
  induction rs as [|[[m2|] x] rs IH]; intros ds acc dacc HF Hacc; inversion HF as [|? d ? ds' Hg HF']; subst.
  - cbn [and_fold or_fold forallb existsb good]. destruct acc as [m|]; cbn [good_acc good] in *.
    + destruct Hacc as [L T]. split; auto. intros i Hi. rewrite T by auto. now rewrite andb_true_r.
    + intros i Hi. rewrite Hacc by auto. reflexivity.
  - cbn [and_fold]. cbn [good] in Hg. destruct Hg as [L2 T2].
    destruct acc as [m1|]; cbn [good_acc] in Hacc.
    + destruct Hacc as [L1 T1].
      specialize (IH ds' (Some (mask_and m1 m2)) (fun i => dacc i && d i) HF').
      assert (G : good_acc (Some (mask_and m1 m2)) (fun i => dacc i && d i)).
      { cbn [good_acc]. split; [unfold mask_and; rewrite map2_len; congruence|].
        intros i Hi. rewrite mtest_and by (try congruence; rewrite L1; apply div32_lt; auto).
        now rewrite T1, T2 by auto. }
      specialize (IH G). cbn [forallb].
      destruct (and_fold rs (Some (mask_and m1 m2))) as [[m|] y]; cbn [good] in IH |- *.
      * destruct IH as [L T]. split; auto. intros i Hi. rewrite T by auto. now rewrite andb_assoc.
      * intros i Hi. rewrite andb_assoc. apply IH; auto.
    + specialize (IH ds' (Some m2) (fun i => dacc i && d i) HF').
      assert (G : good_acc (Some m2) (fun i => dacc i && d i)).
      { cbn [good_acc]. split; auto. intros i Hi. now rewrite T2, Hacc by auto. }
      specialize (IH G). cbn [forallb].
      destruct (and_fold rs (Some m2)) as [[m|] y]; cbn [good] in IH |- *.
      * destruct IH as [L T]. split; auto. intros i Hi. rewrite T by auto. now rewrite andb_assoc.
      * intros i Hi. rewrite andb_assoc. apply IH; auto.
  - cbn [and_fold]. cbn [good] in Hg. destruct x.
    + specialize (IH ds' acc dacc HF' Hacc). cbn [forallb].
      destruct (and_fold rs acc) as [[m|] y]; cbn [good] in IH |- *.
      * destruct IH as [L T]. split; auto. intros i Hi. rewrite T, Hg by auto. reflexivity.
      * intros i Hi. rewrite Hg by auto. cbn [andb orb]. apply IH; auto.
    + cbn [good forallb]. intros i Hi. rewrite Hg by auto. now rewrite andb_false_r.
Qed.

Lemma or_fold_good : forall rs ds acc dacc,
  Forall2 good rs ds ->
  match acc with
  | Some m => length m = W /\ forall i, i < n -> mtest m i = dacc i
  | None => forall i, i < n -> dacc i = false
  end ->
  good (or_fold rs acc) (fun i => dacc i || existsb (fun d => d i) ds).
Proof.
  induction rs as [|[[m2|] x] rs IH]; intros ds acc dacc HF Hacc; inversion HF as [|? d ? ds' Hg HF']; subst.
  - cbn [and_fold or_fold forallb existsb good]. destruct acc as [m|]; cbn [good_acc good] in *.
    + destruct Hacc as [L T]. split; auto. intros i Hi. rewrite T by auto. now rewrite orb_false_r.
    + intros i Hi. rewrite Hacc by auto. reflexivity.
  - cbn [or_fold]. cbn [good] in Hg. destruct Hg as [L2 T2].
    destruct acc as [m1|].
    + destruct Hacc as [L1 T1].
      specialize (IH ds' (Some (mask_or m1 m2)) (fun i => dacc i || d i) HF').
      assert (G : length (mask_or m1 m2) = W /\ forall i, i < n -> mtest (mask_or m1 m2) i = dacc i || d i).
      { split; [unfold mask_or; rewrite map2_len; congruence|].
        intros i Hi. rewrite mtest_or by (try congruence; rewrite L1; apply div32_lt; auto).
        now rewrite T1, T2 by auto. }
      specialize (IH G). cbn [existsb].
      destruct (or_fold rs (Some (mask_or m1 m2))) as [[m|] y]; cbn [good] in IH |- *.
      * destruct IH as [L T]. split; auto. intros i Hi. rewrite T by auto. now rewrite orb_assoc.
      * intros i Hi. rewrite orb_assoc. apply IH; auto.
    + specialize (IH ds' (Some m2) (fun i => dacc i || d i) HF').
      assert (G : length m2 = W /\ forall i, i < n -> mtest m2 i = dacc i || d i).
      { split; auto. intros i Hi. now rewrite T2, Hacc by auto. }
      specialize (IH G). cbn [existsb].
      destruct (or_fold rs (Some m2)) as [[m|] y]; cbn [good] in IH |- *.
      * destruct IH as [L T]. split; auto. intros i Hi. rewrite T by auto. now rewrite orb_assoc.
      * intros i Hi. rewrite orb_assoc. apply IH; auto.
  - cbn [or_fold]. cbn [good] in Hg. destruct x.
    + cbn [good existsb]. intros i Hi. rewrite Hg by auto. now rewrite orb_true_r.
    + specialize (IH ds' acc dacc HF' Hacc). cbn [existsb].
      destruct (or_fold rs acc) as [[m|] y]; cbn [good] in IH |- *.
      * destruct IH as [L T]. split; auto. intros i Hi. rewrite T, Hg by auto. reflexivity.
      * intros i Hi. rewrite Hg by auto. cbn [andb orb]. apply IH; auto.
Qed.

Lemma forallb_map' {A B} (g : A -> B) (p : B -> bool) l : forallb p (map g l) = forallb (fun x => p (g x)) l.
Proof. induction l; cbn; congruence. Qed.
Lemma existsb_map' {A B} (g : A -> B) (p : B -> bool) l : existsb p (map g l) = existsb (fun x => p (g x)) l.
Proof. induction l; cbn; congruence. Qed.

Lemma good_ext e d d' : (forall i, i < n -> d i = d' i) -> good e d -> good e d'.
Proof.
  intros E. destruct e as [[m|] x]; cbn.
  - intros [L T]. split; auto. intros i Hi. rewrite T, E; auto.
  - intros H i Hi. rewrite <- E; auto.
Qed.

Theorem eval_good f : good (eval rematch f r) (denote rematch f r).
Proof.
  induction f as [k m o|l IH|l IH|g IH] using filter_ind'.
  - cbn [eval denote]. destruct (beq k key_unit).
    + cbn. destruct (unit_mask_spec m (fr_units r) 0 (new_mask n)) as [L T].
      { unfold new_mask. apply repeat_length. } { lia. }
      split; [exact L|]. intros i Hi. rewrite T, mtest_new_mask, Nat.sub_0_r, orb_false_r.
      destruct (nth_error (fr_units r) i); reflexivity.
    + cbn. reflexivity.
  - cbn [eval denote].
    assert (HF : Forall2 good (map (fun g => eval rematch g r) l) (map (fun g => denote rematch g r) l)).
    { induction IH; cbn; constructor; auto. }
    pose proof (and_fold_good _ _ None (fun _ => true) HF (fun _ _ => eq_refl)) as G.
    eapply good_ext; [|exact G]. intros i Hi. cbn. now rewrite forallb_map'.
  - cbn [eval denote].
    assert (HF : Forall2 good (map (fun g => eval rematch g r) l) (map (fun g => denote rematch g r) l)).
    { induction IH; cbn; constructor; auto. }
    pose proof (or_fold_good _ _ None (fun _ => false) HF (fun _ _ => eq_refl)) as G.
    eapply good_ext; [|exact G]. intros i Hi. cbn. now rewrite existsb_map'.
  - cbn [eval denote]. destruct (eval rematch g r) as [[m|] x]; cbn in IH |- *.
    + destruct IH as [L T]. split; [unfold mask_not; now rewrite map_length|].
      intros i Hi. rewrite mtest_not by (rewrite L; apply div32_lt; auto). now rewrite T.
    + intros i Hi. now rewrite IH.
Qed.

Lemma test_bit w b : (b < 32)%N ->
  negb (N.eqb (N.land w (N.shiftl 1 b mod two32)) 0) = N.testbit w b.
Proof.
  intros Hb.
  assert (E : N.land w (N.shiftl 1 b mod two32) = if N.testbit w b then (2 ^ b)%N else 0%N).
  { apply N.bits_inj. intros c. rewrite N.land_spec, bit_const by exact Hb.
    destruct (N.eqb_spec b c) as [<-|Hne].
    - destruct (N.testbit w b); [now rewrite N.pow2_bits_true|now rewrite N.bits_0].
    - rewrite andb_false_r. destruct (N.testbit w b); [|now rewrite N.bits_0].
      rewrite N.pow2_bits_false; auto. }
  rewrite E. destruct (N.testbit w b); [|reflexivity].
  destruct (N.eqb_spec (2 ^ b) 0) as [F|_]; [|reflexivity].
  exfalso. revert F. apply N.pow_nonzero. lia.
Qed.

(** measurement i is matched iff the expression is true of measurement i *)
Theorem eval_test_denote f i : i < n ->
  match_test n (eval rematch f r) i = denote rematch f r i.
Proof.
  intros Hi. unfold match_test.
  replace (Nat.leb n i) with false by (symmetry; apply Nat.leb_gt; lia).
  pose proof (eval_good f) as G.
  destruct (eval rematch f r) as [[m|] x]; cbn in G.
  - destruct G as [L T]. rewrite test_bit by apply mod32_lt. apply T, Hi.
  - symmetry. apply G, Hi.
Qed.

Theorem test_out_of_range f i : n <= i -> match_test n (eval rematch f r) i = false.
Proof. intros Hi. unfold match_test. now replace (Nat.leb n i) with true by (symmetry; apply Nat.leb_le; lia). Qed.

(** ** All / Any at word level (the directions Apply relies on) *)
Lemma high_bits_low nn i b : i * 32 + b < nn -> b < 32 ->
  N.testbit (high_bits nn i) (N.of_nat b) = false.
Proof.
  intros H Hb. unfold high_bits. rewrite two32_pow, N.mod_pow2_bits_low by lia.
  apply N.shiftl_spec_low. lia.
Qed.

Lemma all_words_sound nn : forall m i0, all_words nn m i0 = true ->
  forall w b, w < length m -> b < 32 -> (i0 + w) * 32 + b < nn ->
  N.testbit (nth w m 0%N) (N.of_nat b) = true.
Proof.
  induction m as [|x m IH]; intros i0 H w b Hw Hb Hn; cbn [length] in Hw; [lia|].
  cbn [all_words] in H.
  destruct (N.eqb_spec (N.lor x (high_bits nn i0)) ones32) as [E|]; [|discriminate].
  destruct w as [|w]; cbn [nth].
  - assert (T : N.testbit (N.lor x (high_bits nn i0)) (N.of_nat b) = true).
    { rewrite E. replace ones32 with (N.ones 32) by reflexivity. apply N.ones_spec_low. lia. }
    rewrite N.lor_spec, high_bits_low, orb_false_r in T by lia. exact T.
  - apply (IH (S i0) H); lia.
Qed.

Lemma any_words_sound nn : forall m i0, any_words nn m i0 = false ->
  forall w b, w < length m -> b < 32 -> (i0 + w) * 32 + b < nn ->
  N.testbit (nth w m 0%N) (N.of_nat b) = false.
Proof.
  induction m as [|x m IH]; intros i0 H w b Hw Hb Hn; cbn [length] in Hw; [lia|].
  cbn [any_words] in H.
  destruct (N.eqb_spec (N.ldiff x (high_bits nn i0)) 0) as [E|]; [|discriminate].
  cbn [negb] in H.
  destruct w as [|w]; cbn [nth].
  - assert (T : N.testbit (N.ldiff x (high_bits nn i0)) (N.of_nat b) = false).
    { rewrite E. apply N.bits_0. }
    rewrite N.ldiff_spec, high_bits_low in T by lia. cbn [negb] in T. now rewrite andb_true_r in T.
  - apply (IH (S i0) H); lia.
Qed.

Lemma idx_split i : i = (0 + i / 32) * 32 + i mod 32.
Proof. pose proof (Nat.div_mod_eq i 32). lia. Qed.

Theorem all_sound f : match_all n (eval rematch f r) = true ->
  forall i, i < n -> denote rematch f r i = true.
Proof.
  intros H i Hi. pose proof (eval_good f) as G.
  destruct (eval rematch f r) as [[m|] x]; cbn [good match_all] in *.
  - destruct G as [L T]. rewrite <- T by exact Hi. unfold mtest.
    apply (all_words_sound n m 0 H).
    + rewrite L. now apply div32_lt.
    + apply Nat.mod_upper_bound. lia.
    + rewrite <- idx_split. exact Hi.
  - rewrite G by exact Hi. exact H.
Qed.

Theorem any_sound f : match_any n (eval rematch f r) = false ->
  forall i, i < n -> denote rematch f r i = false.
Proof.
  intros H i Hi. pose proof (eval_good f) as G.
  destruct (eval rematch f r) as [[m|] x]; cbn [good match_any] in *.
  - destruct G as [L T]. rewrite <- T by exact Hi. unfold mtest.
    apply (any_words_sound n m 0 H).
    + rewrite L. now apply div32_lt.
    + apply Nat.mod_upper_bound. lia.
    + rewrite <- idx_split. exact Hi.
  - rewrite G by exact Hi. exact H.
Qed.

(** ** Apply *)
Lemma keep_ext {A} (t d : nat -> bool) : forall (vals : list A) k,
  (forall i, k <= i < k + length vals -> t i = d i) -> keep t vals k = keep d vals k.
Proof.
  induction vals as [|v vals IH]; intros k H; cbn [keep]; [reflexivity|].
  cbn [length] in H. rewrite (H k) by lia. rewrite (IH (S k)) by (intros; apply H; lia). reflexivity.
Qed.

Lemma keep_all {A} (d : nat -> bool) : forall (vals : list A) k,
  (forall i, k <= i < k + length vals -> d i = true) -> keep d vals k = vals.
Proof.
  induction vals as [|v vals IH]; intros k H; cbn [keep]; [reflexivity|].
  cbn [length] in H. rewrite (H k) by lia. f_equal. apply IH. intros; apply H; lia.
Qed.

Lemma keep_none {A} (d : nat -> bool) : forall (vals : list A) k,
  (forall i, k <= i < k + length vals -> d i = false) -> keep d vals k = [].
Proof.
  induction vals as [|v vals IH]; intros k H; cbn [keep]; [reflexivity|].
  cbn [length] in H. rewrite (H k) by lia. apply IH. intros; apply H; lia.
Qed.

Lemma keep_nonempty {A} (d : nat -> bool) : forall (vals : list A) k,
  negb (is_nil (keep d vals k)) = existsb d (seq k (length vals)).
Proof.
  induction vals as [|v vals IH]; intros k; cbn [keep length seq existsb]; [reflexivity|].
  destruct (d k); [reflexivity|]. apply IH.
Qed.

Lemma existsb_seq_true (d : nat -> bool) k len : 1 <= len ->
  (forall i, k <= i < k + len -> d i = true) -> existsb d (seq k len) = true.
Proof. destruct len; [lia|]. intros _ H. cbn. rewrite H by lia. reflexivity. Qed.

Lemma existsb_seq_false (d : nat -> bool) : forall len k,
  (forall i, k <= i < k + len -> d i = false) -> existsb d (seq k len) = false.
Proof. induction len as [|len IH]; intros k H; cbn; [reflexivity|]. rewrite H by lia. apply IH. intros; apply H; lia. Qed.

(** Apply keeps exactly the measurements the expression is true of, in their
    original order, and reports whether any remain *)
Theorem apply_keeps_exactly f {A} (vals : list A) :
  length vals = n -> 1 <= n ->
  match_apply (eval rematch f r) vals =
  (keep (denote rematch f r) vals 0, existsb (denote rematch f r) (seq 0 n)).
Proof.
  intros Hlen Hn. unfold match_apply. rewrite Hlen.
  destruct (match_all n (eval rematch f r)) eqn:Ea.
  - pose proof (all_sound f Ea) as H.
    rewrite keep_all by (intros; apply H; lia).
    rewrite existsb_seq_true; auto. intros; apply H; lia.
  - destruct (match_any n (eval rematch f r)) eqn:Ey; cbn [negb].
    + rewrite (keep_ext (match_test n (eval rematch f r)) (denote rematch f r))
        by (intros; apply eval_test_denote; lia).
      rewrite keep_nonempty, Hlen. reflexivity.
    + pose proof (any_sound f Ey) as H.
      rewrite keep_none by (intros; apply H; lia).
      rewrite existsb_seq_false; auto. intros; apply H; lia.
Qed.

End Eval.
