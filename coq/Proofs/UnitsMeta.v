(** GetBetter / GetAssumption answer the same whether the written or the base
    unit is named. *)
From Perf Require Import Base.Bytes Base.B64 Base.Utf8 Base.Unicode Model.Units Model.UnitsMeta Proofs.Units.
Local Open Scope N_scope.

Section UnitsMetaProofs.
Variable is_space : N -> bool.
Hypothesis Hascii : forall r, r < 128 -> is_space r = ascii_space r.

Lemma tidy_snd v u : snd (tidy is_space v u) = fst (tidy_unit is_space u).
Proof. unfold tidy. now destruct (tidy_unit is_space u). Qed.

Theorem get_better_either_unit m u :
  get_better is_space m u = get_better is_space m (fst (tidy_unit is_space u)).
Proof.
  unfold get_better.
  rewrite <- (metadata_lookup_either_unit is_space Hascii m u key_better).
  rewrite !tidy_snd. now rewrite (tidy_idempotent is_space Hascii u).
Qed.

Theorem get_assume_either_unit m u :
  get_assume_exact is_space m u = get_assume_exact is_space m (fst (tidy_unit is_space u)).
Proof.
  unfold get_assume_exact.
  now rewrite <- (metadata_lookup_either_unit is_space Hascii m u key_assume).
Qed.

End UnitsMetaProofs.

(** the switch on the unit as given answers differently for a written unit
    and its base unit *)
Theorem get_better_old_refuted :
  exists m u, get_better_old go_is_space m u <> get_better_old go_is_space m (fst (tidy_unit go_is_space u)).
Proof. exists [], (bs "MB/op"). vm_compute. discriminate. Qed.
