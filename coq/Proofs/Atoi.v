(** Proofs about Model/Atoi.v: Atoi (fast path and ParseInt/ParseUint slow path)
    against the declarative [int_value] / [atoi_spec] of Base/DecSpec.v, and the
    round trip with decimal printing. *)
From Perf Require Import Base.Bytes Base.B64 Base.DecSpec Model.Atoi.
Local Open Scope Z_scope.

(** ** bytes as numbers *)
Lemma bZ_range c : 0 <= bZ c <= 255.
Proof. unfold bZ, bN. pose proof (Byte.to_N_bounded c). lia. Qed.

Lemma bZ_inj a b : bZ a = bZ b -> a = b.
Proof. unfold bZ, bN. intros H. apply to_N_inj. lia. Qed.

Lemma is_dec_digit_iff c : is_dec_digit c = true <-> 48 <= bZ c <= 57.
Proof.
  unfold is_dec_digit, is_digit, bZ. rewrite andb_true_iff, !N.leb_le. lia.
Qed.

Lemma code_is_dec_digit_eq c : code_is_dec_digit c = is_dec_digit c.
Proof.
  unfold code_is_dec_digit. destruct (is_dec_digit c) eqn:E.
  - apply is_dec_digit_iff in E. apply andb_true_iff. rewrite !Z.leb_le. lia.
  - apply not_true_iff_false. intros H. apply andb_true_iff in H. rewrite !Z.leb_le in H.
    apply not_true_iff_false in E. apply E, is_dec_digit_iff. lia.
Qed.

Lemma digit_val_dec c : is_dec_digit c = true -> digit_val c = bZ c - 48 /\ 0 <= digit_val c <= 9.
Proof.
  intros H. apply is_dec_digit_iff in H. unfold digit_val.
  destruct (Z.leb_spec (bZ c) 57); lia.
Qed.

(** ** value of digit strings *)
Definition dstep (a : Z) (c : byte) : Z := a * 10 + digit_val c.

Lemma digits_val_fold l : digits_val 10 l = fold_left dstep l 0.
Proof. reflexivity. Qed.

Lemma fold_dstep_ge l : forall a, forallb is_dec_digit l = true -> 0 <= a -> a <= fold_left dstep l a.
Proof.
  induction l as [|c l IH]; cbn [fold_left forallb]; intros a H Ha; [lia|].
  apply andb_true_iff in H as [Hc Hl]. pose proof (digit_val_dec c Hc) as [_ Hd].
  specialize (IH (dstep a c) Hl). unfold dstep in *. lia.
Qed.

Lemma fold_dstep_bound l : forall a, forallb is_dec_digit l = true -> 0 <= a ->
  fold_left dstep l a < (a + 1) * 10 ^ Z.of_nat (length l).
Proof.
  induction l as [|c l IH]; intros a H Ha.
  - cbn. lia.
  - cbn [fold_left forallb length] in *. apply andb_true_iff in H as [Hc Hl].
    pose proof (digit_val_dec c Hc) as [_ Hd].
    assert (H0 : 0 <= dstep a c) by (unfold dstep; lia).
    specialize (IH (dstep a c) Hl H0).
    rewrite Nat2Z.inj_succ, Z.pow_succ_r by lia.
    assert (0 < 10 ^ Z.of_nat (length l)) by (apply Z.pow_pos_nonneg; lia).
    unfold dstep in *. nia.
Qed.

Lemma fold_dstep_mono l : forall a b, a <= b -> fold_left dstep l a <= fold_left dstep l b.
Proof.
  induction l as [|c l IH]; cbn [fold_left]; intros a b H; [lia|].
  apply IH. unfold dstep. lia.
Qed.

(** ** the fast path loop *)
Lemma atoi_fast_loop_digits t : forall n,
  forallb is_dec_digit t = true -> atoi_fast_loop t n = Some (fold_left dstep t n).
Proof.
  induction t as [|c t IH]; cbn [atoi_fast_loop fold_left forallb]; intros n H; [reflexivity|].
  apply andb_true_iff in H as [Hc Hl]. pose proof (digit_val_dec c Hc) as [Hv Hd].
  rewrite Z.mod_small by lia.
  destruct (Z.ltb_spec 9 (bZ c - 48)); [lia|].
  rewrite IH by assumption. unfold dstep. now rewrite Hv.
Qed.

Lemma atoi_fast_loop_nondigit t : forall n,
  forallb is_dec_digit t = false -> atoi_fast_loop t n = None.
Proof.
  induction t as [|c t IH]; cbn [atoi_fast_loop forallb]; intros n H; [discriminate|].
  destruct (is_dec_digit c) eqn:Hc; cbn [andb] in H.
  - pose proof (digit_val_dec c Hc) as [Hv Hd].
    rewrite Z.mod_small by lia.
    destruct (Z.ltb_spec 9 (bZ c - 48)); [reflexivity|]. now apply IH.
  - assert (Hn : ~ (48 <= bZ c <= 57)) by (intros X; apply is_dec_digit_iff in X; congruence).
    pose proof (bZ_range c) as Hr.
    destruct (Z.ltb_spec 9 ((bZ c - 48) mod 256)) as [|Hle]; [reflexivity|exfalso].
    destruct (Z_lt_le_dec (bZ c) 48).
    + replace ((bZ c - 48) mod 256) with (bZ c + 208) in Hle; [lia|].
      apply Z.mod_unique with (q := -1); lia.
    + rewrite Z.mod_small in Hle by lia. lia.
Qed.

(** ** underscoreOK on plain digit strings *)
Lemma us_loop_digits t : forall sw, forallb is_dec_digit t = true -> saw_is_us sw = false ->
  us_loop false t sw = true.
Proof.
  induction t as [|c t IH]; cbn [us_loop forallb]; intros sw H Hs.
  - now rewrite Hs.
  - apply andb_true_iff in H as [Hc Hl]. rewrite code_is_dec_digit_eq, Hc. cbn [orb].
    now apply IH.
Qed.

Lemma lower_digit c : is_dec_digit c = true -> lower c = bZ c.
Proof.
  intros H. apply is_dec_digit_iff in H. unfold lower.
  assert (E : exists d, 0 <= d <= 9 /\ bZ c = 48 + d) by (exists (bZ c - 48); lia).
  destruct E as [d [Hd ->]].
  assert (d = 0 \/ d = 1 \/ d = 2 \/ d = 3 \/ d = 4 \/ d = 5 \/ d = 6 \/ d = 7 \/ d = 8 \/ d = 9) by lia.
  repeat match goal with H : _ \/ _ |- _ => destruct H as [->|H] end; subst; reflexivity.
Qed.

Lemma not_sign_digit c : is_dec_digit c = true -> Byte.eqb c c_minus = false /\ Byte.eqb c c_plus = false.
Proof.
  intros H. apply is_dec_digit_iff in H.
  split; apply beqb_neq; intros ->.
  - change (bZ c_minus) with 45 in H. lia.
  - change (bZ c_plus) with 43 in H. lia.
Qed.

Lemma underscoreOK_digits t : forallb is_dec_digit t = true -> underscoreOK t = true.
Proof.
  intros H. unfold underscoreOK, strip_one_sign.
  destruct t as [|c t]; [reflexivity|].
  pose proof H as H'. cbn [forallb] in H'. apply andb_true_iff in H' as [Hc Ht].
  destruct (not_sign_digit c Hc) as [-> ->]. cbn [orb].
  destruct t as [|x t].
  - now apply us_loop_digits.
  - cbn [forallb] in Ht. apply andb_true_iff in Ht as [Hx _].
    rewrite (lower_digit x Hx). apply is_dec_digit_iff in Hx.
    destruct (Z.eqb_spec (bZ x) 98); [lia|]. destruct (Z.eqb_spec (bZ x) 111); [lia|].
    destruct (Z.eqb_spec (bZ x) 120); [lia|].
    rewrite andb_false_r. now apply us_loop_digits.
Qed.

(** ** ParseUint's digit loop in base 10 *)
Definition cutoff10 : Z := 1844674407370955162.
Definition maxu : Z := 18446744073709551615.

Lemma us_not_digit c : is_dec_digit c = true -> Byte.eqb c c_us = false.
Proof.
  intros H. apply is_dec_digit_iff in H. apply beqb_neq. intros ->. change (bZ c_us) with 95 in H. lia.
Qed.

Lemma pu_loop_digits t : forall n, forallb is_dec_digit t = true -> 0 <= n <= maxu ->
  pu_loop 10 false cutoff10 maxu t n =
    if fold_left dstep t n <=? maxu then IOk (fold_left dstep t n) else IErr maxu ErrRange.
Proof.
  induction t as [|c t IH]; intros n H Hn.
  - cbn [pu_loop fold_left]. destruct (Z.leb_spec n maxu); [reflexivity|lia].
  - cbn [forallb] in H. apply andb_true_iff in H as [Hc Hl].
    pose proof (digit_val_dec c Hc) as [Hv Hd].
    cbn [pu_loop fold_left]. rewrite (us_not_digit c Hc). cbn [andb].
    rewrite code_is_dec_digit_eq, Hc.
    change (10 mod 256) with 10.
    destruct (Z.leb_spec 10 (bZ c - 48)); [lia|].
    assert (Hmono : dstep n c <= fold_left dstep t (dstep n c)).
    { apply fold_dstep_ge; [assumption|unfold dstep; lia]. }
    unfold cutoff10, maxu in *.
    destruct (Z.leb_spec 1844674407370955162 n).
    + (* n*10 already overflows *)
      destruct (Z.leb_spec (fold_left dstep t (dstep n c)) 18446744073709551615); [|reflexivity].
      unfold dstep in *. lia.
    + unfold u64. change (2 ^ 64) with 18446744073709551616.
      rewrite (Z.mod_small (n * 10)) by lia.
      destruct (Z_le_gt_dec (n * 10 + (bZ c - 48)) 18446744073709551615) as [Hfit|Hov].
      * rewrite (Z.mod_small (n * 10 + (bZ c - 48))) by lia.
        destruct (Z.ltb_spec (n * 10 + (bZ c - 48)) (n * 10)); [lia|].
        destruct (Z.ltb_spec 18446744073709551615 (n * 10 + (bZ c - 48))); [lia|].
        cbn [orb]. rewrite IH by (try assumption; lia).
        unfold dstep. now rewrite Hv.
      * replace ((n * 10 + (bZ c - 48)) mod 18446744073709551616)
          with (n * 10 + (bZ c - 48) - 18446744073709551616)
          by (apply Z.mod_unique with (q := 1); lia).
        destruct (Z.ltb_spec (n * 10 + (bZ c - 48) - 18446744073709551616) (n * 10)); [|lia].
        cbn [orb].
        destruct (Z.leb_spec (fold_left dstep t (dstep n c)) 18446744073709551615); [|reflexivity].
        unfold dstep in *. lia.
Qed.

(** with a non-digit somewhere the loop ends in an error: a syntax error, or the
    range error if the digits before it already overflow *)
Lemma pu_loop_nondigit t : forall n, forallb is_dec_digit t = false ->
  pu_loop 10 false cutoff10 maxu t n = IErr 0 ErrSyntax \/
  pu_loop 10 false cutoff10 maxu t n = IErr maxu ErrRange.
Proof.
  induction t as [|c t IH]; intros n H; [discriminate|].
  cbn [forallb] in H. cbn [pu_loop]. rewrite andb_false_r.
  rewrite code_is_dec_digit_eq.
  destruct (is_dec_digit c) eqn:Hc; cbn [andb] in H.
  - pose proof (digit_val_dec c Hc) as [Hv Hd]. change (10 mod 256) with 10.
    destruct (Z.leb_spec 10 (bZ c - 48)); [lia|].
    destruct (cutoff10 <=? n); [now right|].
    match goal with |- context [if ?b then IErr maxu ErrRange else _] => destruct b end; [now right|].
    now apply IH.
  - destruct ((97 <=? lower c) && (lower c <=? 122)) eqn:Hl; [|now left].
    apply andb_true_iff in Hl as [H1 H2]. apply Z.leb_le in H1. apply Z.leb_le in H2.
    change (10 mod 256) with 10.
    destruct (Z.leb_spec 10 (lower c - 97 + 10)); [now left|lia].
Qed.

Lemma parse_uint_10 t : t <> [] ->
  parse_uint t 10 0 =
    if negb (underscoreOK t) then IErr 0 ErrSyntax else pu_loop 10 false cutoff10 maxu t 0.
Proof.
  intros H. destruct t as [|c t]; [congruence|].
  unfold parse_uint. destruct (negb (underscoreOK (c :: t))); reflexivity.
Qed.

(** ** Atoi against the specification *)
Lemma split_sign_cases s :
  (exists r, s = c_plus :: r /\ split_sign s = (Some false, r)) \/
  (exists r, s = c_minus :: r /\ split_sign s = (Some true, r)) \/
  (split_sign s = (None, s) /\ forall c r, s = c :: r -> Byte.eqb c c_plus = false /\ Byte.eqb c c_minus = false).
Proof.
  destruct s as [|c r]; cbn [split_sign].
  - right; right. split; [reflexivity|]. intros; discriminate.
  - destruct (beqb_spec c c_plus) as [->|Hp]; [left; eauto|].
    destruct (beqb_spec c c_minus) as [->|Hm]; [right; left; eauto|].
    right; right. split; [reflexivity|]. intros c' r' [= <- <-].
    split; apply beqb_neq; assumption.
Qed.

(** the unsigned part: digits [r] (non-empty), value V *)
Lemma parse_uint_digits r : r <> [] -> forallb is_dec_digit r = true ->
  parse_uint r 10 0 = if digits_val 10 r <=? maxu then IOk (digits_val 10 r) else IErr maxu ErrRange.
Proof.
  intros Hne Hd. rewrite parse_uint_10 by assumption.
  rewrite underscoreOK_digits by assumption. cbn [negb].
  rewrite pu_loop_digits by (try assumption; unfold maxu; lia). reflexivity.
Qed.

Lemma parse_uint_nondigit r : forallb is_dec_digit r = false ->
  parse_uint r 10 0 = IErr 0 ErrSyntax \/ parse_uint r 10 0 = IErr maxu ErrRange.
Proof.
  intros H. assert (r <> []) by (intros ->; discriminate).
  rewrite parse_uint_10 by assumption.
  destruct (negb (underscoreOK r)); [now left|]. now apply pu_loop_nondigit.
Qed.

Lemma digits_val_nonneg r : forallb is_dec_digit r = true -> 0 <= digits_val 10 r.
Proof. intros H. rewrite digits_val_fold. apply fold_dstep_ge; [assumption|lia]. Qed.

(** the specification's verdict on the integer [n], as a result of the code's type *)
Definition spec_ires (n : Z) : ires :=
  if n <? min_int64 then IErr min_int64 ErrRange
  else if max_int64 <? n then IErr max_int64 ErrRange else IOk n.

Lemma spec_ires_pair s n : int_value s = Some n -> ires_pair (spec_ires n) = atoi_spec s.
Proof.
  intros H. unfold atoi_spec, spec_ires. rewrite H.
  destruct (n <? min_int64); [reflexivity|]. destruct (max_int64 <? n); reflexivity.
Qed.

(** ParseInt(s, 10, 0) on a signed digit string *)
Lemma parse_int_digits (neg : bool) (c0 : byte) r :
  (c0 = c_minus /\ neg = true) \/ (c0 = c_plus /\ neg = false) ->
  r <> [] -> forallb is_dec_digit r = true ->
  let n := if neg then - digits_val 10 r else digits_val 10 r in
  parse_int (c0 :: r) 10 0 = spec_ires n.
Proof.
  intros Hs Hne Hd n. subst n.
  pose proof (digits_val_nonneg r Hd) as Hnn.
  unfold parse_int.
  assert (Et : (if Byte.eqb c0 c_plus || Byte.eqb c0 c_minus then r else c0 :: r) = r).
  { destruct Hs as [[-> _]|[-> _]]; reflexivity. }
  rewrite Et. rewrite parse_uint_digits by assumption.
  assert (En : Byte.eqb c0 c_minus = neg).
  { destruct Hs as [[-> ->]|[-> ->]]; reflexivity. }
  rewrite En. unfold spec_ires, maxu, min_int64, max_int64.
  change (0 =? 0) with true. cbn [ires_val].
  change (2 ^ (64 - 1)) with 9223372036854775808.
  change (- 2 ^ 63) with (-9223372036854775808). change (2 ^ 63 - 1) with 9223372036854775807.
  set (V := digits_val 10 r) in *.
  destruct (Z.leb_spec V 18446744073709551615) as [Hfit|Hbig]; cbn [ires_val];
    destruct neg; cbn [negb andb];
    repeat match goal with
           | |- context [Z.leb ?a ?b] => destruct (Z.leb_spec a b)
           | |- context [Z.ltb ?a ?b] => destruct (Z.ltb_spec a b)
           end; cbn [ires_val ires_err]; try reflexivity; try lia.
Qed.

Lemma parse_int_unsigned s : s <> [] -> forallb is_dec_digit s = true ->
  let n := digits_val 10 s in
  parse_int s 10 0 = spec_ires n.
Proof.
  intros Hne Hd n. subst n.
  pose proof (digits_val_nonneg s Hd) as Hnn.
  destruct s as [|c0 r]; [congruence|].
  pose proof Hd as Hd'. cbn [forallb] in Hd'. apply andb_true_iff in Hd' as [Hc _].
  destruct (not_sign_digit c0 Hc) as [Em Ep].
  unfold parse_int. rewrite Em, Ep. cbn [orb].
  rewrite parse_uint_digits by assumption.
  unfold spec_ires, maxu, min_int64, max_int64.
  change (0 =? 0) with true. cbn [ires_val].
  change (2 ^ (64 - 1)) with 9223372036854775808.
  change (- 2 ^ 63) with (-9223372036854775808). change (2 ^ 63 - 1) with 9223372036854775807.
  set (V := digits_val 10 (c0 :: r)) in *.
  destruct (Z.leb_spec V 18446744073709551615) as [Hfit|Hbig]; cbn [ires_val negb andb];
    repeat match goal with
           | |- context [Z.leb ?a ?b] => destruct (Z.leb_spec a b)
           | |- context [Z.ltb ?a ?b] => destruct (Z.ltb_spec a b)
           end; cbn [ires_val ires_err]; try reflexivity; try lia.
Qed.

Lemma short_digits_small r : forallb is_dec_digit r = true -> (length r <= 18)%nat ->
  0 <= digits_val 10 r < 10 ^ 18.
Proof.
  intros Hd Hl. split; [now apply digits_val_nonneg|].
  rewrite digits_val_fold.
  pose proof (fold_dstep_bound r 0 Hd ltac:(lia)) as Hb.
  assert (10 ^ Z.of_nat (length r) <= 10 ^ 18) by (apply Z.pow_le_mono_r; lia).
  lia.
Qed.

(** *** integer texts: Atoi returns exactly what the specification says *)
Theorem atoi_int s n : int_value s = Some n -> atoi s = spec_ires n.
Proof.
  intros Hv. unfold int_value in Hv.
  destruct (split_sign_cases s) as [[r [Es Esp]]|[[r [Es Esp]]|[Esp Hns]]]; rewrite Esp in Hv;
    cbn [sign_neg] in Hv.
  - (* "+digits" *)
    destruct r as [|c r']; [discriminate|]. set (r := c :: r') in *.
    destruct (forallb is_dec_digit r) eqn:Hd; [|discriminate]. injection Hv as <-.
    subst s. unfold atoi. cbn [length].
    destruct ((0 <? Z.of_nat (S (length r))) && (Z.of_nat (S (length r)) <? 19)) eqn:Hfast.
    + apply andb_true_iff in Hfast as [_ Hlt]. apply Z.ltb_lt in Hlt.
      change (Byte.eqb c_plus c_minus) with false. change (Byte.eqb c_plus c_plus) with true. cbn [orb].
      unfold r at 1. rewrite atoi_fast_loop_digits by assumption. fold (digits_val 10 r).
      pose proof (short_digits_small r Hd ltac:(lia)) as Hs.
      unfold spec_ires, min_int64, max_int64.
      change (- 2 ^ 63) with (-9223372036854775808). change (2 ^ 63 - 1) with 9223372036854775807.
      change (10 ^ 18) with 1000000000000000000 in Hs.
      destruct (Z.ltb_spec (digits_val 10 r) (-9223372036854775808)); [lia|].
      destruct (Z.ltb_spec 9223372036854775807 (digits_val 10 r)); [lia|]. reflexivity.
    + pose proof (parse_int_digits false c_plus r (or_intror (conj eq_refl eq_refl)) ltac:(discriminate) Hd) as H.
      cbv zeta in H. exact H.
  - (* "-digits" *)
    destruct r as [|c r']; [discriminate|]. set (r := c :: r') in *.
    destruct (forallb is_dec_digit r) eqn:Hd; [|discriminate]. injection Hv as <-.
    subst s. unfold atoi. cbn [length].
    destruct ((0 <? Z.of_nat (S (length r))) && (Z.of_nat (S (length r)) <? 19)) eqn:Hfast.
    + apply andb_true_iff in Hfast as [_ Hlt]. apply Z.ltb_lt in Hlt.
      change (Byte.eqb c_minus c_minus) with true. cbn [orb].
      unfold r at 1. rewrite atoi_fast_loop_digits by assumption. fold (digits_val 10 r).
      pose proof (short_digits_small r Hd ltac:(lia)) as Hs.
      unfold spec_ires, min_int64, max_int64.
      change (- 2 ^ 63) with (-9223372036854775808). change (2 ^ 63 - 1) with 9223372036854775807.
      change (10 ^ 18) with 1000000000000000000 in Hs.
      destruct (Z.ltb_spec (- digits_val 10 r) (-9223372036854775808)); [lia|].
      destruct (Z.ltb_spec 9223372036854775807 (- digits_val 10 r)); [lia|]. reflexivity.
    + pose proof (parse_int_digits true c_minus r (or_introl (conj eq_refl eq_refl)) ltac:(discriminate) Hd) as H.
      cbv zeta in H. exact H.
  - (* plain digits *)
    destruct s as [|c r']; [discriminate|]. set (s := c :: r') in *.
    destruct (forallb is_dec_digit s) eqn:Hd; [|discriminate]. injection Hv as <-.
    destruct (Hns c r' eq_refl) as [Ep Em].
    unfold atoi.
    destruct ((0 <? Z.of_nat (length s)) && (Z.of_nat (length s) <? 19)) eqn:Hfast.
    + apply andb_true_iff in Hfast as [_ Hlt]. apply Z.ltb_lt in Hlt.
      unfold s at 1. rewrite Em, Ep. cbn [orb]. fold s.
      unfold s at 1. fold s. rewrite atoi_fast_loop_digits by assumption. fold (digits_val 10 s).
      pose proof (short_digits_small s Hd ltac:(lia)) as Hs.
      unfold spec_ires, min_int64, max_int64.
      change (- 2 ^ 63) with (-9223372036854775808). change (2 ^ 63 - 1) with 9223372036854775807.
      change (10 ^ 18) with 1000000000000000000 in Hs.
      destruct (Z.ltb_spec (digits_val 10 s) (-9223372036854775808)); [lia|].
      destruct (Z.ltb_spec 9223372036854775807 (digits_val 10 s)); [lia|]. reflexivity.
    + apply (parse_int_unsigned s); [discriminate|assumption].
Qed.

(** *** everything else is rejected: never a silently wrong number *)
Lemma parse_int_reject c0 r0 :
  let t := if Byte.eqb c0 c_plus || Byte.eqb c0 c_minus then r0 else c0 :: r0 in
  t = [] \/ forallb is_dec_digit t = false ->
  ires_err (parse_int (c0 :: r0) 10 0) <> ErrNone.
Proof.
  intros t H. unfold parse_int. fold t. destruct H as [E|E].
  - rewrite E. cbn. discriminate.
  - destruct (parse_uint_nondigit t E) as [-> | ->]; [cbn; discriminate|].
    unfold maxu. destruct (Byte.eqb c0 c_minus); cbn; discriminate.
Qed.

Theorem atoi_nonint s : int_value s = None -> ires_err (atoi s) <> ErrNone.
Proof.
  intros Hv. unfold int_value in Hv.
  assert (Hbody : forall r, snd (split_sign s) = r ->
                  r = [] \/ forallb is_dec_digit r = false).
  { intros r Hr. destruct (split_sign s) as [sg r0]. cbn in Hr. subst r0.
    destruct r as [|c r']; [now left|]. right.
    destruct (forallb is_dec_digit (c :: r')); [discriminate|reflexivity]. }
  unfold atoi.
  destruct ((0 <? Z.of_nat (length s)) && (Z.of_nat (length s) <? 19)) eqn:Hfast.
  - destruct s as [|c0 r0]; [cbn; discriminate|].
    destruct (split_sign_cases (c0 :: r0)) as [[r [Es Esp]]|[[r [Es Esp]]|[Esp Hns]]].
    + injection Es as -> ->. specialize (Hbody r ltac:(now rewrite Esp)).
      change (Byte.eqb c_plus c_minus) with false. change (Byte.eqb c_plus c_plus) with true. cbn [orb].
      destruct Hbody as [->|Hb]; [cbn; discriminate|].
      destruct r as [|x r']; [discriminate|]. rewrite atoi_fast_loop_nondigit by assumption.
      cbn; discriminate.
    + injection Es as -> ->. specialize (Hbody r ltac:(now rewrite Esp)).
      change (Byte.eqb c_minus c_minus) with true. cbn [orb].
      destruct Hbody as [->|Hb]; [cbn; discriminate|].
      destruct r as [|x r']; [discriminate|]. rewrite atoi_fast_loop_nondigit by assumption.
      cbn; discriminate.
    + destruct (Hns c0 r0 eq_refl) as [Ep Em]. rewrite Em, Ep. cbn [orb].
      specialize (Hbody (c0 :: r0) ltac:(now rewrite Esp)).
      destruct Hbody as [Hb|Hb]; [discriminate|].
      rewrite atoi_fast_loop_nondigit by assumption. cbn; discriminate.
  - destruct s as [|c0 r0]; [cbn; discriminate|].
    apply parse_int_reject.
    destruct (split_sign_cases (c0 :: r0)) as [[r [Es Esp]]|[[r [Es Esp]]|[Esp Hns]]].
    + injection Es as -> ->. change (Byte.eqb c_plus c_plus) with true. cbn [orb].
      apply Hbody. now rewrite Esp.
    + injection Es as -> ->. change (Byte.eqb c_minus c_minus) with true. rewrite orb_true_r.
      apply Hbody. now rewrite Esp.
    + destruct (Hns c0 r0 eq_refl) as [Ep Em]. rewrite Em, Ep. cbn [orb].
      apply Hbody. now rewrite Esp.
Qed.

(** *** soundness: an accepted text is an integer text with that value, in range *)
Theorem atoi_sound s n : atoi s = IOk n ->
  int_value s = Some n /\ min_int64 <= n <= max_int64.
Proof.
  intros H. destruct (int_value s) as [m|] eqn:Hv.
  - pose proof (atoi_int s m Hv) as Hs. rewrite H in Hs. unfold spec_ires in Hs.
    destruct (Z.ltb_spec m min_int64); [discriminate|].
    destruct (Z.ltb_spec max_int64 m); [discriminate|].
    injection Hs as ->. split; [reflexivity|lia].
  - exfalso. apply (atoi_nonint s Hv). now rewrite H.
Qed.

Corollary atoi_meets_spec s :
  match int_value s with
  | Some _ => ires_pair (atoi s) = atoi_spec s
  | None => ires_err (atoi s) <> ErrNone
  end.
Proof.
  destruct (int_value s) as [n|] eqn:Hv.
  - rewrite (atoi_int s n Hv). now apply spec_ires_pair.
  - now apply atoi_nonint.
Qed.

(** ** printing and reading back *)
Lemma digit_byte_ok d : 0 <= d <= 9 ->
  is_dec_digit (digit_byte d) = true /\ digit_val (digit_byte d) = d.
Proof.
  intros H.
  assert (d = 0 \/ d = 1 \/ d = 2 \/ d = 3 \/ d = 4 \/ d = 5 \/ d = 6 \/ d = 7 \/ d = 8 \/ d = 9) as Hc by lia.
  repeat (destruct Hc as [->|Hc]; [split; reflexivity|]). subst. split; reflexivity.
Qed.

Lemma dec_digits_spec fuel : forall n acc, (1 <= fuel)%nat -> 0 <= n < 2 ^ Z.of_nat fuel ->
  exists l, dec_digits fuel n acc = l ++ acc /\ l <> [] /\ forallb is_dec_digit l = true /\
            forall a, fold_left dstep l a = a * 10 ^ Z.of_nat (length l) + n.
Proof.
  induction fuel as [|f IH]; intros n acc Hf Hn; [lia|].
  cbn [dec_digits].
  assert (Hm : 0 <= n mod 10 <= 9) by (pose proof (Z.mod_pos_bound n 10); lia).
  destruct (digit_byte_ok (n mod 10) Hm) as [Hdig Hval].
  destruct (Z.ltb_spec n 10) as [Hsmall|Hbig].
  - exists [digit_byte (n mod 10)]. repeat split.
    + discriminate.
    + cbn. now rewrite Hdig.
    + intros a. cbn. unfold dstep. rewrite Hval, Z.mod_small by lia. lia.
  - assert (Hq : 1 <= n / 10) by (apply Z.div_le_lower_bound; lia).
    assert (Hq2 : n / 10 < 2 ^ Z.of_nat f).
    { rewrite Nat2Z.inj_succ, Z.pow_succ_r in Hn by lia.
      apply Z.div_lt_upper_bound; lia. }
    assert (Hf1 : (1 <= f)%nat).
    { destruct f; [|lia]. cbn in Hq2. lia. }
    destruct (IH (n / 10) (digit_byte (n mod 10) :: acc) Hf1 ltac:(lia)) as [l [El [Hne [Hd Hfold]]]].
    exists (l ++ [digit_byte (n mod 10)]). repeat split.
    + rewrite El, <- app_assoc. reflexivity.
    + destruct l; discriminate.
    + rewrite forallb_app, Hd. cbn. now rewrite Hdig.
    + intros a. rewrite fold_left_app, Hfold. cbn [fold_left]. unfold dstep. rewrite Hval.
      rewrite app_length. cbn [length]. rewrite Nat.add_1_r, Nat2Z.inj_succ, Z.pow_succ_r by lia.
      pose proof (Z.div_mod n 10 ltac:(lia)). lia.
Qed.

Lemma dec_of_nonneg_spec n : 0 <= n ->
  dec_of_nonneg n <> [] /\ forallb is_dec_digit (dec_of_nonneg n) = true /\
  digits_val 10 (dec_of_nonneg n) = n.
Proof.
  intros Hn. unfold dec_of_nonneg.
  assert (Hb : 0 <= n < 2 ^ Z.of_nat (S (Z.to_nat (Z.log2 n)))).
  { rewrite Nat2Z.inj_succ, Z2Nat.id by apply Z.log2_nonneg.
    destruct (Z.eq_dec n 0) as [->|Hnz]; [split; [lia|reflexivity]|].
    pose proof (Z.log2_spec n ltac:(lia)). lia. }
  destruct (dec_digits_spec (S (Z.to_nat (Z.log2 n))) n [] ltac:(lia) Hb) as [l [El [Hne [Hd Hfold]]]].
  rewrite app_nil_r in El. rewrite El. repeat split; try assumption.
  rewrite digits_val_fold, Hfold. lia.
Qed.

Theorem int_value_dec_of_Z n : int_value (dec_of_Z n) = Some n.
Proof.
  unfold dec_of_Z. destruct (Z.ltb_spec n 0) as [Hneg|Hpos].
  - destruct (dec_of_nonneg_spec (- n) ltac:(lia)) as [Hne [Hd Hv]].
    unfold int_value. cbn [split_sign].
    change (Byte.eqb c_minus c_plus) with false. change (Byte.eqb c_minus c_minus) with true.
    cbn [sign_neg]. destruct (dec_of_nonneg (- n)) as [|c r] eqn:E; [congruence|].
    rewrite Hd, Hv. f_equal. lia.
  - destruct (dec_of_nonneg_spec n Hpos) as [Hne [Hd Hv]].
    unfold int_value. destruct (dec_of_nonneg n) as [|c r] eqn:E; [congruence|].
    pose proof Hd as Hd'. cbn [forallb] in Hd'. apply andb_true_iff in Hd' as [Hc _].
    destruct (not_sign_digit c Hc) as [Em Ep].
    cbn [split_sign]. rewrite Ep, Em. cbn [sign_neg]. rewrite Hd, Hv. reflexivity.
Qed.

(** Atoi reads back every int64 from its decimal form *)
Theorem atoi_exact n : min_int64 <= n <= max_int64 -> atoi (dec_of_Z n) = IOk n.
Proof.
  intros Hr. rewrite (atoi_int _ _ (int_value_dec_of_Z n)). unfold spec_ires.
  destruct (Z.ltb_spec n min_int64); [lia|]. destruct (Z.ltb_spec max_int64 n); [lia|]. reflexivity.
Qed.

Theorem atoi_out_of_range s n : int_value s = Some n ->
  (n < min_int64 -> atoi s = IErr min_int64 ErrRange) /\
  (max_int64 < n -> atoi s = IErr max_int64 ErrRange).
Proof.
  intros Hv. rewrite (atoi_int s n Hv). unfold spec_ires. split; intros H.
  - destruct (Z.ltb_spec n min_int64); [reflexivity|lia].
  - destruct (Z.ltb_spec n min_int64); [unfold min_int64, max_int64 in *; lia|].
    destruct (Z.ltb_spec max_int64 n); [reflexivity|lia].
Qed.
