(** The model of the regexp scanner meets the declarative regexp clauses of
    Model/ExprSpec.v (the ones the judge of C07 uses):

    - [re_unterminated_no_delim]: on a text that [re_unterminated] calls
      unterminated (no slash at all; or only escaped slashes and no literal
      section) the scanner finds no delimiter, so the tokenizer reports
      "missing close slash";
    - [re_scan_delimited]: the text the scanner cuts off is a text between
      delimiters in the sense of [re_delimited]. *)
From Perf Require Import Base.Bytes Base.Rune Model.Unquote Model.Tok Model.FilterAst Model.FilterParse
  Model.ExprSpec Proofs.ReDelim Proofs.TokStream Proofs.FilterReject.
From Coq Require Import Lia ZArith List Bool Arith.
Import ListNotations.

(** the scanner's "a backslash is pending" flag after a prefix is the parity
    of the run of backslashes at the end of that prefix *)
Lemma pending_snoc : forall p c st,
  snd (re_state_from st (p ++ [c])) =
  if snd (re_state_from st p) then false else Byte.eqb c c_bslash.
Proof.
  intros p c st. rewrite re_state_from_app.
  destruct (re_state_from st p) as [[cs cp] sk]. cbn [re_state_from fold_left snd re_step].
  destruct sk; [reflexivity|].
  destruct (Byte.eqb c c_lbrk) eqn:E1.
  { apply Byte.byte_dec_bl in E1. subst c. reflexivity. }
  destruct (Byte.eqb c c_rbrk) eqn:E2.
  { apply Byte.byte_dec_bl in E2. subst c. reflexivity. }
  destruct (Byte.eqb c c_lpar) eqn:E3.
  { apply Byte.byte_dec_bl in E3. subst c. reflexivity. }
  destruct (Byte.eqb c c_rpar) eqn:E4.
  { apply Byte.byte_dec_bl in E4. subst c. reflexivity. }
  destruct (Byte.eqb c c_bslash); reflexivity.
Qed.

Lemma pending_parity : forall p,
  snd (re_state p) = Nat.odd (lead_bslashes (rev p)).
Proof.
  induction p as [|c p IH] using rev_ind; [reflexivity|].
  unfold re_state in *. rewrite pending_snoc, IH, rev_app_distr.
  cbn [rev app lead_bslashes].
  destruct (Byte.eqb c c_bslash).
  - rewrite Nat.odd_succ, <- Nat.negb_odd.
    destruct (Nat.odd (lead_bslashes (rev p))); reflexivity.
  - destruct (Nat.odd (lead_bslashes (rev p))); reflexivity.
Qed.

Lemma neutral_not_pending : forall st, neutral st = true -> snd st = false.
Proof.
  intros [[cs cp] sk] H. cbn [neutral] in H. cbn [snd].
  destruct sk; [|reflexivity]. rewrite andb_false_r in H. discriminate.
Qed.

(** a slash that closes is a slash, and it is not escaped *)
Lemma closes_slash_unescaped : forall s i,
  closes s i = true -> is_slash_at s i = true /\ escaped_at s i = false.
Proof.
  intros s i H. unfold closes, closes_from in H. unfold is_slash_at, escaped_at.
  destruct (nth_error s i) as [c|]; [|discriminate].
  apply andb_true_iff in H as [Hc Hn]. split; [exact Hc|].
  apply neutral_not_pending in Hn. fold (re_state (firstn i s)) in Hn.
  rewrite pending_parity in Hn. exact Hn.
Qed.

Lemma is_slash_at_in : forall s i, is_slash_at s i = true -> existsb (Byte.eqb c_fslash) s = true.
Proof.
  intros s i H. unfold is_slash_at in H.
  destruct (nth_error s i) as [c|] eqn:E; [|discriminate].
  apply existsb_exists. exists c. split; [eapply nth_error_In; exact E|].
  apply Byte.byte_dec_bl in H. subst c. reflexivity.
Qed.

Theorem re_unterminated_no_delim : forall s,
  re_unterminated s = true -> re_scan s 0 0 false = None.
Proof.
  intros s H. apply re_scan_none_iff. intros j.
  destruct (closes s j) eqn:Hc; [exfalso|reflexivity].
  destruct (closes_slash_unescaped _ _ Hc) as [Hs He].
  unfold re_unterminated in H. apply orb_true_iff in H as [H|H].
  - apply negb_true_iff in H. rewrite (is_slash_at_in _ _ Hs) in H. discriminate.
  - apply andb_true_iff in H as [_ H]. unfold every_slash_escaped in H.
    rewrite forallb_forall in H.
    assert (Hj : (j < length s)%nat).
    { unfold is_slash_at in Hs. destruct (nth_error s j) eqn:E; [|discriminate].
      apply nth_error_Some. congruence. }
    specialize (H j (proj2 (in_seq _ _ _) (conj (Nat.le_0_l _) Hj))).
    rewrite Hs, He in H. discriminate.
Qed.

Theorem re_scan_delimited : forall s i,
  re_scan s 0 0 false = Some i -> re_delimited s (firstn i s) = true.
Proof.
  intros s i H. apply re_scan_first_closing in H as [Hc _].
  destruct (closes_slash_unescaped _ _ Hc) as [Hs _].
  assert (Hi : (i < length s)%nat).
  { unfold is_slash_at in Hs. destruct (nth_error s i) eqn:E; [|discriminate].
    apply nth_error_Some. congruence. }
  unfold re_delimited. rewrite firstn_length_le by lia.
  rewrite beq_refl, Hs. reflexivity.
Qed.

(** hence the "always rejected" clause for unterminated regexps with the
    declarative condition in place of the scanner's verdict *)
Theorem rejects_unterminated_regexp_decl :
  forall is_space re_ok q ts st r s,
  filter_lexes is_space re_ok q ts st r -> lmode st = true ->
  skip_spaces is_space r 0 = c_fslash :: s -> re_unterminated s = true ->
  rejected (parse_filter is_space re_ok q) q.
Proof.
  intros is_space re_ok q ts st r s Hl Hm Hs Hu.
  eapply rejects_unterminated_regexp; eauto using re_unterminated_no_delim.
Qed.
