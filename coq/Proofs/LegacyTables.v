(** Proofs about Model/Legacy.v, part 3: the old/new columns of a row, metric
    direction, rows in first-appearance order, tables in unit order, the
    geomean row. *)
From Coq Require Import ZArith List Bool Lia Sorting.Permutation Sorting.Sorted.
From Perf Require Import Base.Bytes Base.Sx Base.B64 Model.StatsF Model.Legacy.
From Perf Require Import Proofs.Legacy Proofs.LegacySort.
Import ListNotations.
Local Open Scope Z_scope.

(** * formatted deltas never look like "~" *)
Lemma fmt_f_plus_head p x :
  exists c r, fmt_f true p x = c :: r /\ (c = x2b \/ c = x2d).
Proof.
  destruct x as [s|s| |s m e]; try destruct s; cbn; eauto.
Qed.

Lemma fmt_delta_not_tilde x : fmt_delta x <> s_tilde.
Proof.
  unfold fmt_delta. destruct (fmt_f_plus_head 2 x) as [c [r [-> [-> | ->]]]]; cbn; congruence.
Qed.

(** * the old/new columns, by cases *)
Definition significant (alpha p : b64) (e : terr) : bool := is_enone e && b64_lt p alpha.

Lemma delta_cells_spec metric alpha p e o n :
  delta_cells metric alpha (p, e) o n =
  (if significant alpha p e then
     if b64_eq (m_mean n) (m_mean o) then (f_zero, bs "0.00%") else
       (pct_delta (m_mean o) (m_mean n), fmt_delta (pct_delta (m_mean o) (m_mean n)))
   else (f_zero, s_tilde),
   match e with
   | ENone => if b64_eq p f_m1 then [] else fmt_pnote p (length (m_rvalues o)) (length (m_rvalues n))
   | _ => err_note e
   end,
   if significant alpha p e then
     if b64_eq (m_mean n) (m_mean o) then 0
     else if Bool.eqb (b64_lt (m_mean n) (m_mean o)) (negb (beq metric s_speed))
          then 1 else -1
   else 0).
Proof.
  unfold delta_cells, significant.
  set (pn := fmt_pnote p _ _). set (pd := pct_delta _ _). set (fd := fmt_delta pd).
  set (ch := if Bool.eqb _ _ then 1 else -1). set (eqm := b64_eq (m_mean n) (m_mean o)).
  set (m1 := b64_eq p f_m1). set (lt := b64_lt p alpha).
  clearbody pn pd fd ch eqm m1 lt.
  destruct e, lt, eqm, m1; reflexivity.
Qed.

Theorem delta_iff_significant metric alpha p e o n :
  snd (fst (fst (delta_cells metric alpha (p, e) o n))) <> s_tilde
  <-> (e = ENone /\ b64_lt p alpha = true).
Proof.
  rewrite delta_cells_spec. unfold significant. cbn [fst snd].
  destruct e; cbn [is_enone andb];
    try (split; [intros H; exfalso; apply H; reflexivity | intros [H _]; discriminate]).
  destruct (b64_lt p alpha).
  - split; auto. intros _. destruct (b64_eq (m_mean n) (m_mean o)); cbn [snd].
    + discriminate.
    + apply fmt_delta_not_tilde.
  - split; [intros H; exfalso; apply H; reflexivity | intros [_ H]; discriminate].
Qed.

(** * metricOf: which units are "speed" *)
Lemma metric_of_suffix_not_speed unit tab s :
  (forall a b, In (a, b) tab -> (4 < length b)%nat) ->
  metric_of_suffix unit tab = Some s -> s <> s_speed.
Proof.
  induction tab as [|[a b] tab IH]; cbn [metric_of_suffix]; intros Hl; [congruence|].
  destruct (has_suffix unit (c_dash :: a)).
  - intros E H. injection E as E. subst s. apply (f_equal (@length byte)) in H.
    rewrite app_length in H. cbn in H. specialize (Hl a b (or_introl eq_refl)). lia.
  - apply IH. intros a' b' Hin. apply (Hl a' b'). now right.
Qed.

Theorem metric_of_speed unit :
  metric_of unit = s_speed <-> (unit = bs "MB/s" \/ unit = s_speed).
Proof.
  unfold metric_of. cbn [assoc_b metric_suffix].
  destruct (beq_spec unit (bs "ns/op")) as [->|H1]; [split; [discriminate | intros [|]; discriminate]|].
  destruct (beq_spec unit (bs "ns/GC")) as [->|H2]; [split; [discriminate | intros [|]; discriminate]|].
  destruct (beq_spec unit (bs "B/op")) as [->|H3]; [split; [discriminate | intros [|]; discriminate]|].
  destruct (beq_spec unit (bs "MB/s")) as [->|H4]; [split; auto|].
  destruct (metric_of_suffix unit metric_suffix) as [s|] eqn:Es.
  - split.
    + intros ->. exfalso. eapply metric_of_suffix_not_speed; eauto.
      intros a b Hin. cbn in Hin.
      repeat (destruct Hin as [Hin|Hin]; [injection Hin as <- <-; cbn; lia|]). destruct Hin.
    + intros [-> | ->]; [congruence|]. vm_compute in Es. discriminate.
  - split; [auto | intros [-> | ->]; congruence].
Qed.

(** * rows *)
Section TablesProofs.
  Variable dtest : mstat -> mstat -> b64 * terr.
  Variable log_o exp_o : b64 -> option b64.
  Variable alpha0 : b64.
  Variable ord : order.
  Variable add_geomean : bool.
  Variable c : coll.

  Notation make_row := (make_row dtest alpha0 c).
  Notation plain_rows := (plain_rows dtest alpha0 c).
  Notation sorted_rows := (sorted_rows dtest alpha0 ord c).
  Notation geomean_row := (geomean_row log_o exp_o c).
  Notation table_of := (table_of dtest log_o exp_o alpha0 ord add_geomean c).
  Notation tables := (tables dtest log_o exp_o alpha0 ord add_geomean c).

  (** the statistics cell of one configuration *)
  Definition cell (unit g b cf : bytes) : mstat :=
    match stat_of c (mkKey cf g b unit) with Some m => m | None => empty_mstat end.

  Definition cfg0 : bytes := nth 0 (c_configs c) [].
  Definition cfg1 : bytes := nth 1 (c_configs c) [].

  (** a row exists unless two configurations are compared and one lacks the benchmark *)
  Definition row_present (unit : bytes) (gb : bytes * bytes) : bool :=
    if oldnew c then
      match stat_of c (mkKey cfg0 (fst gb) (snd gb) unit), stat_of c (mkKey cfg1 (fst gb) (snd gb) unit) with
      | Some _, Some _ => true
      | _, _ => false
      end
    else true.

  Lemma make_row_spec unit g b :
    match make_row unit g b with
    | None => row_present unit (g, b) = false
    | Some r =>
        row_present unit (g, b) = true
        /\ w_bench r = b
        /\ w_group r = (if (1 <? length (c_groups c))%nat then g else [])
        /\ w_metrics r = map (cell unit g b) (c_configs c)
        /\ if oldnew c then
             exists o n, stat_of c (mkKey cfg0 g b unit) = Some o
                      /\ stat_of c (mkKey cfg1 g b unit) = Some n
                      /\ (w_pct r, w_delta r, w_note r, w_change r)
                         = delta_cells (metric_of unit) (eff_alpha alpha0) (dtest o n) o n
           else (w_pct r, w_delta r, w_note r, w_change r) = (f_zero, [], [], 0)
    end.
  Proof.
    unfold Legacy.make_row, row_present, cfg0, cfg1. cbn [fst snd].
    destruct (oldnew c).
    - destruct (stat_of c (mkKey (nth 0 (c_configs c) []) g b unit)) as [o|]; [|reflexivity].
      destruct (stat_of c (mkKey (nth 1 (c_configs c) []) g b unit)) as [n|]; [|reflexivity].
      unfold alpha.
      destruct (delta_cells (metric_of unit) (eff_alpha alpha0) (dtest o n) o n) as [[[pct d] nt] ch] eqn:E.
      cbn. repeat split; auto. exists o, n. repeat split; auto.
    - cbn. repeat split; auto.
  Qed.

  Lemma opt_rows_labels unit gbs :
    map w_bench (opt_rows dtest alpha0 c unit gbs) = map snd (filter (row_present unit) gbs).
  Proof.
    induction gbs as [|[g b] gbs IH]; cbn [opt_rows filter map]; auto.
    pose proof (make_row_spec unit g b) as H.
    destruct (make_row unit g b) as [r|].
    - destruct H as [-> [<- _]]. cbn. now rewrite IH.
    - rewrite H. exact IH.
  Qed.

  (** rows appear group by group, benchmark by benchmark, in first-appearance order *)
  Theorem plain_rows_labels unit :
    map w_bench (plain_rows unit) = map snd (filter (row_present unit) (all_benchmarks c)).
  Proof. apply opt_rows_labels. Qed.

  Lemma opt_rows_in unit gbs r :
    In r (opt_rows dtest alpha0 c unit gbs) -> exists g b, In (g, b) gbs /\ make_row unit g b = Some r.
  Proof.
    induction gbs as [|[g b] gbs IH]; cbn [opt_rows]; [intros []|].
    destruct (make_row unit g b) as [r0|] eqn:E.
    - intros [<-|H].
      + exists g, b. split; [now left | auto].
      + destruct (IH H) as [g' [b' [H1 H2]]]. exists g', b'. split; [now right | auto].
    - intros H. destruct (IH H) as [g' [b' [H1 H2]]]. exists g', b'. split; [now right | auto].
  Qed.

  Lemma plain_rows_in unit r :
    In r (plain_rows unit) -> exists g b, In (g, b) (all_benchmarks c) /\ make_row unit g b = Some r.
  Proof. apply opt_rows_in. Qed.

  (** * sorting keeps the rows *)
  Lemma sink_length {A} (less : A -> A -> bool) x rp : length (sink less x rp) = S (length rp).
  Proof. induction rp as [|y rp IH]; cbn; auto. destruct (less x y); cbn; auto. Qed.

  Lemma go_stable_sort_length {A} (less : A -> A -> bool) l : length (go_stable_sort less l) = length l.
  Proof.
    unfold go_stable_sort. rewrite rev_length.
    assert (H : forall rp, length (fold_left (fun rp x => sink less x rp) l rp) = (length l + length rp)%nat).
    { induction l as [|x l IH]; intros rp; cbn; auto. rewrite IH, sink_length. lia. }
    rewrite H. cbn. lia.
  Qed.

  Lemma sorted_rows_empty unit : is_empty (sorted_rows unit) = is_empty (plain_rows unit).
  Proof.
    unfold Legacy.sorted_rows. destruct ord as [o|]; auto.
    pose proof (go_stable_sort_length (order_less o) (plain_rows unit)) as H.
    destruct (go_stable_sort (order_less o) (plain_rows unit)), (plain_rows unit); cbn in *; auto; lia.
  Qed.

  (** with an Order, the rows are the stable sorted arrangement of the
      first-appearance rows *)
  Theorem sorted_rows_stable unit o :
    ord = Some o -> Forall (order_domain o) (plain_rows unit) ->
    stable_sorted (order_less o) (order_domain o) (plain_rows unit) (sorted_rows unit).
  Proof.
    intros E H. unfold Legacy.sorted_rows. rewrite E. now apply sort_stable_all_orders.
  Qed.

  Theorem sorted_rows_unordered unit : ord = None -> sorted_rows unit = plain_rows unit.
  Proof. intros E. unfold Legacy.sorted_rows. now rewrite E. Qed.

  (** * the geomean row *)
  Definition geo_cell (unit : bytes) (means : list b64) (m : mstat) : Prop :=
    match means with
    | [] => m = empty_mstat
    | _ => exists g, geomean_f log_o exp_o means = Some g /\ m = mkMstat unit [] [] f_zero g f_zero
    end.

  (** the stats of one configuration that exist, in first-appearance order *)
  Definition present_stats (unit cf : bytes) : list mstat :=
    concat (map (fun gb => match stat_of c (mkKey cf (fst gb) (snd gb) unit) with
                           | Some m => [m] | None => [] end) (all_benchmarks c)).

  (** the geomean of a configuration ranges over all benchmarks of the
      collection with statistics for the unit, shown in the table or not: a
      statistic takes part iff its key has values *)
  Lemma present_stats_all unit cf m :
    In m (present_stats unit cf) <->
    exists gb, In gb (all_benchmarks c) /\ stat_of c (mkKey cf (fst gb) (snd gb) unit) = Some m.
  Proof.
    unfold present_stats. rewrite in_concat. split.
    - intros [l [Hl Hm]]. apply in_map_iff in Hl. destruct Hl as [gb [<- Hgb]].
      exists gb. split; auto.
      destruct (stat_of c (mkKey cf (fst gb) (snd gb) unit)) as [m'|]; cbn in Hm; [|contradiction].
      destruct Hm as [->|[]]. reflexivity.
    - intros [gb [Hgb E]]. exists [m]. split; [|now left].
      apply in_map_iff. exists gb. rewrite E. auto.
  Qed.

  Lemma nonzero_means_spec unit cf :
    nonzero_means c unit cf =
    filter (fun x => negb (b64_eq x f_zero)) (map m_mean (present_stats unit cf)).
  Proof.
    unfold nonzero_means, present_stats.
    induction (all_benchmarks c) as [|[g b] l IH]; cbn [map concat]; auto.
    rewrite map_app, filter_app, <- IH. f_equal. cbn [fst snd].
    destruct (stat_of c (mkKey cf g b unit)) as [m|]; cbn; auto.
    destruct (b64_eq (m_mean m) f_zero); reflexivity.
  Qed.

  Lemma omap_Forall2 {A B} (f : A -> option B) l r :
    omap f l = Some r -> Forall2 (fun a b => f a = Some b) l r.
  Proof.
    revert r; induction l as [|a l IH]; cbn; intros r.
    - intros [= <-]. constructor.
    - destruct (f a) as [b|] eqn:E; cbn; [|discriminate].
      destruct (omap f l) as [bs|]; cbn; [|discriminate].
      intros [= <-]. constructor; auto.
  Qed.

  Theorem geomean_row_spec unit r :
    geomean_row unit = Some (Some r) ->
    w_bench r = s_geomean /\ w_group r = [] /\ w_note r = [] /\ w_change r = 0
    /\ Forall2 (fun cf m => geo_cell unit (nonzero_means c unit cf) m) (c_configs c) (w_metrics r)
    /\ (exists cf, In cf (c_configs c) /\ (1 < length (nonzero_means c unit cf))%nat)
    /\ ((w_delta r = [] /\ w_pct r = f_zero)
        \/ (oldnew c = true /\ exists m0 m1, w_metrics r = [m0; m1]
            /\ w_pct r = pct_delta (m_mean m0) (m_mean m1) /\ w_delta r = fmt_delta (w_pct r))).
  Proof.
    unfold Legacy.geomean_row.
    set (per := map (nonzero_means c unit) (c_configs c)).
    set (f := fun means : list b64 => match means with
                | [] => Some None | _ :: _ => option_map Some (geomean_f log_o exp_o means) end).
    destruct (omap f per) as [gms|] eqn:Eo; cbn [obind]; [|discriminate].
    set (ms := map _ gms).
    assert (Hcells : Forall2 (fun cf m => geo_cell unit (nonzero_means c unit cf) m) (c_configs c) ms).
    { apply omap_Forall2 in Eo. subst per ms. clear -Eo.
      revert gms Eo. induction (c_configs c) as [|cf l IH]; intros gms H; inversion H; subst; cbn.
      - constructor.
      - constructor; auto. unfold geo_cell. unfold f in H2.
        destruct (nonzero_means c unit cf) as [|x xs].
        + injection H2 as <-. reflexivity.
        + destruct (geomean_f log_o exp_o (x :: xs)) as [g|]; cbn in H2; [|discriminate].
          injection H2 as <-. eauto. }
    set (mc := fold_left _ per O).
    assert (Hmc : (1 < mc)%nat -> exists cf, In cf (c_configs c) /\ (1 < length (nonzero_means c unit cf))%nat).
    { subst mc per. clear.
      assert (G : forall l a, (1 < fold_left (fun a l0 => Nat.max a (length l0)) (map (nonzero_means c unit) l) a)%nat ->
                  (1 < a)%nat \/ exists cf, In cf l /\ (1 < length (nonzero_means c unit cf))%nat).
      { induction l as [|cf l IH]; cbn; intros a H; auto.
        destruct (IH _ H) as [H1|[cf' [H1 H2]]].
        - destruct (Nat.max_spec a (length (nonzero_means c unit cf))) as [[_ E]|[_ E]]; rewrite E in H1; eauto.
        - right. eauto. }
      intros H. destruct (G _ _ H) as [H1|H1]; [lia | auto]. }
    destruct (mc <=? 1)%nat eqn:Emc; [discriminate|].
    apply Nat.leb_gt in Emc. specialize (Hmc Emc).
    destruct (oldnew c && forallb _ gms) eqn:Ed.
    - destruct gms as [|[g0|] [|[g1|] [|]]]; intros [= <-]; cbn [w_bench w_group w_note w_change w_metrics w_delta w_pct];
        repeat split; auto.
      right. apply andb_true_iff in Ed as [Ed _]. split; auto.
      eexists _, _. split; [reflexivity|]. cbn. auto.
    - intros [= <-]. cbn [w_bench w_group w_note w_change w_metrics w_delta w_pct]. repeat split; auto.
  Qed.

  (** * tables *)
  Theorem table_of_spec unit t :
    table_of unit = Some (Some t) ->
    t_metric t = metric_of unit /\ t_oldnew t = oldnew c
    /\ t_configs t = c_configs c /\ t_groups t = c_groups c
    /\ sorted_rows unit <> []
    /\ (t_rows t = sorted_rows unit
        \/ exists r, add_geomean = true /\ geomean_row unit = Some (Some r)
                     /\ t_rows t = sorted_rows unit ++ [r]).
  Proof.
    unfold Legacy.table_of. destruct (sorted_rows unit) as [|r0 rows] eqn:E; [discriminate|].
    destruct add_geomean.
    - destruct (geomean_row unit) as [[r|]|] eqn:Eg; cbn [obind]; intros [= <-]; cbn;
        repeat split; auto; try congruence.
      right. exists r. auto.
    - cbn [obind]. intros [= <-]. cbn. repeat split; auto. congruence.
  Qed.

  Lemma table_of_none unit : table_of unit = Some None -> sorted_rows unit = [].
  Proof.
    unfold Legacy.table_of. destruct (sorted_rows unit) as [|r0 rows]; auto.
    destruct add_geomean; [destruct (geomean_row unit) as [[r|]|]|]; cbn; discriminate.
  Qed.

  (** one table per unit that has rows, in the order units first appeared *)
  Theorem tables_follow_unit_order ts :
    tables = Some ts ->
    map t_metric ts = map metric_of (filter (fun u => negb (is_empty (plain_rows u))) (c_units c))
    /\ Forall2 (fun u t => table_of u = Some (Some t))
               (filter (fun u => negb (is_empty (plain_rows u))) (c_units c)) ts.
  Proof.
    unfold Legacy.tables.
    destruct (omap table_of (c_units c)) as [ots|] eqn:Eo; cbn [obind]; [|discriminate].
    intros [= <-]. apply omap_Forall2 in Eo.
    induction Eo as [|u ot us ots Hu _ IH]; cbn [filter map concat]; [split; constructor|].
    destruct IH as [IH1 IH2]. rewrite <- sorted_rows_empty.
    destruct ot as [t|].
    - destruct (table_of_spec u t Hu) as [Hm [_ [_ [_ [Hne _]]]]].
      destruct (sorted_rows u); [congruence|]. cbn. split; [now rewrite Hm, IH1 | constructor; auto].
    - rewrite (table_of_none u Hu). cbn. auto.
  Qed.
End TablesProofs.

(** * statements at the level of a collection built from input records *)
Section Whole.
  Variable dtest : mstat -> mstat -> b64 * terr.
  Variable alpha0 : b64.
  Variable split : list bytes.
  Variable cfs : list (bytes * list result).
  Let c := build split cfs.
  Let recs := all_records split cfs.

  (** the statistics of a key: computed from exactly the values recorded under
      it, in input order; retained = the fenced values, in input order *)
  Theorem stat_of_build k m :
    stat_of c k = Some m ->
    let vals := values_of recs k in
    vals <> [] /\ m_unit m = k_unit k /\ m_values m = vals
    /\ m_rvalues m = filter (in_fence (fence vals)) vals
    /\ subseq (m_rvalues m) vals
    /\ (m_min m, m_max m) = bounds_f (m_rvalues m) /\ m_mean m = mean_f (m_rvalues m).
  Proof.
    unfold stat_of. destruct (build_spec split cfs) as [_ [_ [_ [_ Hm]]]]. fold c recs in Hm.
    rewrite Hm. destruct (values_of recs k) as [|v vs] eqn:E; cbn [opt_nonempty option_map]; [discriminate|].
    intros [= <-]. destruct (compute_stats_spec (k_unit k) (v :: vs)) as [H1 [H2 [H3 [H4 H5]]]].
    cbn zeta. rewrite H3, H2, H1. repeat split; auto; try congruence.
    apply filter_subseq.
  Qed.

  Theorem stat_of_build_none k : stat_of c k = None <-> values_of recs k = [].
  Proof.
    unfold stat_of. destruct (build_spec split cfs) as [_ [_ [_ [_ Hm]]]]. fold c recs in Hm.
    rewrite Hm. destruct (values_of recs k); cbn; split; congruence.
  Qed.

  (** all (group, benchmark) pairs: groups by first appearance, benchmarks by
      first appearance within their group *)
  Theorem all_benchmarks_build :
    all_benchmarks c =
    concat (map (fun g => map (fun b => (g, b)) (benches_of_spec recs g))
                (firsts (map (fun r => k_group (fst r)) recs))).
  Proof.
    unfold all_benchmarks. destruct (build_spec split cfs) as [_ [Hg [_ [Hb _]]]]. fold c recs in Hg, Hb.
    rewrite Hg. f_equal. apply map_ext. intros g. now rewrite Hb.
  Qed.

  (** every row of a unit: its label comes from the first-appearance lists, its
      cells are the statistics of its (config, group, benchmark, unit) keys and,
      when two configurations are compared, its delta columns are [delta_cells] *)
  Theorem plain_rows_build unit r :
    In r (plain_rows dtest alpha0 c unit) ->
    exists g b, In (g, b) (all_benchmarks c) /\ row_present c unit (g, b) = true
      /\ w_bench r = b
      /\ w_group r = (if (1 <? length (c_groups c))%nat then g else [])
      /\ w_metrics r = map (cell c unit g b) (map fst cfs)
      /\ if (length cfs =? 2)%nat then
           exists o n, stat_of c (mkKey (cfg0 c) g b unit) = Some o
                    /\ stat_of c (mkKey (cfg1 c) g b unit) = Some n
                    /\ (w_pct r, w_delta r, w_note r, w_change r)
                       = delta_cells (metric_of unit) (eff_alpha alpha0) (dtest o n) o n
         else (w_pct r, w_delta r, w_note r, w_change r) = (f_zero, [], [], 0%Z).
  Proof.
    intros Hin. destruct (plain_rows_in dtest alpha0 c unit r Hin) as [g [b [Hgb Hr]]].
    pose proof (make_row_spec dtest alpha0 c unit g b) as H. rewrite Hr in H.
    destruct H as [H1 [H2 [H3 [H4 H5]]]].
    destruct (build_spec split cfs) as [Hc _]. fold c in Hc.
    exists g, b. rewrite <- Hc. repeat split; auto.
    unfold oldnew in H5. rewrite Hc, map_length in H5. exact H5.
  Qed.
End Whole.
