(** Proofs about Model/Dates.v. *)
From Perf Require Import Base.Bytes Model.Dates.
Local Open Scope Z_scope.

(** texts (in either accepted layout) denoting one instant normalise to one string *)
Theorem normalize_same_instant s1 s2 i :
  denotes s1 = Some i -> denotes s2 = Some i ->
  normalize_date s1 = Some (format_instant i) /\ normalize_date s2 = Some (format_instant i).
Proof.
  unfold denotes, normalize_date. intros H1 H2.
  destruct (parse_date s1); [|discriminate]. destruct (parse_date s2); [|discriminate].
  cbn [option_map] in H1, H2. injection H1 as H1. injection H2 as H2. now rewrite H1, H2.
Qed.

(** a text is accepted exactly when it denotes an instant *)
Theorem normalize_defined_iff s : normalize_date s <> None <-> denotes s <> None.
Proof. unfold denotes, normalize_date. destruct (parse_date s); cbn; split; congruence. Qed.

(** the punctuation-free layout is read as UTC *)
Example both_layouts_one_instant :
  denotes (bs "20211229T213212") = denotes (bs "2021-12-29T22:32:12.000+01:00") /\
  normalize_date (bs "20211229T213212") = Some (bs "2021-12-29T21:32:12+00:00").
Proof. vm_compute. split; reflexivity. Qed.
