(** Proofs about Model/Dates.v. *)
From Perf Require Import Base.Bytes Model.Dates.
Local Open Scope Z_scope.

(** texts (in either accepted layout) denoting one instant normalise to one
    string - or are both rejected, when the UTC year of the instant has not
    four digits (repair hooks/fix_c18_date_year_range.diff) *)
Theorem normalize_same_instant s1 s2 i :
  denotes s1 = Some i -> denotes s2 = Some i ->
  normalize_date s1 = normalize_date s2 /\
  (year_inrange_b i = true -> normalize_date s1 = Some (format_instant i)).
Proof.
  unfold denotes, normalize_date. intros H1 H2.
  destruct (parse_date s1); [|discriminate]. destruct (parse_date s2); [|discriminate].
  cbn [option_map] in H1, H2. injection H1 as H1. injection H2 as H2. rewrite H1, H2.
  split; [reflexivity|]. intros R. rewrite R. reflexivity.
Qed.

(** a text is accepted exactly when it denotes an instant of a four-digit UTC year *)
Theorem normalize_defined_iff s :
  normalize_date s <> None <-> exists i, denotes s = Some i /\ year_inrange_b i = true.
Proof.
  unfold denotes, normalize_date. destruct (parse_date s) as [c|]; cbn [option_map].
  - destruct (year_inrange_b (to_instant c)) eqn:R; split.
    + intros _. now exists (to_instant c).
    + discriminate.
    + congruence.
    + intros [i [E Ri]]. injection E as E. rewrite E in R. congruence.
  - split; [congruence|]. intros [i [E _]]. discriminate E.
Qed.

Lemma some_inj {A} (x y : A) : Some x = Some y -> x = y.
Proof. intros H. now inversion H. Qed.

(** an accepted text: its instant and its normalised string *)
Lemma normalize_some s n :
  normalize_date s = Some n ->
  exists i, denotes s = Some i /\ year_inrange_b i = true /\ n = format_instant i.
Proof.
  unfold denotes, normalize_date. destruct (parse_date s) as [c|]; [|discriminate].
  destruct (year_inrange_b (to_instant c)) eqn:R; [|discriminate].
  intros E. apply some_inj in E. exists (to_instant c). cbn [option_map].
  split; [reflexivity|]. split; [exact R|]. symmetry. exact E.
Qed.

(** the punctuation-free layout is read as UTC *)
Example both_layouts_one_instant :
  denotes (bs "20211229T213212") = denotes (bs "2021-12-29T22:32:12.000+01:00") /\
  normalize_date (bs "20211229T213212") = Some (bs "2021-12-29T21:32:12+00:00").
Proof. vm_compute. split; reflexivity. Qed.
