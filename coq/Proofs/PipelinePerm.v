(** Order of the result lines and the composed benchstat model (C15 at the
    level of cmd/benchstat, from the records the reader delivers).

    Two successful runs with the same flags whose result records are
    permutations of each other - compared by what a record says: name, file
    configuration in scope, values; NOT by file/line position - produce the
    same cells up to a renaming of the interned Key numbers:

    - for each of the table, row, column and residue projections there is a
      bijection between the Key numbers of the two runs that preserves what
      every Key reads in every (corresponding) field - [key_renaming];
    - the tuples Builder.Add receives in the second run are a permutation of
      the renamed tuples of the first run - [line_perm_renaming];
    - hence every cell (t, r, c) of the first run and the cell (ren t, ren r,
      ren c) of the second hold the same multiset of values -
      [line_perm_cells]; and the same LIST of values when the results that
      contribute to the cell come in the same relative order -
      [line_perm_cell_ordered].

    The Key-renaming invariant of the projection stream this rests on is
    Proofs/ProjectionRename.v. *)
From Perf Require Import Base.Bytes Base.B64.
From Perf Require Import Model.Name Model.Extract.
From Perf Require Model.Units Model.Reader Model.Files Model.FilterAst Model.FilterParse
  Model.ProjParse Model.FilterEval Model.Key Model.Sort Model.BenchTab.
From Perf Require Import Model.Projection Model.Pipeline.
From Perf Require Import Proofs.Projection Proofs.Exclusion Proofs.KeyGet Proofs.Lossless Proofs.LosslessUnits
  Proofs.ProjectionRename.
From Perf Require Proofs.BenchTab.
From Perf Require Import Proofs.Pipeline Proofs.PipelineKeys.
From Coq Require Import Lia Sorting.Permutation.

(** * list facts *)
Lemma perm_flat_map_by_key {A B K C} (ka : A -> K) (kb : B -> K) (f : A -> list C) (g : B -> list C) :
  forall l1 l2, Permutation (map ka l1) (map kb l2) ->
  (forall x y, In x l1 -> In y l2 -> ka x = kb y -> f x = g y) ->
  Permutation (flat_map f l1) (flat_map g l2).
Proof.
  induction l1 as [|x l1 IH]; intros l2 HP Hfg.
  - cbn in HP. apply Permutation_nil in HP. destruct l2; [constructor|discriminate].
  - cbn [map] in HP.
    assert (Hin : In (ka x) (map kb l2)) by (eapply Permutation_in; [exact HP|now left]).
    apply in_map_iff in Hin as [y [Hy Hyin]].
    apply in_split in Hyin as [l2a [l2b ->]].
    rewrite map_app in HP. cbn [map] in HP. rewrite Hy in HP.
    apply Permutation_cons_app_inv in HP. rewrite <- map_app in HP.
    rewrite flat_map_app. cbn [flat_map].
    rewrite (Hfg x y); [|now left|apply in_or_app; right; now left|auto].
    assert (IH' : Permutation (flat_map f l1) (flat_map g (l2a ++ l2b))).
    { apply IH; auto. intros x0 y0 Hx0 Hy0. apply Hfg; [now right|].
      apply in_app_or in Hy0 as [H|H]; apply in_or_app; [left|right; right]; auto. }
    rewrite flat_map_app in IH'.
    eapply Permutation_trans; [apply Permutation_app_head; exact IH'|]. apply Permutation_app_swap_app.
Qed.

Lemma combine_nth_error {A B} (l1 : list A) (l2 : list B) : forall i x y,
  nth_error (combine l1 l2) i = Some (x, y) -> nth_error l1 i = Some x /\ nth_error l2 i = Some y.
Proof.
  revert l2; induction l1 as [|a l1 IH]; intros [|b l2] [|i] x y H; try discriminate; cbn in *.
  - injection H as <- <-. auto.
  - now apply IH.
Qed.

Lemma nth_error_combine {A B} (l1 : list A) (l2 : list B) : forall i x y,
  nth_error l1 i = Some x -> nth_error l2 i = Some y -> nth_error (combine l1 l2) i = Some (x, y).
Proof.
  revert l2; induction l1 as [|a l1 IH]; intros [|b l2] [|i] x y H1 H2; try discriminate; cbn in *.
  - injection H1 as <-. injection H2 as <-. reflexivity.
  - now apply IH.
Qed.

Lemma map_fst_combine {A B} (l1 : list A) (l2 : list B) : length l1 = length l2 -> map fst (combine l1 l2) = l1.
Proof.
  revert l2; induction l1 as [|a l1 IH]; intros [|b l2] H; try discriminate; cbn in *; auto.
  f_equal. apply IH. lia.
Qed.

Lemma map_flat_map {A B C} (f : A -> list B) (g : B -> C) l : map g (flat_map f l) = flat_map (fun x => map g (f x)) l.
Proof. induction l as [|x l IH]; cbn; auto. now rewrite map_app, IH. Qed.

Lemma combine_map_l {A B C} (f : A -> C) (l1 : list A) (l2 : list B) :
  combine (map f l1) l2 = map (fun xy => (f (fst xy), snd xy)) (combine l1 l2).
Proof. revert l2; induction l1 as [|a l1 IH]; intros [|b l2]; cbn; auto. now rewrite IH. Qed.

Lemma nth_error_ext_eq {A} (l1 l2 : list A) : length l1 = length l2 ->
  (forall j x y, nth_error l1 j = Some x -> nth_error l2 j = Some y -> x = y) -> l1 = l2.
Proof.
  revert l2; induction l1 as [|a l1 IH]; intros [|b l2] HL H; try discriminate; auto.
  f_equal; [exact (H 0 a b eq_refl eq_refl)|]. apply IH; [cbn in HL; lia|].
  intros j x y Hx Hy. exact (H (S j) x y Hx Hy).
Qed.

(** * what a kept result says *)
Definition kc (k : kept) : result * list b64 := (k_res k, k_vals k).

(** the four calls Builder.Add makes per kept result *)
Lemma add_ops_proj_only ks : Forall proj_only (flat_map add_ops ks).
Proof. induction ks; cbn [flat_map]; [constructor|]. repeat constructor. exact IHks. Qed.

Lemma in_add_ops_project ks pi r :
  In (OpProject pi r) (flat_map add_ops ks) <-> (pi = pi_row \/ pi = pi_col \/ pi = pi_residue) /\ In r (map k_res ks).
Proof.
  rewrite in_flat_map, in_map_iff. unfold add_ops. cbn [In]. split.
  - intros [k [Hk [H|[H|[H|[H|[]]]]]]]; try discriminate; injection H as <- <-; split; eauto.
  - intros [[-> |[-> | ->]] [k [<- Hk]]]; exists k; split; auto.
Qed.

Lemma in_add_ops_values ks pi r :
  In (OpProjectValues pi r) (flat_map add_ops ks) <-> pi = pi_table /\ In r (map k_res ks).
Proof.
  rewrite in_flat_map, in_map_iff. unfold add_ops. cbn [In]. split.
  - intros [k [Hk [H|[H|[H|[H|[]]]]]]]; try discriminate; injection H as <- <-; split; eauto.
  - intros [-> [k [<- Hk]]]. exists k. split; auto.
Qed.

Lemma perm_kres ks ks' : Permutation (map kc ks) (map kc ks') -> forall r, In r (map k_res ks) <-> In r (map k_res ks').
Proof.
  intros HP r.
  assert (E : forall l, map k_res l = map fst (map kc l)) by (intros l; rewrite map_map; reflexivity).
  rewrite !E. split; apply Permutation_in; [|symmetry]; now apply Permutation_map.
Qed.

(** renaming the Keys of a tuple / of an assignment, projection by projection *)
Definition rename_meas (ren : nat -> nat -> nat) (m : BenchTab.meas) : BenchTab.meas :=
  BenchTab.mkMeas (N.of_nat (ren pi_table (N.to_nat (BenchTab.m_t m)))) (N.of_nat (ren pi_row (N.to_nat (BenchTab.m_r m))))
                  (N.of_nat (ren pi_col (N.to_nat (BenchTab.m_c m)))) (N.of_nat (ren pi_residue (N.to_nat (BenchTab.m_res m))))
                  (BenchTab.m_v m).

Definition rename_assign (ren : nat -> nat -> nat) (a : assignment) : assignment :=
  (map (ren pi_table) (a_tables a), ren pi_row (a_row a), ren pi_col (a_col a), ren pi_residue (a_res a)).

Lemma meas_of_rename ren ts r c res vals :
  map (rename_meas ren) (meas_of ts r c res vals)
  = meas_of (map (ren pi_table) ts) (ren pi_row r) (ren pi_col c) (ren pi_residue res) vals.
Proof.
  unfold meas_of. rewrite combine_map_l, !map_map. apply map_ext. intros [t v].
  unfold rename_meas, mk_meas. cbn [fst snd BenchTab.m_t BenchTab.m_r BenchTab.m_c BenchTab.m_res BenchTab.m_v].
  now rewrite !Nat2N.id.
Qed.

(** the number of Keys of a projection of the run *)
Definition nkeys (o : run_out) (pi : nat) : nat := length (p_keys (proj_of (o_world o) pi)).

Lemma nkeys_of o pi pF : nth_error (w_projs (o_world o)) pi = Some pF -> nkeys o pi = length (p_keys pF).
Proof. intros H. unfold nkeys, proj_of. now rewrite (nth_error_nth _ _ _ H). Qed.

(** the Keys of a tuple are Keys of the run *)
Definition meas_in_range (o : run_out) (m : BenchTab.meas) : Prop :=
  N.to_nat (BenchTab.m_t m) < nkeys o pi_table /\ N.to_nat (BenchTab.m_r m) < nkeys o pi_row /\
  N.to_nat (BenchTab.m_c m) < nkeys o pi_col.

(** a renaming that is injective on the Keys of the run *)
Definition inj_on (n : nat) (phi : nat -> nat) : Prop := forall a b, a < n -> b < n -> phi a = phi b -> a = b.

Lemma key_renaming_inj p p' phi psi : key_renaming p p' phi psi -> inj_on (length (p_keys p)) phi.
Proof.
  intros KR a b Ha Hb H. destruct (kr_fwd _ _ _ _ KR a Ha) as [_ <-]. destruct (kr_fwd _ _ _ _ KR b Hb) as [_ <-].
  now rewrite H.
Qed.

Lemma eqb_rename n phi (x : N) t : inj_on n phi -> N.to_nat x < n -> t < n ->
  (N.of_nat (phi (N.to_nat x)) =? N.of_nat (phi t))%N = (x =? N.of_nat t)%N.
Proof.
  intros Hinj Hx Ht. destruct (N.eqb_spec x (N.of_nat t)) as [->|Hne].
  - rewrite Nat2N.id. apply N.eqb_refl.
  - apply N.eqb_neq. intros H. apply Nat2N.inj in H. apply Hinj in H; auto. apply Hne. rewrite <- H. now rewrite N2Nat.id.
Qed.

Lemma filter_rename o ren t r c ms :
  inj_on (nkeys o pi_table) (ren pi_table) -> inj_on (nkeys o pi_row) (ren pi_row) -> inj_on (nkeys o pi_col) (ren pi_col) ->
  t < nkeys o pi_table -> r < nkeys o pi_row -> c < nkeys o pi_col ->
  Forall (meas_in_range o) ms ->
  map BenchTab.m_v (filter (BenchTab.m_is (N.of_nat (ren pi_table t)) (N.of_nat (ren pi_row r)) (N.of_nat (ren pi_col c)))
                           (map (rename_meas ren) ms))
  = map BenchTab.m_v (filter (BenchTab.m_is (N.of_nat t) (N.of_nat r) (N.of_nat c)) ms).
Proof.
  intros It Ir Ic Ht Hr Hc. induction 1 as [|m ms [Rt [Rr Rc]] _ IH]; [reflexivity|]. cbn [map filter].
  assert (E : BenchTab.m_is (N.of_nat (ren pi_table t)) (N.of_nat (ren pi_row r)) (N.of_nat (ren pi_col c)) (rename_meas ren m)
              = BenchTab.m_is (N.of_nat t) (N.of_nat r) (N.of_nat c) m).
  { unfold BenchTab.m_is, rename_meas. cbn [BenchTab.m_t BenchTab.m_r BenchTab.m_c].
    rewrite (eqb_rename _ _ _ _ It Rt Ht), (eqb_rename _ _ _ _ Ir Rr Hr), (eqb_rename _ _ _ _ Ic Rc Hc). reflexivity. }
  rewrite E. destruct (BenchTab.m_is _ _ _ m); cbn [map]; now rewrite IH.
Qed.

Lemma flat_map_eq_by_key {A B K C} (ka : A -> K) (kb : B -> K) (f : A -> list C) (g : B -> list C) :
  forall l1 l2, map ka l1 = map kb l2 ->
  (forall x y, In x l1 -> In y l2 -> ka x = kb y -> f x = g y) -> flat_map f l1 = flat_map g l2.
Proof.
  induction l1 as [|x l1 IH]; intros [|y l2] HE Hfg; try discriminate; [reflexivity|].
  cbn in HE. injection HE as Hxy HE. cbn [flat_map]. f_equal.
  - apply Hfg; cbn; auto.
  - apply IH; auto. intros x0 y0 H1 H2. apply Hfg; cbn; auto.
Qed.

Lemma flat_map_filter_nonnil {A C} (f : A -> list C) l :
  flat_map f (filter (fun x => negb (is_nil (f x))) l) = flat_map f l.
Proof.
  induction l as [|x l IH]; [reflexivity|]. cbn [filter flat_map].
  destruct (f x) as [|y ys] eqn:E; cbn [is_nil negb]; [exact IH|]. cbn [flat_map]. now rewrite E, IH.
Qed.

(** * what a result record says: name, file configuration in scope, values
    (not where it stands: file name and line number) *)
Definition content (r : Reader.result) : bytes * list cfg * list Units.value :=
  (Reader.r_name r, Reader.r_cfg r, Reader.r_vals r).

Definition results_of (recs : list Reader.record) : list Reader.result :=
  flat_map (fun rec => match rec with Reader.RRes r => [r] | _ => [] end) recs.

Definition of_content (x : bytes * list cfg * list Units.value) : Reader.result :=
  Reader.mkResult (snd (fst x)) (fst (fst x)) 0%Z (snd x) [] 0%Z.

Section PipelinePerm.
Variables is_space is_lower is_upper : N -> bool.
Variable atoi : bytes -> option Z.
Variable parse_float : bytes -> option b64.
Variable re_ok : bytes -> bool.
Variable rematch : bytes -> bytes -> bool.

Notation run_facts := (run_facts is_space is_lower is_upper atoi parse_float re_ok rematch).
Notation spec_keep_record := (spec_keep_record rematch).
Notation spec_kept_vals := (spec_kept_vals rematch).

(** * from the records to the kept results *)
Definition kept_content (c : compiled) (x : bytes * list cfg * list Units.value) : list (result * list b64) :=
  match spec_kept_vals c (of_content x) with
  | [] => []
  | vs => [kc (kept_of (of_content x) vs)]
  end.

Lemma kept_by_content c recs :
  map kc (keep_records spec_keep_record c recs) = flat_map (kept_content c) (map content (results_of recs)).
Proof.
  induction recs as [|rec recs IH]; [reflexivity|]. cbn [keep_records].
  destruct rec as [r|u|f l k]; cbn [Pipeline.spec_keep_record]; auto.
  change (results_of (Reader.RRes r :: recs)) with (r :: results_of recs). cbn [map flat_map].
  unfold kept_content at 1.
  change (spec_kept_vals c (of_content (content r))) with (spec_kept_vals c r).
  destruct (spec_kept_vals c r) as [|v vs]; [exact IH|]. cbn [map app]. f_equal. exact IH.
Qed.

(** records that are permutations of each other content-wise give kept
    results that are *)
Lemma kept_perm c recs recs' :
  Permutation (map content (results_of recs)) (map content (results_of recs')) ->
  Permutation (map kc (keep_records spec_keep_record c recs)) (map kc (keep_records spec_keep_record c recs')).
Proof. intros H. rewrite !kept_by_content. now apply Permutation_flat_map. Qed.

(** every tuple carries Keys of the run *)
Lemma assigned_in_range fl files o assign i k a :
  run_facts fl files o assign -> nth_error (o_kept o) i = Some k -> nth_error assign i = Some a ->
  a_row a < nkeys o pi_row /\ a_col a < nkeys o pi_col /\ Forall (fun t => t < nkeys o pi_table) (a_tables a).
Proof.
  intros F Hk Ha. split; [|split].
  - destruct (key_meaning _ _ _ _ _ _ _ fl files o assign i k a pi_row (a_row a) F Hk Ha ltac:(cbn; auto))
      as [pF [HpF [L _]]]. now rewrite (nkeys_of _ _ _ HpF).
  - destruct (key_meaning _ _ _ _ _ _ _ fl files o assign i k a pi_col (a_col a) F Hk Ha ltac:(cbn; auto))
      as [pF [HpF [L _]]]. now rewrite (nkeys_of _ _ _ HpF).
  - destruct (table_key_meaning _ _ _ _ _ _ _ fl files o assign i k a F Hk Ha) as [pF [u [HpF [_ [_ [FF _]]]]]].
    rewrite (nkeys_of _ _ _ HpF). clear -FF. induction FF as [|t un ts uns [L _] _ IH]; constructor; auto.
Qed.

Lemma meas_of_in_range o ts r c res vals :
  r < nkeys o pi_row -> c < nkeys o pi_col -> Forall (fun t => t < nkeys o pi_table) ts ->
  Forall (meas_in_range o) (meas_of ts r c res vals).
Proof.
  intros Hr Hc Ht. unfold meas_of. apply Forall_forall. intros m Hm.
  apply in_map_iff in Hm as [[t v] [<- Hin]]. apply in_combine_l in Hin. rewrite Forall_forall in Ht.
  unfold meas_in_range, mk_meas. cbn [BenchTab.m_t BenchTab.m_r BenchTab.m_c fst snd]. rewrite !Nat2N.id. auto.
Qed.

Lemma tuples_in_range fl files o assign :
  run_facts fl files o assign -> Forall (meas_in_range o) (o_tuples o).
Proof.
  intros F. rewrite (rf_tuples _ _ _ _ _ _ _ _ _ _ _ F). unfold tuples_spec. apply Forall_forall. intros m Hm.
  apply in_flat_map in Hm as [[k a] [Hka Hm]]. cbn [fst snd] in Hm.
  apply In_nth_error in Hka as [i Hi]. apply combine_nth_error in Hi as [Hk Ha].
  destruct (assigned_in_range fl files o assign i k a F Hk Ha) as [Hr [Hc Ht]].
  pose proof (meas_of_in_range o _ _ _ (a_res a) (k_vals k) Hr Hc Ht) as FA. rewrite Forall_forall in FA. auto.
Qed.

(** * the Keys a kept result received, as calls of the stream *)
Lemma handed_of_assignment ks assign i k a pi key :
  nth_error ks i = Some k -> nth_error assign i = Some a ->
  In (pi, key) [(pi_row, a_row a); (pi_col, a_col a); (pi_residue, a_res a)] ->
  handed_plain (flat_map add_ops ks) (flat_map outs_of assign) pi (k_res k) key.
Proof.
  intros Hk Ha Hin. destruct a as [[[ts r] c] res]. cbn [a_row a_col a_res fst snd] in Hin.
  destruct Hin as [H|[H|[H|[]]]]; injection H as <- <-.
  - exists (4 * i + 1). rewrite (add_ops_at _ _ _ 1 Hk), (outs_of_at _ _ _ 1 Ha) by lia. auto.
  - exists (4 * i + 2). rewrite (add_ops_at _ _ _ 2 Hk), (outs_of_at _ _ _ 2 Ha) by lia. auto.
  - exists (4 * i + 3). rewrite (add_ops_at _ _ _ 3 Hk), (outs_of_at _ _ _ 3 Ha) by lia. auto.
Qed.

Lemma handed_of_table ks assign i k a j t un :
  nth_error ks i = Some k -> nth_error assign i = Some a ->
  nth_error (a_tables a) j = Some t -> nth_error (r_units (k_res k)) j = Some un ->
  handed_unit (flat_map add_ops ks) (flat_map outs_of assign) pi_table (k_res k, un) t.
Proof.
  intros Hk Ha Ht Hun. exists (4 * i + 0), (a_tables a), j. cbn [fst snd].
  rewrite (add_ops_at _ _ _ 0 Hk), (outs_of_at _ _ _ 0 Ha) by lia.
  destruct a as [[[ts r] c] res]. auto.
Qed.

Section TwoRuns.
Variables fl fl' : flags.
Variables files files' : list (bytes * bytes).
Variables o o' : run_out.
Variables assign assign' : list assignment.
Hypothesis F : run_facts fl files o assign.
Hypothesis F' : run_facts fl' files' o' assign'.
Hypothesis same_flags : o_compiled o = o_compiled o'.
Hypothesis HP : Permutation (map kc (o_kept o)) (map kc (o_kept o')).

Let calls := calls_of (o_compiled o).
Let w0 := fst (run_ops new_world (parse_ops calls ++ [OpResidue])).
Let opsA := flat_map add_ops (o_kept o).
Let opsB := flat_map add_ops (o_kept o').

Lemma calls_ok : Forall call_ok calls.
Proof. apply (rf_calls _ _ _ _ _ _ _ _ _ _ _ F). Qed.

Lemma streamA : run_ops w0 opsA = (o_world o, flat_map outs_of assign).
Proof. pose proof (rf_stream _ _ _ _ _ _ _ _ _ _ _ F) as ES. now rewrite setup_ops_calls in ES. Qed.

Lemma streamB : run_ops w0 opsB = (o_world o', flat_map outs_of assign').
Proof.
  pose proof (rf_stream _ _ _ _ _ _ _ _ _ _ _ F') as ES. rewrite setup_ops_calls in ES.
  unfold w0, calls. now rewrite same_flags.
Qed.

Lemma wfA : Forall op_wf opsA.
Proof. apply add_ops_wf, (rf_kept_wf _ _ _ _ _ _ _ _ _ _ _ F). Qed.
Lemma wfB : Forall op_wf opsB.
Proof. apply add_ops_wf, (rf_kept_wf _ _ _ _ _ _ _ _ _ _ _ F'). Qed.

Lemma w0_len : length (w_projs w0) = 5.
Proof. destruct (after_parsing calls calls_ok) as [_ [L _]]. exact L. Qed.

Lemma sameP pi r : In (OpProject pi r) opsA <-> In (OpProject pi r) opsB.
Proof. unfold opsA, opsB. rewrite !in_add_ops_project, (perm_kres _ _ HP r). reflexivity. Qed.

Lemma sameV pi r : In (OpProjectValues pi r) opsA <-> In (OpProjectValues pi r) opsB.
Proof. unfold opsA, opsB. rewrite !in_add_ops_values, (perm_kres _ _ HP r). reflexivity. Qed.

(** the row, column and residue Keys of the two runs are renamings of each other *)
Lemma plain_proj_renaming pi : In pi [pi_row; pi_col; pi_residue] ->
  exists pF pF' phi psi,
    nth_error (w_projs (o_world o)) pi = Some pF /\ nth_error (w_projs (o_world o')) pi = Some pF' /\
    key_renaming pF pF' phi psi /\
    (forall r k k', handed_plain opsA (flat_map outs_of assign) pi r k ->
                    handed_plain opsB (flat_map outs_of assign') pi r k' -> k' = phi k /\ k = psi k').
Proof.
  intros Hpi.
  destruct (nth_error (w_projs w0) pi) as [p0|] eqn:Hp0.
  2:{ apply nth_error_None in Hp0. rewrite w0_len in Hp0. unfold pi_row, pi_col, pi_residue in Hpi.
      destruct Hpi as [<-|[<-|[<-|[]]]]; lia. }
  pose proof (plain_renaming calls calls_ok opsA opsB (add_ops_proj_only _) (add_ops_proj_only _) wfA wfB
                pi p0 Hp0 (sameP pi) (sameV pi)) as R.
  fold w0 in R. rewrite streamA, streamB in R. cbn [fst snd] in R. apply R.
  intros r Hin. apply in_add_ops_values in Hin as [-> _].
  unfold pi_row, pi_col, pi_residue, pi_table in Hpi. destruct Hpi as [H|[H|[H|[]]]]; discriminate.
Qed.

(** ... and so are the table Keys *)
Lemma table_proj_renaming :
  exists pF pF' phi psi,
    nth_error (w_projs (o_world o)) pi_table = Some pF /\ nth_error (w_projs (o_world o')) pi_table = Some pF' /\
    key_renaming pF pF' phi psi /\
    (forall x k k', handed_unit opsA (flat_map outs_of assign) pi_table x k ->
                    handed_unit opsB (flat_map outs_of assign') pi_table x k' -> k' = phi k /\ k = psi k').
Proof.
  destruct (nth_error (w_projs w0) pi_table) as [p0|] eqn:Hp0.
  2:{ apply nth_error_None in Hp0. rewrite w0_len in Hp0. unfold pi_table in Hp0. lia. }
  pose proof (after_parsing_units calls calls_ok pi_table p0 Hp0) as Sh.
  change (unit_shape true p0) in Sh. cbn [unit_shape] in Sh. destruct Sh as [u [fu [HU _]]].
  pose proof (unit_renaming calls calls_ok opsA opsB (add_ops_proj_only _) (add_ops_proj_only _) wfA wfB
                pi_table p0 Hp0 (sameP pi_table) (sameV pi_table) u HU) as R.
  fold w0 in R. rewrite streamA, streamB in R. cbn [fst snd] in R. apply R.
  intros r Hin. apply in_add_ops_project in Hin as [[H|[H|H]] _]; discriminate.
Qed.

Lemma assign_len : length assign = length (o_kept o).
Proof. symmetry. eapply Forall2_length_eq. apply (rf_assign _ _ _ _ _ _ _ _ _ _ _ F). Qed.
Lemma assign_len' : length assign' = length (o_kept o').
Proof. symmetry. eapply Forall2_length_eq. apply (rf_assign _ _ _ _ _ _ _ _ _ _ _ F'). Qed.

(** ** the theorem: tuples up to renaming *)
Theorem line_perm_renaming :
  exists ren inv : nat -> nat -> nat,
    (forall pi, In pi [pi_table; pi_row; pi_col; pi_residue] ->
       exists pF pF', nth_error (w_projs (o_world o)) pi = Some pF /\
                      nth_error (w_projs (o_world o')) pi = Some pF' /\
                      key_renaming pF pF' (ren pi) (inv pi)) /\
    (forall i i' k a k' a', nth_error (o_kept o) i = Some k -> nth_error assign i = Some a ->
       nth_error (o_kept o') i' = Some k' -> nth_error assign' i' = Some a' ->
       kc k = kc k' -> a' = rename_assign ren a) /\
    Permutation (map (rename_meas ren) (o_tuples o)) (o_tuples o').
Proof.
  destruct table_proj_renaming as [pT [pT' [phT [psT [HT [HT' [KT TT]]]]]]].
  destruct (plain_proj_renaming pi_row ltac:(cbn; auto)) as [pR [pR' [phR [psR [HR [HR' [KR TR]]]]]]].
  destruct (plain_proj_renaming pi_col ltac:(cbn; auto)) as [pC [pC' [phC [psC [HC [HC' [KC TC]]]]]]].
  destruct (plain_proj_renaming pi_residue ltac:(cbn; auto)) as [pS [pS' [phS [psS [HS [HS' [KS TS]]]]]]].
  set (ren := fun pi : nat => match pi with 0 => phT | 1 => phR | 2 => phC | _ => phS end).
  set (inv := fun pi : nat => match pi with 0 => psT | 1 => psR | 2 => psC | _ => psS end).
  assert (Pair : forall i i' k a k' a', nth_error (o_kept o) i = Some k -> nth_error assign i = Some a ->
            nth_error (o_kept o') i' = Some k' -> nth_error assign' i' = Some a' ->
            kc k = kc k' -> a' = rename_assign ren a).
  { intros i i' k a k' a' Hk Ha Hk' Ha' Hkc. unfold kc in Hkc. injection Hkc as Hres Hvals.
    assert (Hrow : a_row a' = phR (a_row a)).
    { apply (TR (k_res k) (a_row a) (a_row a')).
      - eapply handed_of_assignment; eauto. cbn; auto.
      - rewrite Hres. eapply handed_of_assignment; eauto. cbn; auto. }
    assert (Hcol : a_col a' = phC (a_col a)).
    { apply (TC (k_res k) (a_col a) (a_col a')).
      - eapply handed_of_assignment; eauto. cbn; auto.
      - rewrite Hres. eapply handed_of_assignment; eauto. cbn; auto. }
    assert (Hrs : a_res a' = phS (a_res a)).
    { apply (TS (k_res k) (a_res a) (a_res a')).
      - eapply handed_of_assignment; eauto. cbn; auto.
      - rewrite Hres. eapply handed_of_assignment; eauto. cbn; auto. }
    assert (La : length (a_tables a) = length (k_vals k)).
    { destruct (Forall2_nth_error _ _ _ (rf_assign _ _ _ _ _ _ _ _ _ _ _ F) i k Hk) as [a0 [Ha0 L]]. congruence. }
    assert (La' : length (a_tables a') = length (k_vals k')).
    { destruct (Forall2_nth_error _ _ _ (rf_assign _ _ _ _ _ _ _ _ _ _ _ F') i' k' Hk') as [a0 [Ha0 L]]. congruence. }
    assert (Lu : length (r_units (k_res k)) = length (k_vals k)).
    { pose proof (rf_kept_wf _ _ _ _ _ _ _ _ _ _ _ F) as W. rewrite Forall_forall in W.
      apply (W k). eapply nth_error_In; eauto. }
    assert (Htab : a_tables a' = map phT (a_tables a)).
    { apply nth_error_ext_eq; [rewrite map_length; congruence|].
      intros j t' x Ht' Hx. rewrite nth_error_map in Hx.
      destruct (nth_error (a_tables a) j) as [t|] eqn:Ht; [|discriminate]. injection Hx as <-.
      destruct (nth_error (r_units (k_res k)) j) as [un|] eqn:Hun.
      2:{ apply nth_error_None in Hun. apply nth_lt in Ht. lia. }
      apply (TT (k_res k, un) t t').
      - eapply handed_of_table; eauto.
      - rewrite Hres in *. eapply handed_of_table; eauto. }
    destruct a' as [[[ts' r'] c'] res']. cbn [a_tables a_row a_col a_res fst snd] in *. subst.
    reflexivity. }
  exists ren, inv. split; [|split; [exact Pair|]].
  - intros pi [<-|[<-|[<-|[<-|[]]]]]; cbn [ren inv pi_table pi_row pi_col pi_residue]; eauto 6.
  - rewrite (rf_tuples _ _ _ _ _ _ _ _ _ _ _ F), (rf_tuples _ _ _ _ _ _ _ _ _ _ _ F').
    unfold tuples_spec. rewrite map_flat_map.
    apply (perm_flat_map_by_key (fun ka => kc (fst ka)) (fun ka => kc (fst ka))).
    + rewrite <- !(map_map fst kc), !map_fst_combine by (symmetry; first [apply assign_len|apply assign_len']). exact HP.
    + intros [k a] [k' a'] Hin Hin' Hkc. cbn [fst snd] in *.
      apply In_nth_error in Hin as [i Hi]. apply In_nth_error in Hin' as [i' Hi'].
      apply combine_nth_error in Hi as [Hk Ha]. apply combine_nth_error in Hi' as [Hk' Ha'].
      rewrite (Pair i i' k a k' a' Hk Ha Hk' Ha' Hkc). rewrite meas_of_rename.
      unfold rename_assign. cbn [a_tables a_row a_col a_res fst snd].
      unfold kc in Hkc. injection Hkc as _ ->. reflexivity.
Qed.

(** ** the cells: equal as multisets, cell by cell, under the renaming *)
Theorem line_perm_cells :
  exists ren inv : nat -> nat -> nat,
    (forall pi, In pi [pi_table; pi_row; pi_col; pi_residue] ->
       exists pF pF', nth_error (w_projs (o_world o)) pi = Some pF /\
                      nth_error (w_projs (o_world o')) pi = Some pF' /\
                      key_renaming pF pF' (ren pi) (inv pi)) /\
    (forall t r c, t < nkeys o pi_table -> r < nkeys o pi_row -> c < nkeys o pi_col ->
       Permutation (BenchTab.lookup_vals (BenchTab.build (o_tuples o)) (N.of_nat t) (N.of_nat r) (N.of_nat c))
                   (BenchTab.lookup_vals (BenchTab.build (o_tuples o'))
                      (N.of_nat (ren pi_table t)) (N.of_nat (ren pi_row r)) (N.of_nat (ren pi_col c)))) /\
    (forall t r c, t < nkeys o pi_table -> r < nkeys o pi_row -> c < nkeys o pi_col ->
       let sel := fun ka => negb (is_nil (contrib (N.of_nat t) (N.of_nat r) (N.of_nat c) ka)) in
       let sel' := fun ka => negb (is_nil (contrib (N.of_nat (ren pi_table t)) (N.of_nat (ren pi_row r))
                                                    (N.of_nat (ren pi_col c)) ka)) in
       map (fun ka => kc (fst ka)) (filter sel (combine (o_kept o) assign))
       = map (fun ka => kc (fst ka)) (filter sel' (combine (o_kept o') assign')) ->
       BenchTab.lookup_vals (BenchTab.build (o_tuples o)) (N.of_nat t) (N.of_nat r) (N.of_nat c)
       = BenchTab.lookup_vals (BenchTab.build (o_tuples o'))
           (N.of_nat (ren pi_table t)) (N.of_nat (ren pi_row r)) (N.of_nat (ren pi_col c))).
Proof.
  destruct line_perm_renaming as [ren [inv [KR [Pair PT]]]].
  assert (Inj : forall pi, In pi [pi_table; pi_row; pi_col; pi_residue] -> inj_on (nkeys o pi) (ren pi)).
  { intros pi Hpi. destruct (KR pi Hpi) as [pF [pF' [HpF [_ K]]]]. rewrite (nkeys_of _ _ _ HpF).
    eapply key_renaming_inj; eauto. }
  assert (It := Inj pi_table ltac:(cbn; auto)). assert (Ir := Inj pi_row ltac:(cbn; auto)).
  assert (Ic := Inj pi_col ltac:(cbn; auto)).
  exists ren, inv. split; [exact KR|]. split.
  - intros t r c Ht Hr Hc.
    eapply Permutation_trans;
      [|apply (Proofs.BenchTab.line_perm_cell_invariant _ _ _ _ _ PT)].
    rewrite !Proofs.BenchTab.cell_sample_exact.
    rewrite (filter_rename o ren t r c (o_tuples o) It Ir Ic Ht Hr Hc (tuples_in_range _ _ _ _ F)). reflexivity.
  - intros t r c Ht Hr Hc sel sel' HE.
    rewrite (cell_exact _ _ _ _ _ _ _ _ _ _ _ _ _ _ F), (cell_exact _ _ _ _ _ _ _ _ _ _ _ _ _ _ F').
    rewrite <- (flat_map_filter_nonnil (contrib (N.of_nat t) (N.of_nat r) (N.of_nat c)) (combine (o_kept o) assign)).
    rewrite <- (flat_map_filter_nonnil (contrib (N.of_nat (ren pi_table t)) (N.of_nat (ren pi_row r)) (N.of_nat (ren pi_col c)))
                  (combine (o_kept o') assign')).
    apply (flat_map_eq_by_key (fun ka => kc (fst ka)) (fun ka => kc (fst ka))); [exact HE|].
    intros [k a] [k' a'] Hin Hin' Hkc. cbn [fst] in Hkc.
    apply filter_In in Hin as [Hin _]. apply filter_In in Hin' as [Hin' _].
    apply In_nth_error in Hin as [i Hi]. apply In_nth_error in Hin' as [i' Hi'].
    apply combine_nth_error in Hi as [Hk Ha]. apply combine_nth_error in Hi' as [Hk' Ha'].
    rewrite (Pair i i' k a k' a' Hk Ha Hk' Ha' Hkc).
    assert (Hv : k_vals k' = k_vals k) by (unfold kc in Hkc; now injection Hkc).
    unfold contrib at 1 2. unfold rename_assign. cbn [a_tables a_row a_col a_res fst snd]. rewrite Hv.
    rewrite <- (meas_of_cell _ _ _ (a_tables a) (a_row a) (a_col a) (a_res a) (k_vals k)).
    rewrite <- (meas_of_cell _ _ _ (map (ren pi_table) (a_tables a)) (ren pi_row (a_row a)) (ren pi_col (a_col a))
                  (ren pi_residue (a_res a)) (k_vals k)).
    rewrite <- meas_of_rename. symmetry.
    destruct (assigned_in_range fl files o assign i k a F Hk Ha) as [Rr [Rc Rt]].
    apply (filter_rename o ren t r c _ It Ir Ic Ht Hr Hc). now apply meas_of_in_range.
Qed.

End TwoRuns.

(** * from the records the files deliver *)
(** Two successful runs with the same (compiled) flags whose result records
    say the same things in a different order - [content]: name, file
    configuration in scope, values with their tidied units; the position of a
    record (file, line) does not count, nor do unit-metadata and syntax-error
    records - have the same cells up to the renaming of Keys. *)
Theorem line_perm_records fl files fl' files' o o' assign assign' :
  run_facts fl files o assign -> run_facts fl' files' o' assign' ->
  o_compiled o = o_compiled o' ->
  Permutation (map content (results_of (o_records o))) (map content (results_of (o_records o'))) ->
  exists ren inv : nat -> nat -> nat,
    (forall pi, In pi [pi_table; pi_row; pi_col; pi_residue] ->
       exists pF pF', nth_error (w_projs (o_world o)) pi = Some pF /\
                      nth_error (w_projs (o_world o')) pi = Some pF' /\
                      key_renaming pF pF' (ren pi) (inv pi)) /\
    Permutation (map (rename_meas ren) (o_tuples o)) (o_tuples o') /\
    (forall t r c, t < nkeys o pi_table -> r < nkeys o pi_row -> c < nkeys o pi_col ->
       Permutation (BenchTab.lookup_vals (BenchTab.build (o_tuples o)) (N.of_nat t) (N.of_nat r) (N.of_nat c))
                   (BenchTab.lookup_vals (BenchTab.build (o_tuples o'))
                      (N.of_nat (ren pi_table t)) (N.of_nat (ren pi_row r)) (N.of_nat (ren pi_col c)))).
Proof.
  intros F F' Hc HR.
  assert (HP : Permutation (map kc (o_kept o)) (map kc (o_kept o'))).
  { rewrite (rf_kept _ _ _ _ _ _ _ _ _ _ _ F), (rf_kept _ _ _ _ _ _ _ _ _ _ _ F'), <- Hc. now apply kept_perm. }
  destruct (line_perm_renaming fl fl' files files' o o' assign assign' F F' Hc HP) as [ren [inv [KR [Pair PT]]]].
  exists ren, inv. split; [exact KR|]. split; [exact PT|].
  intros t r c Ht Hr Hc'.
  assert (Inj : forall pi, In pi [pi_table; pi_row; pi_col; pi_residue] -> inj_on (nkeys o pi) (ren pi)).
  { intros pi Hpi. destruct (KR pi Hpi) as [pF [pF' [HpF [_ K]]]]. rewrite (nkeys_of _ _ _ HpF).
    eapply key_renaming_inj; eauto. }
  eapply Permutation_trans; [|apply (Proofs.BenchTab.line_perm_cell_invariant _ _ _ _ _ PT)].
  rewrite !Proofs.BenchTab.cell_sample_exact.
  rewrite (filter_rename o ren t r c (o_tuples o) (Inj pi_table ltac:(cbn; auto)) (Inj pi_row ltac:(cbn; auto))
             (Inj pi_col ltac:(cbn; auto)) Ht Hr Hc' (tuples_in_range _ _ _ _ F)). reflexivity.
Qed.

End PipelinePerm.
