(** ClassOf: the tokenising parser of benchunit/parse.go ([class_of]) decides
    exactly the one-pass scan with the three spellings B, MB, bytes
    ([narrow_class]); the property's [spec_class] (every spelling of bytes:
    prefixed symbols, the word) is the same scan with more tokens, so ClassOf
    is sound for it (Binary only if bytes are in the numerator), complete on
    units without the other spellings, and refuted on "KiB/s" (known finding
    C10_classof_byte_spellings). *)
From Coq Require Import ZArith Lia Bool List.
From Perf Require Import Base.Bytes Base.B64 Base.FmtFixed Model.Scale Model.ScaleSpec.
Import ListNotations.


(** Binary iff some numerator token is B, MB or bytes (tokens as the parser yields them) *)
Theorem class_binary_iff u :
  class_of u = Binary <->
  exists t, In (t, false) (unit_tokens (S (length u)) u false)
            /\ (t = bs "B" \/ t = bs "MB" \/ t = bs "bytes").
Proof.
  unfold class_of.
  destruct (existsb _ _) eqn:E.
  - split; [intros _|reflexivity].
    apply existsb_exists in E. destruct E as (x & Hin & Hh). destruct x as (t, d).
    apply andb_true_iff in Hh as [Ht Hd]. apply negb_true_iff in Hd. subst d.
    exists t. split; [exact Hin|].
    unfold is_bytes_tok in Ht. rewrite !orb_true_iff, !beq_eq in Ht. tauto.
  - split; [discriminate|]. intros (t & Hin & Ht). exfalso.
    assert (existsb (fun '(t, d) => is_bytes_tok t && negb d) (unit_tokens (S (length u)) u false) = true).
    { apply existsb_exists. exists (t, false). split; [exact Hin|].
      unfold is_bytes_tok. destruct Ht as [ -> | [ -> | -> ] ]; reflexivity. }
    congruence.
Qed.

(** ** agreement of the token stream with the one-pass scan, for any set of
    byte tokens that does not contain the empty token *)

Lemma sep_at_shorter s k r : sep_at s = Some (k, r) -> (length r < length s)%nat.
Proof.
  destruct s as [|c s]; [discriminate|]. unfold sep_at.
  repeat match goal with
         | |- context [if ?b then _ else _] => destruct b
         | |- context [match ?l with [] => _ | _ :: _ => _ end] => destruct l
         end; try discriminate; intros [= <- <-]; cbn [length]; lia.
Qed.

(** the token at the head of [s] and what follows it *)
Fixpoint split_tok (s : bytes) : bytes * bytes :=
  match s with
  | [] => ([], [])
  | c :: r =>
      match sep_at s with
      | Some _ => ([], s)
      | None => let '(t, r') := split_tok r in (c :: t, r')
      end
  end.

Lemma split_tok_length s : (length (snd (split_tok s)) <= length s)%nat.
Proof.
  induction s as [|c r IH]; [cbn; lia|].
  cbn [split_tok]. destruct (sep_at (c :: r)); [cbn; lia|].
  destruct (split_tok r) as [t r']. cbn [snd length] in *. lia.
Qed.

Lemma take_tok_split s : forall fuel acc, (length s <= fuel)%nat ->
  take_tok fuel s acc = (rev acc ++ fst (split_tok s), snd (split_tok s)).
Proof.
  induction s as [|c r IH]; intros fuel acc Hf.
  - destruct fuel; cbn; now rewrite app_nil_r.
  - destruct fuel as [|f]; [cbn in Hf; lia|].
    cbn [take_tok split_tok]. destruct (sep_at (c :: r)) as [p|].
    + cbn. now rewrite app_nil_r.
    + rewrite IH by (cbn in Hf; lia). destruct (split_tok r) as [t r']. cbn [fst snd rev].
      now rewrite <- app_assoc.
Qed.

Lemma unit_tokens_fuel n : forall s f1 f2 d,
  (length s <= n)%nat -> (length s < f1)%nat -> (length s < f2)%nat ->
  unit_tokens f1 s d = unit_tokens f2 s d.
Proof.
  induction n as [|n IH]; intros s f1 f2 d Hn H1 H2.
  - destruct s; [|cbn in Hn; lia]. destruct f1, f2; reflexivity.
  - destruct f1 as [|f1]; [lia|]. destruct f2 as [|f2]; [lia|].
    destruct s as [|c r]; [reflexivity|].
    cbn [unit_tokens]. destruct (sep_at (c :: r)) as [[k r']|] eqn:E.
    + apply sep_at_shorter in E. cbn [length] in *.
      destruct k; apply IH; lia.
    + rewrite take_tok_split by lia.
      pose proof (split_tok_length (c :: r)) as L.
      assert (L' : (length (snd (split_tok (c :: r))) < length (c :: r))%nat).
      { cbn [split_tok]. rewrite E. destruct (split_tok r) as [t r''] eqn:Er. cbn [snd].
        pose proof (split_tok_length r) as Lr. rewrite Er in Lr. cbn [snd length] in *. lia. }
      f_equal. apply IH; cbn [length] in *; lia.
Qed.

Section Scan.
Variable P : bytes -> bool.
Hypothesis P_nil : P [] = false.

Definition hit (t : bytes) (d : bool) : bool := P t && negb d.
Definition hit_pair (x : bytes * bool) : bool := let '(t, d) := x in P t && negb d.

Definition T (s : bytes) (d : bool) : bool := existsb hit_pair (unit_tokens (S (length s)) s d).

Lemma T_unfold s d : T s d = hit (fst (split_tok s)) d || T (snd (split_tok s)) d.
Proof.
  destruct s as [|c r]; [unfold T, hit; cbn; now rewrite P_nil|].
  unfold T at 1. cbn [unit_tokens split_tok]. destruct (sep_at (c :: r)) as [[k r']|] eqn:E.
  - cbn [fst snd]. unfold hit. rewrite P_nil. cbn [andb orb].
    unfold T. cbn [unit_tokens]. rewrite E. reflexivity.
  - rewrite take_tok_split by lia. cbn [split_tok]. rewrite E.
    destruct (split_tok r) as [t r''] eqn:Er. cbn [fst snd rev app existsb hit_pair].
    unfold hit. f_equal. unfold T.
    pose proof (split_tok_length r) as Lr. rewrite Er in Lr. cbn [snd] in Lr.
    f_equal. apply (unit_tokens_fuel (length r'')); cbn [length]; lia.
Qed.

Lemma T_sep s d k r : sep_at s = Some (k, r) ->
  T s d = T r (match k with SepStar => false | SepSlash => true | SepOther => d end).
Proof.
  intros E. pose proof (sep_at_shorter _ _ _ E) as L.
  destruct s as [|c s']; [discriminate|].
  unfold T at 1. cbn [unit_tokens]. rewrite E. unfold T.
  destruct k; f_equal; apply (unit_tokens_fuel (length r)); cbn [length] in *; lia.
Qed.

Lemma scan_spec n : forall s fuel tok d,
  (length s <= n)%nat -> (length s < fuel)%nat ->
  class_scan P fuel s tok d = hit (rev tok ++ fst (split_tok s)) d || T (snd (split_tok s)) d.
Proof.
  induction n as [|n IH]; intros s fuel tok d Hn Hf.
  - destruct s; [|cbn in Hn; lia]. destruct fuel; cbn [class_scan split_tok fst snd];
      rewrite app_nil_r; unfold hit, T; cbn; now rewrite orb_false_r.
  - destruct fuel as [|f]; [lia|]. destruct s as [|c r].
    + cbn [class_scan split_tok fst snd]. rewrite app_nil_r. unfold hit, T. cbn. now rewrite orb_false_r.
    + cbn [class_scan split_tok]. destruct (sep_at (c :: r)) as [[k r']|] eqn:E.
      * cbn [fst snd]. rewrite app_nil_r. fold (hit (rev tok) d). f_equal.
        pose proof (sep_at_shorter _ _ _ E) as L. cbn [length] in *.
        rewrite (T_sep _ d k r' E).
        rewrite IH by lia. cbn [rev app]. symmetry. apply T_unfold.
      * cbn [length] in *. rewrite IH by lia.
        destruct (split_tok r) as [t r''] eqn:Er. cbn [fst snd rev].
        now rewrite <- app_assoc.
Qed.

(** the one-pass scan is "some numerator token of the parser's stream is a byte token" *)
Lemma class_by_tokens u :
  class_by P u = if existsb hit_pair (unit_tokens (S (length u)) u false) then Binary else Decimal.
Proof.
  unfold class_by. change (existsb hit_pair (unit_tokens (S (length u)) u false)) with (T u false).
  rewrite (scan_spec (length u)) by lia. cbn [rev app]. now rewrite <- T_unfold.
Qed.

Theorem class_by_binary_iff u :
  class_by P u = Binary <->
  exists t, In (t, false) (unit_tokens (S (length u)) u false) /\ P t = true.
Proof.
  rewrite class_by_tokens. destruct (existsb _ _) eqn:E.
  - split; [intros _|reflexivity].
    apply existsb_exists in E. destruct E as ((t, d) & Hin & Hh).
    apply andb_true_iff in Hh as [Ht Hd]. apply negb_true_iff in Hd. subst d. now exists t.
  - split; [discriminate|]. intros (t & Hin & Ht). exfalso.
    assert (X : existsb hit_pair (unit_tokens (S (length u)) u false) = true).
    { apply existsb_exists. exists (t, false). split; [exact Hin|]. cbn. now rewrite Ht. }
    congruence.
Qed.
End Scan.

(** ClassOf is the scan with the code's three spellings *)
Theorem class_of_narrow u : class_of u = narrow_class u.
Proof.
  unfold narrow_class. rewrite class_by_tokens by reflexivity. reflexivity.
Qed.

(** the property's scan, on the parser's token stream *)
Theorem spec_class_binary_iff u :
  spec_class u = Binary <->
  exists t, In (t, false) (unit_tokens (S (length u)) u false) /\ spec_bytes_tok t = true.
Proof. apply class_by_binary_iff. reflexivity. Qed.

Lemma narrow_tok_is_spec_tok t : is_bytes_tok t = true -> spec_bytes_tok t = true.
Proof.
  unfold is_bytes_tok. rewrite !orb_true_iff, !beq_eq. intros [[ -> | -> ] | -> ]; reflexivity.
Qed.

(** soundness: ClassOf says Binary only when bytes are in the numerator *)
Theorem class_of_sound u : class_of u = Binary -> spec_class u = Binary.
Proof.
  rewrite class_of_narrow. unfold narrow_class.
  rewrite (class_by_binary_iff is_bytes_tok eq_refl), spec_class_binary_iff.
  intros (t & Hin & Ht). exists t. auto using narrow_tok_is_spec_tok.
Qed.

(** completeness where every byte token in the numerator is spelled B, MB or bytes *)
Theorem class_of_complete_on u :
  (forall t, In (t, false) (unit_tokens (S (length u)) u false) -> spec_bytes_tok t = true -> is_bytes_tok t = true) ->
  class_of u = spec_class u.
Proof.
  intros H. destruct (spec_class u) eqn:E.
  - destruct (class_of u) eqn:F; [reflexivity| |].
    + apply class_of_sound in F. congruence.
    + unfold class_of in F. destruct (existsb _ _); discriminate.
  - apply spec_class_binary_iff in E as (t & Hin & Ht).
    rewrite class_of_narrow. unfold narrow_class. apply (class_by_binary_iff is_bytes_tok eq_refl).
    exists t. auto.
  - unfold spec_class, class_by in E. destruct (class_scan _ _ _ _ _); discriminate.
Qed.

(** refuted at full strength: kibibytes per second are bytes in the numerator *)
Theorem class_of_refuted : exists u, spec_class u = Binary /\ class_of u = Decimal.
Proof. exists (bs "KiB/s"). vm_compute. split; reflexivity. Qed.
