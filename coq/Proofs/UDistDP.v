(** untied_dp_correct: the table fill of UDist.p as modelled by [p_counts]
    (Model/UDistImpl.v: one row of the (n, m) plane kept, rows m = 0..M, within a
    row n = 1..min(N, m) from left to right, cell n overwritten in place, the
    mirrored cell memo[m-1] on the diagonal n = m, cells truncated at
    ulim = min(U, n m) with the old contents kept above) computes the
    Mann-Whitney counts c_{n,m}(u) = [cuntied n m u] for ALL n, m, U, u.

    Loop invariant ([tbl], [after]): after row m the memo is
        cell i = [c_{i,m}(0); ..; c_{i,m}(U)]   for i <= m,   all zeros for i > m;
    inside row m, after cell j:  cells 0..j are of row m, the others of row m-1.
    Ingredients: the counting recurrence (mann_whitney_recurrence), c = 0 outside
    0..nm (so the untouched upper part of a cell is right), c_{0,m} = [1;0;..],
    and c_{m-1,m} = c_{m,m-1} for the mirrored cell (cuntied_swap, which rests on
    the symmetry of the untied distribution). *)
From Coq Require Import ZArith List Bool Lia Permutation.
From Perf Require Import Model.UStat Model.UDistSpec Model.UDistImpl Model.UTest.
From Perf Require Import Proofs.UStat Proofs.UDistSpec Proofs.UDistImpl Proofs.UDistSum Proofs.UDistPrune Proofs.UDistUntied Proofs.UDistRev.
Import ListNotations.
Local Open Scope Z_scope.

(** ** the counts with natural-number arguments (indices of the table) *)
Definition cN (n m u : nat) : Z := cuntied (Z.of_nat n) (Z.of_nat m) (Z.of_nat u).

Lemma cN_0 m u : cN 0 m u = if (u =? 0)%nat then 1 else 0.
Proof.
  unfold cN. rewrite cuntied_0_l by lia. destruct (Nat.eqb_spec u 0) as [->|Hu]; [reflexivity|].
  destruct (Z.eqb_spec (Z.of_nat u) 0); [lia | reflexivity].
Qed.

Lemma cN_big n m u : (n * m < u)%nat -> cN n m u = 0.
Proof. intros H. unfold cN. apply cuntied_out; lia. Qed.

Lemma cN_swap n m u : cN n m u = cN m n u.
Proof. unfold cN. apply cuntied_swap; lia. Qed.

Lemma cN_rec n m u : (1 <= n)%nat -> (1 <= m)%nat ->
  cN n m u = (if (u <? m)%nat then 0 else cN (n - 1) m (u - m)) + cN n (m - 1) u.
Proof.
  intros Hn Hm. unfold cN. rewrite (mann_whitney_recurrence (Z.of_nat n) (Z.of_nat m) (Z.of_nat u)) by lia.
  replace (Z.of_nat (n - 1)) with (Z.of_nat n - 1) by lia. replace (Z.of_nat (m - 1)) with (Z.of_nat m - 1) by lia.
  f_equal. destruct (Nat.ltb_spec u m) as [H|H].
  - apply cuntied_out; lia.
  - f_equal. lia.
Qed.

(** ** list facts *)
Lemma nth_padd p : forall q i, nth i (padd p q) 0 = nth i p 0 + nth i q 0.
Proof.
  induction p as [|a p IH]; intros q i; cbn [padd].
  - destruct i; reflexivity.
  - destruct q as [|b q]; [destruct i; cbn [nth]; lia|]. destruct i as [|i]; cbn [nth]; [reflexivity | apply IH].
Qed.

Lemma length_padd p : forall q, length (padd p q) = Nat.max (length p) (length q).
Proof.
  induction p as [|a p IH]; intros q; cbn [padd]; [reflexivity|].
  destruct q as [|b q]; [reflexivity|]. cbn [length]. now rewrite IH.
Qed.

Lemma nth_firstn_lt {A} (l : list A) d : forall L i, (i < L)%nat -> nth i (firstn L l) d = nth i l d.
Proof.
  induction l as [|a l IH]; intros L i Hi; [now rewrite firstn_nil|].
  destruct L as [|L]; [lia|]. cbn [firstn]. destruct i as [|i]; [reflexivity|]. cbn [nth]. apply IH. lia.
Qed.

Lemma nth_skipn_add {A} (l : list A) d : forall k i, nth i (skipn k l) d = nth (k + i) l d.
Proof.
  induction l as [|a l IH]; intros k i.
  - rewrite skipn_nil. destruct i, k; reflexivity.
  - destruct k as [|k]; [reflexivity|]. cbn [skipn Nat.add nth]. apply IH.
Qed.

Lemma nth_repeat_app (m : nat) (lp : list Z) i :
  nth i (repeat 0 m ++ lp) 0 = if (i <? m)%nat then 0 else nth (i - m) lp 0.
Proof.
  destruct (Nat.ltb_spec i m) as [H|H].
  - rewrite app_nth1 by (rewrite repeat_length; exact H). apply nth_repeat.
  - rewrite app_nth2 by (rewrite repeat_length; exact H). now rewrite repeat_length.
Qed.

Lemma nth_shift_in m lp L i : (i < L)%nat ->
  nth i (shift_in m lp L) 0 = if (i <? m)%nat then 0 else nth (i - m) lp 0.
Proof. intros Hi. unfold shift_in. rewrite nth_firstn_lt by exact Hi. apply nth_repeat_app. Qed.

Lemma length_shift_in m lp L : length (shift_in m lp L) = Nat.min L (m + length lp).
Proof. unfold shift_in. now rewrite firstn_length, app_length, repeat_length. Qed.

(** ** cells and tables *)
Section Table.
Variable U : nat.              (* largest statistic asked for; a cell has U + 1 entries *)
Variable N : nat.              (* the table has N + 1 cells *)
Let len := S U.

Definition vec (n m : nat) : list Z := map (cN n m) (seq 0 len).
Definition zeros : list Z := repeat 0 len.
Definition tbl (g : nat -> list Z) : list (list Z) := map g (seq 0 (S N)).

Lemma length_vec n m : length (vec n m) = len.
Proof. unfold vec. now rewrite map_length, seq_length. Qed.

Lemma nth_vec n m i : (i < len)%nat -> nth i (vec n m) 0 = cN n m i.
Proof.
  intros Hi. unfold vec. rewrite (nth_indep _ 0 (cN n m 0)) by (rewrite map_length, seq_length; exact Hi).
  rewrite map_nth, seq_nth by exact Hi. reflexivity.
Qed.

Lemma nth_zeros i : nth i zeros 0 = 0.
Proof. apply nth_repeat. Qed.

Lemma vec_swap n m : vec n m = vec m n.
Proof. unfold vec. apply map_ext. intros u. apply cN_swap. Qed.

Lemma map_zero (f : nat -> Z) l : (forall i, In i l -> f i = 0) -> map f l = repeat 0 (length l).
Proof.
  induction l as [|a l IH]; intros H; [reflexivity|]. cbn [map length repeat].
  rewrite H by now left. f_equal. apply IH. intros i Hi. apply H. now right.
Qed.

Lemma vec_0 m : vec 0 m = 1 :: repeat 0 (len - 1).
Proof.
  unfold vec, len. cbn [seq map]. rewrite cN_0. cbn [Nat.eqb]. f_equal.
  rewrite map_zero, seq_length; [f_equal; lia|].
  intros i Hi. apply in_seq in Hi. rewrite cN_0. destruct (Nat.eqb_spec i 0); [lia | reflexivity].
Qed.

Lemma nth_tbl g i : (i <= N)%nat -> nth i (tbl g) [] = g i.
Proof.
  intros Hi. unfold tbl. rewrite (nth_indep _ [] (g 0%nat)) by (rewrite map_length, seq_length; lia).
  rewrite map_nth, seq_nth by lia. reflexivity.
Qed.

Lemma set_nth_map_seq (g : nat -> list Z) x : forall k a n, (n < k)%nat ->
  set_nth n x (map g (seq a k)) = map (fun i => if (i =? a + n)%nat then x else g i) (seq a k).
Proof.
  induction k as [|k IH]; intros a n Hn; [lia|]. cbn [seq map]. destruct n as [|n]; cbn [set_nth].
  - rewrite Nat.add_0_r, Nat.eqb_refl. f_equal. apply map_ext_in. intros i Hi. apply in_seq in Hi.
    destruct (Nat.eqb_spec i a); [lia | reflexivity].
  - destruct (Nat.eqb_spec a (a + S n)); [lia|]. f_equal. rewrite IH by lia.
    apply map_ext. intros i. now replace (S a + n)%nat with (a + S n)%nat by lia.
Qed.

Lemma set_nth_tbl g n x : (n <= N)%nat ->
  set_nth n x (tbl g) = tbl (fun i => if (i =? n)%nat then x else g i).
Proof. intros Hn. unfold tbl. rewrite set_nth_map_seq by lia. reflexivity. Qed.

Lemma tbl_ext g h : (forall i, (i <= N)%nat -> g i = h i) -> tbl g = tbl h.
Proof. intros H. unfold tbl. apply map_ext_in. intros i Hi. apply in_seq in Hi. apply H. lia. Qed.

Lemma tbl_const x : repeat x (S N) = tbl (fun _ => x).
Proof.
  unfold tbl. generalize (S N) as k. generalize 0%nat as a.
  intros a k; revert a. induction k as [|k IH]; intros a; [reflexivity|]. cbn [repeat seq map]. f_equal. apply IH.
Qed.

(** ** one cell: the in-place update computes c_{n,m} from c_{n-1,m} and c_{n,m-1} *)
Lemma cell_correct n m oldn : (1 <= n)%nat -> (1 <= m)%nat ->
  oldn = vec n (m - 1) \/ oldn = zeros ->
  let ulim := Nat.min (len - 1) (n * m) in
  padd (shift_in m (vec (n - 1) m) (S ulim)) (firstn (S ulim) (vec n (m - 1))) ++ skipn (S ulim) oldn
  = vec n m.
Proof.
  intros Hn Hm Hold ulim.
  assert (Hul : (S ulim <= len)%nat) by (unfold ulim, len; lia).
  assert (Hlo : length oldn = len).
  { destruct Hold as [-> | ->]; [apply length_vec | apply repeat_length]. }
  assert (Hlnew : length (padd (shift_in m (vec (n - 1) m) (S ulim)) (firstn (S ulim) (vec n (m - 1)))) = S ulim).
  { rewrite length_padd, length_shift_in, firstn_length, !length_vec. lia. }
  apply (nth_ext _ _ 0 0).
  - rewrite app_length, Hlnew, skipn_length, Hlo, length_vec. lia.
  - rewrite app_length, Hlnew, skipn_length, Hlo. intros i Hi.
    assert (Hil : (i < len)%nat) by lia. rewrite nth_vec by exact Hil.
    destruct (Nat.lt_ge_cases i (S ulim)) as [Hlt|Hge].
    + rewrite app_nth1 by (rewrite Hlnew; exact Hlt).
      rewrite nth_padd, nth_shift_in, nth_firstn_lt by exact Hlt.
      rewrite (nth_vec n (m - 1)) by exact Hil. rewrite (cN_rec n m i Hn Hm).
      destruct (Nat.ltb_spec i m) as [H|H]; [reflexivity|]. rewrite nth_vec by lia. reflexivity.
    + rewrite app_nth2 by (rewrite Hlnew; exact Hge). rewrite Hlnew, nth_skipn_add.
      replace (S ulim + (i - S ulim))%nat with i by lia.
      assert (Hbig : (n * m < i)%nat) by (unfold ulim, len in *; lia).
      rewrite (cN_big n m i Hbig). destruct Hold as [-> | ->]; [|apply nth_zeros].
      rewrite nth_vec by exact Hil. apply cN_big. nia.
Qed.

(** ** one row *)
Definition after (m : nat) (i : nat) : list Z := if (i <=? m)%nat then vec i m else zeros.

Lemma p_row_correct m old : (1 <= m)%nat ->
  (forall i, old i = after (m - 1) i) ->
  forall k j, (j + k <= Nat.min N m)%nat ->
  p_row len m (seq (S j) k) (tbl (fun i => if (i <=? j)%nat then vec i m else old i))
  = tbl (fun i => if (i <=? j + k)%nat then vec i m else old i).
Proof.
  intros Hm Hold. induction k as [|k IH]; intros j Hjk.
  - cbn [seq p_row]. now rewrite Nat.add_0_r.
  - cbn [seq p_row]. set (g := fun i => if (i <=? j)%nat then vec i m else old i).
    replace (S j - 1)%nat with j by lia.
    assert (Hgj : g j = vec j m) by (unfold g; now rewrite Nat.leb_refl).
    assert (Hgn : g (S j) = old (S j)) by (unfold g; destruct (Nat.leb_spec (S j) j); [lia | reflexivity]).
    assert (Hrp : (if (S j <=? m - 1)%nat then nth (S j) (tbl g) [] else nth (m - 1) (tbl g) []) = vec (S j) (m - 1)).
    { destruct (Nat.leb_spec (S j) (m - 1)) as [H|H].
      - rewrite nth_tbl by lia. rewrite Hgn, Hold. unfold after. destruct (Nat.leb_spec (S j) (m - 1)); [reflexivity | lia].
      - assert (E : m = S j) by lia. replace (m - 1)%nat with j by lia. rewrite nth_tbl by lia. rewrite Hgj, E. apply vec_swap. }
    rewrite Hrp, (nth_tbl g j), (nth_tbl g (S j)) by lia.
    rewrite Hgj, Hgn.
    pose proof (cell_correct (S j) m (old (S j)) ltac:(lia) Hm) as Hc.
    replace (S j - 1)%nat with j in Hc by lia. cbv zeta in Hc. rewrite Hc.
    + rewrite set_nth_tbl by lia.
      rewrite (tbl_ext _ (fun i => if (i <=? S j)%nat then vec i m else old i)).
      * rewrite IH by lia. apply tbl_ext. intros i _. now replace (S j + k)%nat with (j + S k)%nat by lia.
      * intros i _. unfold g. destruct (Nat.eqb_spec i (S j)) as [->|Hne].
        -- now rewrite Nat.leb_refl.
        -- destruct (Nat.leb_spec i j), (Nat.leb_spec i (S j)); try lia; reflexivity.
    + rewrite Hold. unfold after. destruct (Nat.leb_spec (S j) (m - 1)); [now left | now right].
Qed.

(** ** all rows *)
Lemma p_rows_correct (k : nat) : forall m,
  p_rows len N (seq (S m) k) (tbl (after m)) = tbl (after (m + k)).
Proof.
  induction k as [|k IH]; intros m.
  - cbn [seq p_rows]. now rewrite Nat.add_0_r.
  - cbn [seq p_rows]. rewrite set_nth_tbl by lia. rewrite <- (vec_0 (S m)).
    rewrite (tbl_ext _ (fun i => if (i <=? 0)%nat then vec i (S m) else after m i)).
    2:{ intros i _. destruct (Nat.eqb_spec i 0) as [->|Hne]; [reflexivity|].
        destruct (Nat.leb_spec i 0); [lia | reflexivity]. }
    rewrite (p_row_correct (S m) (after m) ltac:(lia)) by (try lia; intros i; now replace (S m - 1)%nat with m by lia).
    rewrite (tbl_ext _ (after (S m))).
    + rewrite IH. now replace (S m + k)%nat with (m + S k)%nat by lia.
    + intros i Hi. unfold after. cbn [Nat.add].
      destruct (Nat.leb_spec i (Nat.min N (S m))), (Nat.leb_spec i (S m)), (Nat.leb_spec i m); try lia; reflexivity.
Qed.

Theorem p_table_correct M :
  p_rows len N (seq 0 (S M)) (repeat (repeat 0 len) (S N)) = tbl (after M).
Proof.
  cbn [seq p_rows]. rewrite Nat.min_0_r. cbn [seq p_row]. rewrite tbl_const, set_nth_tbl by lia.
  rewrite <- (vec_0 0), (tbl_ext _ (after 0)).
  - apply (p_rows_correct M 0).
  - intros i _. unfold after. destruct (Nat.eqb_spec i 0) as [->|Hne]; [reflexivity|].
    destruct (Nat.leb_spec i 0); [lia | reflexivity].
Qed.
End Table.

(** ** untied_dp_correct *)
Lemma zrange_aux_seq k : forall a, zrange_aux (Z.of_nat a) k = map Z.of_nat (seq a k).
Proof.
  induction k as [|k IH]; intros a; [reflexivity|]. cbn [zrange_aux seq map]. f_equal.
  replace (Z.of_nat a + 1) with (Z.of_nat (S a)) by lia. apply IH.
Qed.

Lemma zrange_0_seq U : 0 <= U -> zrange 0 U = map Z.of_nat (seq 0 (S (Z.to_nat U))).
Proof.
  intros HU. unfold zrange. replace (Z.to_nat (U - 0 + 1)) with (S (Z.to_nat U)) by lia.
  apply (zrange_aux_seq (S (Z.to_nat U)) 0).
Qed.

(** the whole result slice: [c_{n1,n2}(0); ..; c_{n1,n2}(U)] *)
Theorem p_counts_spec n1 n2 U : 0 <= n1 -> 0 <= n2 -> 0 <= U ->
  p_counts n1 n2 U = map (cuntied n1 n2) (zrange 0 U).
Proof.
  intros H1 H2 HU. unfold p_counts.
  set (N := Z.to_nat (Z.min n1 n2)). set (M := Z.to_nat (Z.max n1 n2)).
  rewrite (p_table_correct (Z.to_nat U) N M), (nth_tbl O) by lia.
  unfold after. destruct (Nat.leb_spec N M) as [_|H]; [|unfold N, M in H; lia].
  unfold vec. rewrite zrange_0_seq, map_map by exact HU. apply map_ext. intros u. unfold cN, N, M.
  rewrite !Z2Nat.id by lia. destruct (Z.le_ge_cases n1 n2) as [H|H].
  - now rewrite Z.min_l, Z.max_r by exact H.
  - rewrite Z.min_r, Z.max_l by lia. apply cuntied_swap; assumption.
Qed.

Lemma nth_map_zrange (f : Z -> Z) U u : 0 <= u <= U -> nth (Z.to_nat u) (map f (zrange 0 U)) 0 = f u.
Proof.
  intros Hu. rewrite zrange_0_seq, map_map by lia.
  rewrite (nth_indep _ 0 (f (Z.of_nat 0))) by (rewrite map_length, seq_length; lia).
  rewrite (map_nth (fun x => f (Z.of_nat x))), seq_nth by lia. f_equal. lia.
Qed.

(** untied_dp_correct: every entry of the slice UDist.p returns is the Mann-Whitney
    count, for all sample sizes, every bound U and every u <= U *)
Theorem untied_dp_correct n1 n2 U u : 0 <= n1 -> 0 <= n2 -> 0 <= u <= U ->
  nth (Z.to_nat u) (p_counts n1 n2 U) 0 = cuntied n1 n2 u.
Proof. intros H1 H2 Hu. rewrite p_counts_spec by lia. now apply nth_map_zrange. Qed.

Lemma zsum_map_sumf (f : Z -> Z) l : zsum (map f l) = sumf f l.
Proof. induction l as [|a l IH]; [reflexivity|]. cbn [map]. rewrite sumf_cons, <- IH. reflexivity. Qed.

Lemma p_counts_prefix_sum n1 n2 U : 0 <= n1 -> 0 <= n2 -> 0 <= U ->
  zsum (firstn (S (Z.to_nat U)) (p_counts n1 n2 U)) = sumf (cuntied n1 n2) (zrange 0 U).
Proof.
  intros H1 H2 HU. rewrite p_counts_spec by assumption. rewrite firstn_all2.
  - apply zsum_map_sumf.
  - rewrite zrange_0_seq, !map_length, seq_length by exact HU. lia.
Qed.

(** ** the wrappers without ties: exact fractions count / C(n1+n2, n1) *)
Lemma untied_is_ones t : Forall (fun x => 1 <= x) t -> has_ties t = false -> t = ones (zsum t).
Proof.
  induction 1 as [|x t Hx Ht IH]; intros Hh; [reflexivity|].
  unfold has_ties in Hh. cbn [existsb] in Hh. apply orb_false_iff in Hh. destruct Hh as [Hx1 Hh].
  apply Z.ltb_ge in Hx1. assert (x = 1) by lia. subst x.
  assert (H0 : 0 <= zsum t).
  { clear -Ht. induction Ht as [|y t Hy _ IHt]; [cbn; lia|]. change (zsum (y :: t)) with (y + zsum t). lia. }
  change (zsum (1 :: t)) with (1 + zsum t). replace (1 + zsum t) with (zsum t + 1) by lia.
  rewrite ones_snoc by exact H0. unfold ones at 1. rewrite repeat_snoc. fold (ones (zsum t)). f_equal. now apply IH.
Qed.

Lemma total_ones n1 n2 : 0 <= n1 -> 0 <= n2 -> total (ones (n1 + n2)) n1 = choose (n1 + n2) n1.
Proof. intros H1 H2. unfold total. now rewrite ones_sum by lia. Qed.

Lemma half_half q : q / 2 / 2 = q / 4.
Proof. rewrite Z.div_div by lia. reflexivity. Qed.

(** UDist.CDF with T == nil (or all ones), all range checks and the "sum the smaller
    tail and flip" included: P(2U <= floor(q/2)), q = 4U *)
Theorem cdf_untied_exact t n1 n2 q : has_ties t = false -> 0 <= n1 -> 0 <= n2 ->
  frac_eq (cdf n1 n2 t q) (count_le (ones (n1 + n2)) n1 (q / 2)) (total (ones (n1 + n2)) n1).
Proof.
  intros Hties H1 H2. set (T := ones (n1 + n2)).
  assert (HT0 : Forall (fun y => 0 <= y) T) by apply ones_nonneg.
  assert (HTs : zsum T = n1 + n2) by (apply ones_sum; lia).
  pose proof (total_pos T n1 HT0 ltac:(lia)) as Htot.
  unfold cdf, frac_eq.
  destruct (Z.ltb_spec q 0) as [Hq|Hq].
  - cbn [dres_frac]. rewrite count_le_below by (assumption || (apply Z.div_lt_upper_bound; lia)). lia.
  - destruct (Z.leb_spec (4 * (n1 * n2)) q) as [Hq2|Hq2].
    + cbn [dres_frac]. rewrite count_le_top; [lia | assumption |].
      rewrite HTs. replace (n1 + n2 - n1) with n2 by lia. apply Z.div_le_lower_bound; lia.
    + rewrite Hties.
      assert (HU0 : 0 <= q / 4) by (apply Z.div_pos; lia).
      assert (HU1 : q / 4 < n1 * n2) by (apply Z.div_lt_upper_bound; lia).
      assert (Hle : count_le T n1 (q / 2) = sumf (cuntied n1 n2) (zrange 0 (q / 4))).
      { unfold T. rewrite count_le_ones by assumption. now rewrite half_half. }
      unfold total in *. rewrite HTs in *.
      destruct (Z.leb_spec ((n1 * n2 + 1) / 2) (q / 4)) as [Hf|Hf]; cbn [dres_frac].
      * rewrite p_counts_prefix_sum by lia. split; [|exact Htot].
        (* the upper tail, mirrored *)
        pose proof (count_ge_le T n1 (2 * (q / 4) + 2)) as Hgl.
        rewrite (count_all_total T HT0) in Hgl. unfold total in Hgl. rewrite HTs in Hgl.
        rewrite (count_ge_palindrome T n1 _ HT0 (ones_palindrome _)) in Hgl. rewrite HTs in Hgl.
        unfold T in Hgl. rewrite !count_le_ones in Hgl by assumption. fold T in Hgl.
        replace ((2 * (n1 * (n1 + n2 - n1)) - (2 * (q / 4) + 2)) / 2) with (n1 * n2 - q / 4 - 1) in Hgl
          by (apply Z.div_unique with 0; lia).
        replace ((2 * (q / 4) + 2 - 1) / 2) with (q / 4) in Hgl by (apply Z.div_unique with 1; lia).
        rewrite Hle. lia.
      * rewrite p_counts_prefix_sum by lia. split; [|exact Htot]. rewrite Hle. reflexivity.
Qed.

(** UDist.PMF with T == nil (after hooks/fix_c11_udist_pmf_untied_grid.diff) at EVERY
    argument x = q / 4: the mass at x rounded down to the grid of half-integers, 2U' = q / 2 *)
Theorem pmf_untied_exact_grid t n1 n2 q : has_ties t = false -> 0 <= n1 -> 0 <= n2 ->
  frac_eq (pmf n1 n2 t q) (count_eq (ones (n1 + n2)) n1 (q / 2)) (total (ones (n1 + n2)) n1).
Proof.
  intros Hties H1 H2. set (T := ones (n1 + n2)).
  assert (HT0 : Forall (fun y => 0 <= y) T) by apply ones_nonneg.
  assert (HTs : zsum T = n1 + n2) by (apply ones_sum; lia).
  pose proof (total_pos T n1 HT0 ltac:(lia)) as Htot.
  pose proof (Z.div_mod q 2 ltac:(lia)) as Hdm. pose proof (Z.mod_pos_bound q 2 ltac:(lia)) as Hmb.
  unfold pmf, frac_eq.
  destruct (Z.ltb_spec q 0) as [Hq|Hq]; cbn [orb].
  - cbn [dres_frac]. rewrite count_eq_out by (assumption || lia). lia.
  - destruct (Z.leb_spec (4 * (n1 * n2) + 2) q) as [Hq2|Hq2].
    + cbn [dres_frac]. rewrite count_eq_out; [lia | assumption |]. rewrite HTs. right.
      replace (n1 + n2 - n1) with n2 by lia. lia.
    + rewrite Hties. destruct (Z.odd (q / 2)) eqn:Hodd.
      * cbn [dres_frac]. unfold T. rewrite count_eq_ones_odd by exact Hodd. lia.
      * cbn [dres_frac].
        assert (Hev : q / 2 = 2 * (q / 4)).
        { rewrite <- Z.negb_even in Hodd. apply negb_false_iff, Z.even_spec in Hodd. destruct Hodd as [k Hk].
          rewrite Hk. f_equal. replace 4 with (2 * 2) by lia. rewrite <- Z.div_div by lia. rewrite Hk.
          symmetry. rewrite Z.mul_comm. apply Z.div_mul. lia. }
        rewrite Hev. rewrite untied_dp_correct by (try apply Z.div_pos; lia).
        unfold total in *. rewrite HTs in *. split; [reflexivity | exact Htot].
Qed.

(** ... in particular at an integral U = u (q = 4u) *)
Theorem pmf_untied_exact t n1 n2 u : has_ties t = false -> 0 <= n1 -> 0 <= n2 ->
  frac_eq (pmf n1 n2 t (4 * u)) (count_eq (ones (n1 + n2)) n1 (2 * u)) (total (ones (n1 + n2)) n1).
Proof.
  intros Hties H1 H2. pose proof (pmf_untied_exact_grid t n1 n2 (4 * u) Hties H1 H2) as H.
  replace (4 * u / 2) with (2 * u) in H by (apply Z.div_unique with 0; lia). exact H.
Qed.

(** ** exactness range: when C(n1+n2, n1) < 2^53 every count, every partial sum and
    the denominator are integers below 2^53, i.e. exactly representable in binary64 *)
Lemma cuntied_le_total n m u : 0 <= n -> 0 <= m -> 0 <= cuntied n m u <= choose (n + m) n.
Proof.
  intros Hn Hm. split; [apply cuntied_nonneg|]. unfold cuntied, count_eq.
  pose proof (count_if_le_all (fun w => w =? 2 * u) (ones (n + m)) n) as H.
  rewrite (count_all_total _ (ones_nonneg _)) in H. unfold total in H. now rewrite ones_sum in H by lia.
Qed.

Lemma cuntied_sum_le_total n m U : 0 <= n -> 0 <= m ->
  0 <= sumf (cuntied n m) (zrange 0 U) <= choose (n + m) n.
Proof.
  intros Hn Hm. split; [apply sumf_nonneg; intros; apply cuntied_nonneg|].
  destruct (Z_lt_dec U 0) as [HU|HU].
  - unfold zrange. replace (Z.to_nat (U - 0 + 1)) with O by lia. cbn. apply choose_nonneg.
  - replace U with (2 * U / 2) at 1 by (rewrite Z.mul_comm; apply Z.div_mul; lia).
    rewrite <- count_le_ones by assumption. unfold count_le.
    pose proof (count_if_le_all (fun w => w <=? 2 * U) (ones (n + m)) n) as H.
    rewrite (count_all_total _ (ones_nonneg _)) in H. unfold total in H. now rewrite ones_sum in H by lia.
Qed.

Lemma choose_below_2p53 n m : 0 <= n -> 0 <= m -> n + m <= 56 -> choose (n + m) n < 2 ^ 53.
Proof.
  intros Hn Hm Hs.
  assert (H : forallb (fun a => forallb (fun b => choose (a + b) a <? 2 ^ 53) (zrange 0 (56 - a))) (zrange 0 56) = true)
    by (vm_compute; reflexivity).
  rewrite forallb_forall in H. specialize (H n ltac:(apply zrange_in; lia)).
  rewrite forallb_forall in H. specialize (H m ltac:(apply zrange_in; lia)). now apply Z.ltb_lt.
Qed.

Theorem untied_counts_below_2p53 n m : 0 <= n -> 0 <= m -> n + m <= 56 ->
  forall u, 0 <= cuntied n m u < 2 ^ 53 /\ 0 <= sumf (cuntied n m) (zrange 0 u) < 2 ^ 53.
Proof.
  intros Hn Hm Hs u. pose proof (choose_below_2p53 n m Hn Hm Hs).
  pose proof (cuntied_le_total n m u Hn Hm). pose proof (cuntied_sum_le_total n m u Hn Hm). lia.
Qed.

(** the bound is sharp for balanced samples: C(58, 29) exceeds 2^53 *)
Example choose_58_29 : 2 ^ 53 < choose 58 29 /\ choose 56 28 < 2 ^ 53 /\ 2 ^ 53 < choose 100 50.
Proof. vm_compute. repeat split. Qed.
