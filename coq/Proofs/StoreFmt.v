(** Proofs about Model/StoreFmt.v: what the label-diffing Printer writes for a
    sequence of results, the Reader reads back as the same results — labels as
    maps, name labels re-derived from the line, content lines verbatim, each
    once and in order. *)
From Perf Require Import Base.Bytes Model.Words Model.Query Model.StoreFmt Proofs.Query.

(** ** label maps: sortedness and lookup *)

Definition keys_above (k : bytes) (l : labels) : Prop := forall k' v', In (k', v') l -> blt_p k k'.

Fixpoint ksorted (l : labels) : Prop :=
  match l with
  | [] => True
  | (k, _) :: l' => keys_above k l' /\ ksorted l'
  end.

(** equal as maps *)
Definition meq (a b : labels) : Prop := forall k, lookup k a = lookup k b.

Lemma blt_p_neq a b : blt_p a b -> a <> b.
Proof. intros H ->. exact (blt_irrefl _ H). Qed.

Lemma lookup_above k l : keys_above k l -> lookup k l = None.
Proof.
  induction l as [|[k' v'] l IH]; intros H; cbn [lookup]; [reflexivity|].
  destruct (beq_spec k' k) as [->|_].
  - exfalso. apply (blt_irrefl k). apply (H k v'). left; reflexivity.
  - apply IH. intros a b Hab. apply (H a b). right; exact Hab.
Qed.

Lemma lookup_lset k v k2 l :
  lookup k2 (lset k v l) = if beq k k2 then Some v else lookup k2 l.
Proof.
  induction l as [|[k' v'] l IH]; cbn [lset lookup]; [reflexivity|].
  destruct (bcmp k k') eqn:E; cbn [lookup].
  - apply bcmp_eq in E. subst k'. destruct (beq k k2); reflexivity.
  - reflexivity.
  - rewrite IH. destruct (beq_spec k' k2) as [->|_]; [|reflexivity].
    destruct (beq_spec k k2) as [->|_]; [|reflexivity].
    assert (E2 : bcmp k2 k2 = Eq) by (apply bcmp_eq; reflexivity). congruence.
Qed.

Lemma In_lset a b k v l : In (a, b) (lset k v l) -> (a, b) = (k, v) \/ In (a, b) l.
Proof.
  induction l as [|[k' v'] l IH]; cbn [lset].
  - intros [H|[]]; left; auto.
  - destruct (bcmp k k').
    + intros [H|H]; [left; auto | right; right; exact H].
    + intros [H|H]; [left; auto | right; exact H].
    + intros [H|H]; [right; left; exact H|]. destruct (IH H) as [H1|H1]; [left; exact H1 | right; right; exact H1].
Qed.

Lemma ksorted_lset k v l : ksorted l -> ksorted (lset k v l).
Proof.
  induction l as [|[k' v'] l IH]; cbn [lset ksorted].
  - intros _. split; [intros a b [] | exact I].
  - intros [Ha Hs]. destruct (bcmp k k') eqn:E; cbn [ksorted].
    + apply bcmp_eq in E. subst k'. split; assumption.
    + split; [|split; assumption]. intros a b [H|H].
      * inversion H; subst. exact E.
      * eapply blt_trans; [exact E | apply (Ha a b H)].
    + split; [|apply IH; exact Hs]. intros a b H. apply In_lset in H as [H|H].
      * inversion H; subst. unfold blt_p. rewrite bcmp_antisym, E. reflexivity.
      * apply (Ha a b H).
Qed.

Lemma In_ldel a b k l : In (a, b) (ldel k l) -> In (a, b) l.
Proof.
  induction l as [|[k' v'] l IH]; cbn [ldel]; [auto|].
  destruct (beq k' k); [intros H; right; exact H|].
  intros [H|H]; [left; exact H | right; apply IH; exact H].
Qed.

Lemma ksorted_ldel k l : ksorted l -> ksorted (ldel k l).
Proof.
  induction l as [|[k' v'] l IH]; cbn [ldel ksorted]; [auto|].
  intros [Ha Hs]. destruct (beq k' k); [exact Hs|]. cbn [ksorted].
  split; [|apply IH; exact Hs]. intros a b H. apply (Ha a b). eapply In_ldel; exact H.
Qed.

Lemma lookup_ldel k k2 l :
  ksorted l -> lookup k2 (ldel k l) = if beq k k2 then None else lookup k2 l.
Proof.
  induction l as [|[k' v'] l IH]; cbn [ldel lookup ksorted].
  - intros _. destruct (beq k k2); reflexivity.
  - intros [Ha Hs]. destruct (beq_spec k' k) as [->|Hn].
    + destruct (beq_spec k k2) as [->|_]; [apply lookup_above; exact Ha | reflexivity].
    + cbn [lookup]. rewrite (IH Hs). destruct (beq_spec k' k2) as [->|_]; [|reflexivity].
      destruct (beq_spec k k2) as [->|_]; [congruence | reflexivity].
Qed.

Lemma lookup_Some_In k v l : lookup k l = Some v -> In (k, v) l.
Proof.
  induction l as [|[k' v'] l IH]; cbn [lookup]; [discriminate|].
  destruct (beq_spec k' k) as [->|_]; [intros [= ->]; left; reflexivity | intros H; right; apply IH; exact H].
Qed.

Lemma lookup_In k v l : ksorted l -> In (k, v) l -> lookup k l = Some v.
Proof.
  induction l as [|[k' v'] l IH]; cbn [lookup ksorted]; [intros _ []|].
  intros [Ha Hs] [H|H].
  - inversion H; subst. rewrite beq_refl. reflexivity.
  - destruct (beq_spec k' k) as [->|_]; [|apply IH; assumption].
    exfalso. apply (blt_irrefl k). apply (Ha k v H).
Qed.

(** folding deletions / settings over a map *)
Definition del_all (rem : labels) (l : labels) : labels := fold_left (fun l kv => ldel (fst kv) l) rem l.
Definition set_all (ch : labels) (l : labels) : labels := fold_left (fun l kv => lset (fst kv) (snd kv) l) ch l.
Definition has_key (k : bytes) (l : labels) : bool := existsb (fun kv => beq (fst kv) k) l.

Lemma del_all_spec rem : forall l, ksorted l ->
  ksorted (del_all rem l)
  /\ forall k2, lookup k2 (del_all rem l) = if has_key k2 rem then None else lookup k2 l.
Proof.
  induction rem as [|[k v] rem IH]; intros l Hs; cbn [del_all fold_left has_key existsb fst].
  - split; [exact Hs | reflexivity].
  - destruct (IH (ldel k l) (ksorted_ldel k l Hs)) as [H1 H2]. split; [exact H1|].
    intros k2. unfold del_all in H2. rewrite H2. unfold has_key.
    destruct (existsb _ rem); [rewrite orb_true_r; reflexivity|]. rewrite orb_false_r.
    apply lookup_ldel. exact Hs.
Qed.

Lemma set_all_spec (cur : labels) ch : forall l, ksorted l ->
  (forall kv, In kv ch -> lookup (fst kv) cur = Some (snd kv)) ->
  ksorted (set_all ch l)
  /\ forall k2, lookup k2 (set_all ch l) = if has_key k2 ch then lookup k2 cur else lookup k2 l.
Proof.
  induction ch as [|[k v] ch IH]; intros l Hs Hc; cbn [set_all fold_left has_key existsb fst snd].
  - split; [exact Hs | reflexivity].
  - destruct (IH (lset k v l) (ksorted_lset k v l Hs)) as [H1 H2].
    { intros kv Hkv. apply Hc. right; exact Hkv. }
    split; [exact H1|]. intros k2. unfold set_all in H2. rewrite H2. unfold has_key.
    destruct (existsb _ ch); [rewrite orb_true_r; reflexivity|]. rewrite orb_false_r.
    rewrite lookup_lset. destruct (beq_spec k k2) as [->|_]; [|reflexivity].
    symmetry. apply (Hc (k2, v)). left; reflexivity.
Qed.

Lemma has_key_filter k f l :
  has_key k (filter f l) = true <-> exists v, In (k, v) l /\ f (k, v) = true.
Proof.
  unfold has_key. rewrite existsb_exists. split.
  - intros [[a b] [Hin E]]. apply filter_In in Hin as [Hin Hf]. cbn [fst] in E. apply beq_eq in E. subst a.
    exists b. split; assumption.
  - intros [v [Hin Hf]]. exists (k, v). split; [apply filter_In; split; assumption | apply beq_refl].
Qed.

(** ** what the printer writes, as lines *)

Definition removed_of (prev cur : labels) : labels :=
  filter (fun kv => beq (lget (fst kv) cur) []) prev.
Definition changed_of (prev cur : labels) : labels :=
  filter (fun kv => negb (beq (snd kv) []) && negb (beq (lget (fst kv) prev) (snd kv))) cur.

(** the diff applied to (a map equal to) the previous labels gives the new labels *)
Lemma diff_applies prev cur lab :
  ksorted prev -> ksorted cur -> ksorted lab -> meq lab prev ->
  (forall k v, In (k, v) cur -> v <> []) ->
  let lab' := set_all (changed_of prev cur) (del_all (removed_of prev cur) lab) in
  ksorted lab' /\ meq lab' cur.
Proof.
  intros Hp Hc Hl Hm Hne. cbv zeta.
  destruct (del_all_spec (removed_of prev cur) lab Hl) as [Hs1 Hl1].
  destruct (set_all_spec cur (changed_of prev cur) _ Hs1) as [Hs2 Hl2].
  { intros [k v] Hin. apply filter_In in Hin as [Hin _]. cbn [fst snd]. apply lookup_In; assumption. }
  split; [exact Hs2|]. intros k. rewrite Hl2, Hl1, Hm.
  destruct (has_key k (changed_of prev cur)) eqn:Ech; [reflexivity|].
  destruct (lookup k cur) as [v|] eqn:Ecur.
  - pose proof (lookup_Some_In _ _ _ Ecur) as Hin. pose proof (Hne _ _ Hin) as Hv.
    assert (Hf : negb (beq v []) && negb (beq (lget k prev) v) = false).
    { destruct (negb (beq v []) && negb (beq (lget k prev) v)) eqn:Ef; [|reflexivity].
      assert (has_key k (changed_of prev cur) = true) by (apply has_key_filter; exists v; split; assumption).
      congruence. }
    destruct (beq_spec v []) as [|_]; [contradiction|]. cbn [negb andb] in Hf.
    apply negb_false_iff, beq_eq in Hf. unfold lget in Hf.
    destruct (lookup k prev) as [w|] eqn:Ep; [|congruence]. subst w.
    destruct (has_key k (removed_of prev cur)) eqn:Erm; [|reflexivity].
    apply has_key_filter in Erm as [w [_ Hw]]. cbn [fst] in Hw. unfold lget in Hw. rewrite Ecur in Hw.
    apply beq_eq in Hw. contradiction.
  - destruct (has_key k (removed_of prev cur)) eqn:Erm; [reflexivity|].
    destruct (lookup k prev) as [w|] eqn:Ep; [|reflexivity]. exfalso.
    assert (has_key k (removed_of prev cur) = true).
    { apply has_key_filter. exists w. split; [apply lookup_Some_In; exact Ep|].
      cbn [fst]. unfold lget. rewrite Ecur. reflexivity. }
    congruence.
Qed.

Definition rm_line (kv : bytes * bytes) : bytes := fst kv ++ [c_col].
Definition ch_line (kv : bytes * bytes) : bytes := fst kv ++ [c_col; w_space] ++ snd kv.

Definition lines_one (prev : labels) (r : result) : list bytes :=
  map rm_line (removed_of prev (r_labels r)) ++ map ch_line (changed_of prev (r_labels r)) ++ [r_content r].

Fixpoint lines_all (prev : labels) (rs : list result) : list bytes :=
  match rs with
  | [] => []
  | r :: rs' => lines_one prev r ++ lines_all (r_labels r) rs'
  end.

Definition with_lf (ls : list bytes) : bytes := concat (map (fun l => l ++ [c_lf]) ls).

Lemma with_lf_app a b : with_lf (a ++ b) = with_lf a ++ with_lf b.
Proof. unfold with_lf. rewrite map_app, concat_app. reflexivity. Qed.

Lemma print_one_lines prev r : print_one prev r = with_lf (lines_one prev r).
Proof.
  unfold print_one, lines_one. fold (removed_of prev (r_labels r)). fold (changed_of prev (r_labels r)).
  rewrite !with_lf_app. f_equal; [|f_equal].
  - unfold with_lf. rewrite map_map. f_equal. apply map_ext. intros kv. unfold rm_line.
    rewrite <- app_assoc. reflexivity.
  - unfold with_lf. rewrite map_map. f_equal. apply map_ext. intros kv. unfold ch_line.
    rewrite <- !app_assoc. reflexivity.
  - unfold with_lf. cbn. rewrite app_nil_r. reflexivity.
Qed.

Lemma print_all_lines rs : forall prev, print_all prev rs = with_lf (lines_all prev rs).
Proof.
  induction rs as [|r rs IH]; intros prev; cbn [print_all lines_all]; [reflexivity|].
  rewrite with_lf_app, print_one_lines, IH. reflexivity.
Qed.

(** ** the scanner gives the lines back *)

(** a line the text format can carry: no LF inside, no CR at the end *)
Definition clean (l : bytes) : Prop := ~ In c_lf l /\ forall p, l <> p ++ [c_cr].

Lemma lines_aux_line line : forall rest cur,
  ~ In c_lf line ->
  lines_aux (line ++ c_lf :: rest) cur = drop_cr (rev line ++ cur) :: lines_aux rest [].
Proof.
  induction line as [|c line IH]; intros rest cur Hn; cbn [app lines_aux rev].
  - rewrite beqb_refl. reflexivity.
  - destruct (beqb_spec c c_lf) as [->|_]; [exfalso; apply Hn; left; reflexivity|].
    rewrite IH by (intros H; apply Hn; right; exact H). rewrite <- app_assoc. reflexivity.
Qed.

Lemma drop_cr_clean l : (forall p, l <> p ++ [c_cr]) -> drop_cr (rev l) = l.
Proof.
  intros H. unfold drop_cr. destruct (rev l) as [|c r] eqn:E.
  - apply (f_equal (@rev byte)) in E. rewrite rev_involutive in E. exact (eq_sym E).
  - apply (f_equal (@rev byte)) in E. rewrite rev_involutive in E. cbn [rev] in E.
    destruct (beqb_spec c c_cr) as [->|_]; [exfalso; exact (H _ E) | exact (eq_sym E)].
Qed.

Lemma scan_with_lf ls : Forall clean ls -> scan_lines (with_lf ls) = ls.
Proof.
  unfold scan_lines. induction ls as [|l ls IH]; intros H; [reflexivity|].
  inversion H as [|? ? [Hlf Hcr] Hls]; subst.
  change (with_lf (l :: ls)) with ((l ++ [c_lf]) ++ with_lf ls). rewrite <- app_assoc. cbn [app].
  rewrite lines_aux_line by exact Hlf. rewrite app_nil_r, drop_cr_clean by exact Hcr.
  f_equal. apply IH. exact Hls.
Qed.

(** ** well-formed results *)

(** the key scanner of parseKeyValueLine stops exactly at the colon after [k],
    whatever follows *)
Definition key_ok (k : bytes) : Prop :=
  ~ In c_lf k
  /\ forall rest, parse_kv_line (k ++ c_col :: rest) =
       match rest with
       | [] => Some (k, [])
       | c :: _ => if is_blank c then Some (k, strip_blanks rest) else None
       end.

(** a value the format can carry: non-empty, no leading blank, no LF, no final CR *)
Definition val_ok (v : bytes) : Prop :=
  v <> [] /\ (forall c r, v = c :: r -> is_blank c = false) /\ clean v.

Definition wf_labels (l : labels) : Prop :=
  ksorted l /\ forall k v, In (k, v) l -> key_ok k /\ val_ok v.

(** a benchmark line with a non-empty name, carrying the name labels of that name *)
Definition wf_result (r : result) : Prop :=
  wf_labels (r_labels r)
  /\ clean (r_content r)
  /\ parse_kv_line (r_content r) = None
  /\ exists name, parse_benchmark_line (r_content r) = Some name /\ name <> []
                  /\ r_namelabels r = name_labels name.

Lemma clean_rm_line k : key_ok k -> clean (rm_line (k, @nil byte)).
Proof.
  intros [Hlf _]. unfold rm_line. cbn [fst]. split.
  - intros H. apply in_app_or in H as [H|[H|[]]]; [exact (Hlf H) | discriminate H].
  - intros p E. apply app_inj_tail in E as [_ E]. discriminate E.
Qed.

Lemma clean_ch_line k v : key_ok k -> val_ok v -> clean (ch_line (k, v)).
Proof.
  intros [Hlf _] (Hne & _ & Hvlf & Hvcr). unfold ch_line. cbn [fst snd]. split.
  - intros H. apply in_app_or in H as [H|H]; [exact (Hlf H)|].
    cbn [app] in H. destruct H as [H|[H|H]]; [discriminate H | discriminate H | exact (Hvlf H)].
  - intros p E. destruct (exists_last Hne) as (v' & x & ->).
    change (k ++ [c_col; w_space] ++ v' ++ [x]) with (k ++ ([c_col; w_space] ++ v') ++ [x]) in E.
    rewrite app_assoc in E. apply app_inj_tail in E as [_ ->]. exact (Hvcr v' eq_refl).
Qed.

Lemma strip_blanks_val v : val_ok v -> strip_blanks (w_space :: v) = v.
Proof.
  intros (Hne & Hb & _). cbn [strip_blanks]. change (is_blank w_space) with true. cbn match.
  destruct v as [|c r]; [congruence|]. cbn [strip_blanks]. rewrite (Hb c r eq_refl). reflexivity.
Qed.

(** ** the reader over the printed lines *)

Definition perm_inert (perm : option labels) : Prop := perm = None \/ perm = Some [].

Lemma perm_inert_lhas perm k : perm_inert perm ->
  match perm with Some p => lhas k p | None => false end = false.
Proof. intros [->| ->]; reflexivity. Qed.

(** result equality up to the line number, labels as maps *)
Definition res_same (a r : result) : Prop :=
  meq (r_labels a) (r_labels r) /\ r_namelabels a = r_namelabels r /\ r_content a = r_content r.

Lemma read_removed rem : forall rest lab perm have seen n,
  perm_inert perm -> (forall k v, In (k, v) rem -> key_ok k) ->
  exists n', read_loop (map rm_line rem ++ rest) lab perm have seen n
             = read_loop rest (del_all rem lab) perm have seen n'.
Proof.
  induction rem as [|[k v] rem IH]; intros rest lab perm have seen n Hp Hk; cbn [map app del_all fold_left].
  - exists n. reflexivity.
  - cbn [read_loop]. unfold rm_line at 1. cbn [fst].
    destruct (Hk k v (or_introl eq_refl)) as [_ Hparse]. rewrite (Hparse []).
    rewrite (perm_inert_lhas perm k Hp). rewrite beq_refl.
    apply IH; [exact Hp|]. intros a b H. apply (Hk a b). right; exact H.
Qed.

Lemma read_changed ch : forall rest lab perm have seen n,
  perm_inert perm -> (forall k v, In (k, v) ch -> key_ok k /\ val_ok v) ->
  exists n', read_loop (map ch_line ch ++ rest) lab perm have seen n
             = read_loop rest (set_all ch lab) perm have seen n'.
Proof.
  induction ch as [|[k v] ch IH]; intros rest lab perm have seen n Hp Hk; cbn [map app set_all fold_left].
  - exists n. reflexivity.
  - cbn [read_loop]. unfold ch_line at 1. cbn [fst snd].
    destruct (Hk k v (or_introl eq_refl)) as [[_ Hparse] Hv].
    change (k ++ [c_col; w_space] ++ v) with (k ++ c_col :: w_space :: v). rewrite (Hparse (w_space :: v)).
    change (is_blank w_space) with true. cbn match. rewrite strip_blanks_val by exact Hv.
    rewrite (perm_inert_lhas perm k Hp).
    destruct Hv as (Hne & _). destruct (beq_spec v []) as [|_]; [contradiction|].
    apply IH; [exact Hp|]. intros a b H. apply (Hk a b). right; exact H.
Qed.

Lemma parse_benchmark_nil : parse_benchmark_line [] = None.
Proof. reflexivity. Qed.

(** ... as the reader produces it: additionally its label list is sorted *)
Definition res_read (a r : result) : Prop := ksorted (r_labels a) /\ res_same a r.

Theorem read_printed_lines : forall rs prev lab perm have seen n,
  Forall wf_result rs -> wf_labels prev -> ksorted lab -> meq lab prev -> perm_inert perm ->
  Forall2 res_read (read_loop (lines_all prev rs) lab perm have seen n) rs.
Proof.
  induction rs as [|r rs IH]; intros prev lab perm have seen n Hwf Hprev Hlab Hm Hp; cbn [lines_all].
  - constructor.
  - inversion Hwf as [|? ? Hr Hrs]; subst.
    destruct Hr as ([Hcs Hck] & Hclean & Hnokv & name & Hbench & Hname & Hnl).
    destruct Hprev as [Hps Hpk].
    unfold lines_one. rewrite <- !app_assoc.
    destruct (read_removed (removed_of prev (r_labels r))
                (map ch_line (changed_of prev (r_labels r)) ++ [r_content r] ++ lines_all (r_labels r) rs)
                lab perm have seen n Hp) as [n1 E1].
    { intros k v H. apply filter_In in H as [H _]. apply (Hpk k v H). }
    rewrite E1. clear E1.
    destruct (read_changed (changed_of prev (r_labels r))
                ([r_content r] ++ lines_all (r_labels r) rs)
                (del_all (removed_of prev (r_labels r)) lab) perm have seen n1 Hp) as [n2 E2].
    { intros k v H. apply filter_In in H as [H _]. apply (Hck k v H). }
    rewrite E2. clear E2.
    destruct (diff_applies prev (r_labels r) lab Hps Hcs Hlab Hm) as [Hs' Hm'].
    { intros k v H. destruct (Hck k v H) as [_ (Hne & _)]. exact Hne. }
    set (lab' := set_all (changed_of prev (r_labels r)) (del_all (removed_of prev (r_labels r)) lab)) in *.
    cbn [app read_loop]. rewrite Hnokv, Hbench.
    assert (Enil : is_nilb name = false) by (destruct name; [congruence | reflexivity]).
    rewrite Enil. cbn [andb orb negb].
    constructor.
    + split; [exact Hs'|]. repeat split; [exact Hm' | cbn [r_namelabels]; symmetry; exact Hnl].
    + apply IH; [exact Hrs | split; assumption | exact Hs' | exact Hm' |].
      destruct have; [exact Hp|]. right.
      destruct (r_content r); [rewrite parse_benchmark_nil in Hbench; discriminate | reflexivity].
Qed.

Lemma lines_all_clean : forall rs prev,
  Forall wf_result rs -> wf_labels prev -> Forall clean (lines_all prev rs).
Proof.
  induction rs as [|r rs IH]; intros prev Hwf Hprev; cbn [lines_all]; [constructor|].
  inversion Hwf as [|? ? Hr Hrs]; subst.
  destruct Hr as (Hlab & Hclean & _). destruct Hprev as [_ Hpk]. pose proof Hlab as [_ Hck].
  unfold lines_one. rewrite !Forall_app. repeat split.
  - apply Forall_forall. intros l Hl. apply in_map_iff in Hl as [[k v] [<- Hin]].
    apply filter_In in Hin as [Hin _]. destruct (Hpk k v Hin) as [Hk _].
    unfold rm_line. cbn [fst]. apply (clean_rm_line k Hk).
  - apply Forall_forall. intros l Hl. apply in_map_iff in Hl as [[k v] [<- Hin]].
    apply filter_In in Hin as [Hin _]. destruct (Hck k v Hin) as [Hk Hv]. apply clean_ch_line; assumption.
  - constructor; [exact Hclean | constructor].
  - apply IH; assumption.
Qed.

(** ** the round trip *)

(** Printer, then Reader, on any sequence of well-formed results: the same
    results (labels as maps, name labels, content lines verbatim), each once, in
    order. This is both the stored record (fresh printer) and the /search
    response read by the client. *)
Lemma Forall2_weaken {A B} (R S : A -> B -> Prop) l m :
  (forall a b, R a b -> S a b) -> Forall2 R l m -> Forall2 S l m.
Proof. intros H. induction 1; constructor; auto. Qed.

Lemma Forall_concat_all {A} (P : A -> Prop) ls : Forall (Forall P) ls -> Forall P (concat ls).
Proof.
  induction 1 as [|l ls Hl _ IH]; cbn [concat]; [constructor|]. apply Forall_app. split; assumption.
Qed.

Theorem printer_reader_roundtrip_sorted rs :
  Forall wf_result rs -> Forall2 res_read (read_plain (print_all [] rs)) rs.
Proof.
  intros Hwf. unfold read_plain. rewrite print_all_lines.
  assert (Hnil : wf_labels []) by (split; [exact I | intros k v []]).
  rewrite scan_with_lf by (apply lines_all_clean; assumption).
  apply read_printed_lines; try assumption.
  - exact I.
  - intros k. reflexivity.
  - left; reflexivity.
Qed.

Theorem printer_reader_roundtrip rs :
  Forall wf_result rs -> Forall2 res_same (read_plain (print_all [] rs)) rs.
Proof.
  intros Hwf. eapply Forall2_weaken; [|apply printer_reader_roundtrip_sorted; exact Hwf].
  intros a r [_ H]. exact H.
Qed.

(** *** composition: stored records -> db.Query -> server printer -> client reader *)

Lemma res_same_trans a b c : res_same a b -> res_same b c -> res_same a c.
Proof.
  intros (M1 & N1 & C1) (M2 & N2 & C2). split; [|split; congruence].
  intros k. rewrite M1. apply M2.
Qed.

(** what the reader returned for a well-formed result is well-formed again *)
Lemma wf_result_transfer a r : res_read a r -> wf_result r -> wf_result a.
Proof.
  intros (Hs & Hm & Hn & Hc) ((Hrs & Hrk) & Hrest). split.
  - split; [exact Hs|]. intros k v Hin. apply (Hrk k v).
    apply lookup_Some_In. rewrite <- Hm. apply lookup_In; assumption.
  - rewrite Hc, Hn. exact Hrest.
Qed.

Lemma Forall2_flat_map {A B C} (R : B -> C -> Prop) (f : A -> list B) (g : A -> list C) l :
  (forall x, In x l -> Forall2 R (f x) (g x)) -> Forall2 R (flat_map f l) (flat_map g l).
Proof.
  induction l as [|x l IH]; intros H; cbn [flat_map]; [constructor|].
  apply Forall2_app; [apply H; left; reflexivity | apply IH; intros y Hy; apply H; right; exact Hy].
Qed.

Lemma Forall2_wf_transfer xs ys : Forall2 res_read xs ys -> Forall wf_result ys -> Forall wf_result xs.
Proof.
  induction 1 as [|a r xs ys Har _ IH]; intros Hwf; constructor; inversion Hwf; subst.
  - eapply wf_result_transfer; eassumption.
  - apply IH. assumption.
Qed.

Lemma Forall2_trans_same xs ys zs :
  Forall2 res_same xs ys -> Forall2 res_same ys zs -> Forall2 res_same xs zs.
Proof.
  intros H. revert zs. induction H as [|a b xs ys Hab _ IH]; intros zs Hz; inversion Hz; subst; constructor.
  - eapply res_same_trans; eassumption.
  - apply IH. assumption.
Qed.

(** Every stored record holds the printed form of its group of results
    ([print_all [] g], see [coalesced_content] below). db.Query reads each
    record back with a fresh reader, the /search handler prints all of them
    through one printer, the client reads that stream: what the client gets is
    the stored results, each once, in order, labels and lines intact. *)
Theorem stored_to_client (groups : list (list result)) :
  Forall (Forall wf_result) groups ->
  let served := flat_map (fun g => read_plain (print_all [] g)) groups in
  Forall2 res_same (read_plain (print_all [] served)) (concat groups).
Proof.
  intros Hwf. cbv zeta.
  assert (H1 : Forall2 res_read (flat_map (fun g => read_plain (print_all [] g)) groups)
                              (flat_map (fun g => g) groups)).
  { apply Forall2_flat_map. intros g Hg. apply printer_reader_roundtrip_sorted.
    rewrite Forall_forall in Hwf. apply Hwf. exact Hg. }
  assert (Hc : flat_map (fun g : list result => g) groups = concat groups).
  { clear. induction groups as [|g gs IH]; cbn [flat_map concat]; [reflexivity | rewrite IH; reflexivity]. }
  rewrite Hc in H1.
  assert (Hall : Forall wf_result (concat groups)).
  { apply Forall_concat_all. exact Hwf. }
  pose proof (Forall2_wf_transfer _ _ H1 Hall) as Hserved.
  eapply Forall2_trans_same.
  - apply printer_reader_roundtrip. exact Hserved.
  - eapply Forall2_weaken; [|exact H1]. intros a r [_ H]. exact H.
Qed.

(** a result with the labels the printer already holds is printed as its bare
    line: what InsertRecord appends to a coalesced record is what the printer
    would have written *)
Lemma filter_none {A} (f : A -> bool) l : (forall x, In x l -> f x = false) -> filter f l = [].
Proof.
  induction l as [|x l IH]; intros H; cbn [filter]; [reflexivity|].
  rewrite (H x (or_introl eq_refl)). apply IH. intros y Hy. apply H. right; exact Hy.
Qed.

Lemma print_same_labels r :
  (forall k v, In (k, v) (r_labels r) -> v <> []) -> ksorted (r_labels r) ->
  print_one (r_labels r) r = r_content r ++ [c_lf].
Proof.
  intros Hne Hs. unfold print_one.
  rewrite (filter_none (fun kv => beq (lget (fst kv) (r_labels r)) [])).
  - rewrite (filter_none (fun kv => negb (beq (snd kv) []) && negb (beq (lget (fst kv) (r_labels r)) (snd kv)))).
    + reflexivity.
    + intros [k v] Hin. cbn [fst snd]. unfold lget. rewrite (lookup_In k v _ Hs Hin).
      rewrite beq_refl. cbn [negb]. apply andb_false_r.
  - intros [k v] Hin. cbn [fst]. unfold lget. rewrite (lookup_In k v _ Hs Hin).
    destruct (beq_spec v []) as [E|_]; [exfalso; exact (Hne k v Hin E) | reflexivity].
Qed.

(** the Content blob of a coalesced record — the first result printed by a fresh
    printer, then the bare lines InsertRecord appends — is what one printer
    would write for the whole group *)
Theorem coalesced_content r rs :
  ksorted (r_labels r) -> (forall k v, In (k, v) (r_labels r) -> v <> []) ->
  Forall (fun x => r_labels x = r_labels r) rs ->
  print_all [] (r :: rs) = print_one [] r ++ concat (map (fun x => r_content x ++ [c_lf]) rs).
Proof.
  intros Hs Hne Hall. cbn [print_all]. f_equal.
  induction Hall as [|x rs Hx _ IH]; [reflexivity|].
  cbn [print_all map concat]. rewrite <- Hx at 1. rewrite print_same_labels.
  - rewrite Hx. rewrite IH. reflexivity.
  - rewrite Hx. exact Hne.
  - rewrite Hx. exact Hs.
Qed.
