(** The recogniser of Model/FilterGrammarSpec.v is sound for the documented
    grammar: whenever [grammar_ok q f] holds, [derives q f] - the tree [f] is a
    tree the grammar of "go doc benchproc/syntax" gives the whole text [q]. *)
From Perf Require Import Base.Bytes Base.Rune Model.Unquote Model.Tok Model.FilterAst
  Model.FilterGrammarSpec.

(** induction over trees with the nested lists *)
Section FilterInd.
Variable P : filter -> Prop.
Hypothesis Hm : forall k m o, P (FMatch k m o).
Hypothesis Ha : forall l, Forall P l -> P (FAnd l).
Hypothesis Ho : forall l, Forall P l -> P (FOr l).
Hypothesis Hn : forall f, P f -> P (FNot f).
Fixpoint filter_ind' (f : filter) : P f :=
  match f with
  | FMatch k m o => Hm k m o
  | FAnd l => Ha l ((fix go (l : list filter) : Forall P l :=
                       match l with [] => Forall_nil P | x :: l' => Forall_cons x (filter_ind' x) (go l') end) l)
  | FOr l => Ho l ((fix go (l : list filter) : Forall P l :=
                      match l with [] => Forall_nil P | x :: l' => Forall_cons x (filter_ind' x) (go l') end) l)
  | FNot g => Hn g (filter_ind' g)
  end.
End FilterInd.

Lemma matcher_eqb_eq a b : matcher_eqb a b = true -> a = b.
Proof.
  destruct a, b; cbn; intro H; try discriminate; apply beq_eq in H; now subst.
Qed.

Lemma filter_list_eq (l : list filter) :
  Forall (fun a => forall b, filter_eqb a b = true -> a = b) l ->
  forall l',
  (fix list_eq (l1 l2 : list filter) {struct l1} : bool :=
     match l1, l2 with
     | [], [] => true
     | x :: l1', y :: l2' => filter_eqb x y && list_eq l1' l2'
     | _, _ => false
     end) l l' = true -> l = l'.
Proof.
  induction 1 as [|x l Hx _ IH]; intros [|y l'] H; try discriminate; [reflexivity|].
  apply andb_true_iff in H. destruct H as [H1 H2].
  f_equal; [now apply Hx|now apply IH].
Qed.

Lemma filter_eqb_eq : forall a b, filter_eqb a b = true -> a = b.
Proof.
  induction a as [k m o|l IH|l IH|f IH] using filter_ind'; intros [k' m' o'|l'|l'|f'] H;
    try discriminate.
  - cbn in H. apply andb_true_iff in H. destruct H as [H Ho].
    apply andb_true_iff in H. destruct H as [Hk Hmm].
    apply beq_eq in Hk. apply matcher_eqb_eq in Hmm. apply Nat.eqb_eq in Ho. now subst.
  - f_equal. now apply (filter_list_eq l IH).
  - f_equal. now apply (filter_list_eq l IH).
  - f_equal. cbn in H. now apply IH.
Qed.

Section Sound.
Variable is_space : N -> bool.
Variable re_ok : bytes -> bool.
Variable n0 : nat.

Notation rd := (rd is_space re_ok n0).
Notation after := (after is_space re_ok n0).

Lemma after_in v p q q' :
  In q' (after v p q) -> exists t, rd v q = Some (t, q') /\ p t = true.
Proof.
  unfold FilterGrammarSpec.after. destruct (rd v q) as [[t r]|]; [|intros []].
  destruct (p t) eqn:Hp; [|intros []]. intros [<-|[]]. now exists t.
Qed.

Notation SOUND n :=
  ((forall f q q', In q' (r_expr is_space re_ok n0 n f q) -> g_expr is_space re_ok n0 q f q')
   /\ (forall ts q q', In q' (r_ors is_space re_ok n0 n ts q) -> g_ors is_space re_ok n0 q ts q')
   /\ (forall f q q', In q' (r_and is_space re_ok n0 n f q) -> g_and is_space re_ok n0 q f q')
   /\ (forall ts q q', In q' (r_ms is_space re_ok n0 n ts q) -> g_ms is_space re_ok n0 q ts q')
   /\ (forall f q q', In q' (r_match is_space re_ok n0 n f q) -> g_match is_space re_ok n0 q f q')
   /\ (forall off key ms q q', In q' (r_vals is_space re_ok n0 n off key ms q) ->
         g_vals is_space re_ok n0 off key q ms q')).

Lemma recogniser_sound : forall n, SOUND n.
Proof.
  induction n as [|m (IHe & IHo & IHa & IHm & IHt & IHv)].
  { repeat split; intros; cbn in *; contradiction. }
  repeat split.
  - (* expr *)
    intros f q q' H. cbn [r_expr] in H. apply in_app_or in H. destruct H as [H|H].
    + apply IHo in H. exact (G_expr _ _ _ q [f] q' H).
    + destruct f as [| |[|a [|b l]]|]; try contradiction.
      apply IHo in H. exact (G_expr _ _ _ q (a :: b :: l) q' H).
  - (* ors *)
    intros ts q q' H. cbn [r_ors] in H. destruct ts as [|t [|t2 ts']]; [contradiction| |].
    + apply G_ors1. now apply IHa.
    + apply in_flat_map in H. destruct H as (q1 & H1 & H).
      apply in_flat_map in H. destruct H as (q2 & H2 & H).
      apply after_in in H2. destruct H2 as (o & Hrd & Ho).
      eapply G_orsS; eauto.
  - (* and *)
    intros f q q' H. cbn [r_and] in H. apply in_app_or in H. destruct H as [H|H].
    + apply IHm in H. exact (G_and _ _ _ q [f] q' H).
    + destruct f as [|[|a [|b l]]| |]; try contradiction.
      apply IHm in H. exact (G_and _ _ _ q (a :: b :: l) q' H).
  - (* ms *)
    intros ts q q' H. cbn [r_ms] in H. destruct ts as [|t [|t2 ts']]; [contradiction| |].
    + apply G_ms1. now apply IHt.
    + apply in_flat_map in H. destruct H as (q1 & H1 & H).
      apply in_app_or in H. destruct H as [H|H].
      * eapply G_msJ; eauto.
      * apply in_flat_map in H. destruct H as (q2 & H2 & H).
        apply after_in in H2. destruct H2 as (o & Hrd & Ho).
        eapply G_msA; eauto.
  - (* match *)
    intros f q q' H. cbn [r_match] in H.
    apply in_app_or in H. destruct H as [H|H].
    { apply in_flat_map in H. destruct H as (q1 & H1 & H).
      apply in_flat_map in H. destruct H as (q2 & H2 & H).
      apply after_in in H1. destruct H1 as (o & Hrd & Ho).
      apply after_in in H. destruct H as (c & Hrd2 & Hc).
      eapply G_par; eauto. }
    apply in_app_or in H. destruct H as [H|H].
    { destruct f; try contradiction.
      apply in_flat_map in H. destruct H as (q1 & H1 & H).
      apply after_in in H1. destruct H1 as (o & Hrd & Ho).
      eapply G_not; eauto. }
    apply in_app_or in H. destruct H as [H|H].
    { destruct f as [|[|]| |]; try contradiction.
      apply after_in in H. destruct H as (o & Hrd & Ho).
      eapply G_star; eauto. }
    destruct (rd false q) as [[k q1]|] eqn:Hk; [|contradiction].
    destruct (is_word (t_kind k)) eqn:Hw; [|contradiction].
    apply in_flat_map in H. destruct H as (q2 & H2 & H).
    apply after_in in H2. destruct H2 as (c & Hrdc & Hc).
    destruct (rd true q2) as [[v q3]|] eqn:Hv; [|contradiction].
    apply in_app_or in H. destruct H as [H|H].
    + destruct (is_value (t_kind v)) eqn:Hval; cbn [andb] in H; [|contradiction].
      destruct (filter_eqb f (val_tree (t_off k) (t_text k) v)) eqn:Hf; [|contradiction].
      destruct H as [<-|[]]. apply filter_eqb_eq in Hf. subst f.
      eapply G_kv; eauto.
    + destruct (is_op c_lpar v) eqn:Hp; [|contradiction].
      destruct f; try contradiction.
      eapply G_kvs; eauto.
  - (* vals *)
    intros off key ms q q' H. cbn [r_vals] in H. destruct ms as [|mt ms']; [contradiction|].
    destruct (rd true q) as [[v q1]|] eqn:Hv; [|contradiction].
    destruct (is_value (t_kind v)) eqn:Hval; cbn [andb] in H; [|contradiction].
    destruct (filter_eqb mt (val_tree off key v)) eqn:Hf; [|contradiction].
    apply filter_eqb_eq in Hf. subst mt.
    destruct ms' as [|m2 ms''].
    + apply after_in in H. destruct H as (c & Hrd & Hc). eapply G_vals1; eauto.
    + apply in_flat_map in H. destruct H as (q2 & H2 & H).
      apply after_in in H2. destruct H2 as (o & Hrd & Ho).
      eapply G_valsS; eauto.
Qed.

End Sound.

(** the judge's check implies the declarative statement *)
Theorem grammar_ok_derives :
  forall is_space re_ok q f,
  grammar_ok is_space re_ok q f = true -> derives is_space re_ok (length q) q f.
Proof.
  intros sp re q f H. unfold grammar_ok in H. apply existsb_exists in H.
  destruct H as (q' & Hin & Hend).
  apply (proj1 (recogniser_sound sp re (length q) _)) in Hin.
  unfold at_end in Hend.
  destruct (after sp re (length q) false is_eof q') as [|r l] eqn:Ha; [discriminate|].
  assert (Hr : In r (after sp re (length q) false is_eof q')) by (rewrite Ha; now left).
  apply after_in in Hr. destruct Hr as (t & Hrd & Ht).
  exists q', t, r. auto.
Qed.
