(** The untied exact path of go-moremath's U-test (Model/MoreMathU.v
    [mw_counts], [udist_cdf], [utest]), structurally:

      - [ecount n m u], the solution of the Mann-Whitney recurrence
          c(n,m,u) = c(n-1,m,u-m) + c(n,m-1,u),  c(0,m,.) = c(n,0,.) = [u = 0],
        also satisfies the dual recurrence (peel the smallest pooled value
        instead of the largest), is symmetric in (n,m), symmetric under
        u <-> n*m - u, vanishes outside 0..n*m and sums to C(n+m, n);
      - the table [mw_counts lim n m] of the model holds exactly these counts;
      - the number of ways to split n+m distinct pooled values into samples of
        n and m with 2U = 2u is [ecount n m u] (dual recurrence on the sorted
        pool);
      - the rank-sum statistic of the model on untied samples is the pair
        count [two_u];
    hence for ALL untied samples within the exact limit (n1, n2 <= 50) the
    U-test's exact p is the exact permutation p-value (no enumeration), and on
    the untied branch 2*CDF(min(U1,U2)) is in [0,1] whatever U is. *)
From Coq Require Import ZArith List Bool Lia Sorting.Permutation Sorting.Sorted.
From Perf Require Import Base.Bytes Base.B64 Base.B64Order Model.StatsF Model.MoreMathU Model.BenchMath
     Model.BenchMathSpec Proofs.BenchMath Proofs.BenchMathMono Proofs.BenchMathPerm.
From Perf Require Model.UDistSpec Proofs.UDistSpec.
Import ListNotations.
Local Open Scope Z_scope.

(** * the Mann-Whitney counts *)
Definition ind0 (u : Z) : Z := if u =? 0 then 1 else 0.

Fixpoint ecount (n : nat) : nat -> Z -> Z :=
  fix em (m : nat) (u : Z) {struct m} : Z :=
    match n with
    | O => ind0 u
    | S n' => match m with
              | O => ind0 u
              | S m' => ecount n' m (u - Z.of_nat m) + em m' u
              end
    end.

Lemma ecount_0_l m u : ecount 0 m u = ind0 u.
Proof. destruct m; reflexivity. Qed.
Lemma ecount_0_r n u : ecount n 0 u = ind0 u.
Proof. destruct n; reflexivity. Qed.
Lemma ecount_SS n m u :
  ecount (S n) (S m) u = ecount n (S m) (u - Z.of_nat (S m)) + ecount (S n) m u.
Proof. reflexivity. Qed.

Lemma ecount_nonneg n : forall m u, 0 <= ecount n m u.
Proof.
  induction n as [|n IHn]; intros m u; [rewrite ecount_0_l; unfold ind0; destruct (u =? 0); lia|].
  induction m as [|m IHm]; [rewrite ecount_0_r; unfold ind0; destruct (u =? 0); lia|].
  rewrite ecount_SS. pose proof (IHn (S m) (u - Z.of_nat (S m))). lia.
Qed.

Lemma ecount_range n : forall m u, u < 0 \/ Z.of_nat n * Z.of_nat m < u -> ecount n m u = 0.
Proof.
  induction n as [|n IHn]; intros m u H.
  - rewrite ecount_0_l. unfold ind0. destruct (Z.eqb_spec u 0); lia.
  - induction m as [|m IHm].
    + rewrite ecount_0_r. unfold ind0. destruct (Z.eqb_spec u 0); lia.
    + rewrite ecount_SS, IHn, IHm; lia.
Qed.

(** one value in the first sample: every U from 0 to m once *)
Lemma ecount_1_l m u : ecount 1 m u = if (0 <=? u) && (u <=? Z.of_nat m) then 1 else 0.
Proof.
  induction m as [|m IH].
  - rewrite ecount_0_r. unfold ind0.
    destruct (Z.eqb_spec u 0), (Z.leb_spec 0 u), (Z.leb_spec u (Z.of_nat 0)); cbn; lia.
  - rewrite ecount_SS, ecount_0_l, IH. unfold ind0.
    destruct (Z.eqb_spec (u - Z.of_nat (S m)) 0), (Z.leb_spec 0 u), (Z.leb_spec u (Z.of_nat m)),
      (Z.leb_spec u (Z.of_nat (S m))); cbn; lia.
Qed.
Lemma ecount_1_r n u : ecount n 1 u = if (0 <=? u) && (u <=? Z.of_nat n) then 1 else 0.
Proof.
  revert u. induction n as [|n IH]; intros u.
  - rewrite ecount_0_l. unfold ind0.
    destruct (Z.eqb_spec u 0), (Z.leb_spec 0 u), (Z.leb_spec u (Z.of_nat 0)); cbn; lia.
  - rewrite ecount_SS, ecount_0_r, IH. unfold ind0.
    destruct (Z.eqb_spec u 0), (Z.leb_spec 0 u), (Z.leb_spec 0 (u - Z.of_nat 1)),
      (Z.leb_spec (u - Z.of_nat 1) (Z.of_nat n)), (Z.leb_spec u (Z.of_nat (S n))); cbn; lia.
Qed.

(** the dual recurrence: peel the smallest pooled value *)
Lemma ecount_dual n : forall m u,
  ecount (S n) (S m) u = ecount n (S m) u + ecount (S n) m (u - Z.of_nat (S n)).
Proof.
  induction n as [|n IHn]; intros m.
  - intros u. rewrite ecount_SS, !ecount_0_l, !ecount_1_l. unfold ind0.
    destruct (Z.eqb_spec (u - Z.of_nat (S m)) 0), (Z.eqb_spec u 0), (Z.leb_spec 0 u),
      (Z.leb_spec u (Z.of_nat m)), (Z.leb_spec 0 (u - Z.of_nat 1)),
      (Z.leb_spec (u - Z.of_nat 1) (Z.of_nat m)); cbn; lia.
  - induction m as [|m IHm]; intros u.
    + rewrite ecount_SS, !ecount_0_r, !ecount_1_r. unfold ind0.
      destruct (Z.eqb_spec u 0), (Z.eqb_spec (u - Z.of_nat (S (S n))) 0), (Z.leb_spec 0 u),
        (Z.leb_spec u (Z.of_nat (S n))), (Z.leb_spec 0 (u - Z.of_nat 1)),
        (Z.leb_spec (u - Z.of_nat 1) (Z.of_nat (S n))); cbn; lia.
    + rewrite (ecount_SS (S n) (S m) u).
      rewrite (IHn (S m) (u - Z.of_nat (S (S m)))), (IHm u).
      rewrite (ecount_SS n (S m) u), (ecount_SS (S n) m (u - Z.of_nat (S (S n)))).
      replace (u - Z.of_nat (S (S m)) - Z.of_nat (S n)) with (u - Z.of_nat (S (S n)) - Z.of_nat (S m)) by lia.
      lia.
Qed.

(** p_{n,m} = p_{m,n} *)
Lemma ecount_swap n : forall m u, ecount n m u = ecount m n u.
Proof.
  induction n as [|n IHn]; intros m u; [now rewrite ecount_0_l, ecount_0_r|].
  revert u. induction m as [|m IHm]; intros u; [now rewrite ecount_0_l, ecount_0_r|].
  rewrite ecount_SS, ecount_dual, IHn, IHm. lia.
Qed.

(** U and n*m - U are equally frequent *)
Lemma ecount_reflect n : forall m u, ecount n m (Z.of_nat n * Z.of_nat m - u) = ecount n m u.
Proof.
  induction n as [|n IHn]; intros m u.
  - rewrite !ecount_0_l. unfold ind0. destruct (Z.eqb_spec (Z.of_nat 0 * Z.of_nat m - u) 0), (Z.eqb_spec u 0); lia.
  - revert u. induction m as [|m IHm]; intros u.
    + rewrite !ecount_0_r. unfold ind0.
      destruct (Z.eqb_spec (Z.of_nat (S n) * Z.of_nat 0 - u) 0), (Z.eqb_spec u 0); lia.
    + rewrite ecount_SS, (ecount_dual n m u).
      replace (Z.of_nat (S n) * Z.of_nat (S m) - u - Z.of_nat (S m)) with (Z.of_nat n * Z.of_nat (S m) - u) by lia.
      replace (Z.of_nat (S n) * Z.of_nat (S m) - u)
        with (Z.of_nat (S n) * Z.of_nat m - (u - Z.of_nat (S n))) by lia.
      now rewrite IHn, IHm.
Qed.

(** * sums of counts *)
Fixpoint fsum (f : Z -> Z) (k : nat) : Z :=     (* f 0 + ... + f (k-1) *)
  match k with O => 0 | S k' => fsum f k' + f (Z.of_nat k') end.

Lemma fsum_ext f g k : (forall u, 0 <= u < Z.of_nat k -> f u = g u) -> fsum f k = fsum g k.
Proof.
  induction k as [|k IH]; intros H; [reflexivity|]. cbn [fsum]. rewrite IH, H; try lia; intros; apply H; lia.
Qed.
Lemma fsum_plus f g k : fsum (fun u => f u + g u) k = fsum f k + fsum g k.
Proof. induction k as [|k IH]; [reflexivity|]. cbn [fsum]. lia. Qed.
Lemma fsum_nonneg f k : (forall u, 0 <= f u) -> 0 <= fsum f k.
Proof. intros H. induction k as [|k IH]; cbn [fsum]; [lia|]. pose proof (H (Z.of_nat k)). lia. Qed.
Lemma fsum_mono f k k' : (forall u, 0 <= f u) -> (k <= k')%nat -> fsum f k <= fsum f k'.
Proof.
  intros H Hk. induction Hk as [|k' Hk IH]; [lia|]. cbn [fsum]. pose proof (H (Z.of_nat k')). lia.
Qed.
Lemma fsum_zero_tail f k k' :
  (k <= k')%nat -> (forall u, Z.of_nat k <= u -> f u = 0) -> fsum f k' = fsum f k.
Proof.
  intros Hk H. induction Hk as [|k' Hk IH]; [reflexivity|]. cbn [fsum]. rewrite IH, H; lia.
Qed.
(** a sum of shifted terms: the first d terms look at negative arguments *)
Lemma fsum_shift f (d : nat) k :
  (forall u, u < 0 -> f u = 0) ->
  fsum (fun u => f (u - Z.of_nat d)) (d + k) = fsum f k.
Proof.
  intros H. induction k as [|k IH].
  - rewrite Nat.add_0_r. cbn [fsum]. induction d as [|d IHd]; [reflexivity|].
    cbn [fsum]. rewrite H by lia. rewrite <- IHd at 2.
    rewrite Z.add_0_r. apply fsum_ext. intros u Hu. rewrite !H; lia.
  - replace (d + S k)%nat with (S (d + k)) by lia. cbn [fsum]. rewrite IH. f_equal. f_equal. lia.
Qed.
(** reversal *)
Lemma fsum_S_l g j : fsum g (S j) = g 0 + fsum (fun u => g (u + 1)) j.
Proof.
  induction j as [|j IHj]; [cbn; lia|].
  change (fsum g (S (S j))) with (fsum g (S j) + g (Z.of_nat (S j))). rewrite IHj. cbn [fsum].
  replace (Z.of_nat j + 1) with (Z.of_nat (S j)) by lia. lia.
Qed.
Lemma fsum_rev k : forall f, fsum f k = fsum (fun u => f (Z.of_nat k - 1 - u)) k.
Proof.
  induction k as [|k IH]; intros f; [reflexivity|].
  rewrite (fsum_S_l (fun u => f (Z.of_nat (S k) - 1 - u)) k).
  change (fsum f (S k)) with (fsum f k + f (Z.of_nat k)). rewrite (IH f).
  replace (Z.of_nat (S k) - 1 - 0) with (Z.of_nat k) by lia.
  rewrite (fsum_ext (fun u => f (Z.of_nat (S k) - 1 - (u + 1))) (fun u => f (Z.of_nat k - 1 - u)))
    by (intros u _; f_equal; lia).
  lia.
Qed.

(** Pascal's triangle (the specification's binomial, Model/UDistSpec.v) *)
Notation pascal := Perf.Model.UDistSpec.binom.

Lemma pascal_step a b : pascal (S a + S b) (S a) = pascal (a + S b) a + pascal (S a + b) (S a).
Proof. cbn [Nat.add Perf.Model.UDistSpec.binom]. replace (a + S b)%nat with (S (a + b)) by lia. reflexivity. Qed.

(** all the counts together: C(n+m, n) *)
Lemma ecount_total n : forall m k, (n * m < k)%nat ->
  fsum (ecount n m) k = pascal (n + m) n.
Proof.
  assert (One : forall k, (0 < k)%nat -> fsum ind0 k = 1).
  { intros k Hk. rewrite (fsum_zero_tail ind0 1 k); [reflexivity|lia|].
    intros u Hu. unfold ind0. destruct (Z.eqb_spec u 0); lia. }
  induction n as [|n IHn]; intros m k Hk.
  - rewrite (fsum_ext _ ind0) by (intros; apply ecount_0_l). rewrite One by lia.
    destruct (0 + m)%nat; reflexivity.
  - induction m as [|m IHm].
    + rewrite (fsum_ext _ ind0) by (intros; apply ecount_0_r). rewrite One by lia.
      rewrite Nat.add_0_r. symmetry. apply Perf.Proofs.UDistSpec.binom_nn.
    + rewrite (fsum_ext _ (fun u => ecount n (S m) (u - Z.of_nat (S m)) + ecount (S n) m u))
        by (intros; apply ecount_SS).
      rewrite fsum_plus.
      replace k with (S m + (k - S m))%nat at 1 by nia.
      rewrite (fsum_shift (ecount n (S m)) (S m) (k - S m)) by (intros; apply ecount_range; lia).
      rewrite IHn by nia. rewrite IHm by nia. symmetry. apply pascal_step.
Qed.

Lemma pascal_pos n : forall k, (k <= n)%nat -> 0 < pascal n k.
Proof.
  induction n as [|n IH]; intros [|k] Hk; cbn [Perf.Model.UDistSpec.binom]; try lia.
  pose proof (IH k ltac:(lia)). pose proof (Perf.Proofs.UDistSpec.binom_nonneg n (S k)). lia.
Qed.

(** the model's multiplicative binomial is Pascal's *)
Lemma binom_go_choose_loop n k : forall fuel i acc,
  i + Z.of_nat fuel = k + 1 ->
  binom_go fuel n i k acc = Perf.Model.UDistSpec.choose_loop (n - k) i fuel acc.
Proof.
  induction fuel as [|fuel IH]; intros i acc H; cbn [binom_go Perf.Model.UDistSpec.choose_loop]; [reflexivity|].
  destruct (Z.ltb_spec k i); [lia|]. apply IH. lia.
Qed.

Lemma binom_pascal n k : 0 <= k <= n -> binom n k = pascal (Z.to_nat n) (Z.to_nat k).
Proof.
  intros H. rewrite <- Perf.Proofs.UDistSpec.choose_binom by exact H.
  unfold binom, Perf.Model.UDistSpec.choose. destruct ((k <? 0) || (n <? k)); [reflexivity|].
  apply binom_go_choose_loop. lia.
Qed.

(** * the model's table holds these counts *)
Definition reps (lim : nat) (l : list Z) (f : Z -> Z) : Prop :=
  (length l <= lim)%nat /\ forall u, (u < lim)%nat -> nth u l 0 = f (Z.of_nat u).

Lemma reps_ext lim l f g : (forall u, f u = g u) -> reps lim l f -> reps lim l g.
Proof. intros E [H1 H2]. split; [exact H1|]. intros u Hu. rewrite <- E. now apply H2. Qed.

Lemma nth_ladd a : forall b u, nth u (ladd a b) 0 = nth u a 0 + nth u b 0.
Proof.
  induction a as [|x a IH]; intros b u; [destruct u; cbn; lia|].
  destruct b as [|y b]; [cbn [ladd]; destruct u; cbn; lia|].
  cbn [ladd]. destruct u as [|u]; [reflexivity|]. cbn [nth]. apply IH.
Qed.

Lemma nth_lshift d l u :
  nth u (lshift d l) 0 = if (u <? Z.to_nat d)%nat then 0 else nth (u - Z.to_nat d) l 0.
Proof.
  unfold lshift. destruct (Nat.ltb_spec u (Z.to_nat d)) as [H|H].
  - rewrite app_nth1 by (now rewrite repeat_length). apply nth_repeat.
  - rewrite app_nth2 by (now rewrite repeat_length). now rewrite repeat_length.
Qed.

Lemma nth_firstn_0 k : forall (l : list Z) u, nth u (firstn k l) 0 = if (u <? k)%nat then nth u l 0 else 0.
Proof.
  induction k as [|k IH]; intros l u; [cbn; now destruct u|].
  destruct l as [|x l]; [cbn [firstn]; destruct (u <? S k)%nat; destruct u; reflexivity|].
  cbn [firstn]. destruct u as [|u]; [reflexivity|]. cbn [nth]. rewrite IH. reflexivity.
Qed.

Lemma reps_step lim left up f g (d : nat) :
  (forall v, v < 0 -> f v = 0) ->
  reps lim left f -> reps lim up g ->
  reps lim (firstn lim (ladd (lshift (Z.of_nat d) left) up)) (fun u => f (u - Z.of_nat d) + g u).
Proof.
  intros Hneg [L1 L2] [U1 U2]. split.
  - rewrite firstn_length. lia.
  - intros u Hu. rewrite nth_firstn_0. destruct (Nat.ltb_spec u lim); [|lia].
    rewrite nth_ladd, nth_lshift, Nat2Z.id, (U2 u Hu).
    destruct (Nat.ltb_spec u d) as [H1|H1].
    + rewrite Hneg by lia. reflexivity.
    + rewrite L2 by lia. do 2 f_equal. lia.
Qed.

Lemma mw_row_reps lim (m : nat) : forall prev left n0,
  reps lim left (ecount n0 (S m)) ->
  (forall i, (i < length prev)%nat -> reps lim (nth i prev []) (ecount (S n0 + i) m)) ->
  length (mw_row lim (Z.of_nat (S m)) prev left) = length prev
  /\ forall i, (i < length prev)%nat ->
       reps lim (nth i (mw_row lim (Z.of_nat (S m)) prev left) []) (ecount (S n0 + i) (S m)).
Proof.
  induction prev as [|up prev IH]; intros left n0 Hl Hp; cbn [mw_row]; [split; [reflexivity|cbn; lia]|].
  set (cur := firstn lim (ladd (lshift (Z.of_nat (S m)) left) up)).
  assert (Hc : reps lim cur (ecount (S n0) (S m))).
  { apply reps_ext with (fun u => ecount n0 (S m) (u - Z.of_nat (S m)) + ecount (S n0) m u).
    - intros u. symmetry. apply ecount_SS.
    - apply reps_step; [intros; apply ecount_range; lia|exact Hl|].
      specialize (Hp O ltac:(cbn; lia)). cbn [nth] in Hp. now rewrite Nat.add_0_r in Hp. }
  destruct (IH cur (S n0) Hc) as [E1 E2].
  { intros i Hi. specialize (Hp (S i) ltac:(cbn; lia)). cbn [nth] in Hp.
    now replace (S n0 + S i)%nat with (S (S n0) + i)%nat in Hp by lia. }
  split; [cbn [length]; now rewrite E1|].
  intros [|i] Hi; cbn [nth].
  - now rewrite Nat.add_0_r.
  - replace (S n0 + S i)%nat with (S (S n0) + i)%nat by lia. apply E2. cbn in Hi. lia.
Qed.

Lemma mw_rows_reps lim N : forall fuel (m : nat) row,
  length row = S N ->
  (forall i, (i <= N)%nat -> reps lim (nth i row []) (ecount i m)) ->
  length (mw_rows lim fuel (Z.of_nat m) row) = S N
  /\ forall i, (i <= N)%nat -> reps lim (nth i (mw_rows lim fuel (Z.of_nat m) row) []) (ecount i (m + fuel)).
Proof.
  induction fuel as [|fuel IH]; intros m row Hlen Hrow; cbn [mw_rows].
  - rewrite Nat.add_0_r. auto.
  - destruct row as [|c0 rest]; [discriminate|]. cbn [length] in Hlen.
    replace (Z.of_nat m + 1) with (Z.of_nat (S m)) by lia.
    assert (H0 : reps lim c0 (ecount 0 (S m))).
    { apply reps_ext with (ecount 0 m); [intros; now rewrite !ecount_0_l|]. apply (Hrow O). lia. }
    destruct (mw_row_reps lim m rest c0 O H0) as [E1 E2].
    { intros i Hi. apply (Hrow (S i)). lia. }
    replace (m + S fuel)%nat with (S m + fuel)%nat by lia.
    apply IH.
    + cbn [length]. rewrite E1. exact Hlen.
    + intros [|i] Hi; cbn [nth]; [exact H0|]. apply E2. lia.
Qed.

Lemma nth_repeat_in {A} (a d : A) n i : (i < n)%nat -> nth i (repeat a n) d = a.
Proof. revert i. induction n as [|n IH]; intros [|i] H; cbn; try lia; auto. apply IH. lia. Qed.

Lemma reps_one lim i : (1 <= lim)%nat -> reps lim [1] (ecount i 0).
Proof.
  intros H. split; [cbn; lia|]. intros u Hu. rewrite ecount_0_r. unfold ind0.
  destruct u as [|u]; [reflexivity|]. cbn [nth].
  destruct (Z.eqb_spec (Z.of_nat (S u)) 0); [lia|]. destruct u; reflexivity.
Qed.

Theorem mw_counts_are_ecount lim n m :
  (1 <= lim)%nat -> 0 <= n -> 0 <= m ->
  reps lim (mw_counts lim n m) (ecount (Z.to_nat n) (Z.to_nat m)).
Proof.
  intros Hlim Hn Hm. unfold mw_counts.
  assert (G : forall a b, 0 <= a -> 0 <= b ->
            reps lim (nth (Z.to_nat a) (mw_rows lim (Z.to_nat b) 0 (repeat [1] (S (Z.to_nat a)))) [])
                 (ecount (Z.to_nat a) (Z.to_nat b))).
  { intros a b Ha Hb.
    destruct (mw_rows_reps lim (Z.to_nat a) (Z.to_nat b) O (repeat [1] (S (Z.to_nat a)))) as [_ E].
    - apply repeat_length.
    - intros i Hi. rewrite nth_repeat_in by lia. now apply reps_one.
    - apply (E (Z.to_nat a)). lia. }
  destruct (n <=? m).
  - now apply G.
  - apply reps_ext with (ecount (Z.to_nat m) (Z.to_nat n)); [intros; apply ecount_swap|]. now apply G.
Qed.

Lemma zsum_reps lim : forall l f, reps lim l f -> zsum l = fsum f lim.
Proof.
  induction lim as [|lim IH]; intros l f [H1 H2].
  - destruct l; [reflexivity|cbn in H1; lia].
  - rewrite fsum_S_l. destruct l as [|x l].
    + rewrite zsum_nil. pose proof (H2 O ltac:(lia)) as H0. cbn [nth Z.of_nat] in H0. rewrite <- H0.
      rewrite (fsum_ext _ (fun _ => 0)).
      * clear. induction lim; cbn [fsum]; lia.
      * intros u Hu. replace (u + 1) with (Z.of_nat (S (Z.to_nat u))) by lia.
        rewrite <- H2 by lia. reflexivity.
    + rewrite zsum_cons. pose proof (H2 O ltac:(lia)) as H0. cbn [nth Z.of_nat] in H0. rewrite <- H0. f_equal.
      apply IH. split; [cbn in H1; lia|]. intros u Hu.
      replace (Z.of_nat u + 1) with (Z.of_nat (S u)) by lia. rewrite <- H2 by lia. reflexivity.
Qed.

(** * the untied branch of UDist.CDF: 2 * CDF(U) <= 1 for every U < n1*n2/2 *)
Lemma fsum_split f a k : fsum f (a + k) = fsum f a + fsum (fun u => f (u + Z.of_nat a)) k.
Proof.
  induction k as [|k IH]; [rewrite Nat.add_0_r; cbn; lia|].
  replace (a + S k)%nat with (S (a + k)) by lia. cbn [fsum]. rewrite IH.
  replace (Z.of_nat (a + k)) with (Z.of_nat k + Z.of_nat a) by lia. lia.
Qed.

Lemma ecount_half_tail (n m K : nat) :
  (2 * K <= n * m + 1)%nat -> 2 * fsum (ecount n m) K <= pascal (n + m) n.
Proof.
  intros HK. rewrite <- (ecount_total n m (S (n * m))) by lia.
  replace (S (n * m)) with (K + (S (n * m) - K))%nat by lia. rewrite fsum_split.
  set (R := (S (n * m) - K)%nat).
  rewrite (fsum_rev R (fun u => ecount n m (u + Z.of_nat K))).
  rewrite (fsum_ext (fun u => ecount n m (Z.of_nat R - 1 - u + Z.of_nat K)) (ecount n m)).
  - pose proof (fsum_mono (ecount n m) K R (ecount_nonneg n m) ltac:(unfold R; lia)). lia.
  - intros u Hu. rewrite <- (ecount_reflect n m u). f_equal. unfold R in *. nia.
Qed.

Theorem untied_cdf_le_half n1 n2 twoU :
  1 <= n1 -> 1 <= n2 -> 0 <= twoU < n1 * n2 ->
  let c := zsum (mw_counts (Z.to_nat (twoU / 2 + 1)) n1 n2) in
  0 <= c /\ 2 * c <= binom (n1 + n2) n1 /\ 0 < binom (n1 + n2) n1.
Proof.
  intros H1 H2 HU c.
  assert (Hdiv : 0 <= twoU / 2 /\ 2 * (twoU / 2) <= twoU) by (Z.div_mod_to_equations; lia).
  pose proof (mw_counts_are_ecount (Z.to_nat (twoU / 2 + 1)) n1 n2 ltac:(lia) ltac:(lia) ltac:(lia)) as R.
  apply zsum_reps in R. fold c in R.
  rewrite binom_pascal by lia. replace (Z.to_nat (n1 + n2)) with (Z.to_nat n1 + Z.to_nat n2)%nat by lia.
  rewrite R. repeat split.
  - apply fsum_nonneg, ecount_nonneg.
  - apply ecount_half_tail. nia.
  - apply pascal_pos. lia.
Qed.

(** * P in [0,1] outside the two known-finding domains *)
(** finding C13_moremath_tied_exact_path: the U-test takes the exact path with ties *)
Definition tied_exact_domain (x1 x2 : list b64) : bool :=
  let s := u_statistic x1 x2 in
  us_ties s && (us_n1 s <=? mw_ties_exact_limit) && (us_n2 s <=? mw_ties_exact_limit).

(** finding C13_normal_compare_overflow_panic: Welch's test reaches TDist.CDF with
    NaN/Inf degrees of freedom *)
Definition welch_panic_domain (x1 x2 : list b64) : bool :=
  negb (b64_le (weight_f x1) b64_one || b64_le (weight_f x2) b64_one)
  && negb (b64_eq (variance_f x1) f_zero && b64_eq (variance_f x2) f_zero)
  && tcdf_panics (w_dof (welch_stats x1 x2)) (w_t (welch_stats x1 x2)).

Definition in01 (p : b64) : Prop := b64_le f_zero p = true /\ b64_le p b64_one = true.

Lemma u_statistic_sizes x1 x2 :
  us_n1 (u_statistic x1 x2) = zlen x1 /\ us_n2 (u_statistic x1 x2) = zlen x2.
Proof. unfold u_statistic. destruct (rank_loop _ _ _ _ _ _) as [[a b] c]. split; reflexivity. Qed.

(** outside the tied exact path the U-test never panics and an exact result is
    a rational in [0,1] *)
Lemma utest_outside_tied x1 x2 :
  tied_exact_domain x1 x2 = false ->
  match utest x1 x2 with
  | UPanic => False
  | UExactP num den => 0 <= num <= den /\ 0 < den
  | _ => True
  end.
Proof.
  intros Hd. unfold utest. destruct x1 as [|a x1]; [exact I|]. destruct x2 as [|b x2]; [exact I|].
  set (X1 := a :: x1) in *. set (X2 := b :: x2) in *.
  destruct (u_statistic_sizes X1 X2) as [E1 E2].
  assert (P1 : 1 <= zlen X1) by (unfold X1, zlen; cbn [length]; lia).
  assert (P2 : 1 <= zlen X2) by (unfold X2, zlen; cbn [length]; lia).
  unfold tied_exact_domain in Hd.
  set (s := u_statistic X1 X2) in *. rewrite E1, E2 in *.
  unfold u_path. rewrite E1, E2.
  destruct (us_ties s) eqn:Ties; cbn [negb andb orb] in *.
  - (* ties: only the approximation remains *)
    rewrite Hd. destruct (b64_eq _ _); exact I.
  - destruct ((zlen X1 <=? mw_exact_limit) && (zlen X2 <=? mw_exact_limit)).
    + destruct (zlen (us_T s) =? 1); [exact I|].
      destruct (Z.eqb_spec (us_twoU1 s) (2 * zlen X1 * zlen X2 - us_twoU1 s)) as [Eq|Ne]; [repeat split; lia|].
      unfold udist_cdf.
      set (tu := Z.min (us_twoU1 s) (2 * zlen X1 * zlen X2 - us_twoU1 s)).
      destruct (Z.ltb_spec tu 0); [repeat split; lia|].
      destruct (Z.leb_spec (2 * zlen X1 * zlen X2) tu); [exfalso; unfold tu in *; nia|].
      pose proof (untied_cdf_le_half (zlen X1) (zlen X2) tu P1 P2 ltac:(unfold tu in *; nia)) as H3.
      cbn zeta in H3. repeat split; lia.
    + destruct (b64_eq _ _); exact I.
Qed.

Lemma in01_one : in01 b64_one.
Proof. split; reflexivity. Qed.
Lemma in01_zero : in01 f_zero.
Proof. split; reflexivity. Qed.

Theorem p_in_unit_interval_model a s1 s2 p_u p_w :
  tied_exact_domain (s_values s1) (s_values s2) = false ->
  welch_panic_domain (s_values s1) (s_values s2) = false ->
  exists c, compare (utest_outcome p_u) (welch_outcome p_w) a s1 s2 = Some c
    /\ (a = ANothing -> forall num den,
          utest (s_values s1) (s_values s2) = UExactP num den -> 0 <= num <= den /\ 0 < den)
    /\ (in01 p_u -> in01 p_w -> in01 (c_p c)).
Proof.
  intros Ht Hw. destruct a; cbn [compare].
  - (* nothing: the U-test *)
    unfold compare_nothing, utest_outcome.
    pose proof (utest_outside_tied _ _ Ht) as H.
    destruct (utest (s_values s1) (s_values s2)) as [| | |num den|] eqn:U; cbn [utest_outcome_of];
      try (eexists; split; [reflexivity|split; [intros _ ? ? [=]|intros; cbn [c_p]; auto using in01_one]]).
    + destruct H.
    + subst. exact H.
  - eexists. split; [reflexivity|]. split; [discriminate|]. intros _ _. apply in01_zero.
  - (* normal: Welch *)
    unfold compare_normal, welch_outcome. unfold welch_panic_domain in Hw.
    destruct (b64_le (weight_f _) b64_one || b64_le (weight_f _) b64_one); cbn [negb andb] in Hw.
    { eexists. split; [reflexivity|]. split; [discriminate|]. intros; apply in01_one. }
    destruct (b64_eq (variance_f _) f_zero && b64_eq (variance_f _) f_zero); cbn [negb andb] in Hw.
    { eexists. split; [reflexivity|]. split; [discriminate|]. intros; apply in01_one. }
    rewrite Hw. eexists. split; [reflexivity|]. split; [discriminate|]. intros; cbn [c_p]; auto.
Qed.

(** the witnesses of the two findings are inside their domains *)
Example finding_domains_inhabited :
  tied_exact_domain [fl 2] [fl 1; fl 1; fl 1] = true
  /\ welch_panic_domain overflow_x1 overflow_x2 = true.
Proof. vm_compute. split; reflexivity. Qed.

(** * splitting distinct pooled values: the counts are [ecount] *)
Definition ltP (a b : b64) : Prop := b64_lt a b = true.

Lemma lt_true_nonnan x y : b64_lt x y = true -> nonnan x /\ nonnan y.
Proof.
  unfold b64_lt, SFltb, nonnan. intros H. split; intros ->; [discriminate H|].
  destruct x as [s|s| |s m e]; try destruct s; discriminate H.
Qed.

Lemma lt_not_gt_eq x y : b64_lt x y = true -> b64_lt y x = false /\ b64_eq x y = false /\ b64_eq y x = false.
Proof.
  intros H. destruct (lt_true_nonnan x y H) as [Nx Ny].
  apply (lt_key x y Nx Ny) in H. apply klt_not_kle in H.
  repeat split.
  - destruct (b64_lt y x) eqn:E; [|reflexivity]. exfalso. apply H. left. now apply (lt_key y x Ny Nx).
  - destruct (b64_eq x y) eqn:E; [|reflexivity]. exfalso. apply H. right. symmetry. now apply (eq_key x y Nx Ny).
  - destruct (b64_eq y x) eqn:E; [|reflexivity]. exfalso. apply H. right. now apply (eq_key y x Ny Nx).
Qed.

Lemma row_zero x r : (forall y, In y r -> b64_lt x y = true) -> row x r = 0.
Proof.
  intros H. unfold row. induction r as [|y r IH]; [reflexivity|]. cbn [map]. rewrite zsum_cons, IH.
  - unfold score. destruct (lt_not_gt_eq x y (H y (or_introl eq_refl))) as (-> & -> & _). reflexivity.
  - intros z Hz. apply H. now right.
Qed.

Lemma col_two x c : (forall y, In y c -> b64_lt x y = true) -> col x c = 2 * zlen c.
Proof.
  intros H. unfold col. induction c as [|y c IH]; [reflexivity|]. cbn [map]. rewrite zsum_cons, IH.
  - unfold score. rewrite (H y (or_introl eq_refl)). unfold zlen. cbn [length]. lia.
  - intros z Hz. apply H. now right.
Qed.

Lemma count_if_app {A} (f : A -> bool) l1 l2 : count_if f (l1 ++ l2) = count_if f l1 + count_if f l2.
Proof. induction l1 as [|x l1 IH]; [reflexivity|]. cbn [app]. rewrite !count_if_cons, IH. lia. Qed.

(** the smallest pooled value goes to the first sample (U unchanged) or to
    the second (every first-sample value beats it) *)
Lemma split_us_cons k x l :
  (forall y, In y l -> b64_lt x y = true) -> (k <= length l)%nat ->
  split_us (S k) (x :: l) = split_us k l ++ map (fun v => v + 2 * Z.of_nat (S k)) (split_us (S k) l).
Proof.
  intros Hx Hk. unfold split_us. rewrite splits_cons.
  replace (Nat.ltb (length (x :: l)) (S k)) with false by (symmetry; apply Nat.ltb_ge; cbn; lia).
  rewrite map_app, !map_map. f_equal.
  - apply map_ext_in. intros (c, r) Hin. unfold consc. cbn [fst snd]. apply splits_in in Hin. destruct Hin as (_ & _ & _ & Hr).
    rewrite two_u_cons_l, row_zero; [lia|]. intros y Hy. apply Hx, Hr, Hy.
  - apply map_ext_in. intros (c, r) Hin. unfold consr. cbn [fst snd]. apply splits_in in Hin. destruct Hin as (Hc & _ & Hi & _).
    rewrite two_u_cons_r, col_two; [unfold zlen; rewrite Hc; lia|]. intros y Hy. apply Hx, Hi, Hy.
Qed.

Definition wsum (P : Z -> bool) (n m K : nat) : Z :=
  fsum (fun w => if P (2 * w) then ecount n m w else 0) K.

Lemma wsum_indep P n m K K' : (n * m < K)%nat -> (n * m < K')%nat -> wsum P n m K = wsum P n m K'.
Proof.
  intros H H'. unfold wsum.
  rewrite (fsum_zero_tail _ (S (n * m)) K), (fsum_zero_tail _ (S (n * m)) K'); try lia; auto;
    intros u Hu; rewrite ecount_range by lia; now destruct (P _).
Qed.

Lemma wsum_0_l P m K : (0 < K)%nat -> wsum P 0 m K = if P 0 then 1 else 0.
Proof.
  intros H. rewrite (wsum_indep P 0 m K 1) by lia. unfold wsum. cbn [fsum Z.of_nat].
  rewrite ecount_0_l. change (2 * 0) with 0. unfold ind0. cbn. destruct (P 0); reflexivity.
Qed.
Lemma wsum_0_r P n K : (0 < K)%nat -> wsum P n 0 K = if P 0 then 1 else 0.
Proof.
  intros H. rewrite (wsum_indep P n 0 K 1) by lia. unfold wsum. cbn [fsum Z.of_nat].
  rewrite ecount_0_r. change (2 * 0) with 0. unfold ind0. cbn. destruct (P 0); reflexivity.
Qed.

Lemma wsum_dual P n m K : (S n * S m < K)%nat ->
  wsum P (S n) (S m) K
  = wsum P n (S m) K + wsum (fun v => P (v + 2 * Z.of_nat (S n))) (S n) m (K - S n).
Proof.
  intros HK. unfold wsum.
  rewrite (fsum_ext _ (fun w => (if P (2 * w) then ecount n (S m) w else 0)
                               + (if P (2 * w) then ecount (S n) m (w - Z.of_nat (S n)) else 0))).
  2:{ intros w _. rewrite ecount_dual. destruct (P (2 * w)); lia. }
  rewrite fsum_plus. f_equal.
  set (g := fun w => if P (2 * w + 2 * Z.of_nat (S n)) then ecount (S n) m w else 0).
  rewrite (fsum_ext _ (fun u => g (u - Z.of_nat (S n)))).
  2:{ intros w _. unfold g. replace (2 * (w - Z.of_nat (S n)) + 2 * Z.of_nat (S n)) with (2 * w) by lia. reflexivity. }
  replace K with (S n + (K - S n))%nat at 1 by nia.
  rewrite (fsum_shift g (S n) (K - S n)).
  - reflexivity.
  - intros u Hu. unfold g. rewrite ecount_range by lia. now destruct (P _).
Qed.

Theorem splits_count : forall l,
  StronglySorted ltP l ->
  forall n P K, (n <= length l)%nat -> (n * (length l - n) < K)%nat ->
  count_if P (split_us n l) = wsum P n (length l - n) K.
Proof.
  induction l as [|x l IH]; intros Hs n P K Hn HK.
  - assert (n = O) by (cbn in Hn; lia). subst n. rewrite wsum_0_l by lia.
    unfold split_us. cbn. rewrite count_if_cons. cbn. lia.
  - destruct n as [|k].
    + rewrite wsum_0_l by lia. unfold split_us. rewrite splits_0. cbn [map fst snd].
      rewrite two_u_nil_l, count_if_cons. cbn. lia.
    + inversion Hs as [|? ? Hs' Hx]; subst. rewrite Forall_forall in Hx.
      cbn [length] in *.
      rewrite split_us_cons by (auto; lia).
      rewrite count_if_app, count_if_map.
      destruct (Nat.eq_dec k (length l)) as [->|Hne].
      * (* everything else already in the first sample *)
        unfold split_us at 2. rewrite splits_gt by lia. cbn [map]. change (count_if _ []) with 0.
        rewrite (IH Hs' (length l) P 1%nat) by lia.
        rewrite Nat.sub_diag. replace (S (length l) - S (length l))%nat with O by lia.
        rewrite !wsum_0_r by lia. lia.
      * replace (S (length l) - S k)%nat with (S (length l - S k)) in * by lia.
        rewrite wsum_dual by nia.
        rewrite (IH Hs' k P K) by nia.
        rewrite (IH Hs' (S k) (fun a => P (a + 2 * Z.of_nat (S k))) (K - S k)%nat) by nia.
        replace (length l - k)%nat with (S (length l - S k)) by lia. reflexivity.
Qed.

(** * untied samples: the rank-sum statistic is the pair count *)
(** no two pooled values are equal (Go's [==]) *)
Definition untied (l : list b64) : Prop := ForallOrdPairs (fun a b => b64_eq a b = false) l.

Definition neq2 (a b : b64) : Prop := b64_eq a b = false /\ b64_eq b a = false.

Lemma FOP_cons_iff {A} (R : A -> A -> Prop) x l :
  ForallOrdPairs R (x :: l) <-> Forall (R x) l /\ ForallOrdPairs R l.
Proof. split; [intros H; inversion H; auto|intros [H1 H2]; now constructor]. Qed.

Lemma FOP_perm {A} (R : A -> A -> Prop) (Rs : forall a b, R a b -> R b a) l l' :
  Permutation l l' -> ForallOrdPairs R l -> ForallOrdPairs R l'.
Proof.
  induction 1 as [|x l l' Hp IH|x y l|l l' l'' Hp1 IH1 Hp2 IH2]; intros H.
  - exact H.
  - apply FOP_cons_iff in H. destruct H as [Ha Hb]. apply FOP_cons_iff. split; [|auto].
    eapply Forall_perm; eauto.
  - apply FOP_cons_iff in H. destruct H as [Hy Hr]. apply FOP_cons_iff in Hr. destruct Hr as [Hx Hr].
    inversion Hy; subst. apply FOP_cons_iff. split; [constructor; auto|]. apply FOP_cons_iff. auto.
  - auto.
Qed.

Lemma untied_neq2 l : Forall nonnan l -> untied l -> ForallOrdPairs neq2 l.
Proof.
  intros Nn. induction l as [|x l IH]; intros H; [constructor|].
  inversion Nn as [|? ? Nx Nl]; subst. apply FOP_cons_iff in H. destruct H as [Ha Hb].
  apply FOP_cons_iff. split; [|auto].
  rewrite Forall_forall in *. intros y Hy. split; [auto|]. rewrite b64_eq_sym by auto. auto.
Qed.

Lemma not_lt_ge x y : nonnan x -> nonnan y -> b64_lt x y = false -> b64_le y x = true.
Proof.
  intros Nx Ny H. apply le_key; auto.
  destruct (kle_total (key y) (key x)) as [K|K]; [exact K|].
  destruct K as [K|K]; [|right; now symmetry].
  apply (lt_key x y Nx Ny) in K. unfold b64_lt in *. congruence.
Qed.

Lemma le_neq_lt x y : nonnan x -> nonnan y -> b64_le x y = true -> b64_eq x y = false -> b64_lt x y = true.
Proof.
  intros Nx Ny L E. apply le_key in L; auto. apply lt_key; auto.
  destruct L as [L|L]; [exact L|]. apply (eq_key x y Nx Ny) in L. congruence.
Qed.

Lemma sorted_untied_strict l :
  Forall nonnan l -> StronglySorted leP l -> ForallOrdPairs neq2 l -> StronglySorted ltP l.
Proof.
  intros Nn Hs. induction Hs as [|x l Hs IH Hx]; intros Hu; [constructor|].
  inversion Nn as [|? ? Nx Nl]; subst. apply FOP_cons_iff in Hu. destruct Hu as [Ha Hb].
  constructor; [auto|]. rewrite Forall_forall in *. intros y Hy.
  apply le_neq_lt; auto. - now apply Hx. - now apply Ha.
Qed.

(** ** labeledMerge *)
Definition trues (L : list (b64 * bool)) : list b64 := map fst (filter snd L).
Definition falses (L : list (b64 * bool)) : list b64 := map fst (filter (fun p => negb (snd p)) L).

Lemma trues_tag_true l : trues (map (fun v => (v, true)) l) = l.
Proof. unfold trues. induction l; cbn; congruence. Qed.
Lemma trues_tag_false l : trues (map (fun v => (v, false)) l) = [].
Proof. unfold trues. induction l; cbn; congruence. Qed.
Lemma falses_tag_true l : falses (map (fun v => (v, true)) l) = [].
Proof. unfold falses. induction l; cbn; congruence. Qed.
Lemma falses_tag_false l : falses (map (fun v => (v, false)) l) = l.
Proof. unfold falses. induction l; cbn; congruence. Qed.

Lemma lmerge_split a : forall b, trues (lmerge a b) = a /\ falses (lmerge a b) = b.
Proof.
  induction a as [|x a IHa]; intros b.
  - destruct b; cbn [lmerge]; [split; reflexivity|]. split; [apply trues_tag_false|apply falses_tag_false].
  - induction b as [|y b IHb].
    + cbn [lmerge]. split; [apply (trues_tag_true (x :: a))|apply (falses_tag_true (x :: a))].
    + cbn [lmerge]. destruct (b64_lt x y).
      * destruct (IHa (y :: b)) as [E1 E2]. unfold trues, falses in *.
        cbn [filter map fst snd negb]. split; congruence.
      * destruct IHb as [E1 E2]. unfold trues, falses in *.
        cbn [filter map fst snd negb]. split; [exact E1|f_equal; exact E2].
Qed.

Lemma lmerge_values_perm a : forall b, Permutation (map fst (lmerge a b)) (a ++ b).
Proof.
  induction a as [|x a IHa]; intros b.
  - destruct b; cbn [lmerge]; [constructor|]. rewrite map_map. cbn. rewrite map_id. apply Permutation_refl.
  - induction b as [|y b IHb].
    + cbn [lmerge]. rewrite map_map. cbn [fst]. rewrite map_id, app_nil_r. apply Permutation_refl.
    + cbn [lmerge]. destruct (b64_lt x y); cbn [map fst].
      * constructor. apply (IHa (y :: b)).
      * eapply perm_trans; [constructor; apply IHb|]. apply (Permutation_middle (x :: a) b y).
Qed.

Definition vle (p q : b64 * bool) : Prop := leP (fst p) (fst q).
Definition vlt (p q : b64 * bool) : Prop := ltP (fst p) (fst q).

Lemma lmerge_sorted a : forall b,
  Forall nonnan a -> Forall nonnan b -> StronglySorted leP a -> StronglySorted leP b ->
  StronglySorted leP (map fst (lmerge a b)).
Proof.
  induction a as [|x a IHa]; intros b Na Nb Sa Sb.
  - destruct b; cbn [lmerge]; [constructor|]. rewrite map_map. cbn [fst]. now rewrite map_id.
  - induction b as [|y b IHb].
    + cbn [lmerge]. rewrite map_map. cbn [fst]. now rewrite map_id.
    + inversion Na as [|? ? Nx Na']; subst. inversion Nb as [|? ? Ny Nb']; subst.
      inversion Sa as [|? ? Sa' Hx]; subst. inversion Sb as [|? ? Sb' Hy]; subst.
      cbn [lmerge]. destruct (b64_lt x y) eqn:L; cbn [map fst].
      * constructor; [apply (IHa (y :: b)); auto|].
        assert (Lxy : leP x y).
        { apply lt_key in L; auto. apply le_key; auto. now left. }
        eapply Forall_perm; [symmetry; apply (lmerge_values_perm a (y :: b))|].
        apply Forall_app. split; [exact Hx|]. constructor; [exact Lxy|].
        rewrite Forall_forall in *. intros z Hz. apply b64_le_trans with y; auto. now apply Hy.
      * constructor; [apply IHb; auto|].
        assert (Lyx : leP y x) by (now apply not_lt_ge).
        eapply Forall_perm; [symmetry; apply (lmerge_values_perm (x :: a) b)|].
        apply Forall_app. split; [|exact Hy]. constructor; [exact Lyx|].
        rewrite Forall_forall in *. intros z Hz. apply b64_le_trans with x; auto. now apply Hx.
Qed.

(** ** the rank loop on strictly increasing values *)
Fixpoint ranksum (i : Z) (L : list (b64 * bool)) : Z :=
  match L with
  | [] => 0
  | (_, lab) :: L' => (if lab then 2 * (i + 1) else 0) + ranksum (i + 1) L'
  end.

Lemma take_run_strict v lab L :
  nonnan v -> Forall (fun p => b64_lt v (fst p) = true) L ->
  take_run v ((v, lab) :: L) = (1, (if lab then 1 else 0), L).
Proof.
  intros Nv H. cbn [take_run]. rewrite (b64_eq_refl v Nv).
  assert (E : take_run v L = (0, 0, L)).
  { destruct L as [|[w l2] L']; [reflexivity|]. cbn [take_run]. inversion H; subst. cbn [fst] in *.
    destruct (lt_not_gt_eq v w ltac:(assumption)) as (_ & _ & ->). reflexivity. }
  rewrite E. reflexivity.
Qed.

Lemma rank_loop_strict : forall fuel i L twoR1 T ties,
  (length L <= fuel)%nat -> Forall nonnan (map fst L) -> StronglySorted ltP (map fst L) ->
  rank_loop fuel i L twoR1 T ties = (twoR1 + ranksum i L, T ++ repeat 1 (length L), ties).
Proof.
  induction fuel as [|fuel IH]; intros i L twoR1 T ties Hlen Nn Hs.
  - destruct L; [|cbn in Hlen; lia]. cbn. now rewrite app_nil_r, Z.add_0_r.
  - destruct L as [|[v lab] L]; [cbn; now rewrite app_nil_r, Z.add_0_r|].
    cbn [map fst] in Nn, Hs. inversion Nn as [|? ? Nv Nn']; subst. inversion Hs as [|? ? Hs' Hv]; subst.
    cbn [rank_loop]. rewrite take_run_strict; [|exact Nv|].
    2:{ rewrite Forall_map in Hv. exact Hv. }
    cbn [Z.eqb]. rewrite (IH (i + 1) L) by (auto; cbn in Hlen; lia).
    cbn [ranksum length repeat]. rewrite <- app_assoc. cbn [app]. rewrite orb_false_r.
    f_equal. f_equal. destruct lab; lia.
Qed.

Lemma ranksum_formula : forall L i,
  StronglySorted ltP (map fst L) ->
  ranksum i L = two_u (trues L) (falses L) + 2 * i * zlen (trues L) + zlen (trues L) * (zlen (trues L) + 1).
Proof.
  induction L as [|[v lab] L IH]; intros i Hs.
  { change (trues []) with (@nil b64). change (falses []) with (@nil b64). rewrite two_u_nil_l.
    unfold zlen. cbn [ranksum length Z.of_nat]. lia. }
  cbn [map fst] in Hs. inversion Hs as [|? ? Hs' Hv]; subst. rewrite Forall_forall in Hv.
  cbn [ranksum]. rewrite (IH (i + 1) Hs').
  assert (Hin : forall z, In z (trues L) \/ In z (falses L) -> b64_lt v z = true).
  { intros z Hz. apply Hv. unfold trues, falses in Hz.
    destruct Hz as [Hz|Hz]; apply in_map_iff in Hz; destruct Hz as (p & <- & Hp); apply filter_In in Hp;
      apply in_map; tauto. }
  destruct lab.
  - change (trues ((v, true) :: L)) with (v :: trues L). change (falses ((v, true) :: L)) with (falses L).
    rewrite two_u_cons_l, row_zero by auto. unfold zlen. cbn [length]. lia.
  - change (trues ((v, false) :: L)) with (trues L). change (falses ((v, false) :: L)) with (v :: falses L).
    rewrite two_u_cons_r, col_two by auto. lia.
Qed.

Lemma zsum_perm l l' : Permutation l l' -> zsum l = zsum l'.
Proof. induction 1; rewrite ?zsum_cons; lia. Qed.

Lemma two_u_perm c c' r r' : Permutation c c' -> Permutation r r' -> two_u c r = two_u c' r'.
Proof.
  intros Hc Hr. unfold two_u. rewrite (zsum_perm _ _ (Permutation_map _ Hc)).
  f_equal. apply map_ext. intros x. apply zsum_perm. now apply Permutation_map.
Qed.

(** MannWhitneyUTest's U1, tie vector and tie flag on untied samples *)
Theorem u_statistic_untied x1 x2 :
  Forall nonnan (x1 ++ x2) -> untied (x1 ++ x2) ->
  u_statistic x1 x2
  = mkUstat (zlen x1) (zlen x2) (two_u x1 x2) (repeat 1 (length x1 + length x2)) false.
Proof.
  intros Nn Hu. unfold u_statistic.
  apply Forall_app in Nn as Nn12. destruct Nn12 as [N1 N2].
  set (a := sort_f x1). set (b := sort_f x2). set (m := lmerge a b).
  assert (Na : Forall nonnan a) by now apply sort_f_Forall.
  assert (Nb : Forall nonnan b) by now apply sort_f_Forall.
  assert (Pm : Permutation (map fst m) (x1 ++ x2)).
  { eapply perm_trans; [apply lmerge_values_perm|].
    apply Permutation_app; symmetry; apply sort_f_perm. }
  assert (Nm : Forall nonnan (map fst m)) by (eapply Forall_perm; [symmetry; exact Pm|exact Nn]).
  assert (Sm : StronglySorted ltP (map fst m)).
  { apply sorted_untied_strict; auto.
    - apply lmerge_sorted; auto; now apply sort_f_sorted.
    - apply (FOP_perm neq2) with (x1 ++ x2); [intros ? ? []; split; auto|now symmetry|now apply untied_neq2]. }
  rewrite (rank_loop_strict (length m) 0 m 0 [] false (le_n _) Nm Sm).
  rewrite (ranksum_formula m 0 Sm).
  destruct (lmerge_split a b) as [Et Ef]. fold m in Et, Ef. rewrite Et, Ef.
  assert (La : zlen a = zlen x1) by (unfold zlen, a; now rewrite <- (Permutation_length (sort_f_perm x1))).
  assert (Lm : length m = (length x1 + length x2)%nat).
  { rewrite <- (map_length fst m), (Permutation_length Pm). apply app_length. }
  rewrite La, Lm. cbn [app].
  rewrite (two_u_perm a x1 b x2) by (symmetry; apply sort_f_perm).
  f_equal. lia.
Qed.

(** * the exact untied path returns the exact permutation p-value *)
Lemma row_nonneg x r : 0 <= row x r.
Proof.
  unfold row. induction r as [|y r IH]; [cbn; lia|]. cbn [map]. rewrite zsum_cons.
  unfold score at 1. destruct (b64_lt y x), (b64_eq x y); lia.
Qed.
Lemma two_u_nonneg c r : 0 <= two_u c r.
Proof.
  induction c as [|x c IH]; [rewrite two_u_nil_l; lia|]. rewrite two_u_cons_l.
  pose proof (row_nonneg x r). lia.
Qed.
Lemma two_u_bounds c r : Forall nonnan c -> Forall nonnan r -> 0 <= two_u c r <= 2 * zlen c * zlen r.
Proof.
  intros Nc Nr. pose proof (two_u_swap c r Nc Nr). pose proof (two_u_nonneg c r). pose proof (two_u_nonneg r c). lia.
Qed.

Lemma fsum_indicator f (T : nat) : forall K,
  fsum (fun w => if w <? Z.of_nat T then f w else 0) K = fsum f (Nat.min K T).
Proof.
  induction K as [|K IH]; [reflexivity|]. cbn [fsum]. rewrite IH.
  destruct (Z.ltb_spec (Z.of_nat K) (Z.of_nat T)) as [H|H].
  - replace (Nat.min (S K) T) with (S (Nat.min K T)) by lia. cbn [fsum].
    replace (Nat.min K T) with K by lia. reflexivity.
  - replace (Nat.min (S K) T) with (Nat.min K T) by lia. lia.
Qed.

Lemma count_if_all {A} (l : list A) : count_if (fun _ => true) l = zlen l.
Proof. unfold count_if. f_equal. induction l; cbn; congruence. Qed.

Section Assemble.
  Variables n m : nat.
  Let e := ecount n m.
  Let K := S (n * m).
  Let total := pascal (n + m) n.

  Lemma total_eq : fsum e K = total.
  Proof. apply ecount_total. unfold K. lia. Qed.

  Lemma wsum_all : wsum (fun _ => true) n m K = total.
  Proof. unfold wsum. rewrite <- total_eq. apply fsum_ext. reflexivity. Qed.

  Lemma wsum_le (u : Z) : 0 <= u <= 2 * Z.of_nat (n * m) ->
    wsum (fun v => v <=? u) n m K = fsum e (S (Z.to_nat (u / 2))).
  Proof.
    intros Hu. unfold wsum.
    rewrite (fsum_ext _ (fun w => if w <? Z.of_nat (S (Z.to_nat (u / 2))) then e w else 0)).
    - rewrite fsum_indicator. f_equal. unfold K. apply Nat.min_r.
      assert (u / 2 <= Z.of_nat (n * m)) by (Z.div_mod_to_equations; lia). lia.
    - intros w Hw. destruct (Z.leb_spec (2 * w) u), (Z.ltb_spec w (Z.of_nat (S (Z.to_nat (u / 2)))));
        try reflexivity; exfalso; Z.div_mod_to_equations; lia.
  Qed.

  Lemma wsum_ge (u : Z) : 0 <= u <= 2 * Z.of_nat (n * m) ->
    wsum (fun v => u <=? v) n m K = total - fsum e (Z.to_nat ((u + 1) / 2)).
  Proof.
    intros Hu. unfold wsum.
    rewrite (fsum_ext _ (fun w => e w + - (if w <? Z.of_nat (Z.to_nat ((u + 1) / 2)) then e w else 0))).
    - rewrite fsum_plus, total_eq.
      assert (Neg : forall g k, fsum (fun w => - g w) k = - fsum g k).
      { intros g k. induction k as [|k IH]; cbn [fsum]; lia. }
      rewrite Neg, fsum_indicator. replace (Nat.min K (Z.to_nat ((u + 1) / 2))) with (Z.to_nat ((u + 1) / 2)); [lia|].
      unfold K. assert ((u + 1) / 2 <= Z.of_nat (n * m)) by (Z.div_mod_to_equations; lia). lia.
    - intros w Hw. destruct (Z.leb_spec u (2 * w)), (Z.ltb_spec w (Z.of_nat (Z.to_nat ((u + 1) / 2))));
        cbv iota; unfold e; try lia; exfalso; Z.div_mod_to_equations; lia.
  Qed.

  (** lower and upper tails of equal length are equal *)
  Lemma tails_reflect (a b : nat) : (a + b = S (n * m))%nat -> fsum e a + fsum e b = total.
  Proof.
    intros H. rewrite <- total_eq. unfold K. rewrite <- H, fsum_split. f_equal.
    rewrite (fsum_rev b (fun u => e (u + Z.of_nat a))). apply fsum_ext. intros u Hu.
    unfold e. rewrite <- (ecount_reflect n m u). f_equal. lia.
  Qed.

  Lemma e_mono (a b : nat) : (a <= b)%nat -> fsum e a <= fsum e b.
  Proof. apply fsum_mono. apply ecount_nonneg. Qed.

  Lemma half_tail (k : nat) : (2 * k <= n * m + 1)%nat -> 2 * fsum e k <= total.
  Proof. apply ecount_half_tail. Qed.

  (** the two-sided value of the specification against the code's 2*CDF(min) *)
  Lemma two_sided_untied (u : Z) :
    0 <= u <= 2 * Z.of_nat (n * m) ->
    let le := wsum (fun v => v <=? u) n m K in
    let ge := wsum (fun v => u <=? v) n m K in
    let tu := Z.min u (2 * Z.of_nat (n * m) - u) in
    if u =? 2 * Z.of_nat (n * m) - u
    then Z.min total (2 * Z.min le ge) = total
    else Z.min total (2 * Z.min le ge) = 2 * fsum e (Z.to_nat (tu / 2 + 1)).
  Proof.
    intros Hu le ge tu. unfold le, ge. rewrite wsum_le, wsum_ge by exact Hu.
    set (FL := Z.to_nat (u / 2)). set (CL := Z.to_nat ((u + 1) / 2)).
    assert (HF : Z.of_nat FL = u / 2) by (unfold FL; Z.div_mod_to_equations; lia).
    assert (HC : Z.of_nat CL = (u + 1) / 2) by (unfold CL; Z.div_mod_to_equations; lia).
    assert (Hsum : (FL + CL)%nat = Z.to_nat u) by (Z.div_mod_to_equations; lia).
    assert (HCL : (CL <= n * m)%nat) by (Z.div_mod_to_equations; lia).
    assert (HFL : (FL <= n * m)%nat) by (Z.div_mod_to_equations; lia).
    assert (HFC : (FL <= CL <= S FL)%nat) by (Z.div_mod_to_equations; lia).
    destruct (Z.eqb_spec u (2 * Z.of_nat (n * m) - u)) as [Eq|Ne].
    - (* U1 = U2 *)
      pose proof (tails_reflect (S FL) CL ltac:(lia)) as R.
      pose proof (e_mono CL (S FL) ltac:(lia)). lia.
    - destruct (Z_lt_le_dec u (Z.of_nat (n * m))) as [Lt|Ge].
      + (* the observed U is the smaller one *)
        replace tu with u by (unfold tu; lia).
        replace (Z.to_nat (u / 2 + 1)) with (S FL) by lia.
        pose proof (tails_reflect (S FL) (n * m - FL) ltac:(lia)) as R.
        pose proof (e_mono CL (n * m - FL) ltac:(lia)).
        pose proof (half_tail (S FL) ltac:(lia)). lia.
      + replace tu with (2 * Z.of_nat (n * m) - u) by (unfold tu; lia).
        replace (Z.to_nat ((2 * Z.of_nat (n * m) - u) / 2 + 1)) with (S (n * m - CL))
          by (Z.div_mod_to_equations; lia).
        pose proof (tails_reflect CL (S (n * m - CL)) ltac:(lia)) as R.
        pose proof (e_mono (S (n * m - CL)) (S FL) ltac:(lia)).
        pose proof (half_tail (S (n * m - CL)) ltac:(lia)). lia.
  Qed.
End Assemble.

Lemma pool_strict x1 x2 :
  Forall nonnan (x1 ++ x2) -> untied (x1 ++ x2) -> StronglySorted ltP (sort_f (x1 ++ x2)).
Proof.
  intros Nn Hu. apply sorted_untied_strict.
  - now apply sort_f_Forall.
  - now apply sort_f_sorted.
  - apply (FOP_perm neq2) with (x1 ++ x2); [intros ? ? []; split; auto|apply sort_f_perm|now apply untied_neq2].
Qed.

(** the specification's p-value on untied samples, through the counts *)
Lemma perm_p_untied x1 x2 :
  Forall nonnan (x1 ++ x2) -> untied (x1 ++ x2) ->
  let n := length x1 in let m := length x2 in let K := S (n * m) in
  let u := two_u x1 x2 in
  perm_p x1 x2
  = (Z.min (pascal (n + m) n)
           (2 * Z.min (wsum (fun v => v <=? u) n m K) (wsum (fun v => u <=? v) n m K)),
     pascal (n + m) n).
Proof.
  intros Nn Hu n m K u. unfold perm_p, two_sided. fold u.
  pose proof (pool_strict x1 x2 Nn Hu) as Sp.
  assert (Lp : length (sort_f (x1 ++ x2)) = (n + m)%nat).
  { rewrite <- (Permutation_length (sort_f_perm (x1 ++ x2))). apply app_length. }
  assert (C : forall P, count_if P (split_us (length x1) (sort_f (x1 ++ x2))) = wsum P n m K).
  { intros P. rewrite (splits_count _ Sp (length x1) P K).
    - rewrite Lp. fold n. replace (n + m - n)%nat with m by lia. reflexivity.
    - rewrite Lp. fold n. lia.
    - rewrite Lp. fold n. replace (n + m - n)%nat with m by lia. unfold K. lia. }
  rewrite <- count_if_all, !C, wsum_all. reflexivity.
Qed.

Theorem utest_untied_is_perm_p x1 x2 :
  x1 <> [] -> x2 <> [] -> zlen x1 <= mw_exact_limit -> zlen x2 <= mw_exact_limit ->
  Forall nonnan (x1 ++ x2) -> untied (x1 ++ x2) ->
  utest_is_perm_p x1 x2 = true.
Proof.
  intros H1 H2 L1 L2 Nn Hu. unfold utest_is_perm_p.
  rewrite (perm_p_untied x1 x2 Nn Hu). cbn zeta.
  set (n := length x1). set (m := length x2). set (u := two_u x1 x2).
  assert (Hn : (1 <= n)%nat) by (unfold n; destruct x1; [congruence|cbn; lia]).
  assert (Hm : (1 <= m)%nat) by (unfold m; destruct x2; [congruence|cbn; lia]).
  assert (Z1 : zlen x1 = Z.of_nat n) by reflexivity.
  assert (Z2 : zlen x2 = Z.of_nat m) by reflexivity.
  assert (ZNM : Z.of_nat (n * m) = Z.of_nat n * Z.of_nat m) by apply Nat2Z.inj_mul.
  apply Forall_app in Nn as Nn12. destruct Nn12 as [N1 N2].
  pose proof (two_u_bounds x1 x2 N1 N2) as Hb. fold u in Hb. rewrite Z1, Z2 in Hb.
  assert (Hu' : 0 <= u <= 2 * Z.of_nat (n * m)) by lia.
  pose proof (two_sided_untied n m u Hu') as TS. cbn zeta in TS.
  (* the code side *)
  unfold utest. destruct x1 as [|a x1']; [congruence|]. destruct x2 as [|b x2']; [congruence|].
  set (X1 := a :: x1') in *. set (X2 := b :: x2') in *.
  rewrite (u_statistic_untied X1 X2 Nn Hu). fold n m u.
  cbn [us_n1 us_n2 us_twoU1 us_T us_ties]. unfold u_path. cbn [us_n1 us_n2 us_ties negb andb orb].
  replace (zlen X1 <=? mw_exact_limit) with true by (symmetry; now apply Z.leb_le).
  replace (zlen X2 <=? mw_exact_limit) with true by (symmetry; now apply Z.leb_le).
  cbn [andb orb].
  replace (zlen (repeat 1 (n + m)) =? 1) with false
    by (symmetry; apply Z.eqb_neq; unfold zlen; rewrite repeat_length; lia).
  rewrite Z1, Z2.
  replace (2 * Z.of_nat n * Z.of_nat m - u) with (2 * Z.of_nat (n * m) - u) by lia.
  assert (Ppos : 0 < pascal (n + m) n) by (apply pascal_pos; lia).
  revert TS. destruct (Z.eqb_spec u (2 * Z.of_nat (n * m) - u)) as [Eq|Ne]; intros TS.
  - rewrite TS. unfold rat_eq. cbn [fst snd].
    replace (1 * pascal (n + m) n) with (pascal (n + m) n * 1) by lia. rewrite Z.eqb_refl. reflexivity.
  - set (tu := Z.min u (2 * Z.of_nat (n * m) - u)) in *.
    unfold udist_cdf.
    destruct (Z.ltb_spec tu 0); [unfold tu in *; lia|].
    destruct (Z.leb_spec (2 * Z.of_nat n * Z.of_nat m) tu); [unfold tu in *; nia|].
    pose proof (mw_counts_are_ecount (Z.to_nat (tu / 2 + 1)) (Z.of_nat n) (Z.of_nat m)
                  ltac:(unfold tu in *; Z.div_mod_to_equations; lia) ltac:(lia) ltac:(lia)) as R.
    apply zsum_reps in R. rewrite !Nat2Z.id in R. rewrite R.
    rewrite binom_pascal by lia.
    replace (Z.to_nat (Z.of_nat n + Z.of_nat m)) with (n + m)%nat by lia. rewrite Nat2Z.id.
    rewrite TS. unfold rat_eq. cbn [fst snd]. rewrite Z.eqb_refl.
    apply Z.ltb_lt in Ppos. rewrite Ppos. reflexivity.
Qed.

(** the laws of the counts, together *)
Lemma ecount_laws n m u :
  ecount (S n) (S m) u = ecount n (S m) (u - Z.of_nat (S m)) + ecount (S n) m u
  /\ ecount (S n) (S m) u = ecount n (S m) u + ecount (S n) m (u - Z.of_nat (S n))
  /\ ecount n m u = ecount m n u
  /\ ecount n m (Z.of_nat n * Z.of_nat m - u) = ecount n m u
  /\ 0 <= ecount n m u
  /\ (u < 0 \/ Z.of_nat n * Z.of_nat m < u -> ecount n m u = 0)
  /\ fsum (ecount n m) (S (n * m)) = pascal (n + m) n.
Proof.
  split; [apply ecount_SS|]. split; [apply ecount_dual|]. split; [apply ecount_swap|].
  split; [apply ecount_reflect|]. split; [apply ecount_nonneg|]. split; [apply ecount_range|].
  apply ecount_total. lia.
Qed.
