(** The centre of the bootstrap summary lies in the hull of attainable ratios
    (positive samples), under the exact no-overflow guard of
    Model/BootstrapSpec.v.  Real-number reasoning through Flocq's verified
    IEEE-754 layer (the classical reals appear in Print Assumptions). *)
From Coq Require Import ZArith Reals Lia Lra Bool List Permutation.
From Flocq Require Import Core BinarySingleNaN.
From Perf Require Import Base.B64 Model.Bootstrap Model.BootstrapSpec
     Proofs.B64Flocq Proofs.LegacyMean.
Import ListNotations.

(** * lists: the sorts permute, the stream is cut by [firstn]/[skipn] *)
Lemma take_stream_spec n : forall s a r,
  take_stream n s = Some (a, r) -> a = firstn n s /\ r = skipn n s /\ length a = n.
Proof.
  induction n as [|n IH]; intros s a r; cbn [take_stream].
  - intros [= <- <-]. auto.
  - destruct s as [|i s']; [discriminate|].
    destruct (take_stream n s') as [[a' r']|] eqn:E; [|discriminate].
    intros [= <- <-]. destruct (IH _ _ _ E) as (-> & -> & L). cbn. auto.
Qed.

Lemma insert_f_perm x l : Permutation (insert_f x l) (x :: l).
Proof.
  induction l as [|y l IH]; cbn [insert_f]; [reflexivity|].
  destruct (b64_lt y x); [|reflexivity].
  rewrite IH. apply perm_swap.
Qed.

Lemma sort_small_perm l : Permutation (sort_small l) l.
Proof.
  induction l as [|x l IH]; cbn; [reflexivity|].
  fold (sort_small l). rewrite insert_f_perm. now constructor.
Qed.

Lemma merge_f_perm fuel : forall a b, Permutation (merge_f fuel a b) (a ++ b).
Proof.
  induction fuel as [|f IH]; intros a b; cbn [merge_f]; [reflexivity|].
  destruct a as [|x a']; [reflexivity|].
  destruct b as [|y b']; [now rewrite app_nil_r|].
  destruct (b64_lt y x).
  - rewrite IH. apply (Permutation_middle (x :: a') b' y).
  - rewrite IH. reflexivity.
Qed.

Lemma merge_pairs_perm ls : Permutation (concat (merge_pairs ls)) (concat ls).
Proof.
  induction ls as [ls IH] using (well_founded_induction (Wf_nat.well_founded_ltof _ (@length (list b64)))).
  destruct ls as [|a [|b r]]; cbn [merge_pairs]; try reflexivity.
  cbn [concat]. unfold merge2. rewrite merge_f_perm, IH.
  - now rewrite app_assoc.
  - unfold Wf_nat.ltof. cbn. lia.
Qed.

Lemma merge_all_perm fuel : forall ls, Permutation (merge_all fuel ls) (concat ls).
Proof.
  induction fuel as [|f IH]; intros ls; cbn [merge_all]; [reflexivity|].
  destruct ls as [|a [|b r]].
  - reflexivity.
  - cbn. now rewrite app_nil_r.
  - rewrite IH. apply merge_pairs_perm.
Qed.

Lemma sort_f_perm l : Permutation (sort_f l) l.
Proof.
  unfold sort_f. rewrite merge_all_perm.
  induction l as [|x l IH]; cbn; [reflexivity|]. now constructor.
Qed.


(** * binary64 values with a real value in a range *)
Local Open Scope R_scope.

Definition val (x : b64) : R := SF2R radix2 x.

Definition inR (lo hi : R) (x : b64) : Prop :=
  exists X : Bf, x = B2SF X /\ is_finite X = true /\ lo <= B2R X <= hi.

Definition fin (x : b64) : Prop := exists X : Bf, x = B2SF X /\ is_finite X = true.

Lemma inR_fin lo hi x : inR lo hi x -> fin x.
Proof. intros (X & E & F & _). now exists X. Qed.

Lemma inR_weaken lo hi lo' hi' x : lo' <= lo -> hi <= hi' -> inR lo hi x -> inR lo' hi' x.
Proof. intros H1 H2 (X & E & F & H). exists X. repeat split; auto; lra. Qed.

Lemma val_B2SF (X : Bf) : val (B2SF X) = B2R X.
Proof. apply SF2R_B2SF. Qed.

Lemma F64_double a : F64 a -> F64 (2 * a).
Proof.
  intros Fa. change (generic_format radix2 (FLT_exp (-1074) 53) (2 * a)).
  change (generic_format radix2 (FLT_exp (-1074) 53) a) in Fa.
  apply generic_format_FLT. apply FLT_format_generic in Fa; [|exact b64_prec_gt_0].
  destruct Fa as [f Hf1 Hf2 Hf3].
  exists (Float radix2 (Fnum f) (Fexp f + 1)); cbn [Fnum Fexp]; [|exact Hf2|lia].
  rewrite Hf1. unfold F2R; cbn [Fnum Fexp]. rewrite bpow_plus. simpl (bpow radix2 1). lra.
Qed.

Lemma Bplus_cases (x y : Bf) :
  is_finite x = true -> is_finite y = true ->
  (is_finite (Bplus mode_NE x y) = true /\ B2R (Bplus mode_NE x y) = RN (B2R x + B2R y)
   /\ Rabs (RN (B2R x + B2R y)) < bpow radix2 1024)
  \/ (is_finite (Bplus mode_NE x y) = false /\ bpow radix2 1024 <= Rabs (RN (B2R x + B2R y))).
Proof.
  intros Fx Fy.
  pose proof (Bplus_correct 53 1024 _ _ mode_NE x y Fx Fy) as H. cbn [round_mode] in H.
  destruct (Rlt_bool_spec (Rabs (RN (B2R x + B2R y))) (bpow radix2 1024)) as [L|L].
  - left. destruct H as (H1 & H2 & _). auto.
  - right. split; [|exact L]. destruct H as [H _].
    rewrite <- sf_finite_B2SF, H. unfold binary_overflow. cbn. reflexivity.
Qed.

Lemma two_exact : is_finite (BofZ 2) = true /\ B2R (BofZ 2) = 2.
Proof. apply (BofZ_exact 2). lia. Qed.

(** the rounded midpoint of two values of a range stays in the range, as long
    as the sum of two upper bounds does not overflow (gradual underflow is
    harmless: doubling is exact, halving is monotone) *)
Lemma avg_inR lo hi a b :
  F64 lo -> F64 hi -> 0 <= lo -> RN (hi + hi) < bpow radix2 1024 ->
  inR lo hi a -> inR lo hi b -> inR lo hi (b64_div (b64_add a b) b64_two).
Proof.
  intros Flo Fhi L0 G (A & -> & FA & HA) (B & -> & FB & HB).
  rewrite b64_add_Bplus. unfold b64_two. rewrite b64_of_Z_BofZ, b64_div_Bdiv.
  destruct two_exact as [F2 R2].
  replace (hi + hi) with (2 * hi) in G by lra. rewrite (RN_id _ (F64_double _ Fhi)) in G.
  assert (S1 : 2 * lo <= RN (B2R A + B2R B) <= 2 * hi).
  { split.
    - rewrite <- (RN_id _ (F64_double _ Flo)). apply RN_le. lra.
    - rewrite <- (RN_id _ (F64_double _ Fhi)). apply RN_le. lra. }
  destruct (Bplus_cases A B FA FB) as [(Fs & Rs & _)|(_ & Bad)];
    [|exfalso; rewrite Rabs_pos_eq in Bad by lra; lra].
  set (Sm := Bplus mode_NE A B) in *.
  assert (Q : lo <= RN (B2R Sm / B2R (BofZ 2)) <= hi).
  { rewrite Rs, R2. split.
    - rewrite <- (RN_id _ Flo). apply RN_le. lra.
    - rewrite <- (RN_id _ Fhi). apply RN_le. lra. }
  destruct (Bdiv_cases Sm (BofZ 2) Fs ltac:(rewrite R2; lra)) as [(Fq & Rq & _)|(_ & Bad)].
  - exists (Bdiv mode_NE Sm (BofZ 2)). split; [reflexivity|]. split; [exact Fq|]. now rewrite Rq.
  - exfalso. rewrite Rabs_pos_eq in Bad by lra. lra.
Qed.

Lemma nth_inR lo hi a i : Forall (inR lo hi) a -> (i < length a)%nat -> inR lo hi (nth_f a i).
Proof.
  intros H Hi. unfold nth_f. rewrite Forall_forall in H. apply H. now apply nth_In.
Qed.

Lemma median_inR lo hi a :
  a <> [] -> Forall (inR lo hi) a -> F64 lo -> F64 hi -> 0 <= lo ->
  (Nat.odd (length a) = true \/ RN (hi + hi) < bpow radix2 1024) ->
  inR lo hi (median a).
Proof.
  intros Ne Ha Flo Fhi L0 G. unfold median.
  assert (Hl : (0 < length a)%nat) by (destruct a; [congruence|cbn; lia]).
  assert (Hh : (Nat.div (length a) 2 < length a)%nat) by (apply Nat.div_lt; lia).
  destruct (Nat.odd (length a)) eqn:E.
  - now apply nth_inR.
  - destruct G as [G|G]; [discriminate|]. apply avg_inR; auto; apply nth_inR; auto; lia.
Qed.

(** binary64 division of a non-negative by a positive range: monotone in both
    arguments; the only guard is that the largest quotient does not overflow *)
Lemma div_inR xl xh yl yh a b :
  0 <= xl -> 0 < yl -> RN (xh / yl) < bpow radix2 1024 ->
  inR xl xh a -> inR yl yh b ->
  inR (RN (xl / yh)) (RN (xh / yl)) (b64_div a b) /\ b64_eq b b64_zero = false.
Proof.
  intros X0 Y0 G (A & -> & FA & HA) (B & -> & FB & HB).
  assert (PB : 0 < B2R B) by lra.
  assert (I1 : 0 < / B2R B) by now apply Rinv_0_lt_compat.
  assert (I2 : / yh <= / B2R B) by (apply Rinv_le_contravar; lra).
  assert (I3 : / B2R B <= / yl) by (apply Rinv_le_contravar; lra).
  assert (I4 : 0 < / yh) by (apply Rinv_0_lt_compat; lra).
  assert (Q : xl / yh <= B2R A / B2R B <= xh / yl).
  { unfold Rdiv. split; apply Rmult_le_compat; lra. }
  assert (Q0 : 0 <= RN (xl / yh)).
  { apply RN_nonneg. unfold Rdiv. apply Rmult_le_pos; lra. }
  assert (Q1 : RN (xl / yh) <= RN (B2R A / B2R B) <= RN (xh / yl)) by (split; apply RN_le; lra).
  split.
  - rewrite b64_div_Bdiv.
    destruct (Bdiv_cases A B FA PB) as [(Fq & Rq & _)|(_ & Bad)].
    + exists (Bdiv mode_NE A B). split; [reflexivity|]. split; [exact Fq|]. now rewrite Rq.
    + exfalso. rewrite Rabs_pos_eq in Bad by lra. lra.
  - change (Beqb B (B754_zero false) = false).
    rewrite (Beqb_correct 53 1024 B (B754_zero false) FB eq_refl). apply Req_bool_false. cbn [B2R]. lra.
Qed.

Lemma one_ratio_inR nl nh dl dh rnu rde :
  rnu <> [] -> rde <> [] -> Forall (inR nl nh) rnu -> Forall (inR dl dh) rde ->
  F64 nl -> F64 nh -> F64 dl -> F64 dh -> 0 <= nl -> 0 < dl ->
  (Nat.odd (length rnu) = true \/ RN (nh + nh) < bpow radix2 1024) ->
  (Nat.odd (length rde) = true \/ RN (dh + dh) < bpow radix2 1024) ->
  RN (nh / dl) < bpow radix2 1024 ->
  inR (RN (nl / dh)) (RN (nh / dl)) (one_ratio rnu rde).
Proof.
  intros Nn Nd Hn Hd Fnl Fnh Fdl Fdh N0 D0 Gn Gd G.
  pose proof (median_inR nl nh rnu Nn Hn Fnl Fnh N0 Gn) as Mn.
  pose proof (median_inR dl dh rde Nd Hd Fdl Fdh ltac:(lra) Gd) as Md.
  destruct (div_inR nl nh dl dh _ _ N0 D0 G Mn Md) as [Q Z].
  unfold one_ratio. now rewrite Z.
Qed.

(** * resampling *)
Lemma resample_inR lo hi vals s r s' :
  Forall (inR lo hi) vals -> resample vals s = Some (r, s') ->
  forallb (idx_ok (length vals)) (firstn (length vals) s) = true ->
  Forall (inR lo hi) r /\ length r = length vals /\ s' = skipn (length vals) s.
Proof.
  intros Hv. unfold resample.
  destruct (take_stream (length vals) s) as [[idx r']|] eqn:E; [|discriminate].
  intros [= <- <-] Hi. destruct (take_stream_spec _ _ _ _ E) as (-> & -> & L).
  split; [|split; [|reflexivity]].
  - eapply Permutation_Forall; [symmetry; apply sort_small_perm|].
    rewrite Forall_map. rewrite forallb_forall in Hi. rewrite Forall_forall. intros i Ii.
    specialize (Hi i Ii). unfold idx_ok in Hi. apply andb_true_iff in Hi as [H0 H1].
    apply nth_inR; auto. apply Z.leb_le in H0. apply Z.ltb_lt in H1. lia.
  - rewrite (Permutation_length (sort_small_perm _)), map_length. exact L.
Qed.

Lemma skipn_add {A} a : forall b (l : list A), skipn b (skipn a l) = skipn (a + b) l.
Proof.
  induction a as [|a IH]; intros b l; [reflexivity|].
  destruct l as [|x l]; cbn [skipn Nat.add]; [now destruct b|apply IH].
Qed.

Lemma ratios_loop_inR nl nh dl dh nu de :
  nu <> [] -> de <> [] -> Forall (inR nl nh) nu -> Forall (inR dl dh) de ->
  F64 nl -> F64 nh -> F64 dl -> F64 dh -> 0 <= nl -> 0 < dl ->
  (Nat.odd (length nu) = true \/ RN (nh + nh) < bpow radix2 1024) ->
  (Nat.odd (length de) = true \/ RN (dh + dh) < bpow radix2 1024) ->
  RN (nh / dl) < bpow radix2 1024 ->
  forall n s rs,
  intn_stream n (length nu) (length de) s = true ->
  ratios_loop n nu de s = Some rs ->
  Forall (inR (RN (nl / dh)) (RN (nh / dl))) rs /\ length rs = n.
Proof.
  intros Nn Nd Hn Hd Fnl Fnh Fdl Fdh N0 D0 Gn Gd G.
  induction n as [|n IH]; intros s rs Hs; cbn [ratios_loop].
  - intros [= <-]. auto.
  - cbn [intn_stream] in Hs. apply andb_true_iff in Hs as [Hs H3]. apply andb_true_iff in Hs as [H1 H2].
    destruct (resample nu s) as [[rnu s1]|] eqn:E1; [|discriminate].
    destruct (resample_inR _ _ _ _ _ _ Hn E1 H1) as (Rn & Ln & ->).
    destruct (resample de _) as [[rde s2]|] eqn:E2; [|discriminate].
    destruct (resample_inR _ _ _ _ _ _ Hd E2 H2) as (Rd & Ld & ->).
    rewrite skipn_add in *.
    destruct (ratios_loop n nu de _) as [rs'|] eqn:E3; [|discriminate].
    intros [= <-]. destruct (IH _ _ H3 E3) as [Hr Lr]. split; [|cbn; now rewrite Lr].
    constructor; [|exact Hr].
    apply one_ratio_inR; auto; try (rewrite ?Ln, ?Ld; assumption).
    + intros ->. cbn in Ln. destruct nu; [congruence|discriminate].
    + intros ->. cbn in Ld. destruct de; [congruence|discriminate].
Qed.

(** * least and greatest sample *)
Lemma b64_lt_R (X Y : Bf) : is_finite X = true -> is_finite Y = true ->
  b64_lt (B2SF X) (B2SF Y) = Rlt_bool (B2R X) (B2R Y).
Proof. intros FX FY. change (Bltb X Y = Rlt_bool (B2R X) (B2R Y)). now apply Bltb_correct. Qed.

Lemma fold_min_spec l : forall A : Bf, is_finite A = true -> Forall fin l ->
  exists M : Bf, fold_left (fun a x => if b64_lt x a then x else a) l (B2SF A) = B2SF M
    /\ is_finite M = true /\ In (B2SF M) (B2SF A :: l) /\ B2R M <= B2R A
    /\ Forall (fun x => B2R M <= val x) l.
Proof.
  induction l as [|x l IH]; intros A FA Hl; cbn [fold_left].
  - exists A. repeat split; auto; [now left|lra].
  - inversion Hl as [|? ? (X & -> & FX) Hl']; subst.
    rewrite (b64_lt_R X A FX FA). destruct (Rlt_bool_spec (B2R X) (B2R A)) as [L|L].
    + destruct (IH X FX Hl') as (M & E & FM & I & LM & All). exists M. repeat split; auto.
      * destruct I as [I|I]; [right; now left|right; now right].
      * lra.
      * constructor; [now rewrite val_B2SF|exact All].
    + destruct (IH A FA Hl') as (M & E & FM & I & LM & All). exists M. repeat split; auto.
      * destruct I as [I|I]; [now left|right; now right].
      * constructor; [rewrite val_B2SF; lra|exact All].
Qed.

Lemma fold_max_spec l : forall A : Bf, is_finite A = true -> Forall fin l ->
  exists M : Bf, fold_left (fun a x => if b64_lt a x then x else a) l (B2SF A) = B2SF M
    /\ is_finite M = true /\ In (B2SF M) (B2SF A :: l) /\ B2R A <= B2R M
    /\ Forall (fun x => val x <= B2R M) l.
Proof.
  induction l as [|x l IH]; intros A FA Hl; cbn [fold_left].
  - exists A. repeat split; auto; [now left|lra].
  - inversion Hl as [|? ? (X & -> & FX) Hl']; subst.
    rewrite (b64_lt_R A X FA FX). destruct (Rlt_bool_spec (B2R A) (B2R X)) as [L|L].
    + destruct (IH X FX Hl') as (M & E & FM & I & LM & All). exists M. repeat split; auto.
      * destruct I as [I|I]; [right; now left|right; now right].
      * lra.
      * constructor; [now rewrite val_B2SF|exact All].
    + destruct (IH A FA Hl') as (M & E & FM & I & LM & All). exists M. repeat split; auto.
      * destruct I as [I|I]; [now left|right; now right].
      * constructor; [rewrite val_B2SF; lra|exact All].
Qed.

Lemma fin_inR_val lo hi x : fin x -> lo <= val x <= hi -> inR lo hi x.
Proof. intros (X & -> & FX) H. rewrite val_B2SF in H. now exists X. Qed.

(** [fmin]/[fmax] are elements of the sample and bound it *)
Lemma fmin_fmax_spec l : l <> [] -> Forall fin l ->
  exists MN MX : Bf,
    fmin l = B2SF MN /\ fmax l = B2SF MX /\ is_finite MN = true /\ is_finite MX = true
    /\ In (fmin l) l /\ In (fmax l) l /\ Forall (inR (B2R MN) (B2R MX)) l.
Proof.
  intros Ne Hl. destruct l as [|x0 l]; [congruence|].
  inversion Hl as [|? ? (X0 & E0 & F0) Hl']; subst.
  destruct (fold_min_spec (B2SF X0 :: l) X0 F0 Hl) as (MN & E1 & FMN & I1 & _ & A1).
  destruct (fold_max_spec (B2SF X0 :: l) X0 F0 Hl) as (MX & E2 & FMX & I2 & _ & A2).
  assert (E1' : fmin (@cons b64 (B2SF X0) l) = B2SF MN) by exact E1.
  assert (E2' : fmax (@cons b64 (B2SF X0) l) = B2SF MX) by exact E2.
  exists MN, MX. rewrite E1', E2'. repeat split; auto.
  - destruct I1 as [I1|I1]; [rewrite <- I1; now left|exact I1].
  - destruct I2 as [I2|I2]; [rewrite <- I2; now left|exact I2].
  - rewrite Forall_forall in *. intros x Ix. apply fin_inR_val; auto.
Qed.

Lemma pos_sample_fin x : pos_sample x = true ->
  exists X : Bf, x = B2SF X /\ is_finite X = true /\ 0 < B2R X.
Proof.
  unfold pos_sample. intros H. apply andb_true_iff in H as [V P].
  exists (SF2B x V). rewrite B2SF_SF2B. split; [reflexivity|].
  assert (P' : is_pos_finite (B2SF (SF2B x V)) = true) by (rewrite B2SF_SF2B; exact P).
  split; [|now apply pos_finite_R].
  rewrite <- sf_finite_B2SF, B2SF_SF2B. destruct x as [| | |[|] ? ?]; try discriminate. reflexivity.
Qed.

Lemma pos_samples l : forallb pos_sample l = true ->
  Forall fin l /\ Forall (fun x => 0 < val x) l.
Proof.
  rewrite forallb_forall. intros H. split; rewrite Forall_forall; intros x Ix;
    destruct (pos_sample_fin x (H x Ix)) as (X & -> & FX & PX).
  - now exists X.
  - now rewrite val_B2SF.
Qed.

(** * the guard, in real numbers *)
Lemma even_guard_R n (MX : Bf) : is_finite MX = true -> even_guard n (B2SF MX) = true ->
  Nat.odd n = true \/ RN (B2R MX + B2R MX) < bpow radix2 1024.
Proof.
  intros FM. unfold even_guard. intros H. apply orb_true_iff in H as [H|H]; [now left|right].
  rewrite b64_add_Bplus, b64_is_finite_B2SF in H.
  destruct (Bplus_cases MX MX FM FM) as [(_ & _ & L)|(N & _)]; [|congruence].
  eapply Rle_lt_trans; [apply Rle_abs|exact L].
Qed.

Lemma Bdiv_finite_R (X Y : Bf) : is_finite X = true -> 0 <= B2R X -> 0 < B2R Y ->
  is_finite (Bdiv mode_NE X Y) = true ->
  B2R (Bdiv mode_NE X Y) = RN (B2R X / B2R Y) /\ RN (B2R X / B2R Y) < bpow radix2 1024.
Proof.
  intros FX X0 Y0 Fq. destruct (Bdiv_cases X Y FX Y0) as [(_ & E & L)|(N & _)]; [|congruence].
  split; [exact E|]. eapply Rle_lt_trans; [apply Rle_abs|exact L].
Qed.

(** * all bootstrap ratios, and their median, lie in the hull *)
Inductive hull_facts (nu de : list b64) (n : nat) (sorted : list b64) : Prop :=
  HullFacts (L H : Bf)
    (hf_lo_eq : hull_lo nu de = B2SF L) (hf_hi_eq : hull_hi nu de = B2SF H)
    (hf_lo_fin : is_finite L = true) (hf_hi_fin : is_finite H = true)
    (hf_lo_nonneg : 0 <= B2R L)
    (hf_ratios : Forall (inR (B2R L) (B2R H)) sorted)
    (hf_len : length sorted = n)
    (hf_centre : inR (B2R L) (B2R H) (median sorted)).

Lemma ratios_in_hull nu de n stream rs :
  nu <> [] -> de <> [] -> n <> O ->
  forallb pos_sample nu = true -> forallb pos_sample de = true ->
  intn_stream n (length nu) (length de) stream = true ->
  hull_guard nu de n = true ->
  ratios_loop n nu de stream = Some rs ->
  hull_facts nu de n (sort_f rs).
Proof.
  intros Nn Nd N0 Pn Pd Hs G E.
  destruct (pos_samples _ Pn) as [Fn Vn]. destruct (pos_samples _ Pd) as [Fd Vd].
  destruct (fmin_fmax_spec nu Nn Fn) as (NL & NH & En1 & En2 & FNL & FNH & In1 & _ & Hn).
  destruct (fmin_fmax_spec de Nd Fd) as (DL & DH & Ed1 & Ed2 & FDL & FDH & Id1 & _ & Hd).
  assert (PNL : 0 < B2R NL).
  { rewrite Forall_forall in Vn. specialize (Vn _ In1). now rewrite En1, val_B2SF in Vn. }
  assert (PDL : 0 < B2R DL).
  { rewrite Forall_forall in Vd. specialize (Vd _ Id1). now rewrite Ed1, val_B2SF in Vd. }
  assert (LDH : B2R DL <= B2R DH).
  { rewrite Forall_forall in Hd. destruct (Hd _ Id1) as (X & EX & _ & HX).
    rewrite Ed1 in EX. apply B2SF_inj in EX. subst X. lra. }
  assert (LNH : B2R NL <= B2R NH).
  { rewrite Forall_forall in Hn. destruct (Hn _ In1) as (X & EX & _ & HX).
    rewrite En1 in EX. apply B2SF_inj in EX. subst X. lra. }
  unfold hull_guard in G. apply andb_true_iff in G as [G G4]. apply andb_true_iff in G as [G G3].
  apply andb_true_iff in G as [G1 G2].
  rewrite En2 in G1. rewrite Ed2 in G2.
  pose proof (even_guard_R _ NH FNH G1) as Gn. pose proof (even_guard_R _ DH FDH G2) as Gd.
  unfold hull_hi in G3, G4. rewrite En2, Ed1, b64_div_Bdiv in G3, G4. rewrite b64_is_finite_B2SF in G3.
  destruct (Bdiv_finite_R NH DL FNH ltac:(lra) PDL G3) as [Rhi Ghi].
  pose proof (even_guard_R _ _ G3 G4) as Gr. rewrite Rhi in Gr.
  destruct (ratios_loop_inR (B2R NL) (B2R NH) (B2R DL) (B2R DH) nu de Nn Nd Hn Hd
              (F64_B2R _) (F64_B2R _) (F64_B2R _) (F64_B2R _) ltac:(lra) PDL Gn Gd Ghi n stream rs Hs E)
    as [Hr Lr].
  set (LO := RN (B2R NL / B2R DH)) in *. set (HI := RN (B2R NH / B2R DL)) in *.
  assert (LO0 : 0 <= LO).
  { apply RN_nonneg. unfold Rdiv. apply Rmult_le_pos; [lra|]. apply Rlt_le, Rinv_0_lt_compat. lra. }
  assert (LOHI : LO <= HI).
  { apply RN_le. unfold Rdiv. apply Rmult_le_compat; try lra.
    - apply Rlt_le, Rinv_0_lt_compat. lra.
    - apply Rinv_le_contravar; lra. }
  (* the lower hull bound is the rounded quotient (possibly subnormal or zero) *)
  assert (Elo : is_finite (Bdiv mode_NE NL DH) = true /\ B2R (Bdiv mode_NE NL DH) = LO).
  { destruct (Bdiv_cases NL DH FNL ltac:(lra)) as [(F1 & R1 & _)|(_ & Bad)]; [now split|exfalso].
    fold LO in Bad. rewrite Rabs_pos_eq in Bad by exact LO0. lra. }
  destruct Elo as [Flo Rlo].
  assert (Hsorted : Forall (inR LO HI) (sort_f rs)).
  { eapply Permutation_Forall; [symmetry; apply sort_f_perm|exact Hr]. }
  assert (Lsorted : length (sort_f rs) = n) by (rewrite (Permutation_length (sort_f_perm rs)); exact Lr).
  apply HullFacts with (L := Bdiv mode_NE NL DH) (H := Bdiv mode_NE NH DL); rewrite ?Rlo, ?Rhi; auto.
  - unfold hull_lo. now rewrite En1, Ed2, b64_div_Bdiv.
  - unfold hull_hi. now rewrite En2, Ed1, b64_div_Bdiv.
  - apply median_inR; auto.
    + intros Z. rewrite Z in Lsorted. cbn in Lsorted. congruence.
    + apply generic_format_round; typeclasses eauto.
    + apply generic_format_round; typeclasses eauto.
    + now rewrite Lsorted.
Qed.

Lemma b64_le_R (X Y : Bf) : is_finite X = true -> is_finite Y = true -> B2R X <= B2R Y ->
  b64_le (B2SF X) (B2SF Y) = true.
Proof.
  intros FX FY H. change (Bleb X Y = true). rewrite (Bleb_correct 53 1024 X Y FX FY).
  now apply Rle_bool_true.
Qed.

Lemma inR_b64_le (L H : Bf) x : is_finite L = true -> is_finite H = true ->
  inR (B2R L) (B2R H) x -> b64_le (B2SF L) x = true /\ b64_le x (B2SF H) = true.
Proof.
  intros FL FH (X & -> & FX & HX). split; apply b64_le_R; auto; lra.
Qed.

Lemma ratio_gen_inv summ nu de conf n stream sorted o :
  ratio_gen summ nu de conf n stream = Some (sorted, o) ->
  exists rs, ratios_loop n nu de stream = Some rs /\ sorted = sort_f rs /\ o = summ conf sorted.
Proof.
  unfold ratio_gen. destruct (ratios_loop n nu de stream) as [rs|]; [|discriminate].
  intros [= <- <-]. now exists rs.
Qed.

Lemma summarize_center conf sorted s : summarize conf sorted = Some s -> s_center s = median sorted.
Proof.
  unfold summarize, summarize_asis.
  destruct (percentile sorted _) as [l|]; [|discriminate].
  destruct (percentile sorted _) as [h|]; [|discriminate]. cbn. now intros [= <-].
Qed.

Lemma summarize_asis_center conf sorted s : summarize_asis conf sorted = Some s -> s_center s = median sorted.
Proof.
  unfold summarize_asis.
  destruct (percentile sorted _) as [l|]; [|discriminate].
  destruct (percentile sorted _) as [h|]; [|discriminate]. now intros [= <-].
Qed.

(** every bootstrap ratio lies in the hull *)
Theorem bootstrap_ratios_in_hull nu de conf n stream sorted o :
  nu <> [] -> de <> [] -> n <> O ->
  forallb pos_sample nu = true -> forallb pos_sample de = true ->
  intn_stream n (length nu) (length de) stream = true ->
  hull_guard nu de n = true ->
  ratio nu de conf n stream = Some (sorted, o) ->
  length sorted = n /\
  Forall (fun r => b64_le (hull_lo nu de) r = true /\ b64_le r (hull_hi nu de) = true) sorted.
Proof.
  intros Nn Nd N0 Pn Pd Hs G E.
  destruct (ratio_gen_inv _ _ _ _ _ _ _ _ E) as (rs & Er & -> & _).
  destruct (ratios_in_hull nu de n stream rs Nn Nd N0 Pn Pd Hs G Er) as [L H EL EH FL FH _ Hr Len _].
  split; [exact Len|]. rewrite EL, EH. eapply Forall_impl; [|exact Hr].
  intros r. now apply inR_b64_le.
Qed.

(** bootstrap_centre_in_hull: the centre (median of the bootstrap ratios) of
    the summary of positive samples lies in
    [min num / max den, max num / min den] computed in binary64 *)
Theorem bootstrap_centre_in_hull nu de conf n stream sorted s :
  nu <> [] -> de <> [] -> n <> O ->
  forallb pos_sample nu = true -> forallb pos_sample de = true ->
  intn_stream n (length nu) (length de) stream = true ->
  hull_guard nu de n = true ->
  ratio nu de conf n stream = Some (sorted, Some s) ->
  b64_le (hull_lo nu de) (s_center s) = true /\ b64_le (s_center s) (hull_hi nu de) = true.
Proof.
  intros Nn Nd N0 Pn Pd Hs G E.
  destruct (ratio_gen_inv _ _ _ _ _ _ _ _ E) as (rs & Er & -> & Es).
  destruct (ratios_in_hull nu de n stream rs Nn Nd N0 Pn Pd Hs G Er) as [L H EL EH FL FH _ _ _ Hc].
  rewrite (summarize_center _ _ _ (eq_sym Es)), EL, EH. now apply inR_b64_le.
Qed.

(** the same for the code as it stands (the clamp does not touch the centre) *)
Theorem bootstrap_centre_in_hull_asis nu de conf n stream sorted s :
  nu <> [] -> de <> [] -> n <> O ->
  forallb pos_sample nu = true -> forallb pos_sample de = true ->
  intn_stream n (length nu) (length de) stream = true ->
  hull_guard nu de n = true ->
  ratio_asis nu de conf n stream = Some (sorted, Some s) ->
  b64_le (hull_lo nu de) (s_center s) = true /\ b64_le (s_center s) (hull_hi nu de) = true.
Proof.
  intros Nn Nd N0 Pn Pd Hs G E.
  destruct (ratio_gen_inv _ _ _ _ _ _ _ _ E) as (rs & Er & -> & Es).
  destruct (ratios_in_hull nu de n stream rs Nn Nd N0 Pn Pd Hs G Er) as [L H EL EH FL FH _ _ _ Hc].
  rewrite (summarize_asis_center _ _ _ (eq_sym Es)), EL, EH. now apply inR_b64_le.
Qed.

(** the guard is necessary: two copies of the largest finite float64 over
    denominator 1, one round: the resampled median (M + M) / 2 overflows and the
    centre +Inf leaves the (finite) hull *)
Definition f_max : b64 := S754_finite false (2 ^ 53 - 1) 971.
Theorem centre_in_hull_needs_guard :
  let nu := [f_max; f_max] in let de := [b64_one] in
  forallb pos_sample nu = true /\ forallb pos_sample de = true /\
  intn_stream 1 2 1 [0; 1; 0]%Z = true /\ hull_guard nu de 1 = false /\
  exists sorted s, ratio nu de (b64_div b64_one b64_two) 1 [0; 1; 0]%Z = Some (sorted, Some s) /\
                   b64_le (s_center s) (hull_hi nu de) = false.
Proof.
  cbv zeta. split; [vm_compute; reflexivity|]. split; [vm_compute; reflexivity|].
  split; [vm_compute; reflexivity|]. split; [vm_compute; reflexivity|].
  eexists. eexists. split; [vm_compute; reflexivity|]. vm_compute. reflexivity.
Qed.

Print Assumptions bootstrap_centre_in_hull.
