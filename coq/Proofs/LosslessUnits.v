(** C08: the .unit dimension of losslessness.

    projections_plus_residue_lossless (Proofs/Lossless.v) is about Keys returned
    by Project. Here: projections parsed by ParseWithUnit are projected by
    ProjectValues (one Key per measurement, the measurement's unit in the .unit
    field), the others and the residue by Project, and the LISTS of Keys of two
    results agree everywhere iff clauses (i)-(iv) hold and the unit lists are
    equal.

    Part 1: the unit field of a projection never changes.
    Part 2: the Keys ProjectValues returns, field by field ([wantu]), at the
            moment of the call and against every later field set.
    Part 3: which projections of the parse phase carry a .unit field.
    Part 4: the theorem, the contents of the Keys, and the form over key lists. *)
From Perf Require Import Base.Bytes Model.Name Model.Extract Model.Key Model.Projection
  Proofs.Key Proofs.Extract Proofs.Projection Proofs.Reach Proofs.Exclusion Proofs.KeyGet Proofs.Lossless.

(** ** generic *)
Lemma Forall2_weaken {A B} (R1 R2 : A -> B -> Prop) l1 l2 :
  (forall x y, R1 x y -> R2 x y) -> Forall2 R1 l1 l2 -> Forall2 R2 l1 l2.
Proof. intros H F. induction F; constructor; auto. Qed.

(** ** Part 1: nothing but ParseWithUnit touches [p_unit] *)
Lemma config_step_unit ck g o p c : p_unit (config_step ck g o p c) = p_unit p.
Proof.
  unfold config_step. destruct (negb (c_file c)); auto.
  destruct (find_sub p g (c_key c)); auto. destruct (mem (c_key c) ck); auto.
Qed.

Lemma fold_config_unit ck g o cs : forall p, p_unit (fold_left (config_step ck g o) cs p) = p_unit p.
Proof. induction cs as [|c cs IH]; intros p; cbn [fold_left]; auto. rewrite IH. apply config_step_unit. Qed.

Lemma run_item_unit r pp p it : p_unit (snd (run_item r (pp, p) it)) = p_unit p.
Proof.
  destruct it as [g o|idx|k idx]; cbn [run_item snd].
  - apply fold_config_unit.
  - destruct (full_extract pp (r_name r)). reflexivity.
  - reflexivity.
Qed.

Lemma fold_items_unit r items : forall pp p, p_unit (snd (fold_left (run_item r) items (pp, p))) = p_unit p.
Proof.
  induction items as [|it items IH]; intros pp p; cbn [fold_left]; auto.
  pose proof (run_item_unit r pp p it) as H. destruct (run_item r (pp, p) it) as [pp1 p1]. cbn [snd] in H.
  rewrite IH. exact H.
Qed.

Lemma populate_unit pp p r : p_unit (snd (populate pp p r)) = p_unit p.
Proof. unfold populate. rewrite fold_items_unit. reflexivity. Qed.

Lemma intern_row_unit p : p_unit (fst (intern_row p)) = p_unit p.
Proof. unfold intern_row. destruct (find_index _ _); reflexivity. Qed.

Lemma intern_units_unit u units : forall p, p_unit (fst (intern_units p u units)) = p_unit p.
Proof.
  induction units as [|un units IH]; intros p; cbn [intern_units]; auto.
  pose proof (intern_row_unit (set_row p u un)) as H1.
  destruct (intern_row (set_row p u un)) as [p1 k]. cbn [fst] in H1.
  change (p_unit (set_row p u un)) with (p_unit p) in H1.
  specialize (IH p1). destruct (intern_units p1 u units) as [p2 ks]. cbn [fst] in *. congruence.
Qed.

Lemma project_unit pp p r : p_unit (snd (fst (project pp p r))) = p_unit p.
Proof.
  unfold project. pose proof (populate_unit pp p r) as H1.
  destruct (populate pp p r) as [pp1 p1]. cbn [snd] in H1.
  pose proof (intern_row_unit p1) as H2. destruct (intern_row p1) as [p2 k]. cbn in *. congruence.
Qed.

Lemma project_values_unit pp p r : p_unit (snd (fst (project_values pp p r))) = p_unit p.
Proof.
  unfold project_values. pose proof (populate_unit pp p r) as H1.
  destruct (populate pp p r) as [pp1 p1]. cbn [snd] in H1.
  destruct (p_unit p1) as [u|] eqn:Eu.
  - pose proof (intern_units_unit u (r_units r) p1) as H2.
    destruct (intern_units p1 u (r_units r)) as [p2 ks]. cbn in *. congruence.
  - pose proof (intern_row_unit p1) as H2. destruct (intern_row p1) as [p2 k]. cbn in *. congruence.
Qed.

Definition wuext (w w' : world) : Prop :=
  forall pi p, nth_error (w_projs w) pi = Some p ->
    exists p', nth_error (w_projs w') pi = Some p' /\ p_unit p' = p_unit p.

Lemma wuext_refl w : wuext w w.
Proof. intros pi p H. eauto. Qed.

Lemma wuext_trans a b c : wuext a b -> wuext b c -> wuext a c.
Proof.
  intros H1 H2 pi p Hp. destruct (H1 _ _ Hp) as [p1 [Hp1 E1]].
  destruct (H2 _ _ Hp1) as [p2 [Hp2 E2]]. exists p2. split; auto. congruence.
Qed.

Lemma wuext_app pp pp' projs l : wuext (mkW pp projs) (mkW pp' (projs ++ l)).
Proof.
  intros pi p Hp; cbn in *. exists p. split; auto. now apply nth_error_app_old.
Qed.

Lemma wuext_set_nth pp pp' projs pi p p' :
  nth_error projs pi = Some p -> p_unit p' = p_unit p ->
  wuext (mkW pp projs) (mkW pp' (set_nth pi p' projs)).
Proof.
  intros Hp E qi q Hq; cbn in *. destruct (Nat.eq_dec pi qi) as [<-|Hne].
  - exists p'. split; [eapply nth_error_set_nth_same; eauto|]. congruence.
  - exists q. split; [now rewrite nth_error_set_nth_other|reflexivity].
Qed.

Lemma step_unit w o : wuext w (fst (step w o)).
Proof.
  destruct w as [pp projs]. destruct o as [wu fs| |pi r|pi r]; cbn [step w_pp w_projs].
  - destruct ((if wu then parse_with_unit else parse) pp fs) as [pp' [p|]]; cbn [fst].
    + apply wuext_app.
    + intros pi p Hp. cbn in *. eauto.
  - destruct (residue pp) as [pp' p]. cbn [fst]. apply wuext_app.
  - destruct (nth_error projs pi) as [p|] eqn:Ep; [|apply wuext_refl].
    pose proof (project_unit pp p r) as H. destruct (project pp p r) as [[pp' p'] k]. cbn in *.
    eapply wuext_set_nth; eauto.
  - destruct (nth_error projs pi) as [p|] eqn:Ep; [|apply wuext_refl].
    pose proof (project_values_unit pp p r) as H. destruct (project_values pp p r) as [[pp' p'] ks]. cbn in *.
    eapply wuext_set_nth; eauto.
Qed.

Lemma run_unit ops : forall w, wuext w (fst (run_ops w ops)).
Proof.
  induction ops as [|o ops IH]; intros w; cbn [run_ops]; [apply wuext_refl|].
  pose proof (step_unit w o) as H1. destruct (step w o) as [w1 x]. cbn [fst] in H1.
  specialize (IH w1). destruct (run_ops w1 ops) as [w2 xs]. cbn [fst] in *.
  eapply wuext_trans; eauto.
Qed.

(** ** Part 2: the Keys returned by ProjectValues *)

(** what field [idx] of the Key for the measurement with unit [un] holds, [u]
    being the projection's unit field: the unit there, and everywhere else what
    [want] says (the value that field's extractor yields on the result) *)
Definition wantu (E : list bytes) (r : result) (u : nat) (un : bytes) (idx : nat) (f : finfo) : bytes :=
  if Nat.eqb idx u then un else want E r f.

(** a field that comes into existence after [r] was projected reads "" on [r] *)
Lemma want_new_empty C E r p p' idx f' :
  P p -> P p' -> sext p p' -> Clean C p' ->
  (forall g o, In (PConfig g o) (p_items p) -> Has C r p g) ->
  nfields p <= idx -> nth_error (p_fields p') idx = Some f' -> want E r f' = [].
Proof.
  intros HP HP' S HC Hhas Hge Hf'.
  assert (T : TInv p) by apply HP. assert (T' : TInv p') by apply HP'.
  assert (Hitems : p_items p' = p_items p) by apply S.
  assert (Hno : forall f0, nth_error (p_fields p) idx = Some f0 -> False).
  { intros f0 H0. apply nth_lt in H0. unfold nfields in Hge. lia. }
  unfold want. destruct (fi_src f') as [k0| | |] eqn:Es; auto.
  - exfalso. pose proof (cv_key p' T' idx f' k0 Hf' Es) as Hin. rewrite Hitems in Hin.
    destruct (t_key p T k0 idx Hin) as [f0 [H0 _]]. eauto.
  - exfalso. pose proof (cv_full p' T' idx f' Hf' Es) as Hin. rewrite Hitems in Hin.
    destruct (t_full p T idx Hin) as [f0 [H0 _]]. eauto.
  - destruct (cv_cfg p' T' idx f' Hf' Es) as [g [o [Hi Hit]]].
    assert (Hnm : fname (p_fields p') idx = fi_name f') by (unfold fname; now rewrite Hf').
    unfold cfg_file_val. destruct (cfg_lookup (r_cfg r) (fi_name f')) as [x|] eqn:El; auto.
    destruct (c_file x) eqn:Efx; auto. exfalso.
    destruct (cfg_lookup_some _ _ _ El) as [Hx Hkx].
    pose proof (HC g idx Hi) as Hm. rewrite Hnm, <- Hkx in Hm.
    rewrite Hitems in Hit. destruct (Hhas g o Hit x Hx Efx Hm) as [i [Hig Hin]].
    assert (i < nfields p) as Hilt by (unfold nfields; eapply sub_lt; eauto).
    assert (i = idx).
    { apply (nodup_map_inj (fname (p_fields p')) (gsubs (p_top p') g)); auto.
      - apply (t_names p' T').
      - now apply S.
      - rewrite (sext_fname p p') by auto. congruence. }
    lia.
Qed.

(** a Key of ProjectValues against a later field set *)
Lemma key_later_u C E r u un p p' k :
  P p -> P p' -> sext p p' -> pext p p' -> Clean C p' ->
  k < length (p_keys p) -> u < nfields p ->
  (forall idx f, nth_error (p_fields p) idx = Some f -> key_get p k idx = wantu E r u un idx f) ->
  (forall g o, In (PConfig g o) (p_items p) -> Has C r p g) ->
  forall idx f, nth_error (p_fields p') idx = Some f -> key_get p' k idx = wantu E r u un idx f.
Proof.
  intros HP HP' S X HC Hk Hu Hget Hhas idx f' Hf'.
  assert (Hv : key_vals p' k = key_vals p k).
  { destruct X as [[ext He] _]. unfold key_vals. rewrite He, app_nth1; auto. }
  unfold key_get. rewrite Hv. fold (key_get p k idx).
  destruct (Nat.lt_ge_cases idx (nfields p)) as [Hlt|Hge].
  - destruct (sext_field_back p p' idx f' S Hlt Hf') as [f [Hf [Hn Hs]]].
    rewrite (Hget idx f Hf). unfold wantu. destruct (Nat.eqb idx u); auto.
    symmetry. now apply want_static.
  - assert (Hlen : length (key_vals p k) <= nfields p).
    { destruct HP as [[_ [K2 _]] _]. rewrite Forall_forall in K2.
      apply (K2 (key_vals p k)). unfold key_vals. now apply nth_In. }
    unfold key_get, vals_get. rewrite nth_overflow by lia. symmetry.
    unfold wantu. destruct (Nat.eqb_spec idx u) as [->|_]; [lia|].
    exact (want_new_empty C E r p p' idx f' HP HP' S HC Hhas Hge Hf').
Qed.

(** the loop over the values in ProjectValues: [q] is the projection with the
    populated row buffer *)
Lemma intern_units_get E r u units : forall q,
  P q -> u < nfields q ->
  (forall i f, nth_error (p_fields q) i = Some f -> i <> u -> row_at q i = want E r f) ->
  let '(q', ks) := intern_units q u units in
  P q' /\ sext q q' /\ pext q q' /\ nfields q' = nfields q /\
  Forall2 (fun k un => k < length (p_keys q') /\
             forall idx f, nth_error (p_fields q') idx = Some f -> key_get q' k idx = wantu E r u un idx f)
          ks units.
Proof.
  induction units as [|un units IH]; intros q HP Hu Hrow; cbn [intern_units].
  - split; [exact HP|]. split; [apply sext_refl|]. split; [apply pext_refl|]. split; [reflexivity|constructor].
  - set (q0 := set_row q u un).
    assert (P0 : P q0) by (apply P_set_row; exact HP).
    assert (Hlen : length (p_row q) = nfields q) by apply HP.
    pose proof (intern_row_spec q0 (proj1 P0)) as S1. pose proof (P_intern_row q0 P0) as P1.
    pose proof (intern_row_sext q0 (proj1 P0)) as X1. pose proof (intern_row_static q0) as St1.
    destruct (intern_row q0) as [q1 k]. cbn [fst] in *.
    destruct S1 as [_ [E1 [B1 [V1 [R1 [_ [_ [_ N1]]]]]]]].
    assert (Nq : nfields q1 = nfields q) by (rewrite N1; reflexivity).
    assert (Hrow1 : forall i f, nth_error (p_fields q1) i = Some f -> i <> u -> row_at q1 i = want E r f).
    { intros i f' Hf' Hi. destruct (static_eq_bwd _ _ _ _ St1 Hf') as [f [Hf [Hn Hs]]].
      unfold row_at. rewrite R1. cbn [q0 set_row p_row]. rewrite set_nth_other by auto.
      fold (row_at q i). rewrite (Hrow i f Hf Hi). symmetry. now apply want_static. }
    assert (Hk1 : forall idx f, nth_error (p_fields q1) idx = Some f -> key_get q1 k idx = wantu E r u un idx f).
    { intros idx f' Hf'. unfold key_get, vals_get. rewrite V1, trim_nth. unfold wantu.
      destruct (Nat.eqb_spec idx u) as [->|Hne].
      - cbn [q0 set_row p_row]. apply set_nth_same. lia.
      - fold (row_at q0 idx). destruct (static_eq_bwd _ _ _ _ St1 Hf') as [f [Hf [Hn Hs]]].
        unfold row_at. cbn [q0 set_row p_row]. rewrite set_nth_other by auto.
        fold (row_at q idx). rewrite (Hrow idx f Hf Hne). symmetry. now apply want_static. }
    assert (Hu1 : u < nfields q1) by lia.
    specialize (IH q1 P1 Hu1 Hrow1). destruct (intern_units q1 u units) as [q2 ks].
    destruct IH as [P2 [S2 [X2 [N2 F2]]]].
    split; [exact P2|].
    split; [eapply sext_trans; [|exact S2]; eapply sext_trans; [|exact X1]; apply sext_same; reflexivity|].
    split; [eapply pext_trans; [|exact X2]; eapply pext_trans; [|exact E1]; apply kstep_pext, kstep_set_row|].
    split; [lia|]. constructor; [|exact F2]. split.
    + destruct X2 as [[ext He] _]. rewrite He, app_length. lia.
    + intros idx f2 Hf2.
      assert (Hv : key_vals q2 k = key_vals q1 k).
      { destruct X2 as [[ext He] _]. unfold key_vals. rewrite He, app_nth1; auto. }
      unfold key_get. rewrite Hv. fold (key_get q1 k idx).
      assert (Hlt : idx < nfields q1) by (rewrite <- N2; unfold nfields; eapply nth_lt; eauto).
      destruct (sext_field_back q1 q2 idx f2 S2 Hlt Hf2) as [f1 [Hf1 [Hn Hs]]].
      rewrite (Hk1 idx f1 Hf1). unfold wantu. destruct (Nat.eqb idx u); auto.
      symmetry. now apply want_static.
Qed.

Lemma Clean_nil p : Clean [] p.
Proof. intros g i _. reflexivity. Qed.

(** ProjectValues through a projection with a unit field, in any state satisfying
    the invariants: the i-th Key holds the i-th unit in the unit field, and in
    every other field what that field's extractor yields on the result *)
Theorem project_values_get pp p r u :
  NoDup (map c_key (r_cfg r)) -> P p -> p_unit p = Some u -> u < nfields p ->
  let '(pp', p', ks) := project_values pp p r in
  P p' /\ pext p p' /\ p_unit p' = Some u /\ nfields p <= nfields p' /\
  Forall2 (fun k un => k < length (p_keys p') /\
             forall idx f, nth_error (p_fields p') idx = Some f ->
               key_get p' k idx = wantu (ext_of pp) r u un idx f)
          ks (r_units r).
Proof.
  intros Hnd HP HU Hu.
  pose proof (project_values_unit pp p r) as HU'. unfold project_values in *.
  destruct (populate_spec r Hnd (ext_of pp) pp p HP eq_refl) as [P1 [_ W1]].
  pose proof (populate_unit pp p r) as U1. pose proof (kstep_populate pp p r) as K1.
  destruct (populate pp p r) as [pp1 p1]. cbn [fst snd] in *. rewrite U1, HU in *.
  assert (Hu1 : u < nfields p1) by (destruct K1 as [_ [L _]]; lia).
  pose proof (intern_units_get (ext_of pp) r u (r_units r) p1 P1 Hu1 (fun i f Hf _ => W1 i f Hf)) as G.
  destruct (intern_units p1 u (r_units r)) as [p2 ks]. cbn [fst snd] in *.
  destruct G as [P2 [S2 [X2 [N2 F2]]]].
  split; [exact P2|]. split; [eapply pext_trans; [apply kstep_pext; exact K1|exact X2]|].
  split; [exact HU'|]. split; [destruct K1 as [_ [L _]]; lia|exact F2].
Qed.

(** ... and after parsing (so that the group contents are known: [Clean], [Has]) *)
Lemma project_values_facts C E pp p r u :
  NoDup (map c_key (r_cfg r)) -> P p -> Clean C p -> pp_cfg pp = C -> ext_of pp = E ->
  p_unit p = Some u -> u < nfields p ->
  let '(pp', p', ks) := project_values pp p r in
  P p' /\ sext p p' /\ pext p p' /\ Clean C p' /\
  Forall2 (fun k un => k < length (p_keys p') /\
             forall idx f, nth_error (p_fields p') idx = Some f -> key_get p' k idx = wantu E r u un idx f)
          ks (r_units r) /\
  (forall g o, In (PConfig g o) (p_items p') -> Has C r p' g).
Proof.
  intros Hnd HP HC <- <- HU Hu.
  pose proof (project_values_get pp p r u Hnd HP HU Hu) as G.
  pose proof (project_values_more pp p r Hnd HP HC) as M.
  unfold project_values in *.
  pose proof (populate_more pp p r Hnd HP HC) as PM. cbv zeta in PM.
  pose proof (populate_unit pp p r) as U1.
  destruct (populate pp p r) as [pp1 p1]. cbn [fst snd] in *. rewrite U1, HU in *.
  destruct PM as [_ [P1 [_ [C1 H1]]]].
  pose proof (intern_units_more (pp_cfg pp) u (r_units r) p1 P1 C1) as IM. cbv zeta in IM.
  destruct (intern_units p1 u (r_units r)) as [p2 ks]. cbn [fst snd] in *.
  destruct G as [G1 [G2 [_ [_ G5]]]]. destruct M as [_ [_ [M3 M4]]]. destruct IM as [_ [S12 _]].
  split; [exact G1|]. split; [exact M3|]. split; [exact G2|]. split; [exact M4|]. split; [exact G5|].
  intros g o Hin. eapply Has_sext; [apply P1|exact S12|]. apply (H1 g o).
  destruct S12 as [Ei _]. now rewrite <- Ei.
Qed.

(** the Keys handed out by ProjectValues for [r] at any point of a stream (after
    parsing), read against the FINAL field set *)
Lemma keys_final_u C E ops : forall w i pi r ks u,
  Forall no_parse ops -> Forall op_wf ops -> PostInv C E w ->
  (exists p0, nth_error (w_projs w) pi = Some p0 /\ p_unit p0 = Some u /\ u < nfields p0) ->
  nth_error ops i = Some (OpProjectValues pi r) ->
  nth_error (snd (run_ops w ops)) i = Some (OutKeys ks) ->
  exists pF, nth_error (w_projs (fst (run_ops w ops))) pi = Some pF /\ P pF /\ Clean C pF /\
    p_unit pF = Some u /\
    Forall2 (fun k un => k < length (p_keys pF) /\
               forall idx f, nth_error (p_fields pF) idx = Some f -> key_get pF k idx = wantu E r u un idx f)
            ks (r_units r) /\
    (forall g o, In (PConfig g o) (p_items pF) -> Has C r pF g).
Proof.
  induction ops as [|o ops IH]; intros w i pi r ks u Hnp Hwf HI HU Ho Hx; [destruct i; discriminate|].
  inversion Hnp as [|? ? Hn1 Hn2]; subst. inversion Hwf as [|? ? Hw1 Hw2]; subst.
  destruct (post_step C E w o Hn1 Hw1 HI) as [I1 SS1]. pose proof (step_unit w o) as US1.
  cbn [run_ops] in *. destruct i as [|i].
  - cbn in Ho. injection Ho as ->. cbn [op_wf] in Hw1. clear SS1 US1.
    destruct HU as [p0 [Hp0 [HU0 Hu0]]].
    destruct HI as [J1 J2 J3 J4 J5]. destruct w as [pp projs]. cbn [w_pp w_projs step] in *.
    rewrite Hp0 in *.
    assert (Hin : In p0 projs) by (eapply nth_error_In; eauto).
    assert (HP : P p0) by (rewrite Forall_forall in J1; auto).
    pose proof (project_values_facts C E pp p0 r u Hw1 HP (J4 p0 Hin) J2 J3 HU0 Hu0) as F.
    pose proof (project_values_unit pp p0 r) as FU.
    destruct (project_values pp p0 r) as [[pp' p'] ks0]. cbn [fst snd] in I1, FU.
    set (w1 := mkW pp' (set_nth pi p' projs)) in *.
    destruct (post_run C E ops w1 Hn2 Hw2 I1) as [I2 [S2 X2]]. pose proof (run_unit ops w1) as U2.
    destruct (run_ops w1 ops) as [w2 xs]. cbn [fst snd] in *. injection Hx as <-.
    destruct F as [F1 [F2 [F3 [F4 [F5 F6]]]]].
    assert (Hp' : nth_error (w_projs w1) pi = Some p') by (cbn; eapply nth_error_set_nth_same; eauto).
    destruct (S2 _ _ Hp') as [pF [HpF SF]]. destruct (X2 _ _ Hp') as [pF' [HpF' XF]].
    assert (pF' = pF) by congruence. subst pF'.
    destruct (U2 _ _ Hp') as [pF'' [HpF'' UF]]. assert (pF'' = pF) by congruence. subst pF''.
    assert (HinF : In pF (w_projs w2)) by (eapply nth_error_In; eauto).
    assert (PF : P pF) by (destruct I2 as [Q _ _ _ _]; rewrite Forall_forall in Q; auto).
    assert (CF : Clean C pF) by (destruct I2 as [_ _ _ Q _]; auto).
    assert (Hu' : u < nfields p') by (destruct F2 as [_ [_ [_ L]]]; lia).
    exists pF. split; [exact HpF|]. split; [exact PF|]. split; [exact CF|]. split; [congruence|]. split.
    + eapply Forall2_weaken; [|exact F5]. cbn beta. intros k un [Hk Hg]. split.
      * destruct XF as [[ext He] _]. rewrite He, app_length. lia.
      * exact (key_later_u C E r u un p' pF k F1 PF SF XF CF Hk Hu' Hg F6).
    + intros g o Hit. eapply Has_sext; [apply F1|exact SF|]. apply (F6 g o).
      destruct SF as [Ei _]. now rewrite <- Ei.
  - destruct (step w o) as [w1 x]. cbn [fst] in *.
    assert (HU1 : exists p1, nth_error (w_projs w1) pi = Some p1 /\ p_unit p1 = Some u /\ u < nfields p1).
    { destruct HU as [p0 [Hp0 [HU0 Hu0]]]. destruct (SS1 _ _ Hp0) as [p1 [Hp1 S01]].
      destruct (US1 _ _ Hp0) as [p1' [Hp1' U01]]. assert (p1' = p1) by congruence. subst p1'.
      exists p1. split; auto. split; [congruence|]. destruct S01 as [_ [_ [_ L]]]. lia. }
    specialize (IH w1 i pi r ks u Hn2 Hw2 I1 HU1 Ho).
    destruct (run_ops w1 ops) as [w2 xs]. cbn [fst snd] in *. apply IH. exact Hx.
Qed.

(** *** two Key lists of one ParseWithUnit projection *)
Lemma keys_units_eq E a b pF u :
  KInv pF -> u < nfields pF -> forall ka ua,
  Forall2 (fun k un => k < length (p_keys pF) /\
             forall idx f, nth_error (p_fields pF) idx = Some f -> key_get pF k idx = wantu E a u un idx f)
          ka ua -> forall kb ub,
  Forall2 (fun k un => k < length (p_keys pF) /\
             forall idx f, nth_error (p_fields pF) idx = Some f -> key_get pF k idx = wantu E b u un idx f)
          kb ub ->
  (ka = kb <->
   ua = ub /\ (ua <> [] -> forall idx f, nth_error (p_fields pF) idx = Some f -> idx <> u ->
                             want E a f = want E b f)).
Proof.
  intros K Hu ka ua Fa. induction Fa as [|k1 un1 ka ua [L1 G1] Fa IH]; intros kb ub Fb.
  - inversion Fb as [|k2 un2 kb' ub' _ _]; subst.
    + split; [intros _; split; [reflexivity|intros H; contradiction]|reflexivity].
    + split; [discriminate|intros [H _]; discriminate].
  - inversion Fb as [|k2 un2 kb' ub' [L2 G2] Fb']; subst.
    + split; [discriminate|intros [H _]; discriminate].
    + specialize (IH kb' ub' Fb').
      assert (Hk : k1 = k2 <-> un1 = un2 /\
                (forall idx f, nth_error (p_fields pF) idx = Some f -> idx <> u -> want E a f = want E b f)).
      { rewrite (key_eq_iff_gets pF k1 k2 K L1 L2). split.
        - intros H. split.
          + destruct (nth_error (p_fields pF) u) as [fu|] eqn:Efu.
            * pose proof (H u Hu) as Hq. rewrite (G1 u fu Efu), (G2 u fu Efu) in Hq.
              unfold wantu in Hq. now rewrite Nat.eqb_refl in Hq.
            * apply nth_error_None in Efu. unfold nfields in Hu. lia.
          + intros idx f Hf Hne. pose proof (H idx) as Hq. rewrite (G1 idx f Hf), (G2 idx f Hf) in Hq.
            unfold wantu in Hq. apply Nat.eqb_neq in Hne. rewrite Hne in Hq. apply Hq.
            unfold nfields. eapply nth_lt; eauto.
        - intros [Hun Hw] idx Hidx. destruct (nth_error (p_fields pF) idx) as [f|] eqn:Ef.
          + rewrite (G1 idx f Ef), (G2 idx f Ef). unfold wantu. destruct (Nat.eqb_spec idx u); eauto.
          + apply nth_error_None in Ef. unfold nfields in Hidx. lia. }
      split.
      * intros H. injection H as H1 H2. apply Hk in H1 as [-> Hw]. apply IH in H2 as [-> _].
        split; [reflexivity|]. intros _. exact Hw.
      * intros [H Hw]. injection H as -> ->. f_equal.
        -- apply Hk. split; [reflexivity|]. apply Hw. discriminate.
        -- apply IH. split; [reflexivity|]. intros _. apply Hw. discriminate.
Qed.

(** ** Part 3: which projections carry a unit field *)
Definition unit_shape (wu : bool) (p : projection) : Prop :=
  if wu then exists u f, p_unit p = Some u /\ nth_error (p_fields p) u = Some f /\
                         fi_src f = SUnit /\ fi_name f = key_unit
  else p_unit p = None.

Lemma mp_proj_unit p s p' : mp_proj p s = Some p' -> p_unit p' = p_unit p.
Proof.
  unfold mp_proj. destruct (order_of_spec s) as [o|]; [|discriminate].
  destruct (beq (ps_key s) key_config).
  { destruct (is_fixed o); [discriminate|]. cbn. intros [= <-]. reflexivity. }
  destruct (beq (ps_key s) key_fullname).
  { cbn. intros [= <-]. reflexivity. }
  destruct (beq (ps_key s) key_unit); [discriminate|].
  destruct (is_nil (ps_key s)); [discriminate|].
  cbn. intros [= <-]. reflexivity.
Qed.

Lemma make_all_unit fs : forall pp p pp' p', make_all pp p fs = (pp', Some p') -> p_unit p' = p_unit p.
Proof.
  induction fs as [|s fs IH]; intros pp p pp' p'; cbn [make_all].
  - intros [= _ <-]. reflexivity.
  - unfold make_projection. destruct (mp_proj p s) as [p1|] eqn:E; [|discriminate].
    intros H. rewrite (IH _ _ _ _ H). eapply mp_proj_unit; eauto.
Qed.

Lemma do_call_shape pp c pp' p : do_call pp c = (pp', Some p) -> unit_shape (fst c) p.
Proof.
  destruct c as [[|] fs]; unfold do_call; cbn [fst snd unit_shape].
  - unfold parse_with_unit. destruct (parse pp fs) as [pp1 [p1|]]; [|discriminate].
    cbn. intros [= _ <-]. exists (nfields p1), (mkF key_unit OFirst [] SUnit). cbn.
    split; [reflexivity|]. split; [|auto]. unfold nfields. rewrite nth_error_app2 by lia.
    now rewrite Nat.sub_diag.
  - unfold parse. intros H. now rewrite (make_all_unit _ _ _ _ _ H).
Qed.

Lemma residue_unit pp : p_unit (snd (residue pp)) = None.
Proof.
  unfold residue. destruct (pp_havecfg pp); cbn [fst].
  - destruct (pp_havefull pp); [reflexivity|]. rewrite residue_add_fullname. reflexivity.
  - rewrite residue_add_config. cbn [fst pp_set_havecfg pp_havefull].
    destruct (pp_havefull pp); [reflexivity|]. rewrite residue_add_fullname. reflexivity.
Qed.

(** the projection a call returns (it does not depend on the parser:
    parse_proj_indep) *)
Definition proj_of_call (c : call) : projection :=
  match snd (do_call new_parser c) with Some p => p | None => new_projection end.

Lemma parse_ops_projs calls : forall w,
  Forall call_ok calls ->
  w_projs (fst (run_ops w (parse_ops calls))) = w_projs w ++ map proj_of_call calls.
Proof.
  induction calls as [|c calls IH]; intros w Hok; cbn [parse_ops map run_ops].
  - cbn. now rewrite app_nil_r.
  - inversion Hok as [|? ? Hc Hcs]; subst.
    destruct (do_call_keys (w_pp w) c Hc) as [pp' [p' [Hd _]]].
    cbn [step]. change ((if fst c then parse_with_unit else parse) (w_pp w) (snd c)) with (do_call (w_pp w) c).
    rewrite Hd. fold (parse_ops calls).
    specialize (IH (mkW pp' (w_projs w ++ [p'])) Hcs).
    destruct (run_ops (mkW pp' (w_projs w ++ [p'])) (parse_ops calls)) as [w2 xs]. cbn [fst w_projs] in *.
    rewrite IH, <- app_assoc. cbn [app]. f_equal. f_equal.
    unfold proj_of_call. rewrite (parse_proj_indep new_parser (w_pp w) c), Hd. reflexivity.
Qed.

(** does projection number [pi] come from a ParseWithUnit call? *)
Definition with_unit (calls : list call) (pi : nat) : bool :=
  match nth_error calls pi with Some c => fst c | None => false end.

Lemma after_parsing_units calls :
  Forall call_ok calls ->
  let w0 := fst (run_ops new_world (parse_ops calls ++ [OpResidue])) in
  forall pi p0, nth_error (w_projs w0) pi = Some p0 -> unit_shape (with_unit calls pi) p0.
Proof.
  intros Hok. cbv zeta. rewrite run_ops_app.
  pose proof (parse_ops_projs calls new_world Hok) as Hp.
  destruct (run_ops new_world (parse_ops calls)) as [w1 xs1]. cbn [fst new_world w_projs app] in Hp.
  cbn [run_ops step]. pose proof (residue_unit (w_pp w1)) as RU.
  destruct (residue (w_pp w1)) as [pp' pr]. cbn [fst snd w_projs] in *. rewrite Hp.
  intros pi p0 Hp0. unfold with_unit.
  destruct (Nat.lt_ge_cases pi (length calls)) as [Hlt|Hge].
  - rewrite nth_error_app1 in Hp0 by now rewrite map_length.
    destruct (nth_error calls pi) as [c|] eqn:Ec; [|apply nth_error_None in Ec; lia].
    rewrite (map_nth_error _ _ _ Ec) in Hp0. injection Hp0 as <-.
    assert (Hc : call_ok c) by (rewrite Forall_forall in Hok; apply Hok; eapply nth_error_In; eauto).
    destruct (do_call_keys new_parser c Hc) as [pp1 [p1 [Hd _]]].
    unfold proj_of_call. rewrite Hd. cbn [snd]. eapply do_call_shape; eauto.
  - destruct (nth_error calls pi) as [c|] eqn:Ec; [apply nth_lt in Ec; lia|]. cbn [unit_shape].
    rewrite nth_error_app2 in Hp0 by now rewrite map_length. rewrite map_length in Hp0.
    destruct (pi - length calls) as [|[|m]]; cbn in Hp0; try discriminate. now injection Hp0 as <-.
Qed.

Lemma with_unit_some (calls : list call) pi : with_unit calls pi = true -> existsb fst calls = true.
Proof.
  unfold with_unit. destruct (nth_error calls pi) as [c|] eqn:Ec; [|discriminate].
  intros Hc. apply existsb_exists. exists c. split; auto. eapply nth_error_In; eauto.
Qed.

Lemma some_with_unit (calls : list call) :
  existsb fst calls = true -> exists pi, pi < length calls /\ with_unit calls pi = true.
Proof.
  intros H. apply existsb_exists in H as [c [Hin Hc]]. apply In_nth_error in Hin as [pi Hpi].
  exists pi. split; [eapply nth_lt; eauto|]. unfold with_unit, call in *. now rewrite Hpi.
Qed.

(** ** Part 4: the theorem *)

(** Project returns exactly one Key *)
Lemma out_project_single ops : forall w i pi r ks,
  nth_error ops i = Some (OpProject pi r) ->
  nth_error (snd (run_ops w ops)) i = Some (OutKeys ks) -> exists k, ks = [k].
Proof.
  induction ops as [|o ops IH]; intros w i pi r ks Ho Hx; [destruct i; discriminate|].
  cbn [run_ops] in Hx. destruct i as [|i].
  - cbn in Ho. injection Ho as ->. cbn [step] in Hx.
    destruct (nth_error (w_projs w) pi) as [p|].
    + destruct (project (w_pp w) p r) as [[pp' p'] k].
      destruct (run_ops _ ops) as [w2 xs]. cbn in Hx. injection Hx as <-. eauto.
    + destruct (run_ops w ops) as [w2 xs]. cbn in Hx. discriminate.
  - destruct (step w o) as [w1 x]. specialize (IH w1 i pi r ks Ho).
    destruct (run_ops w1 ops) as [w2 xs]. cbn in Hx. auto.
Qed.

(** from agreement of the field values in every projection to [same_info] (the
    "only if" half of projections_plus_residue_lossless, for any way the
    agreement was obtained) *)
Lemma same_info_of_wants C E (w0 : world) a b :
  (forall k, In k C -> plain_key k) ->
  (forall k, In k C \/ In k E -> exists pi p, nth_error (w_projs w0) pi = Some p /\ HasKey p k) ->
  (exists pi p, nth_error (w_projs w0) pi = Some p /\ HasCfg p) ->
  (exists pi p, nth_error (w_projs w0) pi = Some p /\ HasFull p) ->
  (forall pi p0, nth_error (w_projs w0) pi = Some p0 ->
     exists pF, sext p0 pF /\ P pF /\
       (forall idx f, nth_error (p_fields pF) idx = Some f -> want E a f = want E b f) /\
       (forall g o, In (PConfig g o) (p_items pF) -> Has C a pF g /\ Has C b pF g)) ->
  same_info C E a b.
Proof.
  intros Hpl Hkeys Hcfg Hfull Hall.
  assert (Hkey : forall k, In k C \/ In k E ->
            extract k (r_name a) (r_cfg a) = extract k (r_name b) (r_cfg b)).
  { intros k Hk. destruct (Hkeys k Hk) as [pi [p0 [Hp0 Hk0]]].
    destruct (Hall pi p0 Hp0) as [pF [S0 [_ [Hw _]]]].
    destruct (HasKey_sext p0 pF k S0 Hk0) as [idx [f [Hf Hs]]].
    specialize (Hw idx f Hf). unfold want in Hw. now rewrite Hs in Hw. }
  split; [|split; [|split]].
  - intros k Hk. pose proof (Hkey k (or_introl Hk)) as Hq.
    rewrite !(extract_plain k) in Hq by auto. exact Hq.
  - intros k Hk.
    destruct Hcfg as [pi [p0 [Hp0 Hg0]]]. destruct (Hall pi p0 Hp0) as [pF [S0 [PF [Hw Hhas]]]].
    destruct (HasCfg_sext p0 pF S0 Hg0) as [g [o Hit]]. destruct (Hhas g o Hit) as [Ha Hb].
    assert (TF : TInv pF) by apply PF.
    assert (Hm : mem k C = false).
    { destruct (mem k C) eqn:Em; auto. apply mem_In in Em. contradiction. }
    assert (Hsub : forall i, In i (gsubs (p_top pF) g) -> fname (p_fields pF) i = k ->
              cfg_file_val (r_cfg a) k = cfg_file_val (r_cfg b) k).
    { intros i Hi Hn. destruct (t_sub pF TF g i Hi) as [f [Hf Hs]].
      specialize (Hw i f Hf). unfold want in Hw. rewrite Hs in Hw.
      unfold fname in Hn. rewrite Hf in Hn. now rewrite Hn in Hw. }
    unfold cfg_file_val at 1.
    destruct (cfg_lookup (r_cfg a) k) as [x|] eqn:Ea.
    + destruct (c_file x) eqn:Efx.
      * destruct (cfg_lookup_some _ _ _ Ea) as [Hx Hkx]. rewrite <- Hkx in Hm.
        destruct (Ha x Hx Efx Hm) as [i [Hi Hn]]. rewrite Hkx in Hn.
        rewrite <- (Hsub i Hi Hn). unfold cfg_file_val. now rewrite Ea, Efx.
      * unfold cfg_file_val. destruct (cfg_lookup (r_cfg b) k) as [y|] eqn:Eb; auto.
        destruct (c_file y) eqn:Efy; auto.
        destruct (cfg_lookup_some _ _ _ Eb) as [Hy Hky]. rewrite <- Hky in Hm.
        destruct (Hb y Hy Efy Hm) as [i [Hi Hn]]. rewrite Hky in Hn.
        pose proof (Hsub i Hi Hn) as Hq. unfold cfg_file_val in Hq. now rewrite Ea, Efx, Eb, Efy in Hq.
    + unfold cfg_file_val. destruct (cfg_lookup (r_cfg b) k) as [y|] eqn:Eb; auto.
      destruct (c_file y) eqn:Efy; auto.
      destruct (cfg_lookup_some _ _ _ Eb) as [Hy Hky]. rewrite <- Hky in Hm.
      destruct (Hb y Hy Efy Hm) as [i [Hi Hn]]. rewrite Hky in Hn.
      pose proof (Hsub i Hi Hn) as Hq. unfold cfg_file_val in Hq. now rewrite Ea, Eb, Efy in Hq.
  - intros k Hk. apply Hkey. now right.
  - destruct Hfull as [pi [p0 [Hp0 Hf0]]]. destruct (Hall pi p0 Hp0) as [pF [S0 [_ [Hw _]]]].
    destruct (HasFull_sext p0 pF S0 Hf0) as [idx [f [Hf Hs]]].
    specialize (Hw idx f Hf). unfold want in Hw. now rewrite Hs in Hw.
Qed.

(** the call that projects [r] through projection number [pi]: ProjectValues for
    the projections returned by ParseWithUnit, Project for the others and for the
    residue *)
Definition proj_op (calls : list call) (pi : nat) (r : result) : op :=
  if with_unit calls pi then OpProjectValues pi r else OpProject pi r.

(** the right-hand side: clauses (i)-(iv), and — when some projection carries
    .unit — equal unit lists *)
Definition same_info_units (calls : list call) (a b : result) : Prop :=
  same_info (pp_cfg (parser_after calls)) (pp_full (parser_after calls)) a b /\
  (existsb fst calls = true -> r_units a = r_units b).

(** projections_plus_residue_lossless with ProjectValues.
    As there, [calls] are the Parse / ParseWithUnit calls made on one parser
    (each returning a projection), then Residue, then ANY stream [rest] of
    Project / ProjectValues / Residue calls on results with distinct configuration
    keys. Results [a] and [b] are projected by every projection and the residue
    at arbitrary positions [ia pi], [ib pi] of the stream — by ProjectValues when
    the projection came from ParseWithUnit, by Project otherwise ([proj_op]) —
    and [ka pi], [kb pi] are the LISTS of Keys returned (one Key for Project, one
    per measurement for ProjectValues). When some projection carries .unit, one
    of the two results has a measurement (the Reader never delivers a result
    without one: benchfmt/reader.go "missing measurements"; a result without
    measurements gets no Key at all from ProjectValues —
    lossless_units_needs_values). Then: the Key lists agree everywhere IFF
    [same_info] (clauses (i)-(iv)) holds and, when some projection carries .unit,
    the unit lists are equal. *)
Theorem projections_plus_residue_lossless_units calls rest a b (ia ib : nat -> nat) (ka kb : nat -> list nat) :
  Forall call_ok calls -> Forall no_parse rest -> Forall op_wf rest ->
  let w0 := fst (run_ops new_world (parse_ops calls ++ [OpResidue])) in
  let xs := snd (run_ops w0 rest) in
  (forall pi, pi <= length calls ->
     nth_error rest (ia pi) = Some (proj_op calls pi a) /\ nth_error xs (ia pi) = Some (OutKeys (ka pi)) /\
     nth_error rest (ib pi) = Some (proj_op calls pi b) /\ nth_error xs (ib pi) = Some (OutKeys (kb pi))) ->
  (existsb fst calls = true -> r_units a <> [] \/ r_units b <> []) ->
  ((forall pi, pi <= length calls -> ka pi = kb pi) <-> same_info_units calls a b).
Proof.
  intros Hok Hnp Hwf. cbv zeta. intros Hpos Hval. unfold same_info_units.
  destruct (after_parsing calls Hok) as [I0 [Hlen [Hpl [Hkeys [Hcfg Hfull]]]]].
  pose proof (after_parsing_units calls Hok) as Hshape. cbv zeta in *.
  set (C := pp_cfg (parser_after calls)) in *. set (E := pp_full (parser_after calls)) in *.
  set (w0 := fst (run_ops new_world (parse_ops calls ++ [OpResidue]))) in *.
  destruct (post_run C E rest w0 Hnp Hwf I0) as [IF [SF _]].
  assert (Hfin : forall pi, pi <= length calls ->
            exists p0 pF, nth_error (w_projs w0) pi = Some p0 /\
              nth_error (w_projs (fst (run_ops w0 rest))) pi = Some pF /\ sext p0 pF /\ P pF /\
              (forall g o, In (PConfig g o) (p_items pF) -> Has C a pF g /\ Has C b pF g) /\
              (ka pi = kb pi <->
               (with_unit calls pi = true -> r_units a = r_units b) /\
               ((with_unit calls pi = true -> r_units a <> []) ->
                forall idx f, nth_error (p_fields pF) idx = Some f -> want E a f = want E b f))).
  { intros pi Hpi. destruct (Hpos pi Hpi) as [H1 [H2 [H3 H4]]].
    destruct (nth_error (w_projs w0) pi) as [p0|] eqn:Hp0; [|apply nth_error_None in Hp0; lia].
    pose proof (Hshape pi p0 Hp0) as Hsh. destruct (SF _ _ Hp0) as [pF [HpF S0]].
    exists p0, pF. split; [reflexivity|]. split; [exact HpF|]. split; [exact S0|].
    unfold proj_op in H1, H3. destruct (with_unit calls pi) eqn:Ewu; cbn [unit_shape] in Hsh.
    - (* ParseWithUnit + ProjectValues *)
      destruct Hsh as [u [f0 [HU0 [Hf0 [Hs0 _]]]]].
      assert (Hu0 : u < nfields p0) by (unfold nfields; eapply nth_lt; eauto).
      assert (HU : exists q, nth_error (w_projs w0) pi = Some q /\ p_unit q = Some u /\ u < nfields q) by eauto.
      destruct (keys_final_u C E rest w0 (ia pi) pi a (ka pi) u Hnp Hwf I0 HU H1 H2)
        as [pF1 [Hp1 [PF [_ [_ [Fa Ha]]]]]].
      destruct (keys_final_u C E rest w0 (ib pi) pi b (kb pi) u Hnp Hwf I0 HU H3 H4)
        as [pF2 [Hp2 [_ [_ [_ [Fb Hb]]]]]].
      assert (pF1 = pF) by congruence. assert (pF2 = pF) by congruence. subst pF1 pF2.
      split; [exact PF|]. split; [intros g o Hit; split; eauto|].
      destruct (sext_field p0 pF u f0 S0 Hf0) as [fu [Hfu [_ Hsu]]].
      assert (HuF : u < nfields pF) by (unfold nfields; eapply nth_lt; eauto).
      rewrite (keys_units_eq E a b pF u (proj1 PF) HuF _ _ Fa _ _ Fb). split.
      + intros [He Hw]. split; [auto|]. intros Hne idx f Hf.
        destruct (Nat.eq_dec idx u) as [->|Hidx]; [|exact (Hw (Hne eq_refl) idx f Hf Hidx)].
        assert (f = fu) by congruence. subst f. unfold want. now rewrite Hsu, Hs0.
      + intros [He Hw]. split; [auto|]. intros Hne idx f Hf _. exact (Hw (fun _ => Hne) idx f Hf).
    - (* Parse + Project, and the residue *)
      destruct (out_project_single rest w0 _ _ _ _ H1 H2) as [k1 Ek1].
      destruct (out_project_single rest w0 _ _ _ _ H3 H4) as [k2 Ek2]. rewrite Ek1, Ek2 in *.
      destruct (keys_agree_iff C E rest w0 pi a b (ia pi) (ib pi) k1 k2 Hnp Hwf I0 H1 H2 H3 H4)
        as [pF1 [Hp1 [PF [_ [Hiff Hhas]]]]].
      assert (pF1 = pF) by congruence. subst pF1.
      split; [exact PF|]. split; [exact Hhas|]. split.
      + intros [= Hk]. split; [discriminate|]. intros _. now apply Hiff.
      + intros [_ Hw]. f_equal. apply Hiff. apply Hw. discriminate. }
  split.
  - (* agreement -> same information and same units *)
    intros Hag.
    assert (Hun : existsb fst calls = true -> r_units a = r_units b).
    { intros Hex. destruct (some_with_unit calls Hex) as [pi [Hpi Hwu]].
      assert (Hle : pi <= length calls) by lia.
      destruct (Hfin pi Hle) as [p0 [pF [_ [_ [_ [_ [_ Hiff]]]]]]].
      apply (proj1 Hiff (Hag pi Hle)). exact Hwu. }
    split; [|exact Hun].
    apply (same_info_of_wants C E w0 a b Hpl Hkeys Hcfg Hfull).
    intros pi p0 Hp0.
    assert (Hle : pi <= length calls) by (apply nth_lt in Hp0; lia).
    destruct (Hfin pi Hle) as [p0' [pF [Hp0' [_ [S0 [PF [Hhas Hiff]]]]]]].
    assert (p0' = p0) by congruence. subst p0'.
    exists pF. split; [exact S0|]. split; [exact PF|]. split; [|exact Hhas].
    apply (proj1 Hiff (Hag pi Hle)). intros Hwu Hnil.
    pose proof (with_unit_some calls pi Hwu) as Hex.
    destruct (Hval Hex) as [Hv|Hv]; [auto|]. rewrite <- (Hun Hex) in Hv. auto.
  - (* same information and same units -> agreement *)
    intros [Hsame Hun] pi Hpi.
    destruct (Hfin pi Hpi) as [p0 [pF [_ [HpF [_ [_ [_ Hiff]]]]]]]. apply Hiff. split.
    + intros Hwu. apply Hun. eapply with_unit_some; eauto.
    + intros _. eapply want_eq_of_same_info; eauto. eapply nth_error_In; eauto.
Qed.

(** the same, with the Keys of each result given as one list of Key lists
    ([nth pi] = the Keys from projection [pi], the last one from the residue) —
    the shape in which the correspondence evaluator compares them *)
Theorem lossless_units_lists calls rest a b (ia ib : nat -> nat) (Ka Kb : list (list nat)) :
  Forall call_ok calls -> Forall no_parse rest -> Forall op_wf rest ->
  let w0 := fst (run_ops new_world (parse_ops calls ++ [OpResidue])) in
  let xs := snd (run_ops w0 rest) in
  length Ka = S (length calls) -> length Kb = S (length calls) ->
  (forall pi, pi <= length calls ->
     nth_error rest (ia pi) = Some (proj_op calls pi a) /\
     nth_error xs (ia pi) = Some (OutKeys (nth pi Ka [])) /\
     nth_error rest (ib pi) = Some (proj_op calls pi b) /\
     nth_error xs (ib pi) = Some (OutKeys (nth pi Kb []))) ->
  (existsb fst calls = true -> r_units a <> [] \/ r_units b <> []) ->
  (Ka = Kb <-> same_info_units calls a b).
Proof.
  intros Hok Hnp Hwf. cbv zeta. intros La Lb Hpos Hval.
  rewrite <- (projections_plus_residue_lossless_units calls rest a b ia ib
                (fun pi => nth pi Ka []) (fun pi => nth pi Kb []) Hok Hnp Hwf Hpos Hval).
  split; [intros ->; auto|]. intros H.
  apply (nth_ext Ka Kb [] []); [congruence|]. intros pi Hpi. apply H. lia.
Qed.

(** *** what the Keys of ProjectValues hold (the counterpart of group_contents):
    the Keys handed out for [r] anywhere in the stream after parsing by a
    projection that came from ParseWithUnit, read in the FINAL state. There is
    one Key per measurement, in order; its .unit field — the projection's
    [p_unit], a field named ".unit" — holds that measurement's unit, and every
    other field holds what its extractor yields on [r] ([want], as for Project) *)
Theorem unit_key_contents calls rest i pi r ks :
  Forall call_ok calls -> Forall no_parse rest -> Forall op_wf rest ->
  let pa := parser_after calls in
  let w0 := fst (run_ops new_world (parse_ops calls ++ [OpResidue])) in
  with_unit calls pi = true ->
  nth_error rest i = Some (OpProjectValues pi r) ->
  nth_error (snd (run_ops w0 rest)) i = Some (OutKeys ks) ->
  exists pF u, nth_error (w_projs (fst (run_ops w0 rest))) pi = Some pF /\
    p_unit pF = Some u /\ field_name pF u = key_unit /\
    Forall2 (fun k un => k < length (p_keys pF) /\ key_get pF k u = un /\
               forall idx f, nth_error (p_fields pF) idx = Some f -> idx <> u ->
                 key_get pF k idx = want (pp_full pa) r f)
            ks (r_units r).
Proof.
  intros Hok Hnp Hwf. cbv zeta. intros Hwu Hi Hx.
  destruct (after_parsing calls Hok) as [I0 [Hlen _]].
  pose proof (after_parsing_units calls Hok) as Hshape. cbv zeta in *.
  set (w0 := fst (run_ops new_world (parse_ops calls ++ [OpResidue]))) in *.
  assert (Hpi : pi < length calls).
  { unfold with_unit in Hwu. destruct (nth_error calls pi) eqn:Ec; [|discriminate]. eapply nth_lt; eauto. }
  destruct (nth_error (w_projs w0) pi) as [p0|] eqn:Hp0; [|apply nth_error_None in Hp0; lia].
  pose proof (Hshape pi p0 Hp0) as Hsh. rewrite Hwu in Hsh. cbn [unit_shape] in Hsh.
  destruct Hsh as [u [f0 [HU0 [Hf0 [Hs0 Hn0]]]]].
  assert (Hu0 : u < nfields p0) by (unfold nfields; eapply nth_lt; eauto).
  assert (HU : exists q, nth_error (w_projs w0) pi = Some q /\ p_unit q = Some u /\ u < nfields q) by eauto.
  destruct (keys_final_u _ _ rest w0 i pi r ks u Hnp Hwf I0 HU Hi Hx) as [pF [HpF [PF [_ [HUF [F _]]]]]].
  destruct (post_run _ _ rest w0 Hnp Hwf I0) as [_ [SF _]].
  destruct (SF _ _ Hp0) as [pF' [HpF' S0]]. assert (pF' = pF) by congruence. subst pF'.
  destruct (sext_field p0 pF u f0 S0 Hf0) as [fu [Hfu [Hnu _]]].
  exists pF, u. split; [exact HpF|]. split; [exact HUF|].
  split; [unfold field_name; rewrite Hfu; congruence|].
  eapply Forall2_weaken; [|exact F]. cbn beta. intros k un [Hk Hg]. split; [exact Hk|]. split.
  - rewrite (Hg u fu Hfu). unfold wantu. now rewrite Nat.eqb_refl.
  - intros idx f Hf Hne. rewrite (Hg idx f Hf). unfold wantu. apply Nat.eqb_neq in Hne. now rewrite Hne.
Qed.

(** ** the .unit field after ANY stream of calls (Parse calls interleaved,
    failing ones included): the counterpart of key_get_extracted for
    ProjectValues *)
Definition UInv (p : projection) : Prop := forall u, p_unit p = Some u -> u < nfields p.

Lemma UInv_do_call pp c pp' p : do_call pp c = (pp', Some p) -> UInv p.
Proof.
  intros H u Hu. pose proof (do_call_shape pp c pp' p H) as S. unfold unit_shape in S.
  destruct (fst c).
  - destruct S as [u' [f [HU [Hf _]]]]. assert (u' = u) by congruence. subst u'.
    unfold nfields. eapply nth_lt; eauto.
  - congruence.
Qed.

Lemma step_UInv w o : WInv w -> Forall UInv (w_projs w) -> Forall UInv (w_projs (fst (step w o))).
Proof.
  intros HW HU. destruct w as [pp projs]. unfold WInv in HW. cbn [w_projs] in *.
  destruct o as [wu fs| |pi r|pi r]; cbn [step w_pp w_projs].
  - change ((if wu then parse_with_unit else parse) pp fs) with (do_call pp (wu, fs)).
    destruct (do_call pp (wu, fs)) as [pp' [p|]] eqn:Ed; cbn [fst w_projs]; auto.
    apply Forall_app. split; auto. constructor; auto. eapply UInv_do_call; eauto.
  - pose proof (residue_unit pp) as RU. destruct (residue pp) as [pp' p]. cbn [fst snd w_projs] in *.
    apply Forall_app. split; auto. constructor; auto. intros u Hu. congruence.
  - destruct (nth_error projs pi) as [p|] eqn:Ep; cbn [fst w_projs]; auto.
    assert (Hin : In p projs) by (eapply nth_error_In; eauto).
    assert (Kp : KInv p) by (rewrite Forall_forall in HW; auto).
    assert (Up : UInv p) by (rewrite Forall_forall in HU; auto).
    pose proof (project_spec pp p r Kp) as S. pose proof (project_unit pp p r) as U.
    destruct (project pp p r) as [[pp' p'] k]. cbn [fst snd w_projs] in *.
    apply Forall_set_nth; auto. intros u Hu. rewrite U in Hu. specialize (Up u Hu).
    destruct S as [_ [[_ L] _]]. lia.
  - destruct (nth_error projs pi) as [p|] eqn:Ep; cbn [fst w_projs]; auto.
    assert (Hin : In p projs) by (eapply nth_error_In; eauto).
    assert (Kp : KInv p) by (rewrite Forall_forall in HW; auto).
    assert (Up : UInv p) by (rewrite Forall_forall in HU; auto).
    pose proof (project_values_spec pp p r Kp) as S. pose proof (project_values_unit pp p r) as U.
    destruct (project_values pp p r) as [[pp' p'] ks]. cbn [fst snd w_projs] in *.
    apply Forall_set_nth; auto. intros u Hu. rewrite U in Hu. specialize (Up u Hu).
    destruct S as [_ [[_ L] _]]. lia.
Qed.

Lemma run_ops_UInv ops : forall w,
  WInv w -> Forall UInv (w_projs w) -> Forall UInv (w_projs (fst (run_ops w ops))).
Proof.
  induction ops as [|o ops IH]; intros w HW HU; cbn [run_ops]; auto.
  pose proof (step_UInv w o HW HU) as H1. pose proof (step_spec w o HW) as H2.
  destruct (step w o) as [w1 x]. cbn [fst] in H1. destruct H2 as [W1 _].
  specialize (IH w1 W1 H1). destruct (run_ops w1 ops) as [w2 xs]. exact IH.
Qed.

(** after ANY stream of calls (on results whose configuration keys are distinct),
    ProjectValues of a result [r] through a projection with a unit field [u] (one
    that ParseWithUnit returned) gives one Key per measurement, in order; the
    i-th Key holds the i-th unit in field [u], and in every other field what
    key_get_extracted says for Project: [want] with the parser's exclude list *)
Theorem unit_get_reachable ops w xs pi p r u :
  Forall op_wf ops -> run_ops new_world ops = (w, xs) -> nth_error (w_projs w) pi = Some p ->
  NoDup (map c_key (r_cfg r)) -> p_unit p = Some u ->
  let '(pp', p', ks) := project_values (w_pp w) p r in
  p_unit p' = Some u /\
  Forall2 (fun k un => k < length (p_keys p') /\ key_get p' k u = un /\
             forall idx f, nth_error (p_fields p') idx = Some f -> idx <> u ->
               key_get p' k idx = want (ext_of (w_pp w)) r f)
          ks (r_units r).
Proof.
  intros Hwf H Hp Hnd HU.
  pose proof (reachable_P ops w xs Hwf H) as R. rewrite Forall_forall in R.
  assert (HP : P p) by (apply R; eapply nth_error_In; eauto).
  pose proof (run_ops_UInv ops new_world WInv_new (Forall_nil _)) as UI. rewrite H in UI. cbn [fst] in UI.
  rewrite Forall_forall in UI.
  assert (Hu : u < nfields p) by (apply (UI p); [eapply nth_error_In; eauto|exact HU]).
  pose proof (project_values_get (w_pp w) p r u Hnd HP HU Hu) as G.
  destruct (project_values (w_pp w) p r) as [[pp' p'] ks]. destruct G as [P' [_ [U' [L F]]]].
  split; [exact U'|].
  assert (Hfu : exists fu, nth_error (p_fields p') u = Some fu).
  { destruct (nth_error (p_fields p') u) as [fu|] eqn:E; eauto.
    apply nth_error_None in E. unfold nfields in *. lia. }
  destruct Hfu as [fu Hfu].
  eapply Forall2_weaken; [|exact F]. cbn beta. intros k un [Hk Hg]. split; [exact Hk|]. split.
  - rewrite (Hg u fu Hfu). unfold wantu. now rewrite Nat.eqb_refl.
  - intros idx f Hf Hne. rewrite (Hg idx f Hf). unfold wantu. apply Nat.eqb_neq in Hne. now rewrite Hne.
Qed.
