(** C09: first-observation order over whole streams. For every field ordered
    "first" (top-level, .unit, or a sub-field of .config) of every reachable
    projection, the order map is exactly the sequence of first occurrences of the
    field's values in the Keys interned since the field exists; so its ranks
    compare like the positions of the first Keys carrying the values. *)
From Perf Require Import Base.Bytes Base.B64 Model.Name Model.Extract Model.Key Model.Projection
  Model.Sort Proofs.Key Proofs.Projection Proofs.Sort Proofs.Reach.

(** ** first occurrences *)
Definition firsts (l : list bytes) : list bytes :=
  fold_left (fun acc v => if mem v acc then acc else acc ++ [v]) l [].

Lemma firsts_snoc l v :
  firsts (l ++ [v]) = if mem v (firsts l) then firsts l else firsts l ++ [v].
Proof. unfold firsts. now rewrite fold_left_app. Qed.

Definition fpos (v : bytes) (l : list bytes) : option nat := find_index (beq v) l.

Lemma fpos_snoc v l x :
  fpos v (l ++ [x]) = match fpos v l with
                      | Some i => Some i
                      | None => if beq v x then Some (length l) else None
                      end.
Proof.
  unfold fpos. destruct (find_index (beq v) l) as [i|] eqn:E.
  - now apply find_index_app_some.
  - rewrite find_index_app_none by auto. cbn. destruct (beq v x); cbn; auto; try (f_equal; lia).
Qed.

Lemma fpos_lt v l i : fpos v l = Some i -> i < length l.
Proof. intros H. now destruct (find_index_some _ _ _ [] H). Qed.

Lemma firsts_mem l : forall v, mem v (firsts l) = true <-> exists i, fpos v l = Some i.
Proof.
  induction l as [|x l IH] using rev_ind; intros v.
  - cbn. split; [discriminate|intros [i H]; discriminate].
  - rewrite firsts_snoc, fpos_snoc. destruct (mem x (firsts l)) eqn:Mx.
    + rewrite IH. destruct (fpos v l) as [i|] eqn:E; [split; eauto|].
      destruct (beq_spec v x) as [->|Hne]; [|split; intros [i H]; discriminate].
      apply IH in Mx as [i Hi]. congruence.
    + unfold mem. rewrite existsb_app. cbn. rewrite orb_false_r.
      fold (mem v (firsts l)). destruct (fpos v l) as [i|] eqn:E.
      * assert (mem v (firsts l) = true) as -> by (apply IH; eauto). split; eauto.
      * assert (mem v (firsts l) = false) as ->.
        { destruct (mem v (firsts l)) eqn:M; auto. apply IH in M as [i Hi]. congruence. }
        cbn. destruct (beq v x); split; eauto; try discriminate. intros [i H]; discriminate.
Qed.

(** ranks in [firsts l] compare like first positions in [l] *)
Lemma firsts_rank l : forall a b i j,
  fpos a l = Some i -> fpos b l = Some j ->
  (obs_rank (firsts l) a < obs_rank (firsts l) b <-> i < j).
Proof.
  induction l as [|x l IH] using rev_ind; intros a b i j; [discriminate|].
  rewrite !fpos_snoc, firsts_snoc.
  assert (Hin : forall v k, fpos v l = Some k ->
            obs_rank (if mem x (firsts l) then firsts l else firsts l ++ [x]) v = obs_rank (firsts l) v
            /\ obs_rank (firsts l) v < length (firsts l)).
  { intros v k Hk. assert (mem v (firsts l) = true) as Mv by (apply firsts_mem; eauto).
    apply find_index_mem in Mv as [r Hr]. unfold obs_rank. rewrite Hr. split.
    - destruct (mem x (firsts l)); [now rewrite Hr|]. now rewrite (find_index_app_some _ _ _ _ Hr).
    - now destruct (find_index_some _ _ _ [] Hr). }
  assert (Hnew : forall v, fpos v l = None -> beq v x = true ->
            mem x (firsts l) = false /\
            obs_rank (firsts l ++ [x]) v = length (firsts l)).
  { intros v Hn Hb. apply beq_eq in Hb. subst v. split.
    - destruct (mem x (firsts l)) eqn:M; auto. apply firsts_mem in M as [k Hk]. congruence.
    - unfold obs_rank. rewrite find_index_app_none.
      + cbn. rewrite beq_refl. cbn. lia.
      + destruct (find_index (beq x) (firsts l)) eqn:E; auto.
        assert (mem x (firsts l) = true) as M by (apply find_index_mem; eauto).
        apply firsts_mem in M as [k Hk]. congruence. }
  destruct (fpos a l) as [ia|] eqn:Ea; destruct (fpos b l) as [jb|] eqn:Eb.
  - intros [= <-] [= <-]. destruct (Hin a ia Ea) as [-> _], (Hin b jb Eb) as [-> _]. now apply IH.
  - destruct (beq b x) eqn:Bx; [|discriminate]. intros [= <-] [= <-].
    destruct (Hnew b Eb Bx) as [M R]. destruct (Hin a ia Ea) as [Ra La]. rewrite M in *.
    rewrite Ra, R. pose proof (fpos_lt _ _ _ Ea). lia.
  - destruct (beq a x) eqn:Ax; [|discriminate]. intros [= <-] [= <-].
    destruct (Hnew a Ea Ax) as [M R]. destruct (Hin b jb Eb) as [Rb Lb]. rewrite M in *.
    rewrite Rb, R. pose proof (fpos_lt _ _ _ Eb). lia.
  - destruct (beq a x) eqn:Ax; [|discriminate]. destruct (beq b x) eqn:Bx; [|discriminate].
    intros [= <-] [= <-]. apply beq_eq in Ax, Bx. subst. lia.
Qed.

(** ** the invariant *)
Definition column (p : projection) (idx : nat) (c : nat) : list bytes :=
  map (fun r => vals_get r idx) (skipn c (p_keys p)).

Definition OInv (p : projection) : Prop :=
  forall idx f, nth_error (p_fields p) idx = Some f -> tracks (fi_ord f) = true ->
  exists c, c <= length (p_keys p) /\ (fi_src f <> SCfg -> c = 0) /\
            (forall j, j < c -> vals_get (nth j (p_keys p) []) idx = []) /\
            fi_obs f = firsts (column p idx c).

(** *** while a projection is being parsed: no keys, empty order maps *)
Definition fresh (p : projection) : Prop :=
  p_keys p = [] /\ Forall (fun f => fi_obs f = []) (p_fields p).

Lemma fresh_OInv p : fresh p -> OInv p.
Proof.
  intros [Hk Hf] idx f Hn _. exists 0. rewrite Hk. cbn. repeat split; auto.
  - intros j Hj. lia.
  - unfold column. rewrite Hk. cbn. rewrite Forall_forall in Hf. apply Hf. eapply nth_error_In; eauto.
Qed.

Lemma fresh_new : fresh new_projection.
Proof. split; auto. constructor. Qed.

Lemma fresh_add_top p n o src : fresh p -> fresh (fst (add_top_field p n o src)).
Proof.
  intros [Hk Hf]. split; cbn; auto. apply Forall_app. split; auto.
Qed.

Lemma fresh_same p p' : p_keys p' = p_keys p -> p_fields p' = p_fields p -> fresh p -> fresh p'.
Proof. intros H1 H2 [Hk Hf]. split; congruence. Qed.

Lemma fresh_mp_proj p s p' : mp_proj p s = Some p' -> fresh p -> fresh p'.
Proof.
  unfold mp_proj. destruct (order_of_spec s) as [o|]; [|discriminate].
  destruct (beq (ps_key s) key_config).
  { destruct (is_fixed o); [discriminate|]. cbn. intros [= <-]. apply fresh_same; reflexivity. }
  destruct (beq (ps_key s) key_fullname).
  { pose proof (fresh_add_top p key_fullname o SFull) as H.
    destruct (add_top_field p key_fullname o SFull) as [p1 idx]. cbn in H. intros [= <-] HF.
    eapply fresh_same; [| |apply H; exact HF]; reflexivity. }
  destruct (beq (ps_key s) key_unit); [discriminate|].
  destruct (is_nil (ps_key s)); [discriminate|].
  pose proof (fresh_add_top p (ps_key s) o (SKey (ps_key s))) as H.
  destruct (add_top_field p (ps_key s) o (SKey (ps_key s))) as [p1 idx]. cbn in H. intros [= <-] HF.
  eapply fresh_same; [| |apply H; exact HF]; reflexivity.
Qed.

Lemma fresh_make_all fs : forall pp p pp' p',
  make_all pp p fs = (pp', Some p') -> fresh p -> fresh p'.
Proof.
  induction fs as [|s fs IH]; intros pp p pp' p'; cbn [make_all].
  - intros [= _ <-]. auto.
  - unfold make_projection. destruct (mp_proj p s) as [p1|] eqn:E; [|discriminate].
    intros H HF. eapply IH; eauto. eapply fresh_mp_proj; eauto.
Qed.

Lemma OInv_parse pp fs pp' p : parse pp fs = (pp', Some p) -> OInv p.
Proof. intros H. apply fresh_OInv. eapply fresh_make_all; [exact H|apply fresh_new]. Qed.

Lemma OInv_parse_with_unit pp fs pp' p : parse_with_unit pp fs = (pp', Some p) -> OInv p.
Proof.
  unfold parse_with_unit. destruct (parse pp fs) as [pp1 [p1|]] eqn:E; [|discriminate].
  assert (fresh p1) as F1 by (eapply fresh_make_all; [exact E|apply fresh_new]).
  pose proof (fresh_add_top p1 key_unit OFirst SUnit F1) as H.
  destruct (add_top_field p1 key_unit OFirst SUnit) as [p2 u]. cbn in H. intros [= _ <-].
  apply fresh_OInv. eapply fresh_same; [| |exact H]; reflexivity.
Qed.

Lemma fresh_residue_add st k : fresh (snd st) -> fresh (snd (residue_add st k)).
Proof.
  intros H. unfold residue_add, make_projection.
  destruct (mp_proj (snd st) (spec_first k)) as [s1|] eqn:E; cbn; auto.
  eapply fresh_mp_proj; eauto.
Qed.

Lemma OInv_residue pp : OInv (snd (residue pp)).
Proof.
  apply fresh_OInv. unfold residue.
  set (st1 := if pp_havecfg pp then (pp, new_projection)
              else residue_add (pp, new_projection) key_config).
  assert (fresh (snd st1)) as H1.
  { unfold st1. destruct (pp_havecfg pp); [apply fresh_new|]. apply fresh_residue_add, fresh_new. }
  destruct (pp_havefull (fst st1)); auto. now apply fresh_residue_add.
Qed.

(** *** populateRow: keys untouched, fields only appended (sub-fields of .config,
    with empty order maps) *)
Definition ostep (p p' : projection) : Prop :=
  p_keys p' = p_keys p /\
  exists ext, p_fields p' = p_fields p ++ ext /\
              Forall (fun f => fi_obs f = [] /\ fi_src f = SCfg) ext.

Lemma ostep_refl p : ostep p p.
Proof. split; auto. exists []. split; [now rewrite app_nil_r|constructor]. Qed.

Lemma ostep_trans a b c : ostep a b -> ostep b c -> ostep a c.
Proof.
  intros [K1 [e1 [F1 A1]]] [K2 [e2 [F2 A2]]]. split; [congruence|].
  exists (e1 ++ e2). split; [now rewrite F2, F1, app_assoc|apply Forall_app; auto].
Qed.

Lemma ostep_same p p' : p_keys p' = p_keys p -> p_fields p' = p_fields p -> ostep p p'.
Proof. intros H1 H2. split; auto. exists []. split; [now rewrite app_nil_r|constructor]. Qed.

Lemma ostep_config_step ck g o p c : ostep p (config_step ck g o p c).
Proof.
  unfold config_step. destruct (negb (c_file c)); [apply ostep_refl|].
  destruct (find_sub p g (c_key c)); [apply ostep_same; reflexivity|].
  destruct (mem (c_key c) ck); [apply ostep_refl|].
  cbn. split; auto. exists [mkF (c_key c) o [] SCfg]. split; auto.
Qed.

Lemma ostep_fold_config ck g o cs : forall p, ostep p (fold_left (config_step ck g o) cs p).
Proof.
  induction cs as [|c cs IH]; intros p; cbn; [apply ostep_refl|].
  eapply ostep_trans; [apply ostep_config_step|apply IH].
Qed.

Lemma ostep_run_item r pp p it : ostep p (snd (run_item r (pp, p) it)).
Proof.
  destruct it as [g o|idx|k idx]; cbn.
  - apply ostep_fold_config.
  - destruct (full_extract pp (r_name r)); cbn. apply ostep_same; reflexivity.
  - apply ostep_same; reflexivity.
Qed.

Lemma ostep_fold_items r items : forall pp p, ostep p (snd (fold_left (run_item r) items (pp, p))).
Proof.
  induction items as [|it items IH]; intros pp p; cbn [fold_left]; [apply ostep_refl|].
  pose proof (ostep_run_item r pp p it) as H.
  destruct (run_item r (pp, p) it) as [pp1 p1]. cbn in H.
  eapply ostep_trans; [exact H|apply IH].
Qed.

Lemma ostep_populate pp p r : ostep p (snd (populate pp p r)).
Proof.
  unfold populate. eapply ostep_trans; [apply (ostep_same p (clear_row p)); reflexivity|].
  apply ostep_fold_items.
Qed.

Lemma ostep_OInv p p' : KInv p -> ostep p p' -> OInv p -> OInv p'.
Proof.
  intros [_ [I2 _]] [Hk [ext [Hf Hext]]] HO idx f Hn Ht. unfold column. rewrite Hk.
  destruct (Nat.lt_ge_cases idx (length (p_fields p))) as [Hl|Hl].
  - rewrite Hf, nth_error_app1 in Hn by auto. destruct (HO idx f Hn Ht) as [c Hc]. exists c. exact Hc.
  - rewrite Hf, nth_error_app2 in Hn by auto.
    assert (In f ext) as Hin by (eapply nth_error_In; eauto).
    rewrite Forall_forall in Hext. destruct (Hext f Hin) as [Ho Hs].
    exists (length (p_keys p)). repeat split; auto.
    + intros Hne. congruence.
    + intros j Hj. rewrite Forall_forall in I2.
      destruct (I2 (nth j (p_keys p) [])) as [_ Hlen]; [apply nth_In; auto|].
      unfold vals_get. apply nth_overflow. unfold nfields in Hlen. lia.
    + rewrite skipn_all. cbn. exact Ho.
Qed.

(** *** internRow *)
Lemma observe_obs v f :
  tracks (fi_ord f) = true ->
  fi_obs (observe v f) = if mem v (fi_obs f) then fi_obs f else fi_obs f ++ [v].
Proof. intros T. unfold observe. rewrite T. cbn. destruct (mem v (fi_obs f)); reflexivity. Qed.

Lemma observe_static v f : fi_ord (observe v f) = fi_ord f /\ fi_src (observe v f) = fi_src f.
Proof. unfold observe. destruct (_ && _); auto. Qed.

Lemma OInv_intern_row p : KInv p -> covers p -> OInv p -> OInv (fst (intern_row p)).
Proof.
  intros HK HC HO. pose proof (intern_observes p HC) as H. cbn in H.
  unfold intern_row in *.
  destruct (find_index (equal_row (trim (p_row p))) (p_keys p)) as [k|] eqn:E; cbn; auto.
  destruct H as [_ H]. specialize (H eq_refl). cbn in H.
  set (rw := trim (p_row p)) in *.
  intros idx f' Hn Ht. cbn [p_fields p_keys] in *.
  (* the field existed before: fields are only rewritten in place *)
  assert (exists f, nth_error (p_fields p) idx = Some f) as [f Hf].
  { destruct (nth_error (p_fields p) idx) as [f|] eqn:Ef; eauto.
    apply nth_error_None in Ef. assert (nth_error (update_obs (p_fields p) (flat p) rw) idx <> None) by congruence.
    apply nth_error_Some in H0. rewrite update_obs_length in H0. lia. }
  rewrite (H idx f Hf) in Hn. injection Hn as <-.
  destruct (observe_static (vals_get rw idx) f) as [So Ss]. rewrite So in Ht.
  destruct (HO idx f Hf Ht) as [c [Hc [Hsrc [Hemp Hobs]]]].
  exists c. rewrite app_length. cbn. repeat split.
  - lia.
  - now rewrite Ss.
  - intros j Hj. rewrite app_nth1 by lia. auto.
  - unfold column. cbn [p_keys]. rewrite skipn_app.
    replace (c - length (p_keys p)) with 0 by lia. cbn [skipn].
    rewrite map_app. cbn [map]. rewrite firsts_snoc. fold (column p idx c).
    rewrite <- Hobs. now apply observe_obs.
Qed.

Lemma OInv_same p p' : p_keys p' = p_keys p -> p_fields p' = p_fields p -> OInv p -> OInv p'.
Proof.
  intros Hk Hf HO idx f Hn Ht. rewrite Hf in Hn. unfold column. rewrite Hk. exact (HO idx f Hn Ht).
Qed.

Definition P3 (p : projection) : Prop := KInv p /\ FInv p /\ OInv p.

Lemma P3_intern_row p : P3 p -> P3 (fst (intern_row p)).
Proof.
  intros [K [F O]]. pose proof (intern_row_spec p K) as H. pose proof (FInv_intern_row p K F) as H2.
  pose proof (OInv_intern_row p K (proj1 F) O) as H3.
  destruct (intern_row p) as [p' k]. destruct H as [K' _]. cbn in *.
  split; [exact K'|split; [exact H2|exact H3]].
Qed.

Lemma P3_set_row p i v : P3 p -> P3 (set_row p i v).
Proof.
  intros [K [F O]]. split; [now apply KInv_set_row|]. split; [now apply FInv_set_row|].
  eapply OInv_same; [| |exact O]; reflexivity.
Qed.

Lemma P3_intern_units u units : forall p, P3 p -> P3 (fst (intern_units p u units)).
Proof.
  induction units as [|un units IH]; intros p HP; cbn; auto.
  pose proof (P3_intern_row (set_row p u un) (P3_set_row _ _ _ HP)) as H1.
  destruct (intern_row (set_row p u un)) as [p1 k]. cbn in H1.
  specialize (IH p1 H1). destruct (intern_units p1 u units) as [p2 ks]. exact IH.
Qed.

Lemma P3_populate pp p r : P3 p -> P3 (snd (populate pp p r)).
Proof.
  intros [K [F O]]. split; [|split].
  - eapply kstep_KInv; [apply kstep_populate|auto].
  - now apply FInv_populate.
  - eapply ostep_OInv; [exact K|apply ostep_populate|exact O].
Qed.

Lemma P3_project pp p r : P3 p -> let '(_, p', _) := project pp p r in P3 p'.
Proof.
  intros HP. unfold project. pose proof (P3_populate pp p r HP) as H1.
  destruct (populate pp p r) as [pp1 p1]. cbn in H1.
  pose proof (P3_intern_row p1 H1) as H2. destruct (intern_row p1). exact H2.
Qed.

Lemma P3_project_values pp p r : P3 p -> let '(_, p', _) := project_values pp p r in P3 p'.
Proof.
  intros HP. unfold project_values. pose proof (P3_populate pp p r HP) as H1.
  destruct (populate pp p r) as [pp1 p1]. cbn in H1.
  destruct (p_unit p1) as [u|].
  - pose proof (P3_intern_units u (r_units r) p1 H1) as H2.
    destruct (intern_units p1 u (r_units r)). exact H2.
  - pose proof (P3_intern_row p1 H1) as H2. destruct (intern_row p1). exact H2.
Qed.

Definition W3 (w : world) : Prop := Forall P3 (w_projs w).

Lemma step_W3 w o : W3 w -> W3 (fst (step w o)).
Proof.
  intros HW. destruct w as [pp projs]. unfold W3 in *; cbn in HW.
  destruct o as [wu fs| |pi r|pi r]; cbn.
  - destruct wu.
    + destruct (parse_with_unit pp fs) as [pp' [p|]] eqn:E; cbn; auto.
      apply Forall_app. split; auto. constructor; auto. split; [|split].
      * eapply KInv_parse_with_unit; eauto.
      * eapply FInv_parse_with_unit; eauto.
      * eapply OInv_parse_with_unit; eauto.
    + destruct (parse pp fs) as [pp' [p|]] eqn:E; cbn; auto.
      apply Forall_app. split; auto. constructor; auto. split; [|split].
      * eapply KInv_parse; eauto.
      * eapply FInv_parse; eauto.
      * eapply OInv_parse; eauto.
  - pose proof (KInv_residue pp) as H1. pose proof (FInv_residue pp) as H2.
    pose proof (OInv_residue pp) as H3.
    destruct (residue pp) as [pp' p]. cbn in *. apply Forall_app. split; auto.
    constructor; auto. split; auto.
  - destruct (nth_error projs pi) as [p|] eqn:E; cbn; auto.
    assert (P3 p) as HP by (rewrite Forall_forall in HW; apply HW; eapply nth_error_In; eauto).
    pose proof (P3_project pp p r HP) as H.
    destruct (project pp p r) as [[pp' p'] k]. cbn. apply Forall_set_nth; auto.
  - destruct (nth_error projs pi) as [p|] eqn:E; cbn; auto.
    assert (P3 p) as HP by (rewrite Forall_forall in HW; apply HW; eapply nth_error_In; eauto).
    pose proof (P3_project_values pp p r HP) as H.
    destruct (project_values pp p r) as [[pp' p'] ks]. cbn. apply Forall_set_nth; auto.
Qed.

Lemma run_ops_W3 ops : forall w, W3 w -> W3 (fst (run_ops w ops)).
Proof.
  induction ops as [|o ops IH]; intros w HW; cbn; auto.
  pose proof (step_W3 w o HW) as H1. destruct (step w o) as [w1 x]. cbn in H1.
  specialize (IH w1 H1). destruct (run_ops w1 ops) as [w2 xs]. exact IH.
Qed.

(** ** the theorem *)

(** position of the first Key (in interning order, over ALL Keys of the
    projection) whose value in field [idx] is [v] *)
Definition first_key (p : projection) (idx : nat) (v : bytes) : option nat :=
  fpos v (map (fun r => vals_get r idx) (p_keys p)).

Lemma fpos_skip v l c i :
  (forall j, j < c -> nth j l [] = []) -> v <> [] -> c <= length l ->
  fpos v l = Some i -> c <= i /\ fpos v (skipn c l) = Some (i - c).
Proof.
  revert l i; induction c as [|c IH]; intros l i He Hv Hc Hp.
  - cbn. split; [lia|]. now rewrite Nat.sub_0_r.
  - destruct l as [|x l]; [cbn in Hc; lia|].
    assert (x = []) as -> by (apply (He 0); lia).
    unfold fpos in Hp. cbn in Hp. destruct (beq_spec v []) as [->|_]; [contradiction|].
    destruct (find_index (beq v) l) as [k|] eqn:E; [|discriminate]. injection Hp as <-.
    destruct (IH l k) as [H1 H2]; auto.
    + intros j Hj. apply (He (S j)). lia.
    + cbn in Hc. lia.
    + split; [lia|]. cbn. exact H2.
Qed.

Lemma nth_map_get (l : list row) j idx :
  j < length l -> nth j (map (fun r => vals_get r idx) l) [] = vals_get (nth j l []) idx.
Proof.
  revert j; induction l as [|x l IH]; intros [|j] H; cbn in *; try lia; auto. apply IH. lia.
Qed.

Theorem first_is_first_observation ops w xs p idx f :
  run_ops new_world ops = (w, xs) -> In p (w_projs w) ->
  nth_error (p_fields p) idx = Some f -> fi_ord f = OFirst ->
  forall a b ia ib,
    first_key p idx a = Some ia -> first_key p idx b = Some ib ->
    (* for a field that was created late (a sub-field of .config) the missing
       value "" of older Keys is not an observation *)
    (fi_src f = SCfg -> a <> [] /\ b <> []) ->
    (Z.lt (cmp_first (fi_obs f) a b) 0 <-> ia < ib).
Proof.
  intros H Hp Hn Ho a b ia ib Ha Hb Hne.
  pose proof (run_ops_W3 ops new_world (Forall_nil _)) as R. rewrite H in R.
  unfold W3 in R. cbn in R. rewrite Forall_forall in R. destruct (R p Hp) as [K [F O]].
  assert (tracks (fi_ord f) = true) as Ht by now rewrite Ho.
  destruct (O idx f Hn Ht) as [c [Hc [Hsrc [Hemp Hobs]]]].
  unfold cmp_first. rewrite Hobs. unfold first_key in *.
  set (col := map (fun r => vals_get r idx) (p_keys p)) in *.
  assert (Hcol : column p idx c = skipn c col).
  { unfold column, col. clear. revert c. induction (p_keys p) as [|x l IH]; intros [|c]; cbn; auto. }
  rewrite Hcol.
  assert (Hskip : forall v i, fpos v col = Some i -> (fi_src f = SCfg -> v <> []) ->
                    c <= i /\ fpos v (skipn c col) = Some (i - c)).
  { intros v i Hv Hnv. destruct c as [|c'].
    - cbn. split; [lia|]. now rewrite Nat.sub_0_r.
    - assert (fi_src f = SCfg) as Hs.
      { destruct (fi_src f) eqn:Es; auto; exfalso; assert (S c' = 0) by (apply Hsrc; congruence); lia. }
      apply fpos_skip; auto.
      + intros j Hj. unfold col. destruct (Nat.lt_ge_cases j (length (p_keys p))) as [Hl|Hl].
        * rewrite nth_map_get by auto. apply Hemp. auto.
        * rewrite nth_overflow; auto. rewrite map_length. auto.
      + unfold col. rewrite map_length. auto. }
  destruct (Hskip a ia Ha) as [La Pa]; [intros Hs; apply Hne; auto|].
  destruct (Hskip b ib Hb) as [Lb Pb]; [intros Hs; apply Hne; auto|].
  pose proof (firsts_rank (skipn c col) a b _ _ Pa Pb) as HR. lia.
Qed.
