(** Proofs about Model/Series.v, continued:
    (1) the final pass leaves both samples of every cell that has a denominator
        sorted (so the samples of a DUPE_COMBINE cell measured by interleaving
        experiments are the sorted multiset, not a concatenation);
    (2) the bootstrap seed of every cell - a function of the sample values IN
        ORDER - is the same for every add order and map enumeration;
    (3) the series do not depend on HOW a series stamp is spelled: result sets
        that differ only in the spelling of series stamps (same normalised
        string) give the same series, and the declarative specification is met
        under the weaker well-formedness [WFset_norm] (a numerator hash has one
        series INSTANT). *)
From Coq Require Import Permutation.
From Perf Require Import Base.Bytes Base.Usort Model.Dates Model.Bootstrap Model.Series Model.SeriesSpec
     Proofs.Series Proofs.SeriesPerm Proofs.SeriesSpec.
Local Open Scope Z_scope.

(** * (1) sorted samples *)
Lemma out_cell_sorted st b s c : In c (out_cell st b s) -> oc_den c <> [] ->
  vsort (oc_num c) = oc_num c /\ vsort (oc_den c) = oc_den c.
Proof.
  unfold out_cell. destruct (s_cells st [b; s]) as [cc|]; [|intros []].
  destruct (c_den cc) eqn:E.
  - intros [<-|[]] H. cbn [oc_den] in H. now elim H.
  - intros [<-|[]] _. cbn [oc_num oc_den]. now rewrite !vsort_idem.
Qed.

Theorem table_samples_sorted combine b e ut ser c :
  table_series combine b e ut = Some ser -> In c (se_cells ser) -> oc_den c <> [] ->
  vsort (oc_num c) = oc_num c /\ vsort (oc_den c) = oc_den c.
Proof.
  destruct ut as [u t]. unfold table_series. destruct (table_contribs b e u t); [|discriminate].
  intros [= <-]. unfold finish. cbn [se_cells]. intros Hin.
  apply in_flat_map in Hin as (bn & _ & Hin). apply in_flat_map in Hin as (s & _ & Hin).
  eapply out_cell_sorted; eauto.
Qed.

Theorem final_samples_sorted combine b e l ser c :
  all_comparison_series combine b e = Some l -> In ser l -> In c (se_cells ser) -> oc_den c <> [] ->
  vsort (oc_num c) = oc_num c /\ vsort (oc_den c) = oc_den c.
Proof.
  unfold all_comparison_series. intros H Hs Hc Hd.
  destruct (omapM_in _ _ _ _ H Hs) as (ut & _ & Ht). eapply table_samples_sorted; eauto.
Qed.

(** * (2) the bootstrap seed of a cell *)
Definition cell_seed (c : ocell) : Z := bootstrap_seed (vsort (oc_num c)) (vsort (oc_den c)).
Definition seeds (l : list series) : list (list Z) := map (fun s => map cell_seed (se_cells s)) l.

(** for a cell with a denominator this is the seed of the samples as returned *)
Lemma cell_seed_raw combine b e l ser c :
  all_comparison_series combine b e = Some l -> In ser l -> In c (se_cells ser) -> oc_den c <> [] ->
  cell_seed c = bootstrap_seed (oc_num c) (oc_den c).
Proof.
  intros H Hs Hc Hd. destruct (final_samples_sorted _ _ _ _ _ _ H Hs Hc Hd) as [E1 E2].
  unfold cell_seed. now rewrite E1, E2.
Qed.

Lemma seeds_canon l : seeds (map canon_series l) = seeds l.
Proof.
  unfold seeds. rewrite map_map. apply map_ext. intros s. unfold canon_series. cbn [se_cells].
  rewrite map_map. apply map_ext. intros c. unfold cell_seed, canon_cell. cbn [oc_num oc_den].
  now rewrite !vsort_idem.
Qed.

Theorem seeds_perm_invariant combine rs rs' en en' l l' :
  WFset rs -> Permutation rs rs' ->
  valid_enum (adds rs) en -> valid_enum (adds rs') en' ->
  all_comparison_series combine (adds rs) en = Some l ->
  all_comparison_series combine (adds rs') en' = Some l' ->
  seeds l = seeds l'.
Proof.
  intros Hwf HP Hv Hv' H H'.
  pose proof (series_perm_invariant combine rs rs' en en' Hwf HP Hv Hv') as E.
  rewrite H, H' in E. cbn [canon option_map] in E. injection E as E.
  now rewrite <- (seeds_canon l), <- (seeds_canon l'), E.
Qed.

(** * (3) spellings of series stamps *)

(** the same result up to the spelling of the series stamp *)
Definition sp_eqv (r r' : res) : Prop :=
  r_unit r = r_unit r' /\ r_table r = r_table r' /\ r_bench r = r_bench r' /\ r_exp r = r_exp r' /\
  r_role r = r_role r' /\ r_nh r = r_nh r' /\ r_dh r = r_dh r' /\ r_val r = r_val r' /\
  nser r = nser r'.

Lemma sp_eqv_refl r : sp_eqv r r.
Proof. repeat split. Qed.

Lemma sp_tkey r r' : sp_eqv r r' -> tkey r = tkey r'.
Proof. intros (E1 & E2 & E3 & E4 & _). unfold tkey. now rewrite E1, E2, E3, E4. Qed.
Lemma sp_nkey r r' : sp_eqv r r' -> nkey r = nkey r'.
Proof. intros (E1 & E2 & E3 & E4 & _ & E6 & _). unfold nkey. now rewrite E1, E2, E3, E4, E6. Qed.
Lemma sp_is_num r r' : sp_eqv r r' -> is_num r = is_num r'.
Proof. intros (_ & _ & _ & _ & E & _). unfold is_num. now rewrite E. Qed.
Lemma sp_is_den r r' : sp_eqv r r' -> is_den r = is_den r'.
Proof. intros (_ & _ & _ & _ & E & _). unfold is_den. now rewrite E. Qed.
Lemma sp_ndate r r' : sp_eqv r r' -> ndate r = ndate r'.
Proof. intros (_ & _ & _ & E & _). unfold ndate. now rewrite E. Qed.
Lemma sp_nser r r' : sp_eqv r r' -> nser r = nser r'.
Proof. intros H. apply H. Qed.

(** ** generic: functions that respect a relation *)
Section F2.
  Context {A : Type} (R : A -> A -> Prop).

  Lemma F2_filter (p : A -> bool) l l' :
    (forall x y, R x y -> p x = p y) -> Forall2 R l l' -> Forall2 R (filter p l) (filter p l').
  Proof.
    intros Hp. induction 1 as [|x y l l' Hxy HF IH]; cbn [filter]; [constructor|].
    rewrite (Hp x y Hxy). destruct (p y); auto.
  Qed.

  Lemma F2_map {B} (f : A -> B) l l' :
    (forall x y, R x y -> f x = f y) -> Forall2 R l l' -> map f l = map f l'.
  Proof.
    intros Hf. induction 1 as [|x y l l' Hxy HF IH]; cbn [map]; auto. now rewrite (Hf x y Hxy), IH.
  Qed.

  Lemma F2_flat_map {B} (f : A -> list B) l l' :
    (forall x y, R x y -> f x = f y) -> Forall2 R l l' -> flat_map f l = flat_map f l'.
  Proof.
    intros Hf. induction 1 as [|x y l l' Hxy HF IH]; cbn [flat_map]; auto. now rewrite (Hf x y Hxy), IH.
  Qed.

  Lemma F2_existsb (p : A -> bool) l l' :
    (forall x y, R x y -> p x = p y) -> Forall2 R l l' -> existsb p l = existsb p l'.
  Proof.
    intros Hp. induction 1 as [|x y l l' Hxy HF IH]; cbn [existsb]; auto. now rewrite (Hp x y Hxy), IH.
  Qed.

  Lemma F2_map_in (f : A -> A) l : (forall x, In x l -> R x (f x)) -> Forall2 R l (map f l).
  Proof.
    induction l as [|x l IH]; intros H; cbn [map]; constructor.
    - apply H. now left.
    - apply IH. intros y Hy. apply H. now right.
  Qed.

  Lemma F2_in_l l l' x : Forall2 R l l' -> In x l -> exists y, In y l' /\ R x y.
  Proof.
    induction 1 as [|a b l l' Hab HF IH]; intros Hin; [destruct Hin|].
    destruct Hin as [<-|Hin]; [exists b; split; auto; now left|].
    destruct (IH Hin) as (y & Hy & Hr). exists y. split; auto. now right.
  Qed.

  Lemma F2_in_r l l' y : Forall2 R l l' -> In y l' -> exists x, In x l /\ R x y.
  Proof.
    induction 1 as [|a b l l' Hab HF IH]; intros Hin; [destruct Hin|].
    destruct Hin as [<-|Hin]; [exists a; split; auto; now left|].
    destruct (IH Hin) as (x & Hx & Hr). exists x. split; auto. now right.
  Qed.
End F2.

(** ** the Builder does not see the spelling, except in hashToOrder, where the
    entries denote the same instants *)
Definition onorm (o : option bytes) : option (option bytes) := option_map normalize_date o.

Record bsim (b b' : builder) : Prop := {
  bs_trial : forall k, b_trial b k = b_trial b' k;
  bs_den : forall k, b_den b k = b_den b' k;
  bs_bh : forall k, b_bh b k = b_bh b' k;
  bs_num : forall k, b_num b k = b_num b' k;
  bs_h2o : forall k, onorm (b_h2o b k) = onorm (b_h2o b' k) }.

Lemma upd_sim {V} (f f' : key -> V) k v : (forall x, f x = f' x) -> forall x, upd f k v x = upd f' k v x.
Proof. intros H x. unfold upd. destruct (keqb k x); auto. Qed.

Lemma add_sim b b' r r' : bsim b b' -> sp_eqv r r' -> bsim (add b r) (add b' r').
Proof.
  intros [Ht Hd Hb Hn Hh] Hr.
  pose proof (sp_tkey _ _ Hr) as Etk. pose proof (sp_nkey _ _ Hr) as Enk.
  destruct Hr as (_ & _ & _ & _ & Ero & Enh & Edh & Ev & Ens).
  unfold add. rewrite <- Etk, <- Enk, <- Ero, <- Enh, <- Edh, <- Ev.
  destruct (r_role r).
  - (* numerator *)
    split; cbn [b_trial b_den b_bh b_num b_h2o]; auto using upd_sim.
    + intros k. rewrite <- (Hn (nkey r)). now apply upd_sim.
    + intros k. rewrite <- (Hn (nkey r)). destruct (b_num b (nkey r)); auto.
      unfold upd. destruct (keqb [r_nh r] k); auto. unfold onorm. cbn [option_map]. f_equal. exact Ens.
  - (* denominator *)
    split; cbn [b_trial b_den b_bh b_num b_h2o]; auto using upd_sim.
    + intros k. rewrite <- (Hd (tkey r)). now apply upd_sim.
    + intros k. rewrite <- (Hd (tkey r)). destruct (b_den b (tkey r)); auto. now apply upd_sim.
  - split; cbn [b_trial b_den b_bh b_num b_h2o]; auto using upd_sim.
Qed.

Lemma adds_sim rs rs' : Forall2 sp_eqv rs rs' -> forall b b', bsim b b' ->
  bsim (fold_left add rs b) (fold_left add rs' b').
Proof.
  induction 1 as [|r r' rs rs' Hr HF IH]; intros b b' Hb; cbn [fold_left]; auto.
  apply IH. now apply add_sim.
Qed.

Lemma bsim_empty : bsim b_empty b_empty.
Proof. split; reflexivity. Qed.

(** ** AllComparisonSeries sees the Builder up to [bsim] *)
Lemma test_contrib_sim b b' u t bench exp date h : bsim b b' ->
  test_contrib b u t bench exp date h = test_contrib b' u t bench exp date h.
Proof.
  intros [Ht Hd Hb Hn Hh]. unfold test_contrib. specialize (Hh [h]). unfold onorm in Hh.
  rewrite (Hn [u; t; bench; exp; h]), (Hd [u; t; bench; exp]), (Hb [u; t; bench; exp]).
  destruct (b_h2o b [h]) as [s|], (b_h2o b' [h]) as [s'|]; cbn [option_map] in Hh; try discriminate; auto.
  injection Hh as Hh. now rewrite Hh.
Qed.

Theorem acs_sim combine b b' e : bsim b b' ->
  all_comparison_series combine b e = all_comparison_series combine b' e.
Proof.
  intros Hs. unfold all_comparison_series. apply omapM_ext. intros [u t]. unfold table_series.
  assert (E : table_contribs b e u t = table_contribs b' e u t).
  { unfold table_contribs. f_equal. apply omapM_ext. intros be. unfold trial_contribs.
    destruct (normalize_date (snd be)); auto. apply omapM_ext. intros h. now apply test_contrib_sim. }
  now rewrite E.
Qed.

Lemma valid_enum_sim b b' e : bsim b b' -> valid_enum b e -> valid_enum b' e.
Proof.
  intros [Ht Hd Hb Hn Hh] [V1 V2 V3 V4 V5 V6]. split; auto.
  - intros u t. rewrite V2. split; intros (bench & exp & H); exists bench, exp; now rewrite Ht in * || rewrite <- Ht in *.
  - intros u t bench exp. rewrite V4. now rewrite Ht.
  - intros u t bench exp h. rewrite V6. now rewrite Hn.
Qed.

(** the series of two result sets that differ only in the spelling of series
    stamps are the same, for every enumeration of the maps *)
Theorem series_spelling_invariant combine rs rs' e : Forall2 sp_eqv rs rs' ->
  all_comparison_series combine (adds rs) e = all_comparison_series combine (adds rs') e.
Proof. intros HF. apply acs_sim. apply adds_sim; auto. apply bsim_empty. Qed.

(** ** the specification does not see the spelling *)
Lemma bh_of_sp rs rs' k : Forall2 sp_eqv rs rs' -> bh_of rs k = bh_of rs' k.
Proof.
  intros HF. unfold bh_of.
  assert (H : Forall2 sp_eqv (filter (fun r => is_den r && keqb (tkey r) k) rs)
                             (filter (fun r => is_den r && keqb (tkey r) k) rs')).
  { apply F2_filter; auto. intros x y Hxy. now rewrite (sp_is_den _ _ Hxy), (sp_tkey _ _ Hxy). }
  destruct H as [|x y l l' Hxy _]; auto. apply Hxy.
Qed.

Lemma spec_cell_sp combine R R' b s : Forall2 sp_eqv R R' -> spec_cell combine R b s = spec_cell combine R' b s.
Proof.
  intros HF. unfold spec_cell.
  set (pN := fun r => is_num r && beq (r_bench r) b && osome_eqb (nser r) s).
  assert (HpN : forall x y, sp_eqv x y -> pN x = pN y).
  { intros x y Hxy. unfold pN. rewrite (sp_is_num _ _ Hxy), (sp_nser _ _ Hxy).
    destruct Hxy as (_ & _ & E & _). now rewrite E. }
  pose proof (F2_filter sp_eqv pN R R' HpN HF) as HN.
  assert (Hdens : forall e, map r_val (filter (fun r => is_den r && beq (r_bench r) b && beq (r_exp r) e) R) =
                            map r_val (filter (fun r => is_den r && beq (r_bench r) b && beq (r_exp r) e) R')).
  { intros e. apply (F2_map sp_eqv); [intros x y Hxy; apply Hxy|]. apply F2_filter; auto.
    intros x y Hxy. rewrite (sp_is_den _ _ Hxy). destruct Hxy as (_ & _ & E3 & E4 & _). now rewrite E3, E4. }
  assert (Hdate : omap_filter ndate (filter pN R) = omap_filter ndate (filter pN R')).
  { unfold omap_filter. apply (F2_flat_map sp_eqv); auto. intros x y Hxy. now rewrite (sp_ndate _ _ Hxy). }
  assert (Hexp : map r_exp (filter pN R) = map r_exp (filter pN R')).
  { apply (F2_map sp_eqv); auto. intros x y Hxy. apply Hxy. }
  assert (Hval : map r_val (filter pN R) = map r_val (filter pN R')).
  { apply (F2_map sp_eqv); auto. intros x y Hxy. apply Hxy. }
  remember (filter pN R) as N eqn:EN. remember (filter pN R') as N' eqn:EN'. clear EN EN'.
  destruct HN as [|x y l l' Hxy HF']; auto.
  cbv zeta. rewrite Hdate.
  set (dmax := bmax (omap_filter ndate (y :: l'))).
  destruct combine.
  - rewrite Hval, Hexp. rewrite (flat_map_ext _ _ Hdens). reflexivity.
  - assert (HW : Forall2 sp_eqv (filter (fun r => osome_eqb (ndate r) dmax) (x :: l))
                                (filter (fun r => osome_eqb (ndate r) dmax) (y :: l'))).
    { apply F2_filter; [|now constructor]. intros a c Hac. now rewrite (sp_ndate _ _ Hac). }
    assert (HWv : map r_val (filter (fun r => osome_eqb (ndate r) dmax) (x :: l)) =
                  map r_val (filter (fun r => osome_eqb (ndate r) dmax) (y :: l'))).
    { apply (F2_map sp_eqv); auto. intros a c Hac. apply Hac. }
    remember (filter (fun r => osome_eqb (ndate r) dmax) (x :: l)) as W eqn:EW.
    remember (filter (fun r => osome_eqb (ndate r) dmax) (y :: l')) as W' eqn:EW'. clear EW EW'.
    destruct HW as [|w w' lw lw' Hw _]; auto.
    rewrite HWv. destruct Hw as (_ & _ & _ & E4 & _). now rewrite E4, Hdens.
Qed.

Lemma spec_hp_sp R R' s : Forall2 sp_eqv R R' -> spec_hp R s = spec_hp R' s.
Proof.
  intros HF. unfold spec_hp.
  assert (H : Forall2 sp_eqv (filter (fun r => is_num r && osome_eqb (nser r) s) R)
                             (filter (fun r => is_num r && osome_eqb (nser r) s) R')).
  { apply F2_filter; auto. intros x y Hxy. now rewrite (sp_is_num _ _ Hxy), (sp_nser _ _ Hxy). }
  destruct H as [|x y l l' Hxy _]; auto.
  rewrite (sp_tkey _ _ Hxy), (bh_of_sp R R' _ HF). destruct Hxy as (_ & _ & _ & _ & _ & E & _). now rewrite E.
Qed.

Lemma spec_table_sp combine rs rs' ut : Forall2 sp_eqv rs rs' -> spec_table combine rs ut = spec_table combine rs' ut.
Proof.
  intros HF. unfold spec_table.
  set (pT := fun r => beq (r_unit r) (fst ut) && beq (r_table r) (snd ut)).
  assert (HR : Forall2 sp_eqv (filter pT rs) (filter pT rs')).
  { apply F2_filter; auto. intros x y (E1 & E2 & _). unfold pT. now rewrite E1, E2. }
  assert (Hb : map r_bench (filter pT rs) = map r_bench (filter pT rs')).
  { apply (F2_map sp_eqv); auto. intros x y Hxy. apply Hxy. }
  assert (Hs : omap_filter nser (filter is_num (filter pT rs)) = omap_filter nser (filter is_num (filter pT rs'))).
  { unfold omap_filter. apply (F2_flat_map sp_eqv).
    - intros x y Hxy. now rewrite (sp_nser _ _ Hxy).
    - apply F2_filter; auto. intros x y Hxy. apply sp_is_num; auto. }
  rewrite Hb, Hs. f_equal.
  - apply flat_map_ext. intros s. now apply spec_hp_sp.
  - apply flat_map_ext. intros b. apply flat_map_ext. intros s. now apply spec_cell_sp.
Qed.

Theorem spec_series_sp combine rs rs' : Forall2 sp_eqv rs rs' -> spec_series combine rs = spec_series combine rs'.
Proof.
  intros HF. unfold spec_series.
  assert (He : spec_err rs = spec_err rs').
  { unfold spec_err. f_equal; apply (F2_existsb sp_eqv); auto; intros x y Hxy.
    - now rewrite (sp_ndate _ _ Hxy).
    - now rewrite (sp_is_num _ _ Hxy), (sp_nser _ _ Hxy). }
  rewrite He. destruct (spec_err rs'); auto.
  assert (Hk : map (fun r => (r_unit r, r_table r)) rs = map (fun r => (r_unit r, r_table r)) rs').
  { apply (F2_map sp_eqv); auto. intros x y (E1 & E2 & _). now rewrite E1, E2. }
  rewrite Hk. f_equal. apply map_ext. intros ut. now apply spec_table_sp.
Qed.

(** ** respelling: every numerator takes the stamp text of the first numerator
    (in list order) of its hash *)
Definition set_ser (r : res) (s : bytes) : res :=
  mkRes (r_unit r) (r_table r) (r_bench r) (r_exp r) s (r_role r) (r_nh r) (r_dh r) (r_val r).

Definition first_ser (rs : list res) (h : bytes) : bytes :=
  match find (numh h) rs with Some r => r_ser r | None => [] end.

Definition respell1 (rs : list res) (r : res) : res :=
  if is_num r then set_ser r (first_ser rs (r_nh r)) else r.

Definition respell (rs : list res) : list res := map (respell1 rs) rs.

(** well-formedness with "one series INSTANT per numerator hash" *)
Record WFset_norm (rs : list res) : Prop := {
  wfn_hash_instant : forall r r', In r rs -> In r' rs -> is_num r = true -> is_num r' = true ->
      r_nh r = r_nh r' -> nser r = nser r';
  wfn_den_hash : forall r r', In r rs -> In r' rs -> is_den r = true -> is_den r' = true ->
      tkey r = tkey r' -> r_dh r = r_dh r';
  wfn_pair : forall r r' s, In r rs -> In r' rs -> is_num r = true -> is_num r' = true ->
      r_unit r = r_unit r' -> r_table r = r_table r' ->
      normalize_date (r_ser r) = Some s -> normalize_date (r_ser r') = Some s ->
      r_nh r = r_nh r' /\ bh_of rs (tkey r) = bh_of rs (tkey r');
  wfn_dates : forall r r' s d, In r rs -> In r' rs -> is_num r = true -> is_num r' = true ->
      r_unit r = r_unit r' -> r_table r = r_table r' -> r_bench r = r_bench r' ->
      normalize_date (r_ser r) = Some s -> normalize_date (r_ser r') = Some s ->
      normalize_date (r_exp r) = Some d -> normalize_date (r_exp r') = Some d ->
      r_exp r = r_exp r'
}.

Lemma WFset_is_norm rs : WFset rs -> WFset_norm rs.
Proof.
  intros [H1 H2 H3 H4]. split; auto.
  intros r r' Hr Hr' Hn Hn' E. unfold nser. now rewrite (H1 r r' Hr Hr' Hn Hn' E).
Qed.

Lemma respell1_eqv rs r : WFset_norm rs -> In r rs -> sp_eqv r (respell1 rs r).
Proof.
  intros Hwf Hin. unfold respell1. destruct (is_num r) eqn:En; [|apply sp_eqv_refl].
  unfold sp_eqv, set_ser, nser. cbn [r_unit r_table r_bench r_exp r_ser r_role r_nh r_dh r_val].
  repeat (split; [reflexivity|]).
  unfold first_ser. destruct (find (numh (r_nh r)) rs) as [r0|] eqn:E.
  - apply find_some in E as [Hin0 Hn0]. unfold numh in Hn0. apply andb_true_iff in Hn0 as [Hn0 Hh0].
    apply beq_eq in Hh0. apply (wfn_hash_instant _ Hwf r r0); auto.
  - exfalso. eapply find_none in E; eauto. unfold numh in E. now rewrite En, beq_refl in E.
Qed.

Lemma respell_eqv rs : WFset_norm rs -> Forall2 sp_eqv rs (respell rs).
Proof. intros Hwf. unfold respell. apply F2_map_in. intros r Hr. now apply respell1_eqv. Qed.

Lemma respell_wf rs : WFset_norm rs -> WFset (respell rs).
Proof.
  intros Hwf. pose proof (respell_eqv rs Hwf) as HF.
  assert (Hback : forall y, In y (respell rs) -> exists x, In x rs /\ sp_eqv x y /\ y = respell1 rs x).
  { intros y Hy. unfold respell in Hy. apply in_map_iff in Hy as (x & <- & Hx). exists x.
    split; auto. split; auto. now apply respell1_eqv. }
  split.
  - intros y y' Hy Hy' Hn Hn' E.
    destruct (Hback y Hy) as (x & Hx & Hxy & ->). destruct (Hback y' Hy') as (x' & Hx' & Hxy' & ->).
    rewrite <- (sp_is_num _ _ Hxy) in Hn. rewrite <- (sp_is_num _ _ Hxy') in Hn'.
    unfold respell1 in *. rewrite Hn, Hn' in *. cbn [set_ser r_ser r_nh] in *. now rewrite E.
  - intros y y' Hy Hy' Hn Hn' E.
    destruct (Hback y Hy) as (x & Hx & Hxy & _). destruct (Hback y' Hy') as (x' & Hx' & Hxy' & _).
    rewrite <- (sp_is_den _ _ Hxy) in Hn. rewrite <- (sp_is_den _ _ Hxy') in Hn'.
    rewrite <- (sp_tkey _ _ Hxy), <- (sp_tkey _ _ Hxy') in E.
    pose proof (wfn_den_hash _ Hwf x x' Hx Hx' Hn Hn' E) as H.
    destruct Hxy as (_ & _ & _ & _ & _ & _ & E7 & _). destruct Hxy' as (_ & _ & _ & _ & _ & _ & E7' & _).
    congruence.
  - intros y y' s Hy Hy' Hn Hn' E1 E2 Hs Hs'.
    destruct (Hback y Hy) as (x & Hx & Hxy & _). destruct (Hback y' Hy') as (x' & Hx' & Hxy' & _).
    rewrite <- (sp_is_num _ _ Hxy) in Hn. rewrite <- (sp_is_num _ _ Hxy') in Hn'.
    pose proof (sp_nser _ _ Hxy) as Ns. pose proof (sp_nser _ _ Hxy') as Ns'. unfold nser in Ns, Ns'.
    rewrite <- Ns in Hs. rewrite <- Ns' in Hs'.
    rewrite <- (sp_tkey _ _ Hxy), <- (sp_tkey _ _ Hxy'), <- !(bh_of_sp rs (respell rs) _ HF).
    destruct Hxy as (U & T & _ & _ & _ & H6 & _). destruct Hxy' as (U' & T' & _ & _ & _ & H6' & _).
    rewrite <- H6, <- H6'. apply (wfn_pair _ Hwf x x' s); auto; congruence.
  - intros y y' s d Hy Hy' Hn Hn' E1 E2 E3 Hs Hs' Hd Hd'.
    destruct (Hback y Hy) as (x & Hx & Hxy & _). destruct (Hback y' Hy') as (x' & Hx' & Hxy' & _).
    rewrite <- (sp_is_num _ _ Hxy) in Hn. rewrite <- (sp_is_num _ _ Hxy') in Hn'.
    pose proof (sp_nser _ _ Hxy) as Ns. pose proof (sp_nser _ _ Hxy') as Ns'. unfold nser in Ns, Ns'.
    rewrite <- Ns in Hs. rewrite <- Ns' in Hs'.
    destruct Hxy as (U & T & B & X & _). destruct Hxy' as (U' & T' & B' & X' & _).
    rewrite <- X in Hd. rewrite <- X' in Hd'. rewrite <- X, <- X'.
    apply (wfn_dates _ Hwf x x' s d); auto; congruence.
Qed.

(** the model meets the declarative specification for every result set in
    which a numerator hash has one series instant, however its stamp is spelled
    in the individual results *)
Theorem series_meets_spec_norm combine rs en :
  WFset_norm rs -> valid_enum (adds rs) en ->
  canon (all_comparison_series combine (adds rs) en) = spec_series combine rs.
Proof.
  intros Hwf Hv. pose proof (respell_eqv rs Hwf) as HF.
  rewrite (series_spelling_invariant combine rs (respell rs) en HF), (spec_series_sp combine rs (respell rs) HF).
  apply series_meets_spec; [now apply respell_wf|].
  eapply valid_enum_sim; [|exact Hv]. apply adds_sim; auto. apply bsim_empty.
Qed.

(** hence add-order independence under the weaker well-formedness *)
Lemma WFset_norm_perm rs rs' : WFset_norm rs -> Permutation rs rs' -> WFset_norm rs'.
Proof.
  intros [H1 H2 H3 H4] HP.
  assert (Hi : forall x, In x rs' -> In x rs) by (intros x; apply Permutation_in, Permutation_sym, HP).
  assert (Hb : forall k, bh_of rs' k = bh_of rs k).
  { intros k. rewrite <- !bh_of_adds. symmetry. apply (builder_perm_invariant rs rs' HP H2 k). }
  split.
  - intros r r' Hr Hr'. apply H1; auto.
  - intros r r' Hr Hr'. apply H2; auto.
  - intros r r' s Hr Hr' Hn Hn' E1 E2 Hs Hs'. rewrite !Hb. apply (H3 r r' s); auto.
  - intros r r' s d Hr Hr'. apply (H4 r r' s d); auto.
Qed.

Theorem series_perm_invariant_norm combine rs rs' en en' :
  WFset_norm rs -> Permutation rs rs' ->
  valid_enum (adds rs) en -> valid_enum (adds rs') en' ->
  canon (all_comparison_series combine (adds rs) en) =
  canon (all_comparison_series combine (adds rs') en').
Proof.
  intros Hwf HP Hv Hv'.
  pose proof (WFset_norm_perm rs rs' Hwf HP) as Hwf'.
  rewrite (series_meets_spec_norm combine rs en Hwf Hv), (series_meets_spec_norm combine rs' en' Hwf' Hv').
  (* rs' respelled with the stamps chosen for rs is a permutation of [respell rs] *)
  set (rs'' := map (respell1 rs) rs').
  assert (HF : Forall2 sp_eqv rs (respell rs)) by now apply respell_eqv.
  assert (HF' : Forall2 sp_eqv rs' rs'').
  { apply F2_map_in. intros r Hr. apply respell1_eqv; auto.
    now apply (Permutation_in _ (Permutation_sym HP)). }
  assert (HP'' : Permutation (respell rs) rs'') by (apply Permutation_map, HP).
  assert (Hv'' : valid_enum (adds rs'') (first_enum rs')).
  { eapply valid_enum_sim; [|apply first_enum_valid]. apply adds_sim; auto. apply bsim_empty. }
  rewrite (spec_series_sp combine rs (respell rs) HF).
  rewrite <- (series_meets_spec combine (respell rs) (first_enum (respell rs)) (respell_wf rs Hwf) (first_enum_valid _)).
  rewrite (series_perm_invariant combine (respell rs) rs'' _ (first_enum rs') (respell_wf rs Hwf) HP''
             (first_enum_valid _) Hv'').
  rewrite <- (series_spelling_invariant combine rs' rs'' (first_enum rs') HF').
  apply series_meets_spec_norm; auto. apply first_enum_valid.
Qed.

(** the executable gate of the correspondence run is sound for [WFset_norm] *)
Theorem wfset_norm_b_sound rs : wf_a_norm rs && wf_b rs && wf_c rs && wf_d rs = true -> WFset_norm rs.
Proof.
  rewrite !andb_true_iff. intros [[[Ha Hb] Hc] Hd].
  split.
  - intros r r' Hr Hr' Hn Hn' E. unfold wf_a_norm in Ha.
    pose proof (forallb2 _ rs Ha r r' Hr Hr') as H. cbn beta in H.
    rewrite Hn, Hn', E, beq_refl in H. cbn [andb negb orb] in H.
    apply orb_true_iff in H as [H|H].
    + apply beq_eq in H. unfold nser. now rewrite H.
    + destruct (nser r) as [a|], (nser r') as [b|]; try discriminate. apply beq_eq in H. now subst.
  - intros r r' Hr Hr' Hn Hn' E. unfold wf_c in Hc.
    pose proof (forallb2 _ rs Hc r r' Hr Hr') as H. cbn beta in H.
    rewrite Hn, Hn', E, keqb_refl in H. cbn [andb negb orb] in H. now apply beq_eq.
  - intros r r' s Hr Hr' Hn Hn' E1 E2 Hs Hs'. unfold wf_b in Hb.
    pose proof (forallb2 _ rs Hb r r' Hr Hr') as H. cbn beta in H.
    unfold nser in H. rewrite Hn, Hn', (same_table_true r r' E1 E2), Hs, Hs', beq_refl in H.
    cbn [andb negb orb] in H. apply andb_true_iff in H as [H1 H2]. now apply beq_eq in H1, H2.
  - intros r r' s d Hr Hr' Hn Hn' E1 E2 E3 Hs Hs' Hdt Hdt'. unfold wf_d in Hd.
    pose proof (forallb2 _ rs Hd r r' Hr Hr') as H. cbn beta in H.
    unfold nser, ndate in H.
    rewrite Hn, Hn', (same_table_true r r' E1 E2), E3, Hs, Hs', Hdt, Hdt', !beq_refl in H.
    cbn [andb negb orb] in H. now apply beq_eq.
Qed.
