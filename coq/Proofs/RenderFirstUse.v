(** First-use numbering, exactly: the numbered footnote list ToText prints is
    the sequence of messages of the CSV warning stream (same table; the rows the
    text shows), de-duplicated, in order of first occurrence. *)
From Perf Require Import Base.Bytes Model.Runes Model.TextTab Model.KeyHeader Model.Render
     Proofs.Render Proofs.RenderNotes Proofs.RenderRows Proofs.RenderAgree Proofs.RenderWarn.
Local Open Scope nat_scope.

(** distinct elements in order of first occurrence *)
Fixpoint first_occ (l : list bytes) : list bytes :=
  match l with
  | [] => []
  | x :: r => x :: filter (fun y => negb (beq y x)) (first_occ r)
  end.

Definition memb (x : bytes) (l : list bytes) : bool := existsb (beq x) l.
Definition add1 (wl : list bytes) (m : bytes) : list bytes :=
  match index_of m wl with Some _ => wl | None => wl ++ [m] end.

Lemma memb_in x l : memb x l = true <-> In x l.
Proof.
  unfold memb. rewrite existsb_exists. split.
  - intros [y [Hy E]]. apply beq_eq in E. subst. exact Hy.
  - intros H. exists x. split; [exact H|apply beq_refl].
Qed.

Lemma index_of_memb m l : memb m l = match index_of m l with Some _ => true | None => false end.
Proof.
  destruct (index_of m l) as [i|] eqn:E.
  - apply memb_in. eapply nth_error_In. apply index_of_some. exact E.
  - destruct (memb m l) eqn:M; [|reflexivity]. apply memb_in in M. exfalso. exact (index_of_none m l E M).
Qed.

Lemma fnotes_fst : forall msgs wl ns, fst (fold_left fstep msgs (wl, ns)) = fold_left add1 msgs wl.
Proof.
  induction msgs as [|m msgs IH]; intros wl ns; cbn [fold_left]; [reflexivity|].
  unfold fstep at 2, add1 at 2. cbn [fst snd]. destruct (index_of m wl); apply IH.
Qed.

Lemma footnote_fst wl msgs : fst (footnote wl msgs) = fold_left add1 msgs wl.
Proof. rewrite footnote_marks. cbn [fst]. apply fnotes_fst. Qed.

Lemma filter_filter {A} (f g : A -> bool) l : filter f (filter g l) = filter (fun x => g x && f x) l.
Proof.
  induction l as [|x l IH]; [reflexivity|]. cbn [filter]. destruct (g x); cbn [filter andb]; [|exact IH].
  destruct (f x); rewrite IH; reflexivity.
Qed.

Lemma filter_ext' {A} (f g : A -> bool) l : (forall x, f x = g x) -> filter f l = filter g l.
Proof. intros H. induction l as [|x l IH]; [reflexivity|]. cbn [filter]. rewrite H, IH. reflexivity. Qed.

Lemma add_fold_spec : forall msgs wl,
  fold_left add1 msgs wl = wl ++ filter (fun x => negb (memb x wl)) (first_occ msgs).
Proof.
  induction msgs as [|m msgs IH]; intros wl; cbn [fold_left first_occ filter]; [rewrite app_nil_r; reflexivity|].
  rewrite IH. unfold add1. rewrite (index_of_memb m wl). destruct (index_of m wl) as [i|] eqn:E; cbn [negb].
  - f_equal. rewrite filter_filter. apply filter_ext'. intros y.
    destruct (beq_spec y m) as [->|Hn]; cbn [negb andb]; [|reflexivity].
    rewrite (index_of_memb m wl), E. reflexivity.
  - rewrite <- app_assoc. cbn [app]. f_equal. f_equal. rewrite filter_filter. apply filter_ext'. intros y.
    unfold memb. rewrite existsb_app. cbn [existsb]. rewrite orb_false_r.
    destruct (existsb (beq y) wl), (beq y m); reflexivity.
Qed.

Lemma first_occ_from_nil msgs : fold_left add1 msgs [] = first_occ msgs.
Proof.
  rewrite add_fold_spec. cbn [app]. rewrite (filter_all_id _ (first_occ msgs)); [reflexivity|]. intros; reflexivity.
Qed.

(** messages of the CSV lines, in stream order *)
Definition wmsg (w : wline) : bytes := snd w.

Lemma map_wmsg_refline col srow msgs : map wmsg (map (refline col srow) msgs) = msgs.
Proof. rewrite map_map. unfold wmsg, refline. cbn [snd]. apply map_id. Qed.

Lemma text_data_step_wl srow wl ops exp oc :
  st_wl (text_data_step (wl, ops, exp) oc) = fold_left add1 (map wmsg (cell_wlines srow exp oc)) wl.
Proof.
  unfold cell_wlines. rewrite map_app, !map_wmsg_refline.
  destruct oc as [c|]; cbn [text_data_step centre_msgs delta_msgs]; [|reflexivity]. cbn zeta.
  destruct (if exp =? 0 then None else rc_cmp c) as [cm|]; cbn [st_wl fst snd].
  - rewrite !footnote_fst, !fold_left_app. reflexivity.
  - rewrite footnote_fst, app_nil_r. reflexivity.
Qed.

Lemma text_data_fold_wl srow : forall cells wl ops exp,
  st_wl (fold_left text_data_step cells (wl, ops, exp)) = fold_left add1 (map wmsg (row_wlines srow exp cells)) wl.
Proof.
  induction cells as [|oc cells IH]; intros wl ops exp; cbn [fold_left row_wlines map]; [reflexivity|].
  pose proof (text_data_step_wl srow wl ops exp oc) as W.
  pose proof (text_data_step_spec wl ops exp oc) as S0. cbn zeta in S0.
  destruct (text_data_step (wl, ops, exp) oc) as [[wl1 ops1] exp1]. cbn [st_wl fst snd] in W, S0.
  destruct S0 as [-> _]. rewrite IH, map_app, fold_left_app, <- W. reflexivity.
Qed.

Lemma rows_run_fst s : forall rows wl i,
  fst (rows_run wl rows) = fold_left add1 (map wmsg (rows_wlines s i rows)) wl.
Proof.
  induction rows as [|[label cells] rows IH]; intros wl i; cbn [rows_run rows_wlines fst map]; [reflexivity|].
  rewrite (IH _ (S i)), map_app, fold_left_app. f_equal. unfold text_data_ops. cbn [fst].
  apply (text_data_fold_wl (s + i)).
Qed.

Lemma text_sum_fold_wl srow : forall sums wl ops exp,
  st_wl (fold_left text_sum_step sums (wl, ops, exp)) = fold_left add1 (map wmsg (sum_wlines srow exp sums)) wl.
Proof.
  induction sums as [|os sums IH]; intros wl ops exp; cbn [fold_left sum_wlines map]; [reflexivity|].
  assert (W : st_wl (text_sum_step (wl, ops, exp) os) = fold_left add1 (map wmsg (sum_wlines1 srow exp os)) wl).
  { destruct os as [s|]; cbn [text_sum_step sum_wlines1]; [|reflexivity]. cbn zeta. cbn [st_wl fst snd].
    rewrite footnote_fst, map_wmsg_refline. reflexivity. }
  pose proof (text_sum_step_spec wl ops exp os) as S0. cbn zeta in S0.
  destruct (text_sum_step (wl, ops, exp) os) as [[wl1 ops1] exp1]. cbn [st_wl fst snd] in W, S0.
  destruct S0 as [-> _]. rewrite IH, map_app, fold_left_app, <- W. reflexivity.
Qed.

(** the footnote list of a table with >= 2 rows is the message sequence of the
    table's CSV warning stream, de-duplicated in order of first use; with one
    row (no summary line in the text) that of the data rows' part of the stream *)
Theorem text_footnotes_first_use t start :
  snd (text_model t) =
  first_occ (map wmsg (if 1 <? length (rt_rows t) then snd (csv_model t start)
                       else rows_wlines (start + (rt_nf t + 1)) 0 (rt_rows t))).
Proof.
  rewrite text_model_rows. cbn [snd]. unfold text_wl. cbn zeta. rewrite csv_model_ws. cbn zeta.
  set (s0 := start + (rt_nf t + 1)).
  rewrite <- first_occ_from_nil. destruct (1 <? length (rt_rows t)).
  - rewrite map_app, fold_left_app, <- (rows_run_fst s0 (rt_rows t) [] 0).
    unfold text_summary_ops. cbn [fst]. apply (text_sum_fold_wl (s0 + length (rt_rows t))).
  - apply rows_run_fst.
Qed.

Lemma first_occ_spec l : NoDup (first_occ l) /\ forall x, In x (first_occ l) <-> In x l.
Proof.
  induction l as [|a l [IH1 IH2]]; cbn [first_occ]; [split; [constructor|tauto]|]. split.
  - constructor.
    + rewrite filter_In. intros [_ H]. rewrite beq_refl in H. discriminate.
    + apply NoDup_filter. exact IH1.
  - intros x. cbn [In]. rewrite filter_In, IH2. destruct (beq_spec x a) as [->|Hn]; cbn [negb].
    + split; [tauto|]. intros _. left. reflexivity.
    + split; [intros [H|[H _]]; [left; exact H|right; exact H]|].
      intros [H|H]; [left; exact H|right; split; [exact H|reflexivity]].
Qed.
