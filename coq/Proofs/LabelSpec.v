(** The model of the legacy Reader with the server's AddLabels
    (StoreFmt.read_with over StoreFmt.file_meta) returns exactly the results
    Model/LabelSpec.v states: one per benchmark line, in order, numbered by
    line, carrying — key by key — the server label, else the last non-empty
    definition in front of the line, and the name-derived labels of its name. *)
From Perf Require Import Base.Bytes Model.Words Model.Query Model.StoreFmt Model.RecordRuns Model.LabelSpec
     Proofs.Query Proofs.StoreFmt Proofs.RecordRuns.

(** ** label maps *)

Lemma labels_ext a b : ksorted a -> ksorted b -> (forall k, lookup k a = lookup k b) -> a = b.
Proof.
  intros Ha Hb H. apply ksorted_ext; [exact Ha | exact Hb | |].
  - intros [k v] Hin. apply lookup_Some_In. rewrite <- H. apply lookup_In; assumption.
  - intros [k v] Hin. apply lookup_Some_In. rewrite H. apply lookup_In; assumption.
Qed.

Definition key_in (k : bytes) (keys : list bytes) : bool := existsb (fun x => beq x k) keys.

Lemma lookup_fold_from f k keys : forall s,
  lookup k (fold_left (fun s k => match f k with Some v => lset k v s | None => s end) keys s)
  = if key_in k keys then match f k with Some v => Some v | None => lookup k s end else lookup k s.
Proof.
  induction keys as [|a keys IH]; intros s; cbn [fold_left key_in existsb]; [reflexivity|].
  fold (key_in k keys). rewrite IH.
  destruct (beq_spec a k) as [->|Hn]; cbn [orb].
  - destruct (f k) as [v|] eqn:E.
    + rewrite lookup_lset, beq_refl. destruct (key_in k keys); reflexivity.
    + destruct (key_in k keys); reflexivity.
  - destruct (f a) as [v|]; [|reflexivity].
    rewrite lookup_lset. destruct (beq_spec a k) as [->|_]; [congruence|]. reflexivity.
Qed.

Lemma ksorted_fold_from f keys : forall s, ksorted s ->
  ksorted (fold_left (fun s k => match f k with Some v => lset k v s | None => s end) keys s).
Proof.
  induction keys as [|a keys IH]; intros s Hs; cbn [fold_left]; [exact Hs|].
  apply IH. destruct (f a); [apply ksorted_lset|]; exact Hs.
Qed.

Lemma lookup_map_from f keys k :
  (forall v, f k = Some v -> key_in k keys = true) -> lookup k (map_from f keys) = f k.
Proof.
  intros H. unfold map_from. rewrite lookup_fold_from. cbn [lookup].
  destruct (f k) as [v|] eqn:Ef.
  - rewrite (H v eq_refl). reflexivity.
  - destruct (key_in k keys); reflexivity.
Qed.

Lemma ksorted_map_from f keys : ksorted (map_from f keys).
Proof. apply ksorted_fold_from. exact I. Qed.

(** ** last definitions *)

Lemma last_assign_app k a b :
  last_assign k (a ++ b) = match last_assign k b with Some v => Some v | None => last_assign k a end.
Proof.
  induction a as [|[k' v'] a IH]; cbn [app last_assign].
  - destruct (last_assign k b); reflexivity.
  - rewrite IH. destruct (last_assign k b); reflexivity.
Qed.

Lemma last_assign_key_in k kvs v : last_assign k kvs = Some v -> key_in k (map fst kvs) = true.
Proof.
  revert v. induction kvs as [|[k' v'] kvs IH]; intros v; cbn [last_assign map key_in existsb fst]; [discriminate|].
  fold (key_in k (map fst kvs)).
  destruct (last_assign k kvs) as [x|].
  - intros _. rewrite (IH x eq_refl). apply orb_true_r.
  - destruct (beq k' k); [reflexivity | discriminate].
Qed.

Lemma key_in_app k a b : key_in k (a ++ b) = key_in k a || key_in k b.
Proof. unfold key_in. apply existsb_app. Qed.

Lemma lookup_lset_all k kvs : forall l,
  lookup k (lset_all kvs l) = match last_assign k kvs with Some v => Some v | None => lookup k l end.
Proof.
  induction kvs as [|[k' v'] kvs IH]; intros l; cbn [lset_all last_assign]; [reflexivity|].
  rewrite IH. destruct (last_assign k kvs); [reflexivity|].
  rewrite lookup_lset. destruct (beq k' k); reflexivity.
Qed.

Lemma ksorted_lset_all kvs : forall l, ksorted l -> ksorted (lset_all kvs l).
Proof.
  induction kvs as [|[k' v'] kvs IH]; intros l Hl; cbn [lset_all]; [exact Hl|].
  apply IH. apply ksorted_lset. exact Hl.
Qed.

(** ** name-derived labels *)

Lemma sub_labels_pairs subs : forall i l, sub_labels i subs l = lset_all (sub_pairs i subs) l.
Proof.
  induction subs as [|sub subs IH]; intros i l; cbn [sub_labels sub_pairs lset_all]; [reflexivity|].
  rewrite IH. destruct (index_byte sub c_eq); reflexivity.
Qed.

Lemma name_labels_pairs name : name_labels name = lset_all (name_pairs name) [].
Proof.
  unfold name_labels, name_pairs.
  destruct (last_index c_dash name) as [d|].
  - destruct (atoi_ok (skipn (S d) name)).
    + destruct (split_on c_slash (firstn d name)) as [p0 subs].
      rewrite sub_labels_pairs. reflexivity.
    + destruct (split_on c_slash name) as [p0 subs]. rewrite sub_labels_pairs. reflexivity.
  - destruct (split_on c_slash name) as [p0 subs]. rewrite sub_labels_pairs. reflexivity.
Qed.

(** every name-derived label is the LAST definition of its key in the name *)
Theorem name_labels_lookup name k : lookup k (name_labels name) = name_label name k.
Proof.
  rewrite name_labels_pairs, lookup_lset_all. unfold name_label.
  destruct (last_assign k (name_pairs name)); reflexivity.
Qed.

Theorem name_labels_spec name : name_labels name = spec_name_labels name.
Proof.
  apply labels_ext.
  - rewrite name_labels_pairs. apply ksorted_lset_all. exact I.
  - apply ksorted_map_from.
  - intros k. rewrite name_labels_lookup. unfold spec_name_labels. symmetry.
    apply lookup_map_from. intros v Hv. eapply last_assign_key_in. exact Hv.
Qed.

(** ** file labels *)

Lemma kv_lines_app a b : kv_lines (a ++ b) = kv_lines a ++ kv_lines b.
Proof.
  induction a as [|l a IH]; cbn [app kv_lines]; [reflexivity|].
  destruct (parse_kv_line l); cbn [app]; rewrite IH; reflexivity.
Qed.

Lemma named_before_app a l :
  named_before (a ++ [l]) = named_before a || match bench_name l with Some (_ :: _) => true | _ => false end.
Proof. unfold named_before. rewrite existsb_app. cbn [existsb]. rewrite orb_false_r. reflexivity. Qed.

Section Reader.
  Variable srv : bytes -> option bytes.
  Variable m : labels.
  Hypothesis Hm : forall k, lookup k m = srv k.
  Hypothesis Hsk : forall k v, srv k = Some v -> key_in k server_keys = true.

  Lemma result_label_cand before k v :
    result_label srv before k = Some v -> key_in k (server_keys ++ map fst (kv_lines before)) = true.
  Proof.
    unfold result_label, file_label. rewrite key_in_app. destruct (srv k) as [x|] eqn:E.
    - intros _. rewrite (Hsk k x E). reflexivity.
    - destruct (last_assign k (kv_lines before)) as [x|] eqn:El; [|discriminate].
      intros _. rewrite (last_assign_key_in _ _ _ El). apply orb_true_r.
  Qed.

  Lemma spec_labels_lookup before k : lookup k (spec_labels srv before) = result_label srv before k.
  Proof. unfold spec_labels. apply lookup_map_from. apply result_label_cand. Qed.

  Lemma read_loop_spec : forall rest rbefore lab seen n,
    ksorted lab ->
    (forall k, lookup k lab = result_label srv (rev rbefore) k) ->
    seen = named_before (rev rbefore) ->
    read_loop rest lab (Some m) true seen n = spec_results_from srv rbefore rest n.
  Proof.
    induction rest as [|line rest IH]; intros rbefore lab seen n Hs Hl Hseen; [reflexivity|].
    cbn [read_loop spec_results_from]. unfold bench_name.
    destruct (parse_kv_line line) as [[k v]|] eqn:Ekv.
    - (* a key-value line *)
      assert (Hkv : kv_lines (rev (line :: rbefore)) = kv_lines (rev rbefore) ++ [(k, v)]).
      { cbn [rev]. rewrite kv_lines_app. cbn [kv_lines]. rewrite Ekv. reflexivity. }
      assert (Hnb : seen = named_before (rev (line :: rbefore))).
      { cbn [rev]. rewrite named_before_app. unfold bench_name. rewrite Ekv, orb_false_r. exact Hseen. }
      unfold lhas. rewrite Hm.
      destruct (srv k) as [sv|] eqn:Esrv.
      + apply IH; [exact Hs | | exact Hnb].
        intros k2. rewrite Hl. unfold result_label, file_label. rewrite Hkv, last_assign_app.
        cbn [last_assign]. destruct (srv k2) as [x|] eqn:E2; [reflexivity|].
        destruct (beq_spec k k2) as [->|_]; [congruence | reflexivity].
      + apply IH; [destruct (beq v []); [apply ksorted_ldel | apply ksorted_lset]; exact Hs | | exact Hnb].
        intros k2. unfold result_label, file_label. rewrite Hkv, last_assign_app. cbn [last_assign].
        destruct (beq v []) eqn:Ev.
        * rewrite (lookup_ldel k k2 lab Hs). destruct (beq_spec k k2) as [->|Hn].
          -- rewrite Esrv, Ev. reflexivity.
          -- rewrite Hl. reflexivity.
        * rewrite lookup_lset. destruct (beq_spec k k2) as [->|Hn].
          -- rewrite Esrv, Ev. reflexivity.
          -- rewrite Hl. reflexivity.
    - (* not a key-value line *)
      assert (Hkv : kv_lines (rev (line :: rbefore)) = kv_lines (rev rbefore)).
      { cbn [rev]. rewrite kv_lines_app. cbn [kv_lines]. rewrite Ekv. apply app_nil_r. }
      assert (Hl2 : forall k, lookup k lab = result_label srv (rev (line :: rbefore)) k).
      { intros k. rewrite Hl. unfold result_label, file_label. rewrite Hkv. reflexivity. }
      destruct (parse_benchmark_line line) as [name|] eqn:Eb.
      + f_equal.
        * f_equal.
          -- apply labels_ext; [exact Hs | apply ksorted_map_from |].
             intros k. rewrite spec_labels_lookup. apply Hl.
          -- rewrite <- Hseen. rewrite name_labels_spec. reflexivity.
        * apply IH; [exact Hs | exact Hl2 |].
          cbn [rev]. rewrite named_before_app. unfold bench_name. rewrite Ekv, Eb, <- Hseen.
          destruct name; reflexivity.
      + apply IH; [exact Hs | exact Hl2 |].
        cbn [rev]. rewrite named_before_app. unfold bench_name. rewrite Ekv, Eb, orb_false_r. exact Hseen.
  Qed.
End Reader.

(** ** server labels *)

Lemma beq_sym a b : beq a b = beq b a.
Proof. destruct (beq_spec a b) as [->|H]; [symmetry; apply beq_refl|]. destruct (beq_spec b a) as [->|_]; congruence. Qed.

Lemma server_label_meta u i f k : last_assign k (file_meta u i f) = server_label u i f k.
Proof.
  unfold file_meta, server_label.
  destruct (base_name (f_name f)) as [|b0 bn]; destruct (u_user u) as [|u0 un];
    cbn [app last_assign];
    rewrite ?(beq_sym _ k);
    destruct (beq_spec k (bs "upload")) as [->|H1]; try reflexivity;
    destruct (beq_spec k (bs "upload-part")) as [->|H2]; try reflexivity;
    destruct (beq_spec k (bs "upload-time")) as [->|H3]; try reflexivity;
    destruct (beq_spec k (bs "upload-file")) as [->|H4]; try reflexivity;
    destruct (beq_spec k (bs "by")) as [->|H5]; reflexivity.
Qed.

Lemma server_label_keys u i f k v : server_label u i f k = Some v -> key_in k server_keys = true.
Proof.
  unfold server_label, server_keys, key_in. cbn [existsb]. rewrite !(beq_sym _ k).
  destruct (beq k (bs "upload")); [reflexivity|].
  destruct (beq k (bs "upload-part")); [reflexivity|].
  destruct (beq k (bs "upload-time")); [reflexivity|].
  destruct (beq k (bs "upload-file")); [reflexivity|].
  destruct (beq k (bs "by")); [reflexivity | discriminate].
Qed.

(** the labels the server adds, as AddLabels installs them *)
Lemma server_labels_lookup u i f k : lookup k (lset_all (file_meta u i f) []) = server_label u i f k.
Proof. rewrite lookup_lset_all, server_label_meta. destruct (server_label u i f k); reflexivity. Qed.

(** ** the results of a file and of an upload *)

Theorem read_with_is_spec u i f :
  read_with (file_meta u i f) (f_body f) = spec_file_results u i f.
Proof.
  unfold read_with, spec_file_results.
  assert (Hs : ksorted (lset_all (file_meta u i f) [])) by (apply ksorted_lset_all; exact I).
  assert (Hm : forall k, lookup k (lset_all (file_meta u i f) []) = server_label u i f k).
  { intros k. rewrite lookup_lset_all, server_label_meta. cbn [lookup]. destruct (server_label u i f k); reflexivity. }
  apply (read_loop_spec (server_label u i f) (lset_all (file_meta u i f) []) Hm (server_label_keys u i f)).
  - exact Hs.
  - intros k. cbn [rev]. unfold result_label, file_label. cbn [kv_lines last_assign].
    rewrite Hm. destruct (server_label u i f k); reflexivity.
  - reflexivity.
Qed.

Theorem upload_results_are_spec u : forall fs i, upload_results u i fs = spec_upload_results u i fs.
Proof.
  induction fs as [|f fs IH]; intros i; cbn [upload_results spec_upload_results]; [reflexivity|].
  rewrite read_with_is_spec, IH. reflexivity.
Qed.

(** key by key: the labels of the j-th result of a file read with the server's
    labels are the server label, else the last non-empty definition in front *)
Theorem result_labels_declarative u i f rbefore rest n r :
  In r (spec_results_from (server_label u i f) rbefore rest n) ->
  exists before name, bench_name (r_content r) = Some name
    /\ (forall k, lookup k (r_labels r) = result_label (server_label u i f) before k)
    /\ (r_namelabels r = [] \/ forall k, lookup k (r_namelabels r) = name_label name k).
Proof.
  revert rbefore n. induction rest as [|line rest IH]; intros rbefore n; cbn [spec_results_from]; [intros []|].
  destruct (bench_name line) as [name|] eqn:Eb.
  - intros [<-|Hin]; [|exact (IH _ _ Hin)].
    exists (rev rbefore), name. cbn [r_content r_labels r_namelabels]. split; [exact Eb|]. split.
    + intros k. apply spec_labels_lookup. apply server_label_keys.
    + destruct (is_nilb name && negb (named_before (rev rbefore))); [left; reflexivity|].
      right. intros k. rewrite <- name_labels_spec. apply name_labels_lookup.
  - intros Hin. exact (IH _ _ Hin).
Qed.
