(** The label of benchfmt.Files is the key ".file": no key/value line can
    spell it (the first rune of a key is a lower-case letter, '.' is not), so
    on a sequence of files the specification with the labels apart and the
    reader agree on every input ([no_file_key_line] of Proofs/ReaderSpec2.v
    holds always). *)
From Perf Require Import Base.Bytes Base.B64 Base.Utf8 Base.Unicode Base.UnicodeTables Model.Name Model.Extract Model.Units
  Model.Reader Model.Files Model.Writer Model.ReaderSpec Proofs.Units Proofs.WriterLines Proofs.ReaderFields
  Proofs.ReaderSlots Proofs.Reader Proofs.ReaderSpecKV Proofs.ReaderSpec2.
Local Open Scope N_scope.

Section FileKey.
Variables is_space is_lower is_upper : N -> bool.
Variable atoi : bytes -> option Z.
Variable parse_float : bytes -> option b64.
(** '.' is not a lower-case letter *)
Hypothesis Hdot : is_lower 46 = false.

Lemma kv_key_not_file line k v :
  classify is_space is_lower is_upper atoi parse_float line = LKV k v -> k <> key_file.
Proof.
  intros H ->. apply classify_kv_inv in H. apply parse_kv_sound in H.
  destruct H as (rest & _ & Hk & _). vm_compute in Hk. destruct Hk as (Hl & _). congruence.
Qed.

Lemma kv_keys_not_file ls : ~ In key_file (kv_keys is_space is_lower is_upper atoi parse_float ls).
Proof.
  unfold kv_keys. intros H. apply in_flat_map in H as ([b|] & _ & Hin); [|destruct Hin].
  destruct (classify is_space is_lower is_upper atoi parse_float b) as [o|fs|k v|] eqn:E; try (destruct Hin; fail).
  destruct Hin as [Hin|[]]. subst k. eapply kv_key_not_file; eauto.
Qed.

Theorem file_label_safe fs : no_file_key_line is_space is_lower is_upper atoi parse_float fs.
Proof.
  intros p content i _ k Hk. unfold untouched. unfold cm_labels. cbn [fold_left fst snd]. unfold cm_set.
  destruct (is_nil (fi_label i)); [reflexivity|]. cbn [cm_put cfg_lookup c_key].
  destruct (beq_spec key_file k) as [<-|]; [|reflexivity].
  exfalso. eapply kv_keys_not_file; eauto.
Qed.

(** several files through one (repaired) reader = each file read on its own
    from its bare label, which no line can change; only the unit table is
    threaded through *)
Theorem files_nl_no_leak' fs ins st rs e st' :
  files_loop_nl is_space is_lower is_upper atoi parse_float fs ins st = (rs, e, st') ->
  exists rs2, files_spec_loop2 is_space is_lower is_upper atoi parse_float false fs ins (rs_units st)
                = (rs2, e, rs_units st') /\ Forall2 rec_equiv rs rs2.
Proof. apply files_nl_no_leak. apply file_label_safe. Qed.
End FileKey.

Example hdot_go : go_is_lower 46 = false.
Proof. vm_compute. reflexivity. Qed.
