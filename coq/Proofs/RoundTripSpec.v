(** Facts about Model/RoundTripSpec.v: on a value the line format can carry the
    relaxed expectation of C01's known findings is the value itself. *)
From Perf Require Import Base.Bytes Base.B64 Base.Utf8 Model.Name Model.Extract Model.Units Model.Reader
  Model.RoundTripSpec.

Lemma cut_lf_none v : ~ In x0a v -> cut_lf v = (v, None).
Proof.
  induction v as [|c v IH]; intros H; cbn [cut_lf]; [reflexivity|].
  destruct (beqb_spec c x0a) as [->|Hc]; [exfalso; apply H; now left|].
  rewrite IH; [reflexivity|]. intros Hin. apply H. now right.
Qed.

Lemma drop_final_cr_id s : (forall p, s <> p ++ [x0d]) -> drop_final_cr s = s.
Proof.
  intros H. unfold drop_final_cr. destruct (rev s) as [|c r] eqn:E.
  - apply (f_equal (@rev byte)) in E. rewrite rev_involutive in E. now subst s.
  - destruct (beqb_spec c x0d) as [->|Hc]; [|reflexivity].
    exfalso. apply (H (rev r)). apply (f_equal (@rev byte)) in E. rewrite rev_involutive in E. exact E.
Qed.

Lemma drop_blanks_id v : (forall c r, v = c :: r -> c <> x20 /\ c <> x09) -> drop_blanks v = v.
Proof.
  destruct v as [|c r]; intros H; cbn [drop_blanks]; [reflexivity|].
  destruct (H c r eq_refl) as [H1 H2].
  destruct (beqb_spec c x20) as [->|_]; [now elim H1|].
  destruct (beqb_spec c x09) as [->|_]; [now elim H2|]. reflexivity.
Qed.

Lemma carried_value_id v :
  v <> [] -> (forall c r, v = c :: r -> c <> x20 /\ c <> x09) -> ~ In x0a v -> (forall p, v <> p ++ [x0d]) ->
  carried_value v = v.
Proof.
  intros _ Hb Hlf Hcr. unfold carried_value. rewrite (cut_lf_none v Hlf). cbn [fst].
  rewrite (drop_final_cr_id v Hcr). apply drop_blanks_id. exact Hb.
Qed.
