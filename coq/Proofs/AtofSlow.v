(** decimal.set (the slow path's scanner, repaired form) computes the number the
    grammar denotes, cut after 800 significant digits:
        M = V * 10^j + tail,  0 <= tail < 10^j,  dp - nd = E + j,  trunc <-> tail <> 0,
    V the stored digits.  With the slow path's conversion modelled by its
    specification ([dec_float_bits], see Model/Atof.v) this gives: for every
    decimal text whose significant digits fit the buffer, the slow path returns
    the specification's value. *)
From Coq Require Import ZArith Reals Lia Lra Bool.
From Flocq Require Import Core.Core IEEE754.BinarySingleNaN.
From Perf Require Import Base.Bytes Base.B64 Base.DecSpec Model.Atoi Model.Atof
                         Proofs.Atoi Proofs.RnB64 Proofs.AtofExact Proofs.AtofSyntax Proofs.AtofValue Proofs.AtofEndToEnd.
Local Open Scope Z_scope.

Definition ds_step (st : ds) (c : byte) : ds :=
  if Byte.eqb c c_zero && (ds_nd st =? 0) then
    mkDs (ds_rev st) (ds_nd st) (ds_dp st - 1) (ds_sawdot st) true (ds_trunc st) (ds_dropped st)
  else if ds_nd st <? 800 then
    mkDs (c :: ds_rev st) (ds_nd st + 1) (ds_dp st) (ds_sawdot st) true (ds_trunc st) (ds_dropped st)
  else
    mkDs (ds_rev st) (ds_nd st) (ds_dp st) (ds_sawdot st) true
         (ds_trunc st || negb (Byte.eqb c c_zero))
         (if ds_sawdot st then ds_dropped st else ds_dropped st + 1).

Lemma set_digits_digit c r st : is_dec_digit c = true ->
  set_digits (c :: r) st = set_digits r (ds_step st c).
Proof.
  intros Hd. destruct (isd_facts false c Hd) as [Hu [Hdot _]].
  cbn [set_digits]. rewrite Hu, Hdot, code_is_dec_digit_eq, Hd. unfold ds_step.
  destruct (Byte.eqb c c_zero && (ds_nd st =? 0)); [reflexivity|].
  destruct (ds_nd st <? 800); reflexivity.
Qed.

Definition ds_val (st : ds) : Z := digits_val 10 (rev (ds_rev st)).

Definition ds_inv (st : ds) (D : bytes) (F : Z) : Prop :=
  0 <= ds_nd st <= 800 /\
  (0 < ds_nd st -> 10 ^ (ds_nd st - 1) <= ds_val st) /\ 0 <= ds_val st < 10 ^ ds_nd st /\
  0 <= F /\
  exists j tail, 0 <= j /\ (ds_nd st < 800 -> j = 0 /\ ds_trunc st = false) /\
    digits_val 10 D = ds_val st * 10 ^ j + tail /\ 0 <= tail < 10 ^ j /\
    (ds_trunc st = false -> tail = 0) /\ (ds_trunc st = true -> 0 < tail) /\
    (ds_sawdot st = true -> ds_dp st + ds_dropped st - ds_nd st = j - F) /\
    (ds_sawdot st = false -> F = 0 /\ ds_dropped st = j).

Lemma ds_step_inv st c D F : is_dec_digit c = true -> ds_inv st D F ->
  ds_inv (ds_step st c) (D ++ [c]) (F + (if ds_sawdot st then 1 else 0)).
Proof.
  intros Hd (Hnd & Hlo & Hv & HF & j & tail & Hj & Hroom & HD & Ht & Htf & Htt & Hdp & Hnodot).
  rewrite <- code_is_dec_digit_eq in Hd. destruct (dec_digit_val c Hd) as [_ [Hdr Hzero]].
  unfold ds_step.
  destruct (Byte.eqb c c_zero && (ds_nd st =? 0)) eqn:Elz.
  - (* leading zero *)
    apply andb_true_iff in Elz as [Ez En]. apply Z.eqb_eq in En.
    assert (Hd0 : digit_val c = 0) by now apply Hzero.
    destruct (Hroom ltac:(lia)) as [-> Htr]. rewrite Z.pow_0_r in *.
    assert (ds_val st = 0) by (rewrite En in Hv; cbn in Hv; lia).
    unfold ds_inv, ds_val in *. cbn [ds_rev ds_nd ds_dp ds_sawdot ds_trunc ds_dropped].
    repeat (split; [first [assumption|lia]|]). split; [destruct (ds_sawdot st); lia|].
    exists 0, 0. rewrite digits_val_snoc, HD, Z.pow_0_r.
    repeat (split; [first [assumption|lia|intros; split; [reflexivity|assumption]|intros; congruence]|]).
    split.
    + intros Hs. specialize (Hdp Hs). rewrite Hs. lia.
    + intros Hs. rewrite Hs. destruct (Hnodot Hs). lia.
  - destruct (Z.ltb_spec (ds_nd st) 800) as [Hlt|Hge].
    + (* stored *)
      destruct (Hroom Hlt) as [-> Htr]. rewrite Z.pow_0_r in *.
      assert (tail = 0) by lia. subst tail.
      assert (Hval : ds_val (mkDs (c :: ds_rev st) (ds_nd st + 1) (ds_dp st) (ds_sawdot st) true (ds_trunc st) (ds_dropped st))
                     = ds_val st * 10 + digit_val c).
      { unfold ds_val. cbn [ds_rev rev]. apply digits_val_snoc. }
      assert (Hnz : ds_nd st = 0 -> digit_val c <> 0).
      { intros E0 X. apply Hzero in X. rewrite X, E0 in Elz. discriminate. }
      unfold ds_inv. rewrite Hval. cbn [ds_nd ds_dp ds_sawdot ds_trunc ds_dropped].
      split; [lia|]. split.
      { intros _. replace (ds_nd st + 1 - 1) with (ds_nd st) by lia.
        destruct (Z.eq_dec (ds_nd st) 0) as [E0|E0].
        - rewrite E0. specialize (Hnz E0). rewrite E0 in Hv. cbn in Hv. lia.
        - specialize (Hlo ltac:(lia)). replace (ds_nd st) with (ds_nd st - 1 + 1) at 1 by lia.
          rewrite Z.pow_add_r, Z.pow_1_r by lia. lia. }
      split; [rewrite Z.pow_add_r, Z.pow_1_r by lia; lia|].
      split; [destruct (ds_sawdot st); lia|].
      exists 0, 0. rewrite digits_val_snoc, HD, Z.pow_0_r.
      split; [lia|]. split; [intros; split; [reflexivity|assumption]|]. split; [lia|]. split; [lia|].
      split; [reflexivity|]. split; [intros; congruence|]. split.
      * intros Hs. specialize (Hdp Hs). rewrite Hs. lia.
      * intros Hs. rewrite Hs. destruct (Hnodot Hs). lia.
    + (* dropped *)
      unfold ds_inv, ds_val in *. cbn [ds_rev ds_nd ds_dp ds_sawdot ds_trunc ds_dropped].
      repeat (split; [first [assumption|lia]|]). split; [destruct (ds_sawdot st); lia|].
      exists (j + 1), (tail * 10 + digit_val c). rewrite digits_val_snoc, HD, Z.pow_add_r, Z.pow_1_r by lia.
      split; [lia|]. split; [intros; lia|]. split; [ring|]. split; [nia|]. split.
      * intros Htr. apply orb_false_iff in Htr as [Htr Hz]. apply negb_false_iff in Hz.
        apply Hzero in Hz. specialize (Htf Htr). nia.
      * split.
        -- intros Htr. apply orb_true_iff in Htr as [Htr|Hz].
           ++ specialize (Htt Htr). nia.
           ++ apply negb_true_iff in Hz. assert (digit_val c <> 0) by (intros X; apply Hzero in X; congruence). nia.
        -- split.
           ++ intros Hs. specialize (Hdp Hs). rewrite Hs. lia.
           ++ intros Hs. rewrite Hs. destruct (Hnodot Hs). lia.
Qed.

Lemma ds_step_flags st c : ds_sawdot (ds_step st c) = ds_sawdot st /\ ds_sawdigits (ds_step st c) = true.
Proof.
  unfold ds_step. destruct (Byte.eqb c c_zero && (ds_nd st =? 0)); [split; reflexivity|].
  destruct (ds_nd st <? 800); split; reflexivity.
Qed.

Lemma ds_run dsx : forallb is_dec_digit dsx = true -> forall rest st D F, ds_inv st D F ->
  exists st', set_digits (dsx ++ rest) st = set_digits rest st' /\
              ds_inv st' (D ++ dsx) (F + (if ds_sawdot st then Z.of_nat (length dsx) else 0)) /\
              ds_sawdot st' = ds_sawdot st /\
              ds_sawdigits st' = (ds_sawdigits st || negb (Nat.eqb (length dsx) 0)).
Proof.
  induction dsx as [|c dsx IH]; intros Hd rest st D F Hinv.
  - exists st. split; [reflexivity|]. split; [|split; [reflexivity|]].
    + rewrite app_nil_r. cbn [length].
      replace (F + (if ds_sawdot st then Z.of_nat 0 else 0)) with F by (destruct (ds_sawdot st); cbn; lia).
      exact Hinv.
    + cbn. now rewrite orb_false_r.
  - cbn [forallb] in Hd. apply andb_true_iff in Hd as [Hc Hds].
    pose proof (ds_step_inv st c D F Hc Hinv) as Hinv'.
    destruct (IH Hds rest (ds_step st c) _ _ Hinv') as [st' (E & I & S & G)].
    destruct (ds_step_flags st c) as [Hsd Hsg].
    exists st'. cbn [app]. rewrite set_digits_digit by assumption. split; [exact E|].
    split; [|split; [congruence|]].
    + rewrite <- app_assoc in I. cbn [app] in I. rewrite Hsd in I.
      replace (F + (if ds_sawdot st then Z.of_nat (length (c :: dsx)) else 0))
        with (F + (if ds_sawdot st then 1 else 0) + (if ds_sawdot st then Z.of_nat (length dsx) else 0)); [exact I|].
      cbn [length]. destruct (ds_sawdot st); lia.
    + rewrite G, Hsg. cbn [length Nat.eqb negb]. now rewrite orb_true_r.
Qed.

Lemma ds_dot r st D F : ds_sawdot st = false -> ds_inv st D F ->
  exists st', set_digits (c_dot :: r) st = set_digits r st' /\
              ds_inv st' D 0 /\ ds_sawdot st' = true /\ ds_sawdigits st' = ds_sawdigits st.
Proof.
  intros Hs (Hnd & Hlo & Hv & HF & j & tail & Hj & Hroom & HD & Ht & Htf & Htt & Hdp & Hnodot).
  exists (mkDs (ds_rev st) (ds_nd st) (ds_nd st) true (ds_sawdigits st) (ds_trunc st) (ds_dropped st)).
  split.
  - cbn [set_digits]. change (Byte.eqb c_dot c_us) with false. change (Byte.eqb c_dot c_dot) with true.
    cbn iota. now rewrite Hs.
  - split; [|split; reflexivity]. destruct (Hnodot Hs) as [-> Hdr].
    unfold ds_inv, ds_val in *. cbn [ds_rev ds_nd ds_dp ds_sawdot ds_trunc ds_dropped].
    repeat (split; [first [assumption|lia]|]).
    exists j, tail. repeat (split; [first [assumption|lia]|]). first [assumption|lia|congruence|discriminate].
Qed.

Definition ds0 : ds := mkDs [] 0 0 false false false 0.

Lemma ds0_inv : ds_inv ds0 [] 0.
Proof.
  unfold ds_inv, ds_val, ds0. cbn [ds_rev ds_nd ds_dp ds_sawdot ds_trunc ds_dropped rev].
  split; [lia|]. split; [lia|]. split; [cbn; lia|]. split; [lia|].
  exists 0, 0. cbn. repeat split; try lia; try reflexivity; intros; discriminate.
Qed.

Lemma ds_mantissa mp D F rest :
  mantissa_digits is_dec_digit mp = Some (D, F) ->
  match rest with c :: _ => Byte.eqb c c_us = false /\ Byte.eqb c c_dot = false /\ is_dec_digit c = false | [] => True end ->
  exists st, set_digits (mp ++ rest) ds0 = Some (st, rest) /\ ds_inv st D F /\ ds_sawdigits st = true.
Proof.
  intros Hm Hrest. unfold mantissa_digits in Hm.
  destruct (break (is_char c_dot) mp) as [ip fpo] eqn:B.
  destruct (break_spec _ _ _ _ B) as [_ Hmp].
  set (fp := match fpo with Some f => f | None => [] end) in *.
  destruct (forallb is_dec_digit ip && forallb is_dec_digit fp && negb (Nat.eqb (length ip + length fp) 0)) eqn:C;
    [|discriminate].
  injection Hm as <- <-.
  apply andb_true_iff in C as [C Hne]. apply andb_true_iff in C as [Hip Hfp].
  assert (Hstop : forall st, set_digits rest st = Some (st, rest)).
  { intros st. destruct rest as [|c r]; [reflexivity|]. destruct Hrest as [Hu [Hd Hi]].
    cbn [set_digits]. rewrite Hu, Hd, code_is_dec_digit_eq, Hi. reflexivity. }
  destruct (ds_run ip Hip (match fpo with Some f => c_dot :: f ++ rest | None => rest end) ds0 [] 0 ds0_inv)
    as [st1 (E1 & I1 & S1 & G1)].
  cbn [app] in I1. change (ds_sawdot ds0) with false in *. cbn iota in I1. change (ds_sawdigits ds0) with false in G1.
  cbn [orb] in G1.
  destruct fpo as [f|].
  - destruct Hmp as [m [Hm ->]]. unfold is_char in Hm. apply beqb_eq in Hm. subst m. subst fp.
    destruct (ds_dot (f ++ rest) st1 ip 0 S1 I1) as [st2 (E2 & I2 & S2 & G2)].
    destruct (ds_run f Hfp rest st2 ip 0 I2) as [st3 (E3 & I3 & S3 & G3)].
    exists st3. split.
    + rewrite <- app_assoc. cbn [app]. rewrite E1, E2, E3. apply Hstop.
    + split.
      * rewrite S2 in I3. now rewrite Z.add_0_l in I3.
      * rewrite G3, G2, G1. rewrite <- negb_andb. apply negb_true_iff. apply negb_true_iff in Hne.
        destruct (length ip), (length f); cbn in *; try reflexivity; discriminate.
  - subst mp. subst fp. cbn [length] in Hne. rewrite Nat.add_0_r in Hne.
    exists st1. split; [rewrite E1; apply Hstop|]. split.
    + now rewrite app_nil_r, Z.add_0_r in *.
    + now rewrite G1.
Qed.

(** dropping underscores *)
Lemma set_digits_drop t : forall st,
  set_digits (drop_underscores t) st =
  option_map (fun '(st', rest) => (st', drop_underscores rest)) (set_digits t st).
Proof.
  induction t as [|c r IH]; intros st; [reflexivity|].
  destruct (beqb_spec c c_us) as [->|Hn].
  - rewrite drop_us_us. cbn [set_digits]. change (Byte.eqb c_us c_us) with true. cbn iota. apply IH.
  - apply beqb_neq in Hn. rewrite drop_us_cons by assumption. cbn [set_digits]. rewrite Hn.
    destruct (Byte.eqb c c_dot). { destruct (ds_sawdot st); [reflexivity|apply IH]. }
    destruct (code_is_dec_digit c).
    { destruct (Byte.eqb c c_zero && (ds_nd st =? 0)); [apply IH|]. destruct (ds_nd st <? 800); apply IH. }
    cbn [option_map]. now rewrite drop_us_cons.
Qed.

Lemma dec_set_core_drop fixed prev t neg : underscores_ok is_dec_digit prev t = true ->
  dec_set_core fixed (drop_underscores t) neg = dec_set_core fixed t neg.
Proof.
  intros H. unfold dec_set_core. rewrite set_digits_drop.
  pose proof (set_digits_mscan t (mkDs [] 0 0 false false false 0)) as M.
  destruct (set_digits t (mkDs [] 0 0 false false false 0)) as [[st rest]|]; [|reflexivity].
  cbn [option_map] in *. symmetry in M.
  destruct (mscan_rest _ _ _ _ _ _ _ M) as [[pre ->] Hh].
  destruct (negb (ds_sawdigits st)); [reflexivity|].
  destruct rest as [|c r]; [reflexivity|]. destruct Hh as [Hu [Hd Hi]].
  rewrite drop_us_cons by assumption.
  pose proof (uo_split _ _ _ _ _ H Hu) as H2. cbn [sisd] in Hi. rewrite Hi in H2.
  rewrite (exp_part_drop is_dec_digit r eq_refl eq_refl H2).
  cbv zeta beta iota.
  destruct (lower c =? 101); [|reflexivity].
  destruct (exp_part r) as [[e rest']|] eqn:Ex; [|reflexivity]. cbn [option_map].
  destruct rest' as [|x rest'']; [reflexivity|].
  destruct (drop_underscores (x :: rest'')) eqn:Ed; [|reflexivity].
  pose proof (exp_part_rest _ _ _ Ex Ed). discriminate.
Qed.

(** what decimal.set stores *)
Definition stored_of (M E : Z) (d : dec) : Prop :=
  let V := digits_val 10 (rev (d_digs d)) in
  0 <= d_nd d <= 800 /\ (0 < d_nd d -> 10 ^ (d_nd d - 1) <= V) /\ 0 <= V < 10 ^ d_nd d /\
  exists j tail, 0 <= j /\ M = V * 10 ^ j + tail /\ 0 <= tail < 10 ^ j /\
    (d_trunc d = false -> tail = 0) /\ (d_trunc d = true -> 0 < tail) /\
    d_dp d - d_nd d = E + j.

Lemma dec_core_us_free u mp ep D F e neg :
  break (is_char_ci 101) u = (mp, ep) ->
  mantissa_digits is_dec_digit mp = Some (D, F) ->
  match ep with None => e = 0 | Some et => signed_digits et = Some e /\ Z.abs e < 100000 end ->
  exists d, dec_set_core true u neg = Some d /\ d_neg d = neg /\ stored_of (digits_val 10 D) (e - F) d.
Proof.
  intros B Hm He.
  destruct (break_spec _ _ _ _ B) as [_ Hu].
  assert (Hrest : exists rest, u = mp ++ rest /\
                  match ep with None => rest = [] | Some et => exists m, is_char_ci 101 m = true /\ rest = m :: et end).
  { destruct ep as [et|].
    - destruct Hu as [m [Hmk ->]]. exists (m :: et). split; [reflexivity|eauto].
    - subst u. exists []. split; [now rewrite app_nil_r|reflexivity]. }
  destruct Hrest as [rest [-> Hrest]].
  assert (Hhead : match rest with c :: _ => Byte.eqb c c_us = false /\ Byte.eqb c c_dot = false /\ is_dec_digit c = false | [] => True end).
  { destruct ep as [et|]; [|now subst rest]. destruct Hrest as [m [Hmk ->]]. now apply (marker_facts false). }
  destruct (ds_mantissa mp D F rest Hm Hhead) as [st (E & Inv & Sg)].
  destruct Inv as (Hnd & Hlo & Hv & HF & j & tail & Hj & Hroom & HD & Ht & Htf & Htt & Hdp & Hnodot).
  assert (Hdpf : (if ds_sawdot st then ds_dp st else ds_nd st) + ds_dropped st - ds_nd st = j - F).
  { destruct (ds_sawdot st); [now apply Hdp|]. destruct (Hnodot eq_refl). lia. }
  unfold dec_set_core. fold ds0. rewrite E, Sg. cbn [negb]. cbv zeta.
  assert (Hst : forall dpx, dpx - ds_nd st = e - F + j ->
            stored_of (digits_val 10 D) (e - F) (mkDec (ds_rev st) (ds_nd st) dpx neg (ds_trunc st))).
  { intros dpx Hx. unfold stored_of. cbn [d_digs d_nd d_dp d_trunc]. fold (ds_val st).
    repeat (split; [first [assumption|lia]|]). exists j, tail. repeat (split; [first [assumption|lia]|]). lia. }
  destruct ep as [et|].
  - destruct Hrest as [m [Hmk ->]]. destruct He as [Hsd Habs].
    rewrite lower_e, Hmk, (exp_part_val et e Hsd Habs).
    eexists. split; [reflexivity|]. split; [reflexivity|]. apply Hst. lia.
  - subst e rest. eexists. split; [reflexivity|]. split; [reflexivity|]. apply Hst. lia.
Qed.

Theorem dec_set_value s neg M E :
  lex_float s = Some (LNum neg false M E) -> no_clamp s ->
  exists d, dec_set s = Some d /\ d_neg d = neg /\ stored_of M E d.
Proof.
  unfold lex_float, no_clamp, written_exponent. intros H Hnc.
  destruct (lex_special s) as [x|] eqn:Esp.
  { injection H as ->. now apply lex_special_not_num in Esp. }
  unfold lex_number in H. destruct s as [|c0 r0]; [discriminate H|].
  unfold dec_set. rewrite dec_set_eq, after_sign_eq, (sign_agrees c0 r0).
  destruct (split_sign (c0 :: r0)) as [sg r]. cbn [fst snd] in *.
  destruct (hex_prefix r) as [body|] eqn:Ehp.
  { unfold lex_hex in H. destruct (underscores_ok _ _ _); [|discriminate].
    destruct (break _ _) as [mp ep]. destruct (mantissa_digits _ _) as [[D F]|]; [|discriminate].
    destruct ep as [et|]; [|discriminate]. destruct (signed_digits et); discriminate. }
  unfold lex_decimal in H.
  destruct (underscores_ok is_dec_digit false r) eqn:Huo; [|discriminate].
  destruct (break (is_char_ci 101) (drop_underscores r)) as [mp ep] eqn:B.
  destruct (mantissa_digits is_dec_digit mp) as [[D F]|] eqn:Hm; [|discriminate].
  rewrite <- (dec_set_core_drop true false r _ Huo).
  cbn [expcode] in Hnc. rewrite B in Hnc. cbn [snd] in Hnc.
  destruct ep as [et|].
  - destruct (signed_digits et) as [e|] eqn:Hsd; [|discriminate].
    injection H as <- <- <-.
    apply (dec_core_us_free (drop_underscores r) mp (Some et) D F e (sign_neg sg) B Hm (conj Hsd Hnc)).
  - injection H as <- <- <-.
    apply (dec_core_us_free (drop_underscores r) mp None D F 0 (sign_neg sg) B Hm eq_refl).
Qed.

(** ** the slow path (conversion modelled by its specification) on stored digits *)
Local Instance Hprec53s : FLX.Prec_gt_0 53 := eq_refl _.
Local Instance Hmax1024s : Prec_lt_emax 53 1024 := eq_refl _.

Lemma ten331 : (bpow radix10 (-331) <= bpow radix2 (-1080))%R.
Proof.
  change (bpow radix10 (-331)) with (bpow radix10 (Z.opp 331)).
  change (bpow radix2 (-1080)) with (bpow radix2 (Z.opp 1080)).
  rewrite !bpow_opp. apply Rinv_le_contravar; [apply bpow_gt_0|].
  rewrite <- !IZR_Zpower by lia. apply IZR_le. vm_compute. discriminate.
Qed.

Lemma rn_b64_is neg m b2 e z : 0 <= m -> rounds_to neg (exact_value neg m b2 e) z -> rn_b64 neg m b2 e = z.
Proof. intros Hm H. eapply rounds_to_unique; [apply rn_b64_rounds; assumption|exact H]. Qed.

Theorem slow_path_value d neg M E :
  stored_of M E d -> d_trunc d = false -> d_neg d = neg ->
  dec_float_bits d = value_of_lexed (LNum neg false M E).
Proof.
  intros (Hnd & Hlo & Hv & j & tail & Hj & HM & Ht & Htf & _ & Hdp) Htr Hneg.
  specialize (Htf Htr). subst tail. rewrite Z.add_0_r in HM.
  set (V := digits_val 10 (rev (d_digs d))) in *.
  assert (Hp10 : 0 < 10 ^ j) by (apply Z.pow_pos_nonneg; lia).
  assert (HM0 : 0 <= M) by nia.
  unfold dec_float_bits. fold V. rewrite Htr, Hneg. cbn [value_of_lexed]. unfold rn_overflow.
  destruct (Z.eqb_spec (d_nd d) 0) as [E0|N0].
  { rewrite E0 in Hv. cbn in Hv. assert (HV0 : V = 0) by lia. rewrite HM, HV0, Z.mul_0_l. reflexivity. }
  assert (Hx : exact_value neg M false E = exact_value neg V false (d_dp d - d_nd d)).
  { rewrite HM, Hdp. now apply exact_value_scale10. }
  assert (HV1 : 10 ^ (d_nd d - 1) <= V) by (apply Hlo; lia).
  assert (Habs : Rabs (exact_value neg M false E) = (IZR V * bpow radix10 (d_dp d - d_nd d))%R).
  { rewrite Hx. apply abs_exact. lia. }
  destruct (Z.ltb_spec 310 (d_dp d)) as [Hbig|Hnb].
  { rewrite (rn_b64_is neg M false E (S754_infinity neg) HM0); [reflexivity|].
    apply inf_rounds. rewrite Habs.
    apply Rle_trans with (1 := two1024_le_ten310).
    apply Rle_trans with (bpow radix10 (d_dp d - 1)); [apply bpow_le; lia|].
    replace (d_dp d - 1) with ((d_nd d - 1) + (d_dp d - d_nd d)) by lia. rewrite bpow_plus.
    apply Rmult_le_compat_r; [apply bpow_ge_0|].
    rewrite <- IZR_Zpower by lia. apply IZR_le. exact HV1. }
  destruct (Z.ltb_spec (d_dp d) (-330)) as [Hsmall|Hns].
  { rewrite (rn_b64_is neg M false E (S754_zero neg) HM0); [reflexivity|].
    apply zero_rounds, rnd64_tiny. rewrite Habs.
    apply Rlt_le_trans with (bpow radix10 (d_dp d)).
    - replace (d_dp d) with (d_nd d + (d_dp d - d_nd d)) at 2 by lia. rewrite bpow_plus.
      apply Rmult_lt_compat_r; [apply bpow_gt_0|].
      rewrite <- IZR_Zpower by lia. apply IZR_lt. change (radix_val radix10) with 10. lia.
    - apply Rle_trans with (2 := ten331). apply bpow_le. lia. }
  assert (Hv' : rn_b64 neg V false (d_dp d - d_nd d) = rn_b64 neg M false E).
  { apply rn_b64_ext; [lia|assumption|now symmetry]. }
  now rewrite Hv'.
Qed.

(** * every decimal text whose significant digits fit the buffer *)
Theorem decimal_end_to_end s neg M E :
  lex_float s = Some (LNum neg false M E) -> no_clamp s ->
  (forall d, dec_set s = Some d -> d_trunc d = false) ->
  parse_float s = parse_float_spec s.
Proof.
  intros Hlex Hnc Hfit.
  assert (Hacc : code_accepts s = true) by (rewrite code_accepts_lex, Hlex; reflexivity).
  unfold code_accepts in Hacc. apply andb_true_iff in Hacc as [Hus _].
  assert (Hsp : special s = None).
  { rewrite special_spec. unfold lex_float in Hlex. destruct (lex_special s) as [x|] eqn:Es; [|reflexivity].
    injection Hlex as ->. now apply lex_special_not_num in Es. }
  destruct (read_float_value s neg false M E Hlex Hnc) as [r (Hrf & Hrn & Hrh & Hcut)].
  destruct (dec_set_value s neg M E Hlex Hnc) as [d (Hds & Hdn & Hst)].
  assert (Hslow : dec_float_bits d = parse_float_spec s).
  { unfold parse_float_spec. rewrite Hlex. apply slow_path_value; auto. }
  destruct (r_trunc r) eqn:Htr.
  - unfold parse_float, parse_float_gen, atof64_gen. rewrite Hus, Hsp. cbn [negb]. cbv zeta.
    rewrite Hrf, Hrh, Htr. fold dec_set. now rewrite Hds.
  - destruct (atof64exact (r_mant r) (r_exp r) (r_neg r)) as [f|] eqn:Hex.
    + destruct (exact_path_end_to_end s r f Hnc Hus Hsp Hrf Hrh Htr Hex) as [-> ->]. reflexivity.
    + unfold parse_float, parse_float_gen, atof64_gen. rewrite Hus, Hsp. cbn [negb]. cbv zeta.
      rewrite Hrf, Hrh, Htr, Hex. fold dec_set. now rewrite Hds.
Qed.

(** a syntax error carries the value 0 *)
Lemma parse_float_syntax_value s : snd (parse_float s) = ErrSyntax -> parse_float s = (b64_zero, ErrSyntax).
Proof.
  unfold parse_float, parse_float_gen. destruct (underscoreOK s); cbn [negb]; [|reflexivity].
  unfold atof64_gen. destruct (special s); [cbn; discriminate|]. cbv zeta.
  destruct (read_float s) as [r|].
  - destruct (r_hex r). { intros H. now apply atof_hex_not_syntax in H. }
    destruct (r_trunc r).
    + destruct (dec_set_gen true s); [intros H; now apply dec_float_bits_not_syntax in H|reflexivity].
    + destruct (atof64exact _ _ _); [cbn; discriminate|].
      destruct (dec_set_gen true s); [intros H; now apply dec_float_bits_not_syntax in H|reflexivity].
  - destruct (dec_set_gen true s); [intros H; now apply dec_float_bits_not_syntax in H|reflexivity].
Qed.

(** * ParseFloat = specification on every text that is not a hexadecimal number and
    whose significant digits fit the slow path's buffer *)
Theorem parse_float_correct_nonhex s :
  no_clamp s ->
  (forall d, dec_set s = Some d -> d_trunc d = false) ->
  (forall neg M E, lex_float s <> Some (LNum neg true M E)) ->
  parse_float s = parse_float_spec s.
Proof.
  intros Hnc Hfit Hnh.
  destruct (lex_float s) as [x|] eqn:Hlex.
  - assert (Hacc : code_accepts s = true) by (rewrite code_accepts_lex, Hlex; reflexivity).
    unfold code_accepts in Hacc. apply andb_true_iff in Hacc as [Hus _].
    destruct x as [n| |neg b2 M E].
    + unfold parse_float_spec. rewrite Hlex. cbn [value_of_lexed].
      unfold lex_float in Hlex. destruct (lex_special s) as [y|] eqn:Es.
      * injection Hlex as ->. unfold parse_float, parse_float_gen, atof64_gen.
        rewrite Hus, special_spec, Es. reflexivity.
      * apply lex_number_num in Hlex. destruct Hlex as (? & ? & ? & ? & ?). discriminate.
    + unfold parse_float_spec. rewrite Hlex. cbn [value_of_lexed].
      unfold lex_float in Hlex. destruct (lex_special s) as [y|] eqn:Es.
      * injection Hlex as ->. unfold parse_float, parse_float_gen, atof64_gen.
        rewrite Hus, special_spec, Es. reflexivity.
      * apply lex_number_num in Hlex. destruct Hlex as (? & ? & ? & ? & ?). discriminate.
    + destruct b2; [exfalso; now apply (Hnh neg M E)|].
      now apply (decimal_end_to_end s neg M E).
  - unfold parse_float_spec. rewrite Hlex. apply parse_float_syntax_value.
    now apply (syntax_iff_grammar true).
Qed.
