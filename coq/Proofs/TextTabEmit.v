(** Emission of one row: when every cell fits its span and the cells of the
    row are disjoint and in column order, the line is exactly
      gap, margin right-justified in the column's margin width, alignment
      padding, text
    per printed cell, with the margin starting at offs[col]. *)
From Perf Require Import Base.Bytes Model.Runes Model.TextTab Proofs.Runes Proofs.TextTabWidths.
Local Open Scope Z_scope.

Definition pad_of (a : align) (tw nv : Z) : Z :=
  match a with ALeft => 0 | ACenter => Z.quot (tw - nv) 2 | ARight => tw - nv end.

(** where the cell's text starts and ends (rune offsets in its line) *)
Definition text_start (offs lm : list Z) (c : cell) : Z :=
  getz offs (c_col c) + getz lm (c_col c) + pad_of (eff_align (c_align c) (c_val c)) (cell_tw offs lm c) (rune_count (c_val c)).
Definition cell_end (offs lm : list Z) (c : cell) : Z := text_start offs lm c + rune_count (c_val c).

Definition cell_pieces (offs lm : list Z) (off : Z) (c : cell) : list bytes :=
  [spaces (getz offs (c_col c) - off);
   spaces (getz lm (c_col c) - rune_count (c_margin c)); c_margin c;
   spaces (pad_of (eff_align (c_align c) (c_val c)) (cell_tw offs lm c) (rune_count (c_val c))); c_val c].

Fixpoint pieces (offs lm : list Z) (off : Z) (cs : list cell) : list bytes :=
  match cs with
  | [] => []
  | c :: r => cell_pieces offs lm off c ++ pieces offs lm (cell_end offs lm c) r
  end.

Definition width_of (ps : list bytes) : Z := sumz rune_count ps.

(** the cell fits: its margin in the column's margin width, margin + text in the span *)
Definition cell_fits (offs lm : list Z) (c : cell) : Prop :=
  rune_count (c_margin c) <= getz lm (c_col c) /\
  rune_count (c_val c) + getz lm (c_col c) <= getz offs (c_col c + c_span c) - getz offs (c_col c).

(** cells of a row, left to right, none starting before the previous one's span ends *)
Fixpoint chain (offs lm : list Z) (lo : Z) (cs : list cell) : Prop :=
  match cs with
  | [] => True
  | c :: r => lo <= getz offs (c_col c) /\ cell_fits offs lm c /\ chain offs lm (getz offs (c_col c + c_span c)) r
  end.

Lemma chain_weaken offs lm lo lo' cs : lo' <= lo -> chain offs lm lo cs -> chain offs lm lo' cs.
Proof. destruct cs as [|c r]; cbn [chain]; [auto|]. intros H [H1 H2]. split; [lia|exact H2]. Qed.

Lemma pad_bounds offs lm c : cell_fits offs lm c ->
  0 <= pad_of (eff_align (c_align c) (c_val c)) (cell_tw offs lm c) (rune_count (c_val c)) /\
  cell_end offs lm c <= getz offs (c_col c + c_span c).
Proof.
  intros [Hm Hf]. unfold cell_end, text_start, pad_of, cell_tw.
  pose proof (rune_count_nonneg (c_val c)) as Hv.
  set (tw := getz offs (c_col c + c_span c) - getz offs (c_col c) - getz lm (c_col c)).
  assert (Htw : rune_count (c_val c) <= tw) by (subst tw; lia).
  destruct (eff_align (c_align c) (c_val c)).
  - split; lia.
  - assert (0 <= Z.quot (tw - rune_count (c_val c)) 2) by (apply Z.quot_pos; lia).
    assert (Z.quot (tw - rune_count (c_val c)) 2 <= tw - rune_count (c_val c))
      by (apply Z.quot_le_upper_bound; lia).
    split; subst tw; lia.
  - split; subst tw; lia.
Qed.

(** right-aligned (non-blank) text ends exactly where its span ends *)
Lemma right_end offs lm c : c_align c = ARight -> all_blank (c_val c) = false ->
  cell_end offs lm c = getz offs (c_col c + c_span c).
Proof. intros H Hb. unfold cell_end, text_start, pad_of, cell_tw, eff_align. rewrite H, Hb. lia. Qed.

(** left-aligned text starts exactly after the column's margin *)
Lemma left_start offs lm c : c_align c = ALeft -> text_start offs lm c = getz offs (c_col c) + getz lm (c_col c).
Proof. intros H. unfold text_start, pad_of, eff_align. rewrite H. destruct (all_blank (c_val c)); lia. Qed.

(** a blank text is not padded: it follows the column's margin directly *)
Lemma blank_start offs lm c : all_blank (c_val c) = true ->
  text_start offs lm c = getz offs (c_col c) + getz lm (c_col c).
Proof. intros H. unfold text_start, pad_of, eff_align. rewrite H. lia. Qed.

Lemma fmt_pad_nil n : 0 <= n -> fmt_pad n [] = spaces n.
Proof.
  intros H. unfold fmt_pad. destruct (Z.leb_spec 0 n); [|lia].
  rewrite rune_count_nil, Z.sub_0_r, app_nil_r. reflexivity.
Qed.

Lemma fmt_pad_pos n s : 0 <= n -> fmt_pad n s = spaces (n - rune_count s) ++ s.
Proof. intros H. unfold fmt_pad. destruct (Z.leb_spec 0 n); [reflexivity|lia]. Qed.

Lemma spaces_0 : spaces 0 = [].
Proof. reflexivity. Qed.

Lemma emit_cell_spec offs lm off out c :
  off <= getz offs (c_col c) -> cell_fits offs lm c ->
  emit_cell offs lm (off, out) c = (cell_end offs lm c, out ++ concat (cell_pieces offs lm off c)).
Proof.
  intros Hoff Hfit. pose proof (pad_bounds offs lm c Hfit) as [Hp He]. destruct Hfit as [Hm Hf].
  pose proof (rune_count_nonneg (c_margin c)) as Hmn. pose proof (rune_count_nonneg (c_val c)) as Hvn.
  unfold emit_cell, cell_pieces. cbn [concat]. rewrite app_nil_r.
  rewrite fmt_pad_nil by lia. rewrite fmt_pad_pos by lia.
  assert (Hl : lpad (c_align c) (c_val c) (cell_tw offs lm c) =
               spaces (pad_of (eff_align (c_align c) (c_val c)) (cell_tw offs lm c) (rune_count (c_val c))) ++ c_val c).
  { unfold lpad, lpad_asis, pad_of, eff_align in *. destruct (all_blank (c_val c)); [reflexivity|].
    destruct (c_align c).
    - reflexivity.
    - rewrite fmt_pad_nil by exact Hp. reflexivity.
    - apply fmt_pad_pos. unfold cell_tw. lia. }
  rewrite Hl. rewrite rune_count_spaces_app. f_equal.
  - unfold cell_end, text_start. lia.
  - rewrite <- !app_assoc. reflexivity.
Qed.

Lemma emit_fold offs lm : forall cs off out,
  chain offs lm off cs ->
  snd (fold_left (emit_cell offs lm) cs (off, out)) = out ++ concat (pieces offs lm off cs).
Proof.
  induction cs as [|c r IH]; intros off out Hc; cbn [fold_left pieces].
  - cbn [concat snd]. rewrite app_nil_r. reflexivity.
  - destruct Hc as [H1 [H2 H3]]. rewrite emit_cell_spec by assumption.
    rewrite IH.
    + rewrite concat_app, app_assoc. reflexivity.
    + eapply chain_weaken; [|exact H3]. apply (pad_bounds offs lm c H2).
Qed.

Lemma emit_row_pieces offs lm cs : chain offs lm 0 cs -> emit_row offs lm cs = concat (pieces offs lm 0 cs).
Proof. intros H. unfold emit_row. rewrite emit_fold by exact H. reflexivity. Qed.

Lemma width_of_app a b : width_of (a ++ b) = width_of a + width_of b.
Proof. apply sumz_app. Qed.

Lemma width_cell_pieces offs lm off c : off <= getz offs (c_col c) -> cell_fits offs lm c ->
  off + width_of (cell_pieces offs lm off c) = cell_end offs lm c.
Proof.
  intros Ho Hf. pose proof (pad_bounds offs lm c Hf) as [Hp _]. destruct Hf as [Hm _].
  unfold width_of, sumz, cell_pieces. cbn [map fold_right]. rewrite !rune_count_spaces.
  unfold cell_end, text_start. lia.
Qed.

(** every printed cell's margin field starts at offs[col]: the pieces before it
    are exactly offs[col] runes wide *)
Lemma pieces_split offs lm : forall pre off c post,
  chain offs lm off (pre ++ c :: post) ->
  exists P, pieces offs lm off (pre ++ c :: post) =
            P ++ [spaces (getz lm (c_col c) - rune_count (c_margin c)); c_margin c;
                  spaces (pad_of (eff_align (c_align c) (c_val c)) (cell_tw offs lm c) (rune_count (c_val c))); c_val c]
              ++ pieces offs lm (cell_end offs lm c) post
         /\ off + width_of P = getz offs (c_col c).
Proof.
  induction pre as [|a pre IH]; intros off c post Hc.
  - exists [spaces (getz offs (c_col c) - off)]. cbn [app pieces cell_pieces]. split; [reflexivity|].
    destruct Hc as [H1 _]. unfold width_of, sumz. cbn [map fold_right]. rewrite rune_count_spaces. lia.
  - cbn [app chain] in Hc. destruct Hc as [H1 [H2 H3]].
    destruct (IH (cell_end offs lm a) c post) as [P [E W]].
    { eapply chain_weaken; [|exact H3]. apply (pad_bounds offs lm a H2). }
    exists (cell_pieces offs lm off a ++ P). cbn [app pieces]. rewrite E. split.
    + rewrite <- app_assoc. reflexivity.
    + rewrite width_of_app. pose proof (width_cell_pieces offs lm off a H1 H2). lia.
Qed.

Lemma chain_in offs lm : forall cs lo c, chain offs lm lo cs -> In c cs -> cell_fits offs lm c.
Proof.
  induction cs as [|a r IH]; intros lo c Hc []; cbn [chain] in Hc; destruct Hc as [_ [H2 H3]].
  - subst. exact H2.
  - eapply IH; eassumption.
Qed.

(** ** cells_at_offsets, at the level of the pieces Format writes *)
Theorem cells_at_offsets_pieces offs lm cs pre c post :
  chain offs lm 0 cs -> cs = pre ++ c :: post ->
  exists P Q,
    emit_row offs lm cs =
      concat P
      ++ (spaces (getz lm (c_col c) - rune_count (c_margin c)) ++ c_margin c)
      ++ (spaces (text_start offs lm c - getz offs (c_col c) - getz lm (c_col c)) ++ c_val c)
      ++ Q
    /\ width_of P = getz offs (c_col c)
    /\ getz offs (c_col c) + getz lm (c_col c) <= text_start offs lm c
    /\ cell_end offs lm c <= getz offs (c_col c + c_span c).
Proof.
  intros Hc ->. rewrite emit_row_pieces by exact Hc.
  destruct (pieces_split offs lm pre 0 c post Hc) as [P [E W]].
  exists P, (concat (pieces offs lm (cell_end offs lm c) post)).
  assert (Hf : cell_fits offs lm c) by (eapply chain_in; [exact Hc|apply in_elt]).
  destruct (pad_bounds offs lm c Hf) as [Hp He].
  repeat split; [|lia|unfold text_start; lia|exact He].
  rewrite E, !concat_app. cbn [concat]. rewrite app_nil_r, <- !app_assoc.
  unfold text_start.
  replace (getz offs (c_col c) + getz lm (c_col c) + pad_of (eff_align (c_align c) (c_val c)) (cell_tw offs lm c) (rune_count (c_val c))
           - getz offs (c_col c) - getz lm (c_col c))
    with (pad_of (eff_align (c_align c) (c_val c)) (cell_tw offs lm c) (rune_count (c_val c))) by lia.
  reflexivity.
Qed.

(** the same in rune offsets of the line, for well-formed UTF-8 cell texts *)
Definition cell_valid (c : cell) : Prop := valid_utf8 (c_margin c) = true /\ valid_utf8 (c_val c) = true.

Lemma valid_concat ps : Forall (fun p => valid_utf8 p = true) ps ->
  valid_utf8 (concat ps) = true /\ rune_count (concat ps) = width_of ps.
Proof.
  induction 1 as [|p ps Hp _ [IH1 IH2]]; cbn [concat].
  - split; reflexivity.
  - split; [apply valid_app; assumption|].
    rewrite rune_count_app_valid by exact Hp. rewrite IH2. reflexivity.
Qed.

Lemma pieces_valid offs lm : forall cs off, Forall cell_valid cs ->
  Forall (fun p => valid_utf8 p = true) (pieces offs lm off cs).
Proof.
  induction cs as [|c r IH]; intros off H; cbn [pieces]; [constructor|].
  inversion H as [|? ? [Hm Hv] Hr]; subst.
  unfold cell_pieces. repeat constructor; try apply valid_spaces; try assumption.
  apply IH. exact Hr.
Qed.

Lemma Forall_app_l {A} (P : A -> Prop) a b : Forall P (a ++ b) -> Forall P a.
Proof. intros H. apply Forall_app in H. tauto. Qed.

Theorem cells_at_offsets_runes offs lm cs pre c post :
  chain offs lm 0 cs -> Forall cell_valid cs -> cs = pre ++ c :: post ->
  exists A Q,
    emit_row offs lm cs =
      A ++ (spaces (getz lm (c_col c) - rune_count (c_margin c)) ++ c_margin c)
        ++ (spaces (text_start offs lm c - getz offs (c_col c) - getz lm (c_col c)) ++ c_val c)
        ++ Q
    /\ rune_count A = getz offs (c_col c)
    /\ valid_utf8 A = true.
Proof.
  intros Hc Hv ->. rewrite emit_row_pieces by exact Hc.
  destruct (pieces_split offs lm pre 0 c post Hc) as [P [E W]].
  assert (HP : Forall (fun p => valid_utf8 p = true) P).
  { eapply Forall_app_l. rewrite <- E. apply pieces_valid. exact Hv. }
  destruct (valid_concat P HP) as [V1 V2].
  exists (concat P), (concat (pieces offs lm (cell_end offs lm c) post)).
  repeat split; [|lia|exact V1].
  rewrite E, !concat_app. cbn [concat]. rewrite app_nil_r, <- !app_assoc. unfold text_start.
  replace (getz offs (c_col c) + getz lm (c_col c) + pad_of (eff_align (c_align c) (c_val c)) (cell_tw offs lm c) (rune_count (c_val c))
           - getz offs (c_col c) - getz lm (c_col c))
    with (pad_of (eff_align (c_align c) (c_val c)) (cell_tw offs lm c) (rune_count (c_val c))) by lia.
  reflexivity.
Qed.

(** ** no trailing blanks: a line ends with the text of its last printed cell and
    nothing is written after it. [tail_text]: the non-blank text the line ends
    with - the cell's text, or, when that is blank (empty included), the margin
    followed by the cell's own blank text (no alignment padding in between) *)
Definition tail_text (c : cell) : bytes :=
  if all_blank (c_val c) then c_margin c ++ c_val c else c_val c.

Theorem row_ends_with_last_cell offs lm cs pre c :
  chain offs lm 0 cs -> cs = pre ++ [c] ->
  exists X, emit_row offs lm cs = X ++ tail_text c.
Proof.
  intros Hc ->. rewrite emit_row_pieces by exact Hc.
  destruct (pieces_split offs lm pre 0 c [] Hc) as [P [E _]]. rewrite E. cbn [pieces].
  rewrite app_nil_r, concat_app. cbn [concat]. rewrite app_nil_r.
  unfold tail_text, eff_align. destruct (all_blank (c_val c)) eqn:Ev.
  - unfold pad_of. rewrite spaces_0. cbn [app].
    exists (concat P ++ spaces (getz lm (c_col c) - rune_count (c_margin c))).
    rewrite <- !app_assoc. reflexivity.
  - exists (concat P ++ spaces (getz lm (c_col c) - rune_count (c_margin c)) ++ c_margin c
                    ++ spaces (pad_of (c_align c) (cell_tw offs lm c) (rune_count (c_val c)))).
    rewrite <- !app_assoc. reflexivity.
Qed.

(** the text the line ends with is not blank: a printed cell has a non-blank
    text or a non-blank margin *)
Lemma tail_text_nonblank c : printed c = true ->
  if all_blank (c_val c) then all_blank (c_margin c) = false else True.
Proof.
  unfold printed. destruct (all_blank (c_val c)); [|trivial].
  cbn [andb]. intros H. apply Bool.negb_true_iff in H. exact H.
Qed.

Theorem empty_row_empty_line offs lm : emit_row offs lm [] = [].
Proof. reflexivity. Qed.
