(** One builder used incrementally behaves like fresh builders: whatever
    reordering of values inside cells the builds leave behind, every build of a
    history returns (up to the order of samples in denominator-less cells,
    [canon]) what a fresh builder over the results added so far returns. *)
From Coq Require Import Permutation.
From Perf Require Import Base.Bytes Base.Usort Model.Dates Model.Series Model.SeriesSpec Model.SeriesHist
     Proofs.Series Proofs.SeriesPerm Proofs.SeriesSpec.
Local Open Scope Z_scope.

Lemma cr_refl b : cells_reordered b b.
Proof. repeat split; auto. Qed.

Lemma cr_sym b b' : cells_reordered b b' -> cells_reordered b' b.
Proof. intros (H1 & H2 & H3 & H4 & H5). repeat split; intros k; auto using Permutation_sym. Qed.

Lemma cr_trans b b' b'' : cells_reordered b b' -> cells_reordered b' b'' -> cells_reordered b b''.
Proof.
  intros (H1 & H2 & H3 & H4 & H5) (G1 & G2 & G3 & G4 & G5).
  repeat split; intros k; try congruence; eapply perm_trans; eauto.
Qed.

Lemma perm_nil_case (l l' : list Z) : Permutation l l' ->
  (l = [] /\ l' = []) \/ (l <> [] /\ l' <> []).
Proof.
  intros HP. destruct l as [|x l].
  - apply Permutation_nil in HP. subst. now left.
  - right. split; [discriminate|]. intros ->. apply Permutation_sym, Permutation_nil in HP. discriminate.
Qed.

(** Builder.Add respects the relation *)
Lemma add_reordered b b' r : cells_reordered b b' -> cells_reordered (add b r) (add b' r).
Proof.
  intros (Ht & Hd & Hn & Hbh & Hh). unfold add.
  destruct (r_role r).
  - (* numerator *)
    destruct (perm_nil_case _ _ (Hn (nkey r))) as [[E E']|[E E']].
    + rewrite E, E'. repeat split; cbn; intros k; unfold upd; auto.
      * rewrite Ht. reflexivity.
      * destruct (keqb (nkey r) k); auto.
      * destruct (keqb [r_nh r] k); auto.
    + pose proof (Hn (nkey r)) as Hp.
      destruct (b_num b (nkey r)) as [|x l] eqn:E1; [congruence|].
      destruct (b_num b' (nkey r)) as [|x' l'] eqn:E2; [congruence|].
      repeat split; cbn; intros k; unfold upd; auto.
      * rewrite Ht. reflexivity.
      * destruct (keqb (nkey r) k); auto. exact (Permutation_app_tail [r_val r] Hp).
  - (* denominator *)
    destruct (perm_nil_case _ _ (Hd (tkey r))) as [[E E']|[E E']].
    + rewrite E, E'. repeat split; cbn; intros k; unfold upd; auto.
      * rewrite Ht. reflexivity.
      * destruct (keqb (tkey r) k); auto.
      * destruct (keqb (tkey r) k); auto.
    + pose proof (Hd (tkey r)) as Hp.
      destruct (b_den b (tkey r)) as [|x l] eqn:E1; [congruence|].
      destruct (b_den b' (tkey r)) as [|x' l'] eqn:E2; [congruence|].
      repeat split; cbn; intros k; unfold upd; auto.
      * rewrite Ht. reflexivity.
      * destruct (keqb (tkey r) k); auto. exact (Permutation_app_tail [r_val r] Hp).
  - repeat split; cbn; intros k; unfold upd; auto. rewrite Ht. reflexivity.
Qed.

Lemma kc_reordered b b' u t k : cells_reordered b b' -> orel ceqv (kc b u t k) (kc b' u t k).
Proof.
  intros (Ht & Hd & Hn & Hbh & Hh). destruct k as [[bench exp] h]. unfold kc. cbn [fst snd].
  destruct (normalize_date exp) as [date|]; cbn [orel]; auto.
  unfold test_contrib. rewrite <- Hh.
  destruct (b_h2o b [h]) as [ser|]; cbn [orel]; auto.
  destruct (normalize_date ser) as [s|]; cbn [orel]; auto.
  unfold ceqv. cbn [k_bench k_ser k_hash k_bh k_date k_num k_den]. rewrite Hbh. auto 10.
Qed.

(** a build does not see the order of the values inside the builder's cells *)
Theorem build_reordered combine b b' e : cells_reordered b b' ->
  canon (all_comparison_series combine b e) = canon (all_comparison_series combine b' e).
Proof.
  intros HR. unfold all_comparison_series, canon.
  apply omapM_ext_map. intros [u t]. unfold table_series. rewrite !table_contribs_flat.
  destruct (forallb date_ok (e_cells e u t)); [|reflexivity].
  pose proof (omapM_rel ceqv (kc b u t) (kc b' u t) (tkeys e u t) (fun k _ => kc_reordered b b' u t k HR)) as H.
  destruct (omapM (kc b u t) (tkeys e u t)) as [C|], (omapM (kc b' u t) (tkeys e u t)) as [C'|];
    cbn [orel] in H; try contradiction; cbn [option_map]; auto.
  f_equal. exact (table_out_ceqv combine u t _ C C' H).
Qed.

Lemma adds_snoc acc r : adds (acc ++ [r]) = add (adds acc) r.
Proof. unfold adds. now rewrite fold_left_app. Qed.

(** every build of a history of one builder = the build of a fresh builder over
    the results added so far *)
Theorem hist_as_fresh b ops outs : hrun b ops outs ->
  forall acc, cells_reordered (adds acc) b -> map canon outs = map canon (fresh_outs acc ops).
Proof.
  induction 1 as [b|b r ops outs Hrun IH|b c e b1 ops outs HR Hrun IH]; intros acc Hacc; cbn [fresh_outs map].
  - reflexivity.
  - apply IH. rewrite adds_snoc. now apply add_reordered.
  - f_equal.
    + symmetry. now apply build_reordered.
    + apply IH. eapply cr_trans; eauto.
Qed.

(** in particular: Add rs1, build (and summarise), Add rs2, build again - the
    second build is that of a fresh builder over rs1 ++ rs2 *)
Corollary second_build_as_fresh rs1 rs2 c1 e1 c2 e2 o1 o2 :
  hrun b_empty (map HAdd rs1 ++ HBuild c1 e1 :: map HAdd rs2 ++ [HBuild c2 e2]) [o1; o2] ->
  canon o1 = canon (all_comparison_series c1 (adds rs1) e1) /\
  canon o2 = canon (all_comparison_series c2 (adds (rs1 ++ rs2)) e2).
Proof.
  intros H. pose proof (hist_as_fresh _ _ _ H [] (cr_refl _)) as E.
  assert (F : forall l acc rest, fresh_outs acc (map HAdd l ++ rest) = fresh_outs (acc ++ l) rest).
  { induction l as [|x l IHl]; intros acc rest; cbn [map app fresh_outs].
    - now rewrite app_nil_r.
    - rewrite IHl. now rewrite <- app_assoc. }
  rewrite F in E. cbn [app fresh_outs] in E. rewrite F in E. cbn [fresh_outs map] in E.
  injection E as E1 E2. split; assumption.
Qed.

(** ... hence, for a well-formed set, the declarative series of rs1 ++ rs2 *)
Corollary second_build_meets_spec rs1 rs2 c1 e1 c2 e2 o1 o2 :
  hrun b_empty (map HAdd rs1 ++ HBuild c1 e1 :: map HAdd rs2 ++ [HBuild c2 e2]) [o1; o2] ->
  WFset (rs1 ++ rs2) -> valid_enum (adds (rs1 ++ rs2)) e2 ->
  canon o2 = spec_series c2 (rs1 ++ rs2).
Proof.
  intros H Hwf Hv.
  destruct (second_build_as_fresh _ _ _ _ _ _ _ _ H) as [_ ->].
  now apply series_meets_spec.
Qed.
