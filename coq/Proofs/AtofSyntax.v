(** syntax_iff_grammar: the scanners of the code (underscoreOK, special,
    readFloat, decimal.set) accept exactly the texts of the grammar [lex_float]
    (Base/DecSpec.v), so ParseFloat reports a syntax error exactly on the texts
    outside the grammar — "never a silently wrong number".

    Route: both sides are reduced to one abstract acceptor.
      code:  read_float / dec_set  accept  <->  [accepts] (mantissa scan + exponent tail)
      spec:  lex_decimal / lex_hex accept  <->  underscore rule && [spec_acc] of the
             text without underscores
      [accepts] = [spec_acc] on underscore-free texts (induction over the text),
      [accepts] is invariant under dropping underscores when the underscore rule holds,
      the code's underscoreOK state machine is the declarative underscore rule. *)
From Perf Require Import Base.Bytes Base.B64 Base.DecSpec Model.Atoi Model.Atof Proofs.Atoi.
Local Open Scope Z_scope.

(** ** character facts, by exhaustion over the 256 bytes *)
Definition cisd (hex : bool) (c : byte) : bool := code_is_dec_digit c || (hex && code_is_hex_letter c).
Definition sisd (hex : bool) : byte -> bool := if hex then is_hex_digit else is_dec_digit.

Lemma cisd_sisd hex c : cisd hex c = sisd hex c.
Proof. destruct hex; destruct c; reflexivity. Qed.

Lemma lower_e c : (lower c =? 101) = is_char_ci 101 c.
Proof. destruct c; reflexivity. Qed.
Lemma lower_p c : (lower c =? 112) = is_char_ci 112 c.
Proof. destruct c; reflexivity. Qed.
Lemma lower_x c : (lower c =? 120) = is_char_ci 120 c.
Proof. destruct c; reflexivity. Qed.

Definition expcode (hex : bool) : Z := if hex then 112 else 101.

(** a digit is neither '_', '.', a sign, nor the exponent marker *)
Lemma isd_facts hex c : sisd hex c = true ->
  Byte.eqb c c_us = false /\ Byte.eqb c c_dot = false /\ Byte.eqb c c_plus = false /\
  Byte.eqb c c_minus = false /\ is_char_ci (expcode hex) c = false.
Proof. destruct hex; destruct c; cbn; intros H; try discriminate H; repeat split. Qed.

Lemma marker_facts hex c : is_char_ci (expcode hex) c = true ->
  Byte.eqb c c_us = false /\ Byte.eqb c c_dot = false /\ sisd hex c = false.
Proof. destruct hex; destruct c; cbn; intros H; try discriminate H; repeat split. Qed.

Lemma us_not_marker hex : is_char_ci (expcode hex) c_us = false /\ is_char_ci (expcode hex) c_dot = false.
Proof. destruct hex; split; reflexivity. Qed.

(** ** the code's underscoreOK is the declarative underscore rule *)
Lemma cisd_us hex : cisd hex c_us = false.
Proof. destruct hex; reflexivity. Qed.

Lemma us_loop_uo hex r : forall sw, saw_is_us sw = false ->
  us_loop hex r sw = underscores_ok (cisd hex) (saw_is_digit sw) r.
Proof.
  induction r as [|c r IH]; intros sw Hs.
  - cbn. now rewrite Hs.
  - cbn [us_loop underscores_ok]. fold (cisd hex c). destruct (cisd hex c) eqn:Hd.
    + destruct (beqb_spec c c_us) as [->|_]; [rewrite cisd_us in Hd; discriminate|].
      now rewrite IH.
    + destruct (beqb_spec c c_us) as [->|Hn].
      * destruct (saw_is_digit sw); cbn [andb]; [|reflexivity].
        destruct r as [|d r']; [reflexivity|].
        cbn [us_loop]. fold (cisd hex d). destruct (cisd hex d) eqn:Hd2.
        -- cbn [andb]. specialize (IH SawStart eq_refl). cbn [us_loop] in IH. fold (cisd hex d) in IH.
           rewrite Hd2 in IH. exact IH.
        -- cbn [andb]. destruct (Byte.eqb d c_us); reflexivity.
      * rewrite Hs. now rewrite IH.
Qed.

Lemma uo_ext (f g : byte -> bool) : (forall c, f c = g c) -> forall r prev,
  underscores_ok f prev r = underscores_ok g prev r.
Proof.
  intros E. induction r as [|c r IH]; intros prev; [reflexivity|].
  cbn [underscores_ok]. destruct (Byte.eqb c c_us).
  - rewrite IH. destruct r; [reflexivity|]. now rewrite E.
  - now rewrite E, IH.
Qed.

Lemma strip_one_sign_eq s : strip_one_sign s = snd (split_sign s).
Proof.
  destruct s as [|c r]; [reflexivity|]. cbn.
  destruct (Byte.eqb c c_plus) eqn:Ep; destruct (Byte.eqb c c_minus) eqn:Em; reflexivity.
Qed.

(** ** the abstract acceptor *)

(** the mantissa scan: skips '_', allows one '.', stops at the first other non-digit *)
Fixpoint mscan (isd : byte -> bool) (t : bytes) (sawdot sawdig : bool) : option (bool * bool * bytes) :=
  match t with
  | [] => Some (sawdot, sawdig, [])
  | c :: r =>
      if Byte.eqb c c_us then mscan isd r sawdot sawdig
      else if Byte.eqb c c_dot then (if sawdot then None else mscan isd r true sawdig)
      else if isd c then mscan isd r sawdot true
      else Some (sawdot, sawdig, t)
  end.

Definition exp_ok (r : bytes) : bool :=
  match exp_part r with Some (_, []) => true | _ => false end.

Definition tail_ok (hex : bool) (rest : bytes) : bool :=
  match rest with
  | c :: r => if is_char_ci (expcode hex) c then exp_ok r else false
  | [] => negb hex
  end.

Definition accepts (hex : bool) (t : bytes) : bool :=
  match mscan (sisd hex) t false false with
  | Some (_, true, rest) => tail_ok hex rest
  | _ => false
  end.

(** *** readFloat's and decimal.set's loops project onto [mscan] *)
Lemma rf_digits_mscan hex mm t : forall st,
  option_map (fun '(st', rest) => (rf_sawdot st', rf_sawdigits st', rest)) (rf_digits hex mm t st)
  = mscan (sisd hex) t (rf_sawdot st) (rf_sawdigits st).
Proof.
  induction t as [|c r IH]; intros st; [reflexivity|].
  cbn [rf_digits mscan]. destruct (Byte.eqb c c_us); [apply IH|].
  destruct (Byte.eqb c c_dot).
  { destruct (rf_sawdot st); [reflexivity|]. now rewrite IH. }
  rewrite <- cisd_sisd. unfold cisd.
  destruct (code_is_dec_digit c); cbn [orb].
  { destruct (Byte.eqb c c_zero && (rf_nd st =? 0)); [now rewrite IH|].
    destruct (rf_ndMant st <? mm); now rewrite IH. }
  destruct (hex && code_is_hex_letter c); [|reflexivity].
  destruct (rf_ndMant st <? mm); now rewrite IH.
Qed.

Lemma set_digits_mscan t : forall st,
  option_map (fun '(st', rest) => (ds_sawdot st', ds_sawdigits st', rest)) (set_digits t st)
  = mscan (sisd false) t (ds_sawdot st) (ds_sawdigits st).
Proof.
  induction t as [|c r IH]; intros st; [reflexivity|].
  cbn [set_digits mscan]. destruct (Byte.eqb c c_us); [apply IH|].
  destruct (Byte.eqb c c_dot).
  { destruct (ds_sawdot st); [reflexivity|]. now rewrite IH. }
  cbn [sisd]. rewrite <- code_is_dec_digit_eq.
  destruct (code_is_dec_digit c); [|reflexivity].
  destruct (Byte.eqb c c_zero && (ds_nd st =? 0)); [now rewrite IH|].
  destruct (ds_nd st <? 800); now rewrite IH.
Qed.

Definition isSome {A} (o : option A) : bool := match o with Some _ => true | None => false end.

(** readFloat's base-prefix test *)
Definition code_prefix (t : bytes) : bool * bytes :=
  match t with
  | z :: x :: ((_ :: _) as b) => if Byte.eqb z c_zero && (lower x =? 120) then (true, b) else (false, t)
  | _ => (false, t)
  end.

Definition after_sign (s : bytes) : bytes :=
  match s with
  | c0 :: r0 => if Byte.eqb c0 c_plus || Byte.eqb c0 c_minus then r0 else s
  | [] => []
  end.

Lemma after_sign_eq s : after_sign s = snd (split_sign s).
Proof.
  destruct s as [|c r]; [reflexivity|]. cbn.
  destruct (Byte.eqb c c_plus); [reflexivity|]. destruct (Byte.eqb c c_minus); reflexivity.
Qed.

Definition read_float_core (hex : bool) (body : bytes) (neg : bool) : option rfloat :=
  let maxMantDigits := if hex then 16 else 19 in
  match rf_digits hex maxMantDigits body (mkRf 0 0 0 0 false false false) with
  | None => None
  | Some (st, rest) =>
      if negb (rf_sawdigits st) then None else
      let dp := if rf_sawdot st then rf_dp st else rf_nd st in
      let '(dp, ndMant) := if hex then (dp * 4, rf_ndMant st * 4) else (dp, rf_ndMant st) in
      let expChar := if hex then 112 else 101 in
      let after : option (Z * bytes) :=
        match rest with
        | c :: r => if lower c =? expChar then
                      match exp_part r with Some (e, rest') => Some (dp + e, rest') | None => None end
                    else if hex then None else Some (dp, rest)
        | [] => if hex then None else Some (dp, rest)
        end in
      match after with
      | Some (dp, []) =>
          let exp := if rf_mant st =? 0 then 0 else dp - ndMant in
          Some (mkRfloat (rf_mant st) exp neg (rf_trunc st) hex)
      | _ => None
      end
  end.

Lemma read_float_eq c0 r0 :
  read_float (c0 :: r0) =
  let '(hex, body) := code_prefix (after_sign (c0 :: r0)) in read_float_core hex body (Byte.eqb c0 c_minus).
Proof.
  unfold read_float, after_sign, code_prefix. cbv zeta.
  destruct (Byte.eqb c0 c_plus); destruct (Byte.eqb c0 c_minus); cbn [orb].
  1-3: (destruct r0 as [|z t1]; [reflexivity|]; destruct t1 as [|x t2]; [reflexivity|];
        destruct t2 as [|y b]; [reflexivity|];
        destruct (Byte.eqb z c_zero && (lower x =? 120)); reflexivity).
  destruct r0 as [|x t2]; [reflexivity|]. destruct t2 as [|y b]; [reflexivity|].
  destruct (Byte.eqb c0 c_zero && (lower x =? 120)); reflexivity.
Qed.

Lemma read_float_core_some hex body neg : isSome (read_float_core hex body neg) = accepts hex body.
Proof.
  unfold read_float_core.
  set (st0 := mkRf 0 0 0 0 false false false).
  pose proof (rf_digits_mscan hex (if hex then 16 else 19) body st0) as M.
  unfold accepts. change (rf_sawdot st0) with false in M. change (rf_sawdigits st0) with false in M.
  rewrite <- M.
  destruct (rf_digits hex (if hex then 16 else 19) body st0) as [[st rest]|]; [|reflexivity].
  cbn [option_map]. destruct (rf_sawdigits st); [|reflexivity]. cbn [negb].
  destruct rest as [|c r]; destruct hex; cbn [tail_ok expcode negb]; try reflexivity.
  - rewrite lower_p. destruct (is_char_ci 112 c); [|reflexivity].
    unfold exp_ok. destruct (exp_part r) as [[e [|x rest']]|]; reflexivity.
  - rewrite lower_e. destruct (is_char_ci 101 c); [|reflexivity].
    unfold exp_ok. destruct (exp_part r) as [[e [|x rest']]|]; reflexivity.
Qed.

Lemma read_float_some s : s <> [] ->
  isSome (read_float s) = let '(hex, body) := code_prefix (after_sign s) in accepts hex body.
Proof.
  intros Hne. destruct s as [|c0 r0]; [congruence|]. rewrite read_float_eq.
  destruct (code_prefix _) as [hex body]. apply read_float_core_some.
Qed.

Definition dec_set_core (fixed : bool) (t : bytes) (neg : bool) : option dec :=
  match set_digits t (mkDs [] 0 0 false false false 0) with
  | None => None
  | Some (st, rest) =>
      if negb (ds_sawdigits st) then None else
      let dp := if ds_sawdot st then ds_dp st else ds_nd st in
      let dp := if fixed then dp + ds_dropped st else dp in
      let after : option (Z * bytes) :=
        match rest with
        | c :: r => if lower c =? 101 then
                      match exp_part r with Some (e, rest') => Some (dp + e, rest') | None => None end
                    else Some (dp, rest)
        | [] => Some (dp, rest)
        end in
      match after with
      | Some (dp, []) => Some (mkDec (ds_rev st) (ds_nd st) dp neg (ds_trunc st))
      | _ => None
      end
  end.

Lemma dec_set_eq fixed c0 r0 :
  dec_set_gen fixed (c0 :: r0) = dec_set_core fixed (after_sign (c0 :: r0)) (Byte.eqb c0 c_minus).
Proof.
  unfold dec_set_gen, after_sign. cbv zeta.
  destruct (Byte.eqb c0 c_plus); destruct (Byte.eqb c0 c_minus); reflexivity.
Qed.

Lemma dec_set_core_some fixed t neg : isSome (dec_set_core fixed t neg) = accepts false t.
Proof.
  unfold dec_set_core.
  set (st0 := mkDs [] 0 0 false false false 0).
  pose proof (set_digits_mscan t st0) as M.
  unfold accepts. change (ds_sawdot st0) with false in M. change (ds_sawdigits st0) with false in M.
  rewrite <- M.
  destruct (set_digits t st0) as [[st rest]|]; [|reflexivity].
  cbn [option_map]. destruct (ds_sawdigits st); [|reflexivity]. cbn [negb].
  destruct rest as [|c r]; cbn [tail_ok expcode negb]; [reflexivity|].
  rewrite lower_e. destruct (is_char_ci 101 c); [|reflexivity].
  unfold exp_ok. destruct (exp_part r) as [[e [|x rest']]|]; reflexivity.
Qed.

Lemma dec_set_some fixed s : s <> [] -> isSome (dec_set_gen fixed s) = accepts false (after_sign s).
Proof.
  intros Hne. destruct s as [|c0 r0]; [congruence|]. rewrite dec_set_eq. apply dec_set_core_some.
Qed.

(** *** dropping underscores *)
Lemma drop_us_cons c r : Byte.eqb c c_us = false -> drop_underscores (c :: r) = c :: drop_underscores r.
Proof. intros H. unfold drop_underscores. cbn. now rewrite H. Qed.
Lemma drop_us_us r : drop_underscores (c_us :: r) = drop_underscores r.
Proof. reflexivity. Qed.

Lemma mscan_drop isd t : forall a b,
  mscan isd (drop_underscores t) a b =
  option_map (fun '(x, y, rest) => (x, y, drop_underscores rest)) (mscan isd t a b).
Proof.
  induction t as [|c r IH]; intros a b; [reflexivity|].
  destruct (beqb_spec c c_us) as [->|Hn].
  - rewrite drop_us_us. cbn [mscan]. change (Byte.eqb c_us c_us) with true. cbn. apply IH.
  - apply beqb_neq in Hn. rewrite drop_us_cons by assumption. cbn [mscan]. rewrite Hn.
    destruct (Byte.eqb c c_dot).
    { destruct a; [reflexivity|apply IH]. }
    destruct (isd c); [apply IH|]. cbn [option_map]. now rewrite drop_us_cons.
Qed.

Lemma mscan_rest isd t : forall a b a' b' rest, mscan isd t a b = Some (a', b', rest) ->
  (exists pre, t = pre ++ rest) /\
  match rest with c :: _ => Byte.eqb c c_us = false /\ Byte.eqb c c_dot = false /\ isd c = false | [] => True end.
Proof.
  induction t as [|c r IH]; intros a b a' b' rest H.
  - injection H as <- <- <-. split; [exists []; reflexivity|exact I].
  - cbn [mscan] in H. destruct (Byte.eqb c c_us) eqn:Eu.
    { destruct (IH _ _ _ _ _ H) as [[pre ->] Hh]. split; [exists (c :: pre); reflexivity|exact Hh]. }
    destruct (Byte.eqb c c_dot) eqn:Ed.
    { destruct a; [discriminate|].
      destruct (IH _ _ _ _ _ H) as [[pre ->] Hh]. split; [exists (c :: pre); reflexivity|exact Hh]. }
    destruct (isd c) eqn:Ei.
    { destruct (IH _ _ _ _ _ H) as [[pre ->] Hh]. split; [exists (c :: pre); reflexivity|exact Hh]. }
    injection H as <- <- <-. split; [exists []; reflexivity|auto].
Qed.

Lemma uo_split isd pre : forall prev c r,
  underscores_ok isd prev (pre ++ c :: r) = true -> Byte.eqb c c_us = false ->
  underscores_ok isd (isd c) r = true.
Proof.
  induction pre as [|x pre IH]; intros prev c r H Hc.
  - cbn [app underscores_ok] in H. now rewrite Hc in H.
  - cbn [app underscores_ok] in H. destruct (Byte.eqb x c_us).
    + apply andb_true_iff in H as [_ H]. now apply (IH false).
    + now apply (IH (isd x)).
Qed.

Lemma exp_digits_drop x : forall e,
  exp_digits (drop_underscores x) e = let '(e', rest) := exp_digits x e in (e', drop_underscores rest).
Proof.
  induction x as [|c r IH]; intros e; [reflexivity|].
  destruct (beqb_spec c c_us) as [->|Hn].
  - rewrite drop_us_us. cbn [exp_digits]. change (code_is_dec_digit c_us) with false.
    change (Byte.eqb c_us c_us) with true. cbn. apply IH.
  - apply beqb_neq in Hn. rewrite drop_us_cons by assumption. cbn [exp_digits].
    destruct (code_is_dec_digit c); [apply IH|]. rewrite Hn. now rewrite drop_us_cons.
Qed.

Lemma exp_digits_rest x : forall e e' rest, exp_digits x e = (e', rest) -> drop_underscores rest = [] -> rest = [].
Proof.
  induction x as [|c r IH]; intros e e' rest H Hd.
  - now injection H as <- <-.
  - cbn [exp_digits] in H. destruct (code_is_dec_digit c); [now apply (IH _ _ _ H)|].
    destruct (Byte.eqb c c_us) eqn:Eu; [now apply (IH _ _ _ H)|].
    injection H as <- <-. rewrite drop_us_cons in Hd by assumption. discriminate.
Qed.

(** the exponent part after its marker, when no underscore stands where a digit must *)
Definition head_not_us (r : bytes) : Prop := match r with c :: _ => Byte.eqb c c_us = false | [] => True end.

Lemma exp_body_drop (t : bytes) (k : Z) : head_not_us t ->
  match (match drop_underscores t with
         | d :: _ => if code_is_dec_digit d then let '(e, rest) := exp_digits (drop_underscores t) 0 in Some (e * k, rest) else None
         | [] => None end) with Some (_, []) => true | _ => false end
  = match (match t with
           | d :: _ => if code_is_dec_digit d then let '(e, rest) := exp_digits t 0 in Some (e * k, rest) else None
           | [] => None end) with Some (_, []) => true | _ => false end.
Proof.
  intros Hh. destruct t as [|d r]; [reflexivity|]. cbn in Hh.
  rewrite drop_us_cons by assumption. destruct (code_is_dec_digit d); [|reflexivity].
  rewrite <- (drop_us_cons d r Hh). rewrite exp_digits_drop.
  destruct (exp_digits (d :: r) 0) as [e rest] eqn:E.
  destruct rest as [|x rest'].
  - reflexivity.
  - destruct (drop_underscores (x :: rest')) eqn:Ed; [|reflexivity].
    pose proof (exp_digits_rest _ _ _ _ E Ed). discriminate.
Qed.

Lemma exp_ok_drop isd r : isd c_plus = false -> isd c_minus = false ->
  underscores_ok isd false r = true -> exp_ok (drop_underscores r) = exp_ok r.
Proof.
  intros Hp Hm H. unfold exp_ok, exp_part.
  destruct r as [|c r1]; [reflexivity|].
  assert (Hc : Byte.eqb c c_us = false).
  { destruct (Byte.eqb c c_us) eqn:E; [|reflexivity]. cbn [underscores_ok] in H. rewrite E in H. discriminate. }
  rewrite drop_us_cons by assumption.
  assert (Hr1 : (Byte.eqb c c_plus = true \/ Byte.eqb c c_minus = true) -> head_not_us r1).
  { intros Hs. cbn [underscores_ok] in H. rewrite Hc in H.
    assert (isd c = false) by (destruct Hs as [E|E]; apply beqb_eq in E; subst; assumption).
    rewrite H0 in H. destruct r1 as [|d r2]; [exact I|]. cbn. cbn [underscores_ok] in H.
    destruct (Byte.eqb d c_us); [discriminate|reflexivity]. }
  destruct (Byte.eqb c c_plus) eqn:Ep.
  { apply (exp_body_drop r1 1). apply Hr1. now left. }
  destruct (Byte.eqb c c_minus) eqn:Em.
  { apply (exp_body_drop r1 (-1)). apply Hr1. now right. }
  pose proof (exp_body_drop (c :: r1) 1 Hc) as X. rewrite drop_us_cons in X by assumption. exact X.
Qed.

Lemma sisd_signs hex : sisd hex c_plus = false /\ sisd hex c_minus = false.
Proof. destruct hex; split; reflexivity. Qed.

Lemma accepts_drop hex prev t : underscores_ok (sisd hex) prev t = true ->
  accepts hex (drop_underscores t) = accepts hex t.
Proof.
  intros H. unfold accepts. rewrite mscan_drop.
  destruct (mscan (sisd hex) t false false) as [[[a b] rest]|] eqn:M; [|reflexivity].
  cbn [option_map]. destruct b; [|reflexivity].
  destruct (mscan_rest _ _ _ _ _ _ _ M) as [[pre ->] Hh].
  destruct rest as [|c r]; [reflexivity|]. destruct Hh as [Hu [Hd Hi]].
  rewrite drop_us_cons by assumption. cbn [tail_ok].
  destruct (is_char_ci (expcode hex) c); [|reflexivity].
  pose proof (uo_split _ _ _ _ _ H Hu) as H2. rewrite Hi in H2.
  destruct (sisd_signs hex). now apply (exp_ok_drop (sisd hex)).
Qed.

(** ** on underscore-free texts the acceptor is the grammar *)
Definition us_free (u : bytes) : bool := forallb (fun c => negb (Byte.eqb c c_us)) u.

Lemma drop_us_free t : us_free (drop_underscores t) = true.
Proof.
  induction t as [|c r IH]; [reflexivity|]. unfold drop_underscores in *. cbn [filter].
  destruct (Byte.eqb c c_us) eqn:E; cbn [negb]; [exact IH|]. cbn. now rewrite E.
Qed.

Definition nonempty (l : bytes) : bool := negb (Nat.eqb (length l) 0).

Definition mant' (isd : byte -> bool) (sd sg : bool) (mp : bytes) : bool :=
  if sd then forallb isd mp && (sg || nonempty mp)
  else let '(ip, fpo) := break (is_char c_dot) mp in
       let fp := match fpo with Some f => f | None => [] end in
       forallb isd ip && forallb isd fp && (sg || negb (Nat.eqb (length ip + length fp) 0)).

Definition spec_acc' (hex sd sg : bool) (u : bytes) : bool :=
  let '(mp, ep) := break (is_char_ci (expcode hex)) u in
  mant' (sisd hex) sd sg mp &&
  match ep with None => negb hex | Some et => isSome (signed_digits et) end.

Definition accepts' (hex sd sg : bool) (u : bytes) : bool :=
  match mscan (sisd hex) u sd sg with
  | Some (_, true, rest) => tail_ok hex rest
  | _ => false
  end.

Lemma exp_digits_all x : us_free x = true -> forall e,
  (match snd (exp_digits x e) with [] => true | _ => false end) = forallb is_dec_digit x.
Proof.
  induction x as [|c r IH]; intros Hf e; [reflexivity|].
  cbn [us_free forallb] in Hf. apply andb_true_iff in Hf as [Hc Hf]. apply negb_true_iff in Hc.
  cbn [exp_digits forallb]. rewrite code_is_dec_digit_eq.
  destruct (is_dec_digit c); [now apply IH|]. now rewrite Hc.
Qed.

Lemma exp_body_spec (t : bytes) (k : Z) : us_free t = true ->
  match (match t with
         | d :: _ => if code_is_dec_digit d then let '(e, rest) := exp_digits t 0 in Some (e * k, rest) else None
         | [] => None end) with Some (_, []) => true | _ => false end
  = match t with [] => false | _ => forallb is_dec_digit t end.
Proof.
  intros Hf. destruct t as [|d r]; [reflexivity|].
  pose proof (exp_digits_all (d :: r) Hf 0) as H.
  rewrite code_is_dec_digit_eq. destruct (is_dec_digit d) eqn:Ed.
  - destruct (exp_digits (d :: r) 0) as [e rest]. cbn [snd] in H. rewrite <- H. destruct rest; reflexivity.
  - cbn [forallb]. now rewrite Ed.
Qed.

Lemma exp_ok_signed r : us_free r = true -> exp_ok r = isSome (signed_digits r).
Proof.
  intros Hf. unfold exp_ok, exp_part, signed_digits, split_sign.
  destruct r as [|c r1]; [reflexivity|].
  assert (Hf1 : us_free r1 = true) by (cbn [us_free forallb] in Hf; now apply andb_true_iff in Hf as [_ ?]).
  destruct (Byte.eqb c c_plus).
  { rewrite (exp_body_spec r1 1 Hf1). destruct r1; [reflexivity|].
    destruct (forallb is_dec_digit (b :: r1)); reflexivity. }
  destruct (Byte.eqb c c_minus).
  { rewrite (exp_body_spec r1 (-1) Hf1). destruct r1; [reflexivity|].
    destruct (forallb is_dec_digit (b :: r1)); reflexivity. }
  rewrite (exp_body_spec (c :: r1) 1 Hf). destruct (forallb is_dec_digit (c :: r1)); reflexivity.
Qed.

Lemma sisd_dot hex : sisd hex c_dot = false.
Proof. destruct hex; reflexivity. Qed.

Lemma accepts'_spec hex u : forall sd sg, us_free u = true -> accepts' hex sd sg u = spec_acc' hex sd sg u.
Proof.
  induction u as [|c u IH]; intros sd sg Hf.
  - unfold accepts', spec_acc', mant'. cbn. destruct sd, sg, hex; reflexivity.
  - cbn [us_free forallb] in Hf. apply andb_true_iff in Hf as [Hc Hf]. apply negb_true_iff in Hc.
    fold (us_free u) in Hf.
    unfold accepts', spec_acc'. cbn [mscan break]. rewrite Hc.
    destruct (Byte.eqb c c_dot) eqn:Ed.
    + apply beqb_eq in Ed. subst c. rewrite (proj2 (us_not_marker hex)).
      destruct (break (is_char_ci (expcode hex)) u) as [mp ep] eqn:B.
      destruct sd.
      * unfold mant'. cbn [forallb]. now rewrite sisd_dot.
      * fold (accepts' hex true sg u). rewrite IH by assumption. unfold spec_acc'. rewrite B.
        unfold mant'. cbn [break]. change (is_char c_dot c_dot) with true.
        cbn [forallb andb length Nat.add]. reflexivity.
    + destruct (sisd hex c) eqn:Ei.
      * destruct (isd_facts hex c Ei) as [_ [_ [_ [_ Hm]]]]. rewrite Hm.
        fold (accepts' hex sd true u). rewrite IH by assumption. unfold spec_acc'.
        destruct (break (is_char_ci (expcode hex)) u) as [mp ep]. f_equal.
        unfold mant'. destruct sd.
        -- cbn [forallb]. rewrite Ei. cbn [andb orb]. unfold nonempty. cbn [length Nat.eqb negb].
           now rewrite orb_true_r.
        -- cbn [break]. change (is_char c_dot c) with (Byte.eqb c c_dot). rewrite Ed.
           destruct (break (is_char c_dot) mp) as [ip fpo]. cbn [forallb]. rewrite Ei.
           cbn [andb orb length Nat.add Nat.eqb negb]. now rewrite orb_true_r.
      * destruct (is_char_ci (expcode hex) c) eqn:Em.
        -- rewrite <- (exp_ok_signed u Hf). unfold mant'.
           destruct sd, sg; cbn; try rewrite Em; reflexivity.
        -- destruct (break (is_char_ci (expcode hex)) u) as [mp ep].
           assert (Hm : mant' (sisd hex) sd sg (c :: mp) = false).
           { unfold mant'. destruct sd.
             - cbn [forallb]. now rewrite Ei.
             - cbn [break]. change (is_char c_dot c) with (Byte.eqb c c_dot). rewrite Ed.
               destruct (break (is_char c_dot) mp) as [ip fpo]. cbn [forallb]. now rewrite Ei. }
           rewrite Hm. destruct sg; cbn [tail_ok]; [now rewrite Em|reflexivity].
Qed.

Lemma accepts_spec hex u : us_free u = true -> accepts hex u = spec_acc' hex false false u.
Proof. apply (accepts'_spec hex u false false). Qed.

(** ** the grammar side *)
Lemma lex_decimal_some neg t :
  isSome (lex_decimal neg t) =
  underscores_ok is_dec_digit false t && spec_acc' false false false (drop_underscores t).
Proof.
  unfold lex_decimal, spec_acc', mant', mantissa_digits. cbn [expcode sisd negb].
  destruct (underscores_ok is_dec_digit false t); [|reflexivity]. cbn [andb].
  destruct (break (is_char_ci 101) (drop_underscores t)) as [mp ep].
  destruct (break (is_char c_dot) mp) as [ip fpo]. cbn [orb].
  match goal with |- context [if ?b then Some _ else None] => destruct b end; [|reflexivity].
  destruct ep as [et|]; [|reflexivity]. destruct (signed_digits et); reflexivity.
Qed.

Lemma lex_hex_some neg body :
  isSome (lex_hex neg body) =
  underscores_ok is_hex_digit true body && spec_acc' true false false (drop_underscores body).
Proof.
  unfold lex_hex, spec_acc', mant', mantissa_digits. cbn [expcode sisd negb].
  destruct (underscores_ok is_hex_digit true body); [|reflexivity]. cbn [andb].
  destruct (break (is_char_ci 112) (drop_underscores body)) as [mp ep].
  destruct (break (is_char c_dot) mp) as [ip fpo]. cbn [orb].
  match goal with |- context [if ?b then Some _ else None] => destruct b end.
  - destruct ep as [et|]; [|reflexivity]. destruct (signed_digits et); reflexivity.
  - destruct ep; reflexivity.
Qed.

(** the rule and the acceptor together, in one step *)
Lemma rule_accepts hex prev t :
  underscores_ok (sisd hex) prev t && spec_acc' hex false false (drop_underscores t)
  = underscores_ok (sisd hex) prev t && accepts hex t.
Proof.
  destruct (underscores_ok (sisd hex) prev t) eqn:H; [|reflexivity]. cbn [andb].
  rewrite <- (accepts_spec hex _ (drop_us_free t)). now apply (accepts_drop hex prev).
Qed.

(** ** inf / infinity / nan *)
Lemma bZ_plus c : (bZ c =? 43) = Byte.eqb c c_plus.
Proof. destruct c; reflexivity. Qed.
Lemma bZ_minus c : (bZ c =? 45) = Byte.eqb c c_minus.
Proof. destruct c; reflexivity. Qed.
Lemma lowerN_n c : ((bZ c =? 110) || (bZ c =? 78)) = (lowerN c =? 110).
Proof. destruct c; reflexivity. Qed.
Lemma lowerN_i c : ((bZ c =? 105) || (bZ c =? 73)) = (lowerN c =? 105).
Proof. destruct c; reflexivity. Qed.
Lemma lowerN_us c : (lowerN c =? 95) = Byte.eqb c c_us.
Proof. destruct c; reflexivity. Qed.

Lemma ieq_cons c r w0 w : ieq (c :: r) (w0 :: w) = (lowerN c =? bZ w0) && ieq r w.
Proof. reflexivity. Qed.

Lemma eic_ieq s w : map lowerN w = map bZ w -> equal_ignore_case s w = ieq s w.
Proof.
  intros H. transitivity (list_eqb Z.eqb (map lowerN s) (map lowerN w)); [reflexivity|].
  unfold ieq. now rewrite H.
Qed.

Definition special_value (x : lexed) : b64 :=
  match x with LInf n => S754_infinity n | _ => S754_nan end.

Lemma special_spec s : special s = option_map special_value (lex_special s).
Proof.
  destruct s as [|c r]; [reflexivity|].
  unfold special, lex_special, split_sign.
  rewrite bZ_plus, bZ_minus, lowerN_n, lowerN_i.
  rewrite !eic_ieq by reflexivity.
  change (bs "+inf") with (c_plus :: bs "inf"). change (bs "+infinity") with (c_plus :: bs "infinity").
  change (bs "-inf") with (c_minus :: bs "inf"). change (bs "-infinity") with (c_minus :: bs "infinity").
  destruct (beqb_spec c c_plus) as [->|Hp].
  { rewrite !ieq_cons. change (lowerN c_plus =? bZ c_plus) with true. cbn [andb sign_neg].
    destruct (ieq r (bs "inf") || ieq r (bs "infinity")); reflexivity. }
  destruct (beqb_spec c c_minus) as [->|Hm].
  { rewrite !ieq_cons. change (lowerN c_minus =? bZ c_minus) with true. cbn [andb sign_neg].
    destruct (ieq r (bs "inf") || ieq r (bs "infinity")); reflexivity. }
  change (bs "inf") with (x69 :: bs "nf"). change (bs "infinity") with (x69 :: bs "nfinity").
  change (bs "nan") with (x6e :: bs "an").
  rewrite !ieq_cons. change (bZ x69) with 105. change (bZ x6e) with 110.
  destruct (lowerN c =? 110) eqn:En.
  { apply Z.eqb_eq in En. rewrite En. change (110 =? 105) with false. cbn [andb orb sign_neg].
    destruct (ieq r (bs "an")); reflexivity. }
  destruct (lowerN c =? 105) eqn:Ei; cbn [andb orb sign_neg].
  { destruct (ieq r (bs "nf") || ieq r (bs "nfinity")); reflexivity. }
  reflexivity.
Qed.

(** texts without underscores satisfy the rule *)
Lemma uo_us_free isd r : us_free r = true -> forall prev, underscores_ok isd prev r = true.
Proof.
  induction r as [|c r IH]; intros Hf prev; [reflexivity|].
  cbn [us_free forallb] in Hf. apply andb_true_iff in Hf as [Hc Hf]. apply negb_true_iff in Hc.
  cbn [underscores_ok]. rewrite Hc. now apply IH.
Qed.

Lemma underscoreOK_us_free s : us_free s = true -> underscoreOK s = true.
Proof.
  intros Hf. unfold underscoreOK.
  assert (Ht : us_free (strip_one_sign s) = true).
  { destruct s as [|c r]; [reflexivity|]. cbn [strip_one_sign].
    destruct (Byte.eqb c c_minus || Byte.eqb c c_plus); [|exact Hf].
    cbn [us_free forallb] in Hf. now apply andb_true_iff in Hf as [_ ?]. }
  destruct (strip_one_sign s) as [|z [|x r]].
  - reflexivity.
  - rewrite us_loop_uo by reflexivity. now apply uo_us_free.
  - assert (Hr : us_free r = true).
    { cbn [us_free forallb] in Ht. apply andb_true_iff in Ht as [_ Ht]. now apply andb_true_iff in Ht as [_ ?]. }
    destruct (Byte.eqb z c_zero && ((lower x =? 98) || (lower x =? 111) || (lower x =? 120)));
      rewrite us_loop_uo by reflexivity; now apply uo_us_free.
Qed.

Lemma ieq_us_free r : forall w, ieq r w = true ->
  forallb (fun z => negb (z =? 95)) (map bZ w) = true -> us_free r = true.
Proof.
  induction r as [|c r IH]; intros w H Hw; [reflexivity|].
  destruct w as [|w0 w]; [discriminate|]. rewrite ieq_cons in H. apply andb_true_iff in H as [H0 H].
  cbn [map forallb] in Hw. apply andb_true_iff in Hw as [Hw0 Hw].
  cbn [us_free forallb]. fold (us_free r). rewrite (IH w H Hw), andb_true_r.
  apply Z.eqb_eq in H0. rewrite <- lowerN_us, H0. exact Hw0.
Qed.

Lemma lex_special_us_free s x : lex_special s = Some x -> us_free s = true.
Proof.
  unfold lex_special. destruct (split_sign s) as [sg r] eqn:Es.
  assert (Hs : us_free r = true -> us_free s = true).
  { intros Hr. destruct s as [|c s']; [reflexivity|]. cbn [split_sign] in Es.
    destruct (beqb_spec c c_plus) as [->|]; [injection Es as _ <-; exact Hr|].
    destruct (beqb_spec c c_minus) as [->|]; [injection Es as _ <-; exact Hr|].
    now injection Es as _ <-. }
  destruct (ieq r (bs "inf")) eqn:E1.
  { intros _. apply Hs. now apply (ieq_us_free r (bs "inf")). }
  destruct (ieq r (bs "infinity")) eqn:E2.
  { intros _. apply Hs. now apply (ieq_us_free r (bs "infinity")). }
  cbn [orb]. destruct sg; [discriminate|].
  destruct (ieq s (bs "nan")) eqn:E3; [|discriminate].
  intros _. now apply (ieq_us_free s (bs "nan")).
Qed.

(** ** the result parts that never report a syntax error *)
Lemma atof_hex_not_syntax m e neg tr : snd (atof_hex m e neg tr) <> ErrSyntax.
Proof.
  unfold atof_hex.
  destruct (hex_norm_up 64 m (e + mantbits)) as [m1 e1].
  destruct (hex_norm_down 64 (if tr then Z.lor m1 1 else m1) e1) as [m2 e2].
  destruct (hex_denorm 64 m2 e2 (f_bias + 1)) as [m3 e3].
  cbv zeta.
  repeat match goal with |- context [if ?b then _ else _] => destruct b; cbv beta iota end;
  cbn [snd]; discriminate.
Qed.

Lemma dec_float_bits_not_syntax d : snd (dec_float_bits d) <> ErrSyntax.
Proof.
  unfold dec_float_bits.
  repeat match goal with |- context [if ?b then _ else _] => destruct b end; cbn; discriminate.
Qed.

(** ** the code's verdict as one boolean *)
Definition code_accepts (s : bytes) : bool :=
  underscoreOK s &&
  (isSome (special s)
   || (let '(hex, body) := code_prefix (after_sign s) in hex && accepts hex body)
   || accepts false (after_sign s)).

Lemma read_float_core_hex hex body neg r : read_float_core hex body neg = Some r -> r_hex r = hex.
Proof.
  unfold read_float_core.
  destruct (rf_digits hex (if hex then 16 else 19) body (mkRf 0 0 0 0 false false false)) as [[st rest]|]; [|discriminate].
  destruct (negb (rf_sawdigits st)); [discriminate|].
  destruct hex; cbv zeta beta iota;
  repeat match goal with |- context [match ?x with _ => _ end] => destruct x end;
  try discriminate; intros [= <-]; reflexivity.
Qed.

Lemma code_prefix_false t b : code_prefix t = (false, b) -> b = t.
Proof.
  unfold code_prefix. destruct t as [|z [|x [|y t']]]; try (now intros [= <-]).
  destruct (Byte.eqb z c_zero && (lower x =? 120)); [discriminate|now intros [= <-]].
Qed.

Lemma parse_float_syntax_code fixed s :
  snd (parse_float_gen fixed s) = ErrSyntax <-> code_accepts s = false.
Proof.
  unfold parse_float_gen, code_accepts.
  destruct (underscoreOK s); cbn [negb andb]; [|split; reflexivity].
  unfold atof64_gen. destruct (special s) as [v|]; cbn [isSome orb].
  { split; [cbn; discriminate|discriminate]. }
  destruct s as [|c0 r0]; [split; reflexivity|].
  set (s := c0 :: r0) in *.
  pose proof (read_float_some s ltac:(discriminate)) as Hrf.
  pose proof (dec_set_some fixed s ltac:(discriminate)) as Hds.
  destruct (code_prefix (after_sign s)) as [hex body] eqn:Ecp.
  cbv zeta.
  destruct (read_float s) as [r|] eqn:Er; cbn [isSome] in Hrf.
  - assert (Hh : r_hex r = hex).
    { unfold s in Er. rewrite read_float_eq in Er. fold s in Er. rewrite Ecp in Er.
      now apply read_float_core_hex in Er. }
    rewrite Hh. destruct hex.
    + rewrite <- Hrf. cbn [andb orb]. split; [|discriminate].
      intros H. now apply atof_hex_not_syntax in H.
    + apply code_prefix_false in Ecp. subst body. rewrite <- Hrf. cbn [andb orb].
      rewrite <- Hrf in Hds. destruct (dec_set_gen fixed s) as [d|]; [|discriminate Hds].
      split; [|discriminate]. intros H. exfalso.
      destruct (r_trunc r); [now apply dec_float_bits_not_syntax in H|].
      destruct (atof64exact (r_mant r) (r_exp r) (r_neg r)); [discriminate H|].
      now apply dec_float_bits_not_syntax in H.
  - rewrite <- Hrf, andb_false_r. cbn [orb]. rewrite <- Hds.
    destruct (dec_set_gen fixed s) as [d|]; cbn [isSome].
    + split; [|discriminate]. intros H. now apply dec_float_bits_not_syntax in H.
    + split; reflexivity.
Qed.

(** ** the code's verdict is the grammar's *)
Lemma bo_prefix_facts x : (lower x =? 98) || (lower x =? 111) || (lower x =? 120) = true ->
  Byte.eqb x c_us = false /\ Byte.eqb x c_dot = false /\ is_dec_digit x = false /\ is_char_ci 101 x = false.
Proof. destruct x; cbn; intros H; try discriminate H; repeat split. Qed.

Lemma accepts_dec_prefixed x b : (lower x =? 98) || (lower x =? 111) || (lower x =? 120) = true ->
  accepts false (c_zero :: x :: b) = false.
Proof.
  intros H. destruct (bo_prefix_facts x H) as [Hu [Hd [Hi He]]]. unfold accepts. cbn [mscan sisd].
  change (Byte.eqb c_zero c_us) with false. change (Byte.eqb c_zero c_dot) with false.
  change (is_dec_digit c_zero) with true. cbn iota. rewrite Hu, Hd, Hi. cbn [tail_ok expcode]. now rewrite He.
Qed.

Lemma generic_dec neg r : us_loop false r SawStart && accepts false r = isSome (lex_decimal neg r).
Proof.
  rewrite lex_decimal_some. change is_dec_digit with (sisd false). rewrite rule_accepts.
  rewrite us_loop_uo by reflexivity. cbn [saw_is_digit]. f_equal. apply uo_ext. intros; apply cisd_sisd.
Qed.

Lemma generic_hex neg b : us_loop true b SawDigit && accepts true b = isSome (lex_hex neg b).
Proof.
  rewrite lex_hex_some. change is_hex_digit with (sisd true). rewrite rule_accepts.
  rewrite us_loop_uo by reflexivity. cbn [saw_is_digit]. f_equal. apply uo_ext. intros; apply cisd_sisd.
Qed.

Lemma code_accepts_lex s : code_accepts s = isSome (lex_float s).
Proof.
  unfold lex_float, code_accepts. rewrite special_spec.
  destruct (lex_special s) as [x|] eqn:Esp; cbn [option_map isSome orb].
  { rewrite underscoreOK_us_free by (eapply lex_special_us_free; eauto). reflexivity. }
  unfold lex_number, underscoreOK. rewrite strip_one_sign_eq, after_sign_eq.
  destruct (split_sign s) as [sg r]. cbn [snd]. set (neg := sign_neg sg).
  destruct r as [|z [|x b]].
  - cbn [hex_prefix code_prefix andb orb]. apply generic_dec.
  - cbn [hex_prefix code_prefix andb orb]. apply generic_dec.
  - cbn [hex_prefix]. rewrite <- lower_x.
    destruct (Byte.eqb z c_zero) eqn:Ez; cbn [andb].
    2:{ assert (Ecp : code_prefix (z :: x :: b) = (false, z :: x :: b)).
        { unfold code_prefix. destruct b; [reflexivity|]. now rewrite Ez. }
        rewrite Ecp. cbn [andb orb]. apply generic_dec. }
    apply beqb_eq in Ez. subst z.
    destruct (lower x =? 120) eqn:Ex.
    + (* hex prefix *)
      rewrite orb_true_r. rewrite (accepts_dec_prefixed x b) by (now rewrite Ex, orb_true_r).
      rewrite orb_false_r. destruct b as [|y b'].
      * cbn [code_prefix andb orb]. rewrite <- (generic_hex neg []). reflexivity.
      * assert (Ecp : code_prefix (c_zero :: x :: y :: b') = (true, y :: b')).
        { unfold code_prefix. change (Byte.eqb c_zero c_zero) with true. now rewrite Ex. }
        rewrite Ecp. cbn [andb orb]. apply generic_hex.
    + rewrite orb_false_r.
      assert (Ecp : code_prefix (c_zero :: x :: b) = (false, c_zero :: x :: b)).
      { unfold code_prefix. destruct b; [reflexivity|]. now rewrite Ex, andb_false_r. }
      rewrite Ecp. cbn [andb orb].
      destruct ((lower x =? 98) || (lower x =? 111)) eqn:Ebo.
      * rewrite (accepts_dec_prefixed x b) by (now rewrite Ebo). rewrite andb_false_r.
        rewrite <- generic_dec. rewrite (accepts_dec_prefixed x b) by (now rewrite Ebo).
        now rewrite andb_false_r.
      * apply generic_dec.
Qed.

(** * syntax_iff_grammar *)
Theorem syntax_iff_grammar fixed s :
  snd (parse_float_gen fixed s) = ErrSyntax <-> lex_float s = None.
Proof.
  rewrite parse_float_syntax_code, code_accepts_lex.
  destruct (lex_float s); cbn [isSome]; split; congruence.
Qed.

(** the specification reports a syntax error exactly there too *)
Corollary syntax_error_agrees fixed s :
  snd (parse_float_gen fixed s) = ErrSyntax <-> snd (parse_float_spec s) = ErrSyntax.
Proof.
  rewrite syntax_iff_grammar. unfold parse_float_spec.
  destruct (lex_float s) as [x|]; [|split; reflexivity].
  split; [discriminate|]. destruct x; cbn; try discriminate.
  destruct (rn_overflow _); discriminate.
Qed.
