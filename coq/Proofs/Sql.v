(** The relational evaluation of the generated SQL (Model/Sql.v) over ANY
    tables satisfying the declared constraints — the three PRIMARY KEYs and the
    two FOREIGN KEYs of createTmpl — returns exactly the records
    [Query.query_selects] selects, each once; and the listing statement returns
    the per-upload counts of those records in descending (Day, Seq, UploadID)
    order, uploads without one hidden, limited.

    A stored record, as the query layer sees it, is here read off the tables:
    its labels are the RecordLabels rows carrying its (UploadID, RecordID). *)
From Coq Require Import Permutation Sorted.
From Perf Require Import Base.Bytes Model.Words Model.Query Model.StoreFmt Model.Sql
     Proofs.Query Proofs.StoreFmt Proofs.SqlLists.

(** ** keys *)

Lemma key_eqb_spec (a b : key) : reflect (a = b) (key_eqb a b).
Proof.
  destruct a as [a1 a2], b as [b1 b2]. unfold key_eqb. cbn [fst snd].
  destruct (beq_spec a1 b1) as [->|H1]; [|constructor; congruence].
  destruct (N.eqb_spec a2 b2) as [->|H2]; constructor; congruence.
Qed.

Lemma key_eqb_sym a b : key_eqb a b = key_eqb b a.
Proof. destruct (key_eqb_spec a b), (key_eqb_spec b a); congruence. Qed.

Lemma beq_reflect (a b : bytes) : reflect (a = b) (beq a b).
Proof. apply beq_spec. Qed.

(** ** the constraints declared by createTmpl *)

Definition pk_labels (T : tables) : Prop := NoDup (map lr_pk (t_labels T)).
Definition pk_records (T : tables) : Prop := NoDup (map rr_key (t_records T)).
Definition pk_uploads (T : tables) : Prop := NoDup (map up_id (t_uploads T)).
Definition fk_labels (T : tables) : Prop :=
  forall r, In r (t_labels T) -> In (lr_key r) (map rr_key (t_records T)).
Definition fk_records (T : tables) : Prop :=
  forall r, In r (t_records T) -> In (rr_upload r) (map up_id (t_uploads T)).

Record constraints (T : tables) : Prop := mkCons {
  c_pkl : pk_labels T; c_pkr : pk_records T; c_pku : pk_uploads T;
  c_fkl : fk_labels T; c_fkr : fk_records T }.

(** ** a Records row as the query layer sees it *)

Definition labels_of (T : tables) (k : key) : labels :=
  map (fun r => (lr_name r, lr_value r)) (filter (fun r => key_eqb k (lr_key r)) (t_labels T)).

Definition qrec_of_row (T : tables) (r : rec_row) : qrec :=
  mkQrec (rr_upload r) (labels_of T (rr_key r)).

Definition row_selected (T : tables) (ps : list part) (r : rec_row) : bool :=
  query_selects ps (qrec_of_row T r).

Lemma nodup_lookup (l : labels) k v : NoDup (map fst l) -> In (k, v) l -> lookup k l = Some v.
Proof.
  induction l as [|[k' v'] l IH]; intros Hnd Hin; [destruct Hin|].
  inversion Hnd as [|? ? Hn Hnd']; subst. cbn [lookup]. destruct Hin as [E|Hin].
  - inversion E; subst. rewrite beq_refl. reflexivity.
  - destruct (beq_spec k' k) as [->|_]; [|exact (IH Hnd' Hin)].
    exfalso. apply Hn. change k with (fst (k, v)). apply in_map. exact Hin.
Qed.

(** one RecordLabels row per (record, label name): the labels read off the
    tables form a map *)
Lemma labels_of_nodup T k : pk_labels T -> NoDup (map fst (labels_of T k)).
Proof.
  intros Hpk. unfold labels_of. rewrite map_map. cbn [fst].
  apply (NoDup_map_filter lr_pk lr_name); [exact Hpk|].
  intros x y _ _ Hx Hy E. destruct (key_eqb_spec k (lr_key x)) as [Ex|]; [|discriminate].
  destruct (key_eqb_spec k (lr_key y)) as [Ey|]; [|discriminate].
  unfold lr_pk. unfold lr_key in Ex, Ey. rewrite E. congruence.
Qed.

Lemma lookup_labels_of T k n v :
  pk_labels T ->
  (lookup n (labels_of T k) = Some v <-> In (mkLr (fst k) (snd k) n v) (t_labels T)).
Proof.
  intros Hpk. split.
  - intros H. apply lookup_Some_In in H. unfold labels_of in H. apply in_map_iff in H as (r & E & Hr).
    apply filter_In in Hr as [Hr Hk]. destruct (key_eqb_spec k (lr_key r)) as [->|]; [|discriminate].
    destruct r as [u i n' v']. cbn in *. inversion E; subst. exact Hr.
  - intros H. apply nodup_lookup; [apply labels_of_nodup; exact Hpk|].
    unfold labels_of. apply in_map_iff. exists (mkLr (fst k) (snd k) n v). split; [reflexivity|].
    apply filter_In. split; [exact H|]. destruct k. cbn. unfold key_eqb. cbn. rewrite beq_refl, N.eqb_refl. reflexivity.
Qed.

(** ** one sub-select *)

(** the WHERE clause part.sql() writes, read column by column *)
Lemma part_sql_labels p s :
  part_sql p = Some s -> beq (p_key p) key_upload = false ->
  ss_src s = SrcLabels
  /\ forall r, where_lab (ss_where s) r = beq (lr_name r) (p_key p) && sql_value_cond p (lr_value r).
Proof.
  unfold part_sql. intros H Hk. rewrite Hk in H. unfold sql_value_cond, holds, blt, bgt.
  destruct (p_op p); [destruct (beq (p_v p) []) | | | destruct (beq (p_v p) [])];
    inversion H; subst; clear H; (split; [reflexivity|]); intros r;
    cbn [ss_where where_lab forallb a_col a_cmp a_arg lab_col atom_holds cmp_holds];
    rewrite ?andb_true_r; reflexivity.
Qed.

Lemma part_sql_upload p s :
  part_sql p = Some s -> beq (p_key p) key_upload = true ->
  ss_src s = SrcRecords /\ forall r, where_rec (ss_where s) r = holds p (rr_upload r).
Proof.
  unfold part_sql. intros H Hk. rewrite Hk in H. inversion H; subst; clear H. split; [reflexivity|].
  intros r. unfold holds, blt, bgt.
  destruct (p_op p); cbn [ss_where where_rec forallb a_col a_cmp a_arg rec_col atom_holds cmp_holds];
    rewrite ?andb_true_r; reflexivity.
Qed.

Lemma part_sql_ok p : (exists s, part_sql p = Some s) <-> sql_ok p = true.
Proof.
  unfold part_sql, sql_ok, op_eqb. destruct (beq (p_key p) key_upload); cbn [orb].
  - split; [reflexivity | intros _; eexists; reflexivity].
  - destruct (p_op p); cbn; try (split; [reflexivity | intros _; eexists; reflexivity]).
    + destruct (beq (p_v p) []); cbn; split; try reflexivity; try discriminate.
      * intros [s H]; discriminate H.
      * intros _; eexists; reflexivity.
    + destruct (beq (p_v p) []); split; try reflexivity; intros _; eexists; reflexivity.
Qed.

Section Tables.
Variable T : tables.
Hypothesis HC : constraints T.

(** which records a sub-select's rows name: exactly those its part selects *)
Lemma sub_mem p s k :
  part_sql p = Some s ->
  (In k (eval_sub T s) <->
   exists r, In r (t_records T) /\ rr_key r = k /\ part_selects p (qrec_of_row T r) = true).
Proof.
  intros Hs. unfold eval_sub, part_selects. destruct (beq (p_key p) key_upload) eqn:Ek.
  - destruct (part_sql_upload p s Hs Ek) as [-> Hw]. split.
    + intros H. apply in_map_iff in H as (r & E & Hr). apply filter_In in Hr as [Hr Hc].
      exists r. rewrite Hw in Hc. cbn [qrec_of_row q_upload]. auto.
    + intros (r & Hr & E & Hsel). apply in_map_iff. exists r. split; [exact E|].
      apply filter_In. split; [exact Hr|]. rewrite Hw. exact Hsel.
  - destruct (part_sql_labels p s Hs Ek) as [-> Hw]. split.
    + intros H. apply in_map_iff in H as (lr & E & Hr). apply filter_In in Hr as [Hr Hc].
      rewrite Hw in Hc. apply andb_true_iff in Hc as [Hn Hv]. apply beq_eq in Hn.
      pose proof (c_fkl T HC lr Hr) as Hfk. rewrite E in Hfk. apply in_map_iff in Hfk as (r & Er & Hrin).
      exists r. split; [exact Hrin|]. split; [exact Er|]. cbn [qrec_of_row q_labels]. rewrite Er.
      assert (Hl : lookup (p_key p) (labels_of T k) = Some (lr_value lr)).
      { apply lookup_labels_of; [exact (c_pkl T HC)|]. destruct lr as [u i n v]. cbn in *. subst. exact Hr. }
      rewrite Hl. exact Hv.
    + intros (r & Hr & E & Hsel). cbn [qrec_of_row q_labels] in Hsel. rewrite E in Hsel.
      destruct (lookup (p_key p) (labels_of T k)) as [v|] eqn:El; [|discriminate].
      apply lookup_labels_of in El; [|exact (c_pkl T HC)].
      apply in_map_iff. exists (mkLr (fst k) (snd k) (p_key p) v). split; [destruct k; reflexivity|].
      apply filter_In. split; [exact El|]. rewrite Hw. cbn [lr_name lr_value]. rewrite beq_refl. exact Hsel.
Qed.

(** ... each at most once *)
Lemma sub_nodup p s : part_sql p = Some s -> NoDup (eval_sub T s).
Proof.
  intros Hs. unfold eval_sub. destruct (beq (p_key p) key_upload) eqn:Ek.
  - destruct (part_sql_upload p s Hs Ek) as [-> _].
    apply (NoDup_map_filter rr_key rr_key); [exact (c_pkr T HC) | auto].
  - destruct (part_sql_labels p s Hs Ek) as [-> Hw].
    apply (NoDup_map_filter lr_pk lr_key); [exact (c_pkl T HC)|].
    intros x y _ _ Hx Hy E. rewrite Hw in Hx, Hy.
    apply andb_true_iff in Hx as [Hx _]. apply andb_true_iff in Hy as [Hy _].
    apply beq_eq in Hx, Hy. unfold lr_pk. unfold lr_key in E. congruence.
Qed.

(** ** the joins *)

Lemma inner_join_nodup l r :
  NoDup r -> inner_join l r = filter (fun a => existsb (key_eqb a) r) l.
Proof.
  intros Hr. unfold inner_join. induction l as [|a l IH]; cbn [flat_map filter]; [reflexivity|].
  rewrite IH. destruct (existsb (key_eqb a) r) eqn:E.
  - apply (existsb_eqb_In key_eqb key_eqb_spec) in E.
    assert (F : filter (key_eqb a) r = [a]).
    { apply (filter_unique (fun x : key => x) key_eqb key_eqb_spec r a); [rewrite map_id; exact Hr | exact E]. }
    rewrite F. reflexivity.
  - assert (Hn : ~ In a r) by (rewrite <- (existsb_eqb_In key_eqb key_eqb_spec), E; discriminate).
    assert (F : filter (key_eqb a) r = []).
    { apply (filter_absent (fun x : key => x) key_eqb key_eqb_spec r a). rewrite map_id. exact Hn. }
    rewrite F. reflexivity.
Qed.

Lemma fold_join_nodup rs : forall acc,
  Forall (@NoDup key) rs ->
  fold_left inner_join rs acc = filter (fun a => forallb (fun r => existsb (key_eqb a) r) rs) acc.
Proof.
  induction rs as [|r rs IH]; intros acc H; cbn [fold_left forallb].
  - symmetry. apply filter_all_id. reflexivity.
  - inversion H as [|? ? Hr Hrs]; subst. rewrite (IH _ Hrs), (inner_join_nodup _ _ Hr).
    apply filter_filter_and.
Qed.

Lemma parts_sql_Forall2 ps : forall subs,
  parts_sql ps = Some subs -> Forall2 (fun p s => part_sql p = Some s) ps subs.
Proof.
  induction ps as [|p ps IH]; intros subs H; cbn [parts_sql] in H.
  - inversion H. constructor.
  - destruct (part_sql p) as [s|] eqn:Es; [|discriminate].
    destruct (parts_sql ps) as [ss|]; [|discriminate]. inversion H; subst. constructor; auto.
Qed.

(** the INNER JOINs of all sub-selects: the keys of exactly the selected records, each once *)
Lemma join_subs_spec p0 ps s0 rest :
  part_sql p0 = Some s0 -> Forall2 (fun p s => part_sql p = Some s) ps rest ->
  NoDup (join_subs T s0 rest)
  /\ forall k, In k (join_subs T s0 rest) <->
       exists r, In r (t_records T) /\ rr_key r = k /\ row_selected T (p0 :: ps) r = true.
Proof.
  intros H0 Hrest. unfold join_subs.
  assert (Hnd : Forall (@NoDup key) (map (eval_sub T) rest)).
  { clear H0. induction Hrest as [|p s ps rest Hp _ IH]; cbn [map]; constructor; [|exact IH].
    exact (sub_nodup p s Hp). }
  rewrite (fold_join_nodup _ _ Hnd). split; [apply NoDup_filter; exact (sub_nodup p0 s0 H0)|].
  intros k. rewrite filter_In, (sub_mem p0 s0 k H0). unfold row_selected, query_selects. cbn [forallb].
  assert (Hall : forall r, In r (t_records T) -> rr_key r = k ->
            forallb (fun l => existsb (key_eqb k) l) (map (eval_sub T) rest)
            = forallb (fun p => part_selects p (qrec_of_row T r)) ps).
  { intros r Hr Ek. clear Hnd H0. induction Hrest as [|p s ps rest Hp _ IH]; cbn [map forallb]; [reflexivity|].
    rewrite IH. f_equal.
    destruct (part_selects p (qrec_of_row T r)) eqn:Esel.
    - apply (existsb_eqb_In key_eqb key_eqb_spec). apply (sub_mem p s k Hp). exists r. auto.
    - destruct (existsb (key_eqb k) (eval_sub T s)) eqn:Eex; [|reflexivity].
      apply (existsb_eqb_In key_eqb key_eqb_spec) in Eex. apply (sub_mem p s k Hp) in Eex as (r' & Hr' & Ek' & Hsel').
      assert (r' = r) by (apply (NoDup_map_inj_in rr_key (t_records T)); [exact (c_pkr T HC) | | | congruence]; assumption).
      subst r'. congruence. }
  split.
  - intros [(r & Hr & Ek & Hsel) Hf]. exists r. split; [exact Hr|]. split; [exact Ek|].
    rewrite Hsel. cbn [andb]. rewrite <- (Hall r Hr Ek). exact Hf.
  - intros (r & Hr & Ek & Hsel). apply andb_true_iff in Hsel as [H1 H2]. split; [exists r; auto|].
    rewrite (Hall r Hr Ek). exact H2.
Qed.

Lemma left_join_records_keys l :
  (forall r, In r l -> In r (t_records T)) ->
  left_join_records (map rr_key l) (t_records T) = map (fun r => (rr_key r, Some r)) l.
Proof.
  intros Hl. unfold left_join_records. rewrite flat_map_concat_map, map_map, <- flat_map_concat_map.
  rewrite <- flat_map_singleton. apply flat_map_ext_in'. intros r Hr.
  rewrite (filter_unique rr_key key_eqb key_eqb_spec (t_records T) r (c_pkr T HC) (Hl r Hr)). reflexivity.
Qed.

(** ** DB.Query *)

(** the FROM clause of Query and ListUploads: one row per selected record *)
Theorem from_joined_selected ps subs :
  parts_sql ps = Some subs ->
  Permutation (from_joined T subs)
              (map (fun r => (rr_key r, Some r)) (filter (row_selected T ps) (t_records T))).
Proof.
  intros H. apply parts_sql_Forall2 in H. destruct H as [|p0 s0 ps rest H0 Hrest]; cbn [from_joined].
  - rewrite filter_all_id by reflexivity. reflexivity.
  - destruct (join_subs_spec p0 ps s0 rest H0 Hrest) as [Hnd Hmem].
    set (sel := filter (row_selected T (p0 :: ps)) (t_records T)).
    assert (P : Permutation (join_subs T s0 rest) (map rr_key sel)).
    { apply NoDup_Permutation; [exact Hnd | |].
      - apply (NoDup_map_filter rr_key rr_key); [exact (c_pkr T HC) | auto].
      - intros k. rewrite Hmem. unfold sel. split.
        + intros (r & Hr & E & Hs). apply in_map_iff. exists r. split; [exact E|]. apply filter_In. auto.
        + intros Hin. apply in_map_iff in Hin as (r & E & Hr). apply filter_In in Hr as [Hr Hs]. exists r. auto. }
    unfold left_join_records at 1.
    eapply Permutation_trans; [apply Permutation_flat_map'; exact P|].
    fold (left_join_records (map rr_key sel) (t_records T)).
    rewrite left_join_records_keys; [reflexivity|]. intros r Hr. apply filter_In in Hr. tauto.
Qed.

(** THE SQL of DB.Query evaluated relationally returns the Content of exactly
    the records [query_selects] selects — each once, never NULL *)
Theorem sql_query_is_query_selects ps subs :
  parts_sql ps = Some subs ->
  Permutation (sql_query T subs)
              (map (fun r => Some (rr_content r)) (filter (row_selected T ps) (t_records T))).
Proof.
  intros H. unfold sql_query.
  eapply Permutation_trans; [apply Permutation_map; apply (from_joined_selected ps subs H)|].
  rewrite map_map. cbn [snd]. reflexivity.
Qed.

(** ** DB.ListUploads *)

(** the rows the listing should show before ORDER BY / LIMIT: per Uploads row
    the number of its selected records, rows with none dropped *)
Definition spec_rows (ps : list part) : list list_row :=
  filter (fun w => negb (lw_count w =? 0)%N)
    (map (fun u => mkLrow (up_id u)
            (N.of_nat (length (filter (fun r => beq (rr_upload r) (up_id u) && row_selected T ps r)
                                      (t_records T))))
            (Some (up_day u, up_seq u)))
         (t_uploads T)).

(** the sort key of a listing row *)
Definition rkey (w : list_row) : option (bytes * N) * bytes := (lw_daysq w, lw_id w).
Definition kcmp : (option (bytes * N) * bytes) -> (option (bytes * N) * bytes) -> comparison :=
  fun x y => lex' (opt_cmp (fun a b => lex' (bcmp (fst a) (fst b)) (N.compare (snd a) (snd b))) (fst x) (fst y))
                  (bcmp (snd x) (snd y)).

Lemma okcmp_kcmp : okcmp kcmp.
Proof.
  apply okcmp_pair; [|exact okcmp_bcmp]. apply okcmp_opt. apply okcmp_pair; [exact okcmp_bcmp | exact okcmp_N].
Qed.

Lemma row_cmp_kcmp a b : row_cmp a b = kcmp (rkey a) (rkey b).
Proof.
  unfold row_cmp, kcmp, rkey, daysq_cmp, opt_cmp, lex, lex'. cbn [fst snd].
  destruct (lw_daysq a) as [[d1 s1]|], (lw_daysq b) as [[d2 s2]|]; reflexivity.
Qed.

Lemma sort_desc_ext {A} (c c' : A -> A -> comparison) l :
  (forall a b, c a b = c' a b) -> sort_desc c l = sort_desc c' l.
Proof.
  intros H. induction l as [|x l IH]; cbn [sort_desc fold_right]; [reflexivity|].
  change (fold_right (insert_desc c) [] l) with (sort_desc c l).
  change (fold_right (insert_desc c') [] l) with (sort_desc c' l). rewrite IH.
  generalize (sort_desc c' l). intros m. induction m as [|y m IHm]; cbn [insert_desc]; [reflexivity|].
  rewrite H, IHm. reflexivity.
Qed.

(** rows with distinct UploadIDs: ORDER BY Day DESC, Seq DESC, UploadID DESC
    depends on the rows only as a bag *)
Lemma sort_rows_perm l l' :
  Permutation l l' -> NoDup (map lw_id l) -> sort_desc row_cmp l = sort_desc row_cmp l'.
Proof.
  intros P Hnd.
  rewrite (sort_desc_ext row_cmp (fun a b => kcmp (rkey a) (rkey b))) by apply row_cmp_kcmp.
  rewrite (sort_desc_ext row_cmp (fun a b => kcmp (rkey a) (rkey b)) l') by apply row_cmp_kcmp.
  apply (sortd_perm_eq kcmp rkey okcmp_kcmp); [exact P|].
  intros x y Hx Hy E. apply (NoDup_map_inj_in lw_id l); try assumption.
  unfold rkey in E. congruence.
Qed.

Lemma spec_rows_nodup ps : NoDup (map lw_id (spec_rows ps)).
Proof.
  unfold spec_rows. rewrite filter_map_comm, map_map. cbn [lw_id].
  apply (NoDup_map_filter up_id up_id); [exact (c_pku T HC) | auto].
Qed.

Lemma left_join_uploads_cons ic g ups :
  left_join_uploads (ic :: g) ups
  = match filter (fun u => beq (up_id u) (fst ic)) ups with
    | [] => [mkLrow (fst ic) (snd ic) None]
    | ms => map (fun u => mkLrow (fst ic) (snd ic) (Some (up_day u, up_seq u))) ms
    end ++ left_join_uploads g ups.
Proof. reflexivity. Qed.

(** the grouped, counted and Uploads-joined rows of the joined listing *)
Lemma list_rows_perm ps subs :
  parts_sql ps = Some subs ->
  let g := group_count (map (fun row : key * option rec_row => fst (fst row)) (from_joined T subs)) in
  let rows := left_join_uploads g (t_uploads T) in
  NoDup (map lw_id rows) /\ Permutation rows (spec_rows ps).
Proof.
  intros Hs g rows.
  set (sel := filter (row_selected T ps) (t_records T)).
  set (U := map rr_upload sel).
  (* counts per UploadID *)
  assert (HU : forall k, cnt k (map (fun row : key * option rec_row => fst (fst row)) (from_joined T subs)) = cnt k U).
  { intros k. apply cnt_perm. eapply Permutation_trans;
      [apply Permutation_map; apply (from_joined_selected ps subs Hs)|].
    unfold U, sel. rewrite map_map. cbn [fst rr_key]. reflexivity. }
  destruct (group_fold (map (fun row : key * option rec_row => fst (fst row)) (from_joined T subs)) [])
    as (Gnd & Gpos & Gget); [constructor | intros k n [] |]. fold g in Gnd, Gpos, Gget.
  assert (Gmem : forall k n, In (k, n) g <-> n = N.of_nat (cnt k U) /\ n <> 0%N).
  { intros k n. split.
    - intros Hin. split; [|exact (Gpos k n Hin)]. rewrite <- (gget_In g Gnd k n Hin), Gget, HU. cbn [gget]. lia.
    - intros [-> Hnz]. specialize (Gget k). rewrite HU in Gget. cbn [gget] in Gget. rewrite N.add_0_l in Gget.
      rewrite <- Gget in *. apply gget_nonzero_In. exact Hnz. }
  (* every grouped UploadID has its Uploads row *)
  assert (Gup : forall k n, In (k, n) g -> exists u, In u (t_uploads T) /\ up_id u = k).
  { intros k n Hin. apply Gmem in Hin as [-> Hnz].
    assert (Hk : In k U).
    { destruct (cnt k U) eqn:Ec; [cbn in Hnz; congruence|]. unfold cnt in Ec.
      destruct (filter (fun x => beq x k) U) as [|x f] eqn:Ef; [discriminate|].
      assert (Hx : In x (filter (fun x => beq x k) U)) by (rewrite Ef; left; reflexivity).
      apply filter_In in Hx as [Hx Hb]. apply beq_eq in Hb. subst x. exact Hx. }
    unfold U in Hk. apply in_map_iff in Hk as (r & <- & Hr). unfold sel in Hr. apply filter_In in Hr as [Hr _].
    pose proof (c_fkr T HC r Hr) as Hfk. apply in_map_iff in Hfk as (u & Eu & Hu). exists u. auto. }
  (* so the LEFT JOIN attaches exactly that row *)
  assert (Rmem : forall w, In w rows <->
            exists u, In u (t_uploads T) /\ In (up_id u, lw_count w) g
                      /\ w = mkLrow (up_id u) (lw_count w) (Some (up_day u, up_seq u))).
  { intros w. unfold rows, left_join_uploads. rewrite in_flat_map. split.
    - intros ([k n] & Hin & Hw). cbn [fst snd] in Hw. destruct (Gup k n Hin) as (u & Hu & <-).
      pose proof (filter_unique up_id beq beq_reflect (t_uploads T) u (c_pku T HC) Hu) as F.
      assert (F' : filter (fun u0 => beq (up_id u0) (up_id u)) (t_uploads T) = [u]).
      { rewrite <- F. apply filter_ext. intros a. destruct (beq_spec (up_id a) (up_id u)), (beq_spec (up_id u) (up_id a)); congruence. }
      rewrite F' in Hw. destruct Hw as [<-|[]]. exists u. cbn [lw_count]. auto.
    - intros (u & Hu & Hin & Ew). exists (up_id u, lw_count w). split; [exact Hin|]. cbn [fst snd].
      pose proof (filter_unique up_id beq beq_reflect (t_uploads T) u (c_pku T HC) Hu) as F.
      assert (F' : filter (fun u0 => beq (up_id u0) (up_id u)) (t_uploads T) = [u]).
      { rewrite <- F. apply filter_ext. intros a. destruct (beq_spec (up_id a) (up_id u)), (beq_spec (up_id u) (up_id a)); congruence. }
      rewrite F'. left. symmetry. exact Ew. }
  assert (Rnd : NoDup (map lw_id rows)).
  { unfold rows.
    assert (E : forall l, (forall ic, In ic l -> In ic g) ->
              map lw_id (left_join_uploads l (t_uploads T)) = map fst l).
    { induction l as [|[k n] l IHl]; intros Hl; [reflexivity|].
      rewrite left_join_uploads_cons, map_app, IHl by (intros ic Hic; apply Hl; right; exact Hic).
      cbn [map fst snd]. change (k :: map fst l) with ([k] ++ map fst l). f_equal.
      destruct (Gup k n (Hl _ (or_introl eq_refl))) as (u & Hu & <-).
      pose proof (filter_unique up_id beq beq_reflect (t_uploads T) u (c_pku T HC) Hu) as F.
      assert (F' : filter (fun u0 => beq (up_id u0) (up_id u)) (t_uploads T) = [u]).
      { rewrite <- F. apply filter_ext. intros a. destruct (beq_spec (up_id a) (up_id u)), (beq_spec (up_id u) (up_id a)); congruence. }
      rewrite F'. reflexivity. }
    rewrite E by auto. exact Gnd. }
  split; [exact Rnd|].
  apply NoDup_Permutation.
  - eapply NoDup_map_inv; exact Rnd.
  - eapply NoDup_map_inv; apply spec_rows_nodup.
  - intros w. rewrite Rmem. unfold spec_rows. rewrite filter_In, in_map_iff.
    assert (Hc : forall u, N.of_nat (length (filter (fun r => beq (rr_upload r) (up_id u) && row_selected T ps r) (t_records T)))
                           = N.of_nat (cnt (up_id u) U)).
    { intros u. unfold U, sel. rewrite cnt_map_filter. reflexivity. }
    split.
    + intros (u & Hu & Hin & Ew). apply Gmem in Hin as [Hn Hnz]. split.
      * exists u. split; [|exact Hu]. rewrite Hc, <- Hn. symmetry. exact Ew.
      * apply negb_true_iff, N.eqb_neq. exact Hnz.
    + intros [(u & Ew & Hu) Hnz]. apply negb_true_iff, N.eqb_neq in Hnz. exists u. split; [exact Hu|].
      rewrite Hc in Ew. subst w. cbn [lw_count] in *. split; [apply Gmem; auto | reflexivity].
Qed.

(** THE SQL of DB.ListUploads evaluated relationally: per upload the number of
    records [query_selects] selects, uploads without one dropped, ordered by
    (Day, Seq, UploadID) descending, then limited *)
Theorem sql_list_is_counts ps subs limit :
  parts_sql ps = Some subs ->
  sql_list_uploads T subs limit
  = map (fun w => (lw_id w, lw_count w)) (sql_limit limit (sort_desc row_cmp (spec_rows ps))).
Proof.
  intros Hs. unfold sql_list_uploads. destruct subs as [|s0 rest].
  - (* the optimised empty query *)
    destruct ps as [|p ps]; [|cbn [parts_sql] in Hs; destruct (part_sql p), (parts_sql ps); discriminate].
    unfold spec_rows, row_selected, query_selects. cbn [forallb].
    do 4 f_equal. apply map_ext. intros u. do 3 f_equal. apply filter_ext. intros r. rewrite andb_true_r. reflexivity.
  - destruct (list_rows_perm ps (s0 :: rest) Hs) as [Hnd HP]. cbv zeta in Hnd, HP.
    cbv beta iota zeta. do 2 f_equal. exact (sort_rows_perm _ _ HP Hnd).
Qed.

End Tables.
