(** Proofs about rows and their trimming (C08). *)
From Perf Require Import Base.Bytes Model.Name Model.Key.

Lemma is_nil_true {A} (l : list A) : is_nil l = true <-> l = [].
Proof. destruct l; cbn; split; congruence. Qed.

Lemma trim_nil_iff r : trim r = [] <-> forall i, nth i r [] = [].
Proof.
  induction r as [|x r IH]; cbn.
  - split; auto. intros _ [|i]; reflexivity.
  - destruct (trim r) as [|t ts] eqn:E.
    + destruct x as [|c x]; cbn.
      * split; auto. intros _ [|i]; cbn; auto. now apply IH.
      * split; [discriminate|]. intros H. specialize (H 0). discriminate.
    + split; [discriminate|]. intros H.
      assert (t :: ts = []) as Hc by (apply IH; intros i; apply (H (S i))). discriminate.
Qed.

Lemma trim_nth r i : nth i (trim r) [] = nth i r [].
Proof.
  revert i; induction r as [|x r IH]; intros i; cbn; auto.
  destruct (trim r) as [|t ts] eqn:E.
  - assert (Hr : forall j, nth j r [] = []) by now apply trim_nil_iff.
    destruct x as [|c x]; cbn.
    + destruct i as [|i]; cbn; rewrite ?Hr; auto.
    + destruct i as [|i]; cbn; auto. rewrite Hr. now destruct i.
  - destruct i; cbn; auto. exact (IH i).
Qed.

Lemma trim_length r : length (trim r) <= length r.
Proof.
  induction r as [|x r IH]; cbn; auto.
  destruct (trim r) as [|t ts]; [destruct (is_nil x)|]; cbn in *; lia.
Qed.

Lemma trim_ext a b : (forall i, nth i a [] = nth i b []) -> trim a = trim b.
Proof.
  revert b; induction a as [|x a IH]; intros b H.
  - cbn. symmetry. apply trim_nil_iff. intros i. rewrite <- H. now destruct i.
  - destruct b as [|y b].
    + transitivity (@nil bytes); [|reflexivity]. apply trim_nil_iff. intros i. rewrite H. now destruct i.
    + assert (x = y) as -> by apply (H 0).
      cbn. rewrite (IH b); auto. intros i. apply (H (S i)).
Qed.

Lemma trim_idem r : trim (trim r) = trim r.
Proof. apply trim_ext. intros i. apply trim_nth. Qed.

(** rows kept in keyNodes are trimmed: "no trailing empty string" *)
Definition trimmed (r : row) : Prop := trim r = r.

Lemma trimmed_last r : trimmed r -> r <> [] -> last r [] <> [].
Proof.
  unfold trimmed. induction r as [|x r IH]; [congruence|]. intros H _.
  cbn in H. destruct (trim r) as [|t ts] eqn:E.
  - destruct x as [|c x]; cbn in H; [discriminate|]. inversion H; subst. cbn. discriminate.
  - inversion H as [H1]. rewrite H1 in *.
    assert (last r [] <> []) as Hl by (apply IH; congruence).
    destruct r; [congruence|]. exact Hl.
Qed.

(** two trimmed rows that read the same at every index below a common bound
    on their lengths are the same row *)
Lemma trimmed_eq_of_gets a b n :
  trimmed a -> trimmed b -> length a <= n -> length b <= n ->
  (forall i, i < n -> vals_get a i = vals_get b i) -> a = b.
Proof.
  intros Ha Hb La Lb H. rewrite <- Ha, <- Hb. apply trim_ext. intros i.
  destruct (Nat.lt_ge_cases i n) as [Hi|Hi].
  - apply H; auto.
  - rewrite (nth_overflow a), (nth_overflow b) by lia. reflexivity.
Qed.

Lemma equal_row_eq a b : equal_row a b = true <-> a = b.
Proof. apply list_eqb_spec. apply beq_eq. Qed.
