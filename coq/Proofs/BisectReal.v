(** Real-number facts behind bisectBool (internal/stats/alg.go):
    the midpoint as coded, RN(RN(high + low) / 2), over binary64 (Flocq's
    FLT(-1074, 53) format; no overflow here, that is the caller's side).

      mid_exact      RN(RN(h+l)/2) = RN((h+l)/2): one rounding of the true midpoint
      mid_between    l <= mid <= h
      mid_collapse_iff_adjacent
                     mid = l \/ mid = h  <->  no binary64 value strictly between
      mid_shrink     while the interval is wide (64 G <= h - l, G = 2^-53 max(|l|,|h|)
                     + 2^-1075) both halves are at most 33/64 of it
      narrow_grid    otherwise every binary64 value of [l,h] is a multiple of
                     some 2^g with h - l <= 100 * 2^g
    Uses the standard library's classical real numbers. *)
From Coq Require Import ZArith Reals Lia Lra Bool.
From Flocq Require Import Core Plus_error Relative.
From Perf Require Import Proofs.B64Flocq Proofs.LegacyMean.
Local Open Scope R_scope.

Definition mid_real (l h : R) : R := RN (RN (h + l) / 2).

Lemma fexp64_eq e : fexp64 e = Z.max (e - 53) (-1074).
Proof. reflexivity. Qed.

(** halving commutes with rounding above the subnormal range *)
Lemma half_round x : bpow radix2 (-1021) <= Rabs x -> RN (x / 2) = RN x / 2.
Proof.
  intros Hx.
  assert (Zx : x <> 0).
  { intros ->. rewrite Rabs_R0 in Hx. pose proof (bpow_gt_0 radix2 (-1021)). lra. }
  assert (Hm : (-1020 <= mag radix2 x)%Z).
  { apply mag_ge_bpow. exact Hx. }
  replace (x / 2) with (x * bpow radix2 (-1)) by (cbn; lra).
  unfold round, F2R, scaled_mantissa, cexp. cbn [Fnum Fexp].
  rewrite (mag_mult_bpow radix2 x (-1) Zx).
  rewrite !fexp64_eq.
  replace (Z.max (mag radix2 x + -1 - 53) (-1074)) with (Z.max (mag radix2 x - 53) (-1074) + -1)%Z by lia.
  set (c := Z.max (mag radix2 x - 53) (-1074)).
  replace (x * bpow radix2 (-1) * bpow radix2 (- (c + -1))) with (x * bpow radix2 (- c)).
  - rewrite bpow_plus. cbn. lra.
  - replace (- (c + -1))%Z with (- c + 1)%Z by lia. rewrite Rmult_assoc, <- bpow_plus.
    f_equal. f_equal. lia.
Qed.

Lemma F64_RN x : F64 (RN x).
Proof. apply generic_format_round; typeclasses eauto. Qed.

(** the midpoint as coded is the correctly rounded true midpoint *)
Lemma mid_exact l h : F64 l -> F64 h -> mid_real l h = RN ((h + l) / 2).
Proof.
  intros Fl Fh. unfold mid_real.
  destruct (Rle_or_lt (Rabs (h + l)) (bpow radix2 (53 + -1074))) as [Hs|Hb].
  - rewrite (RN_id (h + l)); [reflexivity|].
    apply (FLT_format_plus_small radix2 (-1074) 53 h l Fh Fl Hs).
  - assert (Hb' : bpow radix2 (-1021) <= Rabs (h + l)) by (apply Rlt_le; exact Hb).
    rewrite <- (half_round _ Hb'). apply RN_id. apply F64_RN.
Qed.

Lemma mid_F64 l h : F64 (mid_real l h).
Proof. apply F64_RN. Qed.

Lemma mid_between l h : F64 l -> F64 h -> l <= h -> l <= mid_real l h <= h.
Proof.
  intros Fl Fh Hlh. rewrite (mid_exact l h Fl Fh). split.
  - rewrite <- (RN_id l Fl) at 1. apply RN_le. lra.
  - rewrite <- (RN_id h Fh) at 2. apply RN_le. lra.
Qed.

(** no binary64 value is closer to the true midpoint *)
Lemma mid_nearest l h y : F64 l -> F64 h -> F64 y ->
  Rabs (mid_real l h - (h + l) / 2) <= Rabs (y - (h + l) / 2).
Proof.
  intros Fl Fh Fy. rewrite (mid_exact l h Fl Fh).
  destruct (round_N_pt radix2 fexp64 (fun t => negb (Z.even t)) ((h + l) / 2)) as [_ H].
  apply H. exact Fy.
Qed.

Definition adjacentR (a b : R) : Prop := forall y, F64 y -> ~ (a < y < b).

(** what happens when the midpoint rounds to an endpoint: exactly when the
    ends are neighbouring binary64 values *)
Theorem mid_collapse_iff_adjacent l h : F64 l -> F64 h -> l < h ->
  (mid_real l h = l \/ mid_real l h = h) <-> adjacentR l h.
Proof.
  intros Fl Fh Hlh. split.
  - intros Hm y Fy [H1 H2].
    pose proof (mid_nearest l h y Fl Fh Fy) as Hn.
    assert (Hy : Rabs (y - (h + l) / 2) < (h - l) / 2).
    { apply Rabs_def1; lra. }
    destruct Hm as [E|E]; rewrite E in Hn.
    + rewrite Rabs_left in Hn by lra. lra.
    + rewrite Rabs_pos_eq in Hn by lra. lra.
  - intros Ha. pose proof (mid_between l h Fl Fh (Rlt_le _ _ Hlh)) as [H1 H2].
    destruct (Req_dec (mid_real l h) l) as [E|E]; [now left|].
    destruct (Req_dec (mid_real l h) h) as [E'|E']; [now right|].
    exfalso. apply (Ha (mid_real l h) (mid_F64 l h)). lra.
Qed.

(** ** error of the midpoint *)
Definition u64 : R := bpow radix2 (-53).
Definition eta64 : R := bpow radix2 (-1075).

Lemma RN_error x : Rabs (RN x - x) <= u64 * Rabs x + eta64.
Proof.
  destruct (error_N_FLT radix2 (-1074) 53 ltac:(lia) (fun t => negb (Z.even t)) x)
    as (eps & eta & He & Ht & _ & E).
  change (round radix2 (FLT_exp (-1074) 53) (Znearest (fun t => negb (Z.even t))) x) with (RN x) in E.
  rewrite E. replace (x * (1 + eps) + eta - x) with (x * eps + eta) by ring.
  eapply Rle_trans; [apply Rabs_triang|]. rewrite Rabs_mult.
  assert (Eu : / 2 * bpow radix2 (- (53) + 1) = u64).
  { unfold u64. change (- (53) + 1)%Z with (-52)%Z. change (-53)%Z with (-1 + -52)%Z.
    rewrite bpow_plus. change (bpow radix2 (-1)) with (/ 2). reflexivity. }
  assert (Et : / 2 * bpow radix2 (-1074) = eta64).
  { unfold eta64. change (-1075)%Z with (-1 + -1074)%Z.
    rewrite bpow_plus. change (bpow radix2 (-1)) with (/ 2). reflexivity. }
  rewrite Eu in He. rewrite Et in Ht.
  pose proof (Rabs_pos x) as Px.
  pose proof (Rmult_le_compat_l _ _ _ Px He). lra.
Qed.

Definition gap (l h : R) : R := u64 * Rmax (Rabs l) (Rabs h) + eta64.

Lemma u64_pos : 0 < u64. Proof. apply bpow_gt_0. Qed.
Lemma eta64_pos : 0 < eta64. Proof. apply bpow_gt_0. Qed.

Lemma mid_error l h : F64 l -> F64 h -> l <= h ->
  Rabs (mid_real l h - (h + l) / 2) <= gap l h.
Proof.
  intros Fl Fh Hlh. rewrite (mid_exact l h Fl Fh).
  eapply Rle_trans; [apply RN_error|]. unfold gap.
  apply Rplus_le_compat_r. apply Rmult_le_compat_l; [apply Rlt_le, u64_pos|].
  pose proof (Rmax_l (Rabs l) (Rabs h)). pose proof (Rmax_r (Rabs l) (Rabs h)).
  pose proof (Rle_abs l). pose proof (Rle_abs h).
  pose proof (Rle_abs (- l)). pose proof (Rle_abs (- h)). rewrite Rabs_Ropp in *.
  apply Rabs_le. lra.
Qed.

(** while the interval is wide both halves shrink to at most 33/64 *)
Theorem mid_shrink l h : F64 l -> F64 h -> l <= h -> 64 * gap l h <= h - l ->
  mid_real l h - l <= 33 / 64 * (h - l) /\ h - mid_real l h <= 33 / 64 * (h - l).
Proof.
  intros Fl Fh Hlh Hw. pose proof (mid_error l h Fl Fh Hlh) as He.
  apply Rabs_le_inv in He. lra.
Qed.

(** ** the grid of binary64 values in a narrow interval *)
Definition on_grid (g : Z) (y : R) : Prop := exists k : Z, y = IZR k * bpow radix2 g.

Lemma F64_on_grid g y : F64 y -> (y <> 0 -> (g <= cexp radix2 fexp64 y)%Z) -> on_grid g y.
Proof.
  intros Fy Hg. destruct (Req_dec y 0) as [->|Ny].
  - exists 0%Z. lra.
  - specialize (Hg Ny). unfold generic_format, F2R in Fy. cbn [Fnum Fexp] in Fy.
    set (m := Ztrunc (scaled_mantissa radix2 fexp64 y)) in *.
    set (c := cexp radix2 fexp64 y) in *.
    exists (m * radix_val radix2 ^ (c - g))%Z. rewrite mult_IZR.
    rewrite (IZR_Zpower radix2 (c - g)) by lia.
    rewrite Rmult_assoc, <- bpow_plus. replace (c - g + g)%Z with c by lia. exact Fy.
Qed.

Lemma cexp_ge_emin y : (-1074 <= cexp radix2 fexp64 y)%Z.
Proof. unfold cexp. rewrite fexp64_eq. lia. Qed.

Lemma cexp_mono x y : 0 < x -> x <= Rabs y -> (cexp radix2 fexp64 x <= cexp radix2 fexp64 y)%Z.
Proof.
  intros Hx Hxy. unfold cexp. apply fexp64_monotone.
  rewrite <- (mag_abs radix2 y). apply mag_le; assumption.
Qed.

Lemma grid_step g a b : on_grid g a -> on_grid g b -> a < b -> a + bpow radix2 g <= b.
Proof.
  intros [ka ->] [kb ->] H. pose proof (bpow_gt_0 radix2 g) as Hg.
  assert (ka < kb)%Z.
  { apply lt_IZR. apply Rmult_lt_reg_r with (1 := Hg). exact H. }
  assert (IZR ka + 1 <= IZR kb) by (rewrite <- plus_IZR; apply IZR_le; lia).
  nra.
Qed.

Lemma bpow_m47 : bpow radix2 (-47) = / 140737488355328.
Proof. reflexivity. Qed.

Lemma gap_scale l h : 64 * gap l h = bpow radix2 (-47) * Rmax (Rabs l) (Rabs h) + 32 * bpow radix2 (-1074).
Proof.
  unfold gap, u64, eta64.
  change (-53)%Z with (-47 + -6)%Z. change (-1075)%Z with (-1074 + -1)%Z. rewrite !bpow_plus.
  change (bpow radix2 (-6)) with (/ 64). change (bpow radix2 (-1)) with (/ 2). lra.
Qed.

Lemma below_bpow_cexp x : 0 < x -> x < bpow radix2 53 * bpow radix2 (cexp radix2 fexp64 x).
Proof.
  intros Hx. rewrite <- bpow_plus. unfold cexp. rewrite fexp64_eq.
  apply Rlt_le_trans with (bpow radix2 (mag radix2 x)).
  - destruct (mag radix2 x) as [e He]. cbn [mag_val].
    specialize (He ltac:(lra)). rewrite Rabs_pos_eq in He by lra. apply He.
  - apply bpow_le. lia.
Qed.

(** a narrow interval sits on a grid with at most 100 steps *)
Theorem narrow_grid l h : F64 l -> F64 h -> l < h -> h - l < 64 * gap l h ->
  exists g : Z,
    (forall y, F64 y -> l <= y <= h -> on_grid g y) /\ h - l <= 100 * bpow radix2 g.
Proof.
  intros Fl Fh Hlh Hn. rewrite gap_scale, bpow_m47 in Hn.
  destruct (Rlt_or_le 0 l) as [Pl|Nl].
  - (* 0 < l < h *)
    exists (cexp radix2 fexp64 l). split.
    + intros y Fy [H1 H2]. apply F64_on_grid; auto. intros _.
      apply cexp_mono; auto. rewrite Rabs_pos_eq; lra.
    + pose proof (below_bpow_cexp l Pl) as Hb. change (bpow radix2 53) with 9007199254740992 in Hb.
      assert (He : bpow radix2 (-1074) <= bpow radix2 (cexp radix2 fexp64 l)).
      { apply bpow_le. apply cexp_ge_emin. }
      rewrite !Rabs_pos_eq in Hn by lra. rewrite Rmax_right in Hn by lra.
      set (b := bpow radix2 (cexp radix2 fexp64 l)) in *. lra.
  - destruct (Rlt_or_le h 0) as [Nh|Ph].
    + (* l < h < 0 *)
      exists (cexp radix2 fexp64 h). split.
      * intros y Fy [H1 H2]. apply F64_on_grid; auto. intros _.
        unfold cexp at 1. rewrite <- mag_opp. fold (cexp radix2 fexp64 (- h)).
        apply cexp_mono; [lra|]. rewrite Rabs_left1; lra.
      * pose proof (below_bpow_cexp (- h) ltac:(lra)) as Hb.
        change (bpow radix2 53) with 9007199254740992 in Hb.
        unfold cexp in Hb at 1. rewrite mag_opp in Hb. fold (cexp radix2 fexp64 h) in Hb.
        assert (He : bpow radix2 (-1074) <= bpow radix2 (cexp radix2 fexp64 h)).
        { apply bpow_le. apply cexp_ge_emin. }
        rewrite !Rabs_left in Hn by lra. rewrite Rmax_left in Hn by lra.
        set (b := bpow radix2 (cexp radix2 fexp64 h)) in *. lra.
    + (* l <= 0 <= h *)
      exists (-1074)%Z. split.
      * intros y Fy _. apply F64_on_grid; auto. intros _. apply cexp_ge_emin.
      * assert (Hm : Rmax (Rabs l) (Rabs h) <= h - l).
        { apply Rmax_lub; [rewrite Rabs_left1|rewrite Rabs_pos_eq]; lra. }
        pose proof (bpow_gt_0 radix2 (-1074)). set (b := bpow radix2 (-1074)) in *.
        set (m := Rmax (Rabs l) (Rabs h)) in *. lra.
Qed.

(** every binary64 value is a multiple of 2^-1074 *)
Lemma finest_grid y : F64 y -> on_grid (-1074) y.
Proof. intros Fy. apply F64_on_grid; auto. intros _. apply cexp_ge_emin. Qed.

(** twice a binary64 value is in the (unbounded-exponent) format *)
Lemma F64_double x : F64 x -> F64 (2 * x).
Proof.
  intros Fx. rewrite fexp64_FLT in *.
  apply FLT_format_generic in Fx; [|exact b64_prec_gt_0].
  destruct Fx as [f Ef Hm He].
  apply generic_format_FLT. exists (Float radix2 (Fnum f) (Fexp f + 1)).
  - rewrite Ef. unfold F2R. cbn [Fnum Fexp]. rewrite bpow_plus. cbn. lra.
  - exact Hm.
  - cbn [Fexp]. lia.
Qed.
