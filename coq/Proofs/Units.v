(** Proofs about Model/Units.v: the position-based rewriting of
    tidyUnitUncached is the tokenwise rewrite; fast paths; idempotence;
    the reader, metadata and filter corollaries. *)
From Perf Require Import Base.Bytes Base.B64 Base.Utf8 Base.Unicode Model.Units.
Local Open Scope N_scope.

(** ** list helpers *)
Lemma firstn_app_len {A} (a b : list A) : firstn (length a) (a ++ b) = a.
Proof. apply firstn_app_exact. Qed.

Lemma skipn_app_len {A} (a b : list A) : skipn (length a) (a ++ b) = b.
Proof. rewrite skipn_app, skipn_all, Nat.sub_diag. reflexivity. Qed.

Lemma apply_edit_mid (a b c rep : bytes) :
  apply_edit (a ++ b ++ c) (length a, length b, rep) = a ++ rep ++ c.
Proof.
  unfold apply_edit. rewrite firstn_app_len. f_equal. f_equal.
  rewrite app_assoc. rewrite <- app_length. apply skipn_app_len.
Qed.

Section UnitsProofs.
Variable is_space : N -> bool.

Notation is_sep := (is_sep is_space).
Notation rw := (rw is_space).
Notation scales := (scales is_space).
Definition nonsep (c : chunk) : Prop := is_sep (fst c) = false.
Definition starts_sep (l : list chunk) : Prop :=
  l = [] \/ exists c l', l = c :: l' /\ is_sep (fst c) = true.

Lemma flush_nil d : flush d [] = [].
Proof. unfold flush. destruct d; reflexivity. Qed.
Lemma flush_scale_nil d : flush_scale d [] = [].
Proof. unfold flush_scale. destruct d; reflexivity. Qed.

(** ** the two loops of [next] *)
Lemma skip_seps_spec l : forall pos d,
  exists seps l1 d1,
    skip_seps is_space l pos d = (l1, (pos + length (flat seps))%nat, d1) /\
    l = seps ++ l1 /\
    rw l d [] = seps ++ rw l1 d1 [] /\
    scales l d [] = scales l1 d1 [] /\
    (l1 = [] \/ exists c l', l1 = c :: l' /\ nonsep c).
Proof.
  induction l as [|[r b] l IH]; intros pos d.
  - exists [], [], d. cbn. rewrite Nat.add_0_r. repeat split; auto.
  - cbn [skip_seps].
    assert (Hstep : forall d', is_sep r = true -> upd_denom r d = d' ->
      exists seps l1 d1,
        skip_seps is_space l (pos + length b) d' = (l1, (pos + length (flat seps))%nat, d1) /\
        (r, b) :: l = seps ++ l1 /\
        rw ((r, b) :: l) d [] = seps ++ rw l1 d1 [] /\
        scales ((r, b) :: l) d [] = scales l1 d1 [] /\
        (l1 = [] \/ exists c l', l1 = c :: l' /\ nonsep c)).
    { intros d' Hs Hd.
      destruct (IH (pos + length b)%nat d') as (seps & l1 & d1 & E & El & Er & Es & Eh).
      exists ((r, b) :: seps), l1, d1. rewrite E. repeat split; auto.
      - rewrite flat_cons, app_length. cbn [snd]. now rewrite Nat.add_assoc.
      - cbn. now rewrite El.
      - cbn [Units.rw fst]. rewrite Hs, flush_nil, Hd, Er. reflexivity.
      - cbn [Units.scales fst]. rewrite Hs, flush_scale_nil, Hd, Es. reflexivity. }
    destruct (r =? r_star) eqn:E1.
    { apply Hstep; unfold Units.is_sep, upd_denom; rewrite E1; reflexivity. }
    destruct (r =? r_slash) eqn:E2.
    { apply Hstep; unfold Units.is_sep, upd_denom; rewrite E1, E2; reflexivity. }
    destruct ((r =? r_dash) || is_space r) eqn:E3; cbn [negb].
    { apply Hstep; unfold Units.is_sep, upd_denom; rewrite E1, E2; [|reflexivity].
      cbn [orb]. apply orb_true_iff in E3 as [->| ->]; [reflexivity|apply orb_true_r]. }
    exists [], ((r, b) :: l), d. cbn [flat map concat length app]. rewrite Nat.add_0_r.
    repeat split; auto. right. exists (r, b), l. split; auto.
    unfold nonsep, Units.is_sep. cbn [fst]. rewrite E1, E2. cbn [orb].
    apply orb_false_iff in E3 as [-> ->]. reflexivity.
Qed.

Lemma take_tok_spec l :
  exists t l2, take_tok is_space l = (t, l2) /\ l = t ++ l2 /\ Forall nonsep t /\ starts_sep l2.
Proof.
  induction l as [|[r b] l IH].
  - exists [], []. cbn. repeat split; auto. now left.
  - cbn [take_tok]. destruct (is_sep r) eqn:E.
    + exists [], ((r, b) :: l). repeat split; auto. right. exists (r, b), l. auto.
    + destruct IH as (t & l2 & Et & El & Ef & Es). rewrite Et.
      exists ((r, b) :: t), l2. split; [reflexivity|]. split; [cbn; now rewrite El|].
      split; [constructor; auto|exact Es].
Qed.

Lemma take_tok_nonempty c l : nonsep c -> exists t l2, take_tok is_space (c :: l) = (c :: t, l2).
Proof.
  intros H. destruct c as [r b]. cbn [take_tok]. unfold nonsep in H. cbn [fst] in H. rewrite H.
  destruct (take_tok is_space l) as [t l2]. eauto.
Qed.

(** ** the specification: accumulating a token, ending a token *)
Lemma rw_app_nonsep t : forall m d acc, Forall nonsep t -> rw (t ++ m) d acc = rw m d (acc ++ t).
Proof.
  induction t as [|c t IH]; intros m d acc Hf.
  - now rewrite app_nil_r.
  - inversion Hf as [|? ? Hc Ht]; subst. cbn [app Units.rw]. rewrite Hc.
    rewrite IH by auto. now rewrite <- app_assoc.
Qed.

Lemma scales_app_nonsep t : forall m d acc, Forall nonsep t -> scales (t ++ m) d acc = scales m d (acc ++ t).
Proof.
  induction t as [|c t IH]; intros m d acc Hf.
  - now rewrite app_nil_r.
  - inversion Hf as [|? ? Hc Ht]; subst. cbn [app Units.scales]. rewrite Hc.
    rewrite IH by auto. now rewrite <- app_assoc.
Qed.

Lemma rw_flush_split m d t : starts_sep m -> rw m d t = flush d t ++ rw m d [].
Proof.
  intros [->|(c & l' & -> & Hc)].
  - cbn. now rewrite flush_nil, app_nil_r.
  - cbn [Units.rw]. rewrite Hc, flush_nil. reflexivity.
Qed.

Lemma scales_flush_split m d t : starts_sep m -> scales m d t = flush_scale d t ++ scales m d [].
Proof.
  intros [->|(c & l' & -> & Hc)].
  - cbn. now rewrite flush_scale_nil, app_nil_r.
  - cbn [Units.scales]. rewrite Hc, flush_scale_nil. reflexivity.
Qed.

(** ** tidyUnitUncached computes the tokenwise rewrite *)
Lemma tokens_edits n : forall l pos d pre f es f',
  (length l < n)%nat -> length pre = pos ->
  collect (tokens_fuel is_space n l pos d) f = (es, f') ->
  apply_edits (pre ++ flat l) es = pre ++ flat (rw l d []) /\
  f' = fold_left apply_scale (scales l d []) f.
Proof.
  induction n as [|n IH]; intros l pos d pre f es f' Hn Hpre Hc; [lia|].
  cbn [tokens_fuel] in Hc.
  destruct (skip_seps_spec l pos d) as (seps & l1 & d1 & E & El & Er & Es & Eh).
  rewrite E in Hc. rewrite Er, Es.
  destruct Eh as [->|(c & l1' & -> & Hns)].
  - cbn in Hc. injection Hc as <- <-. cbn [apply_edits fold_right].
    cbn [Units.rw Units.scales]. rewrite flush_nil, flush_scale_nil, app_nil_r.
    rewrite El, app_nil_r. auto.
  - destruct (take_tok_spec (c :: l1')) as (t & l2 & Et & Etl & Ef & Ess).
    destruct (take_tok_nonempty c l1' Hns) as (t0 & l20 & Et0).
    rewrite Et0 in Et. injection Et as <- <-.
    rewrite Et0 in Hc.
    rewrite Etl. rewrite rw_app_nonsep, scales_app_nonsep by auto. cbn [app].
    rewrite rw_flush_split, scales_flush_split by auto.
    set (t := c :: t0) in *.
    assert (Hlen : (length l20 < n)%nat).
    { rewrite El, Etl in Hn. rewrite !app_length in Hn. subst t. cbn [length] in Hn. lia. }
    assert (Hu : pre ++ flat l = ((pre ++ flat seps) ++ flat t) ++ flat l20).
    { rewrite El, Etl. rewrite !flat_app. now rewrite !app_assoc. }
    assert (Hp : length ((pre ++ flat seps) ++ flat t) = (pos + length (flat seps) + length (flat t))%nat).
    { rewrite !app_length. lia. }
    cbn [collect] in Hc.
    unfold flush, flush_scale.
    destruct d1.
    { destruct (IH _ _ _ _ _ _ _ Hlen Hp Hc) as [H1 H2]. rewrite Hu, H1. split.
      - rewrite !flat_app. now rewrite !app_assoc.
      - exact H2. }
    destruct (beq (flat t) tok_ns) eqn:Bn.
    { destruct (collect _ (b64_div f f_1e9)) as [es1 f1] eqn:Hc1. injection Hc as <- <-.
      destruct (IH _ _ _ _ _ _ _ Hlen Hp Hc1) as [H1 H2]. split; [|exact H2].
      cbn [apply_edits fold_right]. fold (apply_edits (pre ++ flat l) es1).
      rewrite Hu, H1. apply beq_eq in Bn.
      replace 2%nat with (length (flat t)) by now rewrite Bn.
      replace (pos + length (flat seps))%nat with (length (pre ++ flat seps)) by (rewrite app_length; lia).
      rewrite <- app_assoc. rewrite apply_edit_mid.
      rewrite !flat_app, flat_achunks. now rewrite !app_assoc. }
    destruct (beq (flat t) tok_MB) eqn:Bm.
    { destruct (collect _ (b64_mul f f_1e6)) as [es1 f1] eqn:Hc1. injection Hc as <- <-.
      destruct (IH _ _ _ _ _ _ _ Hlen Hp Hc1) as [H1 H2]. split; [|exact H2].
      cbn [apply_edits fold_right]. fold (apply_edits (pre ++ flat l) es1).
      rewrite Hu, H1. apply beq_eq in Bm.
      replace 2%nat with (length (flat t)) by now rewrite Bm.
      replace (pos + length (flat seps))%nat with (length (pre ++ flat seps)) by (rewrite app_length; lia).
      rewrite <- app_assoc. rewrite apply_edit_mid.
      rewrite !flat_app, flat_achunks. now rewrite !app_assoc. }
    destruct (IH _ _ _ _ _ _ _ Hlen Hp Hc) as [H1 H2]. rewrite Hu, H1. split.
    + rewrite !flat_app. now rewrite !app_assoc.
    + exact H2.
Qed.

Theorem tidy_uncached_spec u :
  tidy_uncached is_space u = (spec_unit is_space u, spec_factor is_space u).
Proof.
  unfold tidy_uncached, tokens, spec_unit, spec_factor, spec_scales.
  destruct (collect _ b64_one) as [es f] eqn:Hc.
  destruct (tokens_edits _ (runes u) 0%nat false [] b64_one es f (Nat.lt_succ_diag_r _) eq_refl Hc) as [H1 H2].
  cbn [app] in H1. rewrite flat_runes in H1. now rewrite H1, H2.
Qed.

End UnitsProofs.

(** ** the rewrite only depends on the classification of the runes present *)
Lemma is_sep_ext f g r : f r = g r -> Units.is_sep f r = Units.is_sep g r.
Proof. unfold Units.is_sep. now intros ->. Qed.

Lemma rw_ext f g l : (forall c, In c l -> f (fst c) = g (fst c)) ->
  forall d tok, Units.rw f l d tok = Units.rw g l d tok.
Proof.
  induction l as [|c l IH]; intros H d tok; [reflexivity|].
  cbn [Units.rw]. rewrite (is_sep_ext f g (fst c)) by (apply H; now left).
  destruct (Units.is_sep g (fst c)); [f_equal; f_equal|]; apply IH; intros; apply H; now right.
Qed.

Lemma scales_ext f g l : (forall c, In c l -> f (fst c) = g (fst c)) ->
  forall d tok, Units.scales f l d tok = Units.scales g l d tok.
Proof.
  induction l as [|c l IH]; intros H d tok; [reflexivity|].
  cbn [Units.scales]. rewrite (is_sep_ext f g (fst c)) by (apply H; now left).
  destruct (Units.is_sep g (fst c)); [f_equal|]; apply IH; intros; apply H; now right.
Qed.

(** ** UTF-8: an ASCII byte is a synchronisation point of the decoder *)
Lemma lead_lo b sz lo hi pay : lead_of b = LMulti sz lo hi pay -> 128 <= lo.
Proof.
  unfold lead_of.
  repeat match goal with |- context [if ?c then _ else _] => destruct c end;
    intros [= _ <- _ _] || intros [=]; lia.
Qed.

Lemma conts_sync k : forall lo hi q x t acc, 128 <= lo -> is_ascii x = true ->
  conts k lo hi (q ++ x :: t) acc = conts k lo hi q acc.
Proof.
  induction k as [|k IH]; intros lo hi q x t acc Hlo Hx; [reflexivity|].
  destruct q as [|b q]; cbn [app conts].
  - unfold is_ascii in Hx. apply N.ltb_lt in Hx.
    replace (lo <=? bN x) with false by (symmetry; apply N.leb_gt; lia). reflexivity.
  - destruct (_ && _); [|reflexivity]. apply IH; auto. lia.
Qed.

Lemma decode_sync p x t : p <> [] -> is_ascii x = true ->
  decode_rune (p ++ x :: t) = decode_rune p.
Proof.
  destruct p as [|b0 q]; [congruence|]. intros _ Hx. cbn [app decode_rune].
  destruct (lead_of b0) as [| |sz lo hi pay] eqn:E; try reflexivity.
  rewrite conts_sync; auto. eapply lead_lo; eauto.
Qed.

Lemma decode_ascii x t : is_ascii x = true -> decode_rune (x :: t) = (bN x, 1%nat).
Proof.
  intros H. cbn [decode_rune]. unfold lead_of. unfold is_ascii in H. cbv zeta. now rewrite H.
Qed.

(** chunk lists that are what a range loop produces on their own bytes *)
Fixpoint wf (l : list chunk) : Prop :=
  match l with
  | [] => True
  | c :: l' => snd c <> [] /\ decode_rune (snd c ++ flat l') = (fst c, length (snd c)) /\ wf l'
  end.

Lemma wf_runes_fuel n : forall s, (length s <= n)%nat -> wf (runes_fuel n s).
Proof.
  induction n as [|n IH]; intros s Hn; [exact I|].
  destruct s as [|b s]; [exact I|].
  cbn [runes_fuel]. destruct (decode_rune (b :: s)) as [r w] eqn:E.
  pose proof (decode_width (b :: s) ltac:(congruence)) as Hw. rewrite E in Hw. cbn [snd] in Hw.
  assert (Hl : (length (skipn w (b :: s)) <= n)%nat) by (rewrite skipn_length; cbn [length] in *; lia).
  cbn [wf fst snd]. split; [|split].
  - intros H0. apply (f_equal (@length _)) in H0. rewrite firstn_length in H0. cbn [length] in *. lia.
  - rewrite flat_runes_fuel by exact Hl. rewrite firstn_skipn, E. f_equal.
    rewrite firstn_length. lia.
  - apply IH. exact Hl.
Qed.

Lemma wf_runes s : wf (runes s).
Proof. apply wf_runes_fuel. lia. Qed.

Lemma runes_ne p : p <> [] ->
  runes p = (fst (decode_rune p), firstn (snd (decode_rune p)) p) :: runes (skipn (snd (decode_rune p)) p).
Proof. destruct p; [congruence|]. intros _. apply runes_cons. Qed.

Lemma runes_wf l : wf l -> runes (flat l) = l.
Proof.
  induction l as [|[r b] l IH]; [reflexivity|].
  cbn [wf fst snd]. intros (Hb & Hd & Hw). rewrite flat_cons. cbn [snd].
  rewrite runes_ne by (destruct b; [congruence|discriminate]). rewrite Hd. cbn [fst snd].
  rewrite firstn_app_len, skipn_app_len, IH by exact Hw. reflexivity.
Qed.

Lemma wf_app_r a b : wf (a ++ b) -> wf b.
Proof. induction a as [|c a IH]; cbn [app wf]; intuition. Qed.

(** two strings that agree up to a position where both have an ASCII byte *)
Definition arel (a a' : bytes) : Prop :=
  a = a' \/ exists q x y t t', is_ascii x = true /\ is_ascii y = true /\ a = q ++ x :: t /\ a' = q ++ y :: t'.

Lemma arel_refl a : arel a a. Proof. now left. Qed.

Lemma arel_prefix p a a' : arel a a' -> arel (p ++ a) (p ++ a').
Proof.
  intros [->|(q & x & y & t & t' & Hx & Hy & -> & ->)]; [now left|].
  right. exists (p ++ q), x, y, t, t'. now rewrite !app_assoc.
Qed.

Lemma decode_arel b a a' : b <> [] -> arel a a' -> decode_rune (b ++ a) = decode_rune (b ++ a').
Proof.
  intros Hb [->|(q & x & y & t & t' & Hx & Hy & -> & ->)]; [reflexivity|].
  rewrite !app_assoc. rewrite !decode_sync; auto; destruct b; cbn; congruence.
Qed.

Lemma wf_arel A : forall B B', wf (A ++ B) -> arel (flat B) (flat B') -> wf B' -> wf (A ++ B').
Proof.
  induction A as [|c A IH]; intros B B' H HR HB'; [exact HB'|].
  cbn [app wf] in *. destruct H as (Hc & Hd & Hw). split; [exact Hc|]. split; [|eauto].
  rewrite flat_app in *. rewrite <- Hd. apply decode_arel; auto.
  apply arel_prefix. unfold arel in *. destruct HR as [->|HR]; [now left|right]. 
  destruct HR as (q & x & y & t & t' & Hx & Hy & E1 & E2). exists q, y, x, t', t. auto.
Qed.

Lemma wf_achunks s B : forallb is_ascii s = true -> wf B -> wf (achunks s ++ B).
Proof.
  induction s as [|x s IH]; intros Hs HB; [exact HB|].
  cbn [forallb] in Hs. apply andb_true_iff in Hs as [Hx Hs].
  cbn [achunks map app wf]. cbn [achunk fst snd length app]. split; [discriminate|].
  split; [apply decode_ascii; exact Hx|]. apply IH; auto.
Qed.

Section UnitsProofs2.
Variable is_space : N -> bool.
Hypothesis Hascii : forall r, r < 128 -> is_space r = ascii_space r.

Notation is_sep := (Units.is_sep is_space).
Notation rw := (Units.rw is_space).
Notation scales := (Units.scales is_space).
Notation nonsep := (nonsep is_space).

Lemma nonsep_sec : Forall nonsep (achunks rep_sec).
Proof.
  repeat constructor; unfold Proofs.Units.nonsep, Units.is_sep; cbn [fst achunk];
    rewrite Hascii by reflexivity; reflexivity.
Qed.
Lemma nonsep_B : Forall nonsep (achunks rep_B).
Proof.
  repeat constructor; unfold Proofs.Units.nonsep, Units.is_sep; cbn [fst achunk];
    rewrite Hascii by reflexivity; reflexivity.
Qed.

Lemma flush_cases d tok :
  (flush d tok = tok /\ flush_scale d tok = [] \/
   d = false /\ flat tok = tok_ns /\ flush d tok = achunks rep_sec /\ flush_scale d tok = [ScNs]) \/
  (d = false /\ flat tok = tok_MB /\ flush d tok = achunks rep_B /\ flush_scale d tok = [ScMB]).
Proof.
  unfold flush, flush_scale. destruct d; [left; left; auto|].
  destruct (beq (flat tok) tok_ns) eqn:E1; [apply beq_eq in E1; left; right; auto|].
  destruct (beq (flat tok) tok_MB) eqn:E2; [apply beq_eq in E2; right; auto|].
  left; left; auto.
Qed.

Lemma flush_flush d tok :
  flush d (flush d tok) = flush d tok /\ flush_scale d (flush d tok) = [].
Proof.
  destruct (flush_cases d tok) as [[[E1 E2]|(-> & Ef & E1 & E2)]|(-> & Ef & E1 & E2)].
  - rewrite E1. auto.
  - rewrite E1. split; reflexivity.
  - rewrite E1. split; reflexivity.
Qed.

Lemma flush_nonsep d tok : Forall nonsep tok -> Forall nonsep (flush d tok).
Proof.
  intros H. destruct (flush_cases d tok) as [[[E1 E2]|(-> & Ef & E1 & E2)]|(-> & Ef & E1 & E2)]; rewrite E1;
    auto using nonsep_sec, nonsep_B.
Qed.

(** ** rewriting a rewritten unit changes nothing (at the level of runes) *)
Lemma rw_rw l : forall d tok, Forall nonsep tok ->
  rw (rw l d tok) d [] = rw l d tok /\ scales (rw l d tok) d [] = [].
Proof.
  induction l as [|c l IH]; intros d tok Ht.
  - cbn [Units.rw].
    pose proof (rw_app_nonsep is_space (flush d tok) [] d [] (flush_nonsep d tok Ht)) as H1.
    pose proof (scales_app_nonsep is_space (flush d tok) [] d [] (flush_nonsep d tok Ht)) as H2.
    rewrite app_nil_r in H1, H2. rewrite H1, H2. cbn. apply flush_flush.
  - cbn [Units.rw]. destruct (is_sep (fst c)) eqn:Ec.
    + rewrite rw_app_nonsep, scales_app_nonsep by (apply flush_nonsep; exact Ht).
      cbn [app Units.rw Units.scales]. rewrite Ec.
      destruct (flush_flush d tok) as [-> ->].
      destruct (IH (upd_denom (fst c) d) [] (Forall_nil _)) as [-> ->]. auto.
    + apply IH. apply Forall_app. split; auto.
Qed.

(** ** the rewritten rune sequence is the rune sequence of the rewritten bytes *)
Lemma flush_arel d tok z z' : arel z z' -> arel (flat tok ++ z) (flat (flush d tok) ++ z').
Proof.
  intros HR.
  destruct (flush_cases d tok) as [[[E1 E2]|(-> & Ef & E1 & E2)]|(-> & Ef & E1 & E2)]; rewrite E1.
  - now apply arel_prefix.
  - rewrite Ef, flat_achunks. right.
    exists [], "n"%byte, "s"%byte, ("s"%byte :: z), ("e"%byte :: "c"%byte :: z'). repeat split; reflexivity.
  - rewrite Ef, flat_achunks. right.
    exists [], "M"%byte, "B"%byte, ("B"%byte :: z), z'. repeat split; reflexivity.
Qed.

Lemma rw_arel l : forall d tok, arel (flat tok ++ flat l) (flat (rw l d tok)).
Proof.
  induction l as [|c l IH]; intros d tok.
  - cbn [Units.rw]. pose proof (flush_arel d tok [] [] (arel_refl _)) as H. rewrite !app_nil_r in H.
    change (flat []) with (@nil byte). now rewrite app_nil_r.
  - cbn [Units.rw]. destruct (is_sep (fst c)).
    + rewrite flat_app, !flat_cons. apply flush_arel. apply arel_prefix.
      specialize (IH (upd_denom (fst c) d) []). exact IH.
    + specialize (IH d (tok ++ [c])). rewrite flat_app in IH. cbn in IH.
      rewrite app_nil_r, <- app_assoc in IH. exact IH.
Qed.

Lemma flush_wf d tok B B' : wf (tok ++ B) -> arel (flat B) (flat B') -> wf B' -> wf (flush d tok ++ B').
Proof.
  intros H HR HB'.
  destruct (flush_cases d tok) as [[[E1 E2]|(-> & Ef & E1 & E2)]|(-> & Ef & E1 & E2)]; rewrite E1.
  - eapply wf_arel; eauto.
  - apply wf_achunks; auto.
  - apply wf_achunks; auto.
Qed.

Lemma rw_wf l : forall d tok, wf (tok ++ l) -> wf (rw l d tok).
Proof.
  induction l as [|c l IH]; intros d tok H.
  - cbn [Units.rw]. rewrite <- (app_nil_r (flush d tok)). eapply flush_wf; eauto using arel_refl. exact I.
  - cbn [Units.rw]. destruct (is_sep (fst c)).
    + pose proof (wf_app_r _ _ H) as Hcl.
      assert (Hl : wf l) by (cbn [wf] in Hcl; tauto).
      assert (HR : arel (flat l) (flat (rw l (upd_denom (fst c) d) []))) by apply (rw_arel l _ []).
      assert (Hw : wf (c :: rw l (upd_denom (fst c) d) [])).
      { apply (wf_arel [c] l); auto. }
      eapply flush_wf; eauto. rewrite !flat_cons. now apply arel_prefix.
    + apply IH. now rewrite <- app_assoc.
Qed.

Lemma runes_spec_unit u : runes (spec_unit is_space u) = rw (runes u) false [].
Proof. unfold spec_unit. apply runes_wf. apply rw_wf. cbn [app]. apply wf_runes. Qed.

Theorem spec_unit_idempotent u :
  spec_unit is_space (spec_unit is_space u) = spec_unit is_space u /\
  spec_scales is_space (spec_unit is_space u) = [].
Proof.
  unfold spec_scales. unfold spec_unit at 1. rewrite runes_spec_unit.
  destruct (rw_rw (runes u) false [] (Forall_nil _)) as [-> ->]. auto.
Qed.

(** ** nothing to normalise: no "ns" and no "MB" anywhere in the unit *)
Lemma contains_false_app_r (a b p : bytes) : contains (a ++ b) p = false -> contains b p = false.
Proof.
  intros H. destruct (contains b p) eqn:E; [|reflexivity].
  apply contains_spec in E as (x & y & ->).
  assert (contains (a ++ x ++ p ++ y) p = true) by (apply contains_spec; exists (a ++ x), y; now rewrite <- app_assoc).
  congruence.
Qed.

Lemma contains_false_prefix (t x p : bytes) : contains (t ++ x) p = false -> beq t p = false.
Proof.
  intros H. destruct (beq t p) eqn:E; [|reflexivity]. apply beq_eq in E. subst t.
  assert (contains (p ++ x) p = true) by (apply contains_spec; exists [], x; reflexivity). congruence.
Qed.

Lemma rw_nosub l : forall d tok,
  contains (flat tok ++ flat l) tok_ns = false ->
  contains (flat tok ++ flat l) tok_MB = false ->
  rw l d tok = tok ++ l /\ scales l d tok = [].
Proof.
  induction l as [|c l IH]; intros d tok H1 H2.
  - cbn [Units.rw Units.scales]. unfold flush, flush_scale.
    rewrite (contains_false_prefix _ _ _ H1), (contains_false_prefix _ _ _ H2).
    rewrite app_nil_r. destruct d; auto.
  - cbn [Units.rw Units.scales]. destruct (is_sep (fst c)).
    + unfold flush, flush_scale.
      rewrite (contains_false_prefix _ _ _ H1), (contains_false_prefix _ _ _ H2).
      rewrite flat_cons in H1, H2.
      apply contains_false_app_r in H1, H2. apply contains_false_app_r in H1, H2.
      destruct (IH (upd_denom (fst c) d) [] H1 H2) as [-> ->]. destruct d; auto.
    + destruct (IH d (tok ++ [c])) as [-> ->].
      * rewrite flat_app. cbn. rewrite app_nil_r, <- app_assoc. exact H1.
      * rewrite flat_app. cbn. rewrite app_nil_r, <- app_assoc. exact H2.
      * now rewrite <- app_assoc.
Qed.

(** ** tidyUnit with its fast paths is the specification *)
Lemma spec_ascii u : Forall (fun c => fst c < 128) (runes u) ->
  spec_unit is_space u = spec_unit ascii_space u /\ spec_factor is_space u = spec_factor ascii_space u.
Proof.
  intros H. unfold spec_unit, spec_factor, spec_scales.
  rewrite Forall_forall in H.
  rewrite (rw_ext is_space ascii_space), (scales_ext is_space ascii_space); auto.
Qed.

Theorem tidy_unit_spec u : tidy_unit is_space u = (spec_unit is_space u, spec_factor is_space u).
Proof.
  unfold tidy_unit.
  destruct (beq u (bs "ns/op")) eqn:E1.
  { apply beq_eq in E1. subst u.
    destruct (spec_ascii (bs "ns/op")) as [-> ->]; [vm_compute; repeat constructor|]. vm_compute. reflexivity. }
  destruct (beq u (bs "MB/s")) eqn:E2.
  { apply beq_eq in E2. subst u.
    destruct (spec_ascii (bs "MB/s")) as [-> ->]; [vm_compute; repeat constructor|]. vm_compute. reflexivity. }
  destruct (beq u (bs "B/op") || beq u (bs "allocs/op")) eqn:E3.
  { apply orb_true_iff in E3 as [E3|E3]; apply beq_eq in E3; subst u.
    - destruct (spec_ascii (bs "B/op")) as [-> ->]; [vm_compute; repeat constructor|]. vm_compute. reflexivity.
    - destruct (spec_ascii (bs "allocs/op")) as [-> ->]; [vm_compute; repeat constructor|]. vm_compute. reflexivity. }
  destruct (contains u tok_ns || contains u tok_MB) eqn:E4; cbn [negb].
  { apply tidy_uncached_spec. }
  apply orb_false_iff in E4 as [E4 E5].
  unfold spec_unit, spec_factor, spec_scales.
  destruct (rw_nosub (runes u) false []) as [-> ->].
  - change (flat []) with (@nil byte). cbn [app]. now rewrite flat_runes.
  - change (flat []) with (@nil byte). cbn [app]. now rewrite flat_runes.
  - cbn [app fold_left]. now rewrite flat_runes.
Qed.

End UnitsProofs2.

(** ** the property-level statements *)
Section UnitsTheorems.
Variable is_space : N -> bool.
Hypothesis Hascii : forall r, r < 128 -> is_space r = ascii_space r.

Notation tidy_unit := (tidy_unit is_space).
Notation spec_unit := (spec_unit is_space).

Theorem fastpath_eq_slowpath u : tidy_unit u = tidy_uncached is_space u.
Proof. rewrite tidy_unit_spec by exact Hascii. now rewrite tidy_uncached_spec. Qed.

Theorem tidy_is_tokenwise_rewrite u : fst (tidy_unit u) = spec_unit u.
Proof. now rewrite tidy_unit_spec by exact Hascii. Qed.

Theorem factor_is_product u :
  snd (tidy_unit u) = fold_left apply_scale (spec_scales is_space u) b64_one.
Proof. now rewrite tidy_unit_spec by exact Hascii. Qed.

Theorem tidy_idempotent u : tidy_unit (fst (tidy_unit u)) = (fst (tidy_unit u), b64_one).
Proof.
  rewrite !tidy_unit_spec by exact Hascii. cbn [fst]. unfold spec_factor.
  destruct (spec_unit_idempotent is_space Hascii u) as [-> ->]. reflexivity.
Qed.

Lemma tidy_eq v u : tidy is_space v u = (b64_mul v (snd (tidy_unit u)), fst (tidy_unit u)).
Proof. unfold tidy. now destruct (tidy_unit u). Qed.

Theorem tidy_tidy_unit v u :
  snd (tidy is_space (fst (tidy is_space v u)) (snd (tidy is_space v u))) = snd (tidy is_space v u).
Proof. rewrite !tidy_eq. cbn [fst snd]. now rewrite tidy_idempotent. Qed.

Theorem read_value_spec v u : read_value is_space v u = spec_value is_space v u.
Proof.
  unfold read_value, spec_value. rewrite tidy_eq.
  rewrite tidy_unit_spec by exact Hascii. reflexivity.
Qed.

Theorem reader_unit_always_tidy v u : v_unit (read_value is_space v u) = fst (tidy_unit u).
Proof.
  unfold read_value. rewrite tidy_eq. destruct (beq (fst (tidy_unit u)) u) eqn:E; cbn [v_unit]; auto.
  apply beq_eq in E. auto.
Qed.

Theorem one_metric_one_unit v1 v2 u :
  v_unit (read_value is_space v1 u) = v_unit (read_value is_space v2 u).
Proof. now rewrite !reader_unit_always_tidy. Qed.

Lemma spec_unit_nil : spec_unit [] = [].
Proof. reflexivity. Qed.

Theorem orig_kept_iff_rewritten v u :
  let r := read_value is_space v u in
  (spec_unit u = u /\ r = mkValue v u b64_zero []) \/
  (spec_unit u <> u /\ u <> [] /\
   r = mkValue (b64_mul v (spec_factor is_space u)) (spec_unit u) v u).
Proof.
  cbv zeta. rewrite read_value_spec. unfold spec_value.
  destruct (beq (spec_unit u) u) eqn:E.
  - apply beq_eq in E. left. auto.
  - right. assert (Hne : spec_unit u <> u) by (intros H; apply beq_eq in H; congruence).
    repeat split; auto. intros ->. apply Hne. apply spec_unit_nil.
Qed.

Theorem metadata_lookup_either_unit m u k :
  units_get is_space m u k = units_get is_space m (fst (tidy_unit u)) k.
Proof. unfold units_get. rewrite !tidy_eq. cbn [snd]. now rewrite tidy_idempotent. Qed.

Theorem unit_filter_either (m : bytes -> bool) v u :
  unit_match m (read_value is_space v u) = m (spec_unit u) || m u.
Proof.
  destruct (orig_kept_iff_rewritten v u) as [[E ->]|(E & Hu & ->)]; unfold unit_match; cbn [v_unit v_ounit].
  - rewrite E. cbn. now rewrite orb_false_r, orb_diag.
  - destruct u; [congruence|]. reflexivity.
Qed.

End UnitsTheorems.

(** a value list [.unit:(t1 OR t2)] judges every measurement on its own: the
    union of what its members keep (no state between measurements of a line) *)
Lemma unit_match_or (m1 m2 : bytes -> bool) v :
  unit_match (fun u => m1 u || m2 u) v = unit_match m1 v || unit_match m2 v.
Proof.
  unfold unit_match.
  destruct (m1 (v_unit v)), (m2 (v_unit v)), (negb (beq (v_ounit v) [])), (m1 (v_ounit v)), (m2 (v_ounit v)); reflexivity.
Qed.

Lemma unit_filter_apply_pointwise (m : bytes -> bool) vals :
  fst (unit_filter_apply m vals) = filter (unit_match m) vals /\
  snd (unit_filter_apply m vals) = existsb (unit_match m) vals.
Proof.
  unfold unit_filter_apply. cbn [fst snd]. split; [reflexivity|].
  induction vals as [|v vals IH]; [reflexivity|].
  cbn [filter existsb]. destruct (unit_match m v); [reflexivity|]. exact IH.
Qed.

(** the decision the reader made before commit e1a075c split one metric over two units *)
Theorem read_value_old_refuted :
  exists v u, v_unit (read_value_old go_is_space v u) <> fst (tidy_unit go_is_space u).
Proof. exists (S754_zero false), (bs "ns/op"). vm_compute. discriminate. Qed.
