(** Bridge from the executable binary64 of Base/B64.v ([spec_float] operations)
    to Flocq's verified IEEE-754 layer (BinarySingleNaN): the quotient computed
    by [b64_div] is the correctly rounded real quotient, hence monotone.
    Theorems here use the real numbers, i.e. the standard library's axioms of
    the classical reals (reported by Print Assumptions). *)
From Coq Require Import ZArith Reals Lia Lra Bool.
From Flocq Require Import Core BinarySingleNaN.
From Perf Require Import Base.Bytes Base.B64 Base.FmtFixed Proofs.FmtFixed.
Local Open Scope Z_scope.

Global Instance b64_prec_gt_0 : Prec_gt_0 53 := eq_refl.
Global Instance b64_prec_lt_emax : Prec_lt_emax 53 1024 := eq_refl.

Notation valid := (valid_binary 53 1024).
Notation Bf := (binary_float 53 1024).

(** SpecFloat's nearest-even rounding is Flocq's [mode_NE] (cf. Flocq's
    PrimFloat.v, which proves the same for primitive floats) *)
Lemma round_nearest_even_equiv s m l :
  round_nearest_even m l = choice_mode mode_NE s m l.
Proof.
  case l; [reflexivity|intro c].
  case c; [ | reflexivity..].
  now simpl; unfold Round.cond_incr; case Z.even.
Qed.

Lemma binary_round_aux_equiv sx mx ex lx :
  SpecFloat.binary_round_aux 53 1024 sx mx ex lx
  = BinarySingleNaN.binary_round_aux 53 1024 mode_NE sx mx ex lx.
Proof.
  unfold SpecFloat.binary_round_aux, BinarySingleNaN.binary_round_aux.
  set (mrse' := shr_fexp _ _ _ _ _).
  case mrse'; intros mrs' e'; simpl.
  now rewrite (round_nearest_even_equiv sx).
Qed.

Lemma b64_div_Bdiv (x y : Bf) :
  b64_div (B2SF x) (B2SF y) = B2SF (Bdiv mode_NE x y).
Proof.
  destruct x as [sx|sx| |sx mx ex Bx], y as [sy|sy| |sy my ey By]; try reflexivity.
  unfold b64_div. simpl. rewrite B2SF_SF2B.
  set (melz := SFdiv_core_binary _ _ _ _ _ _).
  case melz as [[mz ez] lz].
  apply binary_round_aux_equiv.
Qed.

Lemma b64_div_valid x y : valid x = true -> valid y = true -> valid (b64_div x y) = true.
Proof.
  intros Hx Hy.
  rewrite <- (B2SF_SF2B 53 1024 x Hx), <- (B2SF_SF2B 53 1024 y Hy), b64_div_Bdiv.
  apply valid_binary_B2SF.
Qed.

(** ** exact values *)
Lemma SF2R_sf_num x c :
  c <= sf_exp x -> sf_finite x = true ->
  SF2R radix2 x = (IZR (sf_num x c) * bpow radix2 c)%R.
Proof.
  intros Hc Hf. destruct x as [s|s| |s m e]; try discriminate; cbn [SF2R sf_num sf_exp] in *.
  - now rewrite Rmult_0_l.
  - rewrite (F2R_change_exp radix2 c _ e Hc). unfold F2R. cbn [Fnum Fexp].
    f_equal. f_equal. change (radix_val radix2) with 2. destruct s; cbn [cond_Zopp]; lia.
Qed.

Lemma sf_le_of_R x y :
  sf_finite x = true -> sf_finite y = true ->
  (SF2R radix2 x <= SF2R radix2 y)%R -> sf_le x y.
Proof.
  intros Fx Fy H. unfold sf_le. set (c := Z.min (sf_exp x) (sf_exp y)).
  rewrite (SF2R_sf_num x c), (SF2R_sf_num y c) in H by (auto; unfold c; lia).
  apply le_IZR. apply Rmult_le_reg_r with (2 := H). apply bpow_gt_0.
Qed.

Lemma sf_finite_B2SF (x : Bf) : sf_finite (B2SF x) = is_finite x.
Proof. now destruct x. Qed.

Definition is_pos_finite (x : b64) : bool :=
  match x with S754_finite false _ _ => true | _ => false end.

Lemma pos_finite_R (f : Bf) : is_pos_finite (B2SF f) = true -> (0 < B2R f)%R.
Proof.
  destruct f as [s|s| |s m e B]; try discriminate. destruct s; [discriminate|]. intros _.
  cbn. now apply F2R_gt_0.
Qed.

Lemma SFleb_R (x y : Bf) :
  is_finite x = true -> is_finite y = true ->
  SFleb (B2SF x) (B2SF y) = true -> (B2R x <= B2R y)%R.
Proof.
  intros Fx Fy H. change (Bleb x y = true) in H.
  rewrite (Bleb_correct 53 1024 x y Fx Fy) in H.
  now destruct (Rle_bool_spec (B2R x) (B2R y)).
Qed.

Lemma SFltb_R (x y : Bf) :
  is_finite x = true -> is_finite y = true ->
  SFltb (B2SF x) (B2SF y) = true -> (B2R x < B2R y)%R.
Proof.
  intros Fx Fy H. change (Bltb x y = true) in H.
  rewrite (Bltb_correct 53 1024 x y Fx Fy) in H.
  now destruct (Rlt_bool_spec (B2R x) (B2R y)).
Qed.

Notation rnd := (round radix2 (SpecFloat.fexp 53 1024) ZnearestE).

(** the quotient of finite numbers by a positive finite one: either the
    rounded real quotient, or an infinity *)
Lemma Bdiv_cases (x f : Bf) :
  is_finite x = true -> (0 < B2R f)%R ->
  let q := Bdiv mode_NE x f in
  (is_finite q = true /\ B2R q = rnd (B2R x / B2R f) /\ (Rabs (rnd (B2R x / B2R f)) < bpow radix2 1024)%R)
  \/ (is_finite q = false /\ (bpow radix2 1024 <= Rabs (rnd (B2R x / B2R f)))%R).
Proof.
  intros Fx Pf q.
  pose proof (Bdiv_correct 53 1024 _ _ mode_NE x f ltac:(lra)) as H.
  cbn [round_mode] in H.
  destruct (Rlt_bool_spec (Rabs (rnd (B2R x / B2R f))) (bpow radix2 1024)) as [L|L].
  - left. destruct H as (H1 & H2 & _). fold q in H1, H2. rewrite H2. auto.
  - right. split; [|exact L]. fold q in H.
    rewrite <- sf_finite_B2SF, H. unfold binary_overflow. cbn. reflexivity.
Qed.

(** ** monotonicity of the binary64 quotient *)
Theorem b64_div_monotone (x1 x2 f : b64) :
  valid x1 = true -> valid x2 = true -> valid f = true ->
  sf_finite x1 = true -> sf_finite x2 = true -> is_pos_finite f = true ->
  SFleb x1 x2 = true ->
  sf_finite (b64_div x1 f) = true -> sf_finite (b64_div x2 f) = true ->
  sf_le (b64_div x1 f) (b64_div x2 f).
Proof.
  intros V1 V2 Vf F1 F2 Pf L Q1 Q2.
  revert L Q1 Q2.
  rewrite <- (B2SF_SF2B 53 1024 x1 V1), <- (B2SF_SF2B 53 1024 x2 V2), <- (B2SF_SF2B 53 1024 f Vf) in *.
  set (X1 := @SF2B 53 1024 x1 V1) in *. set (X2 := @SF2B 53 1024 x2 V2) in *. set (F := @SF2B 53 1024 f Vf) in *.
  rewrite !b64_div_Bdiv, !sf_finite_B2SF. rewrite sf_finite_B2SF in F1, F2.
  intros L Q1 Q2.
  pose proof (pos_finite_R F Pf) as PF.
  pose proof (SFleb_R X1 X2 F1 F2 L) as LR.
  destruct (Bdiv_cases X1 F F1 PF) as [(_ & E1 & _)|(N1 & _)]; [|congruence].
  destruct (Bdiv_cases X2 F F2 PF) as [(_ & E2 & _)|(N2 & _)]; [|congruence].
  apply sf_le_of_R; rewrite ?sf_finite_B2SF; auto.
  rewrite !SF2R_B2SF, E1, E2.
  apply round_le; try typeclasses eauto.
  apply Rmult_le_compat_r; [|exact LR].
  apply Rlt_le, Rinv_0_lt_compat, PF.
Qed.

(** a non-negative dividend below one whose quotient is finite has a finite quotient *)
Theorem b64_div_finite_below (x1 x2 f : b64) :
  valid x1 = true -> valid x2 = true -> valid f = true ->
  sf_finite x1 = true -> sf_finite x2 = true -> is_pos_finite f = true ->
  SFleb (S754_zero false) x1 = true -> SFleb x1 x2 = true ->
  sf_finite (b64_div x2 f) = true ->
  sf_finite (b64_div x1 f) = true.
Proof.
  intros V1 V2 Vf F1 F2 Pf L0 L Q2.
  revert L0 L Q2.
  rewrite <- (B2SF_SF2B 53 1024 x1 V1), <- (B2SF_SF2B 53 1024 x2 V2), <- (B2SF_SF2B 53 1024 f Vf) in *.
  set (X1 := @SF2B 53 1024 x1 V1) in *. set (X2 := @SF2B 53 1024 x2 V2) in *. set (F := @SF2B 53 1024 f Vf) in *.
  rewrite !b64_div_Bdiv, !sf_finite_B2SF. rewrite sf_finite_B2SF in F1, F2.
  intros L0 L Q2.
  pose proof (pos_finite_R F Pf) as PF.
  pose proof (SFleb_R X1 X2 F1 F2 L) as LR.
  pose proof (SFleb_R (@B754_zero 53 1024 false) X1 eq_refl F1 L0) as L0R. cbn [B2R] in L0R.
  destruct (Bdiv_cases X2 F F2 PF) as [(_ & E2 & B2)|(N2 & _)]; [|congruence].
  destruct (Bdiv_cases X1 F F1 PF) as [(Fq & _)|(_ & B1)]; [exact Fq|exfalso].
  assert (I : (0 <= / B2R F)%R) by (apply Rlt_le, Rinv_0_lt_compat, PF).
  assert (R0 : (0 <= rnd (B2R X1 / B2R F))%R).
  { rewrite <- (round_0 radix2 (SpecFloat.fexp 53 1024) ZnearestE).
    apply round_le; try typeclasses eauto. apply Rmult_le_pos; assumption. }
  assert (R12 : (rnd (B2R X1 / B2R F) <= rnd (B2R X2 / B2R F))%R).
  { apply round_le; try typeclasses eauto. apply Rmult_le_compat_r; assumption. }
  rewrite Rabs_pos_eq in B1 by exact R0.
  rewrite Rabs_pos_eq in B2 by lra. lra.
Qed.

(** SpecFloat's [<=] on valid finite numbers is the order of exact values *)
Lemma SFleb_sf_le x y :
  valid x = true -> valid y = true -> sf_finite x = true -> sf_finite y = true ->
  SFleb x y = true -> sf_le x y.
Proof.
  intros Vx Vy Fx Fy L.
  revert L. rewrite <- (B2SF_SF2B 53 1024 x Vx), <- (B2SF_SF2B 53 1024 y Vy) in *.
  rewrite sf_finite_B2SF in Fx, Fy. intros L.
  apply sf_le_of_R; rewrite ?sf_finite_B2SF; auto.
  rewrite !SF2R_B2SF. now apply SFleb_R.
Qed.

Lemma sf_le_pos_finite x y :
  is_pos_finite x = true -> sf_finite y = true -> sf_le x y -> is_pos_finite y = true.
Proof.
  destruct x as [| | |[|] mx ex]; try discriminate. intros _.
  unfold sf_le. destruct y as [sy|sy| |sy my ey]; try discriminate; intros _; cbn [sf_exp sf_num].
  - intros H. exfalso.
    pose proof (Z.pow_pos_nonneg 2 (ex - Z.min ex 0) ltac:(lia) ltac:(lia)). nia.
  - intros H. destruct sy; [exfalso|reflexivity].
    pose proof (Z.pow_pos_nonneg 2 (ex - Z.min ex ey) ltac:(lia) ltac:(lia)).
    pose proof (Z.pow_pos_nonneg 2 (ey - Z.min ex ey) ltac:(lia) ltac:(lia)). nia.
Qed.

(** dividing by 1 changes nothing (NoOpScaler) *)
Lemma b64_div_one x : valid x = true -> sf_finite x = true -> b64_div x b64_one = x.
Proof.
  intros Vx Fx.
  assert (V1 : valid b64_one = true) by reflexivity.
  rewrite <- (B2SF_SF2B 53 1024 x Vx), <- (B2SF_SF2B 53 1024 b64_one V1) in *.
  set (X := @SF2B 53 1024 x Vx) in *. set (O := @SF2B 53 1024 b64_one V1) in *.
  rewrite sf_finite_B2SF in Fx. rewrite b64_div_Bdiv. f_equal.
  assert (RO : B2R O = 1%R).
  { unfold O. rewrite B2R_SF2B. cbn. unfold F2R. cbn. lra. }
  pose proof (Bdiv_correct 53 1024 _ _ mode_NE X O ltac:(rewrite RO; lra)) as H.
  cbn [round_mode] in H. rewrite RO in H. unfold Rdiv in H. rewrite Rinv_1, Rmult_1_r in H.
  rewrite (round_generic radix2 (SpecFloat.fexp 53 1024) ZnearestE (B2R X)) in H
    by (apply generic_format_B2R).
  rewrite Rlt_bool_true in H by (apply abs_B2R_lt_emax).
  destruct H as (H1 & H2 & H3).
  apply B2R_Bsign_inj; auto; [congruence|].
  rewrite H3.
  - replace (Bsign O) with false by reflexivity. now rewrite xorb_false_r.
  - destruct (Bdiv mode_NE X O); try discriminate; auto. rewrite Fx in H2. discriminate.
Qed.
