(** The generic numerical InvCDF (internal/stats/dist.go) as modelled by
    Model/Bisect.v, for a total CDF (any function on binary64 values, not
    necessarily monotone) and 0 < y < 1:

    * the bracket expansion always ends within 1026 iterations (the model's
      fuel is 1200): xdelta doubles exactly, 1, 2, 4, ..., and is +Inf after at
      most 1024 doublings; hiX stays >= 0 or +Inf, so the next hiX is +Inf and
      the loop condition fails (symmetrically downwards);
    * the ends handed to bisectBool are valid finite values (a returned
      infinite end short-cuts), so with the bracket below 2^1023 in magnitude
      bisectBool terminates within its fuel (Proofs/BisectFull.v).

    Hence inv_cdf never reports exhausted fuel nor a missing oracle answer.
    Through Flocq (classical reals in Print Assumptions). *)
From Coq Require Import ZArith Reals Lia Lra Bool List.
From Flocq Require Import Core BinarySingleNaN.
From Perf Require Import Base.Bytes Base.B64 Model.Beta Model.Bisect
     Proofs.B64Flocq Proofs.LegacySort Proofs.LegacyMean Proofs.B64Ops Proofs.TTest Proofs.VarianceB64
     Proofs.BisectReal Proofs.BisectFull.
Local Open Scope R_scope.

Definition Pinf : Bf := B754_infinity false.
Definition Ninf : Bf := B754_infinity true.

(** the step size: +Inf, or exactly 2^k *)
Definition delta_at (k : Z) (D : Bf) : Prop :=
  D = Pinf \/ (is_finite D = true /\ B2R D = bpow radix2 k).

(** non-positive or -Inf *)
Definition np (X : Bf) : Prop := X = Ninf \/ (is_finite X = true /\ B2R X <= 0).

Lemma delta_nn k D : delta_at k D -> nn D.
Proof.
  intros [->|[F R]]; [now left|right]. split; auto. rewrite R. apply bpow_ge_0.
Qed.

Lemma delta_top D : delta_at 1024 D -> D = Pinf.
Proof.
  intros [->|[F R]]; [reflexivity|exfalso].
  pose proof (abs_B2R_lt_emax 53 1024 D) as H. rewrite R, Rabs_pos_eq in H by apply bpow_ge_0. lra.
Qed.

Lemma Btwo : k_two = B2SF (BofZ 2) /\ is_finite (BofZ 2) = true /\ B2R (BofZ 2) = 2.
Proof. split; [apply b64_of_Z_BofZ|]. apply (BofZ_exact 2). lia. Qed.

Lemma delta_double k D : (0 <= k)%Z -> delta_at k D ->
  exists D' : Bf, b64_mul (B2SF D) k_two = B2SF D' /\ delta_at (k + 1) D'.
Proof.
  intros Hk HD. destruct Btwo as (E2 & F2 & R2). rewrite E2, b64_mul_Bmult'.
  exists (Bmult mode_NE D (BofZ 2)). split; [reflexivity|].
  destruct HD as [->|[F R]].
  - left. reflexivity.
  - pose proof (Bmult_correct 53 1024 _ _ mode_NE D (BofZ 2)) as H. cbn [round_mode] in H.
    rewrite R, R2 in H.
    assert (E : bpow radix2 k * 2 = bpow radix2 (k + 1)) by (rewrite bpow_plus; cbn; lra).
    rewrite E in H.
    assert (Fk : F64 (bpow radix2 (k + 1))).
    { apply generic_format_bpow. rewrite fexp64_eq. lia. }
    rewrite (RN_id _ Fk), Rabs_pos_eq in H by apply bpow_ge_0.
    destruct (Rlt_bool_spec (bpow radix2 (k + 1)) (bpow radix2 1024)) as [L|L].
    + right. destruct H as (H1 & H2 & _). rewrite H2, F, F2. auto.
    + left. apply overflow_inf in H.
      rewrite (Bsign_pos D F ltac:(rewrite R; apply bpow_gt_0)) in H.
      rewrite (Bsign_pos (BofZ 2) F2 ltac:(lra)) in H. exact H.
Qed.

Lemma nn_plus_inf (X : Bf) : nn X -> Bplus mode_NE X Pinf = Pinf.
Proof. intros [->|[F _]]; [reflexivity|]. destruct X; try discriminate; reflexivity. Qed.

Lemma nn_shape (X : Bf) : nn X -> X = Pinf \/ is_finite X = true.
Proof. intros [->|[F _]]; auto. Qed.

Lemma b64_eq_inf (X : Bf) : nn X -> b64_eq (B2SF X) k_inf = true -> X = Pinf.
Proof.
  intros [->|[F _]] H; [reflexivity|]. destruct X as [s| | |s m e B]; discriminate.
Qed.

Lemma b64_eq_inf_refl : b64_eq (B2SF Pinf) k_inf = true.
Proof. reflexivity. Qed.

Section Total.
  Variable c : b64 -> b64.
  Definition tcdf_total (x : b64) : res b64 := Val (c x).

  (** ** upwards *)
  Lemma expand_up_ends y : forall fuel k (Lo Hi D : Bf) loY hiY,
    (0 <= k <= 1024)%Z -> is_finite Lo = true -> nn Hi -> delta_at k D ->
    (1024 - k + 2 <= Z.of_nat fuel)%Z ->
    exists (Lo' Hi' : Bf) loY' hiY',
      expand_up tcdf_total fuel y (B2SF Lo) loY (B2SF Hi) hiY (B2SF D)
        = Val (B2SF Lo', loY', B2SF Hi', hiY')
      /\ is_finite Lo' = true /\ nn Hi'.
  Proof.
    induction fuel as [|fuel IH]; intros k Lo Hi D loY hiY Hk FLo HHi HD Hf; [lia|].
    cbn [expand_up].
    destruct (b64_lt hiY y && negb (b64_eq (B2SF Hi) k_inf)) eqn:Ec.
    2:{ exists Lo, Hi, loY, hiY. auto. }
    apply andb_true_iff in Ec as [_ Ene]. apply negb_true_iff in Ene.
    assert (FHi : is_finite Hi = true).
    { destruct (nn_shape Hi HHi) as [->|F]; [|exact F]. rewrite b64_eq_inf_refl in Ene. discriminate. }
    unfold tcdf_total at 1. cbn [res_bind].
    rewrite b64_add_Bplus.
    assert (HHi' : nn (Bplus mode_NE Hi D)) by (apply nn_plus; [exact HHi|now apply (delta_nn k)]).
    destruct (Z.eq_dec k 1024) as [->|Hne].
    - (* the step is +Inf: the new hiX is +Inf and the loop stops *)
      pose proof (delta_top D HD) as ->. rewrite (nn_plus_inf Hi HHi).
      destruct fuel as [|fuel]; [lia|]. cbn [expand_up].
      rewrite b64_eq_inf_refl, andb_false_r.
      exists Hi, Pinf, hiY, (c (B2SF Pinf)). repeat split; auto. now left.
    - destruct (delta_double k D ltac:(lia) HD) as (D' & -> & HD').
      apply (IH (k + 1)%Z Hi (Bplus mode_NE Hi D) D'); auto; lia.
  Qed.

  (** ** downwards *)
  Lemma np_minus (X D : Bf) k : np X -> delta_at k D -> np (Bminus mode_NE X D).
  Proof.
    intros HX HD.
    destruct HD as [->|[FD RD]].
    - left. destruct HX as [->|[FX _]]; [reflexivity|]. destruct X; try discriminate; reflexivity.
    - destruct HX as [->|[FX HX]].
      + left. destruct D; try discriminate; reflexivity.
      + pose proof (Bminus_correct 53 1024 _ _ mode_NE X D FX FD) as H. cbn [round_mode] in H.
        pose proof (bpow_gt_0 radix2 k) as Hk.
        destruct (Rlt_bool_spec (Rabs (RN (B2R X - B2R D))) (bpow radix2 1024)) as [L|L].
        * right. destruct H as (H1 & H2 & _). split; [exact H2|]. rewrite H1.
          rewrite <- (round_0 radix2 fexp64 ZnearestE). apply RN_le. lra.
        * left. destruct H as [H Hs].
          rewrite (Bsign_pos D FD ltac:(lra)) in Hs. cbn in Hs. rewrite Hs in H.
          now apply overflow_inf in H.
  Qed.

  Lemma np_shape (X : Bf) : np X -> X = Ninf \/ is_finite X = true.
  Proof. intros [->|[F _]]; auto. Qed.

  Lemma expand_down_ends y : forall fuel k (Lo Hi D : Bf) loY hiY,
    (0 <= k <= 1024)%Z -> np Lo -> is_finite Hi = true -> delta_at k D ->
    (1024 - k + 2 <= Z.of_nat fuel)%Z ->
    exists (Lo' Hi' : Bf) loY' hiY',
      expand_down tcdf_total fuel y (B2SF Lo) loY (B2SF Hi) hiY (B2SF D)
        = Val (B2SF Lo', loY', B2SF Hi', hiY')
      /\ np Lo' /\ is_finite Hi' = true.
  Proof.
    induction fuel as [|fuel IH]; intros k Lo Hi D loY hiY Hk HLo FHi HD Hf; [lia|].
    cbn [expand_down].
    destruct (b64_le y loY && negb (b64_eq (B2SF Lo) k_ninf)) eqn:Ec.
    2:{ exists Lo, Hi, loY, hiY. auto. }
    apply andb_true_iff in Ec as [_ Ene]. apply negb_true_iff in Ene.
    assert (FLo : is_finite Lo = true).
    { destruct (np_shape Lo HLo) as [->|F]; [|exact F]. discriminate. }
    rewrite b64_sub_Bminus. unfold tcdf_total at 1. cbn [res_bind].
    assert (HLo' : np (Bminus mode_NE Lo D)) by now apply (np_minus Lo D k).
    destruct (Z.eq_dec k 1024) as [->|Hne].
    - pose proof (delta_top D HD) as ->.
      assert (E : Bminus mode_NE Lo Pinf = Ninf) by (destruct Lo; try discriminate; reflexivity).
      rewrite E. destruct fuel as [|fuel]; [lia|]. cbn [expand_down].
      replace (b64_eq (B2SF Ninf) k_ninf) with true by reflexivity. rewrite andb_false_r.
      exists Ninf, Lo, (c (B2SF Ninf)), loY. repeat split; auto. now left.
    - destruct (delta_double k D ltac:(lia) HD) as (D' & -> & HD').
      apply (IH (k + 1)%Z (Bminus mode_NE Lo D) Lo D'); auto; lia.
  Qed.

  (** the bracket computed by InvCDF for 0 < y < 1 *)
  Definition bracket_of (y : b64) : res (b64 * b64 * b64 * b64) :=
    let y1 := c b64_zero in
    let z := b64_zero in
    if b64_lt y1 y then expand_up tcdf_total expand_fuel y z z z y1 b64_one
    else expand_down tcdf_total expand_fuel y z y1 z z b64_one.

  Lemma one_delta : exists D : Bf, b64_one = B2SF D /\ delta_at 0 D.
  Proof.
    exists (BofZ 1). split; [apply b64_one_B|]. right. destruct B2R_one as [F R]. split; auto.
  Qed.

  (** Theorem: the expansion never exhausts its fuel; its ends are valid, and
      each is finite or the infinity that InvCDF returns directly *)
  Theorem bracket_total y :
    exists (Lo Hi : Bf) loY hiY,
      bracket_of y = Val (B2SF Lo, loY, B2SF Hi, hiY)
      /\ (Lo = Ninf \/ is_finite Lo = true) /\ (Hi = Pinf \/ is_finite Hi = true).
  Proof.
    unfold bracket_of. destruct one_delta as (D & -> & HD).
    assert (Hz : nn Bzero) by (right; split; [reflexivity|cbn; lra]).
    assert (Hz' : np Bzero) by (right; split; [reflexivity|cbn; lra]).
    assert (Hfu : (1024 - 0 + 2 <= Z.of_nat expand_fuel)%Z) by (unfold expand_fuel; lia).
    rewrite b64_zero_B.
    destruct (b64_lt (c (B2SF Bzero)) y).
    - destruct (expand_up_ends y expand_fuel 0 Bzero Bzero D (B2SF Bzero) (c (B2SF Bzero))
                  ltac:(lia) eq_refl Hz HD Hfu) as (Lo & Hi & loY & hiY & E & FL & HH).
      exists Lo, Hi, loY, hiY. split; [exact E|]. split; [now right|now apply nn_shape].
    - destruct (expand_down_ends y expand_fuel 0 Bzero Bzero D (c (B2SF Bzero)) (B2SF Bzero)
                  ltac:(lia) Hz' eq_refl HD Hfu) as (Lo & Hi & loY & hiY & E & HL & FH).
      exists Lo, Hi, loY, hiY. split; [exact E|]. split; [now apply np_shape|now right].
  Qed.

  (** ** bisection on a finite bracket never exhausts its fuel *)
  Lemma bisect_no_fuel (g : b64 -> bool) (Lo Hi : Bf) fuel :
    (bisect_steps_bound <= fuel)%nat ->
    is_finite Lo = true -> is_finite Hi = true ->
    bisect_in_range (B2SF Lo) = true -> bisect_in_range (B2SF Hi) = true ->
    bisect_bool (total_f g) fuel (B2SF Lo) (B2SF Hi) k_xtol <> BFuel /\
    bisect_bool (total_f g) fuel (B2SF Lo) (B2SF Hi) k_xtol <> BMiss.
  Proof.
    intros Hfuel FL FH RL RH.
    destruct (bisect_brackets_partial g fuel (B2SF Lo) (B2SF Hi) k_xtol) as (Hp & Hm & _).
    split; [|exact Hm].
    destruct (Bool.eqb (g (B2SF Lo)) (g (B2SF Hi))) eqn:Eg.
    { apply Bool.eqb_prop in Eg. apply Hp in Eg. rewrite Eg. discriminate. }
    apply Bool.eqb_false_iff in Eg.
    destruct (b64_lt (B2SF Lo) (B2SF Hi)) eqn:Elt.
    - destruct (bisect_brackets g fuel (B2SF Lo) (B2SF Hi) k_xtol
                  (valid_binary_B2SF 53 1024 Lo) (valid_binary_B2SF 53 1024 Hi) Elt RL RH Eg
                  Hfuel) as (x1 & x2 & E & _).
      rewrite E. discriminate.
    - (* high <= low: the first test  high - low <= xtol  succeeds *)
      pose proof (b64_lt_false_R Lo Hi FL FH Elt) as Hle.
      unfold bisect_bool. rewrite !total_f_eq.
      destruct (Bool.eqb (g (B2SF Lo)) (g (B2SF Hi))); [discriminate|].
      destruct fuel as [|f]; [exfalso; unfold bisect_steps_bound in Hfuel; lia|].
      cbn [bisect_loop].
      assert (Vx : valid k_xtol = true) by reflexivity.
      destruct (lift_valid k_xtol Vx) as [Xt Ex]. rewrite Ex.
      assert (FXt : is_finite Xt = true) by (rewrite <- sf_finite_B2SF, <- Ex; reflexivity).
      assert (PXt : 0 <= B2R Xt).
      { rewrite <- SF2R_B2SF, <- Ex. cbn. apply F2R_ge_0. cbn. lia. }
      assert (Hd : RN (B2R Hi - B2R Lo) <= 0).
      { rewrite <- (round_0 radix2 fexp64 ZnearestE). apply RN_le. lra. }
      rewrite b64_sub_Bminus.
      pose proof (Bminus_correct 53 1024 _ _ mode_NE Hi Lo FH FL) as H. cbn [round_mode] in H.
      destruct (Rlt_bool_spec (Rabs (RN (B2R Hi - B2R Lo))) (bpow radix2 1024)) as [L|L].
      + destruct H as (H1 & H2 & _).
        rewrite (b64_le_of_R _ Xt H2 FXt) by (rewrite H1; lra). discriminate.
      + destruct H as [H Hs]. apply overflow_inf in H. rewrite H.
        assert (Hlt : B2R Hi < B2R Lo).
        { destruct (Req_dec (B2R Hi) (B2R Lo)) as [E|E]; [|lra].
          rewrite E, Rminus_diag_eq in L by reflexivity. pose proof RN_small_0. lra. }
        destruct (Bsign Hi) eqn:SH.
        * replace (b64_le (B2SF (B754_infinity true)) (B2SF Xt)) with true; [discriminate|].
          destruct Xt; try discriminate; reflexivity.
        * exfalso. symmetry in Hs. apply negb_false_iff in Hs.
          assert (0 <= B2R Hi).
          { destruct (Rle_or_lt 0 (B2R Hi)) as [P|P]; [exact P|].
            rewrite (Bsign_neg Hi FH P) in SH. discriminate. }
          assert (B2R Lo <= 0).
          { destruct (Rle_or_lt (B2R Lo) 0) as [P|P]; [exact P|].
            rewrite (Bsign_pos Lo FL P) in Hs. discriminate. }
          lra.
  Qed.

  (** Theorem (inv_cdf_total): for a total CDF and 0 < y < 1, InvCDF as coded
      terminates within the model's fuel and needs no absent oracle answer,
      provided a finite bracket stays below 2^1023 in magnitude *)
  Theorem inv_cdf_total bounds y :
    b64_lt b64_zero y = true -> b64_lt y b64_one = true ->
    (forall loX loY hiX hiY, bracket_of y = Val (loX, loY, hiX, hiY) ->
       b64_is_finite loX = true -> b64_is_finite hiX = true ->
       bisect_in_range loX = true /\ bisect_in_range hiX = true) ->
    inv_cdf tcdf_total bounds y <> IFuel /\ inv_cdf tcdf_total bounds y <> IMiss.
  Proof.
    intros H0 H1 Hrange.
    set (r := inv_cdf tcdf_total bounds y).
    assert (Er : r = inv_cdf tcdf_total bounds y) by reflexivity. clearbody r.
    unfold inv_cdf in Er.
    assert (E1 : b64_lt y b64_zero || b64_gt y b64_one = false).
    { apply orb_false_iff. split.
      - destruct y as [s|[|]| |[|] m e]; try discriminate; reflexivity.
      - apply (LegacySort.b64_lt_asym _ _ H1). }
    rewrite E1 in Er.
    assert (E2 : b64_eq y b64_zero = false).
    { destruct y as [s|[|]| |[|] m e]; try discriminate; reflexivity. }
    assert (E3 : b64_eq y b64_one = false).
    { revert H1. unfold b64_lt, b64_eq, SFltb, SFeqb.
      destruct (SFcompare y b64_one) as [[| |]|]; try discriminate; reflexivity. }
    rewrite E2, E3 in Er. unfold tcdf_total at 1 in Er. cbn [ires_of] in Er.
    fold (bracket_of y) in Er.
    destruct (bracket_total y) as (Lo & Hi & loY & hiY & Eb & HLo & HHi).
    rewrite Eb in Er. cbn [ires_of] in Er.
    destruct (b64_eq (B2SF Lo) k_ninf) eqn:EL; [subst r; split; discriminate|].
    destruct (b64_eq (B2SF Hi) k_inf) eqn:EH; [subst r; split; discriminate|].
    assert (FL : is_finite Lo = true) by (destruct HLo as [->|F]; [discriminate|exact F]).
    assert (FH : is_finite Hi = true) by (destruct HHi as [->|F]; [discriminate|exact F]).
    destruct (Hrange _ _ _ _ Eb) as [RL RH]; try (now rewrite b64_is_finite_B2SF).
    change (fun x : b64 => res_map (fun c0 : b64 => b64_lt c0 y) (tcdf_total x))
      with (total_f (fun x => b64_lt (c x) y)) in Er.
    destruct (bisect_no_fuel (fun x => b64_lt (c x) y) Lo Hi bisect_fuel bisect_fuel_sufficient FL FH RL RH) as [Nf Nm].
    destruct (bisect_bool _ _ _ _ _); try congruence; subst r; split; discriminate.
  Qed.
End Total.
