(** Lines of other classes are inert: inserting (or removing) one anywhere in
    an input changes nothing but the line numbers of what follows. *)
From Perf Require Import Base.Bytes Base.B64 Base.Utf8 Model.Name Model.Extract Model.Units Model.Reader
  Proofs.ReaderSlots Proofs.Reader.

(** renumbering by [d] lines *)
Definition shift_rec (d : Z) (r : record) : record :=
  match r with
  | RRes r => RRes (mkResult (r_cfg r) (r_name r) (r_iters r) (r_vals r) (r_file r) (r_line r + d))
  | RUnit u => RUnit (mkUmetap (up_meta u) (up_file u) (up_line u + d))
  | RErr f l k => RErr f (l + d)%Z k
  end.

(** two reader states that differ at most in the line numbers remembered in the unit table *)
Definition same_meta (a b : umetap) : Prop := up_meta a = up_meta b /\ up_file a = up_file b.
Definition Rel (s1 s2 : rstate) : Prop := rs_cfg s2 = rs_cfg s1 /\ Forall2 same_meta (rs_units s1) (rs_units s2).

Lemma Rel_refl s : Rel s s.
Proof. split; [reflexivity|]. induction (rs_units s); constructor; auto. split; reflexivity. Qed.

Lemma umap_find_rel m1 m2 tu k : Forall2 same_meta m1 m2 ->
  match umap_find m1 tu k, umap_find m2 tu k with
  | Some a, Some b => up_meta a = up_meta b
  | None, None => True
  | _, _ => False
  end.
Proof.
  induction 1 as [|a b m1 m2 [Hm Hf] _ IH]; cbn [umap_find find]; [exact I|].
  rewrite <- Hm. destruct (beq (u_unit (up_meta a)) tu && beq (u_key (up_meta a)) k); [exact Hm|exact IH].
Qed.

Section Inert.
Variables is_space is_lower is_upper : N -> bool.
Variable atoi : bytes -> option Z.
Variable parse_float : bytes -> option b64.
Notation step := (step is_space is_lower is_upper atoi parse_float).
Notation read_lines := (read_lines is_space is_lower is_upper atoi parse_float).
Notation classify := (classify is_space is_lower is_upper atoi parse_float).

Lemma unit_fields_shift fname n d unit tu fs : forall m1 m2, Forall2 same_meta m1 m2 ->
  let '(rs1, m1') := unit_fields fname n unit tu fs m1 in
  let '(rs2, m2') := unit_fields fname (n + d) unit tu fs m2 in
  rs2 = map (shift_rec d) rs1 /\ Forall2 same_meta m1' m2'.
Proof.
  induction fs as [|f fs IH]; intros m1 m2 Hm; cbn [unit_fields].
  - split; [reflexivity|exact Hm].
  - destruct (parse_unit_field f) as [|k v].
    + specialize (IH m1 m2 Hm). destruct (unit_fields fname n unit tu fs m1), (unit_fields fname (n + d) unit tu fs m2).
      destruct IH as [-> H]. split; [reflexivity|exact H].
    + pose proof (umap_find_rel m1 m2 tu k Hm) as Hf.
      destruct (umap_find m1 tu k) as [a|], (umap_find m2 tu k) as [b|]; try contradiction.
      * rewrite <- Hf. destruct (beq (u_value (up_meta a)) v); [apply IH; exact Hm|].
        specialize (IH m1 m2 Hm). destruct (unit_fields fname n unit tu fs m1), (unit_fields fname (n + d) unit tu fs m2).
        destruct IH as [-> H]. split; [reflexivity|exact H].
      * assert (Hm' : Forall2 same_meta (m1 ++ [mkUmetap (mkUmeta tu k unit v) fname n])
                                        (m2 ++ [mkUmetap (mkUmeta tu k unit v) fname (n + d)])).
        { apply Forall2_app; [exact Hm|]. constructor; [split; reflexivity|constructor]. }
        specialize (IH _ _ Hm').
        destruct (unit_fields fname n unit tu fs (m1 ++ _)), (unit_fields fname (n + d) unit tu fs (m2 ++ _)).
        destruct IH as [-> H]. split; [reflexivity|exact H].
Qed.

Lemma step_shift fname n d s1 s2 line : Rel s1 s2 ->
  let '(rs1, s1') := step fname n s1 line in
  let '(rs2, s2') := step fname (n + d) s2 line in
  rs2 = map (shift_rec d) rs1 /\ Rel s1' s2'.
Proof.
  intros [Hc Hu]. unfold Reader.step.
  destruct (classify line) as [[|k|name iters vals]|fs|k v|].
  - split; [reflexivity|split; assumption].
  - split; [reflexivity|split; assumption].
  - rewrite Hc. split; [reflexivity|split; assumption].
  - unfold unit_line. destruct fs as [|u fs].
    + split; [reflexivity|split; assumption].
    + pose proof (unit_fields_shift fname n d u (snd (tidy is_space b64_one u)) fs _ _ Hu) as H.
      destruct (unit_fields fname n u _ fs (rs_units s1)), (unit_fields fname (n + d) u _ fs (rs_units s2)).
      destruct H as [-> H]. split; [reflexivity|]. split; [exact Hc|exact H].
  - rewrite Hc. split; [reflexivity|]. split; [reflexivity|exact Hu].
  - split; [reflexivity|split; assumption].
Qed.

(** a whole block of lines read [d] lines further down *)
Lemma read_lines_shift fname d ls : forall n s1 s2, Rel s1 s2 ->
  let '(rs1, e1, s1') := read_lines fname n s1 ls in
  let '(rs2, e2, s2') := read_lines fname (n + d) s2 ls in
  rs2 = map (shift_rec d) rs1 /\ e2 = option_map (fun x => x + d)%Z e1 /\ Rel s1' s2'.
Proof.
  induction ls as [|[b|] ls IH]; intros n s1 s2 HR; cbn [Reader.read_lines].
  - split; [reflexivity|split; [reflexivity|exact HR]].
  - pose proof (step_shift fname (n + 1) d s1 s2 b HR) as Hs.
    replace (n + d + 1)%Z with (n + 1 + d)%Z by lia.
    destruct (step fname (n + 1) s1 b) as [ra s1a], (step fname (n + 1 + d) s2 b) as [rb s2a].
    destruct Hs as [-> HR']. specialize (IH (n + 1)%Z s1a s2a HR').
    destruct (read_lines fname (n + 1) s1a ls) as [[r1 e1] t1], (read_lines fname (n + 1 + d) s2a ls) as [[r2 e2] t2].
    destruct IH as (-> & -> & HR''). split; [now rewrite map_app|split; [reflexivity|exact HR'']].
  - split; [reflexivity|split; [reflexivity|exact HR]].
Qed.

Lemma read_lines_app fname a : forall b n st,
  read_lines fname n st (a ++ b) =
  let '(ra, ea, sta) := read_lines fname n st a in
  match ea with
  | Some _ => (ra, ea, sta)
  | None => let '(rb, eb, stb) := read_lines fname (n + Z.of_nat (length a)) sta b in (ra ++ rb, eb, stb)
  end.
Proof.
  induction a as [|[l|] a IH]; intros b n st; cbn [app Reader.read_lines length].
  - rewrite Z.add_0_r. destruct (read_lines fname n st b) as [[rb eb] stb]. reflexivity.
  - destruct (step fname (n + 1) st l) as [rs st1]. rewrite IH.
    destruct (read_lines fname (n + 1) st1 a) as [[ra ea] sta]. destruct ea; [reflexivity|].
    replace (n + 1 + Z.of_nat (length a))%Z with (n + Z.of_nat (S (length a)))%Z by lia.
    destruct (read_lines fname _ sta b) as [[rb eb] stb]. now rewrite app_assoc.
  - reflexivity.
Qed.

Definition inert (line : bytes) : Prop := classify line = LOther \/ classify line = LBench BSkip.

(** insertion (read upwards: removal) of an inert line after the block [pre]:
    what [pre] yields is unchanged, what [post] yields is the same one line
    further down, the I/O outcome moves with it, and the final states differ
    at most in remembered line numbers *)
Theorem other_lines_inert fname n st pre post b ra sta rb e stb :
  inert b ->
  read_lines fname n st pre = (ra, None, sta) ->
  read_lines fname (n + Z.of_nat (length pre)) sta post = (rb, e, stb) ->
  read_lines fname n st (pre ++ post) = (ra ++ rb, e, stb) /\
  exists stb',
    read_lines fname n st (pre ++ Line b :: post)
      = (ra ++ map (shift_rec 1) rb, option_map (fun x => x + 1)%Z e, stb') /\
    Rel stb stb'.
Proof.
  intros Hin Hpre Hpost. split.
  - rewrite read_lines_app, Hpre, Hpost. reflexivity.
  - rewrite read_lines_app, Hpre. cbn [Reader.read_lines].
    assert (Hstep : step fname (n + Z.of_nat (length pre) + 1) sta b = ([], sta)).
    { unfold Reader.step. destruct Hin as [-> | ->]; reflexivity. }
    rewrite Hstep.
    pose proof (read_lines_shift fname 1 post (n + Z.of_nat (length pre))%Z sta sta (Rel_refl sta)) as Hs.
    rewrite Hpost in Hs.
    destruct (read_lines fname (n + Z.of_nat (length pre) + 1) sta post) as [[r2 e2] s2].
    destruct Hs as (-> & -> & HR). exists s2. split; [reflexivity|exact HR].
Qed.

End Inert.
