(** C08: how the precise form of projections_plus_residue_lossless
    (Proofs/Lossless.v, [same_info]) maps onto the property's prose.

    1. Configuration. The prose says "the same file configuration"; the precise
       form compares an individually projected key by its looked-up value (file
       OR internal entry) and only the remaining keys by their file values. The
       two coincide when no individually projected key is internal in one result
       and file (or absent) in the other ([same_info_same_kind]); they are the
       prose verbatim when no individually projected key is internal at all
       ([same_info_file_only]).
    2. Names. Clause (iv) compares the names with the parts of the individually
       projected name keys deleted ([extractor_fullname_spec]: every part owned
       by such a key goes). For names whose sub-name keys are distinct
       ([DistinctSubKeys]) each deleted part is exactly the part whose value
       clause (iii) compares ([deleted_parts_are_read]), so nothing is dropped
       unseen; without that hypothesis a second "/k=..." part is deleted although
       nobody reads it. *)
From Perf Require Import Base.Bytes Model.Name Model.Extract Model.Key Model.Projection
  Proofs.Name Proofs.Extract Proofs.Exclusion Proofs.KeyGet Proofs.Lossless.

(** ** configuration *)
Definition internal_in (c : list cfg) (k : bytes) : bool :=
  match cfg_lookup c k with Some x => negb (c_file x) | None => false end.

Lemma not_internal_val c k : internal_in c k = false -> extract_config c k = cfg_file_val c k.
Proof.
  unfold internal_in, extract_config, cfg_file_val. destruct (cfg_lookup c k) as [x|]; auto.
  destruct (c_file x); [auto|discriminate].
Qed.

Lemma internal_file_val c k : internal_in c k = true -> cfg_file_val c k = [].
Proof.
  unfold internal_in, cfg_file_val. destruct (cfg_lookup c k) as [x|]; auto.
  destruct (c_file x); [discriminate|auto].
Qed.

(** "the same file configuration" (a key without a file entry reads as "") *)
Definition file_cfg_equal (a b : result) : Prop :=
  forall k, cfg_file_val (r_cfg a) k = cfg_file_val (r_cfg b) k.

Theorem same_info_same_kind C E a b :
  (forall k, In k C -> internal_in (r_cfg a) k = internal_in (r_cfg b) k) ->
  (same_info C E a b <->
   file_cfg_equal a b /\
   (forall k, In k C -> internal_in (r_cfg a) k = true ->
      extract_config (r_cfg a) k = extract_config (r_cfg b) k) /\
   (forall k, In k E -> extract k (r_name a) (r_cfg a) = extract k (r_name b) (r_cfg b)) /\
   extractor_fullname E (r_name a) = extractor_fullname E (r_name b)).
Proof.
  intros Hkind. unfold same_info. split.
  - intros [S1 [S2 [S3 S4]]]. split; [|split; [|split]]; auto.
    intros k. destruct (mem k C) eqn:Em.
    + apply mem_In in Em. destruct (internal_in (r_cfg a) k) eqn:Ia.
      * rewrite (internal_file_val _ _ Ia). rewrite (Hkind k Em) in Ia. now rewrite (internal_file_val _ _ Ia).
      * rewrite <- (not_internal_val _ _ Ia). rewrite (Hkind k Em) in Ia.
        rewrite <- (not_internal_val _ _ Ia). auto.
    + apply S2. intros Hc. apply mem_In in Hc. congruence.
  - intros [F [S1 [S3 S4]]]. split; [|split; [|split]]; auto.
    intros k Hk. destruct (internal_in (r_cfg a) k) eqn:Ia; auto.
    rewrite (not_internal_val _ _ Ia). rewrite (Hkind k Hk) in Ia. rewrite (not_internal_val _ _ Ia). apply F.
Qed.

(** the prose, verbatim *)
Theorem same_info_file_only C E a b :
  (forall k, In k C -> internal_in (r_cfg a) k = false /\ internal_in (r_cfg b) k = false) ->
  (same_info C E a b <->
   file_cfg_equal a b /\
   (forall k, In k E -> extract k (r_name a) (r_cfg a) = extract k (r_name b) (r_cfg b)) /\
   extractor_fullname E (r_name a) = extractor_fullname E (r_name b)).
Proof.
  intros H. rewrite same_info_same_kind.
  - split; [tauto|]. intros [H1 [H2 H3]]. repeat split; auto.
    intros k Hk Hi. destruct (H k Hk). congruence.
  - intros k Hk. destruct (H k Hk). congruence.
Qed.

(** the stream-level statements *)
Theorem lossless_same_kind calls rest a b (ia ib ka kb : nat -> nat) :
  Forall call_ok calls -> Forall no_parse rest -> Forall op_wf rest ->
  let pa := parser_after calls in
  let w0 := fst (run_ops new_world (parse_ops calls ++ [OpResidue])) in
  let xs := snd (run_ops w0 rest) in
  (forall pi, pi <= length calls ->
     nth_error rest (ia pi) = Some (OpProject pi a) /\ nth_error xs (ia pi) = Some (OutKeys [ka pi]) /\
     nth_error rest (ib pi) = Some (OpProject pi b) /\ nth_error xs (ib pi) = Some (OutKeys [kb pi])) ->
  (forall k, In k (pp_cfg pa) -> internal_in (r_cfg a) k = internal_in (r_cfg b) k) ->
  ((forall pi, pi <= length calls -> ka pi = kb pi) <->
   file_cfg_equal a b /\
   (forall k, In k (pp_cfg pa) -> internal_in (r_cfg a) k = true ->
      extract_config (r_cfg a) k = extract_config (r_cfg b) k) /\
   (forall k, In k (pp_full pa) -> extract k (r_name a) (r_cfg a) = extract k (r_name b) (r_cfg b)) /\
   extractor_fullname (pp_full pa) (r_name a) = extractor_fullname (pp_full pa) (r_name b)).
Proof.
  intros Hok Hnp Hwf. cbv zeta. intros Hpos Hkind.
  rewrite <- (same_info_same_kind _ _ _ _ Hkind).
  exact (projections_plus_residue_lossless calls rest a b ia ib ka kb Hok Hnp Hwf Hpos).
Qed.

Theorem lossless_file_only calls rest a b (ia ib ka kb : nat -> nat) :
  Forall call_ok calls -> Forall no_parse rest -> Forall op_wf rest ->
  let pa := parser_after calls in
  let w0 := fst (run_ops new_world (parse_ops calls ++ [OpResidue])) in
  let xs := snd (run_ops w0 rest) in
  (forall pi, pi <= length calls ->
     nth_error rest (ia pi) = Some (OpProject pi a) /\ nth_error xs (ia pi) = Some (OutKeys [ka pi]) /\
     nth_error rest (ib pi) = Some (OpProject pi b) /\ nth_error xs (ib pi) = Some (OutKeys [kb pi])) ->
  (forall k, In k (pp_cfg pa) -> internal_in (r_cfg a) k = false /\ internal_in (r_cfg b) k = false) ->
  ((forall pi, pi <= length calls -> ka pi = kb pi) <->
   file_cfg_equal a b /\
   (forall k, In k (pp_full pa) -> extract k (r_name a) (r_cfg a) = extract k (r_name b) (r_cfg b)) /\
   extractor_fullname (pp_full pa) (r_name a) = extractor_fullname (pp_full pa) (r_name b)).
Proof.
  intros Hok Hnp Hwf. cbv zeta. intros Hpos Hkind.
  rewrite <- (same_info_file_only _ _ _ _ Hkind).
  exact (projections_plus_residue_lossless calls rest a b ia ib ka kb Hok Hnp Hwf Hpos).
Qed.

(** ** names *)
Definition starts_dash (p : bytes) : bool :=
  match p with c :: _ => Byte.eqb c c_dash | [] => false end.

(** part [p] of a name belongs to the individually projected name key [k] *)
Definition owns (k p : bytes) : bool :=
  (is_subname_key k && has_prefix p (k ++ [c_eq])) || (beq key_gomaxprocs k && starts_dash p).

Lemma existsb_or_and {A} (f g : A -> bool) d l :
  existsb f l || (existsb g l && d) = existsb (fun k => f k || (g k && d)) l.
Proof.
  induction l as [|a l IH]; cbn [existsb]; [reflexivity|]. rewrite <- IH.
  destruct (f a), (g a), d, (existsb f l), (existsb g l); reflexivity.
Qed.

Lemma part_deleted_owns E p :
  part_deleted (delete_list E) (existsb (beq key_gomaxprocs) E) p = existsb (fun k => owns k p) E.
Proof.
  unfold part_deleted, delete_list. rewrite existsb_map, existsb_filter. fold (starts_dash p).
  apply (existsb_or_and (fun x => is_subname_key x && has_prefix p (x ++ [c_eq])) (beq key_gomaxprocs)).
Qed.

(** clause (iv), declaratively: ".name" replaces the base name by "*"; every part
    owned by an individually projected name key is deleted; nothing else changes *)
Theorem extractor_fullname_spec E n :
  extractor_fullname E n =
  (if existsb (beq key_name) E then [c_star] else fst (parts n))
    ++ concat (filter (fun p => negb (existsb (fun k => owns k p) E)) (snd (parts n))).
Proof.
  unfold extractor_fullname. cbv zeta. fold (delete_list E).
  assert (Hf : forall ps, filter (fun p => negb (part_deleted (delete_list E) (existsb (beq key_gomaxprocs) E) p)) ps
                 = filter (fun p => negb (existsb (fun k => owns k p) E)) ps).
  { intros ps. apply filter_ext_all. intros p. now rewrite part_deleted_owns. }
  match goal with |- (if ?c then _ else _) = _ => destruct c eqn:Efast end.
  - apply andb_prop in Efast as [Ea Eg]. apply andb_prop in Ea as [Ed En].
    apply negb_true_iff in En, Eg. rewrite En.
    rewrite <- Hf. rewrite filter_all_id.
    + symmetry. apply parts_concat.
    + intros p _. unfold part_deleted. rewrite Eg. destruct (delete_list E); [reflexivity|discriminate].
  - rewrite full_excluded_fastpath. unfold slow_full_excluded.
    destruct (parts n) as [b ps]. cbn [fst snd]. now rewrite Hf.
Qed.

(** the sub-name keys of a name are distinct: no individually projected name key
    owns two parts of it *)
Definition DistinctSubKeys (E : list bytes) (n : bytes) : Prop :=
  forall k, In k E -> length (filter (owns k) (snd (parts n))) <= 1.

Lemma filter_le1_eq {A} (f : A -> bool) l a b :
  length (filter f l) <= 1 -> In a l -> In b l -> f a = true -> f b = true -> a = b.
Proof.
  intros Hl Ha Hb Hfa Hfb.
  assert (In a (filter f l)) as Ia by (apply filter_In; auto).
  assert (In b (filter f l)) as Ib by (apply filter_In; auto).
  destruct (filter f l) as [|x [|y t]]; cbn in *; try lia; intuition congruence.
Qed.

Lemma subname_not_dot k : is_subname_key k = true -> starts_dash (k ++ [c_eq]) = false.
Proof. destruct k as [|c k]; [discriminate|]. cbn. destruct (beqb_spec c c_slash) as [->|]; [reflexivity|discriminate]. Qed.

Lemma prefixed_not_dash k p : is_subname_key k = true -> has_prefix p (k ++ [c_eq]) = true -> starts_dash p = false.
Proof.
  intros Hk Hp. apply has_prefix_spec in Hp as [r ->]. destruct k as [|c k]; [discriminate|].
  cbn in *. destruct (beqb_spec c c_slash) as [->|]; [reflexivity|discriminate].
Qed.

(** every deleted part is the part that one of the individually projected name
    keys reads: it is "/k=" followed by the value of /k, or "-" followed by the
    value of /gomaxprocs *)
Theorem deleted_parts_are_read E n c p :
  DistinctSubKeys E n -> In p (snd (parts n)) ->
  existsb (fun k => owns k p) E = true ->
  exists k, In k E /\ owns k p = true /\
    p = (if starts_dash p then [c_dash] else k ++ [c_eq]) ++ extract k n c.
Proof.
  intros HD Hp Hex. apply existsb_exists in Hex as [k [Hk Ho]]. exists k. split; [exact Hk|]. split; [exact Ho|].
  specialize (HD k Hk).
  destruct (parts_shape n) as [ps [g [Hps [_ [Hsl Hg]]]]].
  assert (Hdash : forall q, In q (snd (parts n)) -> starts_dash q = true -> last_opt (snd (parts n)) = Some q).
  { intros q Hq Hd. rewrite Hps in Hq |- *. apply in_app_or in Hq as [Hq|Hq].
    - exfalso. rewrite Forall_forall in Hsl. destruct (Hsl q Hq) as [s [-> _]]. discriminate.
    - destruct g as [g|]; [|destruct Hq]. destruct Hq as [<-|[]]. cbn. apply last_opt_snoc. }
  unfold owns in Ho. apply orb_prop in Ho as [Ho|Ho]; apply andb_prop in Ho as [H1 H2].
  - (* a "/k=..." part *)
    rewrite (prefixed_not_dash k p H1 H2). rewrite extract_subname by auto. unfold extract_namepart.
    assert (Hby : match find_prefixed (snd (parts n)) (k ++ [c_eq]) with Some v => v | None => [] end
                  = skipn (length (k ++ [c_eq])) p).
    { pose proof (find_prefixed_inv (snd (parts n)) (k ++ [c_eq])) as Hi.
      destruct (find_prefixed (snd (parts n)) (k ++ [c_eq])) as [v|].
      - destruct Hi as [l1 [l2 [Hl _]]].
        assert (In ((k ++ [c_eq]) ++ v) (snd (parts n))) as Hq by (rewrite Hl; apply in_or_app; right; now left).
        assert (p = (k ++ [c_eq]) ++ v) as ->.
        { apply (filter_le1_eq (owns k) (snd (parts n))); [exact HD|exact Hp|exact Hq| |].
          - unfold owns. now rewrite H1, H2.
          - unfold owns. now rewrite H1, has_prefix_app. }
        now rewrite skipn_app, skipn_all, Nat.sub_diag.
      - exfalso. rewrite Forall_forall in Hi. specialize (Hi p Hp). unfold no_prefix in Hi. congruence. }
    assert (Hval : (if beq k key_gomaxprocs
                    then match last_opt (snd (parts n)) with
                         | Some (c0 :: rest) => if Byte.eqb c0 c_dash then rest
                             else match find_prefixed (snd (parts n)) (k ++ [c_eq]) with Some v => v | None => [] end
                         | _ => match find_prefixed (snd (parts n)) (k ++ [c_eq]) with Some v => v | None => [] end
                         end
                    else match find_prefixed (snd (parts n)) (k ++ [c_eq]) with Some v => v | None => [] end)
                   = skipn (length (k ++ [c_eq])) p).
    { destruct (beq_spec k key_gomaxprocs) as [->|]; [|exact Hby].
      destruct (last_opt (snd (parts n))) as [[|c0 rest]|] eqn:El; try exact Hby.
      destruct (beqb_spec c0 c_dash) as [->|]; [|exact Hby]. exfalso.
      assert (In (c_dash :: rest) (snd (parts n))) as Hl by now apply last_opt_in.
      assert (p = c_dash :: rest) as ->.
      { apply (filter_le1_eq (owns key_gomaxprocs) (snd (parts n))); [exact HD|exact Hp|exact Hl| |].
        - unfold owns. now rewrite H1, H2.
        - unfold owns. change (starts_dash (c_dash :: rest)) with true.
          change (beq key_gomaxprocs key_gomaxprocs) with true. apply orb_true_r. }
      pose proof (prefixed_not_dash _ _ H1 H2) as Hn. discriminate. }
    rewrite Hval. now apply has_prefix_skipn.
  - (* the trailing "-N" *)
    apply beq_eq in H1. subst k. rewrite H2. rewrite extract_subname by reflexivity. rewrite beq_refl.
    unfold extract_namepart. rewrite (Hdash p Hp H2).
    destruct p as [|c0 rest]; [discriminate|]. cbn in H2. rewrite H2. apply beqb_eq in H2. now subst.
Qed.
