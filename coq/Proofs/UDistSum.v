(** Vandermonde's identity on the specification: the weights of all count
    vectors add up to C(N, n1); consequences: the distribution function reaches
    1 at the largest U, the mass function sums to 1. *)
From Coq Require Import ZArith List Bool Lia Permutation.
From Perf Require Import Model.UStat Model.UDistSpec Model.UDistImpl Proofs.UStat Proofs.UDistSpec Proofs.UDistImpl.
Import ListNotations.
Local Open Scope Z_scope.

(** Pascal's rule for the total function [choose] (zero outside 0 <= k <= n) *)
Lemma choose_pascal n k : 0 <= n -> choose (n + 1) k = choose n (k - 1) + choose n k.
Proof.
  intros Hn.
  destruct (Z_lt_dec k 0) as [Hk|Hk]; [rewrite !choose_out by lia; reflexivity|].
  destruct (Z_lt_dec (n + 1) k) as [Hk2|Hk2]; [rewrite !choose_out by lia; reflexivity|].
  destruct (Z.eq_dec k 0) as [->|Hk0].
  - rewrite (choose_out n (0 - 1)) by lia. rewrite !choose_binom by lia. cbn [Z.to_nat].
    destruct (Z.to_nat (n + 1)), (Z.to_nat n); reflexivity.
  - rewrite (choose_binom (n + 1) k) by lia. rewrite (choose_binom n (k - 1)) by lia.
    replace (Z.to_nat (n + 1)) with (S (Z.to_nat n)) by lia.
    replace (Z.to_nat k) with (S (Z.to_nat (k - 1))) by lia. cbn [binom].
    destruct (Z.eq_dec k (n + 1)) as [->|Hk3].
    + rewrite (choose_out n (n + 1)) by lia. rewrite (binom_gt (Z.to_nat n) (S (Z.to_nat (n + 1 - 1)))) by lia. lia.
    + rewrite (choose_binom n k) by lia. replace (S (Z.to_nat (k - 1))) with (Z.to_nat k) by lia. reflexivity.
Qed.

(** Vandermonde's convolution *)
Definition vconv (a b n : Z) : Z := sumf (fun r => choose a r * choose b (n - r)) (zrange 0 a).

Lemma vconv_nat a : forall b n, 0 <= b ->
  sumf (fun r => choose (Z.of_nat a) r * choose b (n - r)) (zrange_aux 0 (S a)) = choose (Z.of_nat a + b) n.
Proof.
  induction a as [|a IH]; intros b n Hb.
  - cbn [zrange_aux]. rewrite sumf_cons. cbn [sumf fold_right Z.of_nat].
    rewrite (choose_binom 0 0) by lia. cbn [Z.to_nat binom]. replace (n - 0) with n by lia.
    replace (0 + b) with b by lia. lia.
  - replace (Z.of_nat (S a)) with (Z.of_nat a + 1) by lia.
    assert (E : forall r, choose (Z.of_nat a + 1) r * choose b (n - r)
                = choose (Z.of_nat a) (r - 1) * choose b (n - r) + choose (Z.of_nat a) r * choose b (n - r)).
    { intros r. rewrite choose_pascal by lia. lia. }
    rewrite (sumf_ext _ _ _ E), sumf_plus.
    (* second sum: the last term vanishes *)
    rewrite (zrange_aux_snoc 0 (S a)) at 2. rewrite sumf_app, sumf_cons. cbn [sumf fold_right].
    rewrite (choose_out (Z.of_nat a) (0 + Z.of_nat (S a))) by lia. rewrite IH by assumption.
    (* first sum: the first term vanishes, the rest is the convolution at n - 1 *)
    change (zrange_aux 0 (S (S a))) with (0 :: zrange_aux (0 + 1) (S a)). rewrite sumf_cons.
    rewrite (choose_out (Z.of_nat a) (0 - 1)) by lia. rewrite sumf_zrange_aux_shift.
    assert (E2 : forall x, choose (Z.of_nat a) (x + 1 - 1) * choose b (n - (x + 1))
                 = choose (Z.of_nat a) x * choose b (n - 1 - x)).
    { intros x. f_equal; f_equal; lia. }
    rewrite (sumf_ext _ _ _ E2), IH by assumption.
    replace (Z.of_nat a + 1 + b) with (Z.of_nat a + b + 1) by lia.
    rewrite (choose_pascal (Z.of_nat a + b) n) by lia. lia.
Qed.

Theorem vandermonde a b n : 0 <= a -> 0 <= b -> vconv a b n = choose (a + b) n.
Proof.
  intros Ha Hb. unfold vconv, zrange.
  replace (Z.to_nat (a - 0 + 1)) with (S (Z.to_nat a)) by lia.
  pose proof (vconv_nat (Z.to_nat a) b n Hb) as H. rewrite Z2Nat.id in H by lia. exact H.
Qed.

Lemma weight_cons tk t rk r : weight (tk :: t) (rk :: r) = choose tk rk * weight t r.
Proof. reflexivity. Qed.

(** the weights of all count vectors add up to C(N, n) *)
Theorem count_all_total t : Forall (fun x => 0 <= x) t -> forall n, count_all t n = total t n.
Proof.
  unfold total. induction 1 as [|tk t Htk Ht IH]; intros n.
  - unfold count_all, count_if. cbn [vecs zsum fold_right].
    destruct (Z.eqb_spec n 0) as [->|Hn].
    + reflexivity.
    + cbn. destruct (Z_lt_dec n 0); rewrite choose_out by lia; reflexivity.
  - unfold count_all, count_if in *. rewrite sumf_vecs_cons by assumption.
    assert (E : forall r, sumf (fun r' => weight (tk :: t) (r :: r')) (vecs t (n - r)) = choose tk r * choose (zsum t) (n - r)).
    { intros r. rewrite <- IH, <- sumf_scale. apply sumf_ext. intros r'. apply weight_cons. }
    rewrite (sumf_ext _ _ _ E). cbn [zsum fold_right]. fold (zsum t).
    apply vandermonde; [assumption|].
    clear -Ht. induction Ht as [|x t Hx Ht IHt]; cbn [zsum fold_right]; [lia|]. fold (zsum t). lia.
Qed.

(** ** range of the statistic *)
Lemma twoU_vec_nonneg tr : Forall (fun p => 0 <= snd p <= fst p) tr -> forall V, 0 <= V -> 0 <= twoU_vec V tr.
Proof.
  induction 1 as [|[t r] tr Hp Htr IH]; intros V HV; cbn [twoU_vec]; [lia|]. cbn [fst snd] in Hp.
  pose proof (IH (V + (t - r)) ltac:(lia)). nia.
Qed.

Lemma twoU_of_range t n r : Forall (fun x => 0 <= x) t -> In r (vecs t n) ->
  0 <= twoU_of t r <= 2 * (n * (zsum t - n)).
Proof.
  intros Ht Hr. destruct (vecs_in _ _ _ Hr) as (Hl & Hs & Hf). split.
  - apply twoU_vec_nonneg; [exact Hf | lia].
  - pose proof (twoU_of_compl t r n Hr) as Hc.
    assert (0 <= twoU_of t (compl t r)); [|lia].
    unfold twoU_of. rewrite <- cpl_combine by exact Hl. apply twoU_vec_nonneg; [|lia].
    unfold cpl. rewrite Forall_map. eapply Forall_impl; [|exact Hf]. cbn. intros [a b]; cbn; lia.
Qed.

Lemma count_le_below t n u : Forall (fun x => 0 <= x) t -> u < 0 -> count_le t n u = 0.
Proof.
  intros Ht Hu. unfold count_le, count_if.
  transitivity (sumf (fun _ : list Z => 0) (vecs t n)); [|apply sumf_zero].
  apply sumf_ext_in. intros r Hr. pose proof (twoU_of_range t n r Ht Hr).
  destruct (Z.leb_spec (twoU_of t r) u); [lia | reflexivity].
Qed.

(** the distribution function reaches 1: every choice has 2U <= 2 n1 n2 *)
Theorem count_le_top t n u : Forall (fun x => 0 <= x) t -> 2 * (n * (zsum t - n)) <= u ->
  count_le t n u = total t n.
Proof.
  intros Ht Hu. rewrite <- count_all_total by assumption. unfold count_le, count_all, count_if.
  apply sumf_ext_in. intros r Hr. pose proof (twoU_of_range t n r Ht Hr).
  destruct (Z.leb_spec (twoU_of t r) u); [reflexivity | lia].
Qed.

(** pmf_sums_to_one: the masses at 2U = 0 .. 2 n1 n2 add up to the number of all choices *)
Lemma count_eq_telescope t n : Forall (fun x => 0 <= x) t -> forall m : nat,
  sumf (fun u => count_eq t n u) (zrange_aux 0 (S m)) = count_le t n (Z.of_nat m).
Proof.
  intros Ht. induction m as [|m IH].
  - cbn [zrange_aux]. rewrite sumf_cons. cbn [sumf fold_right Z.of_nat].
    rewrite (count_le_step t n 0), (count_le_below t n (0 - 1)) by (assumption || lia). lia.
  - rewrite zrange_aux_snoc, sumf_app, IH, sumf_cons. cbn [sumf fold_right].
    rewrite (count_le_step t n (Z.of_nat (S m))). replace (Z.of_nat (S m) - 1) with (Z.of_nat m) by lia.
    replace (0 + Z.of_nat (S m)) with (Z.of_nat (S m)) by lia. lia.
Qed.

Theorem pmf_sums_to_one t n : Forall (fun x => 0 <= x) t -> 0 <= n <= zsum t ->
  sumf (fun u => count_eq t n u) (zrange 0 (2 * (n * (zsum t - n)))) = total t n.
Proof.
  intros Ht Hn. unfold zrange.
  assert (0 <= n * (zsum t - n)) by nia.
  replace (Z.to_nat (2 * (n * (zsum t - n)) - 0 + 1)) with (S (Z.to_nat (2 * (n * (zsum t - n))))) by lia.
  rewrite count_eq_telescope by assumption. apply count_le_top; [assumption | lia].
Qed.
