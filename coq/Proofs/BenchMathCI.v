(** The accumulation walk of go-moremath's QuantileCI (Model/BenchMath.v
    [walk]) in exact arithmetic: the band it returns contains the mode, its
    accumulated mass is exactly the sum of the binomial terms over the band, and
    it stops only when that mass reaches the requested level or the band is
    everything. *)
From Perf Require Import Base.Bytes Base.B64 Model.StatsF Model.MoreMathU Model.BenchMath Model.BenchMathSpec.
Local Open Scope Z_scope.

Lemma sum_from_ext fuel lo f g :
  (forall k, lo <= k < lo + Z.of_nat fuel -> f k = g k) -> sum_from fuel lo f = sum_from fuel lo g.
Proof.
  revert lo. induction fuel as [|fuel IH]; intros lo H; [reflexivity|].
  cbn [sum_from]. rewrite H by lia. rewrite IH; [reflexivity|]. intros k Hk. apply H. lia.
Qed.

Lemma sum_from_scale fuel lo c g :
  sum_from fuel lo (fun k => c * g k) = c * sum_from fuel lo g.
Proof.
  revert lo. induction fuel as [|fuel IH]; intros lo; cbn [sum_from]; [lia|]. rewrite IH. lia.
Qed.

Lemma sum_from_snoc fuel lo f :
  sum_from (S fuel) lo f = sum_from fuel lo f + f (lo + Z.of_nat fuel).
Proof.
  revert lo. induction fuel as [|fuel IH]; intros lo.
  - cbn. replace (lo + 0) with lo by lia. lia.
  - change (sum_from (S (S fuel)) lo f) with (f lo + sum_from (S fuel) (lo + 1) f).
    rewrite IH. cbn [sum_from]. replace (lo + 1 + Z.of_nat fuel) with (lo + Z.of_nat (S fuel)) by lia. lia.
Qed.

Lemma sum_range_left lo hi f : lo <= hi + 1 -> sum_range (lo - 1) hi f = f (lo - 1) + sum_range lo hi f.
Proof.
  intros H. unfold sum_range.
  replace (Z.to_nat (hi - (lo - 1) + 1)) with (S (Z.to_nat (hi - lo + 1))) by lia.
  cbn [sum_from]. replace (lo - 1 + 1) with lo by lia. reflexivity.
Qed.

Lemma sum_range_right lo hi f : lo <= hi + 1 -> sum_range lo (hi + 1) f = sum_range lo hi f + f (hi + 1).
Proof.
  intros H. unfold sum_range.
  replace (Z.to_nat (hi + 1 - lo + 1)) with (S (Z.to_nat (hi - lo + 1))) by lia.
  rewrite sum_from_snoc. f_equal. f_equal. lia.
Qed.

Lemma sum_range_one k f : sum_range k k f = f k.
Proof. unfold sum_range. replace (Z.to_nat (k - k + 1)) with 1%nat by lia. cbn. lia. Qed.

Section ExactWalk.
  Variable n : Z.
  Variable f : Z -> Z.                 (* scaled probabilities *)
  Variable conf : Z.
  Hypothesis Hn : 0 <= n.
  Hypothesis f_pos : forall k, 0 <= k <= n -> 0 < f k.
  Hypothesis f_out : forall k, k < 0 \/ n < k -> f k = 0.

  Let pmf (k : Z) : option Z := Some (f k).

  Lemma walk_exact_inv fuel : forall l r lp rp acc res,
    0 <= l -> l < r -> r <= n + 1 ->
    lp = f (l - 1) -> rp = f r -> acc = sum_range l (r - 1) f ->
    n + 2 <= Z.of_nat fuel + (r - l) ->
    walk Z.add Z.ltb Z.leb 0 pmf conf fuel l r lp rp acc = Some res ->
    let '(l', r', acc') := res in
    0 <= l' /\ l' <= l /\ r <= r' /\ r' <= n + 1
    /\ acc' = sum_range l' (r' - 1) f
    /\ (conf <= acc' \/ (l' = 0 /\ r' = n + 1)).
  Proof.
    induction fuel as [|fuel IH]; intros l r lp rp acc res Hl Hlr Hr Hlp Hrp Hacc Hfuel.
    - cbn in Hfuel. lia.
    - cbn [walk].
      destruct ((acc <? conf) && ((0 <? lp) || (0 <? rp))) eqn:Hgo.
      + apply andb_true_iff in Hgo. destruct Hgo as [Hlt Hpos].
        destruct (rp <=? lp) eqn:Hside.
        * (* left: lp >= rp and one of them positive, so lp > 0, i.e. l - 1 >= 0 *)
          apply Z.leb_le in Hside.
          assert (Hlp0 : 0 < lp).
          { apply orb_true_iff in Hpos. destruct Hpos as [H|H]; apply Z.ltb_lt in H; lia. }
          assert (Hl1 : 0 <= l - 1).
          { destruct (Z_lt_le_dec (l - 1) 0) as [H|H]; auto. rewrite Hlp, f_out in Hlp0 by lia. lia. }
          unfold pmf at 1. intros Hw.
          apply IH in Hw; try lia.
          -- destruct res as ((l', r'), acc'). lia.
          -- f_equal. lia.
          -- rewrite Hacc, Hlp. rewrite (sum_range_left l (r - 1) f) by lia. lia.
        * apply Z.leb_gt in Hside.
          assert (Hrp0 : 0 < rp) by lia.
          assert (Hr1 : r <= n).
          { destruct (Z_lt_le_dec n r) as [H|H]; [|lia]. rewrite Hrp, f_out in Hrp0 by lia. lia. }
          unfold pmf at 1. intros Hw.
          apply IH in Hw; try lia.
          -- destruct res as ((l', r'), acc'). lia.
          -- rewrite Hacc, Hrp. replace (r + 1 - 1) with (r - 1 + 1) by lia.
             rewrite (sum_range_right l (r - 1) f) by lia. replace (r - 1 + 1) with r by lia. lia.
      + intros [= <-]. repeat split; try lia; auto.
        apply andb_false_iff in Hgo. destruct Hgo as [H|H].
        * left. apply Z.ltb_ge in H. lia.
        * right. apply orb_false_iff in H. destruct H as [H1 H2].
          apply Z.ltb_ge in H1. apply Z.ltb_ge in H2. split.
          -- destruct (Z_lt_le_dec 0 l) as [H|H]; [|lia].
             assert (0 < f (l - 1)) by (apply f_pos; lia). lia.
          -- destruct (Z_lt_le_dec r (n + 1)) as [H|H]; [|lia].
             assert (0 < f r) by (apply f_pos; lia). lia.
  Qed.

  Lemma walk_from_mode_exact res :
    walk_from_mode Z.add Z.ltb Z.leb 0 pmf conf n = Some res ->
    let '(l, r, acc) := res in
    0 <= l /\ l <= n / 2 /\ n / 2 < r /\ r <= n + 1
    /\ acc = sum_range l (r - 1) f
    /\ (conf <= acc \/ (l = 0 /\ r = n + 1)).
  Proof.
    unfold walk_from_mode, pmf. intros Hw.
    assert (Hx : 0 <= n / 2 <= n) by (Z.div_mod_to_equations; lia).
    apply walk_exact_inv in Hw; try lia; try reflexivity.
    - destruct res as ((l, r), acc). lia.
    - replace (n / 2 + 1 - 1) with (n / 2) by lia. now rewrite sum_range_one.
  Qed.
End ExactWalk.

(** binomials are positive inside 0..n, for the sizes the exact branch handles *)
Lemma in_range_from fuel lo k : In k (range_from fuel lo) <-> lo <= k < lo + Z.of_nat fuel.
Proof.
  revert lo. induction fuel as [|fuel IH]; intros lo; cbn [range_from In].
  - split; [intros []|lia].
  - rewrite IH. lia.
Qed.
Lemma in_zrange lo hi k : In k (zrange lo hi) <-> lo <= k <= hi.
Proof. unfold zrange. rewrite in_range_from. lia. Qed.

Lemma binom_pos_upto_30 :
  forallb (fun n => forallb (fun k => 0 <? binom n k) (zrange 0 n)) (zrange 0 30) = true.
Proof. vm_compute. reflexivity. Qed.

Lemma binom_pos n k : 0 <= n <= 30 -> 0 <= k <= n -> 0 < binom n k.
Proof.
  intros Hn Hk. pose proof binom_pos_upto_30 as H.
  rewrite forallb_forall in H. specialize (H n (proj2 (in_zrange 0 30 n) Hn)).
  rewrite forallb_forall in H. specialize (H k (proj2 (in_zrange 0 n k) Hk)).
  now apply Z.ltb_lt.
Qed.

Lemma binom_out n k : k < 0 \/ n < k -> binom n k = 0.
Proof.
  intros H. unfold binom.
  destruct (k <? 0) eqn:A; [reflexivity|]. destruct (n <? k) eqn:B; [reflexivity|].
  apply Z.ltb_ge in A. apply Z.ltb_ge in B. lia.
Qed.

(** median interval, exact arithmetic, n <= 30: the band [l, r) contains the
    mode floor(n/2); the accumulated mass is the exact binomial coverage
    sum_{k=l}^{r-1} C(n,k) / 2^n; and that coverage is at least the requested
    level cnum/cden unless the band is everything (coverage 1) *)
Lemma median_ci_coverage_exact n cnum cden l r acc :
  0 <= n <= 30 -> 0 < cden ->
  quantile_ci_exact n cnum cden = Some (l, r, acc) ->
  0 <= l /\ l <= n / 2 /\ n / 2 < r /\ r <= n + 1
  /\ acc = cden * fst (coverage n l r)
  /\ (rat_le (cnum, cden) (coverage n l r) = true \/ (l = 0 /\ r = n + 1)).
Proof.
  intros Hn Hc Hq. unfold quantile_ci_exact in Hq.
  pose (f := fun k => if (k <? 0) || (n <? k) then 0 else cden * binom n k).
  assert (Hf : forall k, pmf_scaled n cden k = Some (f k)) by reflexivity.
  assert (E : walk_from_mode Z.add Z.ltb Z.leb 0 (fun k => Some (f k)) (cnum * 2 ^ n) n = Some (l, r, acc)).
  { exact Hq. }
  apply (walk_from_mode_exact n f (cnum * 2 ^ n)) in E; try lia.
  - destruct E as (H1 & H2 & H3 & H4 & H5 & H6).
    assert (Hfk : forall k, f k = cden * binom n k).
    { intros k. unfold f. destruct (k <? 0) eqn:A.
      - apply Z.ltb_lt in A. rewrite binom_out by lia. cbn. lia.
      - destruct (n <? k) eqn:B; cbn; [|reflexivity].
        apply Z.ltb_lt in B. rewrite binom_out by lia. lia. }
    assert (Hsum : sum_range l (r - 1) f = cden * sum_range l (r - 1) (fun k => binom n k)).
    { unfold sum_range. rewrite (sum_from_ext _ _ f (fun k => cden * binom n k)) by (intros; apply Hfk).
      apply sum_from_scale. }
    repeat split; try lia.
    + rewrite H5, Hsum. reflexivity.
    + destruct H6 as [H6|H6]; [left|right; exact H6].
      unfold rat_le, coverage. cbn [fst snd]. apply Z.leb_le. rewrite H5, Hsum in H6. lia.
  - intros k Hk. unfold f.
    destruct (k <? 0) eqn:A; [apply Z.ltb_lt in A; lia|].
    destruct (n <? k) eqn:B; [apply Z.ltb_lt in B; lia|]. cbn.
    apply Z.mul_pos_pos; [lia|]. apply binom_pos; lia.
  - intros k Hk. unfold f.
    destruct (k <? 0) eqn:A; [reflexivity|]. destruct (n <? k) eqn:B; [reflexivity|].
    apply Z.ltb_ge in A. apply Z.ltb_ge in B. lia.
Qed.
