(** Proofs about Model/Quadrature.v: one Boole panel integrates every polynomial
    of degree <= 5 exactly (so the composite rule's error is of order h^6). *)
From Coq Require Import QArith Field.
From Perf Require Import Model.Quadrature.
Local Open Scope Q_scope.

Definition poly5 (c0 c1 c2 c3 c4 c5 x : Q) : Q :=
  c0 + x * (c1 + x * (c2 + x * (c3 + x * (c4 + x * c5)))).
(** an antiderivative of [poly5] *)
Definition poly5_int (c0 c1 c2 c3 c4 c5 x : Q) : Q :=
  x * (c0 + x * (c1 / 2 + x * (c2 / 3 + x * (c3 / 4 + x * (c4 / 5 + x * (c5 / 6)))))).

Theorem boole_panel_exact_deg5 c0 c1 c2 c3 c4 c5 a h :
  let p := poly5 c0 c1 c2 c3 c4 c5 in
  2 * h / 45 * boole_panel (p a) (p (a + h)) (p (a + 2 * h)) (p (a + 3 * h)) (p (a + 4 * h))
  == poly5_int c0 c1 c2 c3 c4 c5 (a + 4 * h) - poly5_int c0 c1 c2 c3 c4 c5 a.
Proof. cbv zeta. unfold boole_panel, poly5, poly5_int. field. Qed.

(** the composite sum splits panel by panel *)
Lemma boole_sum_cons f0 f1 f2 f3 f4 l r :
  boole_sum (f4 :: l) = Some r ->
  boole_sum (f0 :: f1 :: f2 :: f3 :: f4 :: l) = Some (boole_panel f0 f1 f2 f3 f4 + r).
Proof. intros H. cbn [boole_sum]. cbn [boole_sum] in H. rewrite H. reflexivity. Qed.
