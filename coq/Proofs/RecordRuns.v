(** Proofs about Model/RecordRuns.v: [spec_runs] is the partition into maximal
    runs; the code's records (insert_record with the 990-argument flush) are
    the rule's records whenever no forced flush falls on the first result of a
    run that has a follower; a witness where they differ. *)
From Perf Require Import Base.Bytes Model.Words Model.Query Model.StoreFmt Model.RecordRuns
     Proofs.Query Proofs.StoreFmt.

(** ** identical = equality of the two label maps *)

Definition key_of (r : result) : labels * labels := (r_labels r, r_namelabels r).

Lemma labels_eqb_eq a b : labels_eqb a b = true <-> a = b.
Proof.
  unfold labels_eqb. apply list_eqb_spec. intros [k v] [k' v']. unfold lab_eqb. cbn [fst snd].
  rewrite andb_true_iff, !beq_eq. split; [intros [-> ->]; reflexivity | intros [= -> ->]; auto].
Qed.

Lemma identical_iff a b : identical a b = true <-> key_of a = key_of b.
Proof.
  unfold identical, key_of. rewrite andb_true_iff, !labels_eqb_eq.
  split; [intros [-> ->]; reflexivity | intros [= -> ->]; auto].
Qed.

(** ** [spec_runs] is THE partition into maximal runs *)

(** a run: non-empty, every member carries the labels of the first *)
Definition is_run (g : list result) : Prop :=
  match g with [] => False | r :: rest => Forall (fun x => key_of x = key_of r) rest end.

Definition run_key (g : list result) : option (labels * labels) :=
  match g with [] => None | r :: _ => Some (key_of r) end.

(** consecutive runs carry different labels (so none can be extended) *)
Fixpoint maximal (gs : list (list result)) : Prop :=
  match gs with
  | g :: ((g' :: _) as gs') => run_key g <> run_key g' /\ maximal gs'
  | _ => True
  end.

Lemma spec_runs_concat rs : concat (spec_runs rs) = rs.
Proof.
  induction rs as [|r rs IH]; [reflexivity|]. cbn [spec_runs].
  destruct (spec_runs rs) as [|[|x g] gs]; cbn [concat app] in *; try (rewrite IH; reflexivity).
  destruct (identical r x); cbn [concat app]; rewrite <- IH; reflexivity.
Qed.

Lemma spec_runs_are_runs rs : Forall is_run (spec_runs rs).
Proof.
  induction rs as [|r rs IH]; [constructor|]. cbn [spec_runs].
  destruct (spec_runs rs) as [|[|x g] gs].
  - repeat constructor.
  - inversion IH as [|? ? H]; subst. destruct H.
  - inversion IH as [|? ? Hx Hgs]; subst. destruct (identical r x) eqn:E.
    + constructor; [|exact Hgs]. cbn [is_run] in *. apply identical_iff in E.
      constructor; [symmetry; exact E|]. eapply Forall_impl; [|exact Hx].
      cbn beta. intros y Hy. rewrite Hy. symmetry. exact E.
    + constructor; [constructor | exact IH].
Qed.

Lemma spec_runs_maximal rs : maximal (spec_runs rs).
Proof.
  induction rs as [|r rs IH]; [exact I|]. cbn [spec_runs].
  destruct (spec_runs rs) as [|[|x g] gs] eqn:E.
  - exact I.
  - cbn [maximal]. split; [discriminate | exact IH].
  - destruct (identical r x) eqn:Ei.
    + cbn [maximal] in *. destruct gs as [|g' gs']; [exact I|].
      destruct IH as [Hk Hm]. split; [|exact Hm]. cbn [run_key] in *.
      apply identical_iff in Ei. rewrite Ei. exact Hk.
    + cbn [maximal]. split; [|exact IH]. cbn [run_key]. intros Hk.
      assert (Hk' : key_of r = key_of x) by congruence.
      apply identical_iff in Hk'. congruence.
Qed.

(** the three facts determine the partition: any partition of [rs] into
    maximal runs is [spec_runs rs] *)
Lemma runs_unique : forall gs,
  Forall is_run gs -> maximal gs -> spec_runs (concat gs) = gs.
Proof.
  induction gs as [|g gs IH]; intros Hr Hm; [reflexivity|].
  inversion Hr as [|? ? Hg Hgs]; subst.
  assert (Hm' : maximal gs) by (destruct gs; [exact I | apply Hm]).
  specialize (IH Hgs Hm'). cbn [concat]. clear Hr.
  destruct g as [|r rest]; [destruct Hg|]. cbn [is_run] in Hg.
  revert r Hg Hm. induction rest as [|x rest IHr]; intros r Hg Hm.
  - cbn [app spec_runs]. rewrite IH. destruct gs as [|[|y g'] gs']; try reflexivity.
    destruct (identical r y) eqn:E; [|reflexivity].
    apply identical_iff in E. destruct Hm as [Hk _]. cbn [run_key] in Hk. congruence.
  - inversion Hg as [|? ? Hx Hrest]; subst.
    change ((r :: x :: rest) ++ concat gs) with (r :: (x :: rest) ++ concat gs).
    cbn [spec_runs]. rewrite (IHr x).
    + assert (E : identical r x = true) by (apply identical_iff; symmetry; exact Hx).
      rewrite E. reflexivity.
    + eapply Forall_impl; [|exact Hrest]. cbn beta. intros y Hy. congruence.
    + destruct gs as [|g' gs']; [exact I|]. destruct Hm as [Hk Hm2]. split; [|exact Hm2].
      cbn [run_key] in *. rewrite Hx. exact Hk.
Qed.

(** ** Labels.Equal (as written in Go) is equality on label maps without empty values *)

Definition no_empty (l : labels) : Prop := forall k v, In (k, v) l -> v <> [].

(** sorted, distinct keys; no empty value (an empty value is the recorded
    finding C19_empty_name_label_value: Go's Equal reads a missing key as "") *)
Definition plain (r : result) : Prop :=
  ksorted (r_labels r) /\ ksorted (r_namelabels r)
  /\ no_empty (r_labels r) /\ no_empty (r_namelabels r).

Lemma ksorted_NoDup l : ksorted l -> NoDup l.
Proof.
  induction l as [|[k v] l IH]; intros H; [constructor|]. destruct H as [Ha Hs].
  constructor; [|apply IH; exact Hs]. intros Hin. exact (blt_irrefl k (Ha k v Hin)).
Qed.

Lemma ksorted_ext : forall a b, ksorted a -> ksorted b -> incl a b -> incl b a -> a = b.
Proof.
  induction a as [|[k v] a IH]; intros b Ha Hb Hab Hba.
  - destruct b as [|x b]; [reflexivity|]. destruct (Hba x (or_introl eq_refl)).
  - destruct b as [|[k' v'] b]; [destruct (Hab (k, v) (or_introl eq_refl))|].
    destruct Ha as [Haa Has]. destruct Hb as [Hba' Hbs].
    assert (E : (k, v) = (k', v')).
    { destruct (Hab (k, v) (or_introl eq_refl)) as [E|Hin]; [symmetry; exact E|].
      destruct (Hba (k', v') (or_introl eq_refl)) as [E|Hin2]; [exact E|].
      exfalso. apply (blt_irrefl k). eapply blt_trans; [apply (Haa k' v' Hin2) | apply (Hba' k v Hin)]. }
    inversion E; subst k' v'. f_equal. apply IH; [exact Has | exact Hbs | |].
    + intros [x y] Hx. destruct (Hab (x, y) (or_intror Hx)) as [E2|Hin]; [|exact Hin].
      inversion E2; subst. exfalso. exact (blt_irrefl x (Haa x y Hx)).
    + intros [x y] Hx. destruct (Hba (x, y) (or_intror Hx)) as [E2|Hin]; [|exact Hin].
      inversion E2; subst. exfalso. exact (blt_irrefl x (Hba' x y Hx)).
Qed.

Lemma labels_equal_go_refl l : ksorted l -> labels_equal_go l l = true.
Proof.
  intros Hs. unfold labels_equal_go. rewrite Nat.eqb_refl. cbn [andb].
  apply forallb_forall. intros [k v] Hin. cbn [fst snd].
  rewrite (lookup_In k v l Hs Hin). apply beq_refl.
Qed.

(** the repaired Labels.Equal is equality of label maps (no condition on the values) *)
Lemma labels_equal_go_eq_sorted l b :
  ksorted l -> ksorted b -> labels_equal_go l b = true -> l = b.
Proof.
  intros Hl Hb H. unfold labels_equal_go in H. apply andb_true_iff in H. destruct H as [Hlen Hall].
  apply Nat.eqb_eq in Hlen. rewrite forallb_forall in Hall.
  assert (Hincl : incl l b).
  { intros [k v] Hin. specialize (Hall _ Hin). cbn [fst snd] in Hall.
    destruct (lookup k b) as [v'|] eqn:E; [|discriminate].
    apply beq_eq in Hall. subst v'. apply lookup_Some_In. exact E. }
  apply ksorted_ext; [exact Hl | exact Hb | exact Hincl|].
  apply NoDup_length_incl; [apply ksorted_NoDup; exact Hl | lia | exact Hincl].
Qed.

Lemma labels_equal_go_eq l b :
  ksorted l -> ksorted b -> no_empty l -> labels_equal_go l b = true -> l = b.
Proof. intros Hl Hb _. apply labels_equal_go_eq_sorted; assumption. Qed.

Lemma same_labels_identical a b : plain a -> plain b -> same_labels a b = identical a b.
Proof.
  intros (Ha1 & Ha2 & Ha3 & Ha4) (Hb1 & Hb2 & _ & _).
  destruct (identical a b) eqn:E.
  - apply identical_iff in E. unfold key_of in E. inversion E as [[E1 E2]].
    unfold same_labels. rewrite <- E1, <- E2, !labels_equal_go_refl by assumption. reflexivity.
  - destruct (same_labels a b) eqn:Es; [|reflexivity]. exfalso.
    unfold same_labels in Es. apply andb_true_iff in Es. destruct Es as [E1 E2].
    apply labels_equal_go_eq in E1; [|assumption..]. apply labels_equal_go_eq in E2; [|assumption..].
    assert (Hi : identical a b = true) by (apply identical_iff; unfold key_of; congruence).
    congruence.
Qed.

(** ... for results with sorted keys, whatever the values (also empty ones) *)
Definition sorted_keys (r : result) : Prop := ksorted (r_labels r) /\ ksorted (r_namelabels r).

Lemma same_labels_identical_sorted a b : sorted_keys a -> sorted_keys b -> same_labels a b = identical a b.
Proof.
  intros (Ha1 & Ha2) (Hb1 & Hb2).
  destruct (identical a b) eqn:E.
  - apply identical_iff in E. unfold key_of in E. inversion E as [[E1 E2]].
    unfold same_labels. rewrite <- E1, <- E2, !labels_equal_go_refl by assumption. reflexivity.
  - destruct (same_labels a b) eqn:Es; [|reflexivity]. exfalso.
    unfold same_labels in Es. apply andb_true_iff in Es. destruct Es as [E1 E2].
    apply labels_equal_go_eq_sorted in E1; [|assumption..]. apply labels_equal_go_eq_sorted in E2; [|assumption..].
    assert (Hi : identical a b = true) by (apply identical_iff; unfold key_of; congruence).
    congruence.
Qed.

(** before the repair: {name:X, a:""} and {name:X, b:"y"} compared equal one way round only *)
Lemma labels_equal_unrepaired_refuted :
  exists l b, labels_equal_go_unrepaired l b = true /\ labels_equal_go_unrepaired b l = false /\ l <> b
              /\ labels_equal_go l b = false.
Proof.
  exists [(bs "a", []); (bs "name", bs "X")], [(bs "b", bs "y"); (bs "name", bs "X")].
  repeat split; try (vm_compute; reflexivity). discriminate.
Qed.

(** ** the counter *)

Lemma ins_labels_queue k : forall last pend,
  ins_labels k last pend
  = (if fst (queue_labels k pend) then None else last, snd (queue_labels k pend)).
Proof.
  induction k as [|k IH]; intros last pend; [reflexivity|]. cbn [ins_labels queue_labels].
  destruct (990 <=? pend)%N.
  - rewrite IH. cbn [fst snd]. destruct (fst (queue_labels k 4)); reflexivity.
  - apply IH.
Qed.

(** the closed form of "a flush is forced while queuing k labels" *)
Lemma queue_labels_forced k : forall pend, fst (queue_labels k pend) = flush_forced k pend.
Proof.
  induction k as [|k IH]; intros pend; [reflexivity|]. cbn [queue_labels flush_forced].
  destruct (990 <=? pend)%N eqn:E.
  - cbn [fst]. symmetry. apply N.leb_le. apply N.leb_le in E. lia.
  - rewrite IH. destruct k as [|k']; cbn [flush_forced].
    + symmetry. rewrite <- E. f_equal. lia.
    + f_equal. lia.
Qed.

(** ** the code follows the rule where no flush splits a run *)

Definition new_rec (r : result) : rec := mkRec (r_labels r) (r_namelabels r) (print_one [] r).

(** a result that does not continue the pending record starts a new one *)
Lemma insert_record_new st r :
  match i_last st with Some l => i_recs st = [] \/ same_labels l r = false | None => True end ->
  insert_record st r
  = mkIns (new_rec r :: i_recs st)
          (if fst (queue_labels (nlabels r) (i_pend st)) then None else Some r)
          (snd (queue_labels (nlabels r) (i_pend st))).
Proof.
  intros H. unfold insert_record. fold (nlabels r). rewrite ins_labels_queue.
  destruct (i_last st) as [l|]; [|reflexivity].
  destruct (i_recs st) as [|top others]; [reflexivity|].
  destruct H as [H|H]; [discriminate H|]. rewrite H. reflexivity.
Qed.

Definition add_lines (rc : rec) (rest : list result) : rec :=
  mkRec (rc_labels rc) (rc_namelabels rc)
        (rc_content rc ++ concat (map (fun x => r_content x ++ [c_lf]) rest)).

(** the followers of a run are appended to the pending record; they queue no label *)
Lemma insert_followers r : forall rest top others pend,
  Forall (fun x => same_labels r x = true) rest ->
  fold_left insert_record rest (mkIns (top :: others) (Some r) pend)
  = mkIns (add_lines top rest :: others) (Some r) pend.
Proof.
  induction rest as [|x rest IH]; intros top others pend H.
  - cbn [fold_left]. unfold add_lines. cbn [map concat]. rewrite app_nil_r. destruct top; reflexivity.
  - inversion H as [|? ? Hx Hrest]; subst. cbn [fold_left].
    unfold insert_record at 2. cbn [i_last i_recs i_pend]. rewrite Hx. rewrite IH by exact Hrest.
    unfold add_lines. cbn [rc_labels rc_namelabels rc_content map concat].
    rewrite <- !app_assoc. reflexivity.
Qed.

Lemma record_of_run_cons r rest : record_of_run (r :: rest) = [add_lines (new_rec r) rest].
Proof. reflexivity. Qed.

(** the state in front of a run does not continue into it *)
Definition fresh_for (st : ins) (gs : list (list result)) : Prop :=
  match i_last st, gs with
  | Some l, (r :: _) :: _ => key_of l <> key_of r /\ plain l
  | _, _ => True
  end.

Lemma fold_runs : forall gs st,
  Forall is_run gs -> maximal gs -> Forall plain (concat gs) -> fresh_for st gs ->
  no_split gs (i_pend st) = true ->
  i_recs (fold_left insert_record (concat gs) st) = rev (flat_map record_of_run gs) ++ i_recs st.
Proof.
  induction gs as [|g gs IH]; intros st Hr Hm Hp Hf Hn; [reflexivity|].
  inversion Hr as [|? ? Hg Hgs]; subst.
  assert (Hm' : maximal gs) by (destruct gs; [exact I | apply Hm]).
  destruct g as [|r rest]; [destruct Hg|]. cbn [is_run] in Hg.
  cbn [concat] in *. apply Forall_app in Hp. destruct Hp as [Hpg Hpgs].
  inversion Hpg as [|? ? Hpr Hprest]; subst.
  change ((r :: rest) ++ concat gs) with (r :: rest ++ concat gs).
  cbn [fold_left]. rewrite fold_left_app.
  (* the first result of the run starts a record *)
  rewrite insert_record_new.
  2:{ unfold fresh_for in Hf. destruct (i_last st) as [l|]; [|exact I]. destruct Hf as [Hk Hl]. right.
      rewrite (same_labels_identical l r Hl Hpr). destruct (identical l r) eqn:E; [|reflexivity].
      apply identical_iff in E. congruence. }
  cbn [no_split] in Hn. destruct (queue_labels (nlabels r) (i_pend st)) as [fl p] eqn:Eq.
  cbn [fst snd]. apply andb_true_iff in Hn. destruct Hn as [Hfl Hn].
  assert (Hsame : Forall (fun x => same_labels r x = true) rest).
  { rewrite Forall_forall in *. intros x Hx. rewrite (same_labels_identical r x Hpr (Hprest x Hx)).
    apply identical_iff. symmetry. exact (Hg x Hx). }
  (* what [fresh_for] needs of the next run *)
  assert (Hnext : forall last, (last = None \/ last = Some r) ->
            fresh_for (mkIns (add_lines (new_rec r) rest :: i_recs st) last p) gs).
  { intros last Hl. unfold fresh_for. cbn [i_last]. destruct Hl as [->| ->]; [exact I|].
    destruct gs as [|[|y g'] gs']; try exact I. split; [|exact Hpr].
    destruct Hm as [Hk _]. cbn [run_key] in Hk. congruence. }
  cbn [flat_map]. rewrite record_of_run_cons, rev_app_distr.
  destruct rest as [|x rest'].
  - cbn [fold_left].
    assert (Ea : new_rec r = add_lines (new_rec r) []).
    { unfold add_lines, new_rec. cbn [map concat rc_labels rc_namelabels rc_content]. rewrite app_nil_r. reflexivity. }
    rewrite Ea at 1.
    rewrite IH; [| exact Hgs | exact Hm' | exact Hpgs | apply Hnext; destruct fl; auto | exact Hn].
    cbn [i_recs]. cbn [rev app]. rewrite <- app_assoc. reflexivity.
  - destruct fl; [discriminate Hfl|].
    rewrite insert_followers by exact Hsame.
    rewrite IH; [| exact Hgs | exact Hm' | exact Hpgs | apply Hnext; auto | exact Hn].
    cbn [i_recs]. cbn [rev app]. rewrite <- app_assoc. reflexivity.
Qed.

(** THE agreement theorem: on results without empty label values, if no forced
    flush falls on the first result of a run that has a follower, the code
    stores exactly the rule's records *)
Theorem model_records_are_spec_records rs :
  Forall plain rs -> no_split (spec_runs rs) 0 = true -> model_records rs = spec_records rs.
Proof.
  intros Hp Hn. unfold model_records, spec_records.
  rewrite <- (spec_runs_concat rs) at 1.
  rewrite fold_runs; [cbn [ins0 i_recs]; rewrite app_nil_r, rev_involutive; reflexivity
                     | apply spec_runs_are_runs | apply spec_runs_maximal
                     | rewrite spec_runs_concat; exact Hp | | exact Hn].
  unfold fresh_for. cbn [ins0 i_last]. exact I.
Qed.

(** ... and through processUpload: the records of an accepted upload *)
Lemma index_files_fold u : forall fs i st st',
  index_files u i fs st = inl st' -> st' = fold_left insert_record (upload_results u i fs) st.
Proof.
  induction fs as [|f fs IH]; intros i st st' H; cbn [index_files upload_results] in *.
  - inversion H. reflexivity.
  - rewrite fold_left_app. destruct (read_with (file_meta u i f) (f_body f)) as [|r0 rs0]; [discriminate H|].
    exact (IH _ _ _ H).
Qed.

Theorem process_upload_records_are_spec u recs :
  process_upload u = inl recs ->
  Forall plain (upload_results u 0 (u_files u)) ->
  no_split (spec_runs (upload_results u 0 (u_files u))) 0 = true ->
  recs = spec_upload_records u.
Proof.
  intros H Hp Hn. unfold process_upload in H. unfold spec_upload_records.
  rewrite <- (model_records_are_spec_records _ Hp Hn). unfold model_records.
  destruct (u_files u) as [|f fs] eqn:Ef; [discriminate H|].
  destruct (index_files u 0 (f :: fs) ins0) as [st|e] eqn:Ei; [|discriminate H].
  apply index_files_fold in Ei. subst st.
  destruct (existsb _ _); [discriminate H|]. inversion H. reflexivity.
Qed.

(** ** ... and only there: a run cut by a forced flush costs an extra record *)

Definition last_in (st : ins) (r : result) : Prop :=
  match i_last st with None => True | Some l => key_of l = key_of r /\ plain l end.

Lemma insert_in_run st r x :
  last_in st r -> key_of x = key_of r -> plain x ->
  length (i_recs st) <= length (i_recs (insert_record st x)) /\ last_in (insert_record st x) r.
Proof.
  intros Hl Hk Hp. unfold insert_record. fold (nlabels x). rewrite ins_labels_queue.
  assert (Hnew : forall recs, last_in (mkIns recs (if fst (queue_labels (nlabels x) (i_pend st)) then None else Some x)
                                             (snd (queue_labels (nlabels x) (i_pend st)))) r).
  { intros recs. unfold last_in. cbn [i_last]. destruct (fst (queue_labels _ _)); [exact I | split; assumption]. }
  destruct (i_last st) as [l|] eqn:El.
  - destruct (i_recs st) as [|top others] eqn:Er.
    + split; [cbn [i_recs length]; lia | apply Hnew].
    + destruct (same_labels l x).
      * split; [cbn [i_recs length]; lia|]. unfold last_in in *. cbn [i_last]. rewrite El in *. exact Hl.
      * split; [cbn [i_recs length]; lia | apply Hnew].
  - split; [cbn [i_recs length]; lia | apply Hnew].
Qed.

Lemma fold_in_run r : forall rest st,
  last_in st r -> Forall (fun x => key_of x = key_of r) rest -> Forall plain rest ->
  length (i_recs st) <= length (i_recs (fold_left insert_record rest st))
  /\ last_in (fold_left insert_record rest st) r.
Proof.
  induction rest as [|x rest IH]; intros st Hl Hk Hp; [cbn [fold_left]; split; [lia | exact Hl]|].
  inversion Hk as [|? ? Hkx Hkr]; subst. inversion Hp as [|? ? Hpx Hpr]; subst. cbn [fold_left].
  destruct (insert_in_run st r x Hl Hkx Hpx) as [A1 A2].
  destruct (IH (insert_record st x) A2 Hkr Hpr) as [A3 A4]. split; [lia | exact A4].
Qed.

Definition fresh_for_run (st : ins) (r : result) : Prop :=
  match i_last st with Some l => key_of l <> key_of r /\ plain l | None => True end.

Lemma insert_first st r :
  fresh_for_run st r -> plain r ->
  insert_record st r
  = mkIns (new_rec r :: i_recs st)
          (if fst (queue_labels (nlabels r) (i_pend st)) then None else Some r)
          (snd (queue_labels (nlabels r) (i_pend st))).
Proof.
  intros Hf Hp. apply insert_record_new. unfold fresh_for_run in Hf.
  destruct (i_last st) as [l|]; [|exact I]. destruct Hf as [Hk Hl]. right.
  rewrite (same_labels_identical l r Hl Hp). destruct (identical l r) eqn:E; [|reflexivity].
  apply identical_iff in E. congruence.
Qed.

(** a whole run adds at least one record; two when the flush falls on its
    first result and it has a follower *)
Lemma run_lower st r rest :
  fresh_for_run st r -> plain r -> Forall (fun x => key_of x = key_of r) rest -> Forall plain rest ->
  let st' := fold_left insert_record (r :: rest) st in
  length (i_recs st) + (if fst (queue_labels (nlabels r) (i_pend st)) && match rest with [] => false | _ => true end
                        then 2 else 1) <= length (i_recs st')
  /\ last_in st' r.
Proof.
  intros Hf Hp Hk Hpr. cbv zeta. cbn [fold_left]. rewrite (insert_first st r Hf Hp).
  destruct (fst (queue_labels (nlabels r) (i_pend st))) eqn:Efl; cbn [andb].
  - destruct rest as [|x rest'].
    + cbn [fold_left i_recs length]. split; [lia | exact I].
    + inversion Hk as [|? ? Hkx Hkr]; subst. inversion Hpr as [|? ? Hpx Hpr']; subst. cbn [fold_left].
      rewrite insert_record_new by exact I. cbn [i_recs i_pend].
      match goal with |- context [fold_left insert_record rest' ?s] => set (s1 := s) end.
      assert (Hs1 : last_in s1 r).
      { unfold last_in, s1. cbn [i_last]. destruct (fst (queue_labels (nlabels x) _)); [exact I | split; assumption]. }
      destruct (fold_in_run r rest' s1 Hs1 Hkr Hpr') as [A1 A2].
      split; [|exact A2].
      assert (E1 : length (i_recs s1) = S (S (length (i_recs st)))) by reflexivity.
      rewrite E1 in A1. cbv beta iota. lia.
  - match goal with |- context [fold_left insert_record rest ?s] => set (s1 := s) end.
    assert (Hs1 : last_in s1 r) by (unfold last_in, s1; cbn [i_last]; split; [reflexivity | exact Hp]).
    destruct (fold_in_run r rest s1 Hs1 Hk Hpr) as [A1 A2].
    split; [|exact A2].
    assert (E1 : length (i_recs s1) = S (length (i_recs st))) by reflexivity.
    rewrite E1 in A1. destruct rest; cbv beta iota; lia.
Qed.

Lemma run_exact st r rest :
  fresh_for_run st r -> plain r -> Forall (fun x => key_of x = key_of r) rest -> Forall plain rest ->
  fst (queue_labels (nlabels r) (i_pend st)) && match rest with [] => false | _ => true end = false ->
  fold_left insert_record (r :: rest) st
  = mkIns (add_lines (new_rec r) rest :: i_recs st)
          (if fst (queue_labels (nlabels r) (i_pend st)) then None else Some r)
          (snd (queue_labels (nlabels r) (i_pend st))).
Proof.
  intros Hf Hp Hk Hpr Hfl. cbn [fold_left]. rewrite (insert_first st r Hf Hp).
  destruct rest as [|x rest'].
  - cbn [fold_left]. unfold add_lines, new_rec. cbn [map concat rc_labels rc_namelabels rc_content].
    rewrite app_nil_r. reflexivity.
  - destruct (fst (queue_labels (nlabels r) (i_pend st))); [discriminate Hfl|].
    apply insert_followers. rewrite Forall_forall in *. intros y Hy.
    rewrite (same_labels_identical r y Hp (Hpr y Hy)). apply identical_iff. symmetry. exact (Hk y Hy).
Qed.

Definition fresh_for_runs (st : ins) (gs : list (list result)) : Prop :=
  match gs with (r :: _) :: _ => fresh_for_run st r | _ => True end.

Lemma fresh_next st r gs :
  last_in st r -> maximal ((r :: nil) :: gs) -> fresh_for_runs st gs.
Proof.
  intros Hl Hm. destruct gs as [|[|r' g'] gs']; try exact I. cbn [fresh_for_runs]. unfold fresh_for_run.
  unfold last_in in Hl. destruct (i_last st) as [l|]; [|exact I]. destruct Hl as [Hk Hp].
  split; [|exact Hp]. destruct Hm as [Hn _]. cbn [run_key] in Hn. congruence.
Qed.

Lemma maximal_head r rest gs : maximal ((r :: rest) :: gs) -> maximal ((r :: nil) :: gs).
Proof. destruct gs as [|[|r' g'] gs']; auto. Qed.

Lemma maximal_tail g gs : maximal (g :: gs) -> maximal gs.
Proof. destruct gs as [|g' gs']; [intros; exact I | intros [_ H]; exact H]. Qed.

(** the code never stores fewer records than the rule *)
Lemma count_lower : forall gs st,
  Forall is_run gs -> maximal gs -> Forall plain (concat gs) -> fresh_for_runs st gs ->
  length gs + length (i_recs st) <= length (i_recs (fold_left insert_record (concat gs) st)).
Proof.
  induction gs as [|g gs IH]; intros st Hr Hm Hp Hf; [cbn; lia|].
  inversion Hr as [|? ? Hg Hgs]; subst. destruct g as [|r rest]; [destruct Hg|]. cbn [is_run] in Hg.
  cbn [concat] in *. apply Forall_app in Hp. destruct Hp as [Hpg Hpgs]. inversion Hpg as [|? ? Hpr Hprest]; subst.
  rewrite fold_left_app.
  destruct (run_lower st r rest Hf Hpr Hg Hprest) as [H1 H2]. cbv zeta in H1, H2.
  specialize (IH (fold_left insert_record (r :: rest) st) Hgs (maximal_tail _ _ Hm) Hpgs
                 (fresh_next _ r gs H2 (maximal_head _ _ _ Hm))).
  cbn [length]. destruct (_ && _) in H1; lia.
Qed.

(** ... and strictly more as soon as a forced flush falls on the first result
    of a run that has a follower *)
Lemma split_more : forall gs st,
  Forall is_run gs -> maximal gs -> Forall plain (concat gs) -> fresh_for_runs st gs ->
  no_split gs (i_pend st) = false ->
  length gs + length (i_recs st) < length (i_recs (fold_left insert_record (concat gs) st)).
Proof.
  induction gs as [|g gs IH]; intros st Hr Hm Hp Hf Hn; [discriminate Hn|].
  inversion Hr as [|? ? Hg Hgs]; subst. destruct g as [|r rest]; [destruct Hg|]. cbn [is_run] in Hg.
  cbn [concat] in *. apply Forall_app in Hp. destruct Hp as [Hpg Hpgs]. inversion Hpg as [|? ? Hpr Hprest]; subst.
  rewrite fold_left_app. cbn [no_split] in Hn.
  destruct (queue_labels (nlabels r) (i_pend st)) as [fl p] eqn:Eq.
  destruct (run_lower st r rest Hf Hpr Hg Hprest) as [H1 H2]. cbv zeta in H1, H2.
  pose proof (fresh_next _ r gs H2 (maximal_head _ _ _ Hm)) as Hf'.
  rewrite Eq in H1. cbn [fst] in H1.
  destruct (fl && match rest with [] => false | _ => true end) eqn:Efl.
  - (* cut here: two records for this run, at least one for each later run *)
    pose proof (count_lower gs _ Hgs (maximal_tail _ _ Hm) Hpgs Hf') as H3. cbn [length]. lia.
  - cbn [negb andb] in Hn.
    assert (Ex := run_exact st r rest Hf Hpr Hg Hprest). rewrite Eq in Ex. cbn [fst snd] in Ex.
    specialize (Ex Efl).
    specialize (IH (fold_left insert_record (r :: rest) st) Hgs (maximal_tail _ _ Hm) Hpgs Hf').
    rewrite Ex in IH at 1. cbn [i_pend] in IH. specialize (IH Hn).
    rewrite Ex in IH at 1. cbn [i_recs length] in IH. cbn [length]. lia.
Qed.

Lemma length_spec_records gs : Forall is_run gs -> length (flat_map record_of_run gs) = length gs.
Proof.
  induction gs as [|g gs IH]; intros H; [reflexivity|]. inversion H as [|? ? Hg Hgs]; subst.
  destruct g as [|r rest]; [destruct Hg|]. cbn [flat_map record_of_run app length]. rewrite IH by exact Hgs. reflexivity.
Qed.

(** the code stores at least the rule's number of records, and exactly the
    rule's records iff no forced flush falls on the first result of a run that
    has a follower *)
Theorem model_records_count rs :
  Forall plain rs -> length (spec_records rs) <= length (model_records rs).
Proof.
  intros Hp. unfold model_records, spec_records. rewrite rev_length, length_spec_records by apply spec_runs_are_runs.
  pose proof (count_lower (spec_runs rs) ins0 (spec_runs_are_runs rs) (spec_runs_maximal rs)) as H.
  rewrite spec_runs_concat in H. specialize (H Hp).
  assert (Hf : fresh_for_runs ins0 (spec_runs rs)) by (destruct (spec_runs rs) as [|[|? ?] ?]; exact I).
  specialize (H Hf). cbn [ins0 i_recs length] in H. lia.
Qed.

Theorem model_records_spec_iff rs :
  Forall plain rs -> (model_records rs = spec_records rs <-> no_split (spec_runs rs) 0 = true).
Proof.
  intros Hp. split; [|apply model_records_are_spec_records; exact Hp].
  intros He. destruct (no_split (spec_runs rs) 0) eqn:En; [reflexivity|]. exfalso.
  apply (f_equal (@length rec)) in He. unfold model_records, spec_records in He.
  rewrite rev_length, length_spec_records in He by apply spec_runs_are_runs.
  pose proof (split_more (spec_runs rs) ins0 (spec_runs_are_runs rs) (spec_runs_maximal rs)) as H.
  rewrite spec_runs_concat in H. specialize (H Hp).
  assert (Hf : fresh_for_runs ins0 (spec_runs rs)) by (destruct (spec_runs rs) as [|[|? ?] ?]; exact I).
  specialize (H Hf En). cbn [ins0 i_recs length] in H. lia.
Qed.

(** ** a decidable form of [plain], for concrete instances *)

Fixpoint ksortedb (l : labels) : bool :=
  match l with
  | [] => true
  | (k, _) :: l' => forallb (fun kv => bltb k (fst kv)) l' && ksortedb l'
  end.
Definition no_emptyb (l : labels) : bool := forallb (fun kv => negb (beq (snd kv) [])) l.
Definition plainb (r : result) : bool :=
  ksortedb (r_labels r) && ksortedb (r_namelabels r) && no_emptyb (r_labels r) && no_emptyb (r_namelabels r).

Lemma ksortedb_ksorted l : ksortedb l = true -> ksorted l.
Proof.
  induction l as [|[k v] l IH]; intros H; [exact I|]. cbn [ksortedb] in H.
  apply andb_true_iff in H. destruct H as [Ha Hs]. split; [|apply IH; exact Hs].
  intros k' v' Hin. rewrite forallb_forall in Ha. specialize (Ha _ Hin). cbn [fst] in Ha.
  destruct (bltb_spec k k'); [assumption | discriminate].
Qed.

Lemma no_emptyb_no_empty l : no_emptyb l = true -> no_empty l.
Proof.
  intros H k v Hin E. unfold no_emptyb in H. rewrite forallb_forall in H. specialize (H _ Hin).
  cbn [snd] in H. subst v. discriminate H.
Qed.

Lemma plainb_plain r : plainb r = true -> plain r.
Proof.
  unfold plainb. rewrite !andb_true_iff. intros [[[H1 H2] H3] H4].
  repeat split; auto using ksortedb_ksorted; apply no_emptyb_no_empty; assumption.
Qed.

Lemma forallb_plain rs : forallb plainb rs = true -> Forall plain rs.
Proof. rewrite forallb_forall, Forall_forall. intros H r Hr. apply plainb_plain, H, Hr. Qed.

(** ** the witness: the code does not follow the rule *)

(** user "user" uploads a.txt: 41 different benchmarks (six labels per record:
    by, upload, upload-file, upload-part, upload-time, name), then one benchmark
    run twice. 41 * 6 = 246 labels are pending when the first "BenchmarkRun"
    queues its six; the flush falls in front of its third label. *)
Definition split_witness_body (k : nat) : bytes :=
  concat (map (fun i => bs "BenchmarkR" ++ dec (N.of_nat i) ++ bs " 1 2 ns/op" ++ [c_lf]) (seq 0 k))
  ++ bs "BenchmarkRun 1 2 ns/op" ++ [c_lf] ++ bs "BenchmarkRun 1 3 ns/op" ++ [c_lf].
Definition split_witness (k : nat) : upload_in :=
  mkUploadIn (bs "20261001.1") (bs "2026-10-01T00:00:00Z") (bs "user") [mkUfile (bs "a.txt") (split_witness_body k)].

Lemma records_follow_rule_refuted :
  let u := split_witness 41 in
  let rs := upload_results u 0 (u_files u) in
  Forall plain rs
  /\ no_split (spec_runs rs) 0 = false
  /\ length (spec_upload_records u) = 42%nat
  /\ (exists recs, process_upload u = inl recs /\ length recs = 43%nat /\ recs <> spec_upload_records u)
  (* the listing of the stored state: 43 records, two of them for name:Run; the rule: 42 and 1 *)
  /\ list_uploads (fst (apply_upload [] u)) [] 0 = inl [(u_id u, 43%N)]
  /\ list_uploads (fst (apply_upload [] u)) (bs "name:Run") 0 = inl [(u_id u, 2%N)]
  /\ length (filter (fun rc => beq (lget (bs "name") (rc_namelabels rc)) (bs "Run")) (spec_upload_records u)) = 1%nat.
Proof.
  cbv zeta. split; [apply forallb_plain; vm_compute; reflexivity|].
  split; [vm_compute; reflexivity|]. split; [vm_compute; reflexivity|].
  split.
  - destruct (process_upload (split_witness 41)) as [recs|e] eqn:E; [|vm_compute in E; discriminate E].
    exists recs. split; [reflexivity|].
    assert (L : length recs = 43%nat).
    { assert (E' : match process_upload (split_witness 41) with inl r => length r | inr _ => O end = 43%nat)
        by (vm_compute; reflexivity).
      rewrite E in E'. exact E'. }
    split; [exact L|]. intros Heq. apply (f_equal (@length rec)) in Heq. rewrite L in Heq.
    assert (L2 : length (spec_upload_records (split_witness 41)) = 42%nat) by (vm_compute; reflexivity).
    rewrite L2 in Heq. discriminate Heq.
  - repeat split; vm_compute; reflexivity.
Qed.

(** one record less in front and the same pair is stored as the rule says *)
Lemma records_follow_rule_instance :
  let u := split_witness 40 in
  let rs := upload_results u 0 (u_files u) in
  Forall plain rs /\ no_split (spec_runs rs) 0 = true
  /\ process_upload u = inl (spec_upload_records u) /\ length (spec_upload_records u) = 41%nat
  /\ list_uploads (fst (apply_upload [] u)) (bs "name:Run") 0 = inl [(u_id u, 1%N)].
Proof.
  cbv zeta.
  assert (Hp : Forall plain (upload_results (split_witness 40) 0 (u_files (split_witness 40))))
    by (apply forallb_plain; vm_compute; reflexivity).
  assert (Hn : no_split (spec_runs (upload_results (split_witness 40) 0 (u_files (split_witness 40)))) 0 = true)
    by (vm_compute; reflexivity).
  split; [exact Hp|]. split; [exact Hn|]. split.
  - destruct (process_upload (split_witness 40)) as [recs|e] eqn:E; [|vm_compute in E; discriminate E].
    f_equal. exact (process_upload_records_are_spec _ _ E Hp Hn).
  - split; vm_compute; reflexivity.
Qed.
