(** Word-level facts about the 32-bit masks of benchproc/filter.go and the
    full All/Any equalities.

    Invariant: every word of a mask produced by [eval] is below 2^32 (uint32),
    and the mask has [(n+31)/32] words.  It is *not* an invariant that the
    bits at positions >= n of the last word are clear: NOT sets them.  All and
    Any neutralise them with [0xffffffff << (n - i*32)] (or-ed in for All,
    and-not-ed out for Any); the lemmas below give that constant bit by bit
    and as a number, and show that it is exactly what is needed. *)
From Perf Require Import Base.Bytes Model.Name Model.Extract Model.FilterAst Model.FilterParse
  Model.ProjParse Model.FilterEval Proofs.FilterEval.
Local Open Scope nat_scope.

(** ** uint32 *)
Definition word32 (x : N) : Prop := (x < two32)%N.

Lemma two32_nz : two32 <> 0%N. Proof. discriminate. Qed.

Lemma word32_bits x : word32 x <-> forall c, (32 <= c)%N -> N.testbit x c = false.
Proof.
  unfold word32. split.
  - intros Hx c Hc. rewrite <- (N.mod_small x two32) by exact Hx.
    rewrite two32_pow. apply N.mod_pow2_bits_high. exact Hc.
  - intros H. assert (E : (x mod two32)%N = x).
    { apply N.bits_inj. intros c. rewrite two32_pow.
      destruct (N.lt_ge_cases c 32) as [Hc|Hc].
      - apply N.mod_pow2_bits_low. exact Hc.
      - rewrite N.mod_pow2_bits_high by exact Hc. symmetry. apply H. exact Hc. }
    rewrite <- E. apply N.mod_lt. exact two32_nz.
Qed.

Lemma word32_0 : word32 0%N. Proof. reflexivity. Qed.
Lemma word32_ones : word32 ones32. Proof. reflexivity. Qed.

Lemma word32_mod x : word32 (x mod two32)%N.
Proof. apply N.mod_lt. exact two32_nz. Qed.

(** m[i] &= n[i] *)
Lemma word32_land a b : word32 a -> word32 (N.land a b).
Proof.
  rewrite !word32_bits. intros Ha c Hc. rewrite N.land_spec, Ha by exact Hc. reflexivity.
Qed.

(** m[i] |= n[i] *)
Lemma word32_lor a b : word32 a -> word32 b -> word32 (N.lor a b).
Proof.
  rewrite !word32_bits. intros Ha Hb c Hc. rewrite N.lor_spec, Ha, Hb by exact Hc. reflexivity.
Qed.

(** ^m[i]: stays a uint32, flips the 32 low bits, and is 0xffffffff - x *)
Lemma word32_not32 x : word32 (not32 x).
Proof. apply word32_mod. Qed.

Lemma not32_bits x c : N.testbit (not32 x) c = (c <? 32)%N && negb (N.testbit x c).
Proof.
  destruct (N.ltb_spec c 32) as [Hc|Hc]; cbn [andb].
  - apply not32_bit. exact Hc.
  - apply (proj1 (word32_bits _) (word32_not32 x)). exact Hc.
Qed.

Lemma not32_value x : word32 x -> not32 x = (ones32 - x)%N.
Proof.
  intros Hx. pose proof (proj1 (word32_bits x) Hx) as Hb.
  assert (Hd : N.land x (not32 x) = 0%N).
  { apply N.bits_inj. intros c. rewrite N.land_spec, not32_bits, N.bits_0.
    destruct (N.testbit x c); cbn [negb]; [now rewrite andb_false_r|reflexivity]. }
  assert (Hs : N.lxor x (not32 x) = ones32).
  { apply N.bits_inj. intros c. rewrite N.lxor_spec, not32_bits.
    replace ones32 with (N.ones 32) by reflexivity.
    destruct (N.ltb_spec c 32) as [Hc|Hc]; cbn [andb].
    - rewrite N.ones_spec_low by exact Hc. now destruct (N.testbit x c).
    - rewrite N.ones_spec_high, Hb by exact Hc. reflexivity. }
  pose proof (N.add_nocarry_lxor _ _ Hd) as E. rewrite Hs in E. lia.
Qed.

(** 1 << (i%32) *)
Lemma word32_bit b : word32 (N.shiftl 1 b mod two32)%N.
Proof. apply word32_mod. Qed.

(** ** the constant 0xffffffff << k on uint32 *)
Lemma shl_ones_bits k c :
  N.testbit (N.shiftl ones32 k mod two32) c = (k <=? c)%N && (c <? 32)%N.
Proof.
  rewrite two32_pow. destruct (N.ltb_spec c 32) as [Hc|Hc].
  - rewrite N.mod_pow2_bits_low by exact Hc. rewrite andb_true_r.
    destruct (N.leb_spec k c) as [Hk|Hk].
    + rewrite N.shiftl_spec_high' by exact Hk.
      replace ones32 with (N.ones 32) by reflexivity. apply N.ones_spec_low. lia.
    + apply N.shiftl_spec_low. exact Hk.
  - rewrite N.mod_pow2_bits_high by exact Hc. now rewrite andb_false_r.
Qed.

(** shifts by 32 or more give 0 (Go semantics of << on uint32) *)
Lemma shl_ones_zero k : (32 <= k)%N -> (N.shiftl ones32 k mod two32 = 0)%N.
Proof.
  intros Hk. apply N.bits_inj. intros c. rewrite shl_ones_bits, N.bits_0.
  destruct (N.leb_spec k c); destruct (N.ltb_spec c 32); cbn; auto; lia.
Qed.

(** below 32 it is 2^32 - 2^k: bits k..31 set *)
Lemma shl_ones_value k : (k <= 32)%N -> (N.shiftl ones32 k mod two32 = two32 - 2 ^ k)%N.
Proof.
  intros Hk. rewrite N.shiftl_mul_pow2.
  assert (Hp : (2 ^ k <= two32)%N) by (rewrite two32_pow; apply N.pow_le_mono_r; lia).
  assert (Hp0 : (0 < 2 ^ k)%N) by (apply N.neq_0_lt_0, N.pow_nonzero; discriminate).
  symmetry. apply (N.mod_unique _ _ (2 ^ k - 1)%N); [lia|].
  unfold ones32, two32 in *. nia.
Qed.

Lemma high_bits_bit nn i c :
  N.testbit (high_bits nn i) c = (N.of_nat (nn - i * 32) <=? c)%N && (c <? 32)%N.
Proof. apply shl_ones_bits. Qed.

Lemma word32_high_bits nn i : word32 (high_bits nn i).
Proof. apply word32_mod. Qed.

(** ** the word count (n+31)/32 *)
Lemma nwords_bounds nn : nn <= nwords nn * 32 < nn + 32.
Proof.
  unfold nwords. pose proof (Nat.div_mod_eq (nn + 31) 32) as E.
  pose proof (Nat.mod_upper_bound (nn + 31) 32). lia.
Qed.

Lemma nwords_0 : nwords 0 = 0. Proof. reflexivity. Qed.

Lemma nwords_pos nn : 1 <= nn -> 1 <= nwords nn.
Proof. pose proof (nwords_bounds nn) as B. lia. Qed.

(** word w exists iff it holds at least one measurement: in All/Any the shift
    count [n - w*32] is therefore >= 1 (Go would panic on a negative count;
    and the truncating subtraction on [nat] in [high_bits] is exact) *)
Lemma nwords_iff w nn : w < nwords nn <-> w * 32 < nn.
Proof. pose proof (nwords_bounds nn) as B. split; intros H; nia. Qed.

Lemma word_index_iff i nn : i < nn <-> i / 32 < nwords nn /\ (i / 32) * 32 + i mod 32 < nn.
Proof.
  pose proof (Nat.div_mod_eq i 32) as E. split.
  - intros H. split; [now apply div32_lt|lia].
  - intros [_ H]. lia.
Qed.

(** ** one word of All and of Any *)
Lemma all_word_iff nn i x : word32 x ->
  (N.lor x (high_bits nn i) =? ones32)%N = true <->
  forall b, b < 32 -> i * 32 + b < nn -> N.testbit x (N.of_nat b) = true.
Proof.
  intros Hx. rewrite N.eqb_eq. split.
  - intros E b Hb Hn.
    assert (T : N.testbit (N.lor x (high_bits nn i)) (N.of_nat b) = true).
    { rewrite E. replace ones32 with (N.ones 32) by reflexivity. apply N.ones_spec_low. lia. }
    rewrite N.lor_spec, high_bits_bit in T.
    replace (N.of_nat (nn - i * 32) <=? N.of_nat b)%N with false in T
      by (symmetry; apply N.leb_gt; lia).
    cbn [andb] in T. now rewrite orb_false_r in T.
  - intros H. apply N.bits_inj. intros c.
    rewrite N.lor_spec, high_bits_bit. replace ones32 with (N.ones 32) by reflexivity.
    destruct (N.ltb_spec c 32) as [Hc|Hc].
    + rewrite N.ones_spec_low, andb_true_r by exact Hc.
      destruct (N.leb_spec (N.of_nat (nn - i * 32)) c) as [Hk|Hk]; [apply orb_true_r|].
      rewrite orb_false_r. rewrite <- (N2Nat.id c). apply H; lia.
    + rewrite N.ones_spec_high, andb_false_r, orb_false_r by exact Hc.
      apply (proj1 (word32_bits x) Hx). exact Hc.
Qed.

Lemma any_word_iff nn i x : word32 x ->
  (N.ldiff x (high_bits nn i) =? 0)%N = true <->
  forall b, b < 32 -> i * 32 + b < nn -> N.testbit x (N.of_nat b) = false.
Proof.
  intros Hx. rewrite N.eqb_eq. split.
  - intros E b Hb Hn.
    assert (T : N.testbit (N.ldiff x (high_bits nn i)) (N.of_nat b) = false).
    { rewrite E. apply N.bits_0. }
    rewrite N.ldiff_spec, high_bits_bit in T.
    replace (N.of_nat (nn - i * 32) <=? N.of_nat b)%N with false in T
      by (symmetry; apply N.leb_gt; lia).
    cbn [andb negb] in T. now rewrite andb_true_r in T.
  - intros H. apply N.bits_inj. intros c.
    rewrite N.ldiff_spec, high_bits_bit, N.bits_0.
    destruct (N.ltb_spec c 32) as [Hc|Hc].
    + rewrite andb_true_r.
      destruct (N.leb_spec (N.of_nat (nn - i * 32)) c) as [Hk|Hk]; [apply andb_false_r|].
      cbn [negb]. rewrite andb_true_r. rewrite <- (N2Nat.id c). apply H; lia.
    + rewrite (proj1 (word32_bits x) Hx) by exact Hc. reflexivity.
Qed.

(** ** masks of uint32 words *)
Definition wf_mask (m : mask) : Prop := Forall word32 m.
Definition wf_acc (a : option mask) : Prop := match a with Some m => wf_mask m | None => True end.
Definition wf_res (e : fres) : Prop := wf_acc (fst e).

Lemma wf_new_mask nn : wf_mask (new_mask nn).
Proof. unfold new_mask. induction (nwords nn); cbn; constructor; auto. exact word32_0. Qed.

Lemma wf_set_word m : forall w b, wf_mask m -> wf_mask (set_word m w b).
Proof.
  induction m as [|x m IH]; intros w b H; cbn [set_word]; [constructor|].
  inversion H as [|? ? Hx Hm]; subst. destruct w as [|w]; constructor; auto.
  - apply word32_lor; [exact Hx|apply word32_bit].
  - apply IH. exact Hm.
Qed.

Lemma wf_mask_set m i : wf_mask m -> wf_mask (mask_set m i).
Proof. apply wf_set_word. Qed.

Lemma wf_mask_and a : forall b, wf_mask a -> wf_mask (mask_and a b).
Proof.
  induction a as [|x a IH]; intros [|y b] H; cbn; try constructor;
    inversion H; subst; [now apply word32_land|now apply IH].
Qed.

Lemma wf_mask_or a : forall b, wf_mask a -> wf_mask b -> wf_mask (mask_or a b).
Proof.
  induction a as [|x a IH]; intros [|y b] Ha Hb; cbn; try constructor;
    inversion Ha; inversion Hb; subst; [now apply word32_lor|now apply IH].
Qed.

Lemma wf_mask_not m : wf_mask (mask_not m).
Proof. induction m; cbn; constructor; auto. apply word32_not32. Qed.

Lemma and_fold_wf : forall rs acc, Forall wf_res rs -> wf_acc acc -> wf_res (and_fold rs acc).
Proof.
  induction rs as [|[[m2|] x] rs IH]; intros acc HF Hacc; cbn [and_fold].
  - exact Hacc.
  - inversion HF as [|? ? H2 HF']; subst. destruct acc as [m1|]; apply IH; auto.
    apply wf_mask_and. exact Hacc.
  - inversion HF as [|? ? H2 HF']; subst. destruct x; [apply IH; auto|exact I].
Qed.

Lemma or_fold_wf : forall rs acc, Forall wf_res rs -> wf_acc acc -> wf_res (or_fold rs acc).
Proof.
  induction rs as [|[[m2|] x] rs IH]; intros acc HF Hacc; cbn [or_fold].
  - exact Hacc.
  - inversion HF as [|? ? H2 HF']; subst. destruct acc as [m1|]; apply IH; auto.
    apply wf_mask_or; [exact Hacc|exact H2].
  - inversion HF as [|? ? H2 HF']; subst. destruct x; [exact I|apply IH; auto].
Qed.

Lemma not_res_wf e : wf_res (not_res e).
Proof. destruct e as [[m|] x]; cbn; [apply wf_mask_not|exact I]. Qed.

Section Eval.
Variable rematch : bytes -> bytes -> bool.
Variable r : fresult.
Notation n := (length (fr_units r)).

Lemma unit_mask_wf m : forall us i acc, wf_mask acc -> wf_mask (unit_mask rematch m us i acc).
Proof.
  induction us as [|[u ou] us IH]; intros i acc H; cbn [unit_mask]; [exact H|].
  apply IH. destruct (_ || _); [apply wf_mask_set|]; exact H.
Qed.

(** every mask word the evaluator produces is a uint32 *)
Theorem eval_wf f : wf_res (eval rematch f r).
Proof.
  induction f as [k m o|l IH|l IH|g IH] using filter_ind'; cbn [eval].
  - destruct (beq k key_unit); [|exact I]. apply unit_mask_wf, wf_new_mask.
  - apply and_fold_wf; [|exact I]. induction IH; cbn; constructor; auto.
  - apply or_fold_wf; [|exact I]. induction IH; cbn; constructor; auto.
  - apply not_res_wf.
Qed.

(** ** All / Any over all words: exact *)
Lemma all_words_iff nn : forall m i0, wf_mask m ->
  (all_words nn m i0 = true <->
   forall w b, w < length m -> b < 32 -> (i0 + w) * 32 + b < nn ->
     N.testbit (nth w m 0%N) (N.of_nat b) = true).
Proof.
  induction m as [|x m IH]; intros i0 Hwf; cbn [all_words length].
  - split; [intros _ w b Hw; lia|reflexivity].
  - inversion Hwf as [|? ? Hx Hm]; subst.
    pose proof (all_word_iff nn i0 x Hx) as Hw0. specialize (IH (S i0) Hm).
    destruct (N.lor x (high_bits nn i0) =? ones32)%N.
    + rewrite IH. split.
      * intros H [|w] b Hw Hb Hn; cbn [nth].
        -- apply (proj1 Hw0 eq_refl); [exact Hb|lia].
        -- apply H; lia.
      * intros H w b Hw Hb Hn. apply (H (S w) b); lia.
    + split; [discriminate|]. intros H. apply Hw0. intros b Hb Hn.
      apply (H 0 b); lia.
Qed.

Lemma any_words_iff nn : forall m i0, wf_mask m ->
  (any_words nn m i0 = false <->
   forall w b, w < length m -> b < 32 -> (i0 + w) * 32 + b < nn ->
     N.testbit (nth w m 0%N) (N.of_nat b) = false).
Proof.
  induction m as [|x m IH]; intros i0 Hwf; cbn [any_words length].
  - split; [intros _ w b Hw; lia|reflexivity].
  - inversion Hwf as [|? ? Hx Hm]; subst.
    pose proof (any_word_iff nn i0 x Hx) as Hw0. specialize (IH (S i0) Hm).
    destruct (N.ldiff x (high_bits nn i0) =? 0)%N; cbn [negb].
    + rewrite IH. split.
      * intros H [|w] b Hw Hb Hn; cbn [nth].
        -- apply (proj1 Hw0 eq_refl); [exact Hb|lia].
        -- apply H; lia.
      * intros H w b Hw Hb Hn. apply (H (S w) b); lia.
    + split; [discriminate|]. intros H. symmetry. apply Hw0. intros b Hb Hn.
      apply (H 0 b); lia.
Qed.

Lemma forallb_seq_iff (d : nat -> bool) : forall len k,
  forallb d (seq k len) = true <-> forall i, k <= i < k + len -> d i = true.
Proof.
  induction len as [|len IH]; intros k; cbn [seq forallb].
  - split; [intros _ i Hi; lia|reflexivity].
  - rewrite andb_true_iff, IH. split.
    + intros [H0 H] i Hi. destruct (Nat.eq_dec i k) as [->|Hne]; [exact H0|apply H; lia].
    + intros H. split; [apply H; lia|intros i Hi; apply H; lia].
Qed.

Lemma existsb_seq_false_iff (d : nat -> bool) : forall len k,
  existsb d (seq k len) = false <-> forall i, k <= i < k + len -> d i = false.
Proof.
  induction len as [|len IH]; intros k; cbn [seq existsb].
  - split; [intros _ i Hi; lia|reflexivity].
  - rewrite orb_false_iff, IH. split.
    + intros [H0 H] i Hi. destruct (Nat.eq_dec i k) as [->|Hne]; [exact H0|apply H; lia].
    + intros H. split; [apply H; lia|intros i Hi; apply H; lia].
Qed.

Lemma mask_bits_iff (m : mask) (d : nat -> bool) (v : bool) :
  length m = nwords n -> (forall i, i < n -> mtest m i = d i) ->
  ((forall w b, w < length m -> b < 32 -> (0 + w) * 32 + b < n ->
      N.testbit (nth w m 0%N) (N.of_nat b) = v) <->
   (forall i, 0 <= i < 0 + n -> d i = v)).
Proof.
  intros L T. split.
  - intros H i Hi. rewrite <- T by lia. unfold mtest. apply H.
    + rewrite L. apply div32_lt. lia.
    + apply Nat.mod_upper_bound. lia.
    + rewrite <- idx_split. lia.
  - intros H w b Hw Hb Hn. cbn [Nat.add] in Hn.
    specialize (H (w * 32 + b) ltac:(lia)). rewrite <- T in H by lia.
    unfold mtest in H.
    replace ((w * 32 + b) / 32) with w in H
      by (apply (Nat.div_unique _ 32 w b); lia).
    replace ((w * 32 + b) mod 32) with b in H
      by (apply (Nat.mod_unique _ 32 w b); lia).
    exact H.
Qed.

(** whatever agrees with a per-measurement predicate [d] on 0..n-1 and has
    uint32 words answers All with "for all" and Any with "exists" — the bits
    of the last word at positions >= n are arbitrary *)
Lemma all_of_good e d : good r e d -> wf_res e -> 1 <= n ->
  match_all n e = forallb d (seq 0 n).
Proof.
  intros G Hwf Hn. destruct e as [[m|] x]; cbn [good match_all] in *.
  - destruct G as [L T]. apply Bool.eq_iff_eq_true.
    rewrite (all_words_iff n m 0 Hwf), forallb_seq_iff. apply mask_bits_iff; auto.
  - destruct x.
    + symmetry. apply forallb_seq_iff. intros i Hi. apply G. lia.
    + symmetry. destruct n as [|k] eqn:En; [lia|]. cbn [seq forallb].
      rewrite G by lia. reflexivity.
Qed.

Lemma any_of_good e d : good r e d -> wf_res e -> 1 <= n ->
  match_any n e = existsb d (seq 0 n).
Proof.
  intros G Hwf Hn. destruct e as [[m|] x]; cbn [good match_any] in *.
  - destruct G as [L T].
    assert (E : any_words n m 0 = false <-> existsb d (seq 0 n) = false).
    { rewrite (any_words_iff n m 0 Hwf), existsb_seq_false_iff. apply mask_bits_iff; auto. }
    destruct (any_words n m 0), (existsb d (seq 0 n)); auto.
    + now apply E.
    + symmetry. now apply E.
  - destruct x.
    + symmetry. destruct n as [|k] eqn:En; [lia|]. cbn [seq existsb].
      rewrite G by lia. reflexivity.
    + symmetry. apply existsb_seq_false_iff. intros i Hi. apply G. lia.
Qed.

(** with a mask the equalities hold for every n, n = 0 included *)
Lemma all_of_mask m x d : good r (Some m, x) d -> wf_mask m ->
  match_all n (Some m, x) = forallb d (seq 0 n).
Proof.
  intros [L T] Hwf. cbn [match_all]. apply Bool.eq_iff_eq_true.
  rewrite (all_words_iff n m 0 Hwf), forallb_seq_iff. apply mask_bits_iff; auto.
Qed.

Lemma any_of_mask m x d : good r (Some m, x) d -> wf_mask m ->
  match_any n (Some m, x) = existsb d (seq 0 n).
Proof.
  intros [L T] Hwf. cbn [match_any].
  assert (E : any_words n m 0 = false <-> existsb d (seq 0 n) = false).
  { rewrite (any_words_iff n m 0 Hwf), existsb_seq_false_iff. apply mask_bits_iff; auto. }
  destruct (any_words n m 0), (existsb d (seq 0 n)); auto.
  - now apply E.
  - symmetry. now apply E.
Qed.

(** All = "every measurement satisfies the expression",
    Any = "some measurement satisfies the expression" *)
Theorem all_forall f : 1 <= n ->
  match_all n (eval rematch f r) = forallb (denote rematch f r) (seq 0 n).
Proof. intros Hn. apply all_of_good; [apply eval_good|apply eval_wf|exact Hn]. Qed.

Theorem any_exists f : 1 <= n ->
  match_any n (eval rematch f r) = existsb (denote rematch f r) (seq 0 n).
Proof. intros Hn. apply any_of_good; [apply eval_good|apply eval_wf|exact Hn]. Qed.

(** ** a whole-result answer is the value of the expression *)
Definition none_const (e : fres) (d : nat -> bool) : Prop :=
  fst e = None -> forall i, d i = snd e.

Lemma and_fold_some_none : forall rs m,
  fst (and_fold rs (Some m)) = None -> snd (and_fold rs (Some m)) = false.
Proof.
  induction rs as [|[[m2|] x] rs IH]; intros m; cbn [and_fold].
  - discriminate.
  - apply IH.
  - destruct x; [apply IH|reflexivity].
Qed.

Lemma or_fold_some_none : forall rs m,
  fst (or_fold rs (Some m)) = None -> snd (or_fold rs (Some m)) = true.
Proof.
  induction rs as [|[[m2|] x] rs IH]; intros m; cbn [or_fold].
  - discriminate.
  - apply IH.
  - destruct x; [reflexivity|apply IH].
Qed.

Lemma and_fold_none : forall rs ds acc, Forall2 none_const rs ds ->
  fst (and_fold rs acc) = None ->
  forall i, forallb (fun d => d i) ds = snd (and_fold rs acc).
Proof.
  induction rs as [|[[m2|] x] rs IH]; intros ds acc HF; inversion HF as [|? d ? ds' Hg HF']; subst;
    cbn [and_fold forallb]; intros Hn i.
  - reflexivity.
  - assert (Hs : forall m, fst (and_fold rs (Some m)) = None ->
                 d i && forallb (fun d0 => d0 i) ds' = snd (and_fold rs (Some m))).
    { intros m Hm. rewrite (IH ds' (Some m) HF' Hm i), (and_fold_some_none rs m Hm).
      apply andb_false_r. }
    destruct acc as [m1|]; apply Hs; exact Hn.
  - rewrite (Hg eq_refl i). cbn [snd]. destruct x; cbn [andb snd]; [|reflexivity].
    apply IH; auto.
Qed.

Lemma or_fold_none : forall rs ds acc, Forall2 none_const rs ds ->
  fst (or_fold rs acc) = None ->
  forall i, existsb (fun d => d i) ds = snd (or_fold rs acc).
Proof.
  induction rs as [|[[m2|] x] rs IH]; intros ds acc HF; inversion HF as [|? d ? ds' Hg HF']; subst;
    cbn [or_fold existsb]; intros Hn i.
  - reflexivity.
  - assert (Hs : forall m, fst (or_fold rs (Some m)) = None ->
                 d i || existsb (fun d0 => d0 i) ds' = snd (or_fold rs (Some m))).
    { intros m Hm. rewrite (IH ds' (Some m) HF' Hm i), (or_fold_some_none rs m Hm).
      apply orb_true_r. }
    destruct acc as [m1|]; apply Hs; exact Hn.
  - rewrite (Hg eq_refl i). cbn [snd]. destruct x; cbn [orb snd]; [reflexivity|].
    apply IH; auto.
Qed.

(** when the compiled filter answers without a mask, its boolean is the value
    of the expression at every index (also outside 0..n-1, where .unit terms
    are false) *)
Theorem eval_none_const f : none_const (eval rematch f r) (denote rematch f r).
Proof.
  induction f as [k m o|l IH|l IH|g IH] using filter_ind'; cbn [eval denote].
  - destruct (beq k key_unit); intros H i; [discriminate|reflexivity].
  - assert (HF : Forall2 none_const (map (fun g => eval rematch g r) l) (map (fun g => denote rematch g r) l)).
    { induction IH; cbn; constructor; auto. }
    intros H i. rewrite <- (and_fold_none _ _ None HF H i). now rewrite forallb_map'.
  - assert (HF : Forall2 none_const (map (fun g => eval rematch g r) l) (map (fun g => denote rematch g r) l)).
    { induction IH; cbn; constructor; auto. }
    intros H i. rewrite <- (or_fold_none _ _ None HF H i). now rewrite existsb_map'.
  - unfold none_const in *. destruct (eval rematch g r) as [[m|] x]; cbn in *.
    + discriminate.
    + intros _ i. now rewrite IH.
Qed.

(** n = 0 (no measurements; the reader never produces such a result): a mask
    has no words, All is true and Any is false as for "for all"/"exists" over
    nothing; a whole-result answer x makes All = Any = x = the value of the
    expression with every .unit term false, so All differs from "for all"
    when that value is false and Any from "exists" when it is true *)
Theorem all_any_empty f : n = 0 ->
  match fst (eval rematch f r) with
  | Some _ => match_all 0 (eval rematch f r) = true /\ match_any 0 (eval rematch f r) = false
  | None => match_all 0 (eval rematch f r) = denote rematch f r 0
            /\ match_any 0 (eval rematch f r) = denote rematch f r 0
  end.
Proof.
  intros En. pose proof (eval_good rematch r f) as G. pose proof (eval_none_const f) as C.
  unfold none_const in C.
  destruct (eval rematch f r) as [[m|] x]; cbn [fst snd good match_all match_any] in *.
  - destruct G as [L _]. rewrite En in L. destruct m; [|discriminate]. split; reflexivity.
  - rewrite (C eq_refl 0). split; reflexivity.
Qed.

(** ** Apply reports whether any measurement remains *)
Theorem apply_reports_any f {A} (vals : list A) :
  length vals = n -> 1 <= n ->
  snd (match_apply (eval rematch f r) vals) = match_any n (eval rematch f r)
  /\ snd (match_apply (eval rematch f r) vals) = negb (is_nil (fst (match_apply (eval rematch f r) vals)))
  /\ (snd (match_apply (eval rematch f r) vals) = true <->
      exists i, i < n /\ denote rematch f r i = true).
Proof.
  intros Hlen Hn.
  rewrite (apply_keeps_exactly rematch r f vals Hlen Hn). cbn [fst snd].
  rewrite any_exists by exact Hn. split; [reflexivity|]. split.
  - rewrite keep_nonempty, Hlen. reflexivity.
  - rewrite existsb_exists. split.
    + intros [i [Hi Hd]]. apply in_seq in Hi. exists i. split; [lia|exact Hd].
    + intros [i [Hi Hd]]. exists i. split; [apply in_seq; lia|exact Hd].
Qed.

(** ** Match does not touch the result *)
Theorem match_pure f :
  fst (filter_match rematch f r) = r
  /\ filter_match rematch f (fst (filter_match rematch f r)) = filter_match rematch f r
  /\ filter_apply rematch f (fst (filter_match rematch f r)) = filter_apply rematch f r.
Proof. repeat split. Qed.

(** ** AND / OR / NOT through Test *)
Theorem and_is_conjunction l i : i < n ->
  match_test n (eval rematch (FAnd l) r) i = forallb (fun g => match_test n (eval rematch g r) i) l.
Proof.
  intros Hi. rewrite eval_test_denote by exact Hi. cbn [denote].
  induction l as [|g l IH]; cbn [forallb]; [reflexivity|].
  now rewrite IH, eval_test_denote by exact Hi.
Qed.

Theorem or_is_disjunction l i : i < n ->
  match_test n (eval rematch (FOr l) r) i = existsb (fun g => match_test n (eval rematch g r) i) l.
Proof.
  intros Hi. rewrite eval_test_denote by exact Hi. cbn [denote].
  induction l as [|g l IH]; cbn [existsb]; [reflexivity|].
  now rewrite IH, eval_test_denote by exact Hi.
Qed.

Theorem not_is_negation g i : i < n ->
  match_test n (eval rematch (FNot g) r) i = negb (match_test n (eval rematch g r) i).
Proof. intros Hi. rewrite !eval_test_denote by exact Hi. reflexivity. Qed.

End Eval.
