(** Facts about the declarative normal approximation (Model/UApproxSpec.v):
    the variance is positive whenever the pooled sample has two runs, the p-value
    is a probability, and the two-sided value does not change when the samples are
    swapped (given erfc (-x) = 2 - erfc x). *)
From Coq Require Import ZArith List Bool Lia.
From Perf Require Import Model.UStat Model.UDistSpec Model.UTest Model.UApproxSpec.
From Perf Require Import Proofs.UTestSigma Proofs.UDistRev.
Import ListNotations.
Local Open Scope Z_scope.

(** the tie term of the specification is the sum the code calls tieCorrection *)
Lemma tie_sum_is_tie_correction t : tie_sum t = tie_correction t.
Proof. reflexivity. Qed.

(** sigma^2 > 0: two runs or more (not all values equal) and both samples non-empty *)
Theorem approx_variance_positive n1 n2 t :
  Forall (fun x => 1 <= x) t -> (2 <= length t)%nat -> zsum t = n1 + n2 -> 1 <= n1 -> 1 <= n2 ->
  0 < var_num n1 n2 t /\ 0 < var_den n1 n2.
Proof.
  intros Ht Hlen Hs H1 H2. destruct (tie_correction_two_runs t Ht Hlen) as [HN [_ Hle]].
  rewrite Hs in *. unfold var_num, var_den. rewrite tie_sum_is_tie_correction.
  set (N := n1 + n2) in *. assert (0 < N * (N - 1)) by nia.
  split; [|lia]. apply Z.mul_pos_pos; [nia|].
  replace ((N + 1) * (N * (N - 1))) with ((N - 2) * (N * (N - 1)) + 3 * (N * (N - 1))) by ring. lia.
Qed.

(** the prescribed p-value is a fraction in [0, 1] for every erfc value in [0, 2] *)
Theorem approx_spec_p_in_unit a en ed : 0 < ed -> 0 <= en <= 2 * ed ->
  let '(num, den) := approx_spec_p a en ed in 0 <= num <= den /\ 0 < den.
Proof. intros Hd He. destruct a; cbn [approx_spec_p]; lia. Qed.

(** swapping the samples: U -> n1 n2 - U, the tie vector is unchanged as a multiset
    of runs (the statement is for any tie vector with the same tie term, e.g. [t]
    itself: pooling does not depend on the order of the samples) *)
Lemma numer2_swap n1 n2 twoU : numer2 n2 n1 (2 * (n1 * n2) - twoU) Differs = - numer2 n1 n2 twoU Differs.
Proof. unfold numer2. replace (2 * (n1 * n2) - twoU - n2 * n1) with (- (twoU - n1 * n2)) by ring. rewrite Z.sgn_opp. ring. Qed.

Lemma var_swap n1 n2 t : var_num n2 n1 t = var_num n1 n2 t /\ var_den n2 n1 = var_den n1 n2.
Proof. unfold var_num, var_den. replace (n2 + n1) with (n1 + n2) by ring. split; ring. Qed.

(** the argument of erfc changes its sign ... *)
Theorem approx_arg_swap n1 n2 t twoU xn xd :
  arg_ok n2 n1 t (2 * (n1 * n2) - twoU) Differs (- xn) xd = arg_ok n1 n2 t twoU Differs xn xd.
Proof.
  unfold arg_ok. rewrite numer2_swap. destruct (var_swap n1 n2 t) as [-> ->].
  rewrite !Z.sgn_opp. replace (- xn * - xn) with (xn * xn) by ring.
  replace (- numer2 n1 n2 twoU Differs * - numer2 n1 n2 twoU Differs) with (numer2 n1 n2 twoU Differs * numer2 n1 n2 twoU Differs) by ring.
  f_equal. f_equal. destruct (Z.eqb_spec (Z.sgn xn) (- Z.sgn (numer2 n1 n2 twoU Differs))), (Z.eqb_spec (- Z.sgn xn) (- - Z.sgn (numer2 n1 n2 twoU Differs))); lia.
Qed.

(** ... and with erfc (-x) = 2 - erfc x = (2 ed - en) / ed the two-sided p-value is the same *)
Theorem approx_two_sided_swap en ed : approx_spec_p Differs (2 * ed - en) ed = approx_spec_p Differs en ed.
Proof. cbn [approx_spec_p]. f_equal. lia. Qed.

(** the one-sided values are complementary: less + greater = 1 at the same argument *)
Theorem approx_one_sided_complement en ed :
  fst (approx_spec_p Less en ed) + fst (approx_spec_p Greater en ed) = snd (approx_spec_p Less en ed)
  /\ snd (approx_spec_p Greater en ed) = snd (approx_spec_p Less en ed).
Proof. cbn. lia. Qed.
