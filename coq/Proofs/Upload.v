(** Proofs about Model/Upload.v: for every fault oracle an upload is
    all-or-nothing, a failing file is never left in the store, earlier uploads
    are untouched, allocated IDs stay allocated. *)
From Perf Require Import Base.Bytes Model.Words Model.Query Model.StoreFmt Model.Upload.

Section Proofs.

Variables result rec : Type.
Variable parse_file : labels -> bytes -> list result.
Variable coalesce : list result -> list rec.
Variable rejects : list rec -> bool.
Variable alloc : list bytes -> option bytes.
(** the only fact used about ID allocation (proved of Model/Ids.v in Proofs/Ids.v) *)
Hypothesis alloc_fresh : forall t i, alloc t = Some i -> ~ In i t.

Notation index_file := (index_file result parse_file).
Notation part_loop := (part_loop result parse_file alloc).
Notation run_upload := (run_upload result rec parse_file coalesce rejects alloc).

(** what the file items of a request should leave behind, for upload [id];
    [i] is the index of the first part *)
Fixpoint exp_files (id user tm : bytes) (items : list item) (i : N) : list (bytes * bytes) :=
  match items with
  | [] => []
  | IFile name body _ _ :: r =>
      (file_path id i, concat (header_lines (part_meta id i name user tm)) ++ body)
      :: exp_files id user tm r (i + 1)
  | _ :: r => exp_files id user tm r (i + 1)
  end.

Fixpoint exp_results (id user tm : bytes) (items : list item) (i : N) : list result :=
  match items with
  | [] => []
  | IFile name body _ _ :: r =>
      parse_file (part_meta id i name user tm) body ++ exp_results id user tm r (i + 1)
  | _ :: r => exp_results id user tm r (i + 1)
  end.

(** every file part arrived completely and contains a benchmark line *)
Fixpoint files_sound (id user tm : bytes) (items : list item) (i : N) : Prop :=
  match items with
  | [] => True
  | IFile name body _ cut :: r =>
      cut = false /\ parse_file (part_meta id i name user tm) body <> []
      /\ files_sound id user tm r (i + 1)
  | IOther _ :: _ => False
  | ICommit :: r => files_sound id user tm r (i + 1)
  end.

Lemma index_file_spec o w id i user tm name body nw cut w' fo :
  index_file o w id i user tm name body nw cut = (w', fo) ->
  match fo with
  | FErr _ => fw_fs w' = fw_fs w
  | FOk _ rs =>
      cut = false /\ rs = parse_file (part_meta id i name user tm) body /\ rs <> []
      /\ fw_fs w' = fw_fs w ++ [(file_path id i, concat (header_lines (part_meta id i name user tm)) ++ body)]
  end.
Proof.
  unfold Upload.index_file. intros H.
  repeat match type of H with
  | (if ?c then _ else _) = _ => destruct c eqn:?
  | (match ?x with [] => _ | _ :: _ => _ end) = _ => destruct x eqn:?
  end; inversion H; subst; cbn [fw_fs]; auto.
  repeat split; auto. discriminate.
Qed.

(** the loop invariant: how far the loop got ([k] items fully processed), what
    it stored, what it buffered *)
Lemma part_loop_spec o user tm : forall items i ids w up lo,
  part_loop o user tm items i ids w up = lo ->
  match lo_pend _ lo with
  | None => up = None /\ fw_fs (lo_fsw _ lo) = fw_fs w /\ lo_ids _ lo = ids
  | Some p' =>
      (match up with
       | Some p => pd_id _ p' = pd_id _ p /\ lo_ids _ lo = ids
       | None => lo_ids _ lo = ids ++ [pd_id _ p'] /\ ~ In (pd_id _ p') ids
       end)
      /\ exists k, k <= length items
         /\ fw_fs (lo_fsw _ lo) = fw_fs w ++ exp_files (pd_id _ p') user tm (firstn k items) i
         /\ (lo_failed _ lo = true -> k < length items)
         /\ (lo_failed _ lo = false ->
             k = length items
             /\ files_sound (pd_id _ p') user tm items i
             /\ pd_results _ p' = match up with Some p => pd_results _ p | None => [] end
                                  ++ exp_results (pd_id _ p') user tm items i)
  end.
Proof.
  induction items as [|it rest IH]; intros i ids w up lo H.
  - cbn in H. subst lo. cbn. destruct up as [p|]; [|auto].
    split; [auto|]. exists 0. cbn. rewrite !app_nil_r. repeat split; auto; discriminate.
  - destruct it as [name body nw cut| |field].
    + (* file *)
      cbn [Upload.part_loop] in H.
      set (started := match up with
                      | Some p => Some (ids, p)
                      | None => if o_new_upload o then None
                                else match alloc ids with
                                     | Some id => Some (ids ++ [id], mkPend result id [] [])
                                     | None => None
                                     end
                      end) in H.
      assert (Hst : match started with
                    | None => up = None
                    | Some (ids', p) =>
                        match up with
                        | Some p0 => p = p0 /\ ids' = ids
                        | None => ids' = ids ++ [pd_id _ p] /\ ~ In (pd_id _ p) ids /\ pd_results _ p = []
                        end
                    end).
      { subst started. destruct up as [p0|]; [auto|].
        destruct (o_new_upload o); [reflexivity|].
        destruct (alloc ids) as [id|] eqn:Ea; [|reflexivity].
        cbn. repeat split; auto. }
      destruct started as [[ids' p]|].
      * destruct (index_file o w (pd_id _ p) i user tm name body nw cut) as [w' fo] eqn:Ef.
        apply index_file_spec in Ef.
        destruct fo as [rs|].
        -- destruct Ef as (Hcut & Hrs & Hne & Hfs).
           specialize (IH _ _ _ _ _ H). cbn [lo_pend] in *.
           destruct (lo_pend _ lo) as [p'|]; [|destruct IH as [IH _]; discriminate].
           destruct IH as ([Hid Hids] & k & Hk & Hfw & Hfail & Hok). cbn [pd_id pd_results] in *.
           split.
           { destruct up as [p0|].
             - destruct Hst as [-> ->]. split; [exact Hid | exact Hids].
             - destruct Hst as (-> & Hnin & _). rewrite Hid. split; [exact Hids | exact Hnin]. }
           exists (S k). cbn [length firstn exp_files]. rewrite Hid in *.
           split; [lia|]. split.
           { rewrite Hfw, Hfs, <- app_assoc. reflexivity. }
           split; [intros Hf; specialize (Hfail Hf); lia|].
           intros Hf. destruct (Hok Hf) as (-> & Hsound & Hres).
           split; [reflexivity|]. split.
           { cbn [files_sound]. subst rs. auto. }
           rewrite Hres. cbn [exp_results]. subst rs.
           destruct up as [p0|].
           ++ destruct Hst as [-> _]. rewrite <- app_assoc. reflexivity.
           ++ destruct Hst as (_ & _ & ->). reflexivity.
        -- subst lo. cbn [lo_pend lo_ids lo_fsw lo_failed].
           split.
           { destruct up as [p0|].
             - destruct Hst as [-> ->]. auto.
             - destruct Hst as (-> & Hnin & _). auto. }
           exists 0. cbn [firstn exp_files length]. rewrite app_nil_r.
           split; [lia|]. split; [exact Ef|]. split; [intros _; lia | discriminate].
      * subst lo. cbn [lo_pend lo_ids lo_fsw]. subst up. auto.
    + (* commit field *)
      cbn [Upload.part_loop] in H. specialize (IH _ _ _ _ _ H).
      destruct (lo_pend _ lo) as [p'|]; [|exact IH].
      destruct IH as (Hup & k & Hk & Hfw & Hfail & Hok). split; [exact Hup|].
      exists (S k). cbn [length firstn exp_files exp_results files_sound].
      split; [lia|]. split; [exact Hfw|]. split; [intros Hf; specialize (Hfail Hf); lia|].
      intros Hf. destruct (Hok Hf) as (-> & Hs & Hr). auto.
    + (* unexpected field *)
      cbn [Upload.part_loop] in H. subst lo. cbn [lo_pend lo_ids lo_fsw lo_failed].
      destruct up as [p|]; [|auto].
      split; [auto|]. exists 0. cbn [firstn exp_files length]. rewrite app_nil_r.
      split; [lia|]. split; [reflexivity|]. split; [intros _; lia | discriminate].
Qed.

(** ** the theorems *)

(** failure: nothing becomes queryable, whatever failed *)
Theorem upload_error_changes_no_records o st rq st' :
  run_upload o st rq = (st', UErr) -> us_recs st' = us_recs st.
Proof.
  unfold Upload.run_upload. intros H.
  repeat match type of H with
  | (if ?c then _ else _) = _ => destruct c
  | (match ?x with Some _ => _ | None => _ end) = _ => destruct x
  end; inversion H; reflexivity.
Qed.

(** success: the upload's ID is new, exactly the records of all its files
    become queryable, every file is stored once with its header *)
Theorem upload_success_stores_everything o st rq st' id fids :
  run_upload o st rq = (st', UOk id fids) ->
  ~ In id (us_ids st)
  /\ us_ids st' = us_ids st ++ [id]
  /\ files_sound id (rq_user rq) (rq_time rq) (rq_items rq) 0
  /\ us_recs st' = us_recs st ++ [(id, coalesce (exp_results id (rq_user rq) (rq_time rq) (rq_items rq) 0))]
  /\ us_fs st' = us_fs st ++ exp_files id (rq_user rq) (rq_time rq) (rq_items rq) 0.
Proof.
  unfold Upload.run_upload. intros H.
  pose proof (part_loop_spec o (rq_user rq) (rq_time rq) (rq_items rq) 0 (us_ids st)
                (mkFsw (us_fs st) 0) None _ eq_refl) as S.
  destruct (lo_failed _ _) eqn:Ef; cbn [orb] in H; [inversion H|].
  destruct (end_fails (rq_end rq)) eqn:Eend; [inversion H|].
  destruct (lo_pend _ _) as [p|]; [|inversion H].
  destruct (o_flush o || rejects _ || o_commit o); inversion H; subst; clear H.
  destruct S as ([Hids Hnin] & k & Hk & Hfw & _ & Hok). cbn [fw_fs] in Hfw.
  destruct (Hok eq_refl) as (-> & Hsound & Hres). rewrite firstn_all in Hfw.
  cbn [us_ids us_recs us_fs]. rewrite Hres. cbn [app]. auto.
Qed.

(** both directions in one statement *)
Theorem upload_all_or_nothing o st rq :
  let '(st', out) := run_upload o st rq in
  match out with
  | UErr => us_recs st' = us_recs st
  | UOk id _ =>
      us_recs st' = us_recs st ++ [(id, coalesce (exp_results id (rq_user rq) (rq_time rq) (rq_items rq) 0))]
  end.
Proof.
  destruct (run_upload o st rq) as [st' out] eqn:E. destruct out as [id fids|].
  - apply upload_success_stores_everything in E. tauto.
  - apply upload_error_changes_no_records in E. exact E.
Qed.

Definition loop_failed (o : oracle) (st : ustate rec) (rq : request) : bool :=
  lo_failed _ (part_loop o (rq_user rq) (rq_time rq) (rq_items rq) 0 (us_ids st) (mkFsw (us_fs st) 0) None).

(** what a failed upload leaves in the file store: the files of SOME prefix of
    the parts. (This form does not say which prefix; the statement that ties it
    to the failing part is Proofs/UploadSpec.v
    [failed_upload_leaves_parts_before_failing], used for C20_failed_file_removed.) *)
Theorem failed_file_removed o st rq st' :
  run_upload o st rq = (st', UErr) ->
  us_fs st' = us_fs st
  \/ exists id k, k <= length (rq_items rq)
       /\ us_fs st' = us_fs st ++ exp_files id (rq_user rq) (rq_time rq) (firstn k (rq_items rq)) 0
       /\ (loop_failed o st rq = true -> k < length (rq_items rq)).
Proof.
  unfold Upload.run_upload, loop_failed. intros H.
  pose proof (part_loop_spec o (rq_user rq) (rq_time rq) (rq_items rq) 0 (us_ids st)
                (mkFsw (us_fs st) 0) None _ eq_refl) as S.
  set (lo := part_loop o (rq_user rq) (rq_time rq) (rq_items rq) 0 (us_ids st) (mkFsw (us_fs st) 0) None) in *.
  assert (Hfs : us_fs st' = fw_fs (lo_fsw _ lo)).
  { repeat match type of H with
    | (if ?c then _ else _) = _ => destruct c
    | (match ?x with Some _ => _ | None => _ end) = _ => destruct x
    end; inversion H; reflexivity. }
  rewrite Hfs. destruct (lo_pend _ lo) as [p|].
  - right. destruct S as (_ & k & Hk & Hfw & Hfail & _). exists (pd_id _ p), k. auto.
  - left. destruct S as (_ & Hfw & _). exact Hfw.
Qed.

(** whatever happens, what earlier uploads stored stays exactly as it was *)
Theorem earlier_uploads_untouched o st rq :
  let st' := fst (run_upload o st rq) in
  (exists i, us_ids st' = us_ids st ++ i)
  /\ (exists r, us_recs st' = us_recs st ++ r)
  /\ (exists f, us_fs st' = us_fs st ++ f).
Proof.
  destruct (run_upload o st rq) as [st' out] eqn:E. cbn [fst].
  destruct out as [id fids|].
  - apply upload_success_stores_everything in E.
    destruct E as (_ & Hi & _ & Hr & Hf). rewrite Hi, Hr, Hf. repeat split; eexists; reflexivity.
  - pose proof (upload_error_changes_no_records _ _ _ _ E) as Hr.
    pose proof (failed_file_removed _ _ _ _ E) as Hf.
    split; [|split].
    + unfold Upload.run_upload in E.
      pose proof (part_loop_spec o (rq_user rq) (rq_time rq) (rq_items rq) 0 (us_ids st)
                    (mkFsw (us_fs st) 0) None _ eq_refl) as S.
      set (lo := part_loop o (rq_user rq) (rq_time rq) (rq_items rq) 0 (us_ids st) (mkFsw (us_fs st) 0) None) in *.
      assert (Hids : us_ids st' = lo_ids _ lo).
      { repeat match type of E with
        | (if ?c then _ else _) = _ => destruct c
        | (match ?x with Some _ => _ | None => _ end) = _ => destruct x
        end; inversion E; reflexivity. }
      rewrite Hids. destruct (lo_pend _ lo) as [p|].
      * destruct S as ([Hi _] & _). rewrite Hi. eexists; reflexivity.
      * destruct S as (_ & _ & Hi). rewrite Hi. exists []. rewrite app_nil_r. reflexivity.
    + rewrite Hr. exists []. rewrite app_nil_r. reflexivity.
    + destruct Hf as [Hf|(id & k & _ & Hf & _)]; rewrite Hf; [exists []; rewrite app_nil_r; reflexivity | eexists; reflexivity].
Qed.


(** ** every fault is an error: what a success implies *)

Lemma any_fail_false f : forall n from, any_fail f from n = false ->
  forall k, from <= k < from + n -> f k = false.
Proof.
  induction n as [|n IH]; intros from H k Hk; [lia|].
  cbn [any_fail] in H. apply orb_false_iff in H as [H0 H1].
  destruct (Nat.eq_dec k from) as [->|Hne]; [exact H0|].
  apply (IH (S from) H1). lia.
Qed.

Lemma index_file_ops o w id i user tm name body nw cut w' rs :
  index_file o w id i user tm name body nw cut = (w', FOk _ rs) ->
  fw_ops w <= fw_ops w' /\ forall n, fw_ops w <= n < fw_ops w' -> o_fs o n = false.
Proof.
  unfold Upload.index_file. intros H.
  destruct (o_fs o (fw_ops w)) eqn:E0; [inversion H|].
  destruct (any_fail (o_fs o) (S (fw_ops w)) _) eqn:E1; [inversion H|].
  destruct (any_fail (o_fs o) (S (fw_ops w) + _) nw) eqn:E2; [inversion H|].
  destruct (o_midflush o i); [inversion H|].
  destruct cut; [inversion H|].
  destruct (parse_file _ body); [inversion H|].
  destruct (o_fs o (S (fw_ops w) + _ + nw)) eqn:E3; inversion H; subst; clear H.
  cbn [fw_ops]. split; [lia|]. intros n Hn.
  set (h := length (header_lines (part_meta id i name user tm))) in *.
  destruct (Nat.eq_dec n (fw_ops w)) as [->|N0]; [exact E0|].
  destruct (Nat.lt_ge_cases n (S (fw_ops w) + h)) as [L1|G1].
  { apply (any_fail_false _ _ _ E1). lia. }
  destruct (Nat.lt_ge_cases n (S (fw_ops w) + h + nw)) as [L2|G2].
  { apply (any_fail_false _ _ _ E2). lia. }
  assert (n = S (fw_ops w) + h + nw) as -> by lia. exact E3.
Qed.

Lemma part_loop_no_fs_fault o user tm : forall items i ids w up lo,
  part_loop o user tm items i ids w up = lo -> lo_failed _ lo = false ->
  fw_ops w <= fw_ops (lo_fsw _ lo)
  /\ (forall n, fw_ops w <= n < fw_ops (lo_fsw _ lo) -> o_fs o n = false)
  /\ (up = None -> lo_pend _ lo <> None -> o_new_upload o = false).
Proof.
  induction items as [|it rest IH]; intros i ids w up lo H Hok.
  - cbn in H. subst lo. cbn. repeat split; try lia. intros ->. congruence.
  - destruct it as [name body nw cut| |field]; cbn [Upload.part_loop] in H.
    + destruct up as [p|].
      * destruct (index_file o w (pd_id _ p) i user tm name body nw cut) as [w' fo] eqn:Ef.
        destruct fo as [rs|]; [|subst lo; discriminate Hok].
        apply index_file_ops in Ef as [Hle Hno].
        destruct (IH _ _ _ _ _ H Hok) as (Hle2 & Hno2 & _).
        split; [lia|]. split; [|discriminate].
        intros n Hn. destruct (Nat.lt_ge_cases n (fw_ops w')); [apply Hno | apply Hno2]; lia.
      * destruct (o_new_upload o) eqn:En; [subst lo; discriminate Hok|].
        destruct (alloc ids) as [id|]; [|subst lo; discriminate Hok].
        destruct (index_file o w _ i user tm name body nw cut) as [w' fo] eqn:Ef.
        destruct fo as [rs|]; [|subst lo; discriminate Hok].
        apply index_file_ops in Ef as [Hle Hno].
        destruct (IH _ _ _ _ _ H Hok) as (Hle2 & Hno2 & _).
        split; [lia|]. split; [|auto].
        intros n Hn. destruct (Nat.lt_ge_cases n (fw_ops w')); [apply Hno | apply Hno2]; lia.
    + exact (IH _ _ _ _ _ H Hok).
    + subst lo. discriminate Hok.
Qed.

(** the indices of the "file" parts of a request (the argument [o_midflush] is
    asked about); every part, file or "commit" field, advances the index *)
Fixpoint file_indices (items : list item) (i : N) : list N :=
  match items with
  | [] => []
  | IFile _ _ _ _ :: r => i :: file_indices r (i + 1)
  | _ :: r => file_indices r (i + 1)
  end.

Lemma index_file_no_midflush o w id i user tm name body nw cut w' rs :
  index_file o w id i user tm name body nw cut = (w', FOk _ rs) -> o_midflush o i = false.
Proof.
  unfold Upload.index_file. intros H.
  destruct (o_fs o (fw_ops w)); [inversion H|].
  destruct (any_fail (o_fs o) (S (fw_ops w)) _); [inversion H|].
  destruct (any_fail (o_fs o) (S (fw_ops w) + _) nw); [inversion H|].
  destruct (o_midflush o i); [inversion H | reflexivity].
Qed.

(** a part loop that did not fail met no refused mid-upload flush: for every
    file part, the flush forced by the 990-argument limit (if any) succeeded *)
Lemma part_loop_no_midflush o user tm : forall items i ids w up lo,
  part_loop o user tm items i ids w up = lo -> lo_failed _ lo = false ->
  forall j, In j (file_indices items i) -> o_midflush o j = false.
Proof.
  induction items as [|it rest IH]; intros i ids w up lo H Hok j Hj; [destruct Hj|].
  destruct it as [name body nw cut| |field]; cbn [Upload.part_loop file_indices] in *.
  - destruct up as [p|].
    + destruct (index_file o w (pd_id _ p) i user tm name body nw cut) as [w' fo] eqn:Ef.
      destruct fo as [rs|]; [|subst lo; discriminate Hok].
      destruct Hj as [<-|Hj]; [exact (index_file_no_midflush _ _ _ _ _ _ _ _ _ _ _ _ Ef)|].
      exact (IH _ _ _ _ _ H Hok j Hj).
    + destruct (o_new_upload o); [subst lo; discriminate Hok|].
      destruct (alloc ids) as [id|]; [|subst lo; discriminate Hok].
      destruct (index_file o w _ i user tm name body nw cut) as [w' fo] eqn:Ef.
      destruct fo as [rs|]; [|subst lo; discriminate Hok].
      destruct Hj as [<-|Hj]; [exact (index_file_no_midflush _ _ _ _ _ _ _ _ _ _ _ _ Ef)|].
      exact (IH _ _ _ _ _ H Hok j Hj).
  - exact (IH _ _ _ _ _ H Hok j Hj).
  - subst lo. discriminate Hok.
Qed.

(** number of file-store operations a request performs when nothing fails *)
Definition ops_used (o : oracle) (st : ustate rec) (rq : request) : nat :=
  fw_ops (lo_fsw _ (part_loop o (rq_user rq) (rq_time rq) (rq_items rq) 0 (us_ids st) (mkFsw (us_fs st) 0) None)).

(** a successful upload met no fault of any kind: the contrapositive is "every
    single fault makes the upload fail" *)
Theorem upload_success_means_no_fault o st rq st' id fids :
  run_upload o st rq = (st', UOk id fids) ->
  rq_end rq <> EndBroken
  /\ files_sound id (rq_user rq) (rq_time rq) (rq_items rq) 0
  /\ o_new_upload o = false /\ o_flush o = false /\ o_commit o = false
  /\ rejects (coalesce (exp_results id (rq_user rq) (rq_time rq) (rq_items rq) 0)) = false
  /\ (forall n, n < ops_used o st rq -> o_fs o n = false)
  /\ (forall i, In i (file_indices (rq_items rq) 0) -> o_midflush o i = false).
Proof.
  intros H. pose proof (upload_success_stores_everything _ _ _ _ _ _ H) as (_ & _ & Hsound & _).
  unfold Upload.run_upload in H. unfold ops_used.
  pose proof (part_loop_spec o (rq_user rq) (rq_time rq) (rq_items rq) 0 (us_ids st)
                (mkFsw (us_fs st) 0) None _ eq_refl) as S.
  pose proof (part_loop_no_fs_fault o (rq_user rq) (rq_time rq) (rq_items rq) 0 (us_ids st)
                (mkFsw (us_fs st) 0) None _ eq_refl) as F.
  pose proof (part_loop_no_midflush o (rq_user rq) (rq_time rq) (rq_items rq) 0 (us_ids st)
                (mkFsw (us_fs st) 0) None _ eq_refl) as M.
  destruct (lo_failed _ _) eqn:Ef; cbn [orb] in H; [inversion H|].
  destruct (end_fails (rq_end rq)) eqn:Eend; [inversion H|].
  destruct (lo_pend _ _) as [p|] eqn:Ep; [|inversion H].
  destruct (o_flush o) eqn:E1; [inversion H|]. cbn [orb] in H.
  destruct (rejects _) eqn:E2; [inversion H|]. cbn [orb] in H.
  destruct (o_commit o) eqn:E3; inversion H; subst; clear H.
  destruct (F eq_refl) as (_ & Hno & Hnew). cbn [fw_ops] in Hno.
  destruct S as (_ & k & _ & _ & _ & Hok). destruct (Hok eq_refl) as (_ & _ & Hres).
  cbn [app] in Hres. rewrite Hres in E2.
  split; [intros E; rewrite E in Eend; discriminate|].
  split; [exact Hsound|]. split; [apply Hnew; congruence|].
  repeat split; auto. intros n Hn. apply Hno. lia.
Qed.

(** the converse reading for the new oracle component: a refused flush at the
    990-argument boundary while ANY file part is being read makes the upload
    fail and (by [upload_error_changes_no_records]) leaves no record *)
Theorem midflush_fault_fails_upload o st rq i :
  In i (file_indices (rq_items rq) 0) -> o_midflush o i = true ->
  snd (run_upload o st rq) = UErr.
Proof.
  intros Hi Hm. destruct (run_upload o st rq) as [st' out] eqn:E. cbn [snd].
  destruct out as [id fids|]; [|reflexivity].
  apply upload_success_means_no_fault in E. destruct E as (_ & _ & _ & _ & _ & _ & _ & M).
  rewrite (M i Hi) in Hm. discriminate Hm.
Qed.

(** a body whose part sequence breaks off with an error is always refused *)
Theorem broken_request_rejected o st rq :
  rq_end rq = EndBroken -> snd (run_upload o st rq) = UErr.
Proof.
  intros E. unfold Upload.run_upload. rewrite E. cbn [end_fails]. rewrite orb_true_r. reflexivity.
Qed.

(** over a whole history of requests and oracles *)
Fixpoint run_history (st : ustate rec) (h : list (oracle * request)) : ustate rec :=
  match h with
  | [] => st
  | (o, rq) :: h' => run_history (fst (run_upload o st rq)) h'
  end.

Theorem history_preserves_earlier st h :
  (exists i, us_ids (run_history st h) = us_ids st ++ i)
  /\ (exists r, us_recs (run_history st h) = us_recs st ++ r)
  /\ (exists f, us_fs (run_history st h) = us_fs st ++ f).
Proof.
  revert st. induction h as [|[o rq] h IH]; intros st; cbn [run_history].
  - repeat split; exists []; rewrite app_nil_r; reflexivity.
  - destruct (IH (fst (run_upload o st rq))) as ((i & Hi) & (r & Hr) & (f & Hf)).
    destruct (earlier_uploads_untouched o st rq) as ((i0 & Hi0) & (r0 & Hr0) & (f0 & Hf0)).
    rewrite Hi, Hr, Hf, Hi0, Hr0, Hf0, <- !app_assoc. repeat split; eexists; reflexivity.
Qed.

(** allocated upload IDs are never given up and a successful upload's ID was
    not in the table before *)
Theorem ids_never_reused_upload o st rq :
  let '(st', out) := run_upload o st rq in
  (forall i, In i (us_ids st) -> In i (us_ids st'))
  /\ match out with UOk id _ => ~ In id (us_ids st) /\ In id (us_ids st') | UErr => True end.
Proof.
  destruct (run_upload o st rq) as [st' out] eqn:E.
  pose proof (earlier_uploads_untouched o st rq) as H. rewrite E in H. cbn [fst] in H.
  destruct H as ((i & Hi) & _). split.
  - intros x Hx. rewrite Hi. apply in_or_app. auto.
  - destruct out as [id fids|]; [|exact I].
    apply upload_success_stores_everything in E. destruct E as (Hn & Hids & _).
    split; [exact Hn|]. rewrite Hids. apply in_or_app. right. left. reflexivity.
Qed.

(** /uploads hides uploads without records: every listed upload has a
    non-zero number of committed records, so an upload that failed (its ID is in
    the Uploads table, no record was committed) is never listed *)
Theorem listing_hides_recordless_uploads (st : ustate rec) id n :
  In (id, n) (listing rec st) ->
  n <> 0 /\ exists recs, In (id, recs) (us_recs st) /\ n = length recs.
Proof.
  unfold listing. intros H. apply in_rev in H. apply in_map_iff in H as ([i recs] & E & Hin).
  apply filter_In in Hin as [Hin Hnz]. cbn [fst snd] in *. inversion E; subst.
  split; [|exists recs; auto]. apply negb_true_iff, Nat.eqb_neq in Hnz. exact Hnz.
Qed.

Theorem failed_upload_not_listed o st rq st' :
  run_upload o st rq = (st', UErr) -> listing rec st' = listing rec st.
Proof.
  intros H. unfold listing. rewrite (upload_error_changes_no_records _ _ _ _ H). reflexivity.
Qed.

End Proofs.

(** ** the recorded finding, on the model of the code as it is: a body that
    stops inside the header of a later part (EndInHeader) is committed *)
Definition witness_cut_request : request :=
  mkReq [IFile (bs "a.txt") (bs "BenchmarkA 1 2 ns/op" ++ [c_lf]) 1 false] EndInHeader [] (bs "t").

Lemma cut_in_later_header_committed :
  exists st' fids,
    run_upload_sf (Some (bs "20260930.1")) (mkOracle false (fun _ => false) (fun _ => false) false false)
                  (mkUs [] [] []) witness_cut_request = (st', UOk (bs "20260930.1") fids)
    /\ length (us_recs st') = 1.
Proof. eexists. eexists. split; vm_compute; reflexivity. Qed.
