(** TRef: certified reference points of Student's t CDF (tests, not proofs
    about the code). For nu in {1,2,3,4,5,10} the density
      f_nu(t) = Gamma((nu+1)/2) / (sqrt(nu pi) Gamma(nu/2)) (1 + t^2/nu)^(-(nu+1)/2)
    has the closed forms below (Gamma(1/2) = sqrt pi, Gamma(z+1) = z Gamma(z));
    F_nu(x) = 1/2 + int_0^x f_nu. Each lemma encloses int_0^x f_nu within 1e-11
    of a decimal constant, by the [integral] tactic of coq-interval (interval
    arithmetic, checked by the kernel). The same constants are the table
    [Model/TRefTable.v] that the correspondence run compares the
    implementation against (within 1e-10). Generated once from one grid. *)
From Coq Require Import Reals.
From Interval Require Import Tactic.
From Coquelicot Require Import Coquelicot.
Open Scope R_scope.

Lemma tref_0 : Rabs (RInt (fun t => / (PI * (1 + t*t))) 0 1 - 250000000000000 / 1000000000000000) <= 1 / 100000000000.
Proof. integral with (i_fuel 200, i_prec 64). Qed.

Lemma tref_1 : Rabs (RInt (fun t => / (PI * (1 + t*t))) 0 6.5 - 451410209652471 / 1000000000000000) <= 1 / 100000000000.
Proof. integral with (i_fuel 200, i_prec 64). Qed.

Lemma tref_2 : Rabs (RInt (fun t => / (2 * sqrt 2 * ((1 + t*t/2) * sqrt (1 + t*t/2)))) 0 0.5 - 166666666666667 / 1000000000000000) <= 1 / 100000000000.
Proof. integral with (i_fuel 200, i_prec 64). Qed.

Lemma tref_3 : Rabs (RInt (fun t => / (2 * sqrt 2 * ((1 + t*t/2) * sqrt (1 + t*t/2)))) 0 3 - 452267016866645 / 1000000000000000) <= 1 / 100000000000.
Proof. integral with (i_fuel 200, i_prec 64). Qed.

Lemma tref_4 : Rabs (RInt (fun t => 2 / (PI * sqrt 3 * ((1 + t*t/3) * (1 + t*t/3)))) 0 1 - 304498890522115 / 1000000000000000) <= 1 / 100000000000.
Proof. integral with (i_fuel 200, i_prec 64). Qed.

Lemma tref_5 : Rabs (RInt (fun t => 2 / (PI * sqrt 3 * ((1 + t*t/3) * (1 + t*t/3)))) 0 4.5 - 489754793827773 / 1000000000000000) <= 1 / 100000000000.
Proof. integral with (i_fuel 200, i_prec 64). Qed.

Lemma tref_6 : Rabs (RInt (fun t => 3 / (8 * ((1 + t*t/4) * (1 + t*t/4) * sqrt (1 + t*t/4)))) 0 1.5 - 396000000000000 / 1000000000000000) <= 1 / 100000000000.
Proof. integral with (i_fuel 200, i_prec 64). Qed.

Lemma tref_7 : Rabs (RInt (fun t => 8 / (3 * PI * sqrt 5 * ((1 + t*t/5) * (1 + t*t/5) * (1 + t*t/5)))) 0 2 - 449030260585071 / 1000000000000000) <= 1 / 100000000000.
Proof. integral with (i_fuel 200, i_prec 64). Qed.

Lemma tref_8 : Rabs (RInt (fun t => 945 / (768 * sqrt 10 * ((1 + t*t/10) * (1 + t*t/10) * (1 + t*t/10) * (1 + t*t/10) * (1 + t*t/10) * sqrt (1 + t*t/10)))) 0 0.75 - 264734002309229 / 1000000000000000) <= 1 / 100000000000.
Proof. integral with (i_fuel 200, i_prec 64). Qed.

Lemma tref_9 : Rabs (RInt (fun t => 945 / (768 * sqrt 10 * ((1 + t*t/10) * (1 + t*t/10) * (1 + t*t/10) * (1 + t*t/10) * (1 + t*t/10) * sqrt (1 + t*t/10)))) 0 3.25 - 495639753639294 / 1000000000000000) <= 1 / 100000000000.
Proof. integral with (i_fuel 200, i_prec 64). Qed.

