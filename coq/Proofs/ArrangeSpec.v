(** C15: facts about the arrangement specification (Model/ArrangeSpec.v).
    - the specification determines the arrangement: two output sequences it
      accepts for the same keys are equal ([arranged_unique]; for field orders
      first / alpha / fixed);
    - with an explicit order on every field, [key_before] does not look at the
      stream, hence the first column of a table, the existence of a cell and
      so which cell a cell is compared with are invariant under every
      permutation of the stream ([is_first_col_perm], [has_cell_perm]);
    - with a field in first-observation order they are not (witness). *)
From Perf Require Import Base.Bytes Base.B64 Model.Projection Model.Sort Model.ArrangeSpec.
From Coq Require Import Sorting.Permutation Lia.

Lemma key_eqb_eq a b : key_eqb a b = true <-> a = b.
Proof. apply list_eqb_spec. apply beq_eq. Qed.
Lemma key_eqb_refl a : key_eqb a a = true.
Proof. now apply key_eqb_eq. Qed.

Lemma kmem_In k l : kmem k l = true <-> In k l.
Proof.
  unfold kmem. rewrite existsb_exists. split.
  - intros [x [Hin He]]. apply key_eqb_eq in He. now subst.
  - intros H. exists k. split; auto. apply key_eqb_refl.
Qed.

(** ** the specification determines the arrangement *)
Section Unique.
  Variable lt : key -> key -> bool.
  Hypothesis lt_irrefl : forall x, lt x x = false.
  Hypothesis lt_asym : forall x y, lt x y = true -> lt y x = false.

  Lemma all_pairs_notin x r : forallb (lt x) r = true -> ~ In x r.
  Proof.
    intros H Hin. rewrite forallb_forall in H. specialize (H x Hin). now rewrite lt_irrefl in H.
  Qed.

  Lemma all_pairs_unique : forall o1 o2,
    all_pairs lt o1 = true -> all_pairs lt o2 = true ->
    (forall k, In k o1 <-> In k o2) -> o1 = o2.
  Proof.
    induction o1 as [|x r1 IH]; intros o2 H1 H2 Hset.
    - destruct o2 as [|y r2]; auto. exfalso. apply (Hset y). now left.
    - destruct o2 as [|y r2]; [exfalso; apply (Hset x); now left|].
      cbn in H1, H2. apply andb_true_iff in H1 as [Hx Hr1]. apply andb_true_iff in H2 as [Hy Hr2].
      assert (x = y) as ->.
      { destruct (proj1 (Hset x) (or_introl eq_refl)) as [E|Hin]; [now subst|].
        destruct (proj2 (Hset y) (or_introl eq_refl)) as [E|Hin']; [now subst|].
        rewrite forallb_forall in Hx, Hy.
        specialize (Hx y Hin'). specialize (Hy x Hin). apply lt_asym in Hx. congruence. }
      f_equal. apply IH; auto.
      intros k. split; intros Hk.
      + destruct (proj1 (Hset k) (or_intror Hk)) as [E|Hin]; auto.
        subst k. exfalso. now apply (all_pairs_notin y r1).
      + destruct (proj2 (Hset k) (or_intror Hk)) as [E|Hin]; auto.
        subst k. exfalso. now apply (all_pairs_notin y r2).
  Qed.
End Unique.

Lemma same_keys_In a b : same_keys a b = true -> forall k, In k a <-> In k b.
Proof.
  unfold same_keys. rewrite andb_true_iff, !forallb_forall. intros [H1 H2] k. split; intros Hk.
  - apply kmem_In. now apply H1.
  - apply kmem_In. now apply H2.
Qed.

(** field orders without [num] *)
Definition num_free (fs : list ford) : Prop := forall tbl, ~ In (FNum tbl) fs.

Lemma bltb_irrefl a : bltb a a = false.
Proof. unfold bltb. now rewrite (proj2 (bcmp_eq a a) eq_refl). Qed.
Lemma bltb_asym a b : bltb a b = true -> bltb b a = false.
Proof. unfold bltb. rewrite (bcmp_antisym a b). destruct (bcmp a b); cbn; congruence. Qed.

Lemma observed_before_asym vals a b : observed_before vals a b = true -> observed_before vals b a = false.
Proof.
  unfold observed_before. destruct (pos_of a vals) as [i|], (pos_of b vals) as [j|]; try congruence.
  rewrite !Nat.ltb_lt, Nat.ltb_ge. lia.
Qed.

Lemma val_before_asym o vals a b :
  (forall tbl, o <> FNum tbl) -> val_before o vals a b = true -> val_before o vals b a = false.
Proof.
  destruct o as [| |l|tbl]; cbn; intros Hn.
  - apply observed_before_asym.
  - apply bltb_asym.
  - apply observed_before_asym.
  - now destruct (Hn tbl).
Qed.

Lemma key_before_from_irrefl fs : forall i ks a, key_before_from i fs ks a a = false.
Proof. induction fs as [|o fs IH]; intros i ks a; cbn; auto. now rewrite beq_refl. Qed.

Lemma beq_sym a b : beq a b = beq b a.
Proof. destruct (beq_spec a b), (beq_spec b a); congruence. Qed.

Lemma key_before_from_asym fs : num_free fs -> forall i ks a b,
  key_before_from i fs ks a b = true -> key_before_from i fs ks b a = false.
Proof.
  induction fs as [|o fs IH]; intros Hn i ks a b; cbn; [congruence|].
  rewrite (beq_sym (nth i b []) (nth i a [])).
  destruct (beq (nth i a []) (nth i b [])).
  - apply IH. intros tbl Hin. apply (Hn tbl). now right.
  - apply val_before_asym. intros tbl ->. apply (Hn tbl). now left.
Qed.

Theorem arranged_unique fs ks members o1 o2 :
  num_free fs ->
  arranged fs ks members o1 = true -> arranged fs ks members o2 = true -> o1 = o2.
Proof.
  unfold arranged. intros Hn H1 H2.
  apply andb_true_iff in H1 as [P1 S1]. apply andb_true_iff in H2 as [P2 S2].
  apply (all_pairs_unique (key_before fs ks)); auto.
  - intros x. apply key_before_from_irrefl.
  - intros x y. now apply key_before_from_asym.
  - intros k. rewrite (same_keys_In _ _ S1 k), (same_keys_In _ _ S2 k). tauto.
Qed.

(** ** explicit orders: nothing depends on the order of the stream *)
Definition is_explicit (o : ford) : bool := match o with FFirst => false | _ => true end.

Lemma key_before_from_explicit fs : forallb is_explicit fs = true ->
  forall i ks ks' a b, key_before_from i fs ks a b = key_before_from i fs ks' a b.
Proof.
  induction fs as [|o fs IH]; intros He i ks ks' a b; cbn; auto.
  cbn in He. apply andb_true_iff in He as [Ho He].
  destruct (beq (nth i a []) (nth i b [])); [now apply IH|].
  destruct o; cbn in *; congruence.
Qed.

Lemma existsb_perm {A} (f : A -> bool) l l' : Permutation l l' -> existsb f l = existsb f l'.
Proof.
  induction 1; cbn; auto.
  - now rewrite IHPermutation.
  - destruct (f x), (f y); auto.
  - congruence.
Qed.
Lemma forallb_perm {A} (f : A -> bool) l l' : Permutation l l' -> forallb f l = forallb f l'.
Proof.
  induction 1; cbn; auto.
  - now rewrite IHPermutation.
  - destruct (f x), (f y); auto.
  - congruence.
Qed.
Lemma filter_perm {A} (f : A -> bool) l l' : Permutation l l' -> Permutation (filter f l) (filter f l').
Proof.
  induction 1; cbn; auto.
  - destruct (f x); auto.
  - destruct (f x), (f y); auto. apply perm_swap.
  - eapply perm_trans; eauto.
Qed.

Lemma forallb_ext' {A} (f g : A -> bool) l : (forall x, f x = g x) -> forallb f l = forallb g l.
Proof. intros H. induction l as [|x l IH]; cbn; auto. now rewrite H, IH. Qed.

Theorem has_cell_perm s s' t r c : Permutation s s' -> has_cell s t r c = has_cell s' t r c.
Proof. intros H. unfold has_cell. now apply existsb_perm. Qed.

Theorem is_first_col_perm fc s s' t c :
  forallb is_explicit fc = true -> Permutation s s' ->
  is_first_col fc s t c = is_first_col fc s' t c.
Proof.
  intros He Hp. unfold is_first_col.
  assert (Hc : Permutation (map e_c (in_table t s)) (map e_c (in_table t s'))).
  { apply Permutation_map. unfold in_table. now apply filter_perm. }
  f_equal.
  - unfold kmem. now apply existsb_perm.
  - rewrite (forallb_perm _ _ _ Hc). apply forallb_ext'. intros c'. f_equal.
    unfold key_before. now apply key_before_from_explicit.
Qed.

(** the first column is unique: [first_col] (a search) returns THE key with [is_first_col] *)
Lemma first_col_spec fc s t c : first_col fc s t = Some c -> is_first_col fc s t c = true.
Proof. unfold first_col. intros H. now apply find_some in H. Qed.

Lemma is_first_col_unique fc s t c1 c2 :
  num_free fc -> is_first_col fc s t c1 = true -> is_first_col fc s t c2 = true -> c1 = c2.
Proof.
  unfold is_first_col. intros Hn H1 H2.
  apply andb_true_iff in H1 as [M1 F1]. apply andb_true_iff in H2 as [M2 F2].
  rewrite forallb_forall in F1, F2. apply kmem_In in M1, M2.
  specialize (F1 c2 M2). specialize (F2 c1 M1).
  apply orb_true_iff in F1 as [E|B1]; [apply key_eqb_eq in E; now subst|].
  apply orb_true_iff in F2 as [E|B2]; [now apply key_eqb_eq in E|].
  apply (key_before_from_asym fc Hn) in B1. unfold key_before in B2. congruence.
Qed.

Theorem first_col_perm fc s s' t :
  num_free fc -> forallb is_explicit fc = true -> Permutation s s' ->
  first_col fc s t = first_col fc s' t.
Proof.
  intros Hn He Hp.
  destruct (first_col fc s t) as [c|] eqn:E1, (first_col fc s' t) as [c'|] eqn:E2; auto.
  - f_equal. apply (is_first_col_unique fc s t); auto.
    + now apply first_col_spec.
    + rewrite (is_first_col_perm fc s s' t c' He Hp). now apply first_col_spec.
  - exfalso. pose proof (first_col_spec _ _ _ _ E1) as H1.
    rewrite (is_first_col_perm fc s s' t c He Hp) in H1.
    unfold first_col in E2. assert (M : In c (map e_c (in_table t s'))).
    { unfold is_first_col in H1. apply andb_true_iff in H1 as [M _]. now apply kmem_In in M. }
    pose proof (find_none _ _ E2 c M) as F. cbv beta in F. congruence.
  - exfalso. pose proof (first_col_spec _ _ _ _ E2) as H2.
    rewrite <- (is_first_col_perm fc s s' t c' He Hp) in H2.
    unfold first_col in E1. assert (M : In c' (map e_c (in_table t s))).
    { unfold is_first_col in H2. apply andb_true_iff in H2 as [M _]. now apply kmem_In in M. }
    pose proof (find_none _ _ E1 c' M) as F. cbv beta in F. congruence.
Qed.

(** which cell a cell is compared with does not depend on the order of the lines *)
Theorem base_col_perm fc s s' t r c :
  num_free fc -> forallb is_explicit fc = true -> Permutation s s' ->
  base_col fc s t r c = base_col fc s' t r c.
Proof.
  intros Hn He Hp. unfold base_col. rewrite (first_col_perm fc s s' t Hn He Hp).
  destruct (first_col fc s' t) as [b|]; auto.
  now rewrite (has_cell_perm s s' t r b Hp).
Qed.

(** ** first-observation order: the baseline depends on the order of the lines *)
Definition wk (s : String.string) : key := [bs s].
Arguments wk _%string_scope.
Definition w_in1 : list entry :=
  [(wk "ns/op", wk "X", wk "a"); (wk "ns/op", wk "X", wk "a"); (wk "ns/op", wk "X", wk "b"); (wk "ns/op", wk "X", wk "b")].
Definition w_in2 : list entry :=
  [(wk "ns/op", wk "X", wk "b"); (wk "ns/op", wk "X", wk "a"); (wk "ns/op", wk "X", wk "a"); (wk "ns/op", wk "X", wk "b")].

Lemma w_perm : Permutation w_in1 w_in2.
Proof.
  unfold w_in1, w_in2.
  eapply perm_trans; [apply perm_skip, perm_swap|]. apply perm_swap.
Qed.

Theorem line_perm_baseline_refuted :
  exists s s' t r c, Permutation s s' /\ base_col [FFirst] s t r c <> base_col [FFirst] s' t r c.
Proof.
  exists w_in1, w_in2, (wk "ns/op"), (wk "X"), (wk "b"). split; [apply w_perm|].
  vm_compute. discriminate.
Qed.

(** the same streams under an explicit order: the same baseline *)
Example explicit_order_same_baseline :
  base_col [FAlpha] w_in1 (wk "ns/op") (wk "X") (wk "b") = base_col [FAlpha] w_in2 (wk "ns/op") (wk "X") (wk "b")
  /\ base_col [FAlpha] w_in1 (wk "ns/op") (wk "X") (wk "b") = Some (wk "a").
Proof. vm_compute. auto. Qed.

(** the model arranges the witness as the specification demands *)
Example model_meets_spec_on_witness :
  arranged [FFirst] (map e_c w_in2) (map e_c w_in2) (model_arrange [FFirst] (map e_c w_in2) (map e_c w_in2)) = true
  /\ model_arrange [FFirst] (map e_c w_in2) (map e_c w_in2) = [wk "b"; wk "a"].
Proof. vm_compute. auto. Qed.
