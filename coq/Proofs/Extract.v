(** Proofs about the extractor model (C05, reused by C06/C08). *)
From Perf Require Import Base.Bytes Model.Name Model.Extract Proofs.Name.

Definition no_prefix (pre : bytes) (p : bytes) : Prop := has_prefix p pre = false.

Lemma find_prefixed_found l1 pre v l2 :
  Forall (no_prefix pre) l1 ->
  find_prefixed (l1 ++ (pre ++ v) :: l2) pre = Some v.
Proof.
  induction 1 as [|p l1 Hp _ IH]; cbn.
  - rewrite has_prefix_app. rewrite skipn_app, skipn_all, Nat.sub_diag. reflexivity.
  - unfold no_prefix in Hp. now rewrite Hp.
Qed.

Lemma find_prefixed_absent ps pre :
  Forall (no_prefix pre) ps -> find_prefixed ps pre = None.
Proof.
  induction 1 as [|p l1 Hp _ IH]; cbn; auto. unfold no_prefix in Hp. now rewrite Hp.
Qed.

Lemma find_prefixed_inv ps pre :
  match find_prefixed ps pre with
  | Some v => exists l1 l2, ps = l1 ++ (pre ++ v) :: l2 /\ Forall (no_prefix pre) l1
  | None => Forall (no_prefix pre) ps
  end.
Proof.
  induction ps as [|p ps IH]; cbn; auto.
  destruct (has_prefix p pre) eqn:E.
  - exists [], ps. split; auto. cbn. f_equal. now apply has_prefix_skipn.
  - destruct (find_prefixed ps pre) as [v|].
    + destruct IH as [l1 [l2 [-> H]]]. exists (p :: l1), l2. split; auto.
    + constructor; auto.
Qed.

Lemma last_opt_snoc {A} (l : list A) x : last_opt (l ++ [x]) = Some x.
Proof. unfold last_opt. now rewrite rev_app_distr. Qed.

Lemma last_opt_in {A} (l : list A) x : last_opt l = Some x -> In x l.
Proof.
  unfold last_opt. destruct (rev l) eqn:E; [congruence|]. intros [= ->].
  apply in_rev. rewrite E. now left.
Qed.

(** ** the individual keys *)
Lemma key_name_neq_fullname : beq key_fullname key_name = false.
Proof. reflexivity. Qed.

Theorem extract_dotname n c : extract key_name n c = fst (parts n).
Proof. unfold extract. rewrite beq_refl. apply base_eq_parts_base. Qed.

Theorem extract_dotfullname n c : extract key_fullname n c = n.
Proof. reflexivity. Qed.

Definition plain_key (k : bytes) : Prop :=
  k <> key_name /\ k <> key_fullname /\ is_subname_key k = false.

Lemma extract_plain k n c : plain_key k -> extract k n c = extract_config c k.
Proof.
  intros [H1 [H2 H3]]. unfold extract.
  destruct (beq_spec k key_name); [congruence|].
  destruct (beq_spec k key_fullname); [congruence|].
  now rewrite H3.
Qed.

(** a plain key yields the value of the (first) configuration entry with that
    key, file or internal alike, and the empty string when there is none *)
Theorem extract_config_present k n c l1 x l2 :
  plain_key k -> c = l1 ++ x :: l2 -> c_key x = k ->
  Forall (fun y => c_key y <> k) l1 ->
  extract k n c = c_val x.
Proof.
  intros Hk -> Hx Hl. rewrite extract_plain by auto. unfold extract_config.
  induction Hl as [|y l1 Hy _ IH]; cbn.
  - rewrite Hx, beq_refl. reflexivity.
  - destruct (beq_spec (c_key y) k); [congruence|]. exact IH.
Qed.

Theorem extract_config_absent k n c :
  plain_key k -> Forall (fun y => c_key y <> k) c -> extract k n c = [].
Proof.
  intros Hk Hl. rewrite extract_plain by auto. unfold extract_config.
  induction Hl as [|y l1 Hy _ IH]; cbn; auto.
  destruct (beq_spec (c_key y) k); [congruence|]. exact IH.
Qed.

Lemma extract_subname k n c :
  is_subname_key k = true ->
  extract k n c = extract_namepart n (k ++ [c_eq]) (beq k key_gomaxprocs).
Proof.
  intros H. unfold extract.
  destruct (beq_spec k key_name) as [->|]; [discriminate|].
  destruct (beq_spec k key_fullname) as [->|]; [discriminate|].
  now rewrite H.
Qed.

(** [/k]: the text after "/k=" in the first part with that prefix *)
Theorem extract_subname_found k n c l1 v l2 :
  is_subname_key k = true -> k <> key_gomaxprocs ->
  snd (parts n) = l1 ++ ((k ++ [c_eq]) ++ v) :: l2 ->
  Forall (no_prefix (k ++ [c_eq])) l1 ->
  extract k n c = v.
Proof.
  intros Hk Hg Hp Hl. rewrite extract_subname by auto.
  destruct (beq_spec k key_gomaxprocs); [congruence|].
  unfold extract_namepart. rewrite Hp, find_prefixed_found by auto. reflexivity.
Qed.

Theorem extract_subname_absent k n c :
  is_subname_key k = true -> k <> key_gomaxprocs ->
  Forall (no_prefix (k ++ [c_eq])) (snd (parts n)) ->
  extract k n c = [].
Proof.
  intros Hk Hg Hl. rewrite extract_subname by auto.
  destruct (beq_spec k key_gomaxprocs); [congruence|].
  unfold extract_namepart. now rewrite find_prefixed_absent.
Qed.

(** [/gomaxprocs]: a trailing "-N" wins *)
Theorem extract_gomaxprocs_suffix q ds c :
  ds <> [] -> all_digits ds ->
  extract key_gomaxprocs (q ++ c_dash :: ds) c = ds.
Proof.
  intros Hne Hd. rewrite extract_subname by reflexivity. rewrite beq_refl.
  unfold extract_namepart, parts.
  rewrite (split_gmp_complete q (c_dash :: ds)) by (exists ds; auto).
  destruct (split_slash q) as [b ps]. cbn [snd opt_list].
  rewrite last_opt_snoc, beqb_refl. reflexivity.
Qed.

(** ... otherwise an explicit /gomaxprocs= segment is used like any other key *)
Theorem extract_gomaxprocs_explicit n c :
  (~ exists q g, n = q ++ g /\ is_gmp_part g) ->
  extract key_gomaxprocs n c =
    match find_prefixed (snd (parts n)) (key_gomaxprocs ++ [c_eq]) with
    | Some v => v | None => []
    end.
Proof.
  intros Hno. rewrite extract_subname by reflexivity. rewrite beq_refl.
  unfold extract_namepart.
  destruct (parts_unfold n) as [buf [g [b [ps [H1 [H2 H3]]]]]].
  destruct g as [g|].
  { exfalso. apply Hno. apply split_gmp_some in H1 as [-> Hg]. eauto. }
  rewrite H3. cbn [snd opt_list]. rewrite app_nil_r.
  destruct (last_opt ps) as [[|x rest]|] eqn:E; auto.
  apply last_opt_in in E. apply split_slash_spec in H2 as [_ [_ Hps]].
  rewrite Forall_forall in Hps. destruct (Hps _ E) as [s [[= -> ->] _]].
  reflexivity.
Qed.

(** ** the full name with exclusions: the fast path is only an optimisation *)
Lemma part_in_name n p : In p (snd (parts n)) -> exists a b, n = a ++ p ++ b.
Proof.
  intros Hin. apply in_split in Hin as [l1 [l2 Hl]].
  exists (fst (parts n) ++ concat l1), (concat l2).
  rewrite <- (parts_concat n) at 1. rewrite Hl, concat_app. cbn [concat].
  now rewrite <- !app_assoc.
Qed.

Lemma contains_of_prefix_part n p k :
  In p (snd (parts n)) -> has_prefix p k = true -> contains n k = true.
Proof.
  intros Hin Hp. destruct (part_in_name _ _ Hin) as [a [b ->]].
  apply has_prefix_spec in Hp as [r ->]. apply contains_spec.
  exists a, (r ++ b). now rewrite <- !app_assoc.
Qed.

Definition slow_full_excluded (n : bytes) (delete : list bytes) (exc_name exc_gmp : bool) : bytes :=
  let '(b, ps) := parts n in
  (if exc_name then [c_star] else b)
    ++ concat (filter (fun p => negb (part_deleted delete exc_gmp p)) ps).

Theorem full_excluded_fastpath n delete exc_name exc_gmp :
  extract_full_excluded n delete exc_name exc_gmp = slow_full_excluded n delete exc_name exc_gmp.
Proof.
  unfold extract_full_excluded, slow_full_excluded.
  destruct (negb _) eqn:Hfound; [|reflexivity].
  apply negb_true_iff in Hfound. apply orb_false_iff in Hfound as [Hf Hgmp].
  apply orb_false_iff in Hf as [-> Hdel].
  destruct (parts n) as [b ps] eqn:Ep.
  assert (Hkeep : filter (fun p => negb (part_deleted delete exc_gmp p)) ps = ps).
  { apply filter_all_id. intros p Hp. apply negb_true_iff.
    unfold part_deleted. apply orb_false_iff. split.
    - destruct (existsb (has_prefix p) delete) eqn:Ex; auto.
      apply existsb_exists in Ex as [k [Hk1 Hk2]].
      assert (In p (snd (parts n))) as Hin by now rewrite Ep.
      pose proof (contains_of_prefix_part _ _ _ Hin Hk2) as Hc.
      assert (existsb (contains n) delete = true) by (apply existsb_exists; eauto).
      congruence.
    - destruct exc_gmp; auto. cbn in *. destruct p as [|x p]; auto.
      destruct (beqb_spec x c_dash) as [->|]; auto.
      assert (In (c_dash :: p) (snd (parts n))) as Hin by now rewrite Ep.
      destruct (part_in_name _ _ Hin) as [a [r Hn]].
      destruct (index_byte n c_dash) eqn:Ei; [discriminate|].
      apply index_byte_none in Ei. exfalso. apply Ei. rewrite Hn.
      apply in_or_app. right. now left. }
  rewrite Hkeep. pose proof (parts_concat n) as Hc. rewrite Ep in Hc. now cbn in Hc.
Qed.
