(** Proofs about Model/LegacySpec.v (the exact-rational specification C17 is
    judged with): its quartiles are the textbook R8 percentiles of
    Model/StatsQ.v, its mean is sum/n, which is also what the code's recurrence
    computes when nothing is rounded; and the recorded deviations of the real
    code from it (known finding C17_binary64_overflow; the direction rule
    repaired by hooks/fix_c17_change_direction.diff), by evaluation. *)
From Coq Require Import ZArith QArith Qround List Bool.
From Perf Require Import Base.Bytes Base.B64 Base.B64Q Model.StatsQ Model.StatsF Model.Legacy Model.LegacySpec.
From Perf Require Proofs.StatsQ.
Import ListNotations.
Local Open Scope Q_scope.

Lemma order_stat_finite vals j :
  sp_nneg vals = 0%Z -> (0 <= j < Z.of_nat (length (sp_sorted vals)))%Z ->
  order_stat vals j = Some (nth_q (sp_sorted vals) j).
Proof.
  intros H0 [Hj0 Hj1]. unfold order_stat. rewrite H0, Z.sub_0_r.
  destruct (j <? 0)%Z eqn:A; [apply Z.ltb_lt in A; exfalso; apply (Z.lt_irrefl j); now apply Z.lt_le_trans with 0%Z|].
  destruct (j <? Z.of_nat (length (sp_sorted vals)))%Z eqn:B; [reflexivity|].
  apply Z.ltb_ge in B. exfalso. apply (Z.lt_irrefl j). now apply Z.lt_le_trans with (Z.of_nat (length (sp_sorted vals))).
Qed.

(** on a non-empty sample without infinities the quartile is the textbook R8
    percentile of the sorted sample *)
Lemma quantile_x_finite vals p :
  sp_nneg vals = 0%Z -> Z.of_nat (length (sp_sorted vals)) = sp_N vals -> (0 < sp_N vals)%Z ->
  Qle_bool p 0 = false -> Qle_bool 1 p = false ->
  quantile_x vals p = Some (percentile_q (sp_sorted vals) p).
Proof.
  intros H0 HL HN Hp0 Hp1. unfold quantile_x, percentile_q, interp_q.
  rewrite Hp0, Hp1, HL.
  set (n := r8_pos_q (sp_N vals) p). set (k := Qfloor n).
  destruct (k <=? 0)%Z eqn:A.
  - apply order_stat_finite; auto. rewrite HL. split; [apply Z.le_refl|exact HN].
  - apply Z.leb_gt in A.
    destruct (sp_N vals <=? k)%Z eqn:B.
    + apply order_stat_finite; auto. rewrite HL. split.
      * apply Z.lt_le_pred in HN. now rewrite <- Z.sub_1_r in HN.
      * apply Z.lt_pred_l.
    + apply Z.leb_gt in B.
      rewrite !order_stat_finite; auto; rewrite HL; split; auto.
      * now apply Z.lt_le_incl.
      * apply Z.lt_le_pred in A. now rewrite <- Z.sub_1_r in A.
      * apply Z.lt_trans with k; auto. apply Z.lt_pred_l.
Qed.


(** the specification's mean is sum/n of the retained values (in units of 2^E) ... *)
Lemma mean_x_is_sum_div_n rv :
  mean_x rv = sum_q (map (fun x => inject_Z (scaled_int (min_exp rv) x)) rv)
              / inject_Z (Z.of_nat (length rv)).
Proof. unfold mean_x, mean_q, len_q. now rewrite map_length. Qed.

(** ... and the code's recurrence m += (x - m)/(i+1), run without rounding, yields exactly that *)
Lemma mean_recurrence_exact xs : xs <> [] -> mean_inc_q 0 0 xs == mean_q xs.
Proof. exact (Proofs.StatsQ.mean_incremental_is_sum_div_n xs). Qed.

(** ** known finding C17_binary64_overflow, on the model of the code *)
Definition big : b64 := b64_of_bits 0x7FEAB36D48E1ACF0.   (* 1.5e308 *)
Definition big17 : b64 := b64_of_bits 0x7FEE42D130773B76. (* 1.7e308 *)

(** (a) four finite values, all retained; their mean is 0; the code reports NaN *)
Lemma mean_overflow_refuted :
  let vals := [big; b64_neg big; big; b64_neg big] in
  let m := compute_stats (bs "ns/op") vals in
  forallb b64_is_finite vals = true
  /\ m_rvalues m = vals
  /\ b64_is_nan (m_mean m) = true
  /\ mean_value_spec (m_rvalues m) (m_mean m) = false
  /\ mean_value_spec (m_rvalues m) f_zero = true
  /\ mean_no_overflow vals = false.
Proof. vm_compute. repeat split; reflexivity. Qed.

(** (b) three finite values inside their exact fence; the code's fence is
    (+Inf, -Inf) and it retains none *)
Lemma fence_overflow_refuted :
  let vals := [big17; b64_neg big17; big17] in
  let m := compute_stats (bs "ns/op") vals in
  forallb b64_is_finite vals = true
  /\ fence vals = (S754_infinity false, S754_infinity true)
  /\ m_rvalues m = []
  /\ retained_spec vals false (m_rvalues m) = false
  /\ retained_spec vals false vals = true.
Proof. vm_compute. repeat split; reflexivity. Qed.

(** ** the direction rule of the code as it was: the sign of the percentage.
    From -10 to -5 ns/op the value RISES (worse, lower is better) while
    (new/old - 1)*100 = -50 is negative, which the old rule read as "better". *)
Lemma direction_by_pct_sign_refuted :
  let o := b64_of_Z (-10) in let n := b64_of_Z (-5) in
  b64_lt o n = true /\ b64_lt (pct_delta o n) f_zero = true.
Proof. vm_compute. split; reflexivity. Qed.
