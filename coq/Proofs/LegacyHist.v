(** Proofs about histories on one collection (Model/LegacyHist.v). *)
From Coq Require Import ZArith List Bool.
From Perf Require Import Base.Bytes Base.B64 Model.StatsF Model.Legacy Model.LegacyHist.
Import ListNotations.
Local Open Scope Z_scope.

Lemma build_app : forall split l1 l2,
  build split (l1 ++ l2) = fold_left (add_config split) l2 (build split l1).
Proof. intros split l1 l2. unfold build. apply fold_left_app. Qed.

Lemma build_snoc : forall split l cf,
  add_config split (build split l) cf = build split (l ++ [cf]).
Proof. intros split l cf. rewrite build_app. reflexivity. Qed.

(** every Tables() call of a history reports on the collection built from the
    configurations added before it: Tables and the Format functions leave
    nothing behind *)
Lemma hist_reports_build : forall split ops acc,
  hist_reports split (build split acc) ops = map (build split) (adds_before_reports acc ops).
Proof.
  intros split ops. induction ops as [|op ops IH]; intros acc; [reflexivity|].
  destruct op as [cf| |k]; cbn [hist_reports hist_step adds_before_reports map].
  - rewrite build_snoc. apply IH.
  - f_equal. apply IH.
  - apply IH.
Qed.

Lemma hist_final_adds : forall split ops c,
  hist_final split c ops = fold_left (add_config split) (hist_adds ops) c.
Proof.
  intros split ops. unfold hist_final.
  induction ops as [|op ops IH]; intros c; [reflexivity|].
  destruct op as [cf| |k]; cbn [fold_left hist_step hist_adds]; apply IH.
Qed.

Lemma hist_final_build : forall split ops acc,
  hist_final split (build split acc) ops = build split (acc ++ hist_adds ops).
Proof. intros split ops acc. rewrite hist_final_adds, build_app. reflexivity. Qed.

Lemma adds_before_reports_length : forall ops acc,
  length (adds_before_reports acc ops)
  = length (filter (fun op => match op with HTables => true | _ => false end) ops).
Proof.
  induction ops as [|op ops IH]; intros acc; [reflexivity|].
  destruct op as [cf| |k]; cbn [adds_before_reports filter length]; rewrite IH; reflexivity.
Qed.

(** * computeStats repeated *)

Lemma compute_stats_fields : forall u vals,
  m_unit (compute_stats u vals) = u /\ m_values (compute_stats u vals) = vals.
Proof. intros u vals. unfold compute_stats. destruct (bounds_f _). split; reflexivity. Qed.

(** repaired: the statistics are a function of Unit and Values, whatever an
    earlier call left in RValues, Min, Mean, Max *)
Lemma compute_stats_again_ignores : forall u vals rv mn me mx,
  compute_stats_again (mkMstat u vals rv mn me mx) = compute_stats u vals.
Proof. reflexivity. Qed.

Lemma compute_stats_again_idem : forall m,
  compute_stats_again (compute_stats_again m) = compute_stats_again m.
Proof.
  intros m. unfold compute_stats_again at 1 3.
  destruct (compute_stats_fields (m_unit m) (m_values m)) as [Hu Hv].
  unfold compute_stats_again. rewrite Hu, Hv. reflexivity.
Qed.

Lemma compute_stats_again_after_first : forall u vals,
  compute_stats_again (compute_stats u vals) = compute_stats u vals.
Proof.
  intros u vals. unfold compute_stats_again.
  destruct (compute_stats_fields u vals) as [Hu Hv]. rewrite Hu, Hv. reflexivity.
Qed.

(** the old code was right on the first call ... *)
Lemma compute_stats_old_fresh : forall u vals,
  compute_stats_old (fresh_mstat u vals) = compute_stats u vals.
Proof. reflexivity. Qed.

(** ... and wrong on the second: three values retained become six *)
Lemma compute_stats_old_twice_refuted :
  exists u vals,
    let m1 := compute_stats_old (fresh_mstat u vals) in
    let m2 := compute_stats_old m1 in
    m_values m2 = m_values m1 /\ length (m_rvalues m1) = 3%nat /\ length (m_rvalues m2) = 6%nat
    /\ m2 <> compute_stats u vals.
Proof.
  exists (bs "ns/op"), (map b64_of_Z [1; 2; 3]).
  vm_compute. repeat split; try reflexivity. discriminate.
Qed.
