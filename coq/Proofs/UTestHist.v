(** Proofs about Model/UTestHist.v: a history of calls over one backing array
    leaves the array unchanged and every call returns [mwu] of the ORIGINAL
    values of its windows; concurrent calls give, under every schedule, the
    sequential result of each job. *)
From Coq Require Import ZArith List Bool Lia Sorting.Permutation.
From Perf Require Import Base.B64 Model.UStat Model.UTest Model.Sched Model.UTestHist Proofs.Sched.
Import ListNotations.
Local Open Scope Z_scope.

Lemma run_hist_spec erfc mem ops :
  run_hist erfc mem ops = map (fun o => (mwu erfc (arg1 mem o) (arg2 mem o) (h_alt o), mem)) ops.
Proof.
  induction ops as [|o r IH]; cbn [run_hist map]; [reflexivity|].
  unfold mem_after. now rewrite IH.
Qed.

Lemma run_hist_memory erfc mem ops :
  Forall (fun rm => snd rm = mem) (run_hist erfc mem ops).
Proof.
  rewrite run_hist_spec. apply Forall_forall. intros rm H.
  apply in_map_iff in H as (o & <- & _). reflexivity.
Qed.

Lemma run_hist_length erfc mem ops : length (run_hist erfc mem ops) = length ops.
Proof. rewrite run_hist_spec. apply map_length. Qed.

(** the result of a call does not depend on what was called before it *)
Lemma run_hist_app erfc mem ops1 ops2 :
  run_hist erfc mem (ops1 ++ ops2) = run_hist erfc mem ops1 ++ run_hist erfc mem ops2.
Proof. rewrite !run_hist_spec. apply map_app. Qed.

(** windows: the values a call sees *)
Lemma window_split mem k :
  0 <= k <= Z.of_nat (length mem) ->
  window mem 0 k ++ window mem k (Z.of_nat (length mem)) = mem.
Proof.
  intros Hk. unfold window. rewrite Z.sub_0_r. cbn [Z.to_nat skipn].
  replace (Z.to_nat (Z.of_nat (length mem) - k)) with (length mem - Z.to_nat k)%nat by lia.
  rewrite (firstn_all2 (n := (length mem - Z.to_nat k)%nat)) by (rewrite skipn_length; lia).
  apply firstn_skipn.
Qed.

Lemma window_length mem lo hi :
  valid_window mem lo hi = true -> Z.of_nat (length (window mem lo hi)) = hi - lo.
Proof.
  unfold valid_window, window. rewrite !andb_true_iff, !Z.leb_le. intros [[H0 H1] H2].
  rewrite firstn_length, skipn_length. lia.
Qed.

(** concurrent batch: slot i holds the sequential result of job i, whatever the
    order in which the calls take effect *)
Lemma run_batch_slot erfc jobs order i :
  In i order ->
  run_batch erfc jobs order i = Some (job_task erfc jobs i).
Proof.
  intros Hi. unfold run_batch. rewrite run_slot.
  assert (E : existsb (Nat.eqb i) order = true).
  { apply existsb_exists. exists i. split; [exact Hi|apply Nat.eqb_refl]. }
  now rewrite E.
Qed.

Lemma run_batch_schedule_independent erfc jobs order order' :
  Permutation order order' -> forall i, run_batch erfc jobs order i = run_batch erfc jobs order' i.
Proof. intros Hp i. unfold run_batch. now apply tasks_commute. Qed.
