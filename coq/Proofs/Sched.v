From Coq Require Import List Arith Bool Lia Sorting.Permutation.
From Perf Require Import Model.Sched.
Import ListNotations.

Section SchedProofs.
  Variable A frozen : Type.
  Variable task : frozen -> nat -> A.

  Lemma run_from (fz : frozen) order : forall s j,
    fold_left (run_task A frozen task fz) order s j =
    if existsb (Nat.eqb j) order then Some (task fz j) else s j.
  Proof.
    induction order as [|i order IH]; intros s j; cbn [fold_left existsb]; auto.
    rewrite IH. unfold run_task, write.
    destruct (existsb (Nat.eqb j) order); cbn.
    - now rewrite orb_true_r.
    - rewrite orb_false_r. destruct (Nat.eqb_spec j i) as [->|]; auto.
  Qed.

  (** after the join every slot holds what its task computes, whatever the schedule *)
  Theorem run_slot fz order j :
    run A frozen task fz order j = if existsb (Nat.eqb j) order then Some (task fz j) else None.
  Proof. unfold run. now rewrite run_from. Qed.

  Theorem tasks_commute fz order order' :
    Permutation order order' -> forall j, run A frozen task fz order j = run A frozen task fz order' j.
  Proof.
    intros Hp j. rewrite !run_slot.
    assert (E : existsb (Nat.eqb j) order = existsb (Nat.eqb j) order').
    { destruct (existsb (Nat.eqb j) order) eqn:E1, (existsb (Nat.eqb j) order') eqn:E2; auto.
      - apply existsb_exists in E1 as [x [Hx Hj]].
        assert (existsb (Nat.eqb j) order' = true).
        { apply existsb_exists. exists x. split; auto. eapply Permutation_in; eauto. }
        congruence.
      - apply existsb_exists in E2 as [x [Hx Hj]].
        assert (existsb (Nat.eqb j) order = true).
        { apply existsb_exists. exists x. split; auto. eapply Permutation_in; [apply Permutation_sym|]; eauto. }
        congruence. }
    now rewrite E.
  Qed.
End SchedProofs.
