(** Where a regexp ends (regexpParseUntil of benchproc/internal/parse/tok.go,
    [re_scan] of Model/Tok.v), characterised without the search:

    - [re_step]: what ONE byte does to the scanner's state (open brackets, open
      parentheses, "the previous byte was an unescaped backslash");
    - [re_state p]: the state after the prefix [p], a plain left fold;
    - [closes s i]: position [i] of [s] holds a slash and the state after the
      [i] bytes before it is neutral (no open bracket, no open parenthesis, no
      pending backslash);
    - [re_scan s = Some i] iff [i] is the FIRST position that closes,
      [re_scan s = None] iff no position closes.

    A backslash hides exactly the next byte whatever that byte is: backslash-Q
    and backslash-E are pairs like any other, there is no literal-section
    mode.  So a slash inside such a section closes the regexp, and any number
    of such sections, a stray backslash-E, a backslash-Q never closed leave the
    state neutral ([re_state_bslash_pair]).

    And what the tokenizer does with the delimiter ([regexp_tok_*]): the four
    outcomes of a regexp token as equations. *)
From Perf Require Import Base.Bytes Base.Rune Model.Unquote Model.Tok.
From Coq Require Import Lia ZArith List Bool.
Import ListNotations.
Local Open Scope Z_scope.

Definition rstate := (Z * Z * bool)%type.

Definition re_step (st : rstate) (c : byte) : rstate :=
  let '(cs, cp, sk) := st in
  if sk then (cs, cp, false)
  else if Byte.eqb c c_lbrk then (cs + 1, cp, false)
  else if Byte.eqb c c_rbrk then ((if cs - 1 <? 0 then 0 else cs - 1), cp, false)
  else if Byte.eqb c c_lpar then (cs, (if cs =? 0 then cp + 1 else cp), false)
  else if Byte.eqb c c_rpar then (cs, (if cs =? 0 then cp - 1 else cp), false)
  else if Byte.eqb c c_bslash then (cs, cp, true)
  else (cs, cp, false).

Definition re_state_from (st : rstate) (p : bytes) : rstate := fold_left re_step p st.
Definition re_state (p : bytes) : rstate := re_state_from (0, 0, false) p.

Definition neutral (st : rstate) : bool :=
  let '(cs, cp, sk) := st in (cs =? 0) && (cp =? 0) && negb sk.

Definition closes_from (st : rstate) (s : bytes) (i : nat) : bool :=
  match nth_error s i with
  | Some c => Byte.eqb c c_fslash && neutral (re_state_from st (firstn i s))
  | None => false
  end.
Definition closes (s : bytes) (i : nat) : bool := closes_from (0, 0, false) s i.

Lemma closes_from_0 : forall st c s,
  closes_from st (c :: s) 0 = Byte.eqb c c_fslash && neutral st.
Proof. reflexivity. Qed.

Lemma closes_from_S : forall st c s i,
  closes_from st (c :: s) (S i) = closes_from (re_step st c) s i.
Proof. reflexivity. Qed.

(** one unfolding of the scanner, in terms of [re_step] *)
Lemma re_scan_cons : forall c s cs cp sk,
  re_scan (c :: s) cs cp sk =
  if Byte.eqb c c_fslash && neutral (cs, cp, sk) then Some O
  else option_map S (let '(a, b, k) := re_step (cs, cp, sk) c in re_scan s a b k).
Proof.
  intros c s cs cp sk. cbn [re_scan re_step neutral].
  destruct sk.
  - rewrite !andb_false_r. reflexivity.
  - rewrite andb_true_r.
    destruct (Byte.eqb c c_fslash) eqn:Hf.
    + rewrite andb_true_l, (andb_comm _ true). cbn [andb].
      destruct ((cs =? 0) && (cp =? 0)) eqn:Hn; [reflexivity|].
      apply Byte.byte_dec_bl in Hf. subst c. reflexivity.
    + rewrite andb_false_l, andb_false_r.
      destruct (Byte.eqb c c_lbrk); [reflexivity|].
      destruct (Byte.eqb c c_rbrk); [reflexivity|].
      destruct (Byte.eqb c c_lpar); [reflexivity|].
      destruct (Byte.eqb c c_rpar); [reflexivity|].
      destruct (Byte.eqb c c_bslash); reflexivity.
Qed.

Lemma re_scan_some_gen : forall s cs cp sk i,
  re_scan s cs cp sk = Some i ->
  closes_from (cs, cp, sk) s i = true
  /\ forall j, (j < i)%nat -> closes_from (cs, cp, sk) s j = false.
Proof.
  induction s as [|c s IH]; intros cs cp sk i H; [discriminate|].
  rewrite re_scan_cons in H.
  destruct (Byte.eqb c c_fslash && neutral (cs, cp, sk)) eqn:Hc.
  - injection H as <-. split; [rewrite closes_from_0; exact Hc|intros j Hj; lia].
  - destruct (re_step (cs, cp, sk) c) as [[a b] k] eqn:Hst.
    destruct (re_scan s a b k) as [i'|] eqn:Hr; [|discriminate].
    injection H as <-. destruct (IH _ _ _ _ Hr) as [H1 H2].
    split.
    + rewrite closes_from_S, Hst. exact H1.
    + intros [|j] Hj.
      * rewrite closes_from_0. exact Hc.
      * rewrite closes_from_S, Hst. apply H2. lia.
Qed.

Lemma re_scan_none_gen : forall s cs cp sk,
  re_scan s cs cp sk = None -> forall j, closes_from (cs, cp, sk) s j = false.
Proof.
  induction s as [|c s IH]; intros cs cp sk H j.
  - unfold closes_from. destruct j; reflexivity.
  - rewrite re_scan_cons in H.
    destruct (Byte.eqb c c_fslash && neutral (cs, cp, sk)) eqn:Hc; [discriminate|].
    destruct (re_step (cs, cp, sk) c) as [[a b] k] eqn:Hst.
    destruct (re_scan s a b k) as [i'|] eqn:Hr; [discriminate|].
    destruct j as [|j].
    + rewrite closes_from_0. exact Hc.
    + rewrite closes_from_S, Hst. apply (IH _ _ _ Hr).
Qed.

(** the delimiter is the first closing slash *)
Theorem re_scan_first_closing : forall s i,
  re_scan s 0 0 false = Some i <->
  closes s i = true /\ forall j, (j < i)%nat -> closes s j = false.
Proof.
  intros s i. split.
  - apply re_scan_some_gen.
  - intros [Hi Hlt].
    destruct (re_scan s 0 0 false) as [i'|] eqn:Hr.
    + destruct (re_scan_some_gen _ _ _ _ _ Hr) as [Hi' Hlt'].
      fold (closes s i') in Hi'.
      destruct (Nat.lt_trichotomy i i') as [Hl|[->|Hl]]; [|reflexivity|].
      * specialize (Hlt' _ Hl). unfold closes in Hi. congruence.
      * specialize (Hlt _ Hl). congruence.
    + pose proof (re_scan_none_gen _ _ _ _ Hr i) as Hn. unfold closes in Hi. congruence.
Qed.

(** no delimiter iff no slash closes *)
Theorem re_scan_none_iff : forall s,
  re_scan s 0 0 false = None <-> forall j, closes s j = false.
Proof.
  intros s. split.
  - apply re_scan_none_gen.
  - intros Hn. destruct (re_scan s 0 0 false) as [i|] eqn:Hr; [|reflexivity].
    destruct (re_scan_some_gen _ _ _ _ _ Hr) as [Hi _].
    fold (closes s i) in Hi. rewrite Hn in Hi. discriminate.
Qed.

(** a backslash and the byte after it -- ANY byte: Q, E, a slash, a bracket --
    leave the state as it was, when no backslash was pending *)
Lemma re_state_bslash_pair : forall cs cp c p,
  re_state_from (cs, cp, false) (c_bslash :: c :: p) = re_state_from (cs, cp, false) p.
Proof. reflexivity. Qed.

(** the state after a prefix composes *)
Lemma re_state_from_app : forall st p1 p2,
  re_state_from st (p1 ++ p2) = re_state_from (re_state_from st p1) p2.
Proof. intros. apply fold_left_app. Qed.

(** ** the regexp token, as equations on the delimiter *)
Section Token.
Variable is_space : N -> bool.
Variable re_ok : bytes -> bool.
Variable n0 : nat.

Definition follow_ok (q2 : bytes) : bool :=
  match q2 with
  | [] => true
  | d :: _ => is_space (bN d) || is_start_op d
  end.

Lemma regexp_tok_no_delim : forall c s e,
  re_scan s 0 0 false = None ->
  regexp_tok is_space re_ok n0 (c :: s) e = tok_error n0 (c :: s) e.
Proof. intros c s e H. unfold regexp_tok. rewrite H. reflexivity. Qed.

Lemma regexp_tok_bad_regexp : forall c s e i,
  re_scan s 0 0 false = Some i -> re_ok (firstn i s) = false ->
  regexp_tok is_space re_ok n0 (c :: s) e = tok_error n0 (c :: s) e.
Proof. intros c s e i H Hr. unfold regexp_tok. rewrite H, Hr. reflexivity. Qed.

Lemma regexp_tok_bad_follower : forall c s e i,
  re_scan s 0 0 false = Some i -> re_ok (firstn i s) = true ->
  follow_ok (skipn (S i) s) = false ->
  regexp_tok is_space re_ok n0 (c :: s) e = tok_error n0 (skipn (S i) s) e.
Proof.
  intros c s e i H Hr Hf. unfold regexp_tok. rewrite H, Hr. cbn [negb].
  unfold follow_ok in Hf. destruct (skipn (S i) s) as [|d q2]; [discriminate|].
  rewrite Hf. reflexivity.
Qed.

Lemma regexp_tok_at_delim : forall c s e i,
  re_scan s 0 0 false = Some i -> re_ok (firstn i s) = true ->
  follow_ok (skipn (S i) s) = true ->
  regexp_tok is_space re_ok n0 (c :: s) e =
  (mkTok KRegexp (off_of n0 (c :: s)) (firstn i s), skipn (S i) s, c :: s, e).
Proof.
  intros c s e i H Hr Hf. unfold regexp_tok. rewrite H, Hr. cbn [negb].
  unfold follow_ok in Hf. destruct (skipn (S i) s) as [|d q2]; [reflexivity|].
  rewrite Hf. reflexivity.
Qed.
End Token.
