(** Further theorems of C10: the shared scale is that of the least non-zero
    magnitude; ClassOf; digits below the smallest prefix; half-unit error with
    the rounding of the binary64 quotient made explicit. *)
From Coq Require Import ZArith Lia Bool List.
From Perf Require Import Base.Bytes Base.B64 Base.FmtFixed Model.Scale Model.ScaleSpec
     Proofs.FmtFixed Proofs.B64Flocq Proofs.Scale.
Import ListNotations.
Local Open Scope Z_scope.

(** ** CommonScale uses the least non-zero magnitude *)

(** magnitudes: +0, positive finite, +Inf *)
Definition is_mag (x : b64) : bool :=
  match x with
  | S754_zero false | S754_infinity false | S754_finite false _ _ => true
  | _ => false
  end.
Definition nonzero (x : b64) : bool := negb (b64_eq x b64_zero).

Lemma abs_is_mag v : b64_is_nan v = false -> is_mag (b64_abs v) = true.
Proof. destruct v; cbn; congruence. Qed.

(** SpecFloat's comparison on non-zero magnitudes, as propositions *)
Definition mag_le (x y : b64) : Prop :=
  match x, y with
  | _, S754_infinity false => True
  | S754_infinity false, _ => False
  | S754_finite false m1 e1, S754_finite false m2 e2 => e1 < e2 \/ (e1 = e2 /\ Zpos m1 <= Zpos m2)
  | _, _ => False
  end.
Definition mag_lt (x y : b64) : Prop :=
  match x, y with
  | S754_infinity false, _ => False
  | _, S754_infinity false => True
  | S754_finite false m1 e1, S754_finite false m2 e2 => e1 < e2 \/ (e1 = e2 /\ Zpos m1 < Zpos m2)
  | _, _ => False
  end.

Lemma leb_mag x y : is_mag x = true -> is_mag y = true -> nonzero x = true -> nonzero y = true ->
  (SFleb x y = true <-> mag_le x y).
Proof.
  destruct x as [[|]|[|]| |[|] m1 e1], y as [[|]|[|]| |[|] m2 e2]; try discriminate; intros _ _ _ _;
    cbn [mag_le]; unfold SFleb, SFcompare; try (split; [auto|reflexivity]; fail);
    try (split; [discriminate|tauto]; fail).
  destruct (Z.compare_spec e1 e2) as [E|L|G].
  - change (Pcompare m1 m2 Eq) with (Pos.compare m1 m2).
    destruct (Pos.compare_spec m1 m2) as [E'|L'|G']; split; try discriminate; try reflexivity; try lia.
  - split; [lia|reflexivity].
  - split; [discriminate|lia].
Qed.

Lemma ltb_mag x y : is_mag x = true -> is_mag y = true -> nonzero x = true -> nonzero y = true ->
  (SFltb x y = true <-> mag_lt x y).
Proof.
  destruct x as [[|]|[|]| |[|] m1 e1], y as [[|]|[|]| |[|] m2 e2]; try discriminate; intros _ _ _ _;
    cbn [mag_lt]; unfold SFltb, SFcompare; try (split; [auto|reflexivity]; fail);
    try (split; [discriminate|tauto]; fail).
  destruct (Z.compare_spec e1 e2) as [E|L|G].
  - change (Pcompare m1 m2 Eq) with (Pos.compare m1 m2).
    destruct (Pos.compare_spec m1 m2) as [E'|L'|G']; split; try discriminate; try reflexivity; try lia.
  - split; [lia|reflexivity].
  - split; [discriminate|lia].
Qed.

Lemma mag_le_refl x : is_mag x = true -> nonzero x = true -> mag_le x x.
Proof. destruct x as [[|]|[|]| |[|] m e]; try discriminate; cbn; intros; auto. right; lia. Qed.

Lemma mag_not_lt_le x y : is_mag x = true -> is_mag y = true -> nonzero x = true -> nonzero y = true ->
  ~ mag_lt x y -> mag_le y x.
Proof.
  destruct x as [[|]|[|]| |[|] m1 e1], y as [[|]|[|]| |[|] m2 e2]; try discriminate; cbn; intros _ _ _ _ H; auto; lia.
Qed.

Lemma mag_lt_le_trans x y z : is_mag x = true -> is_mag y = true -> is_mag z = true ->
  nonzero x = true -> nonzero y = true -> nonzero z = true ->
  mag_lt x y -> mag_le y z -> mag_le x z.
Proof.
  destruct x as [[|]|[|]| |[|] m1 e1], y as [[|]|[|]| |[|] m2 e2], z as [[|]|[|]| |[|] m3 e3];
    try discriminate; cbn; intros _ _ _ _ _ _ H1 H2; auto; try lia; try tauto.
Qed.

(** the fold invariant *)
Definition min_inv (seen : list b64) (mn : b64) : Prop :=
  (mn = b64_zero /\ Forall (fun a => nonzero a = false) seen) \/
  (is_mag mn = true /\ nonzero mn = true /\ In mn seen /\
   Forall (fun a => nonzero a = true -> SFleb mn a = true) seen).

Lemma min_step_inv seen mn v :
  b64_is_nan v = false -> Forall (fun a => is_mag a = true) seen ->
  min_inv seen mn -> min_inv (seen ++ [b64_abs v]) (min_step mn v).
Proof.
  intros Hn Hm Inv. pose proof (abs_is_mag v Hn) as Ma.
  unfold min_step. set (a := b64_abs v) in *.
  change (negb (b64_eq a b64_zero)) with (nonzero a).
  destruct (nonzero a) eqn:Na; cbn [andb].
  - destruct Inv as [[-> Hz]|(Mm & Nm & Hin & Hall)].
    + cbn [b64_eq b64_zero SFeqb SFcompare orb]. replace (b64_eq b64_zero b64_zero) with true by reflexivity. cbn [orb].
      right. repeat split; auto.
      * apply in_or_app. right. left. reflexivity.
      * apply Forall_app. split.
        -- eapply Forall_impl; [|exact Hz]. cbn. intros b Hb Hb'. congruence.
        -- constructor; [|constructor]. intros _. apply leb_mag; auto using mag_le_refl.
    + assert (E0 : b64_eq mn b64_zero = false) by (unfold nonzero in Nm; now apply negb_true_iff in Nm).
      rewrite E0. cbn [orb]. unfold b64_lt.
      destruct (SFltb a mn) eqn:L.
      * right. repeat split; auto.
        -- apply in_or_app. right. left. reflexivity.
        -- apply Forall_app. split.
           ++ rewrite Forall_forall in Hall, Hm |- *. intros b Hb Nb.
              apply leb_mag; auto. eapply mag_lt_le_trans with (y := mn); auto.
              ** apply ltb_mag; auto.
              ** apply leb_mag; auto.
           ++ constructor; [|constructor]. intros _. apply leb_mag; auto using mag_le_refl.
      * right. repeat split; auto.
        -- apply in_or_app. left. exact Hin.
        -- apply Forall_app. split; [exact Hall|].
           constructor; [|constructor]. intros _. apply leb_mag; auto.
           apply mag_not_lt_le; auto. intros C. apply ltb_mag in C; auto. congruence.
  - destruct Inv as [[-> Hz]|(Mm & Nm & Hin & Hall)].
    + left. split; auto. apply Forall_app. split; auto.
    + right. repeat split; auto.
      * apply in_or_app. left. exact Hin.
      * apply Forall_app. split; auto. constructor; [|constructor]. congruence.
Qed.

Lemma fold_min_inv vals : forall seen mn,
  Forall (fun v => b64_is_nan v = false) vals -> Forall (fun a => is_mag a = true) seen ->
  min_inv seen mn -> min_inv (seen ++ map b64_abs vals) (fold_left min_step vals mn).
Proof.
  induction vals as [|v vals IH]; intros seen mn Hn Hm Inv; cbn [fold_left map].
  - now rewrite app_nil_r.
  - inversion Hn as [|? ? Hv Hn']; subst.
    replace (seen ++ b64_abs v :: map b64_abs vals) with ((seen ++ [b64_abs v]) ++ map b64_abs vals)
      by (rewrite <- app_assoc; reflexivity).
    apply IH; auto.
    + apply Forall_app. split; auto. constructor; [|constructor]. now apply abs_is_mag.
    + now apply min_step_inv.
Qed.

(** [min_nonzero] is +0 when every value is a zero, and otherwise a non-zero
    magnitude of the list that is <= every non-zero magnitude of the list *)
Theorem min_nonzero_spec vals :
  Forall (fun v => b64_is_nan v = false) vals ->
  let mn := min_nonzero vals in
  (mn = b64_zero /\ Forall (fun v => b64_eq (b64_abs v) b64_zero = true) vals) \/
  (b64_eq mn b64_zero = false /\ In mn (map b64_abs vals) /\
   Forall (fun v => b64_eq (b64_abs v) b64_zero = false -> b64_le mn (b64_abs v) = true) vals).
Proof.
  intros Hn mn.
  destruct (fold_min_inv vals [] b64_zero Hn (Forall_nil _)) as [[E Hz]|(Mm & Nm & Hin & Hall)].
  - left. split; [reflexivity|constructor].
  - left. split; [exact E|]. cbn [app] in Hz. rewrite Forall_map in Hz.
    eapply Forall_impl; [|exact Hz]. cbn. unfold nonzero. intros a Ha. now apply negb_false_iff in Ha.
  - right. cbn [app] in Hin, Hall. split; [|split; [exact Hin|]].
    + unfold nonzero in Nm. now apply negb_true_iff in Nm.
    + rewrite Forall_map in Hall. eapply Forall_impl; [|exact Hall]. cbn. intros a Ha Hz.
      apply Ha. unfold nonzero. now rewrite Hz.
Qed.

(** the scale of a list is the scale of its least non-zero magnitude alone *)
Theorem common_scale_min_thm vals cls :
  Forall (fun v => b64_is_nan v = false) vals ->
  common_scale vals cls = common_scale (@cons spec_float (min_nonzero vals) nil) cls.
Proof.
  intros Hn. unfold common_scale. f_equal.
  unfold min_nonzero at 2. cbn [fold_left]. unfold min_step.
  destruct (min_nonzero_spec vals Hn) as [[E _]|(Nz & Hin & _)].
  - rewrite E. reflexivity.
  - assert (Hm : is_mag (min_nonzero vals) = true).
    { apply in_map_iff in Hin as (v & Ev & Hv). rewrite <- Ev. apply abs_is_mag.
      rewrite Forall_forall in Hn. auto. }
    replace (b64_abs (min_nonzero vals)) with (min_nonzero vals)
      by (destruct (min_nonzero vals) as [[|]|[|]| |[|] m e]; try discriminate; reflexivity).
    rewrite Nz. reflexivity.
Qed.

(** ** below the smallest prefix: more decimals, four digits, then three down
    to 1e-8 of the smallest prefix *)

Lemma mag_chain_absurd x y z : 
  is_pos_finite x = true -> is_pos_finite y = true -> is_pos_finite z = true ->
  SFltb x y = true -> SFleb y z = true -> SFleb z x = true -> False.
Proof.
  intros Px Py Pz.
  assert (A : forall w, is_pos_finite w = true -> is_mag w = true /\ nonzero w = true).
  { intros [| | |[|] m e]; try discriminate; auto. }
  destruct (A x Px), (A y Py), (A z Pz).
  rewrite ltb_mag, !leb_mag by auto.
  destruct x as [| | |[|] m1 e1]; try discriminate.
  destruct y as [| | |[|] m2 e2]; try discriminate.
  destruct z as [| | |[|] m3 e3]; try discriminate. cbn. lia.
Qed.

Lemma leb_ltb_trans x y z :
  is_pos_finite x = true -> is_pos_finite y = true -> is_pos_finite z = true ->
  SFleb x y = true -> SFltb y z = true -> SFltb x z = true.
Proof.
  intros Px Py Pz.
  assert (A : forall w, is_pos_finite w = true -> is_mag w = true /\ nonzero w = true).
  { intros [| | |[|] m e]; try discriminate; auto. }
  destruct (A x Px), (A y Py), (A z Pz).
  rewrite !ltb_mag, leb_mag by auto.
  destruct x as [| | |[|] m1 e1]; try discriminate.
  destruct y as [| | |[|] m2 e2]; try discriminate.
  destruct z as [| | |[|] m3 e3]; try discriminate. cbn. lia.
Qed.

(** intervals of the quotient in which [pick_sigfig] answers [k]; the first
    has no upper end, the last no lower end *)
Fixpoint sig_segs (upper : option b64) (ths : list b64) (i : Z) : list (option b64 * option b64 * Z) :=
  match ths with
  | [] => []
  | [th] => [(None, upper, i)]
  | th :: ths' => (Some th, upper, i) :: sig_segs (Some th) ths' (i + 1)
  end.

Definition ltb_opt (val : b64) (u : option b64) : Prop :=
  match u with Some u => SFltb val u = true | None => True end.
Definition leb_opt (l : option b64) (val : b64) : Prop :=
  match l with Some l => SFleb l val = true | None => True end.

Lemma pick_sigfig_seg ths : forall upper val i k,
  is_pos_finite val = true -> forallb is_pos_finite ths = true ->
  ltb_opt val upper ->
  pick_sigfig val ths i = Some k ->
  exists lo up, In (lo, up, k) (sig_segs upper ths i) /\ leb_opt lo val /\ ltb_opt val up.
Proof.
  induction ths as [|th ths IH]; intros upper val i k Pv Pt Lu; cbn [pick_sigfig sig_segs]; [discriminate|].
  cbn [forallb] in Pt. apply andb_true_iff in Pt as [Pth Pt].
  destruct ths as [|th2 ths'].
  - intros [= <-]. exists None, upper. split; [left; reflexivity|cbn; auto].
  - unfold b64_ge. destruct (SFleb th val) eqn:E.
    + intros [= <-]. exists (Some th), upper. split; [left; reflexivity|cbn; auto].
    + intros H.
      destruct (IH (Some th) val (i + 1) k Pv Pt (not_leb_ltb _ _ Pv Pth E) H) as (lo & up & Hin & Hlo & Hup).
      exists lo, up. split; [right; exact Hin|auto].
Qed.

(** both ends of one interval, printed at its precision: the least quotient
    [vlo] and the greatest [vhi] stand in for the missing ends *)
Definition sig_seg_ok (vlo vhi : b64) (g : option b64 * option b64 * Z) : bool :=
  let '(lo, up, k) := g in
  let p := Z.to_nat (k + sigfigs_base) in
  (0 <=? k) && (k <=? 7)
  && match up with
     | Some u => valid_binary 53 1024 (pred_pos u) && is_pos_finite u && negb (Pos.eqb (pos_mant u) 1)
                 && match fx_signed (pred_pos u) p with Some n => n <=? 9999 | None => false end
     | None => match fx_signed vhi p with Some n => n <=? 9999 | None => false end
     end
  && match lo with
     | Some l => valid_binary 53 1024 l && is_pos_finite l && opt_z_eqb (fx_signed l p) 1000
     | None => (k =? 7) && match fx_signed vlo p with Some n => 100 <=? n | None => false end
     end.

Definition least_threshold (t : b64) (g : factor) : bool :=
  is_pos_finite (f_t100 g) && is_pos_finite (f_t10 g) && is_pos_finite (f_t1 g)
  && SFleb t (f_t100 g) && SFleb t (f_t10 g) && SFleb t (f_t1 g).

(** everything the lifting needs about the fallback of one class, decided by computation *)
Definition below_ok (cls : class) (fs : list factor) : bool :=
  match last_factor fs with
  | None => false
  | Some f =>
      let fac := f_factor f in
      let vlo := b64_div (lo3 cls) fac in
      let vhi := b64_div (pred_pos (lo4 cls)) fac in
      valid_binary 53 1024 fac && is_pos_finite fac
      && valid_binary 53 1024 (lo3 cls) && is_pos_finite (lo3 cls)
      && valid_binary 53 1024 (pred_pos (lo4 cls)) && is_pos_finite (lo4 cls) && negb (Pos.eqb (pos_mant (lo4 cls)) 1)
      && is_pos_finite vlo && is_pos_finite vhi
      && forallb is_pos_finite sigfigs
      && forallb (sig_seg_ok vlo vhi) (sig_segs None sigfigs 0)
      && forallb (least_threshold (lo4 cls)) fs
  end.

Lemma below_table_ok : below_ok Decimal si_factors = true /\ below_ok Binary iec_factors = true.
Proof. split; vm_compute; reflexivity. Qed.

Lemma pick_factor_below t fs v :
  is_pos_finite v = true -> is_pos_finite t = true -> SFltb v t = true ->
  forallb (least_threshold t) fs = true ->
  pick_factor v fs = None.
Proof.
  intros Pv Pl Lv. induction fs as [|g fs IH]; cbn [forallb pick_factor]; [reflexivity|].
  unfold least_threshold at 1. rewrite !andb_true_iff. intros [[[[[[P100 P10] P1] L100] L10] L1] Hrest].
  unfold b64_ge.
  destruct (SFleb (f_t100 g) v) eqn:E100; [exfalso; eapply (mag_chain_absurd v t (f_t100 g)); eauto|].
  destruct (SFleb (f_t10 g) v) eqn:E10; [exfalso; eapply (mag_chain_absurd v t (f_t10 g)); eauto|].
  destruct (SFleb (f_t1 g) v) eqn:E1; [exfalso; eapply (mag_chain_absurd v t (f_t1 g)); eauto|].
  auto.
Qed.

Lemma three_sig_table cls fs (v : spec_float) :
  factors_of cls = Some fs -> below_ok cls fs = true ->
  valid_binary 53 1024 v = true -> is_pos_finite v = true -> in_range3 cls v = true ->
  exists s n, common_scale (@cons spec_float v nil) cls = Some s
    /\ 3 <= s_prec s <= 10
    /\ fx_signed (b64_div v (s_factor s)) (Z.to_nat (s_prec s)) = Some n
    /\ three_sig n = true
    /\ (s_prec s < 10 -> 1000 <= n).
Proof.
  intros Hfs Hok Vv Pv Hr.
  unfold below_ok in Hok. destruct (last_factor fs) as [f|] eqn:Hl; [|discriminate].
  set (fac := f_factor f) in *. set (vlo := b64_div (lo3 cls) fac) in *.
  set (vhi := b64_div (pred_pos (lo4 cls)) fac) in *.
  rewrite !andb_true_iff in Hok.
  destruct Hok as [[[[[[[[[[[Vf Pf] Vlo3] Plo3] Vp4] Plo4] Mlo4] Pvlo] Pvhi] Psig] Hsegs] Hleast].
  apply negb_true_iff, Pos.eqb_neq in Mlo4.
  unfold in_range3, b64_le, b64_lt in Hr. apply andb_true_iff in Hr as [R3 R4].
  pose proof (pick_factor_below (lo4 cls) fs v Pv Plo4 R4 Hleast) as Hpick.
  pose proof (ltb_leb_pred v (lo4 cls) Pv Plo4 Mlo4 R4) as Lpred.
  assert (Ppred : sf_finite (pred_pos (lo4 cls)) = true).
  { destruct (lo4 cls) as [| | |[|] m e]; try discriminate; reflexivity. }
  assert (Fvhi : sf_finite vhi = true) by now apply pos_finite_sf_finite.
  assert (Fvlo : sf_finite vlo = true) by now apply pos_finite_sf_finite.
  assert (Fval : sf_finite (b64_div v fac) = true).
  { apply (b64_div_finite_below v (pred_pos (lo4 cls)) fac); auto using pos_finite_sf_finite, leb_zero_pos. }
  assert (Lval_lo : sf_le vlo (b64_div v fac)).
  { apply b64_div_monotone; auto using pos_finite_sf_finite. }
  assert (Lval_hi : sf_le (b64_div v fac) vhi).
  { apply b64_div_monotone; auto using pos_finite_sf_finite. }
  assert (Vval : valid_binary 53 1024 (b64_div v fac) = true) by (apply b64_div_valid; auto).
  assert (Pval : is_pos_finite (b64_div v fac) = true) by (apply (sf_le_pos_finite vlo); auto).
  set (val := b64_div v fac) in *.
  destruct (pick_sigfig val sigfigs 0) as [k|] eqn:Hk.
  2:{ exfalso. revert Hk. clear. unfold sigfigs. cbn [pick_sigfig].
      repeat match goal with |- context [if ?c then _ else _] => destruct c; try discriminate end. }
  destruct (pick_sigfig_seg sigfigs None val 0 k Pval Psig I Hk) as (lo & up & Hin & Hlo & Hup).
  rewrite forallb_forall in Hsegs. specialize (Hsegs _ Hin).
  unfold sig_seg_ok in Hsegs. rewrite !andb_true_iff in Hsegs.
  destruct Hsegs as [[[K0 K7] Hupok] Hlook]. apply Z.leb_le in K0, K7.
  destruct (fx_signed_finite val (Z.to_nat (k + sigfigs_base)) Fval) as [n Hn].
  exists (mkScaler (k + sigfigs_base) fac (f_prefix f)), n.
  cbn [s_prec s_factor]. unfold sigfigs_base in *.
  assert (Hub : n <= 9999).
  { destruct up as [u|]; cbn [ltb_opt] in Hup.
    - rewrite !andb_true_iff in Hupok. destruct Hupok as [[[Vu Pu] Mu] Nu].
      apply negb_true_iff, Pos.eqb_neq in Mu.
      destruct (fx_signed (pred_pos u) (Z.to_nat (k + 3))) as [nu|] eqn:Hnu; [|discriminate].
      apply Z.leb_le in Nu.
      assert (sf_le val (pred_pos u)).
      { apply SFleb_sf_le; auto.
        - destruct u as [| | |[|] m e]; try discriminate; reflexivity.
        - apply ltb_leb_pred; auto. }
      pose proof (fx_signed_monotone _ _ _ _ _ H Hn Hnu). lia.
    - destruct (fx_signed vhi (Z.to_nat (k + 3))) as [nu|] eqn:Hnu; [|discriminate].
      apply Z.leb_le in Hupok.
      pose proof (fx_signed_monotone _ _ _ _ _ Lval_hi Hn Hnu). lia. }
  assert (Hlb : 100 <= n /\ (k + 3 < 10 -> 1000 <= n)).
  { destruct lo as [l|]; cbn [leb_opt] in Hlo.
    - rewrite !andb_true_iff in Hlook. destruct Hlook as [[Vl Pl] Nl].
      apply opt_z_eqb_eq in Nl.
      assert (sf_le l val) by (apply SFleb_sf_le; auto using pos_finite_sf_finite).
      pose proof (fx_signed_monotone _ _ _ _ _ H Nl Hn). lia.
    - apply andb_true_iff in Hlook as [K Nl]. apply Z.eqb_eq in K.
      destruct (fx_signed vlo (Z.to_nat (k + 3))) as [nl|] eqn:Hnl; [|discriminate].
      apply Z.leb_le in Nl.
      pose proof (fx_signed_monotone _ _ _ _ _ Lval_lo Hnl Hn). lia. }
  repeat split; try lia.
  - unfold common_scale. rewrite (min_nonzero_single v Pv).
    unfold common_scale_min. rewrite (pos_finite_neq_zero v Pv), Hfs, Hpick, Hl.
    fold fac. fold val. rewrite Hk. reflexivity.
  - exact Hn.
  - unfold three_sig. apply andb_true_iff. split; apply Z.leb_le; lia.
Qed.

(** ** at least three significant digits below the smallest prefix, down to
    1e-8 of it; four while fewer than ten decimals are needed *)
Theorem three_sig_digits_below cls (v : spec_float) :
  cls <> BadClass ->
  valid_binary 53 1024 v = true -> is_pos_finite v = true -> in_range3 cls v = true ->
  exists s n, common_scale (@cons spec_float v nil) cls = Some s
    /\ 3 <= s_prec s <= 10
    /\ fx_signed (b64_div v (s_factor s)) (Z.to_nat (s_prec s)) = Some n
    /\ three_sig n = true
    /\ (s_prec s < 10 -> 1000 <= n).
Proof.
  intros Hc. destruct below_table_ok as [HD HB].
  destruct cls; [| |congruence].
  - now apply (three_sig_table Decimal si_factors).
  - now apply (three_sig_table Binary iec_factors).
Qed.

(** ** NoOpScaler *)
Theorem noop_shortest_roundtrip (shortest : b64 -> bytes) (read_back : bytes -> option b64) v :
  valid_binary 53 1024 v = true -> sf_finite v = true ->
  read_back (shortest v) = Some v ->
  read_back (format shortest noop_scaler v) = Some v.
Proof.
  intros Vv Fv H. unfold format, noop_scaler. cbn [s_prec s_factor s_prefix Z.ltb Z.compare].
  rewrite b64_div_one by assumption. now rewrite app_nil_r.
Qed.
