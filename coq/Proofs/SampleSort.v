(** Proofs about Model/SampleSort.v (the order of sort.Float64s with NaNs). *)
From Coq Require Import ZArith List Bool Lia Sorting.Permutation Sorting.Sorted.
From Perf Require Import Base.B64 Base.B64Order Model.StatsF Model.SampleSort Proofs.BenchMath.
Import ListNotations.

Definition nanb (x : b64) : bool := b64_is_nan x.
Definition numb (x : b64) : bool := negb (b64_is_nan x).

Lemma nanb_true x : nanb x = true <-> x = S754_nan.
Proof. destruct x; cbn; split; congruence. Qed.
Lemma numb_true x : numb x = true <-> nonnan x.
Proof. unfold numb, nonnan. destruct x; cbn; split; congruence. Qed.

Lemma go_less_nan_r y : go_less y S754_nan = false.
Proof. unfold go_less. destruct y; reflexivity. Qed.
Lemma go_less_nan_l x : nonnan x -> go_less S754_nan x = true.
Proof. unfold go_less, nonnan. destruct x; cbn; congruence. Qed.
Lemma go_less_num x y : nonnan x -> nonnan y -> go_less y x = negb (b64_le x y).
Proof.
  intros Hx Hy. unfold go_less.
  replace (b64_is_nan y) with false by (destruct y; cbn; unfold nonnan in Hy; congruence).
  cbn. rewrite orb_false_r. change (b64_lt y x) with (b64_gt x y). now apply b64_gt_not_le.
Qed.

Lemma insert_go_perm x l : Permutation (x :: l) (insert_go x l).
Proof.
  induction l as [|y l IH]; cbn; [reflexivity|].
  destruct (go_less y x); [|reflexivity].
  rewrite perm_swap. now apply perm_skip.
Qed.

Lemma sort_go_perm l : Permutation l (sort_go l).
Proof.
  induction l as [|x l IH]; cbn; [constructor|].
  change (fold_right insert_go [] l) with (sort_go l).
  rewrite <- insert_go_perm. now apply perm_skip.
Qed.

Lemma sort_go_cons x l : sort_go (x :: l) = insert_go x (sort_go l).
Proof. reflexivity. Qed.

(** inserting into "NaNs, then numbers" *)
Lemma insert_go_nan k r : insert_go S754_nan (repeat S754_nan k ++ r) = repeat S754_nan (S k) ++ r.
Proof.
  destruct k; cbn.
  - destruct r as [|y r]; cbn; [reflexivity|]. now rewrite go_less_nan_r.
  - reflexivity.
Qed.

Lemma insert_go_num_f x r : nonnan x -> Forall nonnan r -> insert_go x r = insert_f x r.
Proof.
  intros Hx Hr. induction Hr as [|y r Hy Hr IH]; cbn; [reflexivity|].
  rewrite (go_less_num x y Hx Hy). destruct (b64_le x y); cbn; [reflexivity|]. now rewrite IH.
Qed.

Lemma insert_go_num x k r : nonnan x -> Forall nonnan r ->
  insert_go x (repeat S754_nan k ++ r) = repeat S754_nan k ++ insert_f x r.
Proof.
  intros Hx Hr. induction k as [|k IH]; cbn [repeat app insert_go].
  - now apply insert_go_num_f.
  - rewrite (go_less_nan_l x Hx). now rewrite IH.
Qed.

Lemma filter_numb_nonnan l : Forall nonnan (filter numb l).
Proof. apply Forall_forall. intros x H. apply filter_In in H. now apply numb_true. Qed.

(** NaN sorts first: the sorted sample is the NaNs followed by the ascending
    arrangement [sort_f] of the numbers *)
Theorem sort_go_nan_first l :
  sort_go l = repeat S754_nan (length (filter nanb l)) ++ sort_f (filter numb l).
Proof.
  induction l as [|x l IH]; [reflexivity|].
  rewrite sort_go_cons, IH. cbn [filter]. unfold numb at 2, nanb at 2.
  destruct x as [s|s| |s m e]; cbn [b64_is_nan negb length].
  3: { apply insert_go_nan. }
  all: rewrite insert_go_num; [reflexivity|unfold nonnan; congruence|];
       apply sort_f_Forall, filter_numb_nonnan.
Qed.

Corollary sort_go_nonnan l : Forall nonnan l -> sort_go l = sort_f l.
Proof.
  intros H. rewrite sort_go_nan_first.
  assert (E1 : filter nanb l = []).
  { induction H as [|x l Hx Hl IH]; [reflexivity|]. cbn.
    replace (nanb x) with false; [exact IH|]. destruct x; cbn; unfold nonnan in Hx; congruence. }
  assert (E2 : filter numb l = l).
  { clear E1. induction H as [|x l Hx Hl IH]; [reflexivity|]. cbn.
    assert (E : numb x = true) by now apply numb_true.
    rewrite E. f_equal. exact IH. }
  now rewrite E1, E2.
Qed.

(** the numbers of the sorted sample are in ascending order *)
Theorem sort_go_sorted l :
  StronglySorted leP (sort_f (filter numb l)).
Proof. apply sort_f_sorted, filter_numb_nonnan. Qed.

Lemma Permutation_filter {A} (f : A -> bool) l l' : Permutation l l' -> Permutation (filter f l) (filter f l').
Proof.
  induction 1 as [|x l l' Hp IH|x y l|l l' l'' Hp1 IH1 Hp2 IH2]; cbn.
  - constructor.
  - destruct (f x); [now constructor|exact IH].
  - destruct (f x), (f y); try reflexivity. apply perm_swap.
  - etransitivity; eauto.
Qed.

(** the sorted sample does not depend on the order in which the measurements
    arrived (benchmark lines permuted: NaN first, in the middle, last), for NaN,
    +Inf, -Inf and finite values alike; -0 is the one value excluded, since
    -0 == +0 under [<] and an unstable sort may order them either way *)
Theorem sort_go_canonical l l' :
  Permutation l l' -> Forall (fun x => x <> S754_zero true) l -> sort_go l = sort_go l'.
Proof.
  intros Hp Hz. rewrite !sort_go_nan_first. f_equal.
  - f_equal. apply Permutation_length. now apply Permutation_filter.
  - apply sort_f_canonical; [now apply Permutation_filter|].
    apply Forall_forall. intros x Hx. apply filter_In in Hx as [Hin Hn].
    split; [now apply numb_true|]. rewrite Forall_forall in Hz. now apply Hz.
Qed.

(** the model output passes the declarative checker *)
Lemma drop_nans_repeat k r : drop_nans (repeat S754_nan k ++ r) = drop_nans r.
Proof. induction k; cbn; auto. Qed.
Lemma drop_nans_nonnan r : Forall nonnan r -> drop_nans r = r.
Proof. destruct 1 as [|x r Hx Hr]; cbn; [reflexivity|]. destruct x; cbn; unfold nonnan in Hx; congruence. Qed.

Lemma ascending_sorted r : StronglySorted leP r -> ascending r = true.
Proof.
  induction 1 as [|x r Hs IH Hx]; [reflexivity|].
  destruct r as [|y r]; [reflexivity|].
  change (ascending (x :: y :: r)) with (b64_le x y && ascending (y :: r)).
  rewrite IH, andb_true_r. inversion Hx; subst. assumption.
Qed.

Theorem sort_go_nan_first_ascending l : nan_first_ascending (sort_go l) = true.
Proof.
  unfold nan_first_ascending. rewrite sort_go_nan_first, drop_nans_repeat.
  assert (N : Forall nonnan (sort_f (filter numb l))) by apply sort_f_Forall, filter_numb_nonnan.
  rewrite (drop_nans_nonnan _ N). apply andb_true_iff. split.
  - apply forallb_forall. intros x Hx. rewrite Forall_forall in N. apply N in Hx.
    now apply numb_true in Hx.
  - apply ascending_sorted, sort_go_sorted.
Qed.

(** multiset checker: complete for permutations, and sound *)
Lemma remove_one_perm x b : In x b -> exists b', remove_one x b = Some b' /\ Permutation b (x :: b').
Proof.
  induction b as [|y b IH]; intros H; [destruct H|]. cbn.
  destruct (b64_same x y) eqn:E.
  - apply b64_same_eq in E. subst y. exists b. split; reflexivity.
  - destruct H as [->|H]; [now rewrite b64_same_refl in E|].
    destruct (IH H) as (b' & -> & Hp). exists (y :: b'). split; [reflexivity|].
    rewrite Hp. apply perm_swap.
Qed.

Lemma remove_one_sound x b b' : remove_one x b = Some b' -> Permutation b (x :: b').
Proof.
  revert b'. induction b as [|y b IH]; intros b' H; cbn in H; [discriminate|].
  destruct (b64_same x y) eqn:E.
  - apply b64_same_eq in E. subst y. injection H as <-. reflexivity.
  - destruct (remove_one x b) as [r|]; [|discriminate]. injection H as <-.
    rewrite (IH r eq_refl). apply perm_swap.
Qed.

Lemma same_multiset_perm a b : Permutation a b -> same_multiset a b = true.
Proof.
  revert b. induction a as [|x a IH]; intros b Hp; cbn.
  - apply Permutation_nil in Hp. now subst.
  - assert (Hin : In x b) by (eapply Permutation_in; [exact Hp|now left]).
    destruct (remove_one_perm x b Hin) as (b' & -> & Hb).
    apply IH. apply Permutation_cons_inv with (a := x). now rewrite <- Hb.
Qed.

Lemma same_multiset_sound a b : same_multiset a b = true -> Permutation a b.
Proof.
  revert b. induction a as [|x a IH]; intros b H; cbn in H.
  - destruct b; [constructor|discriminate].
  - destruct (remove_one x b) as [b'|] eqn:E; [|discriminate].
    rewrite (remove_one_sound _ _ _ E). constructor. now apply IH.
Qed.

(** the model meets the declarative description of a cell's sample *)
Theorem sort_go_is_sample l : is_sample_of l (sort_go l) = true.
Proof.
  unfold is_sample_of. rewrite sort_go_nan_first_ascending. cbn.
  apply same_multiset_perm, sort_go_perm.
Qed.

(** ... and the description determines the sample: a NaN-first ascending
    arrangement of the measurements IS [sort_go] of them (no -0 among them) *)
Lemma insert_f_head x r :
  nonnan x -> Forall nonnan r -> Forall (leP x) r -> insert_f x r = x :: r.
Proof.
  intros Hx Hr Hle. destruct r as [|y r]; [reflexivity|]. cbn.
  inversion Hle; subst. unfold leP in *. now rewrite H1.
Qed.

Lemma ascending_strongly r : Forall nonnan r -> ascending r = true -> StronglySorted leP r.
Proof.
  induction r as [|x r IH]; intros Hn Ha; [constructor|].
  inversion Hn as [|? ? Hx Hr]; subst.
  destruct r as [|y r]; [repeat constructor|].
  change (ascending (x :: y :: r)) with (b64_le x y && ascending (y :: r)) in Ha.
  apply andb_true_iff in Ha as [Hxy Ha].
  specialize (IH Hr Ha). constructor; [exact IH|].
  inversion IH as [|? ? Hs Hy]; subst. inversion Hr as [|? ? Hy' Hr']; subst.
  constructor; [exact Hxy|].
  rewrite Forall_forall in *. intros w Hw. unfold leP in *.
  apply (b64_le_trans x y w); auto.
Qed.

Lemma sort_f_sorted_id r : Forall nonnan r -> StronglySorted leP r -> sort_f r = r.
Proof.
  intros Hn Hs. induction Hs as [|x r Hs IH Hx]; [reflexivity|].
  inversion Hn; subst. rewrite sort_f_cons, IH by assumption. now apply insert_f_head.
Qed.

Lemma drop_nans_split l : exists k, l = repeat S754_nan k ++ drop_nans l.
Proof.
  induction l as [|x l [k IH]]; [now exists 0%nat|]. cbn.
  destruct x; cbn; try (now exists 0%nat). exists (S k). cbn. now rewrite <- IH.
Qed.

Lemma filter_nanb_nonnan r : Forall nonnan r -> filter nanb r = [].
Proof.
  induction 1 as [|x r Hx Hr IH]; [reflexivity|]. cbn.
  assert (E : nanb x = false) by (destruct x; cbn; unfold nonnan in Hx; congruence).
  now rewrite E.
Qed.
Lemma filter_numb_id r : Forall nonnan r -> filter numb r = r.
Proof.
  induction 1 as [|x r Hx Hr IH]; [reflexivity|]. cbn.
  assert (E : numb x = true) by now apply numb_true.
  rewrite E. now f_equal.
Qed.
Lemma filter_nanb_repeat k : filter nanb (repeat S754_nan k) = repeat S754_nan k.
Proof. induction k; cbn; [reflexivity|now f_equal]. Qed.
Lemma filter_numb_repeat k : filter numb (repeat S754_nan k) = [].
Proof. induction k; cbn; auto. Qed.

Theorem is_sample_unique vals s :
  Forall (fun x => x <> S754_zero true) vals -> is_sample_of vals s = true -> s = sort_go vals.
Proof.
  intros Hz H. unfold is_sample_of in H. apply andb_true_iff in H as [Hs Hm].
  apply same_multiset_sound in Hm.
  rewrite (sort_go_canonical vals s Hm Hz).
  unfold nan_first_ascending in Hs. apply andb_true_iff in Hs as [Hn Ha].
  destruct (drop_nans_split s) as [k Hk]. remember (drop_nans s) as r eqn:Er. clear Er.
  assert (Nr : Forall nonnan r).
  { apply Forall_forall. intros x Hx. rewrite forallb_forall in Hn. apply numb_true. now apply Hn. }
  rewrite Hk at 2. rewrite sort_go_nan_first.
  rewrite !filter_app. change (@filter spec_float) with (@filter b64).
  rewrite (filter_nanb_nonnan r Nr), (filter_numb_id r Nr), app_nil_r.
  rewrite filter_nanb_repeat, filter_numb_repeat, repeat_length. cbn [app].
  rewrite (sort_f_sorted_id r Nr (ascending_strongly r Nr Ha)). exact Hk.
Qed.
