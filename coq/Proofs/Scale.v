(** Proofs about Model/Scale.v: the scale chosen for a magnitude is determined
    by the interval of the threshold table it falls in ([pick_factor_seg]); a
    finite sweep over the interval end points and their predecessors
    ([boundary_table_ok], by computation) is lifted to every binary64 in the
    interval by monotonicity of the correctly rounded quotient (Flocq) and of
    the half-even decimal ([four_sig_digits]). *)
From Coq Require Import ZArith Lia Bool List.
From Perf Require Import Base.Bytes Base.B64 Base.FmtFixed Model.Scale Model.ScaleSpec
     Proofs.FmtFixed Proofs.B64Flocq.
Import ListNotations.
Local Open Scope Z_scope.

(** ** the order on positive finite binary64 as SpecFloat computes it:
    lexicographic on (exponent, mantissa) *)

Definition pos_mant (x : b64) : positive := match x with S754_finite _ m _ => m | _ => 1%positive end.

(** predecessor of a positive finite number whose mantissa is not 1 *)
Definition pred_pos (x : b64) : b64 :=
  match x with
  | S754_finite false m e => S754_finite false (Pos.pred m) e
  | _ => x
  end.

Lemma ltb_leb_pred v t :
  is_pos_finite v = true -> is_pos_finite t = true -> pos_mant t <> 1%positive ->
  SFltb v t = true -> SFleb v (pred_pos t) = true.
Proof.
  destruct v as [| | |[|] mv ev]; try discriminate.
  destruct t as [| | |[|] mt et]; try discriminate. intros _ _ Hm.
  cbn [pos_mant] in Hm.
  unfold SFltb, SFleb, SFcompare, pred_pos.
  destruct (Z.compare ev et); try discriminate; auto.
  change (Pcompare mv mt Eq) with (Pos.compare mv mt).
  change (Pcompare mv (Pos.pred mt) Eq) with (Pos.compare mv (Pos.pred mt)).
  destruct (Pos.compare_spec mv mt) as [E|L|G]; try discriminate. intros _.
  destruct (Pos.compare_spec mv (Pos.pred mt)) as [E'|L'|G']; auto. exfalso. lia.
Qed.

Lemma not_leb_ltb v t :
  is_pos_finite v = true -> is_pos_finite t = true ->
  SFleb t v = false -> SFltb v t = true.
Proof.
  destruct v as [| | |[|] mv ev]; try discriminate.
  destruct t as [| | |[|] mt et]; try discriminate. intros _ _.
  unfold SFltb, SFleb, SFcompare.
  rewrite (Z.compare_antisym ev et).
  destruct (Z.compare ev et); cbn [CompOpp]; try discriminate; auto.
  change (Pcompare mt mv Eq) with (Pos.compare mt mv).
  change (Pcompare mv mt Eq) with (Pos.compare mv mt).
  rewrite (Pos.compare_antisym mv mt).
  destruct (Pos.compare mv mt); cbn [CompOpp]; try discriminate; auto.
Qed.

Lemma leb_zero_pos v : is_pos_finite v = true -> SFleb (S754_zero false) v = true.
Proof. destruct v as [| | |[|] mv ev]; try discriminate; reflexivity. Qed.

Lemma pos_finite_sf_finite v : is_pos_finite v = true -> sf_finite v = true.
Proof. destruct v as [| | |[|] mv ev]; try discriminate; reflexivity. Qed.

(** ** the intervals of the threshold table *)
Record seg := mkSeg { g_lo : b64; g_up : b64; g_sc : scaler }.

Fixpoint segs (upper : b64) (fs : list factor) : list seg :=
  match fs with
  | [] => []
  | f :: fs' =>
      mkSeg (f_t100 f) upper (mkScaler 1 (f_factor f) (f_prefix f)) ::
      mkSeg (f_t10 f) (f_t100 f) (mkScaler 2 (f_factor f) (f_prefix f)) ::
      mkSeg (f_t1 f) (f_t10 f) (mkScaler 3 (f_factor f) (f_prefix f)) ::
      segs (f_t1 f) fs'
  end.

Definition factor_pos (f : factor) : bool :=
  is_pos_finite (f_t100 f) && is_pos_finite (f_t10 f) && is_pos_finite (f_t1 f).

Lemma pick_factor_seg fs : forall upper v s,
  is_pos_finite v = true -> forallb factor_pos fs = true ->
  SFltb v upper = true ->
  pick_factor v fs = Some s ->
  exists g, In g (segs upper fs) /\ g_sc g = s /\ SFleb (g_lo g) v = true /\ SFltb v (g_up g) = true.
Proof.
  induction fs as [|f fs IH]; intros upper v s Pv Pf Lu; cbn [pick_factor segs]; [discriminate|].
  cbn [forallb] in Pf. apply andb_true_iff in Pf as [Pf1 Pf].
  unfold factor_pos in Pf1. apply andb_true_iff in Pf1 as [Pf1 P1]. apply andb_true_iff in Pf1 as [P100 P10].
  unfold b64_ge.
  destruct (SFleb (f_t100 f) v) eqn:E100.
  { intros [= <-]. eexists; split; [left; reflexivity|]. cbn. auto. }
  destruct (SFleb (f_t10 f) v) eqn:E10.
  { intros [= <-]. eexists; split; [right; left; reflexivity|]. cbn.
    auto using not_leb_ltb. }
  destruct (SFleb (f_t1 f) v) eqn:E1.
  { intros [= <-]. eexists; split; [right; right; left; reflexivity|]. cbn.
    auto using not_leb_ltb. }
  intros H. destruct (IH (f_t1 f) v s Pv Pf (not_leb_ltb _ _ Pv P1 E1) H) as (g & Hin & Hg).
  exists g. split; [right; right; right; exact Hin|exact Hg].
Qed.

Lemma pick_factor_none fs : forall v,
  pick_factor v fs = None -> forall f, In f fs -> SFleb (f_t1 f) v = false.
Proof.
  induction fs as [|f fs IH]; intros v; cbn [pick_factor]; [intros _ ? []|].
  unfold b64_ge.
  destruct (SFleb (f_t100 f) v); [discriminate|].
  destruct (SFleb (f_t10 f) v); [discriminate|].
  destruct (SFleb (f_t1 f) v) eqn:E; [discriminate|].
  intros H g [<-|Hin]; auto.
Qed.

(** ** the finite sweep: both ends of every interval *)
Definition hi_bound (cls : class) (p : Z) : Z :=
  match cls with Binary => if p =? 1 then 10239 else 9999 | _ => 9999 end.

Definition opt_z_eqb (o : option Z) (z : Z) : bool :=
  match o with Some x => x =? z | None => false end.

Definition seg_ok (cls : class) (g : seg) : bool :=
  let p := s_prec (g_sc g) in
  let f := s_factor (g_sc g) in
  valid_binary 53 1024 (g_lo g) && valid_binary 53 1024 (pred_pos (g_up g)) && valid_binary 53 1024 f
  && is_pos_finite f && is_pos_finite (g_lo g) && is_pos_finite (g_up g)
  && negb (Pos.eqb (pos_mant (g_up g)) 1)
  && (1 <=? p) && (p <=? 3)
  (* the least value of the interval prints 1.000 / 10.00 / 100.0 *)
  && opt_z_eqb (fx_signed (b64_div (g_lo g) f) (Z.to_nat p)) 1000
  (* the greatest prints 9.999 / 99.99 / 999.9 (1023.9 below a binary prefix) *)
  && opt_z_eqb (fx_signed (b64_div (pred_pos (g_up g)) f) (Z.to_nat p)) (hi_bound cls p).

Definition table_ok (cls : class) (fs : list factor) : bool :=
  forallb factor_pos fs && forallb (seg_ok cls) (segs (top cls) fs)
  && match last_factor fs with Some f => b64_same (f_t1 f) (lo4 cls) | None => false end.

(** for each of the 39 thresholds t (24 decimal, 15 binary) and the two upper
    ends: t itself prints as 1.000/10.00/100.0 at its own scale and the binary64
    just below t prints as 9.999/99.99/999.9 (1023.9) at the scale below *)
Theorem boundary_table_ok :
  table_ok Decimal si_factors = true /\ table_ok Binary iec_factors = true.
Proof. split; vm_compute; reflexivity. Qed.

(** the recipe of the code reproduces the literal bit patterns (taken from a
    run of the implementation; the harness re-reads them on every run) *)
Definition factor_bits (f : factor) : Z * Z * Z * Z :=
  (bits_of_b64 (f_factor f), bits_of_b64 (f_t100 f), bits_of_b64 (f_t10 f), bits_of_b64 (f_t1 f)).

Definition si_bits : list (Z * Z * Z * Z) :=
  [ (4786511204640096256, 4816244082031689728, 4801453347149578240, 4786510795040096256);
    (4741671816366391296, 4771361678077984768, 4756540224731873280, 4741671396935991296);
    (4696837146684686336, 4726482960339959808, 4711630051286712320, 4696836717187956736);
    (4652007308841189376, 4681608017286791168, 4666722897589436416, 4652006869036538266);
    (4607182418800017408, 4636736939510915400, 4621818836113994809, 4607181968440054671);
    (4562254508917369340, 4591869819778987532, 4576917941073711523, 4562254278333068419);
    (4517329193108106637, 4547006753084062314, 4532020288463030357, 4517328956989782494);
    (4472406533629990549, 4502147836699027811, 4487125956100261762, 4472406291844826626) ].
Definition iec_bits : list (Z * Z * Z * Z) :=
  [ (4787326403894837248, 4816880924605735240, 4801962821208814649, 4787325953534874511);
    (4742290407621132288, 4771844928332030280, 4756926824935109689, 4742289957261169551);
    (4697254411347427328, 4726808932058325320, 4711890828661404729, 4697253960987464591);
    (4652218415073722368, 4681772935784620360, 4666854832387699769, 4652217964713759631);
    (4607182418800017408, 4636736939510915400, 4621818836113994809, 4607181968440054671) ].
Definition sigfigs_bits : list Z :=
  [ 4607181968440054671; 4591869819778987532; 4576917941073711523; 4562254278333068419;
    4547006753084062314; 4532020288463030357; 4517328956989782494; 4502147836699027811 ].

Theorem tables_agree :
  map factor_bits si_factors_recipe = si_bits /\
  map factor_bits iec_factors_recipe = iec_bits /\
  map bits_of_b64 sigfigs_recipe = sigfigs_bits /\
  si_factors = si_factors_recipe /\ iec_factors = iec_factors_recipe /\ sigfigs = sigfigs_recipe.
Proof. repeat split; vm_compute; reflexivity. Qed.

(** ** lifting *)

Lemma opt_z_eqb_eq o z : opt_z_eqb o z = true -> o = Some z.
Proof. destruct o; cbn; [rewrite Z.eqb_eq; congruence|discriminate]. Qed.

Lemma min_nonzero_single (v : spec_float) : is_pos_finite v = true -> min_nonzero (@cons spec_float v nil) = v.
Proof. destruct v as [| | |[|] m e]; try discriminate; reflexivity. Qed.

Lemma pos_finite_neq_zero v : is_pos_finite v = true -> b64_eq v b64_zero = false.
Proof. destruct v as [| | |[|] m e]; try discriminate; reflexivity. Qed.

Lemma last_factor_In fs f : last_factor fs = Some f -> In f fs.
Proof.
  induction fs as [|g fs IH]; cbn; [discriminate|].
  destruct fs as [|h fs']; [intros [= ->]; auto|]. intros H. right. apply IH, H.
Qed.

(** every binary64 in an interval whose two ends were swept prints between them *)
Lemma seg_lift cls g v :
  seg_ok cls g = true -> valid_binary 53 1024 v = true -> is_pos_finite v = true ->
  SFleb (g_lo g) v = true -> SFltb v (g_up g) = true ->
  exists n, fx_signed (b64_div v (s_factor (g_sc g))) (Z.to_nat (s_prec (g_sc g))) = Some n
            /\ 1000 <= n <= hi_bound cls (s_prec (g_sc g)).
Proof.
  unfold seg_ok. set (p := s_prec (g_sc g)). set (f := s_factor (g_sc g)).
  rewrite !andb_true_iff.
  intros [[[[[[[[[[Vlo Vup] Vf] Pf] Plo] Pup] Mup] P1] P3] Nlo] Nup] Vv Pv Llo Lup.
  apply opt_z_eqb_eq in Nlo, Nup.
  apply negb_true_iff, Pos.eqb_neq in Mup.
  pose proof (ltb_leb_pred v (g_up g) Pv Pup Mup Lup) as Lpred.
  assert (Fup : sf_finite (b64_div (pred_pos (g_up g)) f) = true) by (eapply fx_signed_some; eauto).
  assert (Flo : sf_finite (b64_div (g_lo g) f) = true) by (eapply fx_signed_some; eauto).
  assert (Ppred : sf_finite (pred_pos (g_up g)) = true).
  { destruct (g_up g) as [| | |[|] m e]; try discriminate; reflexivity. }
  assert (Fv : sf_finite (b64_div v f) = true).
  { apply (b64_div_finite_below v (pred_pos (g_up g)) f); auto using pos_finite_sf_finite, leb_zero_pos. }
  destruct (fx_signed_finite _ (Z.to_nat p) Fv) as [n Hn].
  exists n. split; [exact Hn|]. split.
  - eapply fx_signed_monotone; [|exact Nlo|exact Hn].
    apply b64_div_monotone; auto using pos_finite_sf_finite.
  - eapply fx_signed_monotone; [|exact Hn|exact Nup].
    apply b64_div_monotone; auto using pos_finite_sf_finite.
Qed.

Lemma four_sig_of_bounds cls p n : 1000 <= n <= hi_bound cls p -> four_sig_n cls p n = true.
Proof.
  unfold four_sig_n, hi_bound. intros [H1 H2].
  apply andb_true_iff. split; [lia|].
  destruct cls; try lia. destruct (p =? 1); lia.
Qed.

Lemma four_sig_table cls fs v :
  factors_of cls = Some fs -> table_ok cls fs = true ->
  valid_binary 53 1024 v = true -> is_pos_finite v = true -> in_range4 cls v = true ->
  exists s n, common_scale [v] cls = Some s
    /\ fx_signed (b64_div v (s_factor s)) (Z.to_nat (s_prec s)) = Some n
    /\ four_sig_n cls (s_prec s) n = true
    /\ 1 <= s_prec s <= 3.
Proof.
  intros Hfs Hok Vv Pv Hr.
  unfold table_ok in Hok. rewrite !andb_true_iff in Hok. destruct Hok as [[Hpos Hsegs] Hlast].
  unfold in_range4, b64_le, b64_lt in Hr. apply andb_true_iff in Hr as [Rlo Rup].
  assert (Hcs : common_scale [v] cls =
                match pick_factor v fs with
                | Some s => Some s
                | None =>
                    match last_factor fs with
                    | None => None
                    | Some f =>
                        match pick_sigfig (b64_div v (f_factor f)) sigfigs 0 with
                        | Some i => Some (mkScaler (i + sigfigs_base) (f_factor f) (f_prefix f))
                        | None => None
                        end
                    end
                end).
  { unfold common_scale. rewrite (min_nonzero_single v Pv).
    unfold common_scale_min. rewrite (pos_finite_neq_zero v Pv), Hfs. reflexivity. }
  destruct (pick_factor v fs) as [s|] eqn:Hpick.
  - destruct (pick_factor_seg fs (top cls) v s Pv Hpos Rup Hpick) as (g & Hin & <- & Llo & Lup).
    rewrite forallb_forall in Hsegs. specialize (Hsegs g Hin).
    destruct (seg_lift cls g v Hsegs Vv Pv Llo Lup) as (n & Hn & Hb).
    exists (g_sc g), n. repeat split; auto using four_sig_of_bounds.
    + unfold seg_ok in Hsegs. rewrite !andb_true_iff in Hsegs. lia.
    + unfold seg_ok in Hsegs. rewrite !andb_true_iff in Hsegs. lia.
  - exfalso. destruct (last_factor fs) as [f|] eqn:Hl; [|discriminate].
    apply b64_same_eq in Hlast.
    pose proof (pick_factor_none fs v Hpick f (last_factor_In fs f Hl)) as C.
    rewrite Hlast in C. congruence.
Qed.

(** ** four significant digits whenever a prefix is in range *)
Theorem four_sig_digits cls v :
  cls <> BadClass ->
  valid_binary 53 1024 v = true -> is_pos_finite v = true -> in_range4 cls v = true ->
  exists s n, common_scale [v] cls = Some s
    /\ fx_signed (b64_div v (s_factor s)) (Z.to_nat (s_prec s)) = Some n
    /\ four_sig_n cls (s_prec s) n = true
    /\ 1 <= s_prec s <= 3.
Proof.
  intros Hc. destruct boundary_table_ok as [HD HB].
  destruct cls; [| |congruence].
  - now apply (four_sig_table Decimal si_factors).
  - now apply (four_sig_table Binary iec_factors).
Qed.

(** ** monotonicity of Format for a fixed scale *)
Theorem format_monotone (f v1 v2 : b64) (p : nat) n1 n2 :
  valid_binary 53 1024 v1 = true -> valid_binary 53 1024 v2 = true -> valid_binary 53 1024 f = true ->
  sf_finite v1 = true -> sf_finite v2 = true -> is_pos_finite f = true ->
  b64_le v1 v2 = true ->
  fx_signed (b64_div v1 f) p = Some n1 -> fx_signed (b64_div v2 f) p = Some n2 ->
  n1 <= n2.
Proof.
  intros V1 V2 Vf F1 F2 Pf L H1 H2.
  eapply fx_signed_monotone; [|exact H1|exact H2].
  apply b64_div_monotone; auto; eapply fx_signed_some; eauto.
Qed.

(** ** signs: Format of a negative value is the negated text of its magnitude *)
Lemma binary_round_aux_sign s mz ez lz :
  SpecFloat.binary_round_aux 53 1024 (negb s) mz ez lz = SFopp (SpecFloat.binary_round_aux 53 1024 s mz ez lz).
Proof.
  unfold SpecFloat.binary_round_aux.
  destruct (shr_fexp 53 1024 mz ez lz) as [mrs e'].
  destruct (shr_fexp 53 1024 (round_nearest_even (shr_m mrs) (loc_of_shr_record mrs)) e' loc_Exact) as [mrs' e''].
  destruct (shr_m mrs'); cbn [SFopp]; try reflexivity.
  destruct (Zle_bool e'' (1024 - 53)); reflexivity.
Qed.

Lemma b64_div_opp x f :
  is_pos_finite f = true -> b64_div (SFopp x) f = SFopp (b64_div x f).
Proof.
  destruct f as [| | |[|] mf ef]; try discriminate. intros _.
  destruct x as [s|s| |s m e]; [destruct s; reflexivity|destruct s; reflexivity|reflexivity|].
  unfold b64_div, SFdiv, SFopp at 1.
  destruct (SFdiv_core_binary _ _ _ _ _ _) as [[mz ez] lz].
  rewrite !xorb_false_r. apply binary_round_aux_sign.
Qed.

Lemma fx_of_opp x p :
  fx_of (SFopp x) p = match fx_of x p with
                      | FxNaN => FxNaN | FxInf s => FxInf (negb s) | FxFin s n => FxFin (negb s) n end.
Proof. destruct x; reflexivity. Qed.

Lemma abs_or_opp v : sf_finite v = true -> (v = b64_abs v /\ b64_signbit v = false) \/ (v = SFopp (b64_abs v) /\ b64_signbit v = true).
Proof.
  destruct v as [[|]|[|]| |[|] m e]; try discriminate; intros _; cbn; auto.
Qed.

Lemma common_scale_single_abs (v : spec_float) cls :
  common_scale (@cons spec_float v nil) cls = common_scale (@cons spec_float (b64_abs v) nil) cls.
Proof.
  unfold common_scale. f_equal. unfold min_nonzero. cbn [fold_left]. unfold min_step.
  replace (b64_abs (b64_abs v)) with (b64_abs v) by (destruct v; reflexivity). reflexivity.
Qed.

Lemma div_pos_sign a f sq mq eq :
  is_pos_finite a = true -> is_pos_finite f = true ->
  b64_div a f = S754_finite sq mq eq -> sq = false.
Proof.
  destruct a as [| | |[|] ma ea]; try discriminate.
  destruct f as [| | |[|] mf ef]; try discriminate. intros _ _.
  unfold b64_div, SFdiv.
  destruct (SFdiv_core_binary _ _ _ _ _ _) as [[mz ez] lz].
  cbn [xorb]. unfold SpecFloat.binary_round_aux.
  destruct (shr_fexp _ _ mz ez lz) as [mrs e'].
  destruct (shr_fexp _ _ _ e' loc_Exact) as [mrs' e''].
  destruct (shr_m mrs'); try discriminate.
  destruct (Zle_bool e'' (emax - prec)); congruence.
Qed.

(** the text printed for a finite non-zero value whose magnitude has a prefix
    in range: sign, a mantissa with four significant digits, the prefix *)
Theorem four_sig_digits_text cls (v : spec_float) shortest :
  cls <> BadClass ->
  valid_binary 53 1024 v = true -> is_pos_finite (b64_abs v) = true -> in_range4 cls (b64_abs v) = true ->
  exists s n, common_scale (@cons spec_float v nil) cls = Some s
    /\ format shortest s v = fmt_sign (b64_signbit v) ++ fmt_mag n (Z.to_nat (s_prec s)) ++ s_prefix s
    /\ four_sig_n cls (s_prec s) n = true
    /\ 1 <= s_prec s <= 3.
Proof.
  intros Hc Vv Pa Hr.
  assert (Va : valid_binary 53 1024 (b64_abs v) = true) by (destruct v; auto).
  destruct (four_sig_digits cls (b64_abs v) Hc Va Pa Hr) as (s & n & Hs & Hn & H4 & Hp).
  exists s, n. rewrite common_scale_single_abs. repeat split; auto; try lia.
  assert (Pf : is_pos_finite (s_factor s) = true).
  { (* from the table *)
    destruct boundary_table_ok as [HD HB].
    assert (G : forall fs, factors_of cls = Some fs -> table_ok cls fs = true -> is_pos_finite (s_factor s) = true).
    { intros fs Hfs Hok. unfold table_ok in Hok. rewrite !andb_true_iff in Hok. destruct Hok as [[Hpos Hsegs] Hlast].
      unfold in_range4, b64_le, b64_lt in Hr. apply andb_true_iff in Hr as [Rlo Rup].
      revert Hs. unfold common_scale. rewrite (min_nonzero_single _ Pa).
      unfold common_scale_min. rewrite (pos_finite_neq_zero _ Pa), Hfs.
      destruct (pick_factor (b64_abs v) fs) as [s'|] eqn:Hpick.
      - intros [= ->].
        destruct (pick_factor_seg fs (top cls) _ s Pa Hpos Rup Hpick) as (g & Hin & <- & _).
        rewrite forallb_forall in Hsegs. specialize (Hsegs g Hin).
        unfold seg_ok in Hsegs. rewrite !andb_true_iff in Hsegs. tauto.
      - intros _. exfalso. destruct (last_factor fs) as [f|] eqn:Hl; [|discriminate].
        apply b64_same_eq in Hlast.
        pose proof (pick_factor_none fs _ Hpick f (last_factor_In fs f Hl)) as C.
        rewrite Hlast in C. congruence. }
    destruct cls; [eapply G; eauto; reflexivity|eapply G; eauto; reflexivity|congruence]. }
  unfold format. replace (s_prec s <? 0) with false by (symmetry; apply Z.ltb_ge; lia).
  rewrite app_assoc. f_equal.
  assert (Fv : sf_finite v = true) by (destruct v as [| | |? ? ?]; try discriminate; reflexivity).
  assert (Hfx : fx_of (b64_div (b64_abs v) (s_factor s)) (Z.to_nat (s_prec s)) = FxFin false n).
  { revert Hn. unfold fx_signed.
    destruct (b64_div (b64_abs v) (s_factor s)) as [sq|sq| |sq mq eq] eqn:Eq; cbn [fx_of]; try discriminate.
    - (* zero quotient: n = 0, excluded by four_sig_n *)
      intros [= <-]. unfold four_sig_n in H4. destruct sq; cbn in H4; discriminate.
    - assert (sq = false).
      { exact (div_pos_sign _ _ _ _ _ Pa Pf Eq). }
      subst sq. intros [= <-]. reflexivity. }
  unfold fmt_fixed.
  destruct (abs_or_opp v Fv) as [[E S]|[E S]]; rewrite S.
  - rewrite E, Hfx. reflexivity.
  - rewrite E at 1. rewrite b64_div_opp by exact Pf. rewrite fx_of_opp, Hfx. reflexivity.
Qed.

(** ** prefix boundaries coincide with how the mantissa rounds: the mantissa
    text never has a leading 0 ("0.9999k") nor a fifth digit ("1000.0") *)
Fixpoint zrange (lo : Z) (len : nat) : list Z :=
  match len with O => [] | S k => lo :: zrange (lo + 1) k end.

Lemma zrange_In len : forall lo n, lo <= n < lo + Z.of_nat len -> In n (zrange lo len).
Proof.
  induction len as [|k IH]; intros lo n H; [lia|].
  cbn [zrange]. destruct (Z.eq_dec lo n) as [->|Hne]; [left; reflexivity|].
  right. apply IH. lia.
Qed.

Definition first_nonzero_digit (t : bytes) : bool :=
  match t with c :: _ => (49 <=? bN c)%N && (bN c <=? 57)%N | [] => false end.

(** four digits and the point; for binary prefixes also 1000.0 .. 1023.9 *)
Definition mant_text_ok (cls : class) (t : bytes) : bool :=
  first_nonzero_digit t &&
  match cls with
  | Binary => Nat.eqb (length t) 5 || (Nat.eqb (length t) 6 && bltb t (bs "1024.0"))
  | _ => Nat.eqb (length t) 5
  end.

Definition mant_enum (cls : class) : bool :=
  forallb (fun p => forallb (fun n => negb (four_sig_n cls p n) || mant_text_ok cls (fmt_mag n (Z.to_nat p)))
                            (zrange 1000 (Z.to_nat 9240))) [1; 2; 3].

Lemma mant_enum_ok : mant_enum Decimal = true /\ mant_enum Binary = true.
Proof. split; vm_compute; reflexivity. Qed.

Lemma four_sig_text cls p n :
  cls <> BadClass -> 1 <= p <= 3 -> four_sig_n cls p n = true ->
  mant_text_ok cls (fmt_mag n (Z.to_nat p)) = true.
Proof.
  intros Hc Hp H4.
  assert (Hn : 1000 <= n < 1000 + Z.of_nat (Z.to_nat 9240)).
  { unfold four_sig_n in H4. apply andb_true_iff in H4 as [A B]. apply Z.leb_le in A.
    rewrite Z2Nat.id by lia.
    destruct cls; try congruence; [|destruct (p =? 1)]; apply Z.leb_le in B; lia. }
  assert (He : mant_enum cls = true) by (destruct mant_enum_ok; destruct cls; congruence).
  unfold mant_enum in He. rewrite forallb_forall in He.
  assert (Hin : In p [1; 2; 3]) by (cbn; lia).
  specialize (He p Hin). rewrite forallb_forall in He.
  specialize (He n (zrange_In _ _ _ Hn)). rewrite H4 in He. exact He.
Qed.

Theorem boundary_coincides cls (v : spec_float) shortest :
  cls <> BadClass ->
  valid_binary 53 1024 v = true -> is_pos_finite (b64_abs v) = true -> in_range4 cls (b64_abs v) = true ->
  exists s mant, common_scale (@cons spec_float v nil) cls = Some s
    /\ format shortest s v = fmt_sign (b64_signbit v) ++ mant ++ s_prefix s
    /\ mant_text_ok cls mant = true.
Proof.
  intros Hc Vv Pa Hr.
  destruct (four_sig_digits_text cls v shortest Hc Vv Pa Hr) as (s & n & Hs & Hf & H4 & Hp).
  exists s, (fmt_mag n (Z.to_nat (s_prec s))). repeat split; auto using four_sig_text.
Qed.

(** what [mant_text_ok] excludes, spelled out *)
Lemma mant_text_not_1000_0 t : mant_text_ok Decimal t = true -> t <> bs "1000.0".
Proof. intros H ->. vm_compute in H. discriminate. Qed.

Lemma mant_text_not_1024_0 t : mant_text_ok Binary t = true -> t <> bs "1024.0".
Proof. intros H ->. vm_compute in H. discriminate. Qed.

Lemma mant_text_no_leading_zero cls t : mant_text_ok cls t = true -> has_prefix t (bs "0") = false.
Proof.
  unfold mant_text_ok. intros H. apply andb_true_iff in H as [H _].
  destruct t as [|c t]; [discriminate|]. cbn in H |- *.
  destruct (Byte.eqb c "0") eqn:E; [|reflexivity]. apply beqb_eq in E. subst c. discriminate.
Qed.

(** ** the same with the mantissa range spelled out: [four_sig] = four digits
    and one to three of them after the point, i.e. the mantissa n / 10^p is in
    [1, 1000) resp. [1, 1024) - neither "1000k" (p = 0) nor "0.9999k" (p = 4) *)
Lemma four_sig_of_n cls p n : 1 <= p <= 3 -> four_sig_n cls p n = true -> four_sig cls p n = true.
Proof.
  intros Hp H. unfold four_sig. rewrite H.
  replace (1 <=? p) with true by (symmetry; apply Z.leb_le; lia).
  replace (p <=? 3) with true by (symmetry; apply Z.leb_le; lia). reflexivity.
Qed.

Lemma four_sig_mantissa_range cls p n :
  four_sig cls p n = true ->
  10 ^ p <= n /\ n < (match cls with Binary => 1024 | _ => 1000 end) * 10 ^ p.
Proof.
  unfold four_sig, four_sig_n. rewrite !andb_true_iff. intros [[P1 P3] [N1 N2]].
  apply Z.leb_le in P1, P3, N1.
  assert (Hp : p = 1 \/ p = 2 \/ p = 3) by lia.
  destruct Hp as [-> | [-> | ->]]; destruct cls; cbn in N2; apply Z.leb_le in N2; cbn; lia.
Qed.

Theorem four_sig_digits_p cls v :
  cls <> BadClass ->
  valid_binary 53 1024 v = true -> is_pos_finite v = true -> in_range4 cls v = true ->
  exists s n, common_scale [v] cls = Some s
    /\ fx_signed (b64_div v (s_factor s)) (Z.to_nat (s_prec s)) = Some n
    /\ four_sig cls (s_prec s) n = true
    /\ 1 <= s_prec s <= 3.
Proof.
  intros Hc Vv Pv Hr. destruct (four_sig_digits cls v Hc Vv Pv Hr) as (s & n & A & B & C & D).
  exists s, n. repeat split; auto using four_sig_of_n; lia.
Qed.

Theorem four_sig_digits_text_p cls (v : spec_float) shortest :
  cls <> BadClass ->
  valid_binary 53 1024 v = true -> is_pos_finite (b64_abs v) = true -> in_range4 cls (b64_abs v) = true ->
  exists s n, common_scale (@cons spec_float v nil) cls = Some s
    /\ format shortest s v = fmt_sign (b64_signbit v) ++ fmt_mag n (Z.to_nat (s_prec s)) ++ s_prefix s
    /\ four_sig cls (s_prec s) n = true
    /\ 1 <= s_prec s <= 3.
Proof.
  intros Hc Vv Pa Hr. destruct (four_sig_digits_text cls v shortest Hc Vv Pa Hr) as (s & n & A & B & C & D).
  exists s, n. repeat split; auto using four_sig_of_n; lia.
Qed.
