(** Proofs about Model/StatsQ.v: the recurrences of sample.go compute the
    textbook mean and variance over exact rationals; R8 percentiles are
    monotone in p and bounded by the sample's extremes. *)
From Coq Require Import QArith Qround Qabs ZArith List Lia Lqa Psatz Sorting.Sorted Permutation.
From Perf Require Import Model.StatsQ.
Import ListNotations.
Local Open Scope Q_scope.

(** ** length as a rational *)
Lemma len_q_cons x xs : len_q (x :: xs) == len_q xs + 1.
Proof.
  unfold len_q. cbn [length]. rewrite Nat2Z.inj_succ, <- Z.add_1_r, inject_Z_plus. reflexivity.
Qed.

Lemma len_q_nonneg xs : 0 <= len_q xs.
Proof. unfold len_q. change 0 with (inject_Z 0). rewrite <- Zle_Qle. lia. Qed.

Lemma len_q_pos xs : xs <> [] -> 0 < len_q xs.
Proof.
  destruct xs as [|x xs]; [congruence|]. intros _. rewrite len_q_cons.
  pose proof (len_q_nonneg xs). lra.
Qed.

Lemma inject_Z_succ i : inject_Z (i + 1) == inject_Z i + 1.
Proof. rewrite inject_Z_plus. reflexivity. Qed.

(** ** incremental mean *)
Lemma mean_inc_q_inv xs : forall m i s,
  (0 <= i)%Z -> m * inject_Z i == s -> (xs <> [] \/ (0 < i)%Z) ->
  mean_inc_q m i xs == (s + sum_q xs) / (inject_Z i + len_q xs).
Proof.
  induction xs as [|x xs IH]; intros m i s Hi Hm Hne.
  - cbn [mean_inc_q sum_q fold_right]. unfold len_q. cbn [length Z.of_nat].
    destruct Hne as [Hne|Hpos]; [congruence|].
    assert (0 < inject_Z i) by (change 0 with (inject_Z 0); rewrite <- Zlt_Qlt; lia).
    rewrite <- Hm. change (inject_Z 0) with 0. field. lra.
  - cbn [mean_inc_q]. 
    assert (Hi0 : 0 <= inject_Z i) by (change 0 with (inject_Z 0); rewrite <- Zle_Qle; lia).
    rewrite (IH _ (i + 1)%Z (s + x)); try lia.
    + rewrite len_q_cons, inject_Z_succ. cbn [sum_q fold_right]. fold (sum_q xs).
      pose proof (len_q_nonneg xs).
      setoid_replace (s + x + sum_q xs) with (s + (x + sum_q xs)) by ring.
      setoid_replace (inject_Z i + 1 + len_q xs) with (inject_Z i + (len_q xs + 1)) by ring.
      reflexivity.
    + rewrite inject_Z_succ, <- Hm. field. lra.
Qed.

Theorem mean_incremental_is_sum_div_n xs :
  xs <> [] -> mean_inc_q 0 0 xs == mean_q xs.
Proof.
  intros Hne. rewrite (mean_inc_q_inv xs 0 0%Z 0); try lia; try (now left).
  - unfold mean_q. change (inject_Z 0) with 0.
    setoid_replace (0 + sum_q xs) with (sum_q xs) by ring.
    setoid_replace (0 + len_q xs) with (len_q xs) by ring. reflexivity.
  - change (inject_Z 0) with 0. ring.
Qed.

(** ** Welford *)
Lemma ssd_q_expand c xs : ssd_q c xs == sumsq_q xs - 2 * c * sum_q xs + len_q xs * (c * c).
Proof.
  induction xs as [|x xs IH].
  - unfold len_q. cbn. ring.
  - cbn [ssd_q sumsq_q sum_q fold_right]. fold (ssd_q c xs) (sumsq_q xs) (sum_q xs).
    rewrite IH, len_q_cons. ring.
Qed.

Theorem variance_q_power_sums xs : xs <> [] -> variance_q xs == variance_ps_q xs.
Proof.
  intros Hne. unfold variance_q, variance_ps_q. rewrite ssd_q_expand. unfold mean_q.
  pose proof (len_q_pos xs Hne) as Hp.
  destruct (Qeq_dec (len_q xs - 1) 0) as [Hz|Hnz].
  - unfold Qdiv. rewrite Hz. setoid_replace (/ 0) with 0 by reflexivity. ring.
  - field. split; [lra | exact Hnz].
Qed.

(** invariant: (mean, M2) summarise a prefix with power sums s1, s2 and size n *)
Definition winv (st : Q * Q) (n : Z) (s1 s2 : Q) : Prop :=
  fst st * inject_Z n == s1 /\ snd st == s2 - s1 * fst st.

Lemma welford_step_inv st n s1 s2 x :
  (0 <= n)%Z -> winv st n s1 s2 -> winv (welford_step_q st n x) (n + 1) (s1 + x) (s2 + x * x).
Proof.
  intros Hn [H1 H2]. destruct st as [mean M2]. cbn [fst snd] in *.
  assert (Hn0 : 0 <= inject_Z n) by (change 0 with (inject_Z 0); rewrite <- Zle_Qle; lia).
  unfold winv, welford_step_q. cbn [fst snd]. rewrite inject_Z_succ. split.
  - rewrite <- H1. field. lra.
  - rewrite H2, <- H1. field. lra.
Qed.

Lemma welford_loop_inv xs : forall st n s1 s2,
  (0 <= n)%Z -> winv st n s1 s2 ->
  winv (welford_loop_q st n xs) (n + Z.of_nat (length xs)) (s1 + sum_q xs) (s2 + sumsq_q xs).
Proof.
  induction xs as [|x xs IH]; intros st n s1 s2 Hn Hinv.
  - cbn [welford_loop_q length Z.of_nat sum_q sumsq_q fold_right]. rewrite Z.add_0_r.
    destruct Hinv as [H1 H2]. split.
    + rewrite H1. ring.
    + rewrite H2. ring.
  - cbn [welford_loop_q].
    pose proof (IH _ (n + 1)%Z _ _ ltac:(lia) (welford_step_inv st n s1 s2 x Hn Hinv)) as [H1 H2].
    cbn [length sum_q sumsq_q fold_right]. fold (sum_q xs) (sumsq_q xs).
    rewrite Nat2Z.inj_succ.
    replace (n + Z.succ (Z.of_nat (length xs)))%Z with (n + 1 + Z.of_nat (length xs))%Z by lia.
    split.
    + rewrite H1. ring.
    + rewrite H2. ring.
Qed.

(** Welford's recurrence, as coded, computes the unbiased sample variance *)
Theorem welford_is_variance xs : xs <> [] -> welford_q xs == variance_q xs.
Proof.
  intros Hne. rewrite variance_q_power_sums by exact Hne.
  unfold welford_q, variance_ps_q.
  assert (H0 : winv (0, 0) 0 0 0) by (split; cbn [fst snd]; change (inject_Z 0) with 0; ring).
  pose proof (welford_loop_inv xs (0, 0) 0%Z 0 0 ltac:(lia) H0) as [H1 H2].
  rewrite Z.add_0_l in H1. fold (len_q xs) in H1.
  pose proof (len_q_pos xs Hne) as Hp.
  rewrite H2.
  set (st := welford_loop_q (0, 0) 0 xs) in *.
  assert (Hm : fst st == sum_q xs / len_q xs).
  { setoid_replace (0 + sum_q xs) with (sum_q xs) in H1 by ring. rewrite <- H1. field. lra. }
  rewrite Hm.
  destruct (Qeq_dec (len_q xs - 1) 0) as [Hz|Hnz].
  - unfold Qdiv. rewrite Hz. setoid_replace (/ 0) with 0 by reflexivity. ring.
  - field. split; [lra | exact Hnz].
Qed.

(** ** R8 percentiles: bounded and monotone *)
Definition clampZ (len j : Z) : Z := Z.max 0 (Z.min (len - 1) j).
Definition cq (xs : list Q) (j : Z) : Q := nth_q xs (clampZ (Z.of_nat (length xs)) j).

Lemma length_pos_Z (xs : list Q) : xs <> [] -> (1 <= Z.of_nat (length xs))%Z.
Proof. destruct xs; [congruence|]. cbn [length]. lia. Qed.

Lemma nth_q_mono xs a b :
  sorted_q xs -> (0 <= a <= b)%Z -> (b < Z.of_nat (length xs))%Z -> nth_q xs a <= nth_q xs b.
Proof. intros Hs Hab Hb. unfold nth_q. apply Hs. lia. Qed.

Lemma cq_mono xs j1 j2 : sorted_q xs -> xs <> [] -> (j1 <= j2)%Z -> cq xs j1 <= cq xs j2.
Proof.
  intros Hs Hne Hj. pose proof (length_pos_Z xs Hne). unfold cq, clampZ.
  apply nth_q_mono; [exact Hs | lia | lia].
Qed.

Lemma cq_lo xs j : sorted_q xs -> xs <> [] -> nth_q xs 0 <= cq xs j.
Proof.
  intros Hs Hne. pose proof (length_pos_Z xs Hne). unfold cq, clampZ.
  apply nth_q_mono; [exact Hs | lia | lia].
Qed.

Lemma cq_hi xs j : sorted_q xs -> xs <> [] -> cq xs j <= nth_q xs (Z.of_nat (length xs) - 1).
Proof.
  intros Hs Hne. pose proof (length_pos_Z xs Hne). unfold cq, clampZ.
  apply nth_q_mono; [exact Hs | lia | lia].
Qed.

Lemma interp_q_eq xs n : xs <> [] ->
  interp_q xs n ==
  cq xs (Qfloor n - 1) + (n - inject_Z (Qfloor n)) * (cq xs (Qfloor n) - cq xs (Qfloor n - 1)).
Proof.
  intros Hne. pose proof (length_pos_Z xs Hne) as Hl. unfold interp_q, cq, clampZ.
  set (k := Qfloor n). set (len := Z.of_nat (length xs)) in *.
  destruct (Z.leb_spec k 0) as [Hk|Hk].
  - replace (Z.max 0 (Z.min (len - 1) (k - 1))) with 0%Z by lia.
    replace (Z.max 0 (Z.min (len - 1) k)) with 0%Z by lia. ring.
  - destruct (Z.leb_spec len k) as [Hk2|Hk2].
    + replace (Z.max 0 (Z.min (len - 1) (k - 1))) with (len - 1)%Z by lia.
      replace (Z.max 0 (Z.min (len - 1) k)) with (len - 1)%Z by lia. ring.
    + replace (Z.max 0 (Z.min (len - 1) (k - 1))) with (k - 1)%Z by lia.
      replace (Z.max 0 (Z.min (len - 1) k)) with k by lia. reflexivity.
Qed.

Lemma frac_range n : 0 <= n - inject_Z (Qfloor n) /\ n - inject_Z (Qfloor n) < 1.
Proof.
  pose proof (Qfloor_le n). pose proof (Qlt_floor n) as H1.
  rewrite inject_Z_plus in H1. change (inject_Z 1) with 1 in H1. split; lra.
Qed.

Lemma interp_q_between xs n : sorted_q xs -> xs <> [] ->
  cq xs (Qfloor n - 1) <= interp_q xs n /\ interp_q xs n <= cq xs (Qfloor n).
Proof.
  intros Hs Hne. rewrite (interp_q_eq xs n Hne).
  pose proof (frac_range n) as [Hf0 Hf1].
  pose proof (cq_mono xs (Qfloor n - 1) (Qfloor n) Hs Hne ltac:(lia)) as Hd.
  set (a := cq xs (Qfloor n - 1)) in *. set (b := cq xs (Qfloor n)) in *.
  set (f := n - inject_Z (Qfloor n)) in *. split; nra.
Qed.

Lemma interp_q_mono xs n1 n2 : sorted_q xs -> xs <> [] -> n1 <= n2 ->
  interp_q xs n1 <= interp_q xs n2.
Proof.
  intros Hs Hne Hn. pose proof (Qfloor_resp_le _ _ Hn) as Hk.
  destruct (Z.eq_dec (Qfloor n1) (Qfloor n2)) as [He|Hneq].
  - rewrite (interp_q_eq xs n1 Hne), (interp_q_eq xs n2 Hne), He.
    pose proof (cq_mono xs (Qfloor n2 - 1) (Qfloor n2) Hs Hne ltac:(lia)) as Hd.
    set (a := cq xs (Qfloor n2 - 1)) in *. set (b := cq xs (Qfloor n2)) in *.
    nra.
  - pose proof (interp_q_between xs n1 Hs Hne) as [_ H1].
    pose proof (interp_q_between xs n2 Hs Hne) as [H2 _].
    pose proof (cq_mono xs (Qfloor n1) (Qfloor n2 - 1) Hs Hne ltac:(lia)) as H3.
    lra.
Qed.

Lemma interp_q_bounded xs n : sorted_q xs -> xs <> [] ->
  nth_q xs 0 <= interp_q xs n /\ interp_q xs n <= nth_q xs (Z.of_nat (length xs) - 1).
Proof.
  intros Hs Hne. pose proof (interp_q_between xs n Hs Hne) as [H1 H2].
  pose proof (cq_lo xs (Qfloor n - 1) Hs Hne). pose proof (cq_hi xs (Qfloor n) Hs Hne).
  split; lra.
Qed.

Lemma r8_pos_q_mono len p q : (0 <= len)%Z -> p <= q -> r8_pos_q len p <= r8_pos_q len q.
Proof.
  intros Hl Hpq. unfold r8_pos_q.
  assert (0 <= inject_Z len) by (change 0 with (inject_Z 0); rewrite <- Zle_Qle; lia).
  assert (0 <= (1 # 3)) by (unfold Qle; cbn; lia).
  nra.
Qed.

(** percentiles lie between the smallest and largest sample value ... *)
Theorem r8_bounded xs p : sorted_q xs -> xs <> [] ->
  nth_q xs 0 <= percentile_q xs p /\ percentile_q xs p <= nth_q xs (Z.of_nat (length xs) - 1).
Proof.
  intros Hs Hne. pose proof (length_pos_Z xs Hne) as Hl. unfold percentile_q.
  assert (Hends : nth_q xs 0 <= nth_q xs (Z.of_nat (length xs) - 1))
    by (apply nth_q_mono; [exact Hs | lia | lia]).
  destruct (Qle_bool p 0); [split; [apply Qle_refl | exact Hends]|].
  destruct (Qle_bool 1 p); [split; [exact Hends | apply Qle_refl]|].
  apply interp_q_bounded; assumption.
Qed.

(** ... and are monotone in p *)
Theorem r8_monotone xs p q : sorted_q xs -> xs <> [] -> p <= q ->
  percentile_q xs p <= percentile_q xs q.
Proof.
  intros Hs Hne Hpq. pose proof (length_pos_Z xs Hne) as Hl.
  pose proof (r8_bounded xs q Hs Hne) as [Hq0 Hq1].
  pose proof (r8_bounded xs p Hs Hne) as [Hp0 Hp1].
  unfold percentile_q in *.
  destruct (Qle_bool p 0) eqn:Ep0; [exact Hq0|].
  destruct (Qle_bool 1 q) eqn:Eq1.
  - destruct (Qle_bool q 0) eqn:Eq0.
    + apply Qle_bool_iff in Eq0, Eq1. lra.
    + exact Hp1.
  - destruct (Qle_bool 1 p) eqn:Ep1.
    + apply Qle_bool_iff in Ep1. assert (Hc : Qle_bool 1 q = true) by (apply Qle_bool_iff; lra).
      congruence.
    + destruct (Qle_bool q 0) eqn:Eq0.
      * apply Qle_bool_iff in Eq0. assert (Hc : Qle_bool p 0 = true) by (apply Qle_bool_iff; lra).
        congruence.
      * apply interp_q_mono; try assumption. apply r8_pos_q_mono; [lia | exact Hpq].
Qed.

Theorem r8_monotone_bounded xs : sorted_q xs -> xs <> [] ->
  (forall p q, p <= q -> percentile_q xs p <= percentile_q xs q) /\
  (forall p, nth_q xs 0 <= percentile_q xs p <= nth_q xs (Z.of_nat (length xs) - 1)).
Proof.
  intros Hs Hne. split.
  - intros p q. apply r8_monotone; assumption.
  - intros p. apply r8_bounded; assumption.
Qed.

(** the median of an odd-sized sample is the middle order statistic and the
    R8 position of p is the documented one (sanity of the definition) *)
Lemma r8_position len p : r8_pos_q len p == (inject_Z len + (1 # 3)) * p + (1 # 3).
Proof. unfold r8_pos_q. ring. Qed.

(** ** sorting: [sort_q] returns a sorted permutation, so the percentile
    theorems apply to every sample through [percentile_q (sort_q xs)] *)
Lemma insert_q_perm x l : Permutation (insert_q x l) (x :: l).
Proof.
  induction l as [|y l IH]; cbn [insert_q]; [reflexivity|].
  destruct (Qle_bool x y); [reflexivity|].
  rewrite IH. apply perm_swap.
Qed.

Lemma sort_q_perm xs : Permutation (sort_q xs) xs.
Proof.
  induction xs as [|x xs IH]; cbn [sort_q fold_right]; [reflexivity|].
  fold (sort_q xs). rewrite insert_q_perm. now constructor.
Qed.

Lemma insert_q_ssorted x l : StronglySorted Qle l -> StronglySorted Qle (insert_q x l).
Proof.
  induction 1 as [|y l Hs IH Hf]; cbn [insert_q].
  - constructor; constructor.
  - destruct (Qle_bool x y) eqn:E.
    + apply Qle_bool_iff in E. constructor; [constructor; assumption|].
      constructor; [exact E|]. eapply Forall_impl; [|exact Hf]. intros z Hz. cbn in Hz. lra.
    + assert (Hyx : y <= x).
      { destruct (Qlt_le_dec x y) as [Hlt|Hle]; [|exact Hle].
        assert (Qle_bool x y = true) by (apply Qle_bool_iff; lra). congruence. }
      constructor; [exact IH|].
      eapply Permutation_Forall; [symmetry; apply insert_q_perm|]. constructor; assumption.
Qed.

Lemma sort_q_ssorted xs : StronglySorted Qle (sort_q xs).
Proof.
  induction xs as [|x xs IH]; cbn [sort_q fold_right]; [constructor|].
  apply insert_q_ssorted. exact IH.
Qed.

Lemma ssorted_sorted_q l : StronglySorted Qle l -> sorted_q l.
Proof.
  induction 1 as [|a l Hs IH Hf]; intros i j Hij; cbn [length] in Hij.
  - lia.
  - destruct i as [|i], j as [|j]; cbn [nth]; try lia.
    + apply Qle_refl.
    + rewrite Forall_forall in Hf. apply Hf. apply nth_In. lia.
    + apply IH. lia.
Qed.

Theorem sort_q_sorted xs : sorted_q (sort_q xs).
Proof. apply ssorted_sorted_q, sort_q_ssorted. Qed.

Lemma sort_q_nonempty xs : xs <> [] -> sort_q xs <> [].
Proof.
  intros Hne Hs. pose proof (sort_q_perm xs) as Hp. rewrite Hs in Hp.
  apply Permutation_nil in Hp. congruence.
Qed.

(** ** bounds: the fold of sample.go's Bounds over Q returns a lower and an
    upper bound that are themselves sample values *)
Lemma fold_qmin_spec xs x0 :
  let m := fold_left qmin xs x0 in
  In m (x0 :: xs) /\ m <= x0 /\ Forall (fun x => m <= x) xs.
Proof.
  revert x0; induction xs as [|x xs IH]; intros x0; cbn [fold_left].
  - repeat split; [now left | apply Qle_refl | constructor].
  - destruct (IH (qmin x0 x)) as (Hin & Hle & Hall). cbn zeta.
    assert (Hq : qmin x0 x <= x0 /\ qmin x0 x <= x /\ (qmin x0 x = x0 \/ qmin x0 x = x)).
    { unfold qmin. destruct (Qle_bool x0 x) eqn:E.
      - apply Qle_bool_iff in E. repeat split; [apply Qle_refl | exact E | now left].
      - assert (x <= x0).
        { destruct (Qlt_le_dec x0 x) as [Hlt|Hle']; [|exact Hle'].
          assert (Qle_bool x0 x = true) by (apply Qle_bool_iff; lra). congruence. }
        repeat split; [assumption | apply Qle_refl | now right]. }
    destruct Hq as (Hq0 & Hqx & Hqe). repeat split.
    + destruct Hin as [Hin|Hin].
      * destruct Hqe as [Hqe|Hqe]; [left | right; left]; rewrite <- Hin; symmetry; exact Hqe.
      * right; right; exact Hin.
    + lra.
    + constructor; [lra | exact Hall].
Qed.

Lemma fold_qmax_spec xs x0 :
  let m := fold_left qmax xs x0 in
  In m (x0 :: xs) /\ x0 <= m /\ Forall (fun x => x <= m) xs.
Proof.
  revert x0; induction xs as [|x xs IH]; intros x0; cbn [fold_left].
  - repeat split; [now left | apply Qle_refl | constructor].
  - destruct (IH (qmax x0 x)) as (Hin & Hle & Hall). cbn zeta.
    assert (Hq : x0 <= qmax x0 x /\ x <= qmax x0 x /\ (qmax x0 x = x0 \/ qmax x0 x = x)).
    { unfold qmax. destruct (Qle_bool x0 x) eqn:E.
      - apply Qle_bool_iff in E. repeat split; [exact E | apply Qle_refl | now right].
      - assert (x <= x0).
        { destruct (Qlt_le_dec x0 x) as [Hlt|Hle']; [|exact Hle'].
          assert (Qle_bool x0 x = true) by (apply Qle_bool_iff; lra). congruence. }
        repeat split; [apply Qle_refl | assumption | now left]. }
    destruct Hq as (Hq0 & Hqx & Hqe). repeat split.
    + destruct Hin as [Hin|Hin].
      * destruct Hqe as [Hqe|Hqe]; [left | right; left]; rewrite <- Hin; symmetry; exact Hqe.
      * right; right; exact Hin.
    + lra.
    + constructor; [lra | exact Hall].
Qed.

Theorem bounds_are_min_max xs mn mx : bounds_q xs = Some (mn, mx) ->
  In mn xs /\ In mx xs /\ Forall (fun x => mn <= x /\ x <= mx) xs.
Proof.
  destruct xs as [|x0 xs]; cbn [bounds_q]; [discriminate|]. intros H. inversion H; subst; clear H.
  destruct (fold_qmin_spec xs x0) as (Hi1 & Hl1 & Ha1).
  destruct (fold_qmax_spec xs x0) as (Hi2 & Hl2 & Ha2). cbn zeta in *.
  repeat split; try assumption.
  constructor; [split; assumption|].
  rewrite Forall_forall in *. intros x Hx. split; [apply Ha1 | apply Ha2]; exact Hx.
Qed.

(** ** homogeneity: the specification commutes with a change of unit; the
    correspondence run evaluates it on the sample scaled to integers *)
Lemma sum_q_scale c xs : sum_q (map (Qmult c) xs) == c * sum_q xs.
Proof.
  induction xs as [|x xs IH]; cbn [map sum_q fold_right]; [ring|].
  fold (sum_q (map (Qmult c) xs)) (sum_q xs). rewrite IH. ring.
Qed.

Lemma sumsq_q_scale c xs : sumsq_q (map (Qmult c) xs) == c * c * sumsq_q xs.
Proof.
  induction xs as [|x xs IH]; cbn [map sumsq_q fold_right]; [ring|].
  fold (sumsq_q (map (Qmult c) xs)) (sumsq_q xs). rewrite IH. ring.
Qed.

Lemma len_q_map (f : Q -> Q) xs : len_q (map f xs) = len_q xs.
Proof. unfold len_q. now rewrite map_length. Qed.

Theorem mean_q_scale c xs : mean_q (map (Qmult c) xs) == c * mean_q xs.
Proof.
  unfold mean_q. rewrite len_q_map, sum_q_scale. unfold Qdiv. ring.
Qed.

Theorem variance_ps_q_scale c xs : variance_ps_q (map (Qmult c) xs) == c * c * variance_ps_q xs.
Proof.
  unfold variance_ps_q. rewrite len_q_map, sum_q_scale, sumsq_q_scale. unfold Qdiv. ring.
Qed.
