(** The known finding "percentile's interpolation r*(1-x) + a[i+1]*x leaves the
    hull by one ulp", QUANTIFIED: on a vector of non-negative finite values
    within [m, M] the result of [percentile] is within
    (m - 2 ulp(m), M + ulp(M)], and the repaired summary is ordered.
    Real-number reasoning through Flocq (classical reals in Print Assumptions);
    the rounding analysis itself is Proofs/PercentileReal.v. *)
From Coq Require Import ZArith Reals Lia Lra Bool List Permutation.
From Flocq Require Import Core Ulp BinarySingleNaN.
From Perf Require Import Base.B64 Model.Bootstrap Model.BootstrapSpec
     Proofs.B64Flocq Proofs.LegacyMean Proofs.PercentileReal Proofs.Bootstrap Proofs.BootstrapHull.
Import ListNotations.
Local Open Scope R_scope.

(** * bridges *)
Lemma b64_mul_Bmult (x y : Bf) :
  b64_mul (B2SF x) (B2SF y) = B2SF (Bmult mode_NE x y).
Proof.
  destruct x as [sx|sx| |sx mx ex Bx], y as [sy|sy| |sy my ey By]; try reflexivity.
  unfold b64_mul. simpl. rewrite B2SF_SF2B. apply binary_round_aux_equiv.
Qed.

Lemma Bminus_small (x y : Bf) :
  is_finite x = true -> is_finite y = true -> Rabs (RN (B2R x - B2R y)) < bpow radix2 1024 ->
  is_finite (Bminus mode_NE x y) = true /\ B2R (Bminus mode_NE x y) = RN (B2R x - B2R y).
Proof.
  intros Fx Fy L. pose proof (Bminus_correct 53 1024 _ _ mode_NE x y Fx Fy) as H. cbn [round_mode] in H.
  rewrite Rlt_bool_true in H by exact L. destruct H as (H1 & H2 & _). auto.
Qed.

Lemma Bmult_small (x y : Bf) :
  is_finite x = true -> is_finite y = true -> Rabs (RN (B2R x * B2R y)) < bpow radix2 1024 ->
  is_finite (Bmult mode_NE x y) = true /\ B2R (Bmult mode_NE x y) = RN (B2R x * B2R y).
Proof.
  intros Fx Fy L. pose proof (Bmult_correct 53 1024 _ _ mode_NE x y) as H. cbn [round_mode] in H.
  rewrite Rlt_bool_true in H by exact L. destruct H as (H1 & H2 & _). rewrite Fx, Fy in H2. auto.
Qed.

Lemma one_exact : is_finite (BofZ 1) = true /\ B2R (BofZ 1) = 1.
Proof. apply (BofZ_exact 1). lia. Qed.

Lemma RN_1 : RN 1 = 1.
Proof. apply RN_id, F64_1. Qed.

Lemma Rabs_small_RN t : Rabs t <= 1 -> Rabs (RN t) < bpow radix2 1024.
Proof.
  intros H. apply Rle_lt_trans with 1.
  - apply abs_round_le_generic; try typeclasses eauto; [exact F64_1|exact H].
  - change 1 with (bpow radix2 0). apply bpow_lt. lia.
Qed.

(** Go's int(f): truncation towards zero, off by less than one *)
Lemma trunc_spec (F : Bf) i :
  b64_trunc (B2SF F) = Some i -> is_finite F = true /\ Rabs (B2R F - IZR i) < 1.
Proof.
  destruct F as [s|s| |s m e B]; cbn [B2SF]; unfold b64_trunc; try discriminate.
  - intros [= <-]. split; [reflexivity|]. cbn [B2R]. rewrite Rminus_0_r, Rabs_R0. lra.
  - set (a := if (0 <=? e)%Z then (Z.pos m * 2 ^ e)%Z else (Z.pos m / 2 ^ (- e))%Z).
    assert (H : Rabs (IZR (Z.pos m) * bpow radix2 e - IZR a) < 1).
    { unfold a. destruct (Z.leb_spec 0 e) as [L|L].
      - rewrite mult_IZR. change 2%Z with (radix_val radix2). rewrite (IZR_Zpower radix2 e L).
        rewrite Rminus_diag_eq by reflexivity. rewrite Rabs_R0. lra.
      - set (d := (2 ^ (- e))%Z). assert (Hd : (0 < d)%Z) by (apply Z.pow_pos_nonneg; lia).
        assert (Eb : bpow radix2 e = / IZR d).
        { unfold d. change 2%Z with (radix_val radix2). rewrite (IZR_Zpower radix2 (- e)) by lia.
          rewrite <- bpow_opp. f_equal. lia. }
        rewrite Eb. set (q := (Z.pos m / d)%Z).
        assert (D0 : 0 < IZR d) by now apply IZR_lt.
        assert (Q1 : IZR q * IZR d <= IZR (Z.pos m)).
        { rewrite <- mult_IZR. apply IZR_le. rewrite Z.mul_comm. apply Z.mul_div_le. exact Hd. }
        assert (Q2 : IZR (Z.pos m) < (IZR q + 1) * IZR d).
        { change 1 with (IZR 1). rewrite <- plus_IZR, <- mult_IZR. apply IZR_lt.
          rewrite Z.mul_comm. apply Z.mul_succ_div_gt. exact Hd. }
        set (X := IZR (Z.pos m) * / IZR d).
        assert (EX : IZR (Z.pos m) = X * IZR d) by (unfold X; field; lra).
        rewrite EX in Q1, Q2.
        assert (0 <= X - IZR q < 1) by (split; nra).
        rewrite Rabs_pos_eq; lra. }
    clearbody a. intros [= <-]. split; [reflexivity|]. cbn [B2R]. unfold F2R; cbn [Fnum Fexp]. destruct s; cbn [cond_Zopp]; [|exact H].
    rewrite <- Rabs_Ropp.
    match goal with |- context [IZR ?z * bpow radix2 e] => replace (IZR z) with (- IZR (Z.pos m)) by reflexivity end.
    rewrite opp_IZR.
    replace (- (- IZR (Z.pos m) * bpow radix2 e - - IZR a)) with (IZR (Z.pos m) * bpow radix2 e - IZR a) by ring.
    exact H.
Qed.

Lemma b64_gt_zero_R (X : Bf) : is_finite X = true -> b64_gt (B2SF X) b64_zero = true -> 0 < B2R X.
Proof.
  intros FX H. change (Bltb (B754_zero false) X = true) in H.
  rewrite (Bltb_correct 53 1024 (B754_zero false) X eq_refl FX) in H. cbn [B2R] in H.
  now destruct (Rlt_bool_spec 0 (B2R X)).
Qed.

Lemma Bsign_of_pos (x : Bf) : 0 < B2R x -> Bsign x = false.
Proof.
  destruct x as [s|s| |s m e B]; cbn [B2R Bsign]; try lra.
  destruct s; [|reflexivity]. intros H. exfalso.
  assert (F2R (Float radix2 (cond_Zopp true (Z.pos m)) e) < 0) by (apply F2R_lt_0; cbn; lia). lra.
Qed.

(** a sum of two non-negative finite numbers that is not finite is +Inf *)
Lemma Bplus_overflow_pos (x y : Bf) :
  is_finite x = true -> is_finite y = true -> 0 <= B2R x -> 0 <= B2R y ->
  is_finite (Bplus mode_NE x y) = false -> B2SF (Bplus mode_NE x y) = S754_infinity false.
Proof.
  intros Fx Fy X0 Y0 NF.
  pose proof (Bplus_correct 53 1024 _ _ mode_NE x y Fx Fy) as H. cbn [round_mode] in H.
  destruct (Rlt_bool_spec (Rabs (RN (B2R x + B2R y))) (bpow radix2 1024)) as [L|L].
  - destruct H as (_ & H & _). congruence.
  - destruct H as [H S]. rewrite H.
    assert (P : 0 < B2R x + B2R y).
    { destruct (Req_dec (B2R x + B2R y) 0) as [Z|Z]; [|lra].
      rewrite Z, round_0, Rabs_R0 in L by typeclasses eauto.
      pose proof (bpow_gt_0 radix2 1024). lra. }
    assert (Sx : Bsign x = false).
    { destruct (Rlt_or_le 0 (B2R x)) as [Px|Px]; [now apply Bsign_of_pos|].
      rewrite S. apply Bsign_of_pos. lra. }
    rewrite Sx. reflexivity.
Qed.

(** * the interpolation step on binary64 values *)
Lemma interp_step m M (R S X : Bf) :
  F64 m -> F64 M -> 0 <= m ->
  is_finite R = true -> m <= B2R R <= M -> is_finite S = true -> m <= B2R S <= M ->
  is_finite X = true -> 0 <= B2R X <= 1 ->
  exists V : Bf,
    b64_add (b64_mul (B2SF R) (b64_sub b64_one (B2SF X))) (b64_mul (B2SF S) (B2SF X)) = B2SF V /\
    (is_finite V = true -> m - 2 * ulp64 m < B2R V <= M + ulp64 M) /\
    (is_finite V = false -> B2SF V = S754_infinity false).
Proof.
  intros Fm FM m0 FR HR FS HS FX HX.
  destruct one_exact as [F1 R1].
  unfold b64_one. rewrite b64_of_Z_BofZ, b64_sub_Bminus.
  destruct (one_minus_error (B2R X) HX) as [Hy _].
  destruct (Bminus_small (BofZ 1) X F1 FX) as [FY RY].
  { rewrite R1. apply Rabs_small_RN. rewrite Rabs_pos_eq; lra. }
  rewrite R1 in RY. set (Y := Bminus mode_NE (BofZ 1) X) in *.
  rewrite !b64_mul_Bmult.
  assert (Bnd : forall (A Z : Bf), m <= B2R A <= M -> 0 <= B2R Z <= 1 -> Rabs (RN (B2R A * B2R Z)) < bpow radix2 1024).
  { intros A Z HA HZ.
    apply Rle_lt_trans with (B2R A); [|eapply Rle_lt_trans; [apply Rle_abs|apply abs_B2R_lt_emax]].
    rewrite Rabs_pos_eq by (apply RN_nonneg; apply Rmult_le_pos; lra).
    rewrite <- (RN_id (B2R A) (F64_B2R A)) at 2. apply RN_le. nra. }
  destruct (Bmult_small R Y FR FY) as [FP1 RP1]; [apply Bnd; [exact HR|rewrite RY; exact Hy]|].
  destruct (Bmult_small S X FS FX) as [FP2 RP2]; [apply Bnd; assumption|].
  rewrite b64_add_Bplus. eexists. split; [reflexivity|]. split.
  - intros FV.
    destruct (Bplus_cases _ _ FP1 FP2) as [(_ & RV & _)|(NF & _)]; [|congruence].
    rewrite RV, RP1, RP2, RY. split.
    + apply interp_lower; auto; lra.
    + apply interp_upper; auto; lra.
  - apply Bplus_overflow_pos; auto.
    + rewrite RP1. apply RN_nonneg. apply Rmult_le_pos; [lra|]. rewrite RY. lra.
    + rewrite RP2. apply RN_nonneg. apply Rmult_le_pos; lra.
Qed.

(** * percentile *)
Lemma widen m M v : m <= M -> m <= v <= M -> m - 2 * ulp64 m < v <= M + ulp64 M.
Proof. intros _ H. pose proof (ulp64_pos m). pose proof (ulp64_pos M). lra. Qed.

Lemma inR_widen m M x : inR m M x ->
  exists V : Bf, x = B2SF V /\ (is_finite V = true -> m - 2 * ulp64 m < B2R V <= M + ulp64 M)
                 /\ (is_finite V = false -> B2SF V = S754_infinity false).
Proof.
  intros (V & -> & FV & HV). exists V. split; [reflexivity|]. split; [|congruence].
  intros _. apply widen; lra.
Qed.

Theorem percentile_bounds m M a (P : Bf) v :
  a <> [] -> (Z.of_nat (length a) < 2 ^ 53)%Z -> Forall (inR m M) a -> F64 m -> F64 M -> 0 <= m ->
  percentile a (B2SF P) = Some v ->
  exists V : Bf, v = B2SF V /\ (is_finite V = true -> m - 2 * ulp64 m < B2R V <= M + ulp64 M)
                 /\ (is_finite V = false -> B2SF V = S754_infinity false).
Proof.
  intros Ne Len Ha Fm FM m0. unfold percentile. destruct a as [|a0 a']; [congruence|].
  set (a := a0 :: a') in *.
  assert (Hl : (0 < length a)%nat) by (cbn; lia).
  destruct (b64_eq (B2SF P) b64_zero).
  { intros [= <-]. apply inR_widen. now inversion Ha. }
  destruct (b64_eq (B2SF P) b64_one).
  { intros [= <-]. apply inR_widen. apply nth_inR; auto. unfold a. cbn [length]. lia. }
  rewrite b64_of_Z_BofZ, b64_mul_Bmult. set (F := Bmult mode_NE (BofZ (Z.of_nat (length a))) P).
  destruct (b64_trunc (B2SF F)) as [i|] eqn:Et; [|discriminate].
  destruct (trunc_spec F i Et) as [FF HF].
  destruct ((i <? 0)%Z || (Z.of_nat (length a) <=? i)%Z) eqn:Eb; [discriminate|].
  apply orb_false_iff in Eb as [B1 B2]. apply Z.ltb_ge in B1. apply Z.leb_gt in B2.
  assert (Hk : (Z.to_nat i < length a)%nat) by lia.
  pose proof (nth_inR m M a (Z.to_nat i) Ha Hk) as HRr.
  rewrite b64_of_Z_BofZ, b64_sub_Bminus.
  destruct (BofZ_exact i ltac:(lia)) as [FI RI].
  destruct (Bminus_small F (BofZ i) FF FI) as [FX RX].
  { rewrite RI. apply Rabs_small_RN. lra. }
  rewrite RI in RX. set (X := Bminus mode_NE F (BofZ i)) in *.
  destruct (b64_gt (B2SF X) b64_zero && (Z.to_nat i + 1 <? length a)%nat) eqn:Eg.
  2:{ intros [= <-]. now apply inR_widen. }
  apply andb_true_iff in Eg as [G1 G2]. apply Nat.ltb_lt in G2.
  pose proof (b64_gt_zero_R X FX G1) as X0.
  assert (X1 : B2R X <= 1).
  { rewrite RX, <- RN_1. apply RN_le. apply Rabs_lt_inv in HF. lra. }
  pose proof (nth_inR m M a (Z.to_nat i + 1) Ha G2) as HSs.
  destruct HRr as (R & -> & FR & HR). destruct HSs as (S & -> & FS & HS).
  intros [= <-]. apply (interp_step m M R S X); auto. lra.
Qed.

(** * the summary *)
Lemma valid_lift x : valid x = true -> exists X : Bf, x = B2SF X.
Proof. intros V. exists (SF2B x V). now rewrite B2SF_SF2B. Qed.

Lemma b64_gt_R (X Y : Bf) : is_finite X = true -> is_finite Y = true ->
  b64_gt (B2SF X) (B2SF Y) = Rlt_bool (B2R Y) (B2R X).
Proof. intros FX FY. unfold b64_gt. fold (b64_lt (B2SF Y) (B2SF X)). now apply b64_lt_R. Qed.

Lemma finite_lift (V : Bf) : b64_is_finite (B2SF V) = true -> is_finite V = true.
Proof. now rewrite b64_is_finite_B2SF. Qed.

Lemma inf_gt_finite (C : Bf) : is_finite C = true -> b64_gt (S754_infinity false) (B2SF C) = true.
Proof. destruct C as [s|s| |s m e B]; try discriminate; intros _; destruct s; reflexivity. Qed.

(** low and high of the repaired summary of a vector within [m, M], m >= 0:
    within (m - 2 ulp m, M + ulp M], and ordered around the centre *)
Lemma summarize_bounds m M conf sorted s :
  valid conf = true -> sorted <> [] -> (Z.of_nat (length sorted) < 2 ^ 53)%Z ->
  Forall (inR m M) sorted -> F64 m -> F64 M -> 0 <= m ->
  inR m M (median sorted) ->
  summarize conf sorted = Some s ->
  b64_is_finite (s_high s) = true ->
  m - 2 * ulp64 m < val (s_low s) <= M + ulp64 M /\
  m - 2 * ulp64 m < val (s_high s) <= M + ulp64 M /\
  b64_le (s_low s) (s_center s) = true /\ b64_le (s_center s) (s_high s) = true.
Proof.
  intros Vc Ne Len Ha Fm FM m0 (Cc & Ec & FC & HC).
  destruct (valid_lift conf Vc) as [C ->].
  unfold summarize, summarize_asis.
  unfold b64_one, b64_two. rewrite !b64_of_Z_BofZ, b64_sub_Bminus, b64_div_Bdiv, b64_sub_Bminus.
  destruct (percentile sorted (B2SF _)) as [l|] eqn:E1; [|discriminate].
  destruct (percentile sorted (B2SF (Bminus _ _ _))) as [h|] eqn:E2; [|discriminate].
  destruct (percentile_bounds m M sorted _ l Ne Len Ha Fm FM m0 E1) as (VL & -> & BL & IL).
  destruct (percentile_bounds m M sorted _ h Ne Len Ha Fm FM m0 E2) as (VH & -> & BH & _).
  cbn [option_map]. intros [= <-]. unfold clamp_summary. cbn [s_low s_high s_center]. rewrite Ec.
  pose proof (widen m M (B2R Cc) ltac:(lra) HC) as WC.
  intros FH.
  assert (LOW : m - 2 * ulp64 m < val (if b64_gt (B2SF VL) (B2SF Cc) then B2SF Cc else B2SF VL) <= M + ulp64 M
                /\ b64_le (if b64_gt (B2SF VL) (B2SF Cc) then B2SF Cc else B2SF VL) (B2SF Cc) = true).
  { destruct (b64_gt (B2SF VL) (B2SF Cc)) eqn:G.
    - rewrite val_B2SF. split; [exact WC|]. apply b64_le_R; auto; lra.
    - assert (FL : is_finite VL = true).
      { destruct (is_finite VL) eqn:FL; [reflexivity|exfalso].
        rewrite (IL eq_refl) in G. now rewrite (inf_gt_finite Cc FC) in G. }
      rewrite val_B2SF. split; [now apply BL|].
      rewrite (b64_gt_R VL Cc FL FC) in G. apply b64_le_R; auto.
      now destruct (Rlt_bool_spec (B2R Cc) (B2R VL)). }
  assert (HIGH : m - 2 * ulp64 m < val (if b64_lt (B2SF VH) (B2SF Cc) then B2SF Cc else B2SF VH) <= M + ulp64 M
                /\ b64_le (B2SF Cc) (if b64_lt (B2SF VH) (B2SF Cc) then B2SF Cc else B2SF VH) = true).
  { destruct (b64_lt (B2SF VH) (B2SF Cc)) eqn:G.
    - rewrite val_B2SF. split; [exact WC|]. apply b64_le_R; auto; lra.
    - try rewrite G in FH. apply finite_lift in FH. rewrite val_B2SF. split; [now apply BH|].
      rewrite (b64_lt_R VH Cc FH FC) in G. apply b64_le_R; auto.
      now destruct (Rlt_bool_spec (B2R VH) (B2R Cc)). }
  tauto.
Qed.

Lemma nonneg_finite_fin x : nonneg_finite x = true ->
  exists X : Bf, x = B2SF X /\ is_finite X = true /\ 0 <= B2R X.
Proof.
  unfold nonneg_finite. intros H. apply andb_true_iff in H as [V P].
  exists (SF2B x V). rewrite B2SF_SF2B. split; [reflexivity|].
  rewrite <- val_B2SF, <- sf_finite_B2SF, B2SF_SF2B.
  destruct x as [s| | |[|] mx ex]; try discriminate; split; try reflexivity; unfold val; cbn [SF2R]; try lra.
  apply Rlt_le, F2R_gt_0. reflexivity.
Qed.

(** bootstrap_low_high_near_range: for ANY vector of non-negative finite
    ratios, low and high of the repaired summary leave the range
    [rmin, rmax] of the ratios by at most one ulp(rmax) upwards and by less
    than two ulp(rmin) downwards - this is all the interpolation
    r*(1-x) + a[i+1]*x can do - and low <= centre <= high.
    Guards: the median of an even number of ratios does not overflow
    ([even_guard]) and the interpolated high is finite (this can fail only
    when rmax is the largest finite float64; an overflowing low is +Inf and
    is clamped to the centre). *)
Theorem summary_low_high_near_range conf sorted s :
  valid conf = true -> sorted <> [] -> (Z.of_nat (length sorted) < 2 ^ 53)%Z ->
  forallb nonneg_finite sorted = true ->
  even_guard (length sorted) (fmax sorted) = true ->
  summarize conf sorted = Some s ->
  b64_is_finite (s_high s) = true ->
  let rmin := val (fmin sorted) in let rmax := val (fmax sorted) in
  rmin - 2 * ulp64 rmin < val (s_low s) <= rmax + ulp64 rmax /\
  rmin - 2 * ulp64 rmin < val (s_high s) <= rmax + ulp64 rmax /\
  b64_le (s_low s) (s_center s) = true /\ b64_le (s_center s) (s_high s) = true.
Proof.
  intros Vc Ne Len Hn G Es FH.
  assert (Hf : Forall fin sorted /\ Forall (fun x => 0 <= val x) sorted).
  { rewrite forallb_forall in Hn. split; rewrite Forall_forall; intros x Ix;
      destruct (nonneg_finite_fin x (Hn x Ix)) as (X & -> & FX & PX); [now exists X|now rewrite val_B2SF]. }
  destruct Hf as [Hf Hp].
  destruct (fmin_fmax_spec sorted Ne Hf) as (MN & MX & E1 & E2 & FMN & FMX & I1 & _ & Hr).
  rewrite E1, E2, !val_B2SF. cbv zeta.
  assert (P0 : 0 <= B2R MN).
  { rewrite Forall_forall in Hp. specialize (Hp _ I1). now rewrite E1, val_B2SF in Hp. }
  rewrite E2 in G. pose proof (even_guard_R _ MX FMX G) as G'.
  apply (summarize_bounds (B2R MN) (B2R MX) conf sorted s); auto using F64_B2R.
  apply median_inR; auto using F64_B2R.
Qed.

(** bootstrap_low_high_in_hull_up_to_one_ulp: the known finding, quantified.
    For positive samples under the guard of bootstrap_centre_in_hull, low and
    high of the repaired [ratio] lie in the hull [lo, hi] =
    [min num / max den, max num / min den] widened by the rounding error of
    percentile's interpolation: lo - 2 ulp(lo) < low, high <= hi + ulp(hi)
    (same for the other two combinations), and low <= centre <= high. *)
Theorem bootstrap_low_high_in_hull_up_to_one_ulp nu de conf n stream sorted s :
  nu <> [] -> de <> [] -> n <> O -> (Z.of_nat n < 2 ^ 53)%Z ->
  forallb pos_sample nu = true -> forallb pos_sample de = true ->
  valid conf = true ->
  intn_stream n (length nu) (length de) stream = true ->
  hull_guard nu de n = true ->
  ratio nu de conf n stream = Some (sorted, Some s) ->
  b64_is_finite (s_high s) = true ->
  let lo := val (hull_lo nu de) in let hi := val (hull_hi nu de) in
  lo - 2 * ulp64 lo < val (s_low s) <= hi + ulp64 hi /\
  lo - 2 * ulp64 lo < val (s_high s) <= hi + ulp64 hi /\
  b64_le (s_low s) (s_center s) = true /\ b64_le (s_center s) (s_high s) = true.
Proof.
  intros Nn Nd N0 Nb Pn Pd Vc Hs G E FH.
  destruct (ratio_gen_inv _ _ _ _ _ _ _ _ E) as (rs & Er & -> & Es).
  destruct (ratios_in_hull nu de n stream rs Nn Nd N0 Pn Pd Hs G Er) as [L H EL EH FLo FHi L0 Hr Len Hc].
  rewrite EL, EH, !val_B2SF. cbv zeta.
  apply (summarize_bounds (B2R L) (B2R H) conf (sort_f rs) s); auto using F64_B2R.
  - intros Z. rewrite Z in Len. cbn in Len. congruence.
  - now rewrite Len.
Qed.

(** the same bounds relative to the range of the bootstrap ratios themselves *)
Theorem bootstrap_low_high_near_ratio_range nu de conf n stream sorted s :
  nu <> [] -> de <> [] -> n <> O -> (Z.of_nat n < 2 ^ 53)%Z ->
  forallb pos_sample nu = true -> forallb pos_sample de = true ->
  valid conf = true ->
  intn_stream n (length nu) (length de) stream = true ->
  hull_guard nu de n = true ->
  ratio nu de conf n stream = Some (sorted, Some s) ->
  b64_is_finite (s_high s) = true ->
  let rmin := val (fmin sorted) in let rmax := val (fmax sorted) in
  val (hull_lo nu de) <= rmin /\ rmax <= val (hull_hi nu de) /\
  rmin - 2 * ulp64 rmin < val (s_low s) <= rmax + ulp64 rmax /\
  rmin - 2 * ulp64 rmin < val (s_high s) <= rmax + ulp64 rmax.
Proof.
  intros Nn Nd N0 Nb Pn Pd Vc Hs G E FH.
  destruct (ratio_gen_inv _ _ _ _ _ _ _ _ E) as (rs & Er & -> & Es).
  destruct (ratios_in_hull nu de n stream rs Nn Nd N0 Pn Pd Hs G Er) as [L H EL EH FLo FHi L0 Hr Len Hc].
  assert (Ne : sort_f rs <> []) by (intros Z; rewrite Z in Len; cbn in Len; congruence).
  assert (Hf : Forall fin (sort_f rs)) by (eapply Forall_impl; [|exact Hr]; intros x; apply inR_fin).
  destruct (fmin_fmax_spec _ Ne Hf) as (MN & MX & E1 & E2 & FMN & FMX & I1 & I2 & Hr').
  rewrite EL, EH, E1, E2, !val_B2SF. cbv zeta.
  rewrite Forall_forall in Hr.
  destruct (Hr _ I1) as (X1 & EX1 & _ & HX1). rewrite E1 in EX1. apply B2SF_inj in EX1. subst X1.
  destruct (Hr _ I2) as (X2 & EX2 & _ & HX2). rewrite E2 in EX2. apply B2SF_inj in EX2. subst X2.
  split; [lra|]. split; [lra|].
  assert (Hc' : inR (B2R MN) (B2R MX) (median (sort_f rs))).
  { (* the median is an element or a midpoint of two elements of the vector *)
    destruct Hc as (Cc & Ec & FC & HC).
    unfold median in *.
    assert (Hl : (0 < length (sort_f rs))%nat) by (destruct (sort_f rs); [congruence|cbn; lia]).
    assert (Hh : (Nat.div (length (sort_f rs)) 2 < length (sort_f rs))%nat) by (apply Nat.div_lt; lia).
    destruct (Nat.odd (length (sort_f rs))) eqn:Eo.
    - apply nth_inR; auto.
    - (* even: the guard of the hull bounds the sum of two ratios *)
      unfold hull_guard in G. apply andb_true_iff in G as [_ G4].
      rewrite EH in G4. rewrite Len in Eo.
      destruct (even_guard_R _ H FHi G4) as [O|G']; [congruence|].
      apply avg_inR; auto using F64_B2R; try lra.
      + eapply Rle_lt_trans; [|exact G']. apply RN_le. lra.
      + apply nth_inR; auto.
      + apply nth_inR; auto. lia. }
  destruct (summarize_bounds (B2R MN) (B2R MX) conf (sort_f rs) s Vc Ne ltac:(now rewrite Len) Hr'
              (F64_B2R _) (F64_B2R _) ltac:(lra) Hc' (eq_sym Es) FH) as (B1 & B2 & _).
  split; assumption.
Qed.

Print Assumptions bootstrap_low_high_in_hull_up_to_one_ulp.
