(** The R8 interpolation of Sample.Percentile (internal/stats/sample.go) in
    binary64, as coded:   a + frac * (b - a)   with a <= b, 0 <= frac < 1.

    interp_bounds (over R):  a <= RN(a + RN(frac * RN(b - a))) <= b.
      Lower bound: rounding is monotone. Upper bound: if b - a is exact,
      frac * d <= d = b - a. If not, d = RN(b - a) may exceed b - a, but
      frac <= 1 - 2^-53 pulls frac * d strictly below the midpoint between
      DN(b - a) and its successor, so RN(frac * d) <= DN(b - a) <= b - a.
      (With frac = 1 the claim is false: a = -2^60, b = 255 gives 256.)

    percentile_between_neighbours_b64: the same over [b64] absent overflow of b - a.
    Through Flocq (classical reals in Print Assumptions). *)
From Coq Require Import ZArith Reals Lia Lra Bool List.
From Flocq Require Import Core BinarySingleNaN Plus_error.
From Perf Require Import Base.Bytes Base.B64 Proofs.B64Flocq Proofs.LegacyMean Proofs.B64Ops.
Local Open Scope R_scope.

Lemma F64_1 : F64 1.
Proof. change 1 with (bpow radix2 0). apply generic_format_bpow. cbn. lia. Qed.

(** a binary64 value below 1 is at most 1 - 2^-53 *)
Lemma below_one fr : F64 fr -> fr < 1 -> fr <= 1 - bpow radix2 (-53).
Proof.
  intros Ff H1. pose proof (pred_ge_gt radix2 fexp64 fr 1 Ff F64_1 H1) as H.
  change 1 with (bpow radix2 0) in H. rewrite pred_bpow in H. exact H.
Qed.

Lemma RN_mul_le_DN fr x :
  F64 fr -> 0 <= fr < 1 -> ~ F64 x -> bpow radix2 (53 + -1074) < x ->
  RN (fr * RN x) <= round radix2 fexp64 Zfloor x.
Proof.
  intros Ff [F0 F1] NFx Hbig.
  set (dn := round radix2 fexp64 Zfloor x). set (up := round radix2 fexp64 Zceil x).
  assert (Hx : 0 <= x) by (pose proof (bpow_gt_0 radix2 (53 + -1074)); lra).
  assert (Fdn : F64 dn) by (apply generic_format_round; typeclasses eauto).
  assert (Hdn : bpow radix2 (53 + -1074) <= dn).
  { apply round_ge_generic; try typeclasses eauto; [|lra]. apply generic_format_bpow. cbn. lia. }
  assert (Hdnpos : 0 < dn) by (pose proof (bpow_gt_0 radix2 (53 + -1074)); lra).
  assert (Hup : up = dn + ulp radix2 fexp64 dn).
  { unfold up. rewrite (round_UP_DN_ulp radix2 fexp64 x NFx). fold dn.
    rewrite <- (ulp_DN radix2 fexp64 x Hx). reflexivity. }
  assert (Hd : RN x <= up).
  { destruct (round_DN_or_UP radix2 fexp64 ZnearestE x) as [E|E]; rewrite E; fold dn; fold up; [|lra].
    rewrite Hup. pose proof (ulp_ge_0 radix2 fexp64 dn). lra. }
  assert (Hd0 : 0 <= RN x) by now apply RN_nonneg.
  (* ulp dn <= 2^-52 dn *)
  assert (Hulp : ulp radix2 fexp64 dn <= dn * bpow radix2 (1 - 53)).
  { pose proof (ulp_FLT_le radix2 (-1074) 53 dn) as H. rewrite Rabs_pos_eq in H by lra.
    apply H. apply Rle_trans with (2 := Hdn). apply bpow_le. lia. }
  assert (Hulp0 : 0 < ulp radix2 fexp64 dn).
  { rewrite ulp_neq_0 by lra. apply bpow_gt_0. }
  pose proof (below_one fr Ff F1) as Hfr.
  assert (E52 : bpow radix2 (1 - 53) = 2 * bpow radix2 (-53)).
  { change (1 - 53)%Z with (1 + -53)%Z. rewrite bpow_plus. reflexivity. }
  rewrite E52 in Hulp.
  pose proof (bpow_gt_0 radix2 (-53)) as Hu. set (u := bpow radix2 (-53)) in *.
  set (w := ulp radix2 fexp64 dn) in *.
  apply round_N_le_midp; [typeclasses eauto|exact Fdn|].
  rewrite succ_eq_pos by lra. fold w.
  apply Rle_lt_trans with ((1 - u) * (dn + w)).
  - apply Rle_trans with (fr * up); [apply Rmult_le_compat_l; lra|].
    rewrite Hup. apply Rmult_le_compat_r; lra.
  - nra.
Qed.

Theorem interp_bounds a b fr :
  F64 a -> F64 b -> F64 fr -> a <= b -> 0 <= fr < 1 ->
  a <= RN (a + RN (fr * RN (b - a))) <= b.
Proof.
  intros Fa Fb Ff Hab [F0 F1].
  set (x := b - a). assert (Hx : 0 <= x) by (unfold x; lra).
  assert (Hd0 : 0 <= RN x) by now apply RN_nonneg.
  assert (Hp0 : 0 <= RN (fr * RN x)) by (apply RN_nonneg; apply Rmult_le_pos; lra).
  split.
  - apply RN_ge_F; [exact Fa|lra].
  - apply RN_le_F; [exact Fb|].
    cut (RN (fr * RN x) <= x); [unfold x; lra|].
    destruct (generic_format_EM radix2 fexp64 x) as [Fx|NFx].
    + rewrite (RN_id x Fx). apply RN_le_F; [exact Fx|]. nra.
    + assert (Hbig : bpow radix2 (53 + -1074) < x).
      { apply Rnot_le_lt. intros Hle. apply NFx. unfold x, Rminus.
        apply (FLT_format_plus_small radix2 (-1074) 53 b (- a)).
        - exact Fb.
        - apply generic_format_opp. exact Fa.
        - fold (b - a). fold x. rewrite Rabs_pos_eq; auto. }
      eapply Rle_trans; [apply (RN_mul_le_DN fr x Ff (conj F0 F1) NFx Hbig)|].
      apply round_DN_pt. typeclasses eauto.
Qed.

(** ** over [b64] *)
Lemma interp_B (A B Fr : Bf) :
  is_finite A = true -> is_finite B = true -> is_finite Fr = true ->
  B2R A <= B2R B -> 0 <= B2R Fr < 1 ->
  b64_is_finite (b64_sub (B2SF B) (B2SF A)) = true ->
  exists Rr : Bf, b64_add (B2SF A) (b64_mul (B2SF Fr) (b64_sub (B2SF B) (B2SF A))) = B2SF Rr
    /\ is_finite Rr = true /\ B2R A <= B2R Rr <= B2R B.
Proof.
  intros FA FB FF Hab Hfr Hov.
  pose proof (sub_finite_R B A FB FA Hov) as Hd.
  destruct (sub_R B A FB FA Hd) as (D & -> & FD & RD).
  assert (HD0 : 0 <= B2R D) by (rewrite RD; apply RN_nonneg; lra).
  assert (Hp : 0 <= RN (B2R Fr * B2R D) <= B2R D).
  { split; [apply RN_nonneg; apply Rmult_le_pos; lra|].
    apply RN_le_F; [apply F64_B2R|]. nra. }
  destruct (mul_R Fr D FF FD) as (P & -> & FP & RP).
  { apply Rabs_lt_of_bounds with 0 (B2R D); auto.
    - pose proof (bpow_gt_0 radix2 1024). lra.
    - pose proof (abs_B2R_lt_emax 53 1024 D) as H. apply Rabs_def2 in H. lra. }
  pose proof (interp_bounds (B2R A) (B2R B) (B2R Fr) (F64_B2R A) (F64_B2R B) (F64_B2R Fr) Hab Hfr) as Hb.
  rewrite <- RD, <- RP in Hb.
  destruct (add_R A P FA FP) as (Rr & -> & FR & RR).
  { apply (Rabs_between (B2R A) (B2R B)); auto; apply abs_B2R_lt_emax. }
  exists Rr. rewrite RR. auto.
Qed.

(** Theorem (percentile_between_neighbours_b64). For valid finite binary64
    values a <= b and 0 <= frac < 1, if b - a does not overflow then
    a + frac * (b - a), each operation rounded, is finite and lies in [a, b]. *)
Theorem percentile_between_neighbours_b64 (a b frac : b64) :
  valid a = true -> valid b = true -> valid frac = true ->
  b64_is_finite a = true -> b64_is_finite b = true ->
  b64_le a b = true -> b64_le b64_zero frac = true -> b64_lt frac b64_one = true ->
  b64_is_finite (b64_sub b a) = true ->
  let r := b64_add a (b64_mul frac (b64_sub b a)) in
  valid r = true /\ b64_is_finite r = true /\ b64_le a r = true /\ b64_le r b = true.
Proof.
  intros Va Vb Vf Fa Fb Hab H0 H1 Hov. cbn zeta.
  destruct (lift_valid a Va) as [A ->]. destruct (lift_valid b Vb) as [B ->].
  destruct (lift_valid frac Vf) as [Fr ->].
  rewrite b64_is_finite_B2SF in Fa, Fb.
  assert (FF : is_finite Fr = true).
  { destruct Fr as [s|[|]| |s m e Bd]; try reflexivity; discriminate. }
  destruct B2R_one as [F1 R1].
  assert (Hfr : 0 <= B2R Fr < 1).
  { split.
    - rewrite b64_zero_B in H0. apply (SFleb_R Bzero Fr eq_refl FF H0).
    - rewrite b64_one_B in H1. rewrite <- R1. apply (SFltb_R Fr (BofZ 1) FF F1 H1). }
  pose proof (SFleb_R A B Fa Fb Hab) as HabR.
  destruct (interp_B A B Fr Fa Fb FF HabR Hfr Hov) as (Rr & -> & FR & HR).
  split; [apply valid_binary_B2SF|]. split; [now rewrite b64_is_finite_B2SF|].
  split; apply b64_le_of_R; auto; lra.
Qed.

(** frac < 1 is needed: with frac = 1, a = -2^60, b = 255 the result is 256 *)
Example interp_frac_one_escapes :
  let a := b64_of_Z (- 2 ^ 60) in let b := b64_of_Z 255 in
  b64_le a b = true /\ b64_is_finite (b64_sub b a) = true /\
  b64_add a (b64_mul b64_one (b64_sub b a)) = b64_of_Z 256.
Proof. vm_compute. repeat split. Qed.
